package main

// sections.go — the tie of the Coq section table to the source: parse memmap.go and mem/*.go
// with go/ast and extract, per function, the SEQUENCE of lock operations in source order with the
// control structure that surrounds them:
//
//	mu.Lock mu.RLock mu.Unlock mu.RUnlock        operations on MemMapFs.mu
//	<recv>.Lock <recv>.Unlock                    operations on a FileData mutex (receiver as written)
//	defer:<op>                                   the operation is deferred
//	call:<name>                                  call of a function of these files that (transitively)
//	                                             performs a lock operation or can panic explicitly
//	panic                                        log.Panic / panic
//	ret                                          return statement
//	if{ … } else{ … } for{ … } switch{ case{ … } } func{ … }   only when something above is inside
//
// Functions without any such token are not listed.  The Coq model declares the same table
// (Model/Conc.v, cc_locktab); the model runner prints it as `M l.<function> <sequence>`.

import (
	"fmt"
	"go/ast"
	"go/parser"
	"go/token"
	"os"
	"path/filepath"
	"sort"
	"strconv"
	"strings"
)

type LockLine struct{ Name, Seq string }

type lnode struct {
	tok  string   // leaf token, or "" for a block
	open string   // block opener: if{ else{ for{ ...
	kids []*lnode // block content
	call []string // for call leaves: candidate function keys
}

type fnInfo struct {
	key  string
	recv string // receiver identifier
	typ  string // receiver type key prefix, e.g. "MemMapFs" or "mem.File"
	pkg  string // "" or "mem."
	body *ast.BlockStmt
	tree []*lnode
}

var stdPkgs = map[string]bool{"atomic": true, "filepath": true, "strings": true, "sort": true, "os": true, "io": true,
	"bytes": true, "errors": true, "time": true, "fmt": true, "common": true, "sync": true, "fs": true}

func exprText(e ast.Expr) string {
	switch x := e.(type) {
	case *ast.Ident:
		return x.Name
	case *ast.SelectorExpr:
		return exprText(x.X) + "." + x.Sel.Name
	case *ast.CallExpr:
		return exprText(x.Fun) + "()"
	case *ast.IndexExpr:
		return exprText(x.X) + "[]"
	case *ast.StarExpr:
		return exprText(x.X)
	case *ast.ParenExpr:
		return exprText(x.X)
	}
	return "?"
}

func recvType(fd *ast.FuncDecl) (name, typ string) {
	if fd.Recv == nil || len(fd.Recv.List) == 0 {
		return "", ""
	}
	f := fd.Recv.List[0]
	if len(f.Names) > 0 {
		name = f.Names[0].Name
	}
	t := f.Type
	if s, ok := t.(*ast.StarExpr); ok {
		t = s.X
	}
	if id, ok := t.(*ast.Ident); ok {
		typ = id.Name
	}
	return
}

type extractor struct {
	fns map[string]*fnInfo
	cur *fnInfo
}

func (x *extractor) lockOp(call *ast.CallExpr) (string, bool) {
	sel, ok := call.Fun.(*ast.SelectorExpr)
	if !ok || len(call.Args) != 0 {
		return "", false
	}
	switch sel.Sel.Name {
	case "Lock", "Unlock", "RLock", "RUnlock":
	default:
		return "", false
	}
	r := exprText(sel.X)
	if strings.HasSuffix(r, ".mu") || r == "mu" {
		r = "mu"
	}
	return r + "." + sel.Sel.Name, true
}

func (x *extractor) candidates(call *ast.CallExpr) (name string, keys []string, isPanic bool) {
	switch f := call.Fun.(type) {
	case *ast.Ident:
		if f.Name == "panic" {
			return "", nil, true
		}
		k := x.cur.pkg + f.Name
		if _, ok := x.fns[k]; ok {
			return f.Name, []string{k}, false
		}
	case *ast.SelectorExpr:
		if id, ok := f.X.(*ast.Ident); ok {
			if id.Name == "log" && strings.HasPrefix(f.Sel.Name, "Panic") {
				return "", nil, true
			}
			if id.Name == "mem" {
				k := "mem." + f.Sel.Name
				if _, ok := x.fns[k]; ok {
					return f.Sel.Name, []string{k}, false
				}
				return "", nil, false
			}
			if stdPkgs[id.Name] {
				return "", nil, false
			}
			if x.cur.recv != "" && id.Name == x.cur.recv {
				k := x.cur.typ + "." + f.Sel.Name
				if _, ok := x.fns[k]; ok {
					return f.Sel.Name, []string{k}, false
				}
			}
		}
		if strings.Contains(exprText(f.X), "memDir") {
			return "", nil, false // the Dir interface (DirMap): no locks
		}
		for _, t := range []string{"mem.File", "mem.FileData", "mem.FileInfo"} {
			k := t + "." + f.Sel.Name
			if _, ok := x.fns[k]; ok {
				keys = append(keys, k)
			}
		}
		if len(keys) > 0 {
			return f.Sel.Name, keys, false
		}
	}
	return "", nil, false
}

// exprs walks an expression in evaluation order and collects calls
func (x *extractor) expr(e ast.Node, deferred bool) []*lnode {
	var out []*lnode
	if e == nil {
		return nil
	}
	ast.Inspect(e, func(n ast.Node) bool {
		switch v := n.(type) {
		case *ast.FuncLit:
			b := &lnode{open: "func{", kids: x.block(v.Body.List)}
			out = append(out, b)
			return false
		case *ast.CallExpr:
			// arguments and receiver first (evaluation order), then the call itself
			for _, a := range v.Args {
				out = append(out, x.expr(a, false)...)
			}
			if s, ok := v.Fun.(*ast.SelectorExpr); ok {
				out = append(out, x.expr(s.X, false)...)
			}
			pre := ""
			if deferred {
				pre = "defer:"
			}
			if op, ok := x.lockOp(v); ok {
				out = append(out, &lnode{tok: pre + op})
			} else if name, keys, isPanic := x.candidates(v); isPanic {
				out = append(out, &lnode{tok: pre + "panic"})
			} else if len(keys) > 0 {
				out = append(out, &lnode{tok: pre + "call:" + name, call: keys})
			}
			return false
		}
		return true
	})
	return out
}

func (x *extractor) block(stmts []ast.Stmt) []*lnode {
	var out []*lnode
	for _, s := range stmts {
		out = append(out, x.stmt(s)...)
	}
	return out
}

func (x *extractor) stmt(s ast.Stmt) []*lnode {
	switch v := s.(type) {
	case nil:
		return nil
	case *ast.BlockStmt:
		return x.block(v.List)
	case *ast.ExprStmt:
		return x.expr(v.X, false)
	case *ast.DeferStmt:
		return x.expr(v.Call, true)
	case *ast.GoStmt:
		return []*lnode{{open: "go{", kids: x.expr(v.Call, false)}}
	case *ast.ReturnStmt:
		var out []*lnode
		for _, r := range v.Results {
			out = append(out, x.expr(r, false)...)
		}
		return append(out, &lnode{tok: "ret"})
	case *ast.IfStmt:
		out := x.stmt(v.Init)
		out = append(out, x.expr(v.Cond, false)...)
		out = append(out, &lnode{open: "if{", kids: x.block(v.Body.List)})
		if v.Else != nil {
			out = append(out, &lnode{open: "else{", kids: x.stmt(v.Else)})
		}
		return out
	case *ast.ForStmt:
		out := x.stmt(v.Init)
		body := x.expr(v.Cond, false)
		body = append(body, x.block(v.Body.List)...)
		body = append(body, x.stmt(v.Post)...)
		return append(out, &lnode{open: "for{", kids: body})
	case *ast.RangeStmt:
		out := x.expr(v.X, false)
		return append(out, &lnode{open: "for{", kids: x.block(v.Body.List)})
	case *ast.SwitchStmt:
		out := x.stmt(v.Init)
		out = append(out, x.expr(v.Tag, false)...)
		var cases []*lnode
		for _, cc := range v.Body.List {
			cl := cc.(*ast.CaseClause)
			var k []*lnode
			for _, e := range cl.List {
				k = append(k, x.expr(e, false)...)
			}
			k = append(k, x.block(cl.Body)...)
			cases = append(cases, &lnode{open: "case{", kids: k})
		}
		return append(out, &lnode{open: "switch{", kids: cases})
	case *ast.TypeSwitchStmt:
		var cases []*lnode
		for _, cc := range v.Body.List {
			cl := cc.(*ast.CaseClause)
			cases = append(cases, &lnode{open: "case{", kids: x.block(cl.Body)})
		}
		return []*lnode{{open: "switch{", kids: cases}}
	case *ast.AssignStmt:
		var out []*lnode
		for _, e := range v.Rhs {
			out = append(out, x.expr(e, false)...)
		}
		for _, e := range v.Lhs {
			out = append(out, x.expr(e, false)...)
		}
		return out
	case *ast.DeclStmt, *ast.IncDecStmt, *ast.SendStmt, *ast.LabeledStmt, *ast.BranchStmt, *ast.EmptyStmt:
		var out []*lnode
		ast.Inspect(s, func(n ast.Node) bool {
			if e, ok := n.(ast.Expr); ok {
				out = append(out, x.expr(e, false)...)
				return false
			}
			return true
		})
		return out
	}
	return nil
}

// render prunes: call leaves to functions that are not relevant, blocks without relevant content
func render(ns []*lnode, relevant map[string]bool, top bool) []string {
	var out []string
	for _, n := range ns {
		switch {
		case n.open != "":
			in := render(n.kids, relevant, false)
			keep := false
			for _, t := range in {
				if t != "}" {
					keep = true
				}
			}
			if keep {
				out = append(out, n.open)
				out = append(out, in...)
				out = append(out, "}")
			}
		case n.call != nil:
			for _, k := range n.call {
				if relevant[k] {
					out = append(out, n.tok)
					break
				}
			}
		default:
			out = append(out, n.tok)
		}
	}
	return out
}

func hasDirect(ns []*lnode) bool {
	for _, n := range ns {
		if n.open != "" {
			if hasDirect(n.kids) {
				return true
			}
		} else if n.call == nil && n.tok != "ret" {
			return true
		}
	}
	return false
}

func calls(ns []*lnode, f func([]string)) {
	for _, n := range ns {
		if n.open != "" {
			calls(n.kids, f)
		} else if n.call != nil {
			f(n.call)
		}
	}
}

func extractLockTable(repo string) []LockLine {
	files := []struct{ path, pkg string }{
		{"memmap.go", ""}, {"mem/file.go", "mem."}, {"mem/dir.go", "mem."}, {"mem/dirmap.go", "mem."},
	}
	x := &extractor{fns: map[string]*fnInfo{}}
	fset := token.NewFileSet()
	for _, f := range files {
		af, err := parser.ParseFile(fset, filepath.Join(repo, f.path), nil, 0)
		if err != nil {
			panic(err)
		}
		for _, d := range af.Decls {
			fd, ok := d.(*ast.FuncDecl)
			if !ok || fd.Body == nil {
				continue
			}
			rn, rt := recvType(fd)
			key := f.pkg + fd.Name.Name
			typ := ""
			if rt != "" {
				typ = f.pkg + rt
				key = typ + "." + fd.Name.Name
			}
			x.fns[key] = &fnInfo{key: key, recv: rn, typ: typ, pkg: f.pkg, body: fd.Body}
		}
	}
	for _, fn := range x.fns {
		x.cur = fn
		fn.tree = x.block(fn.body.List)
	}
	// relevant = performs a lock operation / panics explicitly, directly or through a call
	relevant := map[string]bool{}
	for k, fn := range x.fns {
		if hasDirect(fn.tree) {
			relevant[k] = true
		}
	}
	// getData: the lazily created root (sync.Once) is not modelled — the root exists from the start
	delete(x.fns, "MemMapFs.getData")
	delete(relevant, "MemMapFs.getData")
	for changed := true; changed; {
		changed = false
		for k, fn := range x.fns {
			if relevant[k] {
				continue
			}
			calls(fn.tree, func(keys []string) {
				for _, c := range keys {
					if c == "MemMapFs.getData" {
						continue
					}
					if relevant[c] && !relevant[k] {
						relevant[k] = true
						changed = true
					}
				}
			})
		}
	}
	var out []LockLine
	for k, fn := range x.fns {
		if !relevant[k] {
			continue
		}
		toks := render(fn.tree, relevant, true)
		out = append(out, LockLine{Name: k, Seq: strings.Join(toks, " ")})
	}
	sort.Slice(out, func(i, j int) bool { return out[i].Name < out[j].Name })
	return out
}

func coqBytes(s string) string {
	var sb strings.Builder
	sb.WriteString("[")
	for i := 0; i < len(s); i++ {
		if i > 0 {
			sb.WriteString(";")
		}
		sb.WriteString(strconv.Itoa(int(s[i])))
	}
	sb.WriteString("]%N")
	return sb.String()
}

func writeConcTab(repo, out string) {
	var sb strings.Builder
	sb.WriteString("(* GENERATED by harness-conc/afcheck conctab from the AST of memmap.go and mem/{file,dir,dirmap}.go —\n")
	sb.WriteString("   do not edit.  Per Go function: its lock operations in source order (format: sections.go). *)\n")
	sb.WriteString("From AF Require Import Lib.Bytes.\n\n")
	sb.WriteString("Definition cc_locktab_src : list (list N * list N) := [\n")
	rows := extractLockTable(repo)
	for i, l := range rows {
		// a comment must not contain the characters that open or close a Coq comment
		txt := strings.NewReplacer("(*", "( *", "*)", "* )").Replace(l.Name + " : " + l.Seq)
		fmt.Fprintf(&sb, "  (* %s *)\n  (%s,\n   %s)", txt, coqBytes(l.Name), coqBytes(l.Seq))
		if i < len(rows)-1 {
			sb.WriteString(";")
		}
		sb.WriteString("\n")
	}
	sb.WriteString("].\n")
	old, _ := os.ReadFile(out)
	if string(old) != sb.String() {
		if err := os.WriteFile(out, []byte(sb.String()), 0o644); err != nil {
			panic(err)
		}
	}
}

func locksTie(c *Ctx) {
	for _, l := range extractLockTable(repoRoot()) {
		id := "l." + l.Name
		c.NCases++
		c.Case("locks %s %s", id, l.Name)
		c.Impl("%s %s", id, l.Seq)
		c.Count("locks:functions")
	}
}

func repoRoot() string {
	if r := os.Getenv("VERIF_REPO"); r != "" {
		return r
	}
	return "/repo"
}
