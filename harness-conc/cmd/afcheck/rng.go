package main

// SplitMix64: every random choice of a run derives from one state seeded by VERIF_SEED.
type Rng struct{ s uint64 }

func NewRng(seed uint64) *Rng { return &Rng{s: seed} }

func (r *Rng) U64() uint64 {
	r.s += 0x9e3779b97f4a7c15
	z := r.s
	z = (z ^ (z >> 30)) * 0xbf58476d1ce4e5b9
	z = (z ^ (z >> 27)) * 0x94d049bb133111eb
	return z ^ (z >> 31)
}

// Intn returns a value in [0, n).
func (r *Rng) Intn(n int) int {
	if n <= 0 {
		return 0
	}
	return int(r.U64() % uint64(n))
}

// Range returns a value in [lo, hi].
func (r *Rng) Range(lo, hi int) int { return lo + r.Intn(hi-lo+1) }

func (r *Rng) Bool() bool { return r.U64()&1 == 1 }

// Chance is true with probability num/den.
func (r *Rng) Chance(num, den int) bool { return r.Intn(den) < num }

func (r *Rng) Fork() *Rng { return NewRng(r.U64()) }

func Pick[T any](r *Rng, xs []T) T { return xs[r.Intn(len(xs))] }
