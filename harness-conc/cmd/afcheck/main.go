// afcheck (conc) — Go side of property C03 (concurrent use of one MemMapFs): own copy of the
// small shared pieces of harness/cmd/afcheck (Ctx, run subcommand), see CONVENTIONS.md, plus the
// `worker` subcommand: the binary re-executes itself so that a fatal runtime error, a race report
// or a deadlock is attributed to one batch of programs (see c03.go / worker.go).
package main

import (
	"bufio"
	"encoding/hex"
	"encoding/json"
	"flag"
	"fmt"
	"os"
	"path/filepath"
	"sort"
	"strings"
)

type Ctx struct {
	Prop    string
	Tier    string
	Seed    uint64
	Out     string
	Rng     *Rng
	cases   *bufio.Writer
	impl    *bufio.Writer
	oracle  *bufio.Writer
	files   []*os.File
	Stats   map[string]int
	Samples []string
	NCases  int
	Extra   map[string]any
	From    [][]string // when set: the cases to execute (each a list of lines) instead of generating
}

func readCaseFile(path string) [][]string {
	b, err := os.ReadFile(path)
	if err != nil {
		panic(err)
	}
	var out [][]string
	var cur []string
	for _, line := range strings.Split(string(b), "\n") {
		line = strings.TrimRight(line, "\r")
		if line == "" {
			continue
		}
		switch {
		case cur == nil && strings.HasPrefix(line, "ccase "):
			cur = []string{line}
		case line == "end" && cur != nil:
			cur = append(cur, line)
			out = append(out, cur)
			cur = nil
		case cur != nil:
			cur = append(cur, line)
		default:
			out = append(out, []string{line})
		}
	}
	return out
}

func unhx(s string) []byte {
	if s == "-" || s == "" {
		return []byte{}
	}
	b, err := hex.DecodeString(s)
	if err != nil {
		panic(err)
	}
	return b
}

func (c *Ctx) open(name string) *bufio.Writer {
	f, err := os.Create(filepath.Join(c.Out, name))
	if err != nil {
		panic(err)
	}
	c.files = append(c.files, f)
	return bufio.NewWriterSize(f, 1<<20)
}

func (c *Ctx) Case(format string, a ...any) { fmt.Fprintf(c.cases, format+"\n", a...) }
func (c *Ctx) Impl(format string, a ...any) { fmt.Fprintf(c.impl, format+"\n", a...) }

// Oracle lines: "FAIL <case id> <signature> <description>" — the property itself fails
// on the implementation's own outputs (decided on the Go side, independent of the model).
func (c *Ctx) Oracle(format string, a ...any) { fmt.Fprintf(c.oracle, format+"\n", a...) }
func (c *Ctx) Count(key string)               { c.Stats[key]++ }
func (c *Ctx) Add(key string, n int)          { c.Stats[key] += n }
func (c *Ctx) Sample(s string) {
	if len(c.Samples) < 5 {
		c.Samples = append(c.Samples, s)
	}
}

func (c *Ctx) Close() {
	c.cases.Flush()
	c.impl.Flush()
	c.oracle.Flush()
	for _, f := range c.files {
		f.Close()
	}
	keys := make([]string, 0, len(c.Stats))
	for k := range c.Stats {
		keys = append(keys, k)
	}
	sort.Strings(keys)
	st := map[string]any{"distribution": c.Stats, "samples": c.Samples, "cases": c.NCases, "extra": c.Extra}
	b, _ := json.MarshalIndent(st, "", " ")
	os.WriteFile(filepath.Join(c.Out, "stats.json"), b, 0o644)
}

func hx(b []byte) string {
	if len(b) == 0 {
		return "-"
	}
	return hex.EncodeToString(b)
}

var props = map[string]func(*Ctx){}

func main() {
	if len(os.Args) < 2 {
		fmt.Fprintln(os.Stderr, "usage: afcheck run|worker|locks|minimize ...")
		os.Exit(2)
	}
	switch os.Args[1] {
	case "run":
		fs := flag.NewFlagSet("run", flag.ExitOnError)
		prop := fs.String("prop", "", "property id (C03)")
		tier := fs.String("tier", "quick", "quick|thorough")
		seed := fs.Uint64("seed", 1, "seed")
		out := fs.String("out", "", "output directory")
		from := fs.String("from", "", "run the cases of this file instead of generating")
		fs.Parse(os.Args[2:])
		fn, ok := props[*prop]
		if !ok {
			fmt.Fprintln(os.Stderr, "unknown property", *prop)
			os.Exit(2)
		}
		if abs, err := filepath.Abs(*out); err == nil {
			*out = abs
		}
		os.MkdirAll(*out, 0o755)
		c := &Ctx{Prop: *prop, Tier: *tier, Seed: *seed, Out: *out, Rng: NewRng(*seed),
			Stats: map[string]int{}, Extra: map[string]any{}}
		c.cases = c.open("cases.txt")
		c.impl = c.open("impl.txt")
		c.oracle = c.open("oracle.txt")
		if *from != "" {
			c.From = readCaseFile(*from)
		}
		fn(c)
		c.Close()
	case "worker":
		workerMain(os.Args[2:])
	case "locks":
		// print the lock-operation sequences extracted from the sources (sections.go)
		repo := "/repo"
		if len(os.Args) > 2 {
			repo = os.Args[2]
		}
		for _, l := range extractLockTable(repo) {
			fmt.Println("locks", l.Name, l.Seq)
		}
	case "conctab":
		// regenerate coq/Gen/ConcTab.v: the lock table of /repo as a Coq constant (translator half of
		// the tie: Props/C03.v re-proves the static discipline on it and its equality with the table
		// the sections were compiled from)
		fs := flag.NewFlagSet("conctab", flag.ExitOnError)
		repo := fs.String("repo", "/repo", "afero source tree")
		out := fs.String("out", "", "output .v file")
		fs.Parse(os.Args[2:])
		writeConcTab(*repo, *out)
	case "minimize":
		minimizeMain(os.Args[2:])
	default:
		fmt.Fprintln(os.Stderr, "unknown subcommand", os.Args[1])
		os.Exit(2)
	}
}
