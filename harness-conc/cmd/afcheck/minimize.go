package main

// minimize.go — greedy reduction of a failing program set (timing-dependent: a candidate counts as
// still failing when the signature shows up at least once in -reps runs, tried -tries times).
//
//	afcheck minimize -in case.txt -sig <signature prefix> [-reps 300] [-tries 2]

import (
	"flag"
	"fmt"
	"os"
	"strings"
)

func removeOp(ops []Op, base, i int) []Op {
	// drop op i (index base+i in the goroutine's slot space) and every op that uses its handle
	var out []Op
	gone := map[int]bool{base + i: true}
	remap := map[int]int{}
	for j := 0; j < base; j++ {
		remap[j] = j
	}
	for j, o := range ops {
		if j == i {
			continue
		}
		if isHandleKind(o.Kind) && gone[o.Slot] {
			gone[base+j] = true
			continue
		}
		remap[base+j] = base + len(out)
		if isHandleKind(o.Kind) {
			o.Slot = remap[o.Slot]
		}
		out = append(out, o)
	}
	return out
}

func cloneCase(c *Case) *Case {
	n := &Case{ID: c.ID, Reps: c.Reps, Tags: c.Tags, Setup: append([]Op(nil), c.Setup...)}
	for t := range c.Threads {
		n.Pro = append(n.Pro, append([]Op(nil), c.Pro[t]...))
		n.Threads = append(n.Threads, append([]Op(nil), c.Threads[t]...))
	}
	return n
}

func minimizeMain(args []string) {
	fs := flag.NewFlagSet("minimize", flag.ExitOnError)
	in := fs.String("in", "", "file with one ccase")
	sig := fs.String("sig", "", "signature prefix that must keep showing up")
	reps := fs.Int("reps", 300, "runs per attempt")
	tries := fs.Int("tries", 2, "attempts per candidate")
	fs.Parse(args)
	all := readCaseFile(*in)
	if len(all) == 0 {
		fmt.Fprintln(os.Stderr, "no case")
		os.Exit(2)
	}
	cur := parseCase(all[0])
	cur.Reps = *reps
	dir, _ := os.MkdirTemp("", "afmin")
	defer os.RemoveAll(dir)
	os.MkdirAll(dir+"/batches", 0o755)
	n := 0
	fails := func(c *Case) (bool, string) {
		for i := 0; i < *tries; i++ {
			n++
			c.ID = fmt.Sprintf("m%d", n)
			r := runBatch(dir+"/batches", c.ID, []*Case{c})
			for _, f := range r[c.ID].Findings {
				if strings.HasPrefix(f.Sig, *sig) {
					return true, fmt.Sprintf("%s (rep %d of %d) %s", f.Sig, f.Rep, c.Reps, f.Detail)
				}
			}
		}
		return false, ""
	}
	ok, how := fails(cur)
	if !ok {
		fmt.Println("not reproduced")
		os.Exit(1)
	}
	for changed := true; changed; {
		changed = false
		for t := len(cur.Threads) - 1; t >= 0 && len(cur.Threads) > 1; t-- {
			cand := cloneCase(cur)
			cand.Threads = append(cand.Threads[:t], cand.Threads[t+1:]...)
			cand.Pro = append(cand.Pro[:t], cand.Pro[t+1:]...)
			if ok, h := fails(cand); ok {
				cur, how, changed = cand, h, true
			}
		}
		for t := range cur.Threads {
			for i := len(cur.Threads[t]) - 1; i >= 0; i-- {
				if i >= len(cur.Threads[t]) {
					continue
				}
				cand := cloneCase(cur)
				cand.Threads[t] = removeOp(cand.Threads[t], len(cand.Pro[t]), i)
				if ok, h := fails(cand); ok {
					cur, how, changed = cand, h, true
				}
			}
		}
		for i := len(cur.Setup) - 1; i >= 0; i-- {
			if i >= len(cur.Setup) {
				continue
			}
			cand := cloneCase(cur)
			cand.Setup = removeOp(cand.Setup, 0, i)
			if ok, h := fails(cand); ok {
				cur, how, changed = cand, h, true
			}
		}
	}
	cur.ID = "min"
	for _, l := range cur.Lines() {
		fmt.Println(l)
	}
	fmt.Println("#", how)
	fmt.Println("#", cur.Brief())
}
