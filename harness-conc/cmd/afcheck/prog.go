package main

// prog.go — concurrent programs over one MemMapFs: text format, well-typedness, execution.
//
//	ccase <id> reps=<n> <tags...>
//	s <Kind> <args>          setup op, run sequentially before anything else (handles are dropped)
//	p <tid> <Kind> <args>    prologue op of goroutine <tid>: run sequentially (in file order) before
//	                         the start barrier; its handle belongs to goroutine <tid>
//	o <tid> <Kind> <args>    concurrent op of goroutine <tid>
//	end
//
// A handle is named by the index (prologue ops first, then concurrent ops) of the op of the SAME
// goroutine that opened it: handles are private to their goroutine.  Names have FIXED kinds: a
// last component starting with 'f' is a file, anything else (d*, e*, x*) a directory.

import (
	"fmt"
	"io"
	"os"
	"path"
	"strconv"
	"strings"
	"time"

	"github.com/spf13/afero"
)

type Op struct {
	Kind string
	P, Q string // paths
	Slot int
	A, B int64 // numeric arguments: flag/perm, n/off, off/whence, mode, time
	Data []byte
}

type Case struct {
	ID      string
	Reps    int
	Tags    []string
	Setup   []Op
	Pro     [][]Op // per goroutine
	Threads [][]Op // per goroutine
}

var pathKinds = map[string]int{ // number of path arguments
	"Create": 1, "Open": 1, "OpenFile": 1, "Mkdir": 1, "MkdirAll": 1, "Remove": 1, "RemoveAll": 1,
	"Rename": 2, "RenameDir": 2, "Stat": 1, "Chmod": 1, "Chtimes": 1, "xList": 0,
}

func isHandleKind(k string) bool { return strings.HasPrefix(k, "H") || k == "xReaddirFile" }

func isFileName(p string) bool { return strings.HasPrefix(path.Base(p), "f") }

func (o Op) String() string {
	switch o.Kind {
	case "Create", "Open", "Remove", "RemoveAll", "Stat":
		return fmt.Sprintf("%s %s", o.Kind, o.P)
	case "OpenFile":
		return fmt.Sprintf("%s %s %d %o", o.Kind, o.P, o.A, o.B)
	case "Mkdir", "MkdirAll", "Chmod":
		return fmt.Sprintf("%s %s %o", o.Kind, o.P, o.A)
	case "Chtimes":
		return fmt.Sprintf("%s %s %d", o.Kind, o.P, o.A)
	case "Rename", "RenameDir":
		return fmt.Sprintf("%s %s %s", o.Kind, o.P, o.Q)
	case "HRead", "HTruncate", "HReaddir", "HReaddirnames", "xReaddirFile":
		return fmt.Sprintf("%s %d %d", o.Kind, o.Slot, o.A)
	case "HReadAt", "HSeek":
		return fmt.Sprintf("%s %d %d %d", o.Kind, o.Slot, o.A, o.B)
	case "HWrite":
		return fmt.Sprintf("%s %d %s", o.Kind, o.Slot, hx(o.Data))
	case "HWriteAt":
		return fmt.Sprintf("%s %d %s %d", o.Kind, o.Slot, hx(o.Data), o.A)
	case "HClose", "HStat", "HName", "HSync":
		return fmt.Sprintf("%s %d", o.Kind, o.Slot)
	case "xList":
		return "xList"
	}
	return "?" + o.Kind
}

func atoi(s string, base int) int64 {
	v, err := strconv.ParseInt(s, base, 64)
	if err != nil {
		panic("bad number " + s)
	}
	return v
}

func parseOp(t []string) Op {
	o := Op{Kind: t[0]}
	a := t[1:]
	switch o.Kind {
	case "Create", "Open", "Remove", "RemoveAll", "Stat":
		o.P = a[0]
	case "OpenFile":
		o.P, o.A, o.B = a[0], atoi(a[1], 10), atoi(a[2], 8)
	case "Mkdir", "MkdirAll", "Chmod":
		o.P, o.A = a[0], atoi(a[1], 8)
	case "Chtimes":
		o.P, o.A = a[0], atoi(a[1], 10)
	case "Rename", "RenameDir":
		o.P, o.Q = a[0], a[1]
	case "HRead", "HTruncate", "HReaddir", "HReaddirnames", "xReaddirFile":
		o.Slot, o.A = int(atoi(a[0], 10)), atoi(a[1], 10)
	case "HReadAt", "HSeek":
		o.Slot, o.A, o.B = int(atoi(a[0], 10)), atoi(a[1], 10), atoi(a[2], 10)
	case "HWrite":
		o.Slot, o.Data = int(atoi(a[0], 10)), unhx(a[1])
	case "HWriteAt":
		o.Slot, o.Data, o.A = int(atoi(a[0], 10)), unhx(a[1]), atoi(a[2], 10)
	case "HClose", "HStat", "HName", "HSync":
		o.Slot = int(atoi(a[0], 10))
	case "xList":
	default:
		panic("unknown op kind " + o.Kind)
	}
	return o
}

func (c *Case) Lines() []string {
	hdr := fmt.Sprintf("ccase %s reps=%d", c.ID, c.Reps)
	if len(c.Tags) > 0 {
		hdr += " " + strings.Join(c.Tags, " ")
	}
	out := []string{hdr}
	for _, o := range c.Setup {
		out = append(out, "s "+o.String())
	}
	for t := range c.Threads {
		for _, o := range c.Pro[t] {
			out = append(out, fmt.Sprintf("p %d %s", t, o.String()))
		}
	}
	for t := range c.Threads {
		for _, o := range c.Threads[t] {
			out = append(out, fmt.Sprintf("o %d %s", t, o.String()))
		}
	}
	return append(out, "end")
}

// one-line rendering for oracle texts
func (c *Case) Brief() string {
	var sb strings.Builder
	if len(c.Setup) > 0 {
		sb.WriteString("setup[")
		for i, o := range c.Setup {
			if i > 0 {
				sb.WriteString("; ")
			}
			sb.WriteString(o.String())
		}
		sb.WriteString("] ")
	}
	for t := range c.Threads {
		fmt.Fprintf(&sb, "g%d[", t)
		for i, o := range c.Pro[t] {
			if i > 0 {
				sb.WriteString("; ")
			}
			sb.WriteString(o.String())
		}
		if len(c.Pro[t]) > 0 {
			sb.WriteString(" || ")
		}
		for i, o := range c.Threads[t] {
			if i > 0 {
				sb.WriteString("; ")
			}
			sb.WriteString(o.String())
		}
		sb.WriteString("] ")
	}
	return strings.TrimSpace(sb.String())
}

func parseCase(lines []string) *Case {
	h := strings.Fields(lines[0])
	c := &Case{ID: h[1], Reps: 1}
	for _, t := range h[2:] {
		if strings.HasPrefix(t, "reps=") {
			c.Reps = int(atoi(t[5:], 10))
		} else {
			c.Tags = append(c.Tags, t)
		}
	}
	grow := func(t int) {
		for len(c.Threads) <= t {
			c.Threads = append(c.Threads, nil)
			c.Pro = append(c.Pro, nil)
		}
	}
	for _, l := range lines[1:] {
		t := strings.Fields(l)
		if len(t) == 0 || t[0] == "end" {
			continue
		}
		switch t[0] {
		case "s":
			c.Setup = append(c.Setup, parseOp(t[1:]))
		case "p":
			tid := int(atoi(t[1], 10))
			grow(tid)
			c.Pro[tid] = append(c.Pro[tid], parseOp(t[2:]))
		case "o":
			tid := int(atoi(t[1], 10))
			grow(tid)
			c.Threads[tid] = append(c.Threads[tid], parseOp(t[2:]))
		}
	}
	return c
}

// execOp runs one call; the results are consumed the way a caller would (FileInfo accessors,
// returned slices) so that their reads are part of the execution.  A panic is recovered per call.
func execOp(fs afero.Fs, slots []afero.File, idx int, o Op) (panicked any) {
	defer func() {
		if r := recover(); r != nil {
			panicked = r
		}
	}()
	useInfo := func(fi os.FileInfo) {
		if fi != nil {
			_ = fi.Name()
			_ = fi.Size()
			_ = fi.Mode()
			_ = fi.ModTime()
			_ = fi.IsDir()
		}
	}
	var h afero.File
	if isHandleKind(o.Kind) {
		if o.Slot < 0 || o.Slot >= len(slots) || slots[o.Slot] == nil {
			return nil
		}
		h = slots[o.Slot]
	}
	switch o.Kind {
	case "Create":
		f, err := fs.Create(o.P)
		if err == nil {
			slots[idx] = f
		}
	case "Open":
		f, err := fs.Open(o.P)
		if err == nil {
			slots[idx] = f
		}
	case "OpenFile":
		f, err := fs.OpenFile(o.P, int(o.A), os.FileMode(o.B))
		if err == nil && f != nil {
			slots[idx] = f
		}
	case "Mkdir":
		fs.Mkdir(o.P, os.FileMode(o.A))
	case "MkdirAll":
		fs.MkdirAll(o.P, os.FileMode(o.A))
	case "Remove":
		fs.Remove(o.P)
	case "RemoveAll":
		fs.RemoveAll(o.P)
	case "Rename", "RenameDir":
		fs.Rename(o.P, o.Q)
	case "Stat":
		fi, err := fs.Stat(o.P)
		if err == nil {
			useInfo(fi)
		}
	case "Chmod":
		fs.Chmod(o.P, os.FileMode(o.A))
	case "Chtimes":
		t := time.Unix(o.A, 0)
		fs.Chtimes(o.P, t, t)
	case "xList":
		if m, ok := fs.(*afero.MemMapFs); ok {
			m.List()
		}
	case "HRead":
		h.Read(make([]byte, o.A))
	case "HReadAt":
		h.ReadAt(make([]byte, o.A), o.B)
	case "HWrite":
		h.Write(o.Data)
	case "HWriteAt":
		h.WriteAt(o.Data, o.A)
	case "HSeek":
		h.Seek(o.A, int(o.B))
	case "HTruncate":
		h.Truncate(o.A)
	case "HClose":
		h.Close()
	case "HSync":
		h.Sync()
	case "HStat":
		fi, err := h.Stat()
		if err == nil {
			useInfo(fi)
		}
	case "HName":
		_ = h.Name()
	case "HReaddir", "xReaddirFile":
		fis, _ := h.Readdir(int(o.A))
		for _, fi := range fis {
			useInfo(fi)
		}
	case "HReaddirnames":
		h.Readdirnames(int(o.A))
	}
	return nil
}

var _ = io.EOF
