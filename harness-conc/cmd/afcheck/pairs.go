package main

// pairs.go — the lockset tie: every pair of op kinds (including a kind with itself) runs
// concurrently n times on shared names / on private handles open on the same files, in ONE child
// process per pair under the race detector.
//
//	case  : pair <id> <opA> <opB> n=<n> impl=<race|norace?> sigs=<race signatures or ->
//	impl  : <id> race | norace?          ("norace?": not observed in n runs — not a proof of absence)
//	model : M <id> ...                   the runner echoes impl unless impl=race and the model's
//	                                     section table predicts that no race is possible: `norace`
//
// so the only correspondence mismatch is "the implementation raced where the table says it cannot".
// Kinds starting with x are outside the property's class (debug printer List, Readdir on a file
// handle) and are there to show that the detector does trigger on the unlocked reads.

import (
	"fmt"
	"os"
	"sort"
	"strings"
)

var pairKinds = []string{"Create", "OpenFile", "Mkdir", "MkdirAll", "Remove", "RemoveAll", "Rename", "RenameDir",
	"Stat", "Chmod", "Chtimes", "Open", "HRead", "HReadAt", "HWrite", "HWriteAt", "HSeek", "HTruncate", "HClose",
	"HStat", "HName", "HReaddir", "HReaddirnames", "xList", "xReaddirFile"}

func pairSetup() []Op {
	return []Op{
		{Kind: "MkdirAll", P: "d1/e1", A: 0o755},
		{Kind: "Create", P: "d1/f1"},
		{Kind: "HWrite", Slot: 1, Data: []byte("hello world!")},
		{Kind: "Create", P: "d1/e1/f1"},
		{Kind: "HWrite", Slot: 3, Data: []byte("abc")},
		{Kind: "Create", P: "f1"},
		{Kind: "Mkdir", P: "d2", A: 0o755},
	}
}

type inst struct {
	pro []Op
	op  Op
}

func rw(p string) Op { return Op{Kind: "OpenFile", P: p, A: oRDWR, B: 0o644} }
func ro(p string) Op { return Op{Kind: "Open", P: p} }

// the instantiations of one op kind; tid distinguishes the "otherwise unused" rename targets
func variants(kind string, tid int) []inst {
	x := fmt.Sprintf("x%d", tid+1)
	P := func(k string, ps ...string) []inst {
		var out []inst
		for _, p := range ps {
			out = append(out, inst{op: Op{Kind: k, P: p, A: 0o750}})
		}
		return out
	}
	switch kind {
	case "Create":
		return P("Create", "d1/f1", "d1/f2", "d3/f1", "d1/e1/f1")
	case "OpenFile":
		return []inst{
			{op: Op{Kind: "OpenFile", P: "d1/f1", A: oRDWR | oCREATE, B: 0o600}},
			{op: Op{Kind: "OpenFile", P: "d1/f2", A: oRDWR | oCREATE, B: 0o600}},
			{op: Op{Kind: "OpenFile", P: "d1/f1", A: oWRONLY | oTRUNC, B: 0o600}},
			{op: Op{Kind: "OpenFile", P: "d1/f1", A: oRDWR | oAPPEND, B: 0o600}},
			{op: Op{Kind: "OpenFile", P: "d3/f1", A: oRDWR | oCREATE | oEXCL, B: 0o600}},
			// creating with a read-only access mode creates all the same
			{op: Op{Kind: "OpenFile", P: "d1/f2", A: oRDONLY | oCREATE, B: 0o600}},
			{op: Op{Kind: "OpenFile", P: "d3/f1", A: oRDONLY | oCREATE, B: 0o600}},
		}
	case "Mkdir", "MkdirAll":
		return P(kind, "d1/e2", "d1", "d3/e1", "d1/e1")
	case "Remove":
		return P("Remove", "d1/f1", "f1", "d1/e1/f1")
	case "RemoveAll":
		return P("RemoveAll", "d1", "d1/f1", "d1/e1", "d2")
	case "Rename":
		return []inst{
			{op: Op{Kind: "Rename", P: "d1/f1", Q: "d1/f2"}},
			{op: Op{Kind: "Rename", P: "d1/f1", Q: "d2/f1"}},
			{op: Op{Kind: "Rename", P: "f1", Q: "d1/f1"}},
			{op: Op{Kind: "Rename", P: "d1/e1/f1", Q: "d1/f1"}},
			// into a directory that does not exist yet: Rename makes it and registers it with an
			// ancestor it does not hold
			{op: Op{Kind: "Rename", P: "f1", Q: "d1/" + x + "/f1"}},
		}
	case "RenameDir":
		return []inst{
			{op: Op{Kind: "RenameDir", P: "d1", Q: x}},
			{op: Op{Kind: "RenameDir", P: "d1/e1", Q: x}},
			{op: Op{Kind: "RenameDir", P: "d2", Q: x}},
		}
	case "Stat", "Chmod":
		return P(kind, "d1/f1", "d1", "d1/e1/f1", "d1/e1")
	case "Chtimes":
		v := P(kind, "d1/f1", "d1", "d1/e1/f1", "d1/e1")
		for i := range v {
			v[i].op.A = 12345
		}
		return v
	case "Open":
		return P("Open", "d1/f1", "d1", "/", "d1/e1/f1")
	case "HRead":
		return []inst{
			{[]Op{rw("d1/f1")}, Op{Kind: "HRead", A: 4}},
			{[]Op{ro("d1/f1")}, Op{Kind: "HRead", A: 4}},
			{[]Op{rw("d1/e1/f1")}, Op{Kind: "HRead", A: 2}},
		}
	case "HReadAt":
		return []inst{
			{[]Op{rw("d1/f1")}, Op{Kind: "HReadAt", A: 4, B: 2}},
			{[]Op{ro("d1/f1")}, Op{Kind: "HReadAt", A: 4, B: -1}},
			{[]Op{rw("d1/e1/f1")}, Op{Kind: "HReadAt", A: 2, B: 0}},
		}
	case "HWrite":
		return []inst{
			{[]Op{rw("d1/f1")}, Op{Kind: "HWrite", Data: []byte("xy")}},
			{[]Op{ro("d1/f1")}, Op{Kind: "HWrite", Data: []byte("xy")}},
			{[]Op{rw("d1/e1/f1")}, Op{Kind: "HWrite", Data: []byte("z")}},
		}
	case "HWriteAt":
		return []inst{
			{[]Op{rw("d1/f1")}, Op{Kind: "HWriteAt", Data: []byte("xy"), A: 3}},
			{[]Op{rw("d1/f1")}, Op{Kind: "HWriteAt", Data: []byte("xy"), A: -1}},
			{[]Op{ro("d1/e1/f1")}, Op{Kind: "HWriteAt", Data: []byte("z"), A: 0}},
		}
	case "HSeek":
		return []inst{
			{[]Op{rw("d1/f1")}, Op{Kind: "HSeek", A: 0, B: 2}},
			{[]Op{rw("d1/f1")}, Op{Kind: "HSeek", A: -5, B: 0}},
			{[]Op{ro("d1/e1/f1")}, Op{Kind: "HSeek", A: 1, B: 1}},
		}
	case "HTruncate":
		return []inst{
			{[]Op{rw("d1/f1")}, Op{Kind: "HTruncate", A: 3}},
			{[]Op{ro("d1/f1")}, Op{Kind: "HTruncate", A: 0}},
			{[]Op{rw("d1/e1/f1")}, Op{Kind: "HTruncate", A: 10}},
		}
	case "HClose", "HStat", "HName":
		return []inst{
			{[]Op{rw("d1/f1")}, Op{Kind: kind}},
			{[]Op{ro("d1/f1")}, Op{Kind: kind}},
			{[]Op{ro("d1")}, Op{Kind: kind}},
			{[]Op{rw("d1/e1/f1")}, Op{Kind: kind}},
		}
	case "HReaddir", "HReaddirnames":
		return []inst{
			{[]Op{ro("d1")}, Op{Kind: kind, A: -1}},
			{[]Op{ro("/")}, Op{Kind: kind, A: 1}},
			{[]Op{ro("d1/e1")}, Op{Kind: kind, A: -1}},
		}
	case "xList":
		return []inst{{op: Op{Kind: "xList"}}}
	case "xReaddirFile":
		return []inst{
			{[]Op{ro("d1/f1")}, Op{Kind: "xReaddirFile", A: -1}},
			{[]Op{ro("d1/e1/f1")}, Op{Kind: "xReaddirFile", A: -1}},
		}
	}
	panic("no variants for " + kind)
}

func absOp(o Op) Op {
	if o.P != "" && !strings.HasPrefix(o.P, "/") {
		o.P = "/" + o.P
	}
	if o.Q != "" && !strings.HasPrefix(o.Q, "/") {
		o.Q = "/" + o.Q
	}
	return o
}

func absOps(in []Op) []Op {
	for i := range in {
		in[i] = absOp(in[i])
	}
	return in
}

func absInsts(in []inst) []inst {
	for i := range in {
		in[i].op = absOp(in[i].op)
		for j := range in[i].pro {
			in[i].pro[j] = absOp(in[i].pro[j])
		}
	}
	return in
}

func pairCases(id, a, b string, n int) []*Case {
	va, vb := absInsts(variants(a, 0)), absInsts(variants(b, 1))
	count := map[[2]int]int{}
	var order [][2]int
	for i := 0; i < n; i++ {
		k := [2]int{i % len(va), (i / len(va)) % len(vb)}
		if count[k] == 0 {
			order = append(order, k)
		}
		count[k]++
	}
	var out []*Case
	for _, k := range order {
		ia, ib := va[k[0]], vb[k[1]]
		fix := func(in inst) ([]Op, []Op) {
			o := in.op
			if isHandleKind(o.Kind) {
				o.Slot = 0
			}
			return in.pro, []Op{o}
		}
		pa, oa := fix(ia)
		pb, ob := fix(ib)
		out = append(out, &Case{ID: fmt.Sprintf("%s.%d.%d", id, k[0], k[1]), Reps: count[k], Tags: []string{"pair"},
			Setup: absOps(pairSetup()), Pro: [][]Op{pa, pb}, Threads: [][]Op{oa, ob}})
	}
	return out
}

func pairMatrix(c *Ctx, n int, only [][]string) {
	type pr struct{ id, a, b string }
	var prs []pr
	if only != nil {
		for _, t := range only {
			prs = append(prs, pr{t[1], t[2], t[3]})
		}
	} else {
		for i, a := range pairKinds {
			for _, b := range pairKinds[i:] {
				prs = append(prs, pr{fmt.Sprintf("p.%s.%s", a, b), a, b})
			}
		}
	}
	// one child process per pair: the detector reports each racy pair of stacks once per process
	all := map[string][]*Case{}
	var flat []*Case
	for _, p := range prs {
		cs := pairCases(p.id, p.a, p.b, n)
		all[p.id] = cs
		flat = append(flat, cs...)
	}
	res := map[string]*caseResult{}
	os.MkdirAll(c.Out+"/batches", 0o755)
	{
		// batches must not mix pairs: run pair by pair through the same pool
		type job struct{ p pr }
		jobs := make(chan pr)
		done := make(chan map[string]*caseResult)
		par := parallelism()
		for w := 0; w < par; w++ {
			go func() {
				for p := range jobs {
					done <- runBatch(c.Out+"/batches", p.id, all[p.id])
				}
			}()
		}
		go func() {
			for _, p := range prs {
				jobs <- p
			}
			close(jobs)
		}()
		for range prs {
			for k, v := range <-done {
				res[k] = v
			}
		}
	}
	raced := 0
	for _, p := range prs {
		sigset := map[string]bool{}
		badset := map[string]bool{}
		inClass := !strings.HasPrefix(p.a, "x") && !strings.HasPrefix(p.b, "x")
		for _, cs := range all[p.id] {
			// the variant program sets, for the model's exhaustive exploration
			for _, l := range cs.Lines() {
				c.Case("%s", l)
			}
			r := res[cs.ID]
			if r == nil {
				continue
			}
			for _, f := range r.Findings {
				switch {
				case strings.HasPrefix(f.Sig, "panic:"):
					badset["panic"] = true
				case strings.HasPrefix(f.Sig, "deadlock:"):
					badset["deadlock"] = true
				case strings.HasPrefix(f.Sig, "inconsistent:"):
					badset["inconsistent"] = true
				}
				if strings.HasPrefix(f.Sig, "race:") {
					sigset[f.Sig] = true
				} else if !inClass {
					c.Count("pairseen-outside-class:" + f.Sig)
				} else {
					// panics, deadlocks, inconsistencies seen while running the pair: property failures
					c.Count("pairfound:" + f.Sig)
					c.Oracle("FAIL %s %s %s :: pair variant %s :: %s", p.id, f.Sig, strings.ReplaceAll(f.Detail, "\n", " / "), cs.ID, cs.Brief())
				}
			}
		}
		var sigs []string
		for s := range sigset {
			sigs = append(sigs, s)
		}
		sort.Strings(sigs)
		impl, sg := "norace?", "-"
		if len(sigs) > 0 {
			impl, sg = "race", strings.Join(sigs, ",")
			raced++
			for _, s := range sigs {
				if inClass {
					c.Count("pairfound:" + s)
					c.Oracle("FAIL %s %s data race between %s and %s in %d concurrent runs on shared names / private handles of the same files", p.id, s, p.a, p.b, n)
				} else {
					c.Count("pairseen-outside-class:" + s)
				}
			}
		}
		var bads []string
		for b := range badset {
			bads = append(bads, b)
		}
		sort.Strings(bads)
		bad := "-"
		if len(bads) > 0 {
			bad = strings.Join(bads, ",")
		}
		c.NCases++
		c.Case("pair %s %s %s n=%d impl=%s sigs=%s bad=%s", p.id, p.a, p.b, n, impl, sg, bad)
		c.Impl("%s race=%s bad=%s", p.id, impl, bad)
	}
	c.Extra["pairs"] = fmt.Sprintf("%d pairs of %d op kinds x %d runs; %d pairs with a race report", len(prs), len(pairKinds), n, raced)
}
