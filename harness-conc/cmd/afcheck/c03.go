package main

// c03.go — property C03: concurrent use of one MemMapFs.
//
//  1. locks tie     (sections.go)  lock-operation sequences of memmap.go / mem/*.go vs the Coq table
//  2. pair matrix   (pairs.go)     every pair of op kinds 200x under -race vs the model's prediction
//  3. stress        (here)         well-typed concurrent programs under -race in child processes:
//     race reports, recovered panics, fatal runtime errors, deadlocks (watchdog) and the
//     quiescent consistency sweep are written as FAIL lines.
//
// Everything timing-dependent is re-run: a replay (c.From) runs a ccase `replayReps` times.

import (
	"bytes"
	"encoding/json"
	"fmt"
	"os"
	"os/exec"
	"path/filepath"
	"runtime"
	"sort"
	"strings"

	"github.com/spf13/afero"
	"sync"
	"time"
)

func init() { props["C03"] = runC03 }

type caseResult struct {
	Findings []Finding
	Reps     int
	Crashed  bool
}

// runCases executes the cases in child processes (batches of `per`), `par` children at a time.
func runCases(c *Ctx, tag string, cases []*Case, per, par int) map[string]*caseResult {
	res := map[string]*caseResult{}
	var mu sync.Mutex
	type batch struct {
		idx   int
		cases []*Case
	}
	var batches []batch
	for i := 0; i < len(cases); i += per {
		j := i + per
		if j > len(cases) {
			j = len(cases)
		}
		batches = append(batches, batch{len(batches), cases[i:j]})
	}
	dir := filepath.Join(c.Out, "batches")
	os.MkdirAll(dir, 0o755)
	ch := make(chan batch)
	var wg sync.WaitGroup
	for w := 0; w < par; w++ {
		wg.Add(1)
		go func() {
			defer wg.Done()
			for b := range ch {
				r := runBatch(dir, fmt.Sprintf("%s-%d", tag, b.idx), b.cases)
				mu.Lock()
				for k, v := range r {
					res[k] = v
				}
				mu.Unlock()
			}
		}()
	}
	for _, b := range batches {
		ch <- b
	}
	close(ch)
	wg.Wait()
	return res
}

func runBatch(dir, name string, cases []*Case) map[string]*caseResult {
	res := map[string]*caseResult{}
	in := filepath.Join(dir, name+".txt")
	var sb strings.Builder
	for _, cs := range cases {
		for _, l := range cs.Lines() {
			sb.WriteString(l)
			sb.WriteByte('\n')
		}
		res[cs.ID] = &caseResult{}
	}
	os.WriteFile(in, []byte(sb.String()), 0o644)
	defer os.Remove(in)
	skip := 0
	for attempt := 0; skip < len(cases) && attempt <= len(cases); attempt++ {
		racelog := filepath.Join(dir, fmt.Sprintf("%s.race%d", name, attempt))
		cmd := exec.Command(os.Args[0], "worker", "-in", in, "-racelog", racelog, "-skip", fmt.Sprint(skip))
		cmd.Env = append(os.Environ(), "GORACE=halt_on_error=0 atexit_sleep_ms=0 exitcode=0 log_path="+racelog)
		var stdout, stderr bytes.Buffer
		cmd.Stdout, cmd.Stderr = &stdout, &stderr
		err := cmd.Run()
		started, done := "", map[string]bool{}
		reported := map[string]bool{}
		for _, line := range strings.Split(stdout.String(), "\n") {
			if line == "" {
				continue
			}
			var m map[string]any
			if json.Unmarshal([]byte(line), &m) != nil {
				continue
			}
			if s, ok := m["start"].(string); ok {
				started = s
			} else if d, ok := m["done"].(string); ok {
				done[d] = true
				if r := res[d]; r != nil {
					if n, ok := m["reps"].(float64); ok {
						r.Reps = int(n)
					}
				}
			} else if id, ok := m["id"].(string); ok {
				f := Finding{ID: id, Sig: fmt.Sprint(m["sig"]), Detail: fmt.Sprint(m["detail"])}
				if n, ok := m["rep"].(float64); ok {
					f.Rep = int(n)
				}
				if r := res[id]; r != nil {
					r.Findings = append(r.Findings, f)
				}
				reported[f.Sig] = true
			}
		}
		nDone := 0
		for i := skip; i < len(cases); i++ {
			if done[cases[i].ID] {
				nDone = i - skip + 1
			}
		}
		crashedIn := ""
		if started != "" && !done[started] {
			crashedIn = started
		}
		if crashedIn != "" {
			// fatal runtime error (or an os.Exit of the runtime): attribute to the running case
			first := "exit"
			for _, l := range strings.Split(stderr.String(), "\n") {
				if strings.HasPrefix(l, "fatal error:") || strings.HasPrefix(l, "panic:") || strings.HasPrefix(l, "runtime:") {
					first = strings.TrimSpace(l)
					break
				}
			}
			sig := "fatal:" + strings.ReplaceAll(strings.TrimPrefix(first, "fatal error: "), " ", "_")
			r := res[crashedIn]
			r.Crashed = true
			r.Findings = append(r.Findings, Finding{ID: crashedIn, Sig: sig, Detail: firstLines(stderr.String(), 40)})
			// race reports written before the crash that the worker had no chance to read
			if b, e := os.ReadFile(fmt.Sprintf("%s.%d", racelog, cmd.Process.Pid)); e == nil {
				for _, f := range parseRaceReports(string(b)) {
					if !reported[f.Sig] {
						f.ID = crashedIn
						r.Findings = append(r.Findings, f)
					}
				}
			}
			for i := skip; i < len(cases); i++ {
				if cases[i].ID == crashedIn {
					nDone = i - skip + 1
				}
			}
		}
		if cmd.Process != nil {
			os.Remove(fmt.Sprintf("%s.%d", racelog, cmd.Process.Pid))
		}
		if nDone == 0 && err != nil && crashedIn == "" {
			// the worker could not even start: give up on this batch, visibly
			for i := skip; i < len(cases); i++ {
				res[cases[i].ID].Findings = append(res[cases[i].ID].Findings,
					Finding{ID: cases[i].ID, Sig: "harness:worker-failed", Detail: err.Error() + " " + firstLines(stderr.String(), 5)})
			}
			break
		}
		if nDone == 0 {
			break
		}
		skip += nDone
		if err == nil {
			break
		}
	}
	return res
}

func parallelism() int {
	p := runtime.NumCPU() / 2
	if p < 1 {
		p = 1
	}
	if p > 8 {
		p = 8
	}
	return p
}

// ---------------------------------------------------------------- stress generator

var dirNames = []string{"/d1", "/d2", "/d1/e1", "/d2/e1", "/d1/e2"}
var fileNames = []string{"/f1", "/f2", "/d1/f1", "/d1/f2", "/d2/f1", "/d1/e1/f1", "/d1/e1/f2"}

const (
	oRDONLY = 0
	oWRONLY = 1
	oRDWR   = 2
	oAPPEND = 0x400
	oCREATE = 0x40
	oEXCL   = 0x80
	oTRUNC  = 0x200
)

var openFlags = []int64{oRDWR | oCREATE, oRDWR | oCREATE, oWRONLY | oCREATE | oTRUNC, oRDWR | oCREATE | oEXCL,
	oRDWR, oWRONLY | oTRUNC, oRDWR | oAPPEND, oRDONLY, oWRONLY | oAPPEND | oCREATE, oRDONLY | oCREATE, oRDONLY | oCREATE | oEXCL}
var perms = []int64{0o644, 0o600, 0o755, 0o777, 0o400}

func payload(r *Rng) []byte {
	n := r.Range(0, 12)
	b := make([]byte, n)
	for i := range b {
		b[i] = byte('a' + r.Intn(26))
	}
	return b
}

type slotInfo struct {
	idx int
	dir bool
}

func genThread(r *Rng, nops int, xctr *int) []Op {
	var ops []Op
	var slots []slotInfo
	anyName := func() string {
		if r.Chance(1, 2) {
			return Pick(r, fileNames)
		}
		return Pick(r, dirNames)
	}
	for len(ops) < nops {
		i := len(ops)
		w := r.Intn(100)
		switch {
		case w < 9:
			ops = append(ops, Op{Kind: "Create", P: Pick(r, fileNames)})
			slots = append(slots, slotInfo{i, false})
		case w < 18:
			ops = append(ops, Op{Kind: "OpenFile", P: Pick(r, fileNames), A: Pick(r, openFlags), B: Pick(r, perms)})
			slots = append(slots, slotInfo{i, false})
		case w < 23:
			ops = append(ops, Op{Kind: "Mkdir", P: Pick(r, dirNames), A: Pick(r, perms)})
		case w < 28:
			ops = append(ops, Op{Kind: "MkdirAll", P: Pick(r, dirNames), A: Pick(r, perms)})
		case w < 35:
			ops = append(ops, Op{Kind: "Remove", P: Pick(r, fileNames)})
		case w < 42:
			ops = append(ops, Op{Kind: "RemoveAll", P: anyName()})
		case w < 49:
			ops = append(ops, Op{Kind: "Rename", P: Pick(r, fileNames), Q: Pick(r, fileNames)})
		case w < 52:
			*xctr++
			ops = append(ops, Op{Kind: "RenameDir", P: Pick(r, dirNames), Q: fmt.Sprintf("/x%d", *xctr)})
		case w < 57:
			ops = append(ops, Op{Kind: "Stat", P: anyName()})
		case w < 60:
			ops = append(ops, Op{Kind: "Chmod", P: anyName(), A: Pick(r, perms)})
		case w < 63:
			ops = append(ops, Op{Kind: "Chtimes", P: anyName(), A: int64(1000 + r.Intn(1000))})
		case w < 70:
			n := anyName()
			if r.Chance(1, 8) {
				n = "/"
			}
			ops = append(ops, Op{Kind: "Open", P: n})
			slots = append(slots, slotInfo{i, !isFileName(n)})
		default:
			if len(slots) == 0 {
				continue
			}
			s := Pick(r, slots)
			if s.dir {
				switch r.Intn(6) {
				case 0, 1:
					ops = append(ops, Op{Kind: "HReaddir", Slot: s.idx, A: int64(r.Range(-1, 2))})
				case 2, 3:
					ops = append(ops, Op{Kind: "HReaddirnames", Slot: s.idx, A: int64(r.Range(-1, 2))})
				case 4:
					ops = append(ops, Op{Kind: Pick(r, []string{"HStat", "HName"}), Slot: s.idx})
				default:
					ops = append(ops, Op{Kind: "HClose", Slot: s.idx})
				}
			} else {
				switch r.Intn(12) {
				case 0, 1:
					ops = append(ops, Op{Kind: "HRead", Slot: s.idx, A: int64(r.Range(0, 8))})
				case 2:
					ops = append(ops, Op{Kind: "HReadAt", Slot: s.idx, A: int64(r.Range(0, 8)), B: int64(r.Range(-1, 10))})
				case 3, 4, 5:
					ops = append(ops, Op{Kind: "HWrite", Slot: s.idx, Data: payload(r)})
				case 6:
					ops = append(ops, Op{Kind: "HWriteAt", Slot: s.idx, Data: payload(r), A: int64(r.Range(-1, 10))})
				case 7:
					ops = append(ops, Op{Kind: "HSeek", Slot: s.idx, A: int64(r.Range(-3, 10)), B: int64(r.Intn(3))})
				case 8:
					ops = append(ops, Op{Kind: "HTruncate", Slot: s.idx, A: int64(r.Range(-1, 12))})
				case 9:
					ops = append(ops, Op{Kind: Pick(r, []string{"HStat", "HName", "HSync"}), Slot: s.idx})
				default:
					ops = append(ops, Op{Kind: "HClose", Slot: s.idx})
				}
			}
		}
	}
	return ops
}

func genStress(r *Rng, id string, reps int) *Case {
	c := &Case{ID: id, Reps: reps, Tags: []string{"stress"}}
	// setup: a random part of the tree exists already
	for _, d := range dirNames {
		if r.Chance(1, 2) {
			c.Setup = append(c.Setup, Op{Kind: "MkdirAll", P: d, A: 0o755})
		}
	}
	for _, f := range fileNames {
		if r.Chance(1, 2) {
			i := len(c.Setup)
			c.Setup = append(c.Setup, Op{Kind: "Create", P: f})
			if r.Chance(2, 3) {
				c.Setup = append(c.Setup, Op{Kind: "HWrite", Slot: i, Data: payload(r)})
			}
		}
	}
	n := 2
	switch w := r.Intn(10); {
	case w < 4:
		n = 2
	case w < 7:
		n = 3
	case w < 9:
		n = r.Range(4, 5)
	default:
		n = r.Range(6, 8)
	}
	xctr := 0
	for t := 0; t < n; t++ {
		k := r.Range(1, 6)
		if r.Chance(1, 3) {
			k = r.Range(7, 30)
		}
		c.Threads = append(c.Threads, genThread(r, k, &xctr))
		c.Pro = append(c.Pro, nil)
	}
	return c
}

// ---------------------------------------------------------------- driver

func writeFindings(c *Ctx, cs *Case, r *caseResult, prefix string) {
	for _, f := range r.Findings {
		c.Count(prefix + f.Sig)
		c.Oracle("FAIL %s %s %s :: rep %d of %d :: %s", cs.ID, f.Sig, strings.ReplaceAll(f.Detail, "\n", " / "), f.Rep, cs.Reps, cs.Brief())
	}
}

func runC03(c *Ctx) {
	quick := c.Tier != "thorough"
	t0 := time.Now()
	if c.From != nil {
		replayC03(c)
		return
	}
	locksTie(c)
	singleCallSpellings(c)
	tLocks := time.Since(t0)
	nPair := 200
	if !quick {
		nPair = 2000
	}
	pairMatrix(c, nPair, nil)
	tPairs := time.Since(t0) - tLocks

	nStress, reps, per := 36000, 3, 60
	if !quick {
		nStress, reps, per = 150000, 5, 100
	}
	var cases []*Case
	for i := 0; i < nStress; i++ {
		cases = append(cases, genStress(c.Rng.Fork(), fmt.Sprintf("s%05d", i), reps))
	}
	res := runCases(c, "stress", cases, per, parallelism())
	failing := 0
	sigCases := map[string]int{}
	for _, cs := range cases {
		c.NCases++
		for _, l := range cs.Lines() {
			c.Case("%s", l)
		}
		c.Count(fmt.Sprintf("stress:goroutines=%d", len(cs.Threads)))
		for _, th := range cs.Threads {
			for _, o := range th {
				c.Count("stress:op:" + o.Kind)
			}
		}
		r := res[cs.ID]
		if r == nil {
			continue
		}
		if len(r.Findings) > 0 {
			failing++
			seen := map[string]bool{}
			for _, f := range r.Findings {
				if !seen[f.Sig] {
					seen[f.Sig] = true
					sigCases[f.Sig]++
				}
			}
		}
		writeFindings(c, cs, r, "found:")
		if len(r.Findings) > 0 {
			c.Sample(cs.Brief())
		}
	}
	var sigs []string
	for s := range sigCases {
		sigs = append(sigs, s)
	}
	sort.Strings(sigs)
	freq := map[string]string{}
	for _, s := range sigs {
		freq[s] = fmt.Sprintf("%d of %d program sets (x%d runs each)", sigCases[s], len(cases), reps)
	}
	c.Extra["stress_signature_frequency"] = freq
	c.Extra["stress_failing_program_sets"] = failing
	c.Extra["timing_s"] = map[string]float64{"locks": tLocks.Seconds(), "pairs": tPairs.Seconds(), "stress": (time.Since(t0) - tLocks - tPairs).Seconds()}
}

const replayReps = 200

func replayC03(c *Ctx) {
	var cases []*Case
	var pairs [][]string
	for _, lines := range c.From {
		switch {
		case strings.HasPrefix(lines[0], "ccase "):
			cs := parseCase(lines)
			if cs.Reps < replayReps {
				cs.Reps = replayReps
			}
			cases = append(cases, cs)
		case strings.HasPrefix(lines[0], "pair "):
			pairs = append(pairs, strings.Fields(lines[0]))
		case strings.HasPrefix(lines[0], "locks "):
			// recomputed as a whole below
		}
	}
	hasLocks := false
	for _, lines := range c.From {
		if strings.HasPrefix(lines[0], "locks ") {
			hasLocks = true
		}
	}
	if hasLocks {
		locksTie(c)
	}
	if len(pairs) > 0 {
		pairMatrix(c, replayReps, pairs)
	}
	res := runCases(c, "replay", cases, 1, parallelism())
	for _, cs := range cases {
		c.NCases++
		for _, l := range cs.Lines() {
			c.Case("%s", l)
		}
		if r := res[cs.ID]; r != nil {
			writeFindings(c, cs, r, "found:")
		}
	}
}

// One call, one goroutine, names spelled in different ways for the same directory (absolute and
// relative, "." and ".." elements, doubled separators): a call that takes a directory's mutex
// twice never returns — "no deadlock" holds for a single caller as well (oracle only).
func singleCallSpellings(c *Ctx) {
	spell := func(p string) []string {
		return []string{p, strings.TrimPrefix(p, "/"), "/." + p, "/" + p, p + "/", "/d/.." + p, "." + p}
	}
	n := 0
	try := func(what string, setup func(fs afero.Fs), call func(fs afero.Fs)) {
		n++
		c.Count("single-call:" + strings.SplitN(what, "(", 2)[0])
		fs := afero.NewMemMapFs()
		fs.MkdirAll("/d/e", 0o755)
		setup(fs)
		done := make(chan struct{})
		go func() {
			defer close(done)
			defer func() { recover() }()
			call(fs)
		}()
		select {
		case <-done:
		case <-time.After(3 * time.Second):
			c.Oracle("FAIL sc%d deadlock:single-call:%s %s by one goroutine on a fresh MemMapFs did not return within 3 s", n, strings.SplitN(what, "(", 2)[0], what)
		}
	}
	for _, a := range spell("/a") {
		for _, b := range spell("/b") {
			a, b := a, b
			try(fmt.Sprintf("Rename(%q, %q)", a, b), func(fs afero.Fs) { afero.WriteFile(fs, "/a", []byte("x"), 0o644) }, func(fs afero.Fs) { fs.Rename(a, b) })
		}
		for _, b := range spell("/d/b") {
			a, b := a, b
			try(fmt.Sprintf("Rename(%q, %q)", a, b), func(fs afero.Fs) { afero.WriteFile(fs, "/a", []byte("x"), 0o644) }, func(fs afero.Fs) { fs.Rename(a, b) })
			try(fmt.Sprintf("Rename(%q, %q)", b, a), func(fs afero.Fs) { afero.WriteFile(fs, "/d/b", []byte("x"), 0o644) }, func(fs afero.Fs) { fs.Rename(b, a) })
		}
		a := a
		try(fmt.Sprintf("Create+Remove(%q)", a), func(fs afero.Fs) {}, func(fs afero.Fs) {
			if f, err := fs.Create(a); err == nil {
				f.Close()
			}
			fs.Remove(a)
		})
		try(fmt.Sprintf("Mkdir+RemoveAll(%q)", a), func(fs afero.Fs) {}, func(fs afero.Fs) { fs.Mkdir(a, 0o755); fs.RemoveAll(a) })
	}
	c.Extra["single_call_spellings"] = fmt.Sprintf("%d single calls (Rename, Create+Remove, Mkdir+RemoveAll) over 7 spellings of each name, each must return within 3 s (oracle only)", n)
}
