package main

// worker.go — child process: runs program sets on fresh MemMapFs instances under the race
// detector.  One JSON line per event on the original stdout:
//
//	{"start": id}                         before a case is run (a fatal runtime error is attributed to it)
//	{"id": id, "rep": r, "sig": s, "detail": d}   one finding
//	{"done": id, "reps": n}               the case ran to completion
//
// A deadlock poisons the process: the worker reports it and exits with status 3; the parent
// restarts a worker on the remaining cases.

import (
	"bufio"
	"encoding/json"
	"flag"
	"fmt"
	"io"
	"log"
	"os"
	"path"
	"regexp"
	"runtime"
	"sort"
	"strings"
	"sync"
	"sync/atomic"
	"time"

	"github.com/spf13/afero"
	"github.com/spf13/afero/mem"
)

type Finding struct {
	ID     string `json:"id"`
	Rep    int    `json:"rep"`
	Sig    string `json:"sig"`
	Detail string `json:"detail"`
}

var protoOut *bufio.Writer

func emit(v any) {
	b, _ := json.Marshal(v)
	protoOut.Write(b)
	protoOut.WriteByte('\n')
	protoOut.Flush()
}

func workerMain(args []string) {
	fs := flag.NewFlagSet("worker", flag.ExitOnError)
	in := fs.String("in", "", "file with the cases of this batch")
	racelog := fs.String("racelog", "", "GORACE log_path prefix (the detector appends .<pid>)")
	skip := fs.Int("skip", 0, "skip this many cases of the file")
	wd := fs.Int("watchdog", 10, "seconds without progress that count as a deadlock")
	fs.Parse(args)
	protoOut = bufio.NewWriter(os.Stdout)
	// MemMapFs.List prints to os.Stdout; log.Panic prints to the standard logger
	if null, err := os.OpenFile(os.DevNull, os.O_WRONLY, 0); err == nil {
		os.Stdout = null
	}
	log.SetOutput(io.Discard)
	rl := &raceLog{path: fmt.Sprintf("%s.%d", *racelog, os.Getpid())}
	cases := readCaseFile(*in)
	for i, lines := range cases {
		if i < *skip {
			continue
		}
		if !strings.HasPrefix(lines[0], "ccase ") {
			continue
		}
		c := parseCase(lines)
		emit(map[string]any{"start": c.ID})
		poisoned := false
		seen := map[string]bool{}
		reps := 0
		for rep := 0; rep < c.Reps && !poisoned; rep++ {
			fnd, dead := runOnce(c, time.Duration(*wd)*time.Second)
			fnd = append(fnd, rl.newReports()...)
			for _, f := range fnd {
				if seen[f.Sig] {
					continue
				}
				seen[f.Sig] = true
				f.ID, f.Rep = c.ID, rep
				emit(f)
			}
			poisoned = dead
			reps++
		}
		emit(map[string]any{"done": c.ID, "reps": reps})
		if poisoned {
			protoOut.Flush()
			os.Exit(3)
		}
	}
	protoOut.Flush()
	os.Exit(0)
}

// ---------------------------------------------------------------- one execution

func runOnce(c *Case, watchdog time.Duration) (out []Finding, deadlocked bool) {
	fs := afero.NewMemMapFs()
	tmp := make([]afero.File, len(c.Setup))
	for i, o := range c.Setup {
		if p := execOp(fs, tmp, i, o); p != nil {
			out = append(out, Finding{Sig: "panic:setup:" + o.Kind, Detail: fmt.Sprint(p)})
		}
	}
	for _, h := range tmp {
		if h != nil {
			h.Close()
		}
	}
	n := len(c.Threads)
	slots := make([][]afero.File, n)
	for t := 0; t < n; t++ {
		slots[t] = make([]afero.File, len(c.Pro[t])+len(c.Threads[t]))
		for i, o := range c.Pro[t] {
			if p := execOp(fs, slots[t], i, o); p != nil {
				out = append(out, Finding{Sig: "panic:prologue:" + o.Kind, Detail: fmt.Sprint(p)})
			}
		}
	}
	var start int32
	var progress, finished int64
	var mu sync.Mutex // protects out while goroutines run
	var wg sync.WaitGroup
	for t := 0; t < n; t++ {
		wg.Add(1)
		go func(t int) {
			defer wg.Done()
			defer atomic.AddInt64(&finished, 1)
			for atomic.LoadInt32(&start) == 0 {
				runtime.Gosched()
			}
			base := len(c.Pro[t])
			for i, o := range c.Threads[t] {
				if p := execOp(fs, slots[t], base+i, o); p != nil {
					mu.Lock()
					out = append(out, Finding{Sig: "panic:" + o.Kind, Detail: fmt.Sprintf("g%d op %d %s: %v", t, i, o.String(), p)})
					mu.Unlock()
				}
				atomic.AddInt64(&progress, 1)
			}
		}(t)
	}
	done := make(chan struct{})
	go func() { wg.Wait(); close(done) }()
	atomic.StoreInt32(&start, 1)
	last, lastChange := int64(-1), time.Now()
	tick := time.NewTicker(50 * time.Millisecond)
	defer tick.Stop()
loop:
	for {
		select {
		case <-done:
			break loop
		case <-tick.C:
			p := atomic.LoadInt64(&progress)
			if p != last {
				last, lastChange = p, time.Now()
				continue
			}
			idle := time.Since(lastChange)
			if idle < time.Second {
				continue
			}
			blocked, unfinishedBlocked, dump := blockedMethods()
			unfinished := int64(n) - atomic.LoadInt64(&finished)
			if (int64(unfinishedBlocked) >= unfinished && unfinished > 0) || idle >= watchdog {
				// every unfinished goroutine waits for a mutex that no running goroutine can
				// release (or: no progress for the whole watchdog period)
				mu.Lock()
				out = append(out, Finding{Sig: "deadlock:" + strings.Join(blocked, "+"),
					Detail: fmt.Sprintf("no progress for %.1fs, %d of %d goroutines unfinished, all blocked=%v; %s",
						idle.Seconds(), unfinished, n, int64(unfinishedBlocked) >= unfinished, firstLines(dump, 60))})
				res := append([]Finding(nil), out...)
				mu.Unlock()
				return res, true
			}
		}
	}
	// the sweep takes mu and the file mutexes: a lock that a recovered panic left held blocks it
	swept := make(chan []Finding, 1)
	go func() {
		f := sweep(fs, c)
		for t := range slots {
			for _, h := range slots[t] {
				if h != nil {
					func() {
						defer func() { recover() }()
						h.Close()
					}()
				}
			}
		}
		swept <- f
	}()
	select {
	case f := <-swept:
		out = append(out, f...)
	case <-time.After(3 * time.Second):
		out = append(out, Finding{Sig: "deadlock:lock-left-held-after-all-calls-returned",
			Detail: "every goroutine has returned but the consistency sweep (VerifDump: mu.RLock) blocks: a lock was never released"})
		return out, true
	}
	return out, false
}

func firstLines(s string, n int) string {
	l := strings.Split(s, "\n")
	if len(l) > n {
		l = l[:n]
	}
	return strings.Join(l, " / ")
}

var aferoFrame = regexp.MustCompile(`^github\.com/spf13/afero(/mem)?\.`)

func shortFunc(fn string) string {
	// github.com/spf13/afero/mem.(*File).Readdir(...) -> mem.(*File).Readdir
	fn = strings.TrimSpace(fn)
	if i := strings.LastIndex(fn, "("); i > 0 && strings.HasSuffix(fn, ")") {
		// strip the argument list of a traceback frame / the "()" of a race report frame
		depth := 0
		for j := len(fn) - 1; j >= 0; j-- {
			if fn[j] == ')' {
				depth++
			} else if fn[j] == '(' {
				depth--
				if depth == 0 {
					fn = fn[:j]
					break
				}
			}
		}
	}
	fn = strings.TrimPrefix(fn, "github.com/spf13/afero/")
	fn = strings.TrimPrefix(fn, "github.com/spf13/")
	return fn
}

// blockedMethods dumps all goroutines and returns, for the program goroutines that wait for a
// sync.Mutex / sync.RWMutex, the outermost afero frame (the API method), sorted and unique.
func blockedMethods() (methods []string, nblocked int, dump string) {
	buf := make([]byte, 1<<20)
	buf = buf[:runtime.Stack(buf, true)]
	dump = string(buf)
	set := map[string]bool{}
	for _, g := range strings.Split(dump, "\n\n") {
		lines := strings.Split(g, "\n")
		if len(lines) < 2 || !strings.Contains(g, "main.runOnce.func") {
			continue
		}
		hdr := lines[0]
		if !(strings.Contains(hdr, "sync.Mutex.Lock") || strings.Contains(hdr, "sync.RWMutex") || strings.Contains(hdr, "semacquire")) {
			continue
		}
		outer, inner := "", ""
		for _, l := range lines[1:] {
			if strings.HasPrefix(l, "\t") || strings.HasPrefix(l, " ") {
				continue
			}
			if aferoFrame.MatchString(l) {
				if inner == "" {
					inner = shortFunc(l)
				}
				outer = shortFunc(l)
			}
		}
		if outer == "" {
			continue
		}
		nblocked++
		set[outer] = true
		_ = inner
	}
	for m := range set {
		methods = append(methods, m)
	}
	sort.Strings(methods)
	return
}

// ---------------------------------------------------------------- race reports

type raceLog struct {
	path string
	off  int64
}

func (r *raceLog) newReports() []Finding {
	f, err := os.Open(r.path)
	if err != nil {
		return nil
	}
	defer f.Close()
	st, _ := f.Stat()
	if st.Size() <= r.off {
		return nil
	}
	buf := make([]byte, st.Size()-r.off)
	f.ReadAt(buf, r.off)
	r.off = st.Size()
	return parseRaceReports(string(buf))
}

func parseRaceReports(text string) []Finding {
	var out []Finding
	for _, blk := range strings.Split(text, "==================") {
		if !strings.Contains(blk, "WARNING: DATA RACE") {
			continue
		}
		var tops, kinds, locs []string
		lines := strings.Split(blk, "\n")
		for i := 0; i < len(lines) && len(tops) < 2; i++ {
			l := lines[i]
			if !(strings.Contains(l, " at 0x") && strings.HasSuffix(strings.TrimSpace(l), ":") && strings.Contains(l, "by ")) {
				continue
			}
			kind := strings.ToLower(strings.Fields(strings.TrimPrefix(strings.TrimSpace(l), "Previous "))[0])
			top, loc := "?", ""
			for j := i + 1; j < len(lines) && strings.TrimSpace(lines[j]) != ""; j++ {
				fn := strings.TrimSpace(lines[j])
				if aferoFrame.MatchString(fn) {
					top = shortFunc(fn)
					if j+1 < len(lines) {
						loc = strings.Fields(strings.TrimSpace(lines[j+1]))[0]
					}
					break
				}
			}
			tops = append(tops, top)
			kinds = append(kinds, kind)
			locs = append(locs, loc)
		}
		if len(tops) < 2 {
			out = append(out, Finding{Sig: "race:unparsed", Detail: firstLines(blk, 30)})
			continue
		}
		det := fmt.Sprintf("%s in %s (%s) vs %s in %s (%s)", kinds[0], tops[0], locs[0], kinds[1], tops[1], locs[1])
		s := []string{tops[0], tops[1]}
		sort.Strings(s)
		out = append(out, Finding{Sig: "race:" + s[0] + "|" + s[1], Detail: det})
	}
	return out
}

// ---------------------------------------------------------------- quiescent consistency

func related(a, b string) bool {
	return a == b || strings.HasPrefix(a, b+"/") || strings.HasPrefix(b, a+"/")
}

func norm(p string) string {
	p = path.Clean(p)
	if p == "." || p == ".." {
		return "/"
	}
	return p
}

// kinds of the mutating concurrent ops whose paths are at, above or below p, following renames
// (a Rename links its two names)
func involved(c *Case, p string) string {
	rel := []string{p}
	isRel := func(q string) bool {
		for _, r := range rel {
			if related(q, r) {
				return true
			}
		}
		return false
	}
	for changed := true; changed; {
		changed = false
		for _, th := range c.Threads {
			for _, o := range th {
				if o.Kind != "Rename" && o.Kind != "RenameDir" {
					continue
				}
				a, b := norm(o.P), norm(o.Q)
				ra, rb := isRel(a), isRel(b)
				if ra != rb {
					if ra {
						rel = append(rel, b)
					} else {
						rel = append(rel, a)
					}
					changed = true
				}
			}
		}
	}
	set := map[string]bool{}
	for _, th := range c.Threads {
		for _, o := range th {
			switch o.Kind {
			case "Create", "Mkdir", "MkdirAll", "Remove", "RemoveAll", "Rename", "RenameDir":
			case "OpenFile":
				if o.A&int64(os.O_CREATE) == 0 {
					continue
				}
			default:
				continue
			}
			if isRel(norm(o.P)) || (o.Q != "" && isRel(norm(o.Q))) {
				set[o.Kind] = true
			}
		}
	}
	var ks []string
	for k := range set {
		ks = append(ks, k)
	}
	sort.Strings(ks)
	return strings.Join(ks, "+")
}

func sweep(fs afero.Fs, c *Case) (out []Finding) {
	defer func() {
		if r := recover(); r != nil {
			out = append(out, Finding{Sig: "panic:sweep", Detail: fmt.Sprint(r)})
		}
	}()
	seen := map[string]bool{}
	add := func(clause, p, detail string) {
		sig := "inconsistent:" + clause + ":" + involved(c, p)
		if seen[sig] {
			return
		}
		seen[sig] = true
		out = append(out, Finding{Sig: sig, Detail: clause + " " + p + ": " + detail})
	}
	ents := afero.VerifDump(fs)
	by := map[string]afero.VerifEntry{}
	for _, e := range ents {
		by[e.Path] = e
	}
	paths := make([]string, 0, len(by))
	for p := range by {
		paths = append(paths, p)
	}
	sort.Strings(paths)
	for _, p := range paths {
		e := by[p]
		if e.Name != e.Path {
			add("name", p, "the node stored under this key is called "+e.Name)
		}
		if p != "/" {
			parent := path.Dir(p)
			pe, ok := by[parent]
			switch {
			case !ok:
				add("orphan", p, "exists but its parent "+parent+" does not")
			case !pe.Dir:
				add("orphan", p, "exists but its parent "+parent+" is not a directory")
			default:
				listed := false
				for i, k := range pe.KidKeys {
					if k == p && pe.KidNames[i] == p {
						listed = true
					}
				}
				if !listed {
					add("unlisted", p, "exists but the child index of "+parent+" does not list it")
				}
			}
		}
		if e.Dir {
			for i, k := range e.KidKeys {
				name := e.KidNames[i]
				if _, ok := by[name]; !ok {
					add("ghost", name, "listed by "+p+" (key "+k+") but does not exist")
				} else if path.Dir(name) != p || k != name {
					add("ghost", name, "listed by "+p+" under key "+k+" but lives elsewhere")
				}
			}
		}
	}
	// the same three clauses through the API, with node identity
	for _, p := range paths {
		e := by[p]
		st, err := fs.Stat(p)
		if err != nil {
			add("stat", p, "in the map but Stat fails: "+err.Error())
			continue
		}
		if !e.Dir {
			continue
		}
		h, err := fs.Open(p)
		if err != nil {
			add("stat", p, "in the map but Open fails: "+err.Error())
			continue
		}
		infos, _ := h.Readdir(-1)
		h.Close()
		listed := map[string]bool{}
		for _, fi := range infos {
			full := path.Join(p, fi.Name())
			listed[full] = true
			cst, err := fs.Stat(full)
			if err != nil {
				add("ghost", full, "Readdir("+p+") lists it but Stat fails")
				continue
			}
			a, ok1 := fi.(*mem.FileInfo)
			b, ok2 := cst.(*mem.FileInfo)
			if ok1 && ok2 && a.FileData != b.FileData {
				add("ghost", full, "Readdir("+p+") lists a different node than the one stored under this path")
			}
		}
		for _, q := range paths {
			if q != "/" && path.Dir(q) == p && !listed[q] {
				add("unlisted", q, "exists but Readdir("+p+") does not list it")
			}
		}
		_ = st
	}
	return out
}
