#!/bin/bash
# Build the concurrency harness (C03) against /repo's working tree with the race detector
# (needs cgo) and the verif overlay (VerifDump: internal map + child index).
set -e
cd "$(dirname "$0")"
export GOFLAGS=-mod=mod GOPROXY=off GOSUMDB=off GOTOOLCHAIN=local CGO_ENABLED=1
REPO=${VERIF_REPO:-/repo}
ROOT=$(cd .. && pwd)
mkdir -p "$ROOT/work"
cp "$REPO/go.sum" go.sum
OV="$ROOT/work/overlay-harness-conc.json"
printf '{"Replace": {"%s/zz_verif_export.go": "%s/overlay/afero_export.go", "%s/mem/zz_verif_export.go": "%s/overlay/mem_export.go"}}\n' "$REPO" "$ROOT" "$REPO" "$ROOT" > "$OV"
go build -race -tags verif -overlay "$OV" -o afcheck ./cmd/afcheck
