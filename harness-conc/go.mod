module verifharnessconc

go 1.23.0

require github.com/spf13/afero v0.0.0

require golang.org/x/text v0.23.0 // indirect

replace github.com/spf13/afero => /repo
