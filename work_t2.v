From AF Require Import Lib.Bytes Lib.Path Lib.Ops Model.BasePath.
Definition alpha : list N := [97; 46; 47]%N.
Fixpoint strs (n : nat) : list str :=
  match n with O => [[]] | S k => flat_map (fun s => map (fun c => c :: s) alpha) (strs k) end.
Definition upto3 := strs 1 ++ strs 2 ++ strs 3.
Definition bad (a b c : str) := negb (beqb (join2 (join2 a b) c) (join2 a (join2 b c))).
Definition triples (la lb lc : list str) :=
  flat_map (fun a => flat_map (fun b => flat_map (fun c => if bad a b c then [(a,b,c)] else []) lc) lb) la.
Eval vm_compute in triples (strs 1) (strs 1) (strs 1).
Eval vm_compute in triples (strs 1) (strs 2) (strs 1).
Eval vm_compute in triples (strs 2) (strs 1) (strs 1).
Eval vm_compute in triples (strs 1) (strs 1) (strs 2).
Eval vm_compute in length (triples (strs 1) (strs 3) (strs 1)).
Eval vm_compute in (triples (strs 1) (strs 3) (strs 1)).
Eval vm_compute in (triples (strs 1) (strs 2) (strs 2)).
Eval vm_compute in (triples (strs 2) (strs 2) (strs 1)).
Eval vm_compute in (triples (strs 1) (strs 1) (strs 3)).
Eval vm_compute in (triples (strs 2) (strs 1) (strs 2)).
(* unrooted b: any failures? *)
Eval vm_compute in filter (fun t => negb (is_rooted (snd (fst t)))) (triples upto3 upto3 upto3).
