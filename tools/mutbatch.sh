#!/bin/bash
# usage: tools/mutbatch.sh <PROP> <scratch worktree with mutants/m*/>  [tag letter, default h]
# Stores the mutants as seeded/<PROP>-<tag><k>, confirms each (mutverify), runs the property's quick
# check on each (mutrun), prints one summary block per mutant, removes the scratch worktree.
set -u
P=$1; src=$2; tag=${3:-h}
cd /verif
k=0
for m in "$src"/mutants/m*/; do
  [ -f "$m/patch.diff" ] || continue
  k=$((k+1)); while [ -e seeded/$P-$tag$k ]; do k=$((k+1)); done
  d=seeded/$P-$tag$k; mkdir -p $d; cp "$m"/patch.diff "$m"/demo_test.go "$m"/meta.json $d/
  echo "== $d"
  tools/mutverify.sh $d 2>&1 | grep RESULT | sed 's#/verif/seeded/##'
  tools/mutrun.sh $d/patch.diff $P quick 2>&1 | grep -E "exit=|quick:|signature|no-failing|DOES NOT" | sort | uniq -c | sort -rn | head -6
done
git -C /repo worktree remove --force "$src" 2>/dev/null
