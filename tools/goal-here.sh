#!/bin/bash
# usage: goal-here.sh File.v LINE [TAIL] — like goal.sh but relative to this checkout
f=$1; n=$2
cd "$(dirname "$0")/../coq"
( head -n "$n" "$f"; echo; echo "Show." ) | timeout 120 coqtop -Q . AF 2>&1 | tail -n ${3:-40}
