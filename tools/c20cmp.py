#!/usr/bin/env python3
"""c20cmp.py <dir> — compare impl.txt with model.txt (M and S lines) in a work directory; dev helper."""
import sys, collections
d = sys.argv[1]
impl = {}
for l in open(d + '/impl.txt', errors='replace'):
    k, _, v = l.rstrip('\n').partition(' ')
    impl[k] = v
M, S = {}, {}
for l in open(d + '/model.txt', errors='replace'):
    tag, _, rest = l.rstrip('\n').partition(' ')
    k, _, v = rest.partition(' ')
    (M if tag == 'M' else S)[k] = v
bad = [(k, impl.get(k), v) for k, v in M.items() if impl.get(k) != v] + [(k, v, None) for k, v in impl.items() if k not in M]
sbad = [(k, impl.get(k), v) for k, v in S.items() if k in impl and impl[k] != v]
print('impl', len(impl), 'M', len(M), 'S', len(S), 'corr-mismatch', len(bad), 'spec-mismatch', len(sbad))
first = collections.OrderedDict()
for k, a, b in bad:
    first.setdefault(k.split('#')[0], (k, a, b))
for i, (c, (k, a, b)) in enumerate(first.items()):
    if i >= int(sys.argv[2]) if len(sys.argv) > 2 else i >= 8: break
    print('CORR', k, 'impl=', (a or '')[:200], 'model=', (b or '')[:200])
firsts = collections.OrderedDict()
for k, a, b in sbad:
    firsts.setdefault(k.split('#')[0], (k, a, b))
print('spec-mismatch cases', len(firsts))
for i, (c, (k, a, b)) in enumerate(firsts.items()):
    if i >= 8: break
    print('SPEC', k, 'impl=', (a or '')[:200], 'spec=', (b or '')[:200])
