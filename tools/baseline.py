#!/usr/bin/env python3
"""Run the repository's pinned test suite with the verif guard OFF and compare per test
(go test -json) with /root/.vp/BASELINE.json's stable_pass list (falls back to: no test may
fail).  Usage: tools/baseline.py [repo dir].  Exit 0 iff every baseline test passes.
(gcsfs's TestMain always exits 0, so exit codes are not enough.)"""
import json, os, subprocess, sys
repo = sys.argv[1] if len(sys.argv) > 1 else '/repo'
env = dict(os.environ, GOFLAGS='-mod=mod', GOPROXY='off', GOSUMDB='off', GOTOOLCHAIN='local')
res = {}
for m in ('.', 'gcsfs', 'sftpfs'):
    for attempt in range(3):
        out = subprocess.run(['go', 'test', '-json', '-vet=off', '-count=1', '-timeout', '25m', './...'],
                             cwd=os.path.join(repo, m), env=env, capture_output=True, text=True).stdout
        if 'address already in use' not in out:
            break
    for l in out.splitlines():
        try:
            e = json.loads(l)
        except Exception:
            continue
        if e.get('Test') and e.get('Action') in ('pass', 'fail', 'skip'):
            res[e['Package'] + '::' + e['Test']] = e['Action']
failed = sorted(t for t, a in res.items() if a == 'fail')
try:
    base = json.load(open('/root/.vp/BASELINE.json'))['stable_pass']
except Exception:
    base = []
missing = [t for t in base if res.get(t) != 'pass']
print('tests run: %d, passing: %d, failing: %s' % (len(res), sum(1 for a in res.values() if a == 'pass'), failed))
if base:
    print('baseline tests: %d, not passing: %s' % (len(base), missing))
sys.exit(1 if (failed or missing) else 0)
