#!/bin/bash
# usage: tools/mkwt.sh <name>   — scratch pair for a sub-agent: /tmp/wt-<name> (worktree of /verif on
# branch <name>) built against /tmp/repo-<name> (detached worktree of /repo).  Use with
# VERIF_REPO=/tmp/repo-<name>.  Remove with: tools/mkwt.sh -d <name>
set -eu
if [ "$1" = "-d" ]; then
  n=$2
  git -C /repo worktree remove --force /tmp/repo-$n || true
  git -C /verif worktree remove --force /tmp/wt-$n || true
  exit 0
fi
n=$1
git -C /verif worktree add -q -b "$n" /tmp/wt-$n
git -C /repo worktree add -q --detach /tmp/repo-$n HEAD
cd /tmp/wt-$n
for m in harness*/go.mod; do
  sed -i "s#=> /repo#=> /tmp/repo-$n#g" "$m"
  git update-index --assume-unchanged "$m"
done
echo "ready: /tmp/wt-$n (VERIF_REPO=/tmp/repo-$n)"
