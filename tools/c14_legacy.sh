#!/bin/bash
# Developer aid for C14: runs the harness on generated cases and compares the implementation with the
# model of TODAY's code (legacy = true, "L" lines of drv_c14.ml) and with the patched model ("M").
# usage: tools/c14_legacy.sh [quick|thorough] [seed]
cd "$(dirname "$0")/.."
export GOFLAGS=-mod=mod GOPROXY=off GOSUMDB=off GOTOOLCHAIN=local
W=work/C14/legacy; mkdir -p $W
(cd harness && ./afcheck run -prop C14 -tier ${1:-quick} -seed ${2:-1} -out ../$W) || exit 1
C14_LEGACY=1 ocaml/modelrun $W/cases.txt > $W/model.txt || exit 1
python3 - "$W" <<'PY'
import sys,collections
w=sys.argv[1]
impl={}
for l in open(w+'/impl.txt'):
    k,_,v=l.rstrip('\n').partition(' '); impl[k]=v
for tag in 'LM':
    bad=[];n=0
    for l in open(w+'/model.txt'):
        t,_,rest=l.rstrip('\n').partition(' ')
        if t!=tag: continue
        k,_,v=rest.partition(' ')
        if tag=='L' and '/' in k: continue
        n+=1
        if impl.get(k)!=v: bad.append((k,impl.get(k),v))
    print('%s: %d lines, %d differ from the implementation'%(tag,n,len(bad)))
    for b in bad[:8]: print('   ',b)
sig=collections.Counter(l.split(' ')[2] for l in open(w+'/oracle.txt'))
print('oracle:',dict(sig))
PY
