#!/usr/bin/env python3
# usage: tools/cmp.py <ID>  — summarise model-vs-impl and spec-vs-impl mismatches of work/<ID>
import sys, collections, re
pid = sys.argv[1]
sub = sys.argv[2] if len(sys.argv) > 2 else ''
sys.argv = ['check']
exec(open('/tmp/wt-cache/check').read().split("def main():")[0])
w = 'work/%s%s' % (pid, '/' + sub if sub else '')
r = {'impl': read_kv(w + '/impl.txt')}
r['M'], r['S'] = read_model(w + '/model.txt')
corr, spec = compare(r)
print('impl lines', len(r['impl']), 'corr mismatches', len(corr), 'spec mismatches', len(spec))
cases = load_cases(w + '/cases.txt')
sig = collections.Counter(); ex = {}
for k, a, b in corr + spec:
    cid = case_of(k)
    try:
        step = int(k.split('#')[1].split('/')[0]); lines = cases[cid]; line = lines[1 + step]
    except Exception:
        line = (cases.get(cid) or ['?'])[0]
    op = line.split(' ')
    key = (op[2] if len(op) > 2 else op[0], a.split(':')[0], b.split(':')[0])
    sig[key] += 1
    ex.setdefault(key, (k, a[:300], b[:300], line[:200]))
for k, v in sig.most_common(30):
    print(v, k, ex[k])
