#!/bin/bash
# usage: tools/mutverify.sh <mutant dir with patch.diff demo_test.go meta.json>
# Confirms in a scratch worktree of /repo: the patch applies, the unedited suite passes with it,
# the demo fails with it and passes without it.
set -u
d=$(readlink -f "$1"); tag=$(basename "$(dirname "$(dirname "$d")")")-$(basename "$d")-$$
R=/tmp/mutchk-$tag
export GOFLAGS=-mod=mod GOPROXY=off GOSUMDB=off GOTOOLCHAIN=local
git -C /repo worktree add -q --detach "$R" HEAD || exit 9
loc=$(python3 -c "import json,sys;print(json.load(open('$d/meta.json'))['demo_location'].split()[0])")
cmd=$(python3 -c "import json,sys;print(json.load(open('$d/meta.json'))['demo_cmd'])")
cd "$R"
cp "$d/demo_test.go" "$loc"
if (eval "$cmd") >/tmp/mutchk-$tag.orig 2>&1; then orig=PASS; else orig=FAIL; fi
rm -f "$loc"
if ! git apply "$d/patch.diff"; then echo "RESULT $d: PATCH-DOES-NOT-APPLY"; cd /; git -C /repo worktree remove --force "$R"; exit 1; fi
suite=PASS
go test -vet=off -count=1 ./... >/tmp/mutchk-$tag.suite 2>&1 || suite=FAIL
# sub-modules touched by the patch: per-test comparison (gcsfs's TestMain always exits 0)
if grep -q "^+++ b/\(gcsfs\|sftpfs\)/" "$d/patch.diff"; then
  python3 /verif/tools/baseline.py "$R" >/tmp/mutchk-$tag.base 2>&1 || suite=FAIL
fi
cp "$d/demo_test.go" "$loc"
if (eval "$cmd") >/tmp/mutchk-$tag.mut 2>&1; then mut=PASS; else mut=FAIL; fi
echo "RESULT $d: demo-on-original=$orig suite-with-mutant=$suite demo-with-mutant=$mut"
cd /; git -C /repo worktree remove --force "$R"; rm -f /tmp/mutchk-$tag.*
