#!/bin/bash
# usage: goal.sh File.v LINE  — run coqtop on the first LINE lines and show the goal
f=$1; n=$2
cd /tmp/wt-conc/coq
( head -n "$n" "$f"; echo; echo "Show." ) | timeout 120 coqtop -Q . AF 2>&1 | tail -n ${3:-40}
