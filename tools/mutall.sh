#!/bin/bash
# usage: tools/mutall.sh [parallelism]  — re-runs every stored seeded change through its property's
# quick check at the current /repo HEAD (scratch copies, see mutrun.sh); one line per change in
# work/mutall.log: <id> <applies?> exit=<rc> oracle-signatures=<n> corr=<n> no-failing-input=<0|1>
cd /verif
par=${1:-3}
out=work/mutall.log; : > $out
run_one() {
  d=$1; id=$(basename $d); P=${id%%-*}
  r=$(tools/mutrun.sh $d/patch.diff $P quick 2>&1)
  if echo "$r" | grep -q "PATCH DOES NOT APPLY"; then echo "$id does-not-apply" >> work/mutall.log; return; fi
  rc=$(echo "$r" | grep -o "exit=[0-9]*" | head -1)
  sig=$(echo "$r" | grep -c '"signature"')
  corr=$(echo "$r" | grep -o "[0-9]* corr-mismatch" | head -1 | cut -d' ' -f1)
  nf=$(echo "$r" | grep -c "no-failing-input-found")
  echo "$id applies $rc oracle-signatures=$sig corr=${corr:-?} no-failing-input=$nf" >> work/mutall.log
}
export -f run_one
ls -d seeded/*/ | sed 's#/$##' | xargs -P $par -I{} bash -c 'run_one {}'
sort -o $out $out
