#!/usr/bin/env python3
"""Regenerate /verif/MANIFEST.json from properties.jsonl and the per-property plugins."""
import json, os, sys, importlib
ROOT = os.path.dirname(os.path.dirname(os.path.abspath(__file__)))
sys.path.insert(0, os.path.join(ROOT, 'checks'))
props = [json.loads(l) for l in open(os.path.join(ROOT, 'properties.jsonl'))]
checks, na = [], []
DEFAULT_NOTE = ('Trusted: Coq 8.16.1 kernel (incl. vm_compute; no native_compute); extraction with ExtrOcamlBasic only + ocaml/modelrun; '
                'the Go harness, canonicaliser and constant translator; the Go toolchain and standard library. All of afero is modelled, '
                'not verified: the theorems are about hand-written Gallina models tied to /repo by the per-run correspondence check, the '
                'constants regenerated from the source on every run, and the Go-side property oracle. See DESIGN.md 3.7.')

LEVEL_TEXT = {
 'C01': 'Coq theorems over the faithful MemMapFs model (coq/Model/MemFs.v): child-index invariant WF preserved by every well-formed op sequence, failed calls are no-ops, listing/paging, rename moves subtrees, spelling (clean) invariance, a simulation against an independent POSIX spec (coq/Model/Posix.v) for the portable class — which includes creating below a regular file (ENOTDIR on both sides) — and, for every state and every name, nothing is created below a regular file. Tie: every generated sequence (well-formed and malformed) is run on the real MemMapFs, on the extracted model (incl. full dumps of the path map and child index) and, inside the proved class, on the extracted POSIX spec; oracle: the same well-formed program on OsFs in a fresh temp dir (step results + final Stat/ReadDir/ReadFile sweep).',
 'C02': 'Coq refinement theorem: for all contents, handle sets and op sequences the model of mem.File equals the flat byte-array spec (ByteFile.v) under projection, never panics, inert handles never change data. Tie: differential run of mem.File (direct handles and through MemMapFs) against model and spec, exhaustive over short sequences.',
 'C03': 'PARTIAL. Coq model of the lock discipline of memmap.go/mem/file.go (one action per lock operation; the per-function lock table is regenerated from the AST on every run and must equal the declared one) with theorems over all schedules and all programs of the class: every conflicting pair of annotated accesses is ordered (lockset / happens-before), no deadlock (lock order incl. nested directory mutexes), no unlock error, no lock leak, locks balanced after a panic, and — with no sequential hypothesis — every configuration of every schedule keeps the C01 tree invariant, hence the three consistency clauses at quiescence. The Go memory model, the race detector and the scheduler are outside the model: -race stress in child processes (pair matrix + random program sets, watchdog for deadlocks, race-report parser) and a post-quiescence consistency sweep search for failing executions.',
 'C04': 'PARTIAL. Coq theorem: every history of a machine whose calls take effect in one atomic step of the sequential model is linearizable (any threads, any schedule); methods with several critical sections are modelled by explicit section tables whose shape is read from the source on every run (today: all in the one-section position, by reflexivity facts), with refutation theorems for every split shape. Tie/search: concurrent histories of the real MemMapFs are searched for a linearization against the EXTRACTED sequential model (verified checker): stress and window programs under real preemption, and an instrumented, lock-aware cooperative scheduler (every lock acquisition is a switching point) that explores every schedule of 325 fixed window programs under a preemption bound and random schedules elsewhere; direct checks of the exactly-one-winner and torn-read clauses. Outside the Coq model: which Go lock protects which section against which handle operation.',
 'C05': 'Coq theorems for ANY base satisfying contract K and any overlay: every call CopyOnWriteFs/UnionFile/copy-up makes on the base is one a ReadOnlyFs would forward, hence the base view is frozen over all op sequences and flag words; K proved for MemMapFs. Tie: cow(mem,mem) differential against the model; oracle: deep snapshot of the base before/after every step incl. all 4096 combinations of 12 O_* bits.',
 'C06': 'Coq theorems over arbitrary inner filesystems: lookup is overlay-then-base, merged listing is duplicate-free union with overlay winning, pages partition the listing, Readdir(-1) consumes it; copy-up (any depth of missing overlay directories, any spelling), write/read-back against the C02 byte array (all flag words, all handle-method sequences) and failed-call-leaves-view-unchanged (all Fs and handle methods) proved for MemMapFs layers in every state satisfying the C01 invariant; one excluded corner refuted with a replayed witness (base directory carrying bytes). Tie + oracle: union view compared with overlay-over-base computed from direct dumps of both layers after every step, listings in pages (incl. huge counts), entries vs Stat, copy-up of multi-block files, many-entry directories, kind-conflict layers, an OsFs overlay scenario.',
 'C07': 'Coq theorems for ANY source with contract K (proved for MemMapFs, inherited through BasePathFs/ReadOnlyFs): mutators return EPERM without consulting the source, reads are transparent, the source view is frozen over all op sequences and all integer flag values. Tie: differential on ro(mem), ro(bp(mem)), ro(ro(mem)); oracle: deep source snapshot per step, flag sweep.',
 'C08': 'Coq theorems for every root and every name string: RealPath results lie segment-wise below the cleaned root (incl. nested roots, Symlink/Lstat/Readlink names, httpDir targets), the wrapper makes one forwarded call whose names are all confined, escaping names are refused without touching the source. Tie: exhaustive RealPath/httpDir comparison on short names, op sequences with prefix-sharing siblings; oracle: everything outside the root unchanged and never leaked.',
 'C09': 'Coq theorems: for in-root names each BasePathFs op equals the source op with Clean(Join(D,name)), Name() is the path relative to D, stacking equals the joined root (for names/roots that never step up; counterexample otherwise), FullBaseFsPath is the joined path. Tie + oracle: twin MemMapFs with joined paths, per-step equality and equal final snapshots.',
 'C10': 'Coq theorems on the CacheOnReadFs model: cacheStatus classifies by the three rules of the property for all times/durations, Open by status, the layer accepts the copy for every well-formed layer and name (C10_layer_ready; the corner below a cached regular file refuted with a reachable witness), the first read leaves an identical copy with the base mtime, duration zero never consults the base. Tie: cache:0 / cache:1000 stacks with explicit past mtimes; oracle implements the three rules on observed bytes (read-only and read-write handles, Read and ReadAt), sub-second and extreme mtimes, an OsFs layer scenario.',
 'C11': 'Coq theorems: an invariant CInv of (base, layer, handle table) — both layers well-formed, layer nodes paired with base nodes of equal kind and bytes, union handles aligned — holds initially and for every coherent pair and is preserved by all 25 operations for every duration, time and flag word of the well-formed class; hence after every call each file of the cache layer exists in the base with identical content and reads through the cache return what the base holds. Tie: well-formed programs through the union from coherent pairs; oracle: every cache file equals the base file after every step, reads through the union equal the base, read-only bases, base and layer on the OS.',
 'C12': 'Coq theorem over ALL single-fault plans (every call index, error/short write/early EOF) on the copy-up model with MemMapFs layers: the layer entry is absent, the old copy or the complete new copy, and incomplete copies report an error. Tie: Go fault injector with the same call numbering (call traces compared), exhaustive single-fault enumeration for cow and cache callers.',
 'C13': 'Coq theorems for any source and matcher: ops naming a hidden regular file are refused making only Stat probes (so nothing Stat preserves can change), listings from Open/OpenFile handles are filtered, matching files and directories are transparent; MemMapFs instance: snapshot unchanged. Tie + oracle: deep snapshots of every non-matching file per step, leaks in results, transparency sweep; patterns compared with package regexp.',
 'C14': 'Coq theorems for all archives and read programs: reads through any interleaving of handles equal the read-only byte-array spec, no panics, entries found under cleaned names, listings are exactly the children, mutators fail without effect (zipfs and tarfs models). Tie: archives written with archive/zip (Store, Deflate) and archive/tar; oracle: the known entry list.',
 'C15': 'Coq theorems on the IOFS/FromIOFS model: ValidPath characterisation and rejection, sorted complete ReadDir, paging, read/seek/ReadAt agreement (via C02), FromIOFS rejects every mutation. Tie: direct clause checks on generated trees and stacks; search oracle: testing/fstest.TestFS and the generic io/fs helpers.',
 'C16': 'Coq theorems: afero.Walk = filepath.Walk as functions of (tree, root, callback machine, state) for all inputs; afero.Glob = filepath.Glob for EVERY tree and EVERY pattern (escapes and malformed patterns included; both transcribed from source, Match shared) iff the two switches read from match.go are on. Tie: afero on MemMapFs/BasePathFs/CopyOnWriteFs and the real path/filepath on a mirrored temp dir against both transcriptions.',
 'C17': 'Coq theorems: the windowed search equals bytes.Contains on non-empty needles for every content, needle list and even window factor, and for every behaviour of the reader (any sequence of short reads, zero-byte reads and EOF placements; io.ReadAtLeast transcribed); WriteFile/WriteReader/SafeWriteReader followed by ReadFile return the bytes given on the MemMapFs model, SafeWriteReader leaves existing files untouched. Tie: exhaustive small contents/needles, boundary-planted matches, chunking oracles replayed on the implementation with read-call counts compared, long files, large needles, payload sizes 0..70000 over wrapper stacks, Afero methods, OsFs spellings.',
 'C18': 'Coq theorems: candidate names have the documented shape, a successful TempFile/TempDir name is fresh, inside the directory, and nothing else changes (contract form + MemMapFs instance), successive successes are pairwise distinct for any pre-existing set; the concurrent clause reduces to atomic exclusive create (C04). Tie: LCG constants from the source, VerifSetRandNum so model and code draw the same candidates, pre-created colliding candidates, real concurrent callers on MemMapFs and OsFs.',
 'C19': 'Coq theorems on the sftpfs model over an SFTP server model: server content is exactly what the reported write counts account for, reads/seeks/stat equal the byte-array spec, MkdirAll creates ancestors, rename/remove/stat delegate. Tie: sftpfs over an in-process pkg/sftp request server, server content read back through a second client; oracle from reported counts only.',
 'C20': 'Coq theorems on the gcsfs model over an object-store model (configuration regenerated from gcsfs/*.go): C20_data_exact for all in-class op sequences (store holds the byte-array result after Close, reads return it), a name is a folder iff objects exist below it (every layout), listing once each, Remove refuses non-empty folders, RemoveAll removes exactly the subtree for every store of the layout class at every nesting depth. Tie: gcsfs over an injected in-memory object store with GCS semantics; oracle: object bytes read directly from the store.',
}

for p in props:
    pid = p['id']
    plug = os.path.join(ROOT, 'checks', pid.lower() + '.py')
    if os.path.exists(plug):
        cfg = importlib.import_module(pid.lower()).CONFIG
        if os.path.exists(os.path.join(ROOT, 'coq', cfg['props_file'])):
            checks.append({
                'property_id': pid,
                'quick_cmd': './check %s quick' % pid,
                'thorough_cmd': './check %s thorough' % pid,
                'evidence_file': '/verif/evidence/%s.json' % pid,
                'replay_cmd_template': './check %s --replay {path}' % pid,
                'engine': 'coq-proof+correspondence',
                'level_claimed': {'category': 'proof',
                                  'text': cfg.get('level_text', LEVEL_TEXT.get(pid) or 'Coq theorems (coq/%s) over a Gallina model of the code, for all inputs/op sequences; '
                                                  'the model is tied to /repo on every run by a differential correspondence check and the property '
                                                  'oracle is evaluated on the implementation itself.' % cfg['props_file']),
                                  'design_ref': 'DESIGN.md section 6, ' + pid},
                'level_note': cfg.get('level_note', DEFAULT_NOTE),
                'technique': cfg.get('technique', 'machine-checked proof in Coq 8.16.1 over a hand-written executable model + per-run model/implementation correspondence check'),
            })
            continue
    na.append({'property_id': pid, 'reason': 'check not built yet at this commit (work in progress; DESIGN.md section 7 gives the order)'})
m = {
    'version': 1,
    'setup_cmd': './setup.sh',
    'hooks': {
        'guard': 'verif (Go build tag + go build -overlay; hooks are files under /verif/overlay injected at build time, no source commits)',
        'enable': 'go build -tags verif -overlay /verif/work/overlay-<module>.json (written by ./check); /repo sources are not modified',
        'baseline_off_cmd': 'for m in . gcsfs sftpfs; do (cd /repo/$m && GOFLAGS=-mod=mod GOPROXY=off GOSUMDB=off GOTOOLCHAIN=local go test -vet=off -count=1 -timeout 25m ./...) || exit 1; done',
        'source_commits': [],
        'add_only': True,
    },
    'engines': [{'name': 'coq-proof+correspondence', 'path': '/verif/check',
                 'serves_properties': [c['property_id'] for c in checks],
                 'kind_free_text': 'Coq theorems (coq/Props) over Gallina models (coq/Model), extracted to OCaml (ocaml/modelrun) and compared on every run '
                                   'with the Go implementation driven by harness*/afcheck; Go-side property oracles; vm_compute cross-check of extraction'}],
    'checks': checks,
    'not_applicable': na,
    'notes': 'DESIGN.md describes approach, trusted base, findings and fixes; known_findings.json lists recorded findings and fixed defects.',
}
json.dump(m, open(os.path.join(ROOT, 'MANIFEST.json'), 'w'), indent=1)
print('claimed:', [c['property_id'] for c in checks])
