#!/usr/bin/env python3
"""Regenerate /verif/MANIFEST.json from properties.jsonl and the per-property plugins."""
import json, os, sys, importlib
ROOT = os.path.dirname(os.path.dirname(os.path.abspath(__file__)))
sys.path.insert(0, os.path.join(ROOT, 'checks'))
props = [json.loads(l) for l in open(os.path.join(ROOT, 'properties.jsonl'))]
checks, na = [], []
DEFAULT_NOTE = ('Trusted: Coq 8.16.1 kernel (incl. vm_compute; no native_compute); extraction with ExtrOcamlBasic only + ocaml/modelrun; '
                'the Go harness, canonicaliser and constant translator; the Go toolchain and standard library. All of afero is modelled, '
                'not verified: the theorems are about hand-written Gallina models tied to /repo by the per-run correspondence check, the '
                'constants regenerated from the source on every run, and the Go-side property oracle. See DESIGN.md 3.7.')
for p in props:
    pid = p['id']
    plug = os.path.join(ROOT, 'checks', pid.lower() + '.py')
    if os.path.exists(plug):
        cfg = importlib.import_module(pid.lower()).CONFIG
        if os.path.exists(os.path.join(ROOT, 'coq', cfg['props_file'])):
            checks.append({
                'property_id': pid,
                'quick_cmd': './check %s quick' % pid,
                'thorough_cmd': './check %s thorough' % pid,
                'evidence_file': '/verif/evidence/%s.json' % pid,
                'replay_cmd_template': './check %s --replay {path}' % pid,
                'engine': 'coq-proof+correspondence',
                'level_claimed': {'category': 'proof',
                                  'text': cfg.get('level_text', 'Coq theorems (coq/%s) over a Gallina model of the code, for all inputs/op sequences; '
                                                  'the model is tied to /repo on every run by a differential correspondence check and the property '
                                                  'oracle is evaluated on the implementation itself.' % cfg['props_file']),
                                  'design_ref': 'DESIGN.md section 6, ' + pid},
                'level_note': cfg.get('level_note', DEFAULT_NOTE),
                'technique': cfg.get('technique', 'machine-checked proof in Coq 8.16.1 over a hand-written executable model + per-run model/implementation correspondence check'),
            })
            continue
    na.append({'property_id': pid, 'reason': 'check not built yet at this commit (work in progress; DESIGN.md section 7 gives the order)'})
m = {
    'version': 1,
    'setup_cmd': './setup.sh',
    'hooks': {
        'guard': 'verif (Go build tag + go build -overlay; hooks are files under /verif/overlay injected at build time, no source commits)',
        'enable': 'go build -tags verif -overlay /verif/work/overlay-<module>.json (written by ./check); /repo sources are not modified',
        'baseline_off_cmd': 'for m in . gcsfs sftpfs; do (cd /repo/$m && GOFLAGS=-mod=mod GOPROXY=off GOSUMDB=off GOTOOLCHAIN=local go test -vet=off -count=1 -timeout 25m ./...) || exit 1; done',
        'source_commits': [],
        'add_only': True,
    },
    'engines': [{'name': 'coq-proof+correspondence', 'path': '/verif/check',
                 'serves_properties': [c['property_id'] for c in checks],
                 'kind_free_text': 'Coq theorems (coq/Props) over Gallina models (coq/Model), extracted to OCaml (ocaml/modelrun) and compared on every run '
                                   'with the Go implementation driven by harness*/afcheck; Go-side property oracles; vm_compute cross-check of extraction'}],
    'checks': checks,
    'not_applicable': na,
    'notes': 'DESIGN.md describes approach, trusted base, findings and fixes; known_findings.json lists recorded findings and fixed defects.',
}
json.dump(m, open(os.path.join(ROOT, 'MANIFEST.json'), 'w'), indent=1)
print('claimed:', [c['property_id'] for c in checks])
