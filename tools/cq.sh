#!/bin/bash
# usage: cq.sh scratchfile.v  — compile a scratch file against the local tree
cd /tmp/wt-c01p/coq
timeout ${2:-300} coqc -Q . AF "$1" 2>&1
