#!/bin/bash
# usage: tools/mutrun.sh <patch.diff> <PROP> [tier]
# Runs ./check PROP on a scratch copy of /repo with the patch applied, using a scratch copy of
# /verif whose Go modules point at that copy (so /repo itself and concurrent work are not
# disturbed).  Prints the check's last lines and VIOLATION lines; cleans up afterwards.
set -u
patch=$(readlink -f "$1"); prop=$2; tier=${3:-quick}
tag=$(basename "$(dirname "$patch")")-$$
R=/tmp/mutrepo-$tag; V=/tmp/mutverif-$tag
rm -rf "$R" "$V"
git -C /repo worktree add -q --detach "$R" HEAD || exit 9
if ! git -C "$R" apply "$patch"; then echo "PATCH DOES NOT APPLY"; git -C /repo worktree remove --force "$R"; exit 8; fi
rsync -a --exclude .git --exclude work --exclude replays /verif/ "$V"/
mkdir -p "$V/work"
for m in "$V"/harness*/go.mod; do sed -i "s#=> /repo#=> $R#g" "$m"; done
( cd "$V" && VERIF_REPO="$R" timeout 1800 ./check "$prop" "$tier" > "$V/work/out.txt" 2>&1; echo "exit=$?" >> "$V/work/out.txt" )
grep -E "^VIOLATION|^KNOWN|exit=|theorems" "$V/work/out.txt"
for f in $(grep -oE "replay=[^ ]+" "$V/work/out.txt" | cut -d= -f2); do echo "--- $f"; head -c 1500 "$f"; echo; done
git -C /repo worktree remove --force "$R"
rm -rf "$V"
