#!/bin/bash
# regenerate coq/_CoqProject from the .v files present (coqdep orders them)
cd "$(dirname "$0")/../coq"
{ echo "-Q . AF"; ls Lib/*.v Gen/*.v Model/*.v Proofs/*.v Props/*.v 2>/dev/null | sort; } > _CoqProject.new
if ! cmp -s _CoqProject.new _CoqProject; then mv _CoqProject.new _CoqProject; coq_makefile -f _CoqProject -o Makefile >/dev/null; else rm _CoqProject.new; fi
[ -f Makefile ] || coq_makefile -f _CoqProject -o Makefile >/dev/null
