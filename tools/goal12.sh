#!/bin/bash
# usage: goal12.sh File.v LINE [tail-lines] — run coqtop on the first LINE lines and show the goal
f=$1; n=$2
cd /tmp/wt-c12/coq
( head -n "$n" "$f"; echo; echo "Show." ) | timeout 300 coqtop -Q . AF 2>&1 | tail -n ${3:-40}
