(* drv_c13.ml — C13: the three patterns of the harness as re-implemented in Stack.v (re_match),
   compared with regexp.MatchString on every name the harness uses.
     rematch <id> <pattern number> <name hex>  ->  M <id> true|false *)
open Model
open Driver_common

let () =
  Registry.register_line "rematch" (fun toks -> match toks with
    | [id; pat; name] ->
      Printf.printf "M %s %s\n" id (bool_s (re_match (nat_of_int (int_of_string pat)) (bytes_of_hex name)))
    | _ -> failwith "bad rematch line")
