(* drv_c01.ml — C01: runs the POSIX specification (Model/Posix.v, extracted) next to the Go-level
   model of MemMapFs on an operation sequence.

   "pcase <id> mem [wf|any]" ... item lines as in a "case" block (". <slot|-> <op ...>"; snap/index
   items are skipped) ... "end".  The harness writes such a block after every "case" block (id "p" ^
   id of the case, op items only) together with the implementation's results projected to the
   outcome language of the specification (c01.go projPosix).  For step i prints
     W <id>#<i> wf=<bool> sim=<bool>    the C01 preconditions wf_op / wf_op_sim in the state reached
     M <id>#<i> <outcome>               the model's result projected to the outcome language (mproj)
     S <id>#<i> <outcome>               the specification's outcome — as long as every call so far
                                        satisfied wf_op_sim: that prefix is inside the hypothesis of
                                        C01_simulation, which says M = S there; ./check compares both
                                        with the implementation (M: correspondence, S: property oracle)
   and, when the header says "wf" (the generator claims that the whole case is a portable program),
     M <id>#class wf | outside@<i>      whether wf_seq_sim holds for the whole case (i = first call outside)
   so that a generator whose well-formed stream leaves the proved class is reported.
   H-ops name SLOT numbers; a slot is bound to the handle returned by the op that carried it. *)
open Model
open Driver_common

let cls = function CNotExist -> "NotExist" | CExist -> "Exist" | CClosed -> "Closed" | CNotDir -> "NotDir" | COther -> "Other"

let canon_pout (p : pout) : string =
  match p with
  | PNoSlot -> "noslot"
  | PSucc -> "ok"
  | PFail c -> "fail:" ^ cls c
  | PHandle _ -> "handle"
  | PStat (d, sz) -> Printf.sprintf "stat:%s|%s" (if d then "d" else "f")
                       (match sz with None -> "-" | Some n -> string_of_int (int_of_nat n))
  | PData (b, eof) -> Printf.sprintf "bytes:%s:%s" (hex_of_bytes b) (if eof then "eof" else "-")
  | PNum n -> "num:" ^ string_of_int (int_of_nat n)
  (* a page of names as a sorted list, as the harness canonicalises every listing (canon.go namesS / fisS;
     that a page is ascending is C01_listing_is_children's subject) *)
  | PNames (l, eof) -> Printf.sprintf "names:%s:%s" (String.concat "," (List.sort compare (List.map hex_of_bytes l))) (if eof then "eof" else "-")

let run_pcase id claim (lines : string list) =
  let items = List.map (fun l -> Fsdriver.parse_item (tokens l)) lines in
  let slots : (int, nat) Hashtbl.t = Hashtbl.create 8 in
  let s = ref m_init and t = ref p_init in
  let inside = ref true and first_out = ref (-1) in
  List.iteri (fun i it ->
      match it with
      | IOp (_, slot, o) ->
        let o' = match Model.op_handle o with
          | Some sn -> (match Hashtbl.find_opt slots (int_of_nat sn) with
              | Some h -> Some (Model.op_with_handle o h)
              | None -> None)
          | None -> Some o in
        (match o' with
         | None ->
           Printf.printf "M %s#%d noslot\n" id i;
           if !inside then Printf.printf "S %s#%d noslot\n" id i
         | Some o ->
           let sim = wf_op_sim !s o in
           Printf.printf "W %s#%d wf=%s sim=%s\n" id i (bool_s (wf_op !s o)) (bool_s sim);
           if not sim && !inside then (inside := false; first_out := i);
           let (s1, r) = m_step !s o in
           let (t1, p) = p_step !t o in
           Printf.printf "M %s#%d %s\n" id i (canon_pout (mproj o r));
           if !inside then Printf.printf "S %s#%d %s\n" id i (canon_pout p);
           (match r, slot with
            | RHandle h, Some sn -> Hashtbl.replace slots (int_of_nat sn) h
            | _, _ -> ());
           s := s1; t := t1)
      | _ -> ()) items;
  if claim then
    Printf.printf "M %s#class %s\n" id (if !inside then "wf" else Printf.sprintf "outside@%d" !first_out)

let () =
  Registry.register_block "pcase" (fun hd body -> match hd with
      | [id; "mem"] | [id; "mem"; "any"] -> run_pcase id false body
      | [id; "mem"; "wf"] -> run_pcase id true body
      | _ -> failwith "bad pcase header (only the plain mem stack has a POSIX specification)")
