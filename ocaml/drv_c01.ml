(* drv_c01.ml — C01: runs the POSIX specification (Model/Posix.v, extracted) next to the Go-level
   model of MemMapFs on an operation sequence.

   "pcase <id> mem" ... item lines as in a "case" block (". <slot|-> <op ...>"; snap/index items are
   skipped) ... "end".  For step i prints
     W  <id>#<i> wf=<bool> sim=<bool>    the C01 preconditions wf_op / wf_op_sim in the state reached
     MP <id>#<i> <outcome>               the model's result projected to the outcome language (mproj)
     S  <id>#<i> <outcome>               the specification's outcome
   C01_simulation says MP = S for every step as long as all "sim" flags so far are true.
   H-ops name SLOT numbers; a slot is bound to the handle returned by the op that carried it. *)
open Model
open Driver_common

let cls = function CNotExist -> "NotExist" | CExist -> "Exist" | CClosed -> "Closed" | COther -> "Other"

let canon_pout (p : pout) : string =
  match p with
  | PNoSlot -> "noslot"
  | PSucc -> "ok"
  | PFail c -> "fail:" ^ cls c
  | PHandle _ -> "handle"
  | PStat (d, sz) -> Printf.sprintf "stat:%s|%s" (if d then "d" else "f")
                       (match sz with None -> "-" | Some n -> string_of_int (int_of_nat n))
  | PData (b, eof) -> Printf.sprintf "bytes:%s:%s" (hex_of_bytes b) (if eof then "eof" else "-")
  | PNum n -> "num:" ^ string_of_int (int_of_nat n)
  | PNames (l, eof) -> Printf.sprintf "names:%s:%s" (String.concat "," (List.map hex_of_bytes l)) (if eof then "eof" else "-")

let run_pcase id (lines : string list) =
  let items = List.map (fun l -> Fsdriver.parse_item (tokens l)) lines in
  let slots : (int, nat) Hashtbl.t = Hashtbl.create 8 in
  let s = ref m_init and t = ref p_init in
  List.iteri (fun i it ->
      match it with
      | IOp (_, slot, o) ->
        let o' = match Model.op_handle o with
          | Some sn -> (match Hashtbl.find_opt slots (int_of_nat sn) with
              | Some h -> Some (Model.op_with_handle o h)
              | None -> None)
          | None -> Some o in
        (match o' with
         | None -> Printf.printf "MP %s#%d noslot\nS %s#%d noslot\n" id i id i
         | Some o ->
           Printf.printf "W %s#%d wf=%s sim=%s\n" id i (bool_s (wf_op !s o)) (bool_s (wf_op_sim !s o));
           let (s1, r) = m_step !s o in
           let (t1, p) = p_step !t o in
           Printf.printf "MP %s#%d %s\n" id i (canon_pout (mproj o r));
           Printf.printf "S %s#%d %s\n" id i (canon_pout p);
           (match r, slot with
            | RHandle h, Some sn -> Hashtbl.replace slots (int_of_nat sn) h
            | _, _ -> ());
           s := s1; t := t1)
      | _ -> ()) items

let () =
  Registry.register_block "pcase" (fun hd body -> match hd with
      | [id; "mem"] -> run_pcase id body
      | _ -> failwith "bad pcase header (only the plain mem stack has a POSIX specification)")
