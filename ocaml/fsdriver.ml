(* fsdriver.ml — parsing of FS-sequence cases and canonical printing of results *)
open Model
open Driver_common

let big = 1_000_000_000_000_000

let errclass (e : err) : string =
  match e.ek with
  | KNotExist | KENOENT -> "NotExist"
  | KExist -> "Exist"
  | KClosed -> "Closed"
  | KOutOfRange -> "OutOfRange"
  | KReadOnlyHandle -> "ReadOnlyHandle"
  | KNotADir | KENOTDIR -> "NotDir"
  | KNegative | KEINVAL | KInvalid -> "Invalid"
  | KEOF -> "EOF"
  | KUnexpectedEOF -> "UnexpectedEOF"
  | KShortWrite -> "ShortWrite"
  | KEPERM | KPermission -> "Perm"
  | KEIO -> "IO"
  | KEBADF -> "BadFd"
  | KEROFS -> "ROFS"
  | KENOTEMPTY -> "NotEmpty"
  | KEISDIR -> "IsDir"
  | KCombined -> "Combined"
  | KOther -> "Other"

let eopt = function None -> "-" | Some e -> errclass e

let mtime_s (t : z) : string =
  let v = int_of_z t in if v >= big then "now" else string_of_int v

let fi_s (fi : finfo) : string =
  Printf.sprintf "%s|%s|%s|%d|%s" (hex_of_bytes fi.fi_name) (if fi.fi_dir then "d" else "f")
    (if fi.fi_dir then "-" else string_of_int (int_of_z fi.fi_size)) (int_of_z fi.fi_mode) (mtime_s fi.fi_mtime)

let canon_res (r : res) : string =
  match r with
  | RPanic -> "panic"
  | RNoSlot -> "noslot"
  | ROk -> "ok"
  | RErr e -> "err:" ^ errclass e
  | RHandle _ -> "handle"
  | RInfo fi -> "info:" ^ fi_s fi
  | RData (b, e) -> Printf.sprintf "data:%s:%s" (hex_of_bytes b) (eopt e)
  | RCount (n, e) -> Printf.sprintf "count:%d:%s" (int_of_z n) (eopt e)
  | RPos (n, e) -> Printf.sprintf "pos:%d:%s" (int_of_z n) (eopt e)
  | RInfos (l, e) -> Printf.sprintf "infos:%s:%s" (String.concat "," (List.sort compare (List.map (fun fi -> hex_of_bytes fi.fi_name ^ "|" ^ (if fi.fi_dir then "d" else "f")) l))) (eopt e)
  | RNames (l, e) -> Printf.sprintf "names:%s:%s" (String.concat "," (List.sort compare (List.map hex_of_bytes l))) (eopt e)
  | RName s -> "name:" ^ hex_of_bytes s

let entry_s (e : entry) : string =
  Printf.sprintf "%s|%s|%s|%d|%s" (hex_of_bytes e.e_path) (if e.e_dir then "d" else "f")
    (hex_of_bytes e.e_data) (int_of_z e.e_mode) (mtime_s e.e_mtime)

let canon_tres (t : tres) : string =
  match t with
  | TRes r -> canon_res r
  | TSnap l -> "snap:" ^ String.concat ";" (List.map entry_s l)
  | TIndex l ->
    "index:" ^ String.concat ";" (List.map (fun ((p, nm), kids) ->
      Printf.sprintf "%s|%s|%s" (hex_of_bytes p) (hex_of_bytes nm)
        (String.concat "," (List.map (fun (k, cn) -> hex_of_bytes k ^ "=" ^ hex_of_bytes cn) kids))) l)

let canon_pres (p : pres) : string =
  match p with
  | PNone -> "noslot"
  | POk -> "ok"
  | PErr c -> "err:" ^ string_of_int (int_of_nat c)
  | PBytes (b, eof) -> Printf.sprintf "bytes:%s:%s" (hex_of_bytes b) (if eof then "eof" else "-")
  | PCount n -> "count:" ^ string_of_int (int_of_nat n)
  | PPos n -> "pos:" ^ string_of_int (int_of_nat n)
  | PSize n -> "size:" ^ string_of_int (int_of_nat n)

(* digests are < 2^61 and fit OCaml's 63-bit int *)
let n_to_string (x : n) : string = string_of_int (int_of_n x)

let b = bytes_of_hex
let zi s = z_of_dec s
let ni s = nat_of_int (int_of_string s)

let parse_op (toks : string list) : op =
  match toks with
  | ["Create"; p] -> Create (b p)
  | ["Mkdir"; p; perm] -> Mkdir (b p, zi perm)
  | ["MkdirAll"; p; perm] -> MkdirAll (b p, zi perm)
  | ["Open"; p] -> Open (b p)
  | ["OpenFile"; p; fl; perm] -> OpenFile (b p, zi fl, zi perm)
  | ["Remove"; p] -> Remove (b p)
  | ["RemoveAll"; p] -> RemoveAll (b p)
  | ["Rename"; p; q] -> Rename (b p, b q)
  | ["Stat"; p] -> Stat (b p)
  | ["Chmod"; p; m] -> Chmod (b p, zi m)
  | ["Chown"; p; u; g] -> Chown (b p, zi u, zi g)
  | ["Chtimes"; p; t] -> Chtimes (b p, zi t)
  | ["HRead"; h; n] -> HRead (ni h, zi n)
  | ["HReadAt"; h; n; off] -> HReadAt (ni h, zi n, zi off)
  | ["HWrite"; h; d] -> HWrite (ni h, b d)
  | ["HWriteAt"; h; d; off] -> HWriteAt (ni h, b d, zi off)
  | ["HWriteString"; h; d] -> HWriteString (ni h, b d)
  | ["HSeek"; h; off; w] -> HSeek (ni h, zi off, zi w)
  | ["HTruncate"; h; n] -> HTruncate (ni h, zi n)
  | ["HClose"; h] -> HClose (ni h)
  | ["HReaddir"; h; n] -> HReaddir (ni h, zi n)
  | ["HReadDir"; h; n] -> HReaddir (ni h, zi n)   (* the io/fs spelling ReadDir of the same listing *)
  | ["HReaddirnames"; h; n] -> HReaddirnames (ni h, zi n)
  | ["HStat"; h] -> HStat (ni h)
  | ["HName"; h] -> HName (ni h)
  | ["HSync"; h] -> HSync (ni h)
  | _ -> failwith ("bad op: " ^ String.concat " " toks)

let parse_tgt (s : string) : nat list =
  if s = "." then [] else
    List.init (String.length s) (fun i -> nat_of_int (Char.code s.[i] - Char.code '0'))

let parse_item (toks : string list) : item =
  match toks with
  | ["snap"; t] -> ISnap (parse_tgt t)
  | ["index"; t] -> IIndex (parse_tgt t)
  | t :: slot :: rest ->
    IOp (parse_tgt t, (if slot = "-" then None else Some (ni slot)), parse_op rest)
  | _ -> failwith "bad item"

(* stack descriptors:  mem | ro(S) | bp:<hex>(S) | re:<n>(S) | cow(S,S) | cache:<dur>(S,S) *)
let parse_stack (s : string) : stack =
  let pos = ref 0 in
  let len = String.length s in
  let rec ident () =
    let st = !pos in
    while !pos < len && (match s.[!pos] with '(' | ')' | ',' -> false | _ -> true) do incr pos done;
    String.sub s st (!pos - st)
  and expect c = if !pos < len && s.[!pos] = c then incr pos else failwith ("stack syntax: " ^ s)
  and go () : stack =
    let id = ident () in
    match id with
    | "mem" -> SMem
    | _ -> Stackext.parse_ext id (fun () -> expect '('; let a = go () in a) (fun () -> expect ','; go ()) (fun () -> expect ')')
  in
  go ()
