(* drv_c14.ml — C14: "arc <id> <zip|tar> <entries> <program>" (format: harness/cmd/afcheck/c14.go).
   Prints per step  M <id>#<k> <result>            the Go-level model, patched variant (legacy = false)
                    M <id>#<k>/p <projection>      Archive.proj14 of it (read ops on file handles)
                    M <id>#<k>/s, /l               size+kind of a Stat, kinds+sizes of a full Readdir
                    S <id>#<k>/p /s /l             the specification (Archive.aspec_step on a one-handle
                                                   byte array per handle, spec_stat, spec_children)
                    L <id>#<k> <result>            the model of today's code (legacy = true); only when
                                                   C14_LEGACY is set (tools/c14_legacy.sh); not read by ./check
                    V <id> <adigest>                Archive.adigest of the M results (vm_compute cross-check) *)
open Model
open Driver_common

let fnv64 (b : n list) : string =
  let h = ref 0xcbf29ce484222325L in
  List.iter (fun x -> h := Int64.mul (Int64.logxor !h (Int64.of_int (int_of_n x))) 0x100000001b3L) b;
  Printf.sprintf "%016Lx" !h

let dhx (b : n list) : string =
  let len = List.length b in
  if len <= 48 then hex_of_bytes b else Printf.sprintf "#%d.%s" len (fnv64 b)

let content_of (spec : string) : n list =
  if spec = "-" || spec = "" then []
  else match String.split_on_char '~' spec with
    | ["rep"; b; n] -> let x = List.hd (bytes_of_hex b) in List.init (int_of_string n) (fun _ -> x)
    | ["seq"; seed; n] ->
      let s = int_of_string seed in
      List.init (int_of_string n) (fun i -> n_of_int ((s + i * 7 + i / 256) mod 256))
    | _ -> bytes_of_hex spec

let parse_entries (s : string) : aentry list =
  if s = "-" then [] else
    List.map (fun p -> match String.split_on_char ':' p with
        | [name; kind; content] ->
          { ename = bytes_of_hex name; eisdir = (kind = "d"); econtent = content_of content }
        | _ -> failwith "bad entry") (String.split_on_char ';' s)

(* op, expectation annotation of Open/Stat *)
let parse_aop (s : string) : op * string =
  match String.split_on_char ',' s with
  | ["Open"; p; exp] -> (Open (bytes_of_hex p), exp)
  | ["Stat"; p; exp] -> (Stat (bytes_of_hex p), exp)
  | toks -> (Fsdriver.parse_op toks, "")

let fi14 (fi : finfo) : string =
  if fi.fi_dir then hex_of_bytes fi.fi_name ^ "|d|-"
  else Printf.sprintf "%s|f|%d" (hex_of_bytes fi.fi_name) (int_of_z fi.fi_size)

let count_of (o : op) : int = match o with HReaddir (_, n) | HReaddirnames (_, n) -> int_of_z n | _ -> 0

let canon14 (kind : string) (o : op) (r : res) : string =
  let sub = kind = "zip" && count_of o > 0 in
  let srt l = if kind = "zip" then List.sort compare l else l in
  match r with
  | RHandle h -> Printf.sprintf "handle:%d" (int_of_nat h)
  | RInfo fi -> "info:" ^ fi14 fi
  | RData (b, e) -> Printf.sprintf "data:%s:%s" (dhx b) (Fsdriver.eopt e)
  | RInfos (l, e) ->
    if sub then Printf.sprintf "infos-sub:%d:%s" (List.length l) (Fsdriver.eopt e)
    else Printf.sprintf "infos:%s:%s" (String.concat "," (srt (List.map fi14 l))) (Fsdriver.eopt e)
  | RNames (l, e) ->
    if sub then Printf.sprintf "names-sub:%d:%s" (List.length l) (Fsdriver.eopt e)
    else Printf.sprintf "names:%s:%s" (String.concat "," (srt (List.map hex_of_bytes l))) (Fsdriver.eopt e)
  | _ -> Fsdriver.canon_res r

let canon_pres14 (p : pres) : string =
  match p with
  | PBytes (b, eof) -> Printf.sprintf "bytes:%s:%s" (dhx b) (if eof then "eof" else "-")
  | _ -> Fsdriver.canon_pres p

let kind_size (dir : bool) (size : z) : string = if dir then "d" else Printf.sprintf "f:%d" (int_of_z size)
let kind_size_l (dir : bool) (size : z) : string = if dir then "d|-" else Printf.sprintf "f|%d" (int_of_z size)

let is_read_op (o : op) = match o with HRead _ | HReadAt _ | HSeek _ | HClose _ -> true | _ -> false
let handle_of (o : op) : int = match o with
  | HRead (h, _) | HReadAt (h, _, _) | HSeek (h, _, _) | HClose h | HReaddir (h, _) | HReaddirnames (h, _) -> int_of_nat h
  | _ -> -1

let run_arc toks =
  match toks with
  | [id; kind; entries; prog] ->
    let a = parse_entries entries in
    let arr = Array.of_list a in
    let aops = List.map parse_aop (String.split_on_char ';' prog) in
    let ops = List.map fst aops in
    let run legacy =
      if kind = "zip" then snd (arun (zip_step legacy) (zip_init legacy a) ops)
      else snd (arun (tar_step legacy) (tar_init legacy a) ops) in
    let outs = run false in
    let legacy_too = Sys.getenv_opt "C14_LEGACY" <> None in
    let strict = kind = "zip" in
    (* handle table of the SPEC side: for each successful Open (as the model numbers them) which
       entry the generator said it is, and a one-handle byte array for files *)
    let handles : (int * bstate option ref) list ref = ref [] in
    let nh = ref 0 in
    List.iteri (fun i ((o, exp), r) ->
        Printf.printf "M %s#%d %s\n" id i (canon14 kind o r);
        let expi = match exp with "" | "?" | "x" -> -2 | "r" -> -1 | s -> int_of_string s in
        let file_entry = expi >= 0 && not arr.(expi).eisdir in
        (match o, r with
         | (Open _ | OpenFile _), RHandle _ ->
           let st = if file_entry
             then Some (fst (aspec_step strict { bdata = arr.(expi).econtent; bhs = [] } (Open [])))
             else None in
           handles := !handles @ [(expi, ref st)]; incr nh
         | _ -> ());
        (match o with
         | Open _ when file_entry ->
           Printf.printf "M %s#%d/p %s\n" id i (canon_pres14 (proj14 o r));
           Printf.printf "S %s#%d/p ok\n" id i
         | Stat _ when expi >= 0 ->
           (match r with
            | RInfo fi -> Printf.printf "M %s#%d/s %s\n" id i (kind_size fi.fi_dir fi.fi_size)
            | _ -> ());
           let (d, sz) = spec_stat arr.(expi) in
           Printf.printf "S %s#%d/s %s\n" id i (kind_size d sz)
         | _ -> ());
        let h = handle_of o in
        if h >= 0 && h < !nh then begin
          let (expi, st) = List.nth !handles h in
          (match !st with
           | Some s when is_read_op o ->
             Printf.printf "M %s#%d/p %s\n" id i (canon_pres14 (proj14 o r));
             let o0 = (match o with
                 | HRead (_, n) -> HRead (O, n) | HReadAt (_, n, off) -> HReadAt (O, n, off)
                 | HSeek (_, off, wh) -> HSeek (O, off, wh) | HClose _ -> HClose O | x -> x) in
             let (s', p) = aspec_step strict s o0 in
             st := Some s';
             Printf.printf "S %s#%d/p %s\n" id i (canon_pres14 p)
           | _ -> ());
          (match o with
           | HReaddir (_, cnt) when int_of_z cnt <= 0 && (expi = -1 || (expi >= 0 && arr.(expi).eisdir)) ->
             (match r with
              | RInfos (l, None) ->
                Printf.printf "M %s#%d/l %s\n" id i
                  (String.concat "," (List.sort compare (List.map (fun fi -> kind_size_l fi.fi_dir fi.fi_size) l)));
                let dir = if expi = -1 then bytes_of_hex "2f" else joined arr.(expi).ename in
                Printf.printf "S %s#%d/l %s\n" id i
                  (String.concat "," (List.sort compare
                     (List.map (fun e -> let (d, sz) = spec_stat e in kind_size_l d sz) (spec_children a dir))))
              | _ -> ())
           | _ -> ())
        end)
      (List.combine aops outs);
    if legacy_too then
      List.iteri (fun i (o, r) -> Printf.printf "L %s#%d %s\n" id i (canon14 kind o r)) (List.combine ops (run true));
    if List.for_all (fun e -> List.length e.econtent <= 200) a then
      Printf.printf "V %s %d\n" id (int_of_z (adigest outs))
  | _ -> failwith "bad arc line"

let () = Registry.register_line "arc" run_arc
