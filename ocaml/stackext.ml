(* stackext.ml — wrappers in stack descriptors; extended as wrapper models are added *)
open Model
open Driver_common

let starts_with p s = String.length s >= String.length p && String.sub s 0 (String.length p) = p
let after p s = String.sub s (String.length p) (String.length s - String.length p)

(* faulty:<plan>   plan = "-" | <i>:err:<IO|NOENT|PNOTEXIST|PNOENT|NOTEXIST> | <i>:short:<k>, joined by '+' *)
let parse_fault_plan (arg : string) : (nat * fault) list =
  if arg = "" || arg = "-" then [] else
    List.map (fun part ->
        match String.split_on_char ':' part with
        | [i; "err"; e] ->
          let er = (match e with
              | "IO" -> { ek = KEIO; ewrapped = false }
              | "NOENT" -> { ek = KENOENT; ewrapped = false }
              | "PNOTEXIST" -> { ek = KNotExist; ewrapped = true }
              | "PNOENT" -> { ek = KENOENT; ewrapped = true }
              | "NOTEXIST" -> { ek = KNotExist; ewrapped = false }
              | _ -> failwith ("fault error " ^ e)) in
          (nat_of_int (int_of_string i), FltFail er)
        | [i; "short"; k] -> (nat_of_int (int_of_string i), FltShort (nat_of_int (int_of_string k)))
        | _ -> failwith ("fault plan syntax: " ^ arg))
      (String.split_on_char '+' arg)

let parse_ext (id : string) (first : unit -> stack) (next : unit -> stack) (close : unit -> unit) : stack =
  if id = "ro" then (let a = first () in close (); SReadOnly a)
  else if starts_with "bp:" id then (let a = first () in close (); SBasePath (bytes_of_hex (after "bp:" id), a))
  else if starts_with "re:" id then (let a = first () in close (); SRegexp (nat_of_int (int_of_string (after "re:" id)), a))
  else if id = "cow" then (let a = first () in let b = next () in close (); SCow (a, b))
  else if starts_with "cache:" id then
    (let a = first () in let b = next () in close (); SCache (z_of_int (int_of_string (after "cache:" id)), a, b))
  else if starts_with "faulty:" id then (let a = first () in close (); SFaulty (parse_fault_plan (after "faulty:" id), a))
  else failwith ("unknown stack element " ^ id)
