(* stackext.ml — wrappers in stack descriptors; extended as wrapper models are added *)
open Model
open Driver_common

let starts_with p s = String.length s >= String.length p && String.sub s 0 (String.length p) = p
let after p s = String.sub s (String.length p) (String.length s - String.length p)

let parse_ext (id : string) (first : unit -> stack) (next : unit -> stack) (close : unit -> unit) : stack =
  if id = "ro" then (let a = first () in close (); SReadOnly a)
  else if starts_with "bp:" id then (let a = first () in close (); SBasePath (bytes_of_hex (after "bp:" id), a))
  else if starts_with "re:" id then (let a = first () in close (); SRegexp (nat_of_int (int_of_string (after "re:" id)), a))
  else if id = "cow" then (let a = first () in let b = next () in close (); SCow (a, b))
  else if starts_with "cache:" id then
    (let a = first () in let b = next () in close (); SCache (z_of_int (int_of_string (after "cache:" id)), a, b))
  else failwith ("unknown stack element " ^ id)
