(* drv_c17b.ml — C17 second part: WriteFile / WriteReader / SafeWriteReader + ReadFile on a stack.
   Case lines (see harness/cmd/afcheck/c17b.go):
     wfile    <id> <stack> <setup> <path hex> <payload> <perm>
     wreader  <id> <stack> <setup> <path hex> <payload> <chunking>
     swreader <id> <stack> <setup> <path hex> <payload> <chunking>
   The case itself is the Gallina function io_case (Model/Cases1718.v); this file parses and prints.
   Output: M <id>#w, M <id>#r, M <id>#s<layer>, D <id> <digest> *)
open Model
open Driver_common

let payload_of (spec : string) : int list =
  match String.split_on_char ':' spec with
  | ["hex"; h] -> List.map int_of_n (bytes_of_hex h)
  | ["rep"; b; n] -> List.init (int_of_string n) (fun _ -> int_of_string b)
  | ["seq"; sd; n] -> let seed = int_of_string sd in
    List.init (int_of_string n) (fun i -> (seed + 31 * i + i / 256) mod 256)
  | _ -> failwith ("bad payload spec " ^ spec)

(* byte values -> N, sharing the 256 constructors' trees *)
let n_table = Array.init 256 n_of_int
let to_bytes (l : int list) : n list = List.map (fun b -> n_table.(b)) l

let digest (b : n list) : string =
  let len = List.length b in
  if len <= 32 then hex_of_bytes b
  else begin
    let h = ref 2166136261 in
    List.iter (fun x -> h := ((!h lxor (int_of_n x)) * 16777619) land 0xFFFFFFFF) b;
    Printf.sprintf "n%d:%08x" len !h
  end

(* chunk lengths; the Gallina io_cut does the cutting (a length beyond the end yields what is left) *)
let lens_of (len : int) (spec : string) : int list =
  let arg = String.sub spec 2 (String.length spec - 2) in
  if String.sub spec 0 2 = "c:" then begin
    let k = int_of_string arg in
    if k <= 0 || len = 0 then [] else List.init ((len - 1) / k) (fun _ -> k)
  end else if String.sub spec 0 2 = "l:" then List.map int_of_string (String.split_on_char '.' arg)
  else failwith ("bad chunking " ^ spec)

let tgt_s (t : nat list) : string =
  match t with [] -> "." | _ -> String.concat "" (List.map (fun c -> string_of_int (int_of_nat c)) t)

let snap_digest (l : entry list) : string =
  "snap:" ^ String.concat ";" (List.map (fun e ->
      Printf.sprintf "%s|%s|%s|%d" (hex_of_bytes e.e_path) (if e.e_dir then "d" else "f")
        (digest e.e_data) (int_of_z e.e_mode)) l)

let res_s (r : res) : string =
  match r with
  | ROk -> "ok"
  | RErr e -> "err:" ^ Fsdriver.errclass e
  | RPanic -> "panic"
  | RData (b, e) -> Printf.sprintf "data:%s:%s" (digest b) (Fsdriver.eopt e)
  | _ -> "unexpected:" ^ Fsdriver.canon_res r

let parse_setup (setup : string) : io_setup list =
  if setup = "-" then [] else
    List.map (fun it -> match String.split_on_char '=' it with
        | ["d"; p] -> IoMkdir (bytes_of_hex p)
        | ["f"; p; pl] -> IoFile (bytes_of_hex p, to_bytes (payload_of pl))
        | _ -> failwith ("bad setup item " ^ it)) (String.split_on_char ',' setup)

let run_io kind toks =
  match toks with
  | [id; stackdesc; setup; path; payload; last] ->
    let k = Fsdriver.parse_stack stackdesc in
    let data = payload_of payload in
    let kd = match kind with "wfile" -> 0 | "wreader" -> 1 | _ -> 2 in
    let lens = if kd = 0 then [] else List.map nat_of_int (lens_of (List.length data) last) in
    let perm = if kd = 0 then z_of_int (int_of_string last) else z_of_int 0 in
    let args f = f (nat_of_int kd) k (parse_setup setup) (bytes_of_hex path) (to_bytes data) lens perm in
    let ((w, r), snaps) = args io_case in
    Printf.printf "M %s#w %s\n" id (res_s w);
    Printf.printf "M %s#r %s\n" id (res_s r);
    List.iter2 (fun t sn -> Printf.printf "M %s#s%s %s\n" id (tgt_s t) (snap_digest sn)) (stack_mem_targets k []) snaps;
    (* the in-Coq re-evaluation is for small cases: the same Gallina function, fewer bytes *)
    let small_setup = List.for_all (function IoFile (_, d) -> List.length d <= 2000 | IoMkdir _ -> true) (parse_setup setup) in
    if Sys.getenv_opt "VERIF_DIGEST" <> None && List.length data <= 2000 && List.length lens <= 64 && small_setup then
      Printf.printf "D %s %s\n" id (Fsdriver.n_to_string (args io_case_digest))
  | _ -> failwith ("bad " ^ kind ^ " line")

let () =
  List.iter (fun k -> Registry.register_line k (run_io k)) ["wfile"; "wreader"; "swreader"]
