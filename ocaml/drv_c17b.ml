(* drv_c17b.ml — C17 second part: WriteFile / WriteReader / SafeWriteReader + ReadFile on a stack.
   Case lines (see harness/cmd/afcheck/c17b.go):
     wfile    <id> <stack> <setup> <path hex> <payload> <perm>
     wreader  <id> <stack> <setup> <path hex> <payload> <chunking>
     swreader <id> <stack> <setup> <path hex> <payload> <chunking>
   Output: M <id>#w, M <id>#r, M <id>#s<layer> *)
open Model
open Driver_common

let payload_of (spec : string) : int list =
  match String.split_on_char ':' spec with
  | ["hex"; h] -> List.map int_of_n (bytes_of_hex h)
  | ["rep"; b; n] -> List.init (int_of_string n) (fun _ -> int_of_string b)
  | ["seq"; sd; n] -> let seed = int_of_string sd in
    List.init (int_of_string n) (fun i -> (seed + 31 * i + i / 256) mod 256)
  | _ -> failwith ("bad payload spec " ^ spec)

(* byte values -> N, sharing the 256 constructors' trees *)
let n_table = Array.init 256 n_of_int
let to_bytes (l : int list) : n list = List.map (fun b -> n_table.(b)) l

let digest (b : n list) : string =
  let len = List.length b in
  if len <= 32 then hex_of_bytes b
  else begin
    let h = ref 2166136261 in
    List.iter (fun x -> h := ((!h lxor (int_of_n x)) * 16777619) land 0xFFFFFFFF) b;
    Printf.sprintf "n%d:%08x" len !h
  end

let rec take n l = if n <= 0 then [] else match l with [] -> [] | x :: r -> x :: take (n - 1) r
let rec drop n l = if n <= 0 then l else match l with [] -> [] | _ :: r -> drop (n - 1) r

let chunks_of (data : int list) (spec : string) : int list list =
  let len = List.length data in
  if String.length spec >= 2 && String.sub spec 0 2 = "c:" then begin
    let k = int_of_string (String.sub spec 2 (String.length spec - 2)) in
    if k <= 0 then [data] else begin
      let rec go d n acc = if n > k then go (drop k d) (n - k) (take k d :: acc) else List.rev (d :: acc) in
      go data len []
    end
  end else if String.length spec >= 2 && String.sub spec 0 2 = "l:" then begin
    let ks = List.map int_of_string (String.split_on_char '.' (String.sub spec 2 (String.length spec - 2))) in
    let rec go d n ks acc = match ks with
      | [] -> List.rev (d :: acc)
      | k :: r -> let k = min k n in go (drop k d) (n - k) r (take k d :: acc) in
    go data len ks []
  end else failwith ("bad chunking " ^ spec)

let big_z = z_of_int Fsdriver.big

(* targets of the MemMapFs layers of a stack, in the harness's order *)
let rec mem_layers (k : stack) (tgt : string) : string list =
  match k with
  | SMem -> [if tgt = "" then "." else tgt]
  | SReadOnly a | SBasePath (_, a) | SRegexp (_, a) -> mem_layers a (tgt ^ "0")
  | SCow (a, b) | SCache (_, a, b) -> mem_layers a (tgt ^ "0") @ mem_layers b (tgt ^ "1")

let snap_digest (l : entry list) : string =
  "snap:" ^ String.concat ";" (List.map (fun e ->
      Printf.sprintf "%s|%s|%s|%d" (hex_of_bytes e.e_path) (if e.e_dir then "d" else "f")
        (digest e.e_data) (int_of_z e.e_mode)) l)

let res_s (r : res) : string =
  match r with
  | ROk -> "ok"
  | RErr e -> "err:" ^ Fsdriver.errclass e
  | RPanic -> "panic"
  | RData (b, e) -> Printf.sprintf "data:%s:%s" (digest b) (Fsdriver.eopt e)
  | _ -> "unexpected:" ^ Fsdriver.canon_res r

let run_setup (k : stack) (u : ust) (setup : string) : ust =
  if setup = "-" then u else
    List.fold_left (fun u it ->
        match String.split_on_char '=' it with
        | ["d"; p] -> fst (ustep k u (MkdirAll (bytes_of_hex p, z_of_int 0o755)))
        | ["f"; p; pl] -> fst (write_file (ustep k) u (bytes_of_hex p) (to_bytes (payload_of pl)) (z_of_int 0o644))
        | _ -> failwith ("bad setup item " ^ it)) u (String.split_on_char ',' setup)

let run_io kind toks =
  match toks with
  | [id; stackdesc; setup; path; payload; last] ->
    let k = Fsdriver.parse_stack stackdesc in
    let u0 = run_setup k (uset_clock k (uinit k) big_z) setup in
    let p = bytes_of_hex path in
    let data = payload_of payload in
    let (u1, w) = match kind with
      | "wfile" -> write_file (ustep k) u0 p (to_bytes data) (z_of_int (int_of_string last))
      | "wreader" -> write_reader (ustep k) u0 p (List.map to_bytes (chunks_of data last))
      | _ -> safe_write_reader (ustep k) u0 p (List.map to_bytes (chunks_of data last)) in
    Printf.printf "M %s#w %s\n" id (res_s w);
    let (u2, r) = read_file (ustep k) u1 p in
    Printf.printf "M %s#r %s\n" id (res_s r);
    List.iter (fun t -> Printf.printf "M %s#s%s %s\n" id t (snap_digest (usnapshot k (Fsdriver.parse_tgt t) u2)))
      (mem_layers k "")
  | _ -> failwith ("bad " ^ kind ^ " line")

let () =
  List.iter (fun k -> Registry.register_line k (run_io k)) ["wfile"; "wreader"; "swreader"]
