(* drv_c04.ml — C04: linearizability search (Wing & Gong, memoised) of recorded concurrent
   histories against the EXTRACTED sequential specification [lin_step] (= m_step of
   Model/MemFs.v behind per-goroutine handle slots).

   hcase <id> <goroutines> <mode> ...
   s <result> <item>                      sequential setup prefix (item syntax of fsdriver.ml)
   c <g> <inv> <resp> <result> <item>     one concurrent call: goroutine, stamps, canonical result
   f <snap>                               canonical final state
   end

   prints  M <id>#s<i> <result>           the model's result of setup step i
           M <id> linearizable
        or M <id> NOT-linearizable prefix=<calls that could be linearized, in order>
                 stuck=<call>:<what the model answers there>,... core=<calls of a small
                 sub-history that is still not linearizable>   (calls are numbered from 0 in
                 the order of the c lines; "final" = every call placed, final state differs) *)
open Model
open Driver_common

type hcall = { idx : int; g : int; inv : int; resp : int; res : string; lop : nat option * op;
               show : res -> string }

(* A FileInfo of MemMapFs is a live view: ". <slot> Stat <p>" is the lookup (the model opens
   the node: same lookup, same error) and "FName/FSize/FMode/FMtime <slot>" read one field of
   the node's info at that instant (HStat of the model). *)
let field_show (f : string) (r : res) : string =
  match r with
  | RInfo fi ->
    (match f with
     | "FName" -> "fname:" ^ hex_of_bytes fi.fi_name
     | "FSize" -> "fsize:" ^ (if fi.fi_dir then "-" else string_of_int (int_of_z fi.fi_size))
     | "FMode" -> "fmode:" ^ string_of_int (int_of_z fi.fi_mode)
     | _ -> "fmtime:" ^ Fsdriver.mtime_s fi.fi_mtime)
  | _ -> Fsdriver.canon_res r

let parse_call (toks : string list) : (nat option * op) * (res -> string) =
  match toks with
  | _ :: slot :: "Stat" :: p :: [] when slot <> "-" ->
    ((Some (Fsdriver.ni slot), Open (bytes_of_hex p)), Fsdriver.canon_res)
  | _ :: _ :: (("FName" | "FSize" | "FMode" | "FMtime") as f) :: s :: [] ->
    ((None, HStat (Fsdriver.ni s)), field_show f)
  | _ ->
    (match Fsdriver.parse_item toks with
     | IOp (_, slot, o) -> ((slot, o), Fsdriver.canon_res)
     | _ -> failwith "hcase: op expected")
let parse_lop toks = fst (parse_call toks)

let snap_s (st : lstate) : string = Fsdriver.canon_tres (TSnap (lin_obs st))

(* all calls run at the same model instant, so equal states are structurally equal *)
let key (st : lstate) : string = Marshal.to_string st [Marshal.No_sharing]

(* [active] selects the calls of the (sub-)history; [final_ok] judges the final state *)
let search (st0 : lstate) (calls : hcall array) (active : bool array) (final_ok : lstate -> bool) =
  let n = Array.length calls in
  let full = ref 0 in
  Array.iteri (fun i a -> if a then full := !full lor (1 lsl i)) active;
  let full = !full in
  let seen : (int * string, unit) Hashtbl.t = Hashtbl.create 64 in
  let best_len = ref (-1) in
  let best_prefix = ref [] in
  let best_stuck = ref [] in
  let nodes = ref 0 in
  (* call i may come next: no call that is still to be placed returned before i was invoked *)
  let minimal mask i =
    let ok = ref true in
    for j = 0 to n - 1 do
      if j <> i && active.(j) && mask land (1 lsl j) = 0 && calls.(j).resp < calls.(i).inv then ok := false
    done;
    !ok in
  let rec go mask st prefix len =
    incr nodes;
    if mask = full then begin
      if final_ok st then true
      else begin
        if len > !best_len then (best_len := len; best_prefix := List.rev prefix; best_stuck := [("final", "differs")]);
        false
      end
    end else begin
      let k = (mask, key st) in
      if Hashtbl.mem seen k then false
      else begin
        Hashtbl.add seen k ();
        let stuck = ref [] in
        let found = ref false in
        let i = ref 0 in
        while not !found && !i < n do
          let c = calls.(!i) in
          if active.(!i) && mask land (1 lsl !i) = 0 && minimal mask !i then begin
            let (st', r) = lin_step st c.lop in
            let rs = c.show r in
            if rs = c.res then begin
              if go (mask lor (1 lsl !i)) st' (!i :: prefix) (len + 1) then found := true
            end else stuck := (string_of_int !i, rs) :: !stuck
          end;
          incr i
        done;
        if not !found && len > !best_len && !stuck <> [] then
          (best_len := len; best_prefix := List.rev prefix; best_stuck := List.rev !stuck);
        !found
      end
    end in
  let ok = go 0 st0 [] 0 in
  (ok, !best_prefix, !best_stuck, !nodes)

(* ---- explanation: a small core of the history that is still not linearizable ----
   Dropping calls that have no effect on the state (reads, calls that returned an error) or all
   the calls in a subtree no other remaining call touches cannot make a non-linearizable history
   linearizable... as far as the remaining calls can tell; the verdict is always taken on the
   FULL history, the core only names the calls involved. *)
let top_of (p : string) : string =
  (* p: hex of a path; first component of the cleaned path *)
  let b = hex_of_bytes (clean (bytes_of_hex p)) in
  let raw = if b = "-" then "" else b in
  let buf = Buffer.create 8 in
  let i = ref 0 in
  let started = ref false in
  let stop = ref false in
  while not !stop && !i + 1 < String.length raw do
    let c = String.sub raw !i 2 in
    if c = "2f" then (if !started then stop := true)
    else (started := true; Buffer.add_string buf c);
    i := !i + 2
  done;
  Buffer.contents buf

let item_paths (item : string list) : string list =
  match item with
  | _ :: _ :: "Rename" :: p :: q :: _ -> [p; q]
  | _ :: _ :: name :: p :: _ when String.length name > 0 && name.[0] <> 'H' && name.[0] <> 'F' -> [p]
  | _ -> []

let item_slot_bound (item : string list) : int option =
  match item with _ :: s :: _ when s <> "-" -> Some (int_of_string s) | _ -> None
let item_slot_used (item : string list) : int option =
  match item with
  | _ :: _ :: name :: h :: _ when String.length name > 0 && (name.[0] = 'H' || name.[0] = 'F') -> Some (int_of_string h)
  | _ -> None

(* reads, and mutators that failed the way they fail sequentially (an IMPOSSIBLE error, e.g. a
   Mkdir that says not-exist, is kept: such a call may well have had an effect) *)
let no_effect (item : string list) (res : string) : bool =
  match item with
  | _ :: _ :: ("Stat" | "HReadAt" | "HStat" | "HName" | "HSync" | "FName" | "FSize" | "FMode" | "FMtime") :: _ -> true
  | _ :: _ :: "Mkdir" :: _ -> res = "err:Exist"
  | _ :: _ :: ("Remove" | "Chmod" | "Chtimes" | "Chown" | "Open" | "Rename") :: _ -> res = "err:NotExist"
  | _ :: _ :: "OpenFile" :: _ :: flag :: _ ->
    let f = int_of_string flag in
    (res = "err:Exist" && f land 192 = 192) || (res = "err:NotExist" && f land 64 = 0)
  | _ -> res = "noslot"

let snap_filter (keep : string -> bool) (snap : string) : string =
  let body = if String.length snap >= 5 then String.sub snap 5 (String.length snap - 5) else "" in
  String.concat ";" (List.filter (fun e ->
      match String.index_opt e '|' with
      | Some i -> keep (top_of (String.sub e 0 i))
      | None -> true) (split_on ';' body))

let run_hcase (hd : string list) (body : string list) =
  let id = match hd with id :: _ -> id | [] -> failwith "hcase: id expected" in
  let st = ref lin_init in
  let calls = ref [] in
  let items = ref [] in
  let final = ref "" in
  let si = ref 0 in
  let slot_path : (int, string list) Hashtbl.t = Hashtbl.create 8 in
  let note_slot item = match item_slot_bound item with
    | Some s -> Hashtbl.replace slot_path s (List.map top_of (item_paths item)) | None -> () in
  List.iter (fun line ->
      match tokens line with
      | "s" :: _res :: item ->
        let (lop, show) = parse_call item in
        let (st', r) = lin_step !st lop in
        st := st';
        note_slot item;
        Printf.printf "M %s#s%d %s\n" id !si (show r);
        incr si
      | "c" :: g :: inv :: resp :: res :: item ->
        note_slot item;
        items := item :: !items;
        let (lop, show) = parse_call item in
        calls := { idx = List.length !calls; g = int_of_string g; inv = int_of_string inv;
                   resp = int_of_string resp; res; lop; show } :: !calls
      | ["f"; snap] -> final := snap
      | [] -> ()
      | _ -> failwith ("hcase: bad line: " ^ line)) body;
  let calls = Array.of_list (List.rev !calls) in
  let items = Array.of_list (List.rev !items) in
  let n = Array.length calls in
  if n > 60 then failwith "hcase: too many calls";
  if !final = "hung" then Printf.printf "M %s hung\n" id else begin
  let all = Array.make n true in
  let skip_final = (!final = "skip") in   (* a call panicked: the harness did not inspect the final state *)
  let (ok, prefix, stuck, nodes) = search !st calls all (fun s -> skip_final || snap_s s = !final) in
  if ok then Printf.printf "M %s linearizable\n" id
  else begin
    (* subtrees touched by each call *)
    let tops = Array.map (fun item ->
        match item_slot_used item with
        | Some s -> (try Hashtbl.find slot_path s with Not_found -> [])
        | None -> List.map top_of (item_paths item)) items in
    let active = Array.make n true in
    let dropped_tops = ref [] in
    let still_bad () =
      let keep t = not (List.mem t !dropped_tops) in
      let fin = snap_filter keep !final in
      let (ok, _, _, _) = search !st calls active (fun s -> skip_final || snap_filter keep (snap_s s) = fin) in
      not ok in
    let all_tops = List.sort_uniq compare (List.concat (Array.to_list tops)) in
    List.iter (fun t ->
        if t <> "" then begin
          (* every call confined to subtree t, provided no remaining call straddles it *)
          let inside i = tops.(i) <> [] && List.for_all (fun x -> x = t) tops.(i) in
          let straddles = ref false in
          Array.iteri (fun i tp -> if active.(i) && List.mem t tp && not (inside i) then straddles := true) tops;
          if not !straddles then begin
            let saved = Array.copy active in
            Array.iteri (fun i _ -> if inside i then active.(i) <- false) tops;
            dropped_tops := t :: !dropped_tops;
            if not (still_bad ()) then begin
              Array.blit saved 0 active 0 n;
              dropped_tops := List.tl !dropped_tops
            end
          end
        end) all_tops;
    for i = n - 1 downto 0 do
      let slot_in_use = match item_slot_bound items.(i) with
        | None -> false
        | Some sl ->
          let u = ref false in
          Array.iteri (fun j it -> if j <> i && active.(j) && item_slot_used it = Some sl then u := true) items;
          !u in
      if active.(i) && not slot_in_use && no_effect items.(i) calls.(i).res then begin
        active.(i) <- false;
        if not (still_bad ()) then active.(i) <- true
      end
    done;
    let core = List.filter (fun i -> active.(i)) (List.init n (fun i -> i)) in
    Printf.printf "M %s NOT-linearizable prefix=%s stuck=%s core=%s\n" id
      (match prefix with [] -> "-" | _ -> String.concat "," (List.map string_of_int prefix))
      (match stuck with [] -> "-" | _ -> String.concat "," (List.map (fun (i, r) -> i ^ ":" ^ r) stuck))
      (String.concat "," (List.map string_of_int core))
  end;
  if Sys.getenv_opt "C04_NODES" <> None then Printf.printf "N %s %d\n" id nodes
  end

let () = Registry.register_block "hcase" run_hcase
