(* drv_c04.ml — C04: linearizability search (Wing & Gong, memoised) of recorded concurrent
   histories against the EXTRACTED sequential specification [lin_step] (= m_step of
   Model/MemFs.v behind per-goroutine handle slots).

   hcase <id> <goroutines> <mode> ...
   s <result> <item>                      sequential setup prefix (item syntax of fsdriver.ml)
   c <g> <inv> <resp> <result> <item>     one concurrent call: goroutine, stamps, canonical result
   f <snap>                               canonical final state
   end

   prints  M <id>#s<i> <result>           the model's result of setup step i
           M <id> linearizable
        or M <id> NOT-linearizable prefix=<calls that could be linearized, in order>
                 stuck=<call>:<what the model answers there>,...   (calls are numbered from 0
                 in the order of the c lines; "final" = every call placed, final state differs) *)
open Model
open Driver_common

type hcall = { idx : int; g : int; inv : int; resp : int; res : string; lop : nat option * op }

let parse_lop (toks : string list) : nat option * op =
  match Fsdriver.parse_item toks with
  | IOp (_, slot, o) -> (slot, o)
  | _ -> failwith "hcase: op expected"

let snap_s (st : lstate) : string = Fsdriver.canon_tres (TSnap (lin_obs st))

(* all calls run at the same model instant, so equal states are structurally equal *)
let key (st : lstate) : string = Marshal.to_string st [Marshal.No_sharing]

let search (st0 : lstate) (calls : hcall array) (final : string) =
  let n = Array.length calls in
  let full = (1 lsl n) - 1 in
  let seen : (int * string, unit) Hashtbl.t = Hashtbl.create 64 in
  let best_len = ref (-1) in
  let best_prefix = ref [] in
  let best_stuck = ref [] in
  let nodes = ref 0 in
  (* call i may come next: no call that is still to be placed returned before i was invoked *)
  let minimal mask i =
    let ok = ref true in
    for j = 0 to n - 1 do
      if j <> i && mask land (1 lsl j) = 0 && calls.(j).resp < calls.(i).inv then ok := false
    done;
    !ok in
  let rec go mask st prefix len =
    incr nodes;
    if mask = full then begin
      let s = snap_s st in
      if s = final then true
      else begin
        if len > !best_len then (best_len := len; best_prefix := List.rev prefix; best_stuck := [("final", s)]);
        false
      end
    end else begin
      let k = (mask, key st) in
      if Hashtbl.mem seen k then false
      else begin
        Hashtbl.add seen k ();
        let stuck = ref [] in
        let found = ref false in
        let i = ref 0 in
        while not !found && !i < n do
          let c = calls.(!i) in
          if mask land (1 lsl !i) = 0 && minimal mask !i then begin
            let (st', r) = lin_step st c.lop in
            let rs = Fsdriver.canon_res r in
            if rs = c.res then begin
              if go (mask lor (1 lsl !i)) st' (!i :: prefix) (len + 1) then found := true
            end else stuck := (string_of_int !i, rs) :: !stuck
          end;
          incr i
        done;
        if not !found && len > !best_len && !stuck <> [] then
          (best_len := len; best_prefix := List.rev prefix; best_stuck := List.rev !stuck);
        !found
      end
    end in
  let ok = go 0 st0 [] 0 in
  (ok, !best_prefix, !best_stuck, !nodes)

let run_hcase (hd : string list) (body : string list) =
  let id = match hd with id :: _ -> id | [] -> failwith "hcase: id expected" in
  let st = ref lin_init in
  let calls = ref [] in
  let final = ref "" in
  let si = ref 0 in
  List.iter (fun line ->
      match tokens line with
      | "s" :: _res :: item ->
        let (st', r) = lin_step !st (parse_lop item) in
        st := st';
        Printf.printf "M %s#s%d %s\n" id !si (Fsdriver.canon_res r);
        incr si
      | "c" :: g :: inv :: resp :: res :: item ->
        calls := { idx = List.length !calls; g = int_of_string g; inv = int_of_string inv;
                   resp = int_of_string resp; res; lop = parse_lop item } :: !calls
      | ["f"; snap] -> final := snap
      | [] -> ()
      | _ -> failwith ("hcase: bad line: " ^ line)) body;
  let calls = Array.of_list (List.rev !calls) in
  if Array.length calls > 60 then failwith "hcase: too many calls";
  let (ok, prefix, stuck, nodes) = search !st calls !final in
  if ok then Printf.printf "M %s linearizable\n" id
  else
    Printf.printf "M %s NOT-linearizable prefix=%s stuck=%s\n" id
      (match prefix with [] -> "-" | _ -> String.concat "," (List.map string_of_int prefix))
      (match stuck with [] -> "-" | _ -> String.concat "," (List.map (fun (i, r) ->
           i ^ ":" ^ (if i = "final" then "differs" else r)) stuck));
  if Sys.getenv_opt "C04_NODES" <> None then Printf.printf "N %s %d\n" id nodes

let () = Registry.register_block "hcase" run_hcase
