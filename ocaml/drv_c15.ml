(* drv_c15.ml — C15 model runner.  Case block (see harness/cmd/afcheck/c15.go):
     iocase <id> <stack> <tree>
     <setup items>                      item language of fsdriver.ml
     q <query>                          one "M <id>#<n> <canonical result>" per query (n = index among the q lines);
     end                                "q fstest" and "q mixed .." have no model line (search oracles of the Go side)
   The tree of the header is for the Go side only (its oracle knows what was built); the model sees the
   setup items.  Output also "D <id> <digest>" over the queries the vm_compute cross-check replays. *)
open Model
open Driver_common

let b = bytes_of_hex
let zi s = z_of_dec s

let parse_basic (t : string list) : ioq =
  match t with
  | ["open"; n] -> QOpen (b n)
  | ["readdir"; n] -> QReadDir (b n)
  | ["page"; n; sizes] -> QPage (b n, List.map zi (String.split_on_char ',' sizes))
  | ["readfile"; n] -> QReadFile (b n)
  | ["read"; n; c] -> QRead (b n, zi c)
  | ["readat"; n; off; len] -> QReadAt (b n, zi off, zi len)
  | ["seek"; n; pre; off; wh; len] -> QSeek (b n, zi pre, zi off, zi wh, zi len)
  | ["stat"; n] -> QStat (b n)
  | ["glob"; p] -> QGlob (b p)
  | _ -> failwith ("C15: bad query " ^ String.concat " " t)

let parse_mut (t : string list) : op =
  match t with
  | ["Create"; n] -> Create (b n)
  | ["Mkdir"; n] -> Mkdir (b n, z_of_int 493)
  | ["MkdirAll"; n] -> MkdirAll (b n, z_of_int 493)
  | ["OpenFile"; n; fl] -> OpenFile (b n, zi fl, z_of_int 420)
  | ["Remove"; n] -> Remove (b n)
  | ["RemoveAll"; n] -> RemoveAll (b n)
  | ["Rename"; n] -> Rename (b n, b n @ bytes_of_hex "5f72")
  | ["Chmod"; n] -> Chmod (b n, z_of_int 384)
  | ["Chown"; n] -> Chown (b n, z_of_int 1, z_of_int 1)
  | ["Chtimes"; n] -> Chtimes (b n, z_of_int 1000)
  | _ -> failwith ("C15: bad mutator " ^ String.concat " " t)

let zz = bytes_of_hex "7a7a"
let parse_hmut (o : string) : op =
  match o with
  | "HWrite" -> HWrite (O, zz)
  | "HWriteAt" -> HWriteAt (O, zz, z_of_int 0)
  | "HWriteString" -> HWriteString (O, zz)
  | "HTruncate" -> HTruncate (O, z_of_int 0)
  | _ -> failwith ("C15: bad handle mutator " ^ o)

let parse_top (t : string list) : iotop =
  match t with
  | "sub" :: d :: rest -> TSub (b d, parse_basic rest)
  | ["from"; "stat"; n] -> TFromStat (b n)
  | ["from"; "open"; n] -> TFromOpen (b n)
  | ["from"; "readfile"; n] -> TFromReadFile (b n)
  | ["from"; "readdir"; n] -> TFromReaddir (b n)
  | ["from"; "names"; n] -> TFromNames (b n)
  | "from" :: "mut" :: rest -> TFromMut (parse_mut rest)
  | ["from"; "hmut"; n; o] -> TFromHMut (b n, parse_hmut o)
  | _ -> TBasic (parse_basic t)

(* ---- canonical text, same conventions as c15.go ---- *)
let fnv32 (l : int list) : int =
  List.fold_left (fun h c -> ((h lxor c) * 16777619) land 0xffffffff) 2166136261 l

let dat_s (d : n list) : string =
  if List.length d <= 16 then hex_of_bytes d
  else Printf.sprintf "#%d:%08x" (List.length d) (fnv32 (List.map int_of_n d))

let err_s (e : err) = "err:" ^ Fsdriver.errclass e
let kind_s fi = if fi.fi_dir then "d" else "f"
let ent_s fi = hex_of_bytes fi.fi_name ^ "|" ^ kind_s fi
let list_s = function [] -> "-" | l -> String.concat "," l

let info_s (fi : finfo) : string =
  Printf.sprintf "info:%s|%s|%s|%d" (hex_of_bytes fi.fi_name) (kind_s fi)
    (if fi.fi_dir then "-" else string_of_int (int_of_z fi.fi_size)) (int_of_z fi.fi_mode)

let other (r : res) = "other:" ^ Fsdriver.canon_res r

let open_s (rs : res list) : string =
  match rs with
  | [ROk; RInfo fi] -> "ok:" ^ kind_s fi
  | [ROk; _] -> "ok:staterr"
  | [RErr e] -> err_s e
  | r :: _ -> other r
  | [] -> "empty"

let data_of = function RData (d, _) -> d | _ -> []
let eopt_of = function RData (_, e) | RPos (_, e) -> Fsdriver.eopt e | RErr e -> Fsdriver.errclass e | RPanic -> "panic" | _ -> "?"

let canon_basic (q : ioq) (rs : res list) : string =
  match q, rs with
  | QOpen _, _ -> open_s rs
  | (QReadDir _), [RInfos (l, None)] -> "ents:" ^ list_s (List.map ent_s l)
  | (QReadDir _ | QStat _ | QReadFile _ | QGlob _), [RErr e] ->
    (* io_glob_res encodes ErrBadPattern as E KOther; anything else is the error of a refused Sub *)
    (match q, e.ek with QGlob _, KOther -> "m=-;r=BadPattern" | _ -> err_s e)
  | QStat _, [RInfo fi] -> info_s fi
  | QReadFile _, [RData (d, None)] -> "data:" ^ dat_s d
  | QGlob _, [RNames (l, None)] -> Printf.sprintf "m=%s;r=-" (list_s (List.map hex_of_bytes l))
  | (QPage _ | QRead _ | QReadAt _ | QSeek _), [RErr e] -> err_s e
  | QPage _, ROk :: pages ->
    let pg = List.map (function
        | RInfos (l, None) -> Printf.sprintf "%d/-" (List.length l)
        | RErr e -> "0/" ^ Fsdriver.errclass e
        | r -> "?/" ^ Fsdriver.canon_res r) pages in
    let all = List.concat_map (function RInfos (l, _) -> List.map ent_s l | _ -> []) pages in
    Printf.sprintf "pg:%s;all=%s" (String.concat "," pg) (list_s (List.sort compare all))
  | QRead _, ROk :: reads ->
    let data = List.concat_map data_of reads in
    let last = match List.rev reads with r :: _ -> eopt_of r | [] -> "-" in
    Printf.sprintf "data:%s:reads=%d:%s" (dat_s data) (List.length reads) last
  | QReadAt _, [ROk; r] -> Printf.sprintf "data:%s:%s" (dat_s (data_of r)) (eopt_of r)
  | QSeek _, [ROk; RPos (p, e); r] ->
    Printf.sprintf "pos:%d:%s;data:%s:%s" (int_of_z p) (Fsdriver.eopt e) (dat_s (data_of r)) (eopt_of r)
  | _, r :: _ -> other r
  | _, [] -> "empty"

let canon_top (t : iotop) (rs : res list) : string =
  match t, rs with
  | TBasic q, _ -> canon_basic q rs
  | TSub (_, q), _ -> canon_basic q rs
  | TFromStat _, [RInfo fi] -> info_s fi
  | TFromOpen _, _ -> open_s rs
  | TFromReadFile _, [RData (d, None)] -> "data:" ^ dat_s d
  | TFromReadFile _, [RData (_, Some e)] -> err_s e
  | (TFromReaddir _ | TFromNames _), [ROk; r] ->
    (* harness: listRes: a non-EOF error without entries prints as a plain error *)
    Fsdriver.canon_res r
  | TFromMut _, [RHandle _] -> "handle"
  | TFromMut _, [ROk] -> "ok"
  | TFromHMut (_, HTruncate _), [ROk; ROk] -> "ok"
  | TFromHMut (_, HTruncate _), [ROk; RErr e] -> err_s e
  | TFromHMut _, [ROk; RCount (n, e)] -> Printf.sprintf "count:%d:%s" (int_of_z n) (Fsdriver.eopt e)
  | _, [RErr e] -> err_s e
  | _, r :: _ -> other r
  | _, [] -> "empty"

let run_iocase hd (lines : string list) =
  match hd with
  | [id; stackdesc; _tree] ->
    let k = Fsdriver.parse_stack stackdesc in
    let is_q l = String.length l > 2 && String.sub l 0 2 = "q " in
    let setup = List.filter (fun l -> not (is_q l)) lines in
    let qs = List.filter is_q lines in
    let items = List.map (fun l -> Fsdriver.parse_item (tokens l)) setup in
    let toks = List.map (fun l -> tokens (String.sub l 2 (String.length l - 2))) qs in
    let indexed = List.mapi (fun i t -> (i, t)) toks in
    let oracle_only t = match t with "fstest" :: _ | "mixed" :: _ -> true | _ -> false in
    let real = List.filter (fun (_, t) -> not (oracle_only t)) indexed in
    let tops = List.map (fun (_, t) -> parse_top t) real in
    let outs = io_run_all k items tops in
    List.iter2 (fun ((i, _), t) rs -> Printf.printf "M %s#%d %s\n" id i (canon_top t rs))
      (List.combine real tops) outs;
    if Sys.getenv_opt "VERIF_DIGEST" <> None then begin
      (* the cross-check replays the first queries only (checks/c15.py takes the same prefix) *)
      let rec take n = function [] -> [] | x :: r -> if n = 0 then [] else x :: take (n - 1) r in
      Printf.printf "D %s %s\n" id (Fsdriver.n_to_string (io_digest k items (take 24 tops)))
    end
  | _ -> failwith "bad iocase header"

let () = Registry.register_block "iocase" run_iocase
