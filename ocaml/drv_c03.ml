(* drv_c03.ml — C03 (concurrent use of one MemMapFs): the model side of harness-conc.
   case kinds:
     locks <id> <go function>            -> M <id> <lock-operation sequence declared by Model/Conc.v (cc_locktab)>
     ccase <id> reps=<n> pair|stress ... -> for `pair` blocks: the extracted model explores ALL schedules of the
        s/p/o lines ... end                 program set (cc_explore) and remembers which bad outcomes are reachable;
                                            D <id> reach=<...> runs=<n>      (no M line: nothing to compare per run)
     pair <id> <opA> <opB> n=.. impl=<race|norace?> sigs=.. bad=<observed classes>
                                         -> M <id> race=<r> bad=<b>: the implementation's own values are echoed
        unless impl=race where the section table predicts that the two kinds cannot race (then `norace`), or a
        bad class was observed that no schedule of the model reaches (then `model-reach:<set>`).
        D <id> lockset=<race|norace> hb=<race|norace> reach=<set> *)
open Model
open Driver_common

let str_of_coq (s : n list) : string = String.concat "" (List.map (fun c -> String.make 1 (Char.chr (int_of_n c))) s)

let bytes_of_text (s : string) : n list = List.init (String.length s) (fun i -> n_of_int (Char.code s.[i]))
let zi s = z_of_int (int_of_string s)
let zoct s = z_of_int (int_of_string ("0o" ^ s))
let ni s = nat_of_int (int_of_string s)
let p = bytes_of_text

let parse_op (toks : string list) : op =
  match toks with
  | ["Create"; a] -> Create (p a)
  | ["Open"; a] -> Open (p a)
  | ["OpenFile"; a; fl; perm] -> OpenFile (p a, zi fl, zoct perm)
  | ["Mkdir"; a; perm] -> Mkdir (p a, zoct perm)
  | ["MkdirAll"; a; perm] -> MkdirAll (p a, zoct perm)
  | ["Remove"; a] -> Remove (p a)
  | ["RemoveAll"; a] -> RemoveAll (p a)
  | ["Rename"; a; q] | ["RenameDir"; a; q] -> Rename (p a, p q)
  | ["Stat"; a] -> Stat (p a)
  | ["Chmod"; a; m] -> Chmod (p a, zoct m)
  | ["Chtimes"; a; t] -> Chtimes (p a, zi t)
  | ["HRead"; h; n] -> HRead (ni h, zi n)
  | ["HReadAt"; h; n; off] -> HReadAt (ni h, zi n, zi off)
  | ["HWrite"; h; d] -> HWrite (ni h, bytes_of_hex (if d = "-" then "" else d))
  | ["HWriteAt"; h; d; off] -> HWriteAt (ni h, bytes_of_hex (if d = "-" then "" else d), zi off)
  | ["HSeek"; h; off; w] -> HSeek (ni h, zi off, zi w)
  | ["HTruncate"; h; n] -> HTruncate (ni h, zi n)
  | ["HClose"; h] -> HClose (ni h)
  | ["HStat"; h] -> HStat (ni h)
  | ["HName"; h] -> HName (ni h)
  | ["HSync"; h] -> HSync (ni h)
  | ["HReaddir"; h; n] | ["xReaddirFile"; h; n] -> HReaddir (ni h, zi n)
  | ["HReaddirnames"; h; n] -> HReaddirnames (ni h, zi n)
  | ["xList"] -> HSync (ni "9999")           (* List(): annotations only; a call that does nothing *)
  | _ -> failwith ("drv_c03: bad op: " ^ String.concat " " toks)

let reach : (string, (bool * bool * bool * bool * int * bool)) Hashtbl.t = Hashtbl.create 64

let pair_id_of (cid : string) : string =
  (* p.A.B.i.j -> p.A.B *)
  match List.rev (String.split_on_char '.' cid) with
  | _ :: _ :: r -> String.concat "." (List.rev r)
  | _ -> cid

let classes (pn, st, inc) =
  let l = (if st then ["deadlock"] else []) @ (if inc then ["inconsistent"] else []) @ (if pn then ["panic"] else []) in
  if l = [] then "-" else String.concat "," l

let run_ccase (hd : string list) (body : string list) =
  match hd with
  | id :: tags when List.mem "pair" tags ->
    let setup = ref [] and pro = Hashtbl.create 4 and thr = Hashtbl.create 4 and nthreads = ref 0 in
    let add tbl t o = Hashtbl.replace tbl t ((try Hashtbl.find tbl t with Not_found -> []) @ [o]) in
    List.iter (fun l -> match tokens l with
        | "s" :: r -> setup := !setup @ [parse_op r]
        | "p" :: t :: r -> let t = int_of_string t in nthreads := max !nthreads (t + 1); add pro t (parse_op r)
        | "o" :: t :: r -> let t = int_of_string t in nthreads := max !nthreads (t + 1); add thr t (parse_op r)
        | _ -> ()) body;
    let progs = List.init !nthreads (fun t ->
        ((try Hashtbl.find pro t with Not_found -> []), (try Hashtbl.find thr t with Not_found -> []))) in
    let c = cc_case_cfg !setup progs in
    let su = cc_explore (nat_of_int 600) c su0 in
    let runs = int_of_n su.su_runs in
    Printf.printf "D %s reach=%s leak=%b badunlock=%b runs=%d cut=%b\n" id
      (classes (su.su_panic, su.su_stuck, su.su_inconsistent)) su.su_leak su.su_badunlock runs su.su_cut;
    let pid = pair_id_of id in
    let (a, b, c', d, e, f) = (try Hashtbl.find reach pid with Not_found -> (false, false, false, false, 0, false)) in
    Hashtbl.replace reach pid (a || su.su_panic, b || su.su_stuck, c' || su.su_inconsistent, d || su.su_badunlock,
                               e + runs, f || su.su_cut)
  | _ -> ()

let hk_of = function
  | "HRead" -> HkRead | "HReadAt" -> HkReadAt | "HWrite" -> HkWrite | "HWriteAt" -> HkWriteAt | "HSeek" -> HkSeek
  | "HTruncate" -> HkTruncate | "HClose" -> HkClose | "HStat" -> HkStat | "HName" -> HkName | "HSync" -> HkSync
  | "HReaddir" -> HkReaddir | "HReaddirnames" -> HkReaddirnames
  | s -> failwith ("drv_c03: handle kind " ^ s)

let kind_of = function
  | "Create" -> KCreate | "OpenFile" -> KOpenFile | "Mkdir" -> KMkdir | "MkdirAll" -> KMkdirAll | "Remove" -> KRemove
  | "RemoveAll" -> KRemoveAll | "Rename" -> KRename | "RenameDir" -> KRenameDir | "Stat" -> KStat | "Chmod" -> KChmod
  | "Chtimes" -> KChtimes | "Open" -> KOpen | "xList" -> KXList | "xReaddirFile" -> KXReaddirFile
  | s -> KH (hk_of s)

let field (pre : string) (toks : string list) : string =
  let n = String.length pre in
  match List.find_opt (fun t -> String.length t >= n && String.sub t 0 n = pre) toks with
  | Some t -> String.sub t n (String.length t - n)
  | None -> "-"

let run_pair toks =
  match toks with
  | id :: a :: b :: rest ->
    let impl = field "impl=" rest and bad = field "bad=" rest in
    let ka = kind_of a and kb = kind_of b in
    let ls = cc_kinds_norace cc_protected ka kb and hb = cc_kinds_norace cc_protected_hb ka kb in
    let race_m = if impl = "race" && hb then "norace" else impl in
    let (pn, st, inc, _, runs, cut) = (try Hashtbl.find reach id with Not_found -> (false, false, false, false, 0, false)) in
    let observed = if bad = "-" then [] else String.split_on_char ',' bad in
    let reachable c = match c with "panic" -> pn | "deadlock" -> st | "inconsistent" -> inc | _ -> false in
    let outside = (String.length a > 0 && a.[0] = 'x') || (String.length b > 0 && b.[0] = 'x') in
    let bad_m = if outside || cut || List.for_all reachable observed then bad
      else "model-reach:" ^ classes (pn, st, inc) in
    Printf.printf "M %s race=%s bad=%s\n" id race_m bad_m;
    Printf.printf "D %s lockset=%s hb=%s reach=%s runs=%d cut=%b\n" id (if ls then "norace" else "race")
      (if hb then "norace" else "race") (classes (pn, st, inc)) runs cut
  | _ -> failwith "bad pair line"

let locktab : (string * string) list Lazy.t =
  lazy (List.map (fun (k, v) -> (str_of_coq k, str_of_coq v)) cc_locktab_b)

let run_locks toks =
  match toks with
  | [id; fn] ->
    (match List.assoc_opt fn (Lazy.force locktab) with
     | Some seq -> Printf.printf "M %s %s\n" id seq
     | None -> Printf.printf "M %s <not in the model's table>\n" id)
  | _ -> failwith "bad locks line"

let () =
  Registry.register_line "locks" run_locks;
  Registry.register_line "pair" run_pair;
  Registry.register_block "ccase" run_ccase
