(* drv_c18.ml — C18 model runner.  Case lines (see harness/cmd/afcheck/c18.go):
     temp  <id> <stack> <seed> <dir hex> <pattern hex> <file|dir> <pre> <ncalls>
     ctemp ...   (concurrent goroutines: judged by the Go-side oracle only; no model line)
   Output: M <id>#<k>  ok:<name hex> | err:<class> | reseeded:ok | reseeded:err:<class> *)
open Model
open Driver_common

let big_z = z_of_int Fsdriver.big
let os_tmp = List.map (fun c -> n_of_int (Char.code c)) ['/'; 't'; 'm'; 'p']
let str_of_string (s : string) : n list = List.init (String.length s) (fun i -> n_of_int (Char.code s.[i]))

let reset_val (seed : int) (j : int) : int =
  let v = (seed * 31 + (j + 1) * 1000003) mod 4294967296 in if v = 0 then 1 else v

(* digits of candidate number i (1-based) from the generator state [seed] *)
let candidate (seed : z) (i : int) : n list =
  let rec go r i = let (r', nm) = next_random r in if i <= 1 then nm else go r' (i - 1) in
  go seed i

let run_temp toks =
  match toks with
  | [id; stackdesc; seed_s; dir_h; pat_h; kind; pre; ncalls_s] ->
    let k = Fsdriver.parse_stack stackdesc in
    let seed = int_of_string seed_s and ncalls = int_of_string ncalls_s in
    let dir = bytes_of_hex dir_h and pat = bytes_of_hex pat_h in
    let isfile = (kind = "file") in
    let dir_eff = if dir = [] then os_tmp else dir in
    let (prefix, suffix) = if isfile then temp_prefix_suffix pat else (pat, []) in
    let step = ustep k in
    let u0 = uset_clock k (uinit k) big_z in
    let u1 =
      if pre = "-" then u0 else
        List.fold_left (fun u it ->
            if it = "D" then fst (step u (MkdirAll (dir, z_of_int 0o755)))
            else if it = "F" then fst (write_file step u dir (str_of_string "iamfile") (z_of_int 0o644))
            else if it = "K" then
              fst (write_file step u (join2 dir_eff (str_of_string "keep.txt")) (str_of_string "keep") (z_of_int 0o644))
            else begin
              let i = int_of_string (String.sub it 1 (String.length it - 1)) in
              let name = join2 dir_eff (prefix @ candidate (z_of_int seed) i @ suffix) in
              if it.[0] = 'f' then
                fst (write_file step u name (str_of_string (Printf.sprintf "pre%d" i)) (z_of_int 0o644))
              else fst (step u (Mkdir (name, z_of_int 0o755)))
            end) u0 (String.split_on_char ',' pre) in
    let calls = List.init ncalls (fun _ -> ((isfile, dir), pat)) in
    let resets = List.init (ncalls + 1) (fun j -> z_of_int (reset_val seed j)) in
    let seeds = List.init (2 * ncalls + 4) (fun j -> z_of_int (424242421 + 1000 * j)) in
    let g = { tg_rand = z_of_int seed; tg_seeds = seeds; tg_reseeds = O } in
    let ((_, _), results) = temp_calls step os_tmp u1 g calls resets in
    List.iteri (fun i ((x, nm), reseeded) ->
        let pre_s = if reseeded then "reseeded:" else "" in
        let s = match x, nm with
          | TempOk (_, _), Some n -> if reseeded then "reseeded:ok" else "ok:" ^ hex_of_bytes n
          | TempOk (_, _), None -> pre_s ^ "noname"
          | TempErr e, _ -> pre_s ^ "err:" ^ Fsdriver.errclass e
          | TempNil, _ -> pre_s ^ "nil"
          | TempPanic, _ -> "panic" in
        Printf.printf "M %s#%d %s\n" id i s) results
  | _ -> failwith "bad temp line"

let () =
  Registry.register_line "temp" run_temp;
  Registry.register_line "ctemp" (fun _ -> ())
