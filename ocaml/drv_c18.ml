(* drv_c18.ml — C18 model runner.  Case lines (see harness/cmd/afcheck/c18.go):
     temp  <id> <stack> <seed> <dir hex> <pattern hex> <file|dir> <pre> <ncalls>
     ctemp ...   (concurrent goroutines: judged by the Go-side oracle only; no model line)
   The case itself is the Gallina function temp_case (Model/Cases1718.v); this file parses and prints.
   Output: M <id>#<k>  ok:<name hex> | err:<class> | reseeded:ok | reseeded:err:<class> ;  D <id> <digest> *)
open Model
open Driver_common

let parse_pre (pre : string) : temp_pre list =
  if pre = "-" then [] else
    List.map (fun it ->
        if it = "D" then TpMkdir else if it = "F" then TpDirIsFile else if it = "K" then TpKeep
        else begin
          let i = nat_of_int (int_of_string (String.sub it 1 (String.length it - 1))) in
          if it.[0] = 'f' then TpCandFile i else TpCandDir i
        end) (String.split_on_char ',' pre)

let run_temp toks =
  match toks with
  | [id; stackdesc; seed_s; dir_h; pat_h; kind; pre; ncalls_s] ->
    let k = Fsdriver.parse_stack stackdesc in
    let args f = f k (z_of_int (int_of_string seed_s)) (bytes_of_hex dir_h) (bytes_of_hex pat_h) (kind = "file")
        (parse_pre pre) (nat_of_int (int_of_string ncalls_s)) in
    let results = args temp_case in
    List.iteri (fun i ((x, nm), reseeded) ->
        let pre_s = if reseeded then "reseeded:" else "" in
        let s = match x, nm with
          | TempOk (_, _), Some n -> if reseeded then "reseeded:ok" else "ok:" ^ hex_of_bytes n
          | TempOk (_, _), None -> pre_s ^ "noname"
          | TempErr e, _ -> pre_s ^ "err:" ^ Fsdriver.errclass e
          | TempNil, _ -> pre_s ^ "nil"
          | TempPanic, _ -> "panic" in
        Printf.printf "M %s#%d %s\n" id i s) results;
    if Sys.getenv_opt "VERIF_DIGEST" <> None then
      Printf.printf "D %s %s\n" id (Fsdriver.n_to_string (args temp_case_digest))
  | _ -> failwith "bad temp line"

let () =
  Registry.register_line "temp" run_temp;
  Registry.register_line "ctemp" (fun _ -> ())
