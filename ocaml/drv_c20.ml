(* drv_c20.ml — C20 (gcsfs): runs the extracted Go-level model (Model/Gcs.v, GcsFs.v) and the
   specification machine (Model/GcsSpec.v) on "gcase" blocks.
     gcase <id> <class i|o> / obj <name hex> <payload> / . <slot|-> <Op> <args> / snap / end
   prints  M <id>#<k> <raw result>           for every body line except obj
           M <id>#<k>/p <projected result>   class i only
           S <id>#<k>/p <spec result>        class i only, where the spec judges the step
   C20_VARIANT=today/patched select a fixed transcription (default: cfg_src, the configuration regenerated from the sources). *)
open Model
open Driver_common

let gen_bytes seed n = List.init n (fun i -> n_of_int ((seed + 131 * i + 17 * (i lsr 8)) land 255))

let payload (s : string) : n list =
  if String.length s > 4 && String.sub s 0 4 = "gen:" then
    (match String.split_on_char ':' s with
     | [_; seed; len] -> gen_bytes (int_of_string seed) (int_of_string len)
     | _ -> failwith "bad gen payload")
  else bytes_of_hex s

let string_of_bytes (b : n list) : string =
  let buf = Buffer.create 64 in
  List.iter (fun x -> Buffer.add_char buf (Char.chr (int_of_n x))) b; Buffer.contents buf

let data_s (b : n list) : string =
  let len = List.length b in
  if len > 64 then Printf.sprintf "L%d.%s" len (Digest.to_hex (Digest.string (string_of_bytes b)))
  else hex_of_bytes b

let gerr_s = function
  | GEOF -> "EOF" | GClosed -> "Closed" | GOutOfRange -> "OutOfRange" | GNoBucket -> "NoBucket"
  | GEmptyName -> "EmptyName" | GObjNotExist -> "ObjNotExist" | GBucketNotExist -> "BucketNotExist"
  | GENOENT -> "NotExist" | GEPERM -> "Perm" | GEISDIR -> "IsDir" | GENOTDIR -> "NotDir"
  | GENOTEMPTY -> "NotEmpty" | GReadOnly -> "ReadOnlyHandle" | GRange -> "Other" | GOther -> "Other"
let eopt = function None -> "-" | Some e -> gerr_s e

let info_s (i : ginfo) : string =
  if i.gi_dir then Printf.sprintf "%s|d|-" (hex_of_bytes (gi_base i))
  else Printf.sprintf "%s|f|%d" (hex_of_bytes (gi_base i)) (int_of_z i.gi_size)

let list_res kind body n e =
  match e with
  | Some x when x <> GEOF && n = 0 -> "err:" ^ gerr_s x
  | _ -> Printf.sprintf "%s:%s:%s" kind body (eopt e)

let snap_s l = "snap:" ^ String.concat ";" (List.map (fun (n, d) -> hex_of_bytes n ^ "=" ^ data_s d) l)

let gres_s (r : gres) : string =
  match r with
  | GPanic -> "panic" | GNoSlot -> "noslot" | GFuel -> "fuel" | GOk -> "ok"
  | GErr e -> "err:" ^ gerr_s e
  | GHandle -> "handle"
  | GInfo i -> "info:" ^ info_s i
  | GData (b, e) -> Printf.sprintf "data:%s:%s" (data_s b) (eopt e)
  | GCount (n, e) -> Printf.sprintf "count:%d:%s" (int_of_z n) (eopt e)
  | GPos (n, e) -> Printf.sprintf "pos:%d:%s" (int_of_z n) (eopt e)
  | GInfos (l, e) -> list_res "infos" (String.concat "," (List.map info_s l)) (List.length l) e
  | GNames (l, e) -> list_res "names" (String.concat "," (List.map hex_of_bytes l)) (List.length l) e
  | GName s -> "name:" ^ hex_of_bytes s
  | GSnap l -> snap_s l

let sres_s (r : sres) : string option =
  match r with
  | SSkip -> None
  | SNoSlot -> Some "noslot" | SPanic -> Some "panic" | SOk -> Some "ok" | SErr -> Some "err"
  | SBytes b -> Some ("bytes:" ^ data_s b)
  | SCount n -> Some (Printf.sprintf "count:%d" (int_of_nat n))
  | SPos n -> Some (Printf.sprintf "pos:%d" (int_of_nat n))
  | SSize n -> Some (Printf.sprintf "size:%d" (int_of_nat n))
  | SDir -> Some "dir"
  | SNames l -> Some ("names:" ^ String.concat "," (List.map hex_of_bytes l))
  | SEnts l -> Some ("ents:" ^ String.concat "," (List.map (fun (n, d) -> hex_of_bytes n ^ (if d then "|d" else "|f")) l))
  | SRefused -> Some "refused" | SDone -> Some "done"
  | SSnap l -> Some (snap_s l)

let bucket = bytes_of_hex "62"
let variant () = match Sys.getenv_opt "C20_VARIANT" with Some "today" -> cfg_today | Some "patched" -> cfg_patched | _ -> cfg_src

type line = LObj of n list * n list | LItem of gitem * op option

let parse_line (l : string) : line =
  match tokens l with
  | ["obj"; name; pl] -> LObj (bytes_of_hex name, payload pl)
  | ["snap"] -> LItem (GISnap, None)
  | _ :: slot :: rest ->
    let rest = List.map (fun t -> if String.length t > 4 && String.sub t 0 4 = "gen:" then hex_of_bytes (payload t) else t) rest in
    let o = Fsdriver.parse_op rest in
    LItem (GIOp ((if slot = "-" then None else Some (nat_of_int (int_of_string slot))), o), Some o)
  | _ -> failwith ("bad gcase line: " ^ l)

let run_gcase id cls (body : string list) =
  if cls = "ib" then () else   (* very large payloads: judged on the Go side only *)
  let lines = List.map parse_line body in
  let objs = List.filter_map (function LObj (n, d) -> Some (n, d) | _ -> None) lines in
  let idx = List.mapi (fun i l -> (i, l)) lines in
  let items = List.filter_map (function (i, LItem (it, o)) -> Some (i, it, o) | _ -> None) idx in
  let its = List.map (fun (_, it, _) -> it) items in
  let fuel = nat_of_int 64 in
  let outs = g_run (variant ()) bucket fuel (g_init objs) its in
  List.iter2 (fun (i, _, o) r ->
      Printf.printf "M %s#%d %s\n" id i (gres_s r);
      if cls = "i" then
        match sres_s (gproj o r) with
        | Some s -> Printf.printf "M %s#%d/p %s\n" id i s
        | None -> Printf.printf "M %s#%d/p skip\n" id i) items outs;
  if cls = "i" then begin
    let souts = sp_run bucket (sp_init objs) its in
    List.iter2 (fun (i, _, _) r ->
        match sres_s r with Some s -> Printf.printf "S %s#%d/p %s\n" id i s | None -> ()) items souts
  end

let () =
  Registry.register_block "gcase" (fun hd body -> match hd with
      | [id; cls] -> run_gcase id cls body | _ -> failwith "bad gcase header");
  Registry.register_line "gconst" (fun toks -> match toks with
      | [id; "maxWriteSize"] -> Printf.printf "M %s %d\n" id (int_of_z max_write_size)
      | [id; "folderSize"] -> Printf.printf "M %s %d\n" id (int_of_z folder_size)
      | _ -> failwith "bad gconst")
