#!/bin/bash
# extract the models and build ocaml/modelrun (run from anywhere)
set -e
cd "$(dirname "$0")"
coqc -Q ../coq AF ../coq/Extract/Extract.v >/dev/null
ocamlfind ocamlopt -O2 -w -a -package str model.mli model.ml driver_common.ml modelrun.ml -o modelrun 2>/dev/null || \
ocamlfind ocamlopt -w -a -package str -linkpkg model.mli model.ml driver_common.ml modelrun.ml -o modelrun
