(* driver_common.ml — conversions between OCaml ints/strings and the extracted Coq
   datatypes (nat, positive, N, Z kept as inductives), hex bytes, line tokenising. *)
open Model

let rec nat_of_int (n : int) : nat = if n <= 0 then O else S (nat_of_int (n - 1))
let rec int_of_nat (n : nat) : int = match n with O -> 0 | S m -> 1 + int_of_nat m

let rec pos_of_int (n : int) : positive =
  if n <= 1 then XH
  else if n land 1 = 0 then XO (pos_of_int (n lsr 1))
  else XI (pos_of_int (n lsr 1))
let rec int_of_pos (p : positive) : int =
  match p with XH -> 1 | XO q -> 2 * int_of_pos q | XI q -> 2 * int_of_pos q + 1

let n_of_int (n : int) : n = if n <= 0 then N0 else Npos (pos_of_int n)
let int_of_n (x : n) : int = match x with N0 -> 0 | Npos p -> int_of_pos p
let z_of_int (n : int) : z =
  if n = 0 then Z0 else if n > 0 then Zpos (pos_of_int n) else Zneg (pos_of_int (- n))
let int_of_z (x : z) : int =
  match x with Z0 -> 0 | Zpos p -> int_of_pos p | Zneg p -> - (int_of_pos p)

(* decimal strings of any size (offsets near 2^63 do not fit OCaml's 63-bit int) *)
let z_of_dec (s : string) : z =
  let neg = String.length s > 0 && s.[0] = '-' in
  let ds = if neg then String.sub s 1 (String.length s - 1) else s in
  if String.length ds < 18 then z_of_int (int_of_string s) else begin
    let d = Array.init (String.length ds) (fun i -> Char.code ds.[i] - 48) in
    let is_zero () = Array.for_all (fun x -> x = 0) d in
    let div2 () =
      let r = ref 0 in
      Array.iteri (fun i x -> let v = !r * 10 + x in d.(i) <- v / 2; r := v mod 2) d; !r in
    let rec bits acc = if is_zero () then acc else (let b = div2 () in bits (b :: acc)) in
    (* bits: most significant first *)
    match bits [] with
    | [] -> Z0
    | _ :: rest ->
      let p = List.fold_left (fun p b -> if b = 1 then XI p else XO p) XH rest in
      if neg then Zneg p else Zpos p
  end

(* bytes are written as lowercase hex, the empty string as "-" *)
let bytes_of_hex (s : string) : n list =
  if s = "-" then [] else begin
    let len = String.length s / 2 in
    let rec go i acc =
      if i < 0 then acc
      else go (i - 1) (n_of_int (int_of_string ("0x" ^ String.sub s (2 * i) 2)) :: acc) in
    go (len - 1) []
  end
let hex_tab : string array = Array.init 256 (fun i -> Printf.sprintf "%02x" i)
let hex_of_bytes (b : n list) : string =
  match b with
  | [] -> "-"
  | _ ->
    let buf = Buffer.create 64 in
    List.iter (fun x -> let v = int_of_n x in
                 Buffer.add_string buf (if v >= 0 && v < 256 then hex_tab.(v) else Printf.sprintf "%02x" v)) b;
    Buffer.contents buf

let split_on c s = if s = "" then [] else String.split_on_char c s
let tokens (line : string) : string list =
  List.filter (fun t -> t <> "") (String.split_on_char ' ' line)

let read_lines (path : string) : string list =
  let ic = open_in path in
  let rec go acc = match input_line ic with
    | l -> go (l :: acc)
    | exception End_of_file -> close_in ic; List.rev acc in
  go []

let bool_s b = if b then "true" else "false"
