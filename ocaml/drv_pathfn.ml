(* drv_pathfn.ml — Lib/Path.v functions on the strings the harness ran through path/filepath *)
open Model
open Driver_common

let () =
  Registry.register_line "pathfn" (fun toks -> match toks with
    | [id; s] ->
      let b = bytes_of_hex s in
      let (d, f) = path_split b in
      let x = bytes_of_hex "782f2e2e2f79" in
      Printf.printf "M %s %s|%s|%s|%s|%s|%s\n" id (hex_of_bytes (clean b)) (hex_of_bytes (path_dir b))
        (hex_of_bytes (path_base b)) (hex_of_bytes d) (hex_of_bytes f) (hex_of_bytes (path_join [b; x]))
    | _ -> failwith "bad pathfn line")
