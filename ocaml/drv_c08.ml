(* drv_c08.ml — RealPath / httpDir cases of C08 *)
open Model
open Driver_common

let () =
  Registry.register_line "realpath" (fun toks -> match toks with
    | [id; base; name] ->
      (match real_path (bytes_of_hex base) (bytes_of_hex name) with
       | Some p -> Printf.printf "M %s ok:%s\n" id (hex_of_bytes p)
       | None -> Printf.printf "M %s err:NotExist\n" id)
    | _ -> failwith "bad realpath line");
  Registry.register_line "httpdir" (fun toks -> match toks with
    | [id; root; name] ->
      Printf.printf "M %s ok:%s\n" id (hex_of_bytes (http_target (bytes_of_hex root) (bytes_of_hex name)))
    | _ -> failwith "bad httpdir line")

(* C09: FullBaseFsPath(inner wrapper with root b2 over outer wrapper with root b1, rel) *)
let () =
  Registry.register_line "fullpath" (fun toks -> match toks with
    | [id; b1; b2; rel] ->
      let j a b = path_join [a; b] in
      Printf.printf "M %s ok:%s\n" id (hex_of_bytes (j (bytes_of_hex b1) (j (bytes_of_hex b2) (bytes_of_hex rel))))
    | _ -> failwith "bad fullpath line")
