(* drv_c08.ml — RealPath / httpDir cases of C08 *)
open Model
open Driver_common

let () =
  Registry.register_line "realpath" (fun toks -> match toks with
    | [id; base; name] ->
      (match real_path (bytes_of_hex base) (bytes_of_hex name) with
       | Some p -> Printf.printf "M %s ok:%s\n" id (hex_of_bytes p)
       | None -> Printf.printf "M %s err:NotExist\n" id)
    | _ -> failwith "bad realpath line");
  Registry.register_line "httpdir" (fun toks -> match toks with
    | [id; root; name] ->
      Printf.printf "M %s ok:%s\n" id (hex_of_bytes (http_target (bytes_of_hex root) (bytes_of_hex name)))
    | _ -> failwith "bad httpdir line")

(* C09: FullBaseFsPath(inner wrapper with root b2 over outer wrapper with root b1, rel) *)
let () =
  Registry.register_line "fullpath" (fun toks -> match toks with
    | [id; b1; b2; rel] ->
      let j a b = path_join [a; b] in
      Printf.printf "M %s ok:%s\n" id (hex_of_bytes (j (bytes_of_hex b1) (j (bytes_of_hex b2) (bytes_of_hex rel))))
    | _ -> failwith "bad fullpath line")

(* symlink <id> <base> <old> <new>: the two names SymlinkIfPossible hands to the source;
   lname <id> <base> <name>: the name LstatIfPossible / ReadlinkIfPossible hand to the source *)
let () =
  Registry.register_line "symlink" (fun toks -> match toks with
    | [id; base; o; n] ->
      (match bp_symlink (bytes_of_hex base) (bytes_of_hex o) (bytes_of_hex n) with
       | Some (a, b) -> Printf.printf "M %s ok:%s:%s\n" id (hex_of_bytes a) (hex_of_bytes b)
       | None -> Printf.printf "M %s refused\n" id)
    | _ -> failwith "bad symlink line");
  Registry.register_line "lname" (fun toks -> match toks with
    | [id; base; name] ->
      (match real_path (bytes_of_hex base) (bytes_of_hex name) with
       | Some p -> Printf.printf "M %s ok:%s:%s\n" id (hex_of_bytes p) (hex_of_bytes p)
       | None -> Printf.printf "M %s refused\n" id)
    | _ -> failwith "bad lname line")
