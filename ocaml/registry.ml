(* registry.ml — case kinds handled by the driver modules (drv_*.ml register themselves) *)
(* single-line kinds: handler gets the tokens after the kind;
   block kinds ("<kind> <id> ..." ... "end"): handler gets header tokens (after the kind) and body lines *)
let line_kinds : (string, string list -> unit) Hashtbl.t = Hashtbl.create 16
let block_kinds : (string, string list -> string list -> unit) Hashtbl.t = Hashtbl.create 16
let register_line k f = Hashtbl.replace line_kinds k f
let register_block k f = Hashtbl.replace block_kinds k f
