(* drv_c16.ml — C16 model runner.  Case lines (see harness/cmd/afcheck/c16.go):
     walk  <id> <tree> <root hex> <table>      table: chars c|s|e|p per visit index, "-" = empty
     glob  <id> <tree> <pattern hex>
     rwalk / rglob: the same with a relative root / pattern (only the BasePathFs variant is run)
     match <id> <pattern hex> <name hex>
   tree ::= F | D[<name hex>=<tree>,...]
   Output: M <id>, M <id>#bp, M <id>#cow = model of afero (path.go / match.go as in /repo now),
           M <id>#std = model of path/filepath, S <id> (S <id>#bp for rwalk/rglob) = what the property
           demands of afero: the std model's result — for glob on every pattern below filepath's recursion
           limit (escapes and malformed patterns included; Props/C16.v C16_glob_eq_all).
           The wrappers #bp/#cow are judged by the Go-side oracle against filepath itself. *)
open Model
open Driver_common

let parse_tree (s : string) : tree =
  let pos = ref 0 in
  let n = String.length s in
  let peek () = if !pos < n then s.[!pos] else '\000' in
  let eat c = if peek () = c then incr pos else failwith (Printf.sprintf "tree: expected %c at %d in %s" c !pos s) in
  let rec tree () =
    match peek () with
    | 'F' -> incr pos; F
    | 'D' ->
      incr pos; eat '[';
      let kids = ref [] in
      if peek () = ']' then incr pos
      else begin
        let continue = ref true in
        while !continue do
          let st = !pos in
          while peek () <> '=' do incr pos done;
          let name = bytes_of_hex (String.sub s st (!pos - st)) in
          eat '=';
          let c = tree () in
          kids := (name, c) :: !kids;
          if peek () = ',' then incr pos else (eat ']'; continue := false)
        done
      end;
      D (List.rev !kids)
    | _ -> failwith ("tree: bad char in " ^ s)
  in
  let t = tree () in
  if !pos <> n then failwith ("tree: trailing text in " ^ s);
  t

let parse_table (s : string) : tact list =
  if s = "-" then [] else
    List.init (String.length s) (fun i -> match s.[i] with
        | 'c' -> TCont | 's' -> TSkip | 'e' -> TErr | 'p' -> TProp
        | _ -> failwith "table: bad char")

let err_s (e : nat) : string = let k = int_of_nat e in if k = 0 then "NotExist" else Printf.sprintf "E%d" k
let action_s = function Continue -> "-" | SkipDir -> "SkipDir" | Fail e -> err_s e

let visit_s (v : visit) : string =
  Printf.sprintf "%s:%s:%s" (hex_of_bytes v.v_path)
    (match v.v_info with None -> "n" | Some true -> "d" | Some false -> "f")
    (match v.v_err with None -> "-" | Some e -> err_s e)

let walk_s ((vs, a) : visit list * action) : string =
  Printf.sprintf "v=%s r=%s" (match vs with [] -> "-" | _ -> String.concat "," (List.map visit_s vs)) (action_s a)

let gerr_s = function GNil -> "-" | GBadPattern -> "BadPattern" | GOutOfFuel -> "OutOfFuel"
let glob_s ((m, e) : str list * glob_err) : string =
  Printf.sprintf "m=%s r=%s" (match m with [] -> "-" | _ -> String.concat "," (List.map hex_of_bytes m)) (gerr_s e)

let variants = [""; "#bp"; "#cow"]
let rel_variants = ["#bp"]

let run_walk variants toks =
  match toks with
  | [id; tr; root; tbl] ->
    let t = parse_tree tr and r = bytes_of_hex root and tb = parse_table tbl in
    let a = walk_s (run_afero_repo t r tb) and s = walk_s (run_std t r tb) in
    List.iter (fun v -> Printf.printf "M %s%s %s\n" id v a) variants;
    Printf.printf "M %s#std %s\n" id s;
    Printf.printf "S %s%s %s\n" id (List.hd variants) s
  | _ -> failwith "bad walk line"

let run_glob variants toks =
  match toks with
  | [id; tr; pat] ->
    let t = parse_tree tr and p = bytes_of_hex pat in
    let a = glob_s (afero_glob t p) and s = glob_s (std_glob t p) in
    List.iter (fun v -> Printf.printf "M %s%s %s\n" id v a) variants;
    Printf.printf "M %s#std %s\n" id s;
    if List.length p < 10000 then Printf.printf "S %s%s %s\n" id (List.hd variants) s
  | _ -> failwith "bad glob line"

let run_match toks =
  match toks with
  | [id; pat; name] ->
    Printf.printf "M %s %s\n" id
      (match match_seg (bytes_of_hex pat) (bytes_of_hex name) with
       | None -> "BadPattern" | Some b -> bool_s b)
  | _ -> failwith "bad match line"

let () =
  Registry.register_line "walk" (run_walk variants);
  Registry.register_line "rwalk" (run_walk rel_variants);
  Registry.register_line "glob" (run_glob variants);
  Registry.register_line "rglob" (run_glob rel_variants);
  Registry.register_line "match" run_match
