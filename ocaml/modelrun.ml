(* modelrun.ml — runs the extracted models on a cases file; prints one canonical result
   line per case/step on stdout.  usage: modelrun <mode> <cases file> *)
open Model
open Driver_common

(* C17 "contains" lines: ocaml/drv_c17.ml *)

(* "case <id> <stack>" ... item lines ... "end" *)
let run_case_block id stackdesc (lines : string list) =
  let k = Fsdriver.parse_stack stackdesc in
  let items = List.map (fun l -> Fsdriver.parse_item (tokens l)) lines in
  let out = run_case k items in
  List.iteri (fun i t -> Printf.printf "M %s#%d %s\n" id i (Fsdriver.canon_tres t)) out;
  if Sys.getenv_opt "VERIF_DIGEST" <> None then
    Printf.printf "D %s %s\n" id (Fsdriver.n_to_string (case_digest k items))

(* "fcase <id> <content hex> <handles: w|r|wc|rc,...>" ... op lines ("." "-" op) ... "end":
   one in-memory file with k handles; prints the Go-level model (M) and the byte-array spec (S) *)
let run_fcase id content hspec (lines : string list) =
  let spec = List.map (fun h -> (String.length h > 0 && h.[0] = 'r', String.length h > 1 && h.[1] = 'c'))
      (split_on ',' hspec) in
  let ops = List.map (fun l -> match Fsdriver.parse_item (tokens l) with
      | IOp (_, _, o) -> o | _ -> failwith "fcase: op expected") lines in
  let c = bytes_of_hex content in
  let (_, outs) = run_steps mf_step (mf_init c spec) ops in
  let (_, souts) = bf_run (bf_init c spec) ops in
  List.iteri (fun i (o, r) ->
      Printf.printf "M %s#%d %s\n" id i (Fsdriver.canon_res r);
      Printf.printf "M %s#%d/p %s\n" id i (Fsdriver.canon_pres (proj o r))) (List.combine ops outs);
  List.iteri (fun i p -> Printf.printf "S %s#%d/p %s\n" id i (Fsdriver.canon_pres p)) souts;
  if Sys.getenv_opt "VERIF_DIGEST" <> None then
    Printf.printf "D %s %s\n" id (Fsdriver.n_to_string (fcase_digest c spec ops))

let () =
  Registry.register_block "case" (fun hd body -> match hd with
      | [id; stackdesc] -> run_case_block id stackdesc body | _ -> failwith "bad case header");
  Registry.register_block "fcase" (fun hd body -> match hd with
      | [id; content; hspec] -> run_fcase id content hspec body | _ -> failwith "bad fcase header")

let () =
  let path = Sys.argv.(1) in
  let rec go lines =
    match lines with
    | [] -> ()
    | line :: rest ->
      (match tokens line with
       | [] -> go rest
       | kind :: hd when Hashtbl.mem Registry.block_kinds kind ->
         let rec take acc = function
           | "end" :: tl -> (List.rev acc, tl)
           | l :: tl -> take (l :: acc) tl
           | [] -> failwith "unterminated case" in
         let (body, tl) = take [] rest in
         (Hashtbl.find Registry.block_kinds kind) hd body; go tl
       | kind :: r when Hashtbl.mem Registry.line_kinds kind ->
         (Hashtbl.find Registry.line_kinds kind) r; go rest
       | t :: _ -> failwith ("unknown case kind " ^ t))
  in
  go (read_lines path)
