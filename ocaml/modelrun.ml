(* modelrun.ml — runs the extracted models on a cases file; prints one canonical result
   line per case/step on stdout.  usage: modelrun <mode> <cases file> *)
open Model
open Driver_common

(* C17: "contains <id> <content hex> <needle hex>,<needle hex>,..."  ->
        "<id> model=<bool> spec=<bool>" *)
let run_contains toks =
  match toks with
  | [id; content; needles] ->
    let c = bytes_of_hex content in
    let nd = List.map bytes_of_hex (split_on ',' needles) in
    Printf.printf "M %s %s\nS %s %s\n" id (bool_s (reader_contains_any c nd))
      id (bool_s (contains_spec c nd))
  | _ -> failwith "bad contains line"

let () =
  let path = Sys.argv.(1) in
  List.iter (fun line ->
    match tokens line with
    | [] -> ()
    | "contains" :: rest -> run_contains rest
    | t :: _ -> failwith ("unknown case kind " ^ t))
    (read_lines path)
