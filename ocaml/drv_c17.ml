(* drv_c17.ml — C17 FileContainsBytes / FileContainsAnyBytes.
   Case line (see harness/cmd/afcheck/c17.go):
     contains <id> <content hex> <needle hex>,<needle hex>,... [<chunking>]
   Without <chunking>: the reader fills every buffer (Model/Search.v reader_contains_any).
   With <chunking> = "-" (empty oracle) or "<c>[e],<c>[e],...": the k-th call of Read delivers at
   most <c> bytes (0: returns (0, nil)); "e": io.EOF comes together with the last bytes
   (Model/SearchChunked.v reader_contains_any_chunked_tr).
   Output: M <id> <bool>      (the model; "nofuel" if the chunked model ran out of fuel)
           M <id>#t reads=<number of Read calls> left=<bytes not read>    (chunked cases only)
           S <id> <bool>      (contains_spec = bytes.Contains on the whole content) *)
open Model
open Driver_common

let parse_chunking (s : string) : (nat * bool) list =
  if s = "-" then [] else
    List.map (fun t ->
        let n = String.length t in
        if n > 0 && t.[n - 1] = 'e' then (nat_of_int (int_of_string (String.sub t 0 (n - 1))), true)
        else (nat_of_int (int_of_string t), false))
      (split_on ',' s)

let run_contains toks =
  match toks with
  | [id; content; needles] ->
    let c = bytes_of_hex content in
    let nd = List.map bytes_of_hex (split_on ',' needles) in
    Printf.printf "M %s %s\nS %s %s\n" id (bool_s (reader_contains_any c nd))
      id (bool_s (contains_spec c nd))
  | [id; content; needles; chunking] ->
    let c = bytes_of_hex content in
    let nd = List.map bytes_of_hex (split_on ',' needles) in
    (match reader_contains_any_chunked_tr c (parse_chunking chunking) nd with
     | Some ((b, reads), left) ->
       Printf.printf "M %s %s\nM %s#t reads=%d left=%d\n" id (bool_s b) id (int_of_nat reads) (int_of_nat left)
     | None -> Printf.printf "M %s nofuel\n" id);
    Printf.printf "S %s %s\n" id (bool_s (contains_spec c nd))
  | _ -> failwith "bad contains line"

let () = Registry.register_line "contains" run_contains
