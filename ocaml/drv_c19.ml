(* drv_c19.ml — C19 (sftpfs over pkg/sftp over the in-memory request server).
   case line:  sftp <id> <item>;<item>;...      item = <slot|->,<Op>,<arg>,...
   payload arguments: hex, "-" (empty) or P<len>.<seed> (byte i = (seed + 31*i + i/256) mod 256).
   prints  M <id>#<k> <result>      M <id>#<k>/d <what an observer of the server sees>
           S <id>#<k>/d <the same, accounted from the reported results with pwrite/ptrunc>
           S <id>#<k> <result predicted by the flat byte-array spec>   (reads, seeks, stats) *)
open Model
open Driver_common

let payload (s : string) : n list =
  if String.length s > 0 && s.[0] = 'P' then begin
    match String.split_on_char '.' (String.sub s 1 (String.length s - 1)) with
    | [l; sd] ->
      let len = int_of_string l and seed = int_of_string sd in
      List.init len (fun i -> n_of_int ((seed + 31 * i + i / 256) land 255))
    | _ -> failwith "bad payload"
  end else bytes_of_hex s

let fnv (b : n list) : int =
  List.fold_left (fun h x -> ((h lxor (int_of_n x)) * 16777619) land 0xffffffff) 2166136261 b

let rec list_len_gt l n = match l with [] -> false | _ :: t -> if n = 0 then true else list_len_gt t (n - 1)

let bytes_s (b : n list) : string =
  if list_len_gt b 64 then Printf.sprintf "#%d:%08x" (List.length b) (fnv b) else hex_of_bytes b

let cls (e : err) : string =
  match e.ek with
  | KEOF -> "EOF" | KClosed -> "Closed" | KNotExist | KENOENT -> "NotExist"
  | KPermission | KEPERM -> "Perm" | KInvalid -> "Invalid" | _ -> "Err"
let eopt = function None -> "-" | Some e -> cls e

let fi_s (fi : finfo) : string =
  Printf.sprintf "%s|%s|%s" (hex_of_bytes fi.fi_name) (if fi.fi_dir then "d" else "f")
    (if fi.fi_dir then "-" else string_of_int (int_of_z fi.fi_size))
let list_s f l = match l with [] -> "-" | _ -> String.concat "," (List.map f l)

let res_s (r : res) : string =
  match r with
  | RPanic -> "panic" | RNoSlot -> "noslot" | ROk -> "ok"
  | RErr e -> "err:" ^ cls e
  | RHandle _ -> "handle"
  | RInfo fi -> "info:" ^ fi_s fi
  | RData (b, e) -> Printf.sprintf "data:%s:%s" (bytes_s b) (eopt e)
  | RCount (n, e) -> Printf.sprintf "count:%d:%s" (int_of_z n) (eopt e)
  | RPos (n, e) -> Printf.sprintf "pos:%d:%s" (int_of_z n) (eopt e)
  | RInfos (l, e) -> Printf.sprintf "infos:%s:%s" (list_s fi_s l) (eopt e)
  | RNames (l, e) -> Printf.sprintf "names:%s:%s" (list_s hex_of_bytes l) (eopt e)
  | RName s -> "name:" ^ hex_of_bytes s

let snap_s (l : (n list * n list option) list) : string =
  list_s (fun (p, c) -> hex_of_bytes p ^ "=" ^ (match c with None -> "d" | Some b -> bytes_s b)) l

let b = bytes_of_hex
let zi s = z_of_int (int_of_string s)
let ni s = nat_of_int (int_of_string s)

let parse_op (toks : string list) : op =
  match toks with
  | ["Create"; p] -> Create (b p)
  | ["Mkdir"; p; perm] -> Mkdir (b p, zi perm)
  | ["MkdirAll"; p; perm] -> MkdirAll (b p, zi perm)
  | ["Open"; p] -> Open (b p)
  | ["OpenFile"; p; fl; perm] -> OpenFile (b p, zi fl, zi perm)
  | ["Remove"; p] -> Remove (b p)
  | ["RemoveAll"; p] -> RemoveAll (b p)
  | ["Rename"; p; q] -> Rename (b p, b q)
  | ["Stat"; p] -> Stat (b p)
  | ["Chmod"; p; m] -> Chmod (b p, zi m)
  | ["Chown"; p; u; g] -> Chown (b p, zi u, zi g)
  | ["Chtimes"; p; t] -> Chtimes (b p, zi t)
  | ["HRead"; h; n] -> HRead (ni h, zi n)
  | ["HReadAt"; h; n; off] -> HReadAt (ni h, zi n, zi off)
  | ["HWrite"; h; d] -> HWrite (ni h, payload d)
  | ["HWriteAt"; h; d; off] -> HWriteAt (ni h, payload d, zi off)
  | ["HWriteString"; h; d] -> HWriteString (ni h, payload d)
  | ["HSeek"; h; off; w] -> HSeek (ni h, zi off, zi w)
  | ["HTruncate"; h; n] -> HTruncate (ni h, zi n)
  | ["HClose"; h] -> HClose (ni h)
  | ["HReaddir"; h; n] -> HReaddir (ni h, zi n)
  | ["HReaddirnames"; h; n] -> HReaddirnames (ni h, zi n)
  | ["HStat"; h] -> HStat (ni h)
  | ["HName"; h] -> HName (ni h)
  | ["HSync"; h] -> HSync (ni h)
  | _ -> failwith ("c19: bad op: " ^ String.concat "," toks)

let parse_item (s : string) =
  match String.split_on_char ',' s with
  | slot :: rest -> ((if slot = "-" then None else Some (ni slot)), parse_op rest)
  | [] -> failwith "c19: empty item"

let run_sftp toks =
  match toks with
  | [id; body] ->
    let items = List.map parse_item (List.filter (fun s -> s <> "") (String.split_on_char ';' body)) in
    let outs = sftp_run_obs sftp_init items in
    List.iteri (fun i (r, snap) ->
        Printf.printf "M %s#%d %s\n" id i (res_s r);
        Printf.printf "M %s#%d/d %s\n" id i (snap_s snap)) outs;
    let souts = sftp_run_spec sftp_init [] items in
    List.iteri (fun i (snap, pr) ->
        Printf.printf "S %s#%d/d %s\n" id i (snap_s snap);
        match pr with Some r -> Printf.printf "S %s#%d %s\n" id i (res_s r) | None -> ()) souts
  | _ -> failwith "bad sftp line"

let () = Registry.register_line "sftp" run_sftp
