(* Lib/Bytes.v — bytes, Go slice expressions as total list functions.
   Definitions only (used by models, extracted); lemmas live in Proofs/. *)
From Coq Require Export List ZArith NArith Bool Lia.
Export ListNotations.

Definition byte := N.
Definition bytes := list N.

Definition zlen {A} (l : list A) : Z := Z.of_nat (length l).

Definition zeros (n : nat) : bytes := repeat 0%N n.

Fixpoint beqb (a b : bytes) : bool :=
  match a, b with
  | [], [] => true
  | x :: a', y :: b' => N.eqb x y && beqb a' b'
  | _, _ => false
  end.

Fixpoint prefixb (p s : bytes) : bool :=
  match p, s with
  | [], _ => true
  | x :: p', y :: s' => N.eqb x y && prefixb p' s'
  | _ :: _, [] => false
  end.

(* bytes.Contains: is n an infix of s (the empty slice is an infix of everything) *)
Fixpoint infixb (n s : bytes) : bool :=
  prefixb n s || match s with [] => false | _ :: s' => infixb n s' end.

(* Go: copy(dst, src) — overwrite a prefix of dst, length of dst unchanged *)
Definition copy_into (dst src : bytes) : bytes :=
  firstn (length dst) src ++ skipn (length src) dst.

(* lexicographic order on byte strings (Go string <) *)
Fixpoint bltb (a b : bytes) : bool :=
  match a, b with
  | [], [] => false
  | [], _ :: _ => true
  | _ :: _, [] => false
  | x :: a', y :: b' => N.ltb x y || (N.eqb x y && bltb a' b')
  end.

Definition bleb (a b : bytes) : bool := negb (bltb b a).

Fixpoint suffixb_aux (fuel : nat) (p s : bytes) : bool :=
  beqb p s || match fuel, s with S f, _ :: s' => suffixb_aux f p s' | _, _ => false end.
Definition has_suffix (s p : bytes) : bool := suffixb_aux (length s) p s.
Definition has_prefix (s p : bytes) : bool := prefixb p s.
