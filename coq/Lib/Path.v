(* Lib/Path.v — functional definitions of the path/filepath (Unix) and strings functions
   afero uses.  These Go functions are MODELLED, not verified: the harness compares each
   with the real one (exhaustively on short strings, randomly on long ones). *)
From AF Require Import Lib.Bytes.

Definition str := bytes.
Definition SLASH : N := 47.
Definition DOT : N := 46.
Definition s_slash : str := [SLASH].
Definition s_dot : str := [DOT].
Definition s_dotdot : str := [DOT; DOT].

Definition is_empty (s : str) : bool := match s with [] => true | _ => false end.
Definition is_dot (s : str) : bool := beqb s s_dot.
Definition is_dotdot (s : str) : bool := beqb s s_dotdot.

(* strings.Split(s, "/") : always at least one piece *)
Fixpoint split_aux (s : str) (cur : str) : list str :=
  match s with
  | [] => [rev cur]
  | c :: s' => if N.eqb c SLASH then rev cur :: split_aux s' [] else split_aux s' (c :: cur)
  end.
Definition split_slash (s : str) : list str := split_aux s [].

Fixpoint join_slash (l : list str) : str :=
  match l with
  | [] => []
  | [x] => x
  | x :: r => x ++ SLASH :: join_slash r
  end.

(* resolve "", ".", ".." ; [stack] is reversed *)
Fixpoint norm_aux (rooted : bool) (segs : list str) (stack : list str) : list str :=
  match segs with
  | [] => rev stack
  | s :: r =>
    if is_empty s || is_dot s then norm_aux rooted r stack
    else if is_dotdot s then
      match stack with
      | top :: st' => if is_dotdot top then norm_aux rooted r (s :: stack) else norm_aux rooted r st'
      | [] => if rooted then norm_aux rooted r [] else norm_aux rooted r [s]
      end
    else norm_aux rooted r (s :: stack)
  end.

Definition is_rooted (s : str) : bool := match s with c :: _ => N.eqb c SLASH | [] => false end.

Definition clean_segs (s : str) : list str := norm_aux (is_rooted s) (split_slash s) [].

Definition render (rooted : bool) (segs : list str) : str :=
  if rooted then SLASH :: join_slash segs
  else match segs with [] => s_dot | _ => join_slash segs end.

(* filepath.Clean *)
Definition clean (s : str) : str := render (is_rooted s) (clean_segs s).

(* index of the last '/' : returns (dir part incl. the slash, file part) = filepath.Split *)
Fixpoint split_last_aux (s : str) : option (str * str) :=
  match s with
  | [] => None
  | c :: s' =>
    match split_last_aux s' with
    | Some (d, f) => Some (c :: d, f)
    | None => if N.eqb c SLASH then Some ([c], s') else None
    end
  end.
Definition path_split (s : str) : str * str :=
  match split_last_aux s with Some df => df | None => ([], s) end.

(* filepath.Dir = Clean(dir part of Split) *)
Definition path_dir (s : str) : str := clean (fst (path_split s)).

(* strip trailing slashes *)
Fixpoint strip_trailing_rev (r : str) : str :=
  match r with c :: r' => if N.eqb c SLASH then strip_trailing_rev r' else r | [] => [] end.
Definition strip_trailing (s : str) : str := rev (strip_trailing_rev (rev s)).

(* filepath.Base *)
Definition path_base (s : str) : str :=
  match s with
  | [] => s_dot
  | _ => let t := strip_trailing s in
         match t with
         | [] => s_slash
         | _ => snd (path_split t)
         end
  end.

(* filepath.Join : non-empty elements joined by "/" then Clean; all empty -> "" *)
Definition path_join (l : list str) : str :=
  match filter (fun e => negb (is_empty e)) l with
  | [] => []
  | l' => clean (join_slash l')
  end.
Definition join2 (a b : str) : str := path_join [a; b].

(* strings.HasPrefix / TrimPrefix *)
Definition trim_prefix (s p : str) : str := if prefixb p s then skipn (length p) s else s.

(* strings.Replace(s, old, new, 1) *)
Fixpoint replace1 (fuel : nat) (s old new : str) : str :=
  if prefixb old s then new ++ skipn (length old) s
  else match fuel, s with
       | S f, c :: s' => c :: replace1 f s' old new
       | _, _ => s
       end.
Definition str_replace1 (s old new : str) : str := replace1 (length s) s old new.

(* number of pieces of strings.Split(s,"/") *)
Definition depth (s : str) : nat := length (split_slash s).

(* memmap.go normalizePath *)
Definition normalize_path (s : str) : str :=
  let c := clean s in
  if is_dot c || is_dotdot c then s_slash else c.
