(* Lib/Ops.v — one operation language and one result language for every filesystem *)
From AF Require Import Lib.Bytes Lib.Path.

(* error identities the afero code branches on *)
Inductive errk :=
| KNotExist        (* os.ErrNotExist (= mem.ErrFileNotFound) *)
| KExist           (* os.ErrExist (= mem.ErrFileExists) *)
| KClosed          (* mem.ErrFileClosed *)
| KOutOfRange      (* mem.ErrOutOfRange *)
| KReadOnlyHandle  (* "file handle is read only" *)
| KNotADir         (* "not a dir" *)
| KNegative        (* negative offset / negative position *)
| KEOF | KUnexpectedEOF | KShortWrite
| KENOENT | KENOTDIR | KEPERM | KEIO | KEBADF | KEROFS | KEINVAL | KENOTEMPTY | KEISDIR
| KPermission      (* os.ErrPermission / fs.ErrPermission *)
| KInvalid         (* os.ErrInvalid / fs.ErrInvalid *)
| KCombined        (* fmt.Errorf(...) of two errors *)
| KOther.

(* an error value: identity + whether it is wrapped in *os.PathError / *os.LinkError *)
Record err := mkErr { ek : errk; ewrapped : bool }.
Definition E (k : errk) : err := mkErr k false.
Definition EW (k : errk) : err := mkErr k true.

Definition errk_eqb (a b : errk) : bool :=
  match a, b with
  | KNotExist, KNotExist | KExist, KExist | KClosed, KClosed | KOutOfRange, KOutOfRange
  | KReadOnlyHandle, KReadOnlyHandle | KNotADir, KNotADir | KNegative, KNegative | KEOF, KEOF
  | KUnexpectedEOF, KUnexpectedEOF | KShortWrite, KShortWrite | KENOENT, KENOENT
  | KENOTDIR, KENOTDIR | KEPERM, KEPERM | KEIO, KEIO | KEBADF, KEBADF | KEROFS, KEROFS
  | KEINVAL, KEINVAL | KENOTEMPTY, KENOTEMPTY | KEISDIR, KEISDIR | KPermission, KPermission
  | KInvalid, KInvalid | KCombined, KCombined | KOther, KOther => true
  | _, _ => false
  end.

(* os.IsNotExist / os.IsExist (underlying error of a PathError is looked at) *)
Definition is_not_exist (e : err) : bool :=
  match ek e with KNotExist | KENOENT => true | _ => false end.
Definition is_exist (e : err) : bool :=
  match ek e with KExist | KENOTEMPTY => true | _ => false end.

Record finfo := mkFi { fi_name : str; fi_dir : bool; fi_size : Z; fi_mode : Z; fi_mtime : Z }.

Inductive res :=
| RPanic
| RNoSlot                              (* the op named a handle slot that holds no handle *)
| ROk
| RErr (e : err)
| RHandle (h : nat)
| RInfo (fi : finfo)
| RData (b : bytes) (e : option err)   (* Read / ReadAt: bytes returned (count = length) *)
| RCount (n : Z) (e : option err)      (* Write* *)
| RPos (n : Z) (e : option err)        (* Seek *)
| RInfos (l : list finfo) (e : option err)
| RNames (l : list str) (e : option err)
| RName (s : str).

Inductive op :=
| Create (p : str)
| Mkdir (p : str) (perm : Z)
| MkdirAll (p : str) (perm : Z)
| Open (p : str)
| OpenFile (p : str) (flag perm : Z)
| Remove (p : str)
| RemoveAll (p : str)
| Rename (p q : str)
| Stat (p : str)
| Chmod (p : str) (m : Z)
| Chown (p : str) (u g : Z)
| Chtimes (p : str) (t : Z)
| HRead (h : nat) (n : Z)
| HReadAt (h : nat) (n off : Z)
| HWrite (h : nat) (b : bytes)
| HWriteAt (h : nat) (b : bytes) (off : Z)
| HWriteString (h : nat) (b : bytes)
| HSeek (h : nat) (off whence : Z)
| HTruncate (h : nat) (n : Z)
| HClose (h : nat)
| HReaddir (h : nat) (n : Z)
| HReaddirnames (h : nat) (n : Z)
| HStat (h : nat)
| HName (h : nat)
| HSync (h : nat).

Definition op_handle_of (o : op) : option nat :=
  match o with
  | HRead h _ | HReadAt h _ _ | HWrite h _ | HWriteAt h _ _ | HWriteString h _ | HSeek h _ _
  | HTruncate h _ | HClose h | HReaddir h _ | HReaddirnames h _ | HStat h | HName h | HSync h => Some h
  | _ => None
  end.

Definition op_set_handle (o : op) (h : nat) : op :=
  match o with
  | HRead _ n => HRead h n | HReadAt _ n off => HReadAt h n off | HWrite _ b => HWrite h b
  | HWriteAt _ b off => HWriteAt h b off | HWriteString _ b => HWriteString h b
  | HSeek _ off w => HSeek h off w | HTruncate _ n => HTruncate h n | HClose _ => HClose h
  | HReaddir _ n => HReaddir h n | HReaddirnames _ n => HReaddirnames h n | HStat _ => HStat h
  | HName _ => HName h | HSync _ => HSync h
  | _ => o
  end.

Definition res_is_err (r : res) : bool :=
  match r with
  | RErr _ | RPanic => true
  | RData _ (Some _) | RCount _ (Some _) | RPos _ (Some _) | RInfos _ (Some _) | RNames _ (Some _) => true
  | _ => false
  end.

(* generic list helpers used by the models *)
Fixpoint alist_get {A} (k : str) (l : list (str * A)) : option A :=
  match l with
  | [] => None
  | (k', v) :: r => if beqb k k' then Some v else alist_get k r
  end.
Fixpoint alist_del {A} (k : str) (l : list (str * A)) : list (str * A) :=
  match l with
  | [] => []
  | (k', v) :: r => if beqb k k' then alist_del k r else (k', v) :: alist_del k r
  end.
(* Go map assignment m[k] = v : replace in place or append *)
Fixpoint alist_set {A} (k : str) (v : A) (l : list (str * A)) : list (str * A) :=
  match l with
  | [] => [(k, v)]
  | (k', v') :: r => if beqb k k' then (k, v) :: r else (k', v') :: alist_set k v r
  end.

Fixpoint list_set {A} (i : nat) (v : A) (l : list A) : list A :=
  match l, i with
  | [], _ => []
  | _ :: r, O => v :: r
  | x :: r, S j => x :: list_set j v r
  end.

(* stable insertion sort by a key *)
Fixpoint insert_by {A} (lt : A -> A -> bool) (x : A) (l : list A) : list A :=
  match l with
  | [] => [x]
  | y :: r => if lt y x then y :: insert_by lt x r else x :: l
  end.
Definition sort_by {A} (lt : A -> A -> bool) (l : list A) : list A :=
  fold_right (insert_by lt) [] l.
