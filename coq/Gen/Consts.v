(* GENERATED from the current sources of /repo by `afcheck consts` — do not edit *)
From Coq Require Import ZArith.
Local Open Scope Z_scope.
(* util.go readerContainsAny: bufflen := largestSlice * F *)
Definition search_factor : Z := 4.
(* util.go readerContainsAny: halflen := bufflen / D *)
Definition search_half_div : Z := 2.
