(* GENERATED from the current sources of /repo by `afcheck consts` — do not edit *)
From Coq Require Import ZArith.
Local Open Scope Z_scope.
(* util.go readerContainsAny: bufflen := largestSlice * F *)
Definition search_factor : Z := 4.
(* util.go readerContainsAny: halflen := bufflen / D *)
Definition search_half_div : Z := 2.
(* path.go Walk: 1 iff a final filepath.SkipDir is converted into nil (as path/filepath.Walk does) *)
Definition walk_skipdir_to_nil : Z := 1.
(* sftpfs/sftp.go MkdirAll: 1 iff the fast path returns an error for an existing non-directory *)
Definition sftp_mkdirall_enotdir : Z := 1.
(* sftpfs/sftp.go OpenFile: 1 iff the returned File carries the client *)
Definition sftp_openfile_client : Z := 1.
(* os.O_RDONLY on the build platform *)
Definition o_rdonly : Z := 0.
(* os.O_WRONLY on the build platform *)
Definition o_wronly : Z := 1.
(* os.O_RDWR on the build platform *)
Definition o_rdwr : Z := 2.
(* os.O_APPEND on the build platform *)
Definition o_append : Z := 1024.
(* os.O_CREATE on the build platform *)
Definition o_create : Z := 64.
(* os.O_EXCL on the build platform *)
Definition o_excl : Z := 128.
(* os.O_SYNC on the build platform *)
Definition o_sync : Z := 1052672.
(* os.O_TRUNC on the build platform *)
Definition o_trunc : Z := 512.
(* os.ModeDir *)
Definition mode_dir : Z := 2147483648.
(* os.ModeTemporary *)
Definition mode_temporary : Z := 268435456.
(* memmap.go const chmodBits *)
Definition chmod_bits : Z := 13631999.
(* memmap.go OpenFile: read-only handle iff flag&MASK == 0 *)
Definition memfs_access_mask : Z := 3.
(* readonlyfs.go OpenFile: EPERM iff flag&MASK != 0 *)
Definition readonly_mask : Z := 1603.
(* mem/file.go FileInfo.Size of a directory *)
Definition dir_size : Z := 42.
(* regexpfs.go OpenFile: 1 iff the returned file is wrapped in a RegexpFile (filtered listings) *)
Definition regexp_openfile_wraps : Z := 1.
(* copyOnWriteFs.go OpenFile: write path iff flag&MASK != 0 *)
Definition cow_mask : Z := 1603.
(* cacheOnReadFs.go OpenFile: union handle over both layers iff flag&MASK != 0 *)
Definition cache_mask : Z := 1603.
(* unionFile.go ReadAt: 1 iff it seeks the base handle after reading the layer *)
Definition union_readat_seeks_base : Z := 0.
(* unionFile.go Readdir(c<=0): 1 iff the call advances the offset to the end of the listing *)
Definition union_readdir_all_advances : Z := 1.
