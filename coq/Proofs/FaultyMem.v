(* Proofs/FaultyMem.v — facts about single MemMapFs calls used by the C12 proofs
   (Proofs/FaultyProof.v): what Stat / MkdirAll / Create / Write / Read / Close / Remove /
   Chtimes do to the entry of one name, to its parent's registration and to one handle. *)
From AF Require Import Lib.Bytes Lib.Path Lib.Ops Gen.Consts Model.MemFile Model.MemFs Proofs.PathProof Proofs.MemBelow.
Local Open Scope Z_scope.

(* ---------------------------------------------------------------- lists *)
Lemma alist_get_set_same {A} k (v : A) l : alist_get k (alist_set k v l) = Some v.
Proof.
  induction l as [|[k' v'] l IH]; cbn; [now rewrite beqb_refl|].
  destruct (beqb k k') eqn:E; cbn; [now rewrite beqb_refl | now rewrite E].
Qed.

Lemma alist_get_set_other {A} k k' (v : A) l : k <> k' -> alist_get k (alist_set k' v l) = alist_get k l.
Proof.
  intros Hne. assert (Hf : beqb k k' = false) by now apply beqb_false_iff.
  induction l as [|[k2 v2] l IH]; cbn; [now rewrite Hf|].
  destruct (beqb k' k2) eqn:E; cbn.
  - apply beqb_true_iff in E; subst k2. now rewrite Hf.
  - destruct (beqb k k2); [reflexivity | exact IH].
Qed.

Lemma alist_get_del_same {A} k (l : list (str * A)) : alist_get k (alist_del k l) = None.
Proof.
  induction l as [|[k' v'] l IH]; cbn; [reflexivity|].
  destruct (beqb k k') eqn:E; [exact IH | cbn; now rewrite E].
Qed.

Lemma alist_get_del_other {A} k k' (l : list (str * A)) : k <> k' -> alist_get k (alist_del k' l) = alist_get k l.
Proof.
  intros Hne. induction l as [|[k2 v2] l IH]; cbn; [reflexivity|].
  destruct (beqb k' k2) eqn:E; cbn.
  - apply beqb_true_iff in E; subst k2. apply beqb_false_iff in Hne. now rewrite Hne.
  - destruct (beqb k k2); [reflexivity | exact IH].
Qed.

Lemma nth_list_set_eq {A} (l : list A) i v : (i < length l)%nat -> nth_error (list_set i v l) i = Some v.
Proof.
  revert i; induction l as [|x l IH]; intros [|i] Hi; cbn in *; try lia; [reflexivity|].
  apply IH; lia.
Qed.

Lemma nth_list_set_neq {A} (l : list A) i j v : i <> j -> nth_error (list_set i v l) j = nth_error l j.
Proof.
  revert i j; induction l as [|x l IH]; intros [|i] [|j] Hne; cbn; try reflexivity; try congruence.
  apply IH; congruence.
Qed.

Lemma list_set_length_eq {A} (l : list A) i a : length (list_set i a l) = length l.
Proof. revert i; induction l as [|x l IH]; intros [|i]; cbn; auto. Qed.

Lemma nth_error_lt {A} (l : list A) i x : nth_error l i = Some x -> (i < length l)%nat.
Proof. intros H. apply nth_error_Some. congruence. Qed.

Lemma nth_app_new {A} (l : list A) x : nth_error (l ++ [x]) (length l) = Some x.
Proof. rewrite nth_error_app2 by lia. now rewrite Nat.sub_diag. Qed.

Lemma nth_app_old {A} (l : list A) x i y : nth_error l i = Some y -> nth_error (l ++ [x]) i = Some y.
Proof. intros H. rewrite nth_error_app1; [exact H | now apply nth_error_lt in H]. Qed.

Lemma firstn_plus_skipn {A} (l : list A) a k : firstn (a + k) l = firstn a l ++ firstn k (skipn a l).
Proof.
  revert l; induction a as [|a IH]; intros l; cbn; [reflexivity|].
  destruct l as [|x l]; cbn; [now rewrite firstn_nil | now rewrite IH].
Qed.

Lemma zlen_app {A} (a b : list A) : zlen (a ++ b) = zlen a + zlen b.
Proof. unfold zlen. rewrite app_length. lia. Qed.

Lemma zlen_ge0 {A} (l : list A) : 0 <= zlen l.
Proof. unfold zlen. lia. Qed.

(* ---------------------------------------------------------------- state plumbing *)
Definition bump (s : mst) : mst := mkM (mdata s) (mheap s) (mhandles s) (mclock s + 1).

Lemma m_step_bump s o : m_step s o = (bump (fst (m_step_raw s o)), snd (m_step_raw s o)).
Proof. unfold m_step, bump. destruct (m_step_raw s o). reflexivity. Qed.

Lemma get_upd_same s r f n : get_node s r = Some n -> get_node (upd_node s r f) r = Some (f n).
Proof.
  intros H. unfold upd_node. rewrite H. unfold get_node, set_node in *. cbn [mheap].
  apply nth_list_set_eq. now apply nth_error_lt in H.
Qed.

Lemma get_upd_other s r r' f : r <> r' -> get_node (upd_node s r f) r' = get_node s r'.
Proof.
  intros H. unfold upd_node. destruct (get_node s r); [|reflexivity].
  unfold get_node, set_node. cbn [mheap]. now apply nth_list_set_neq.
Qed.

Lemma get_upd_cases s r f r' n' : get_node (upd_node s r f) r' = Some n' ->
  (r' <> r /\ get_node s r' = Some n') \/ (r' = r /\ exists n, get_node s r = Some n /\ n' = f n).
Proof.
  intros H. destruct (Nat.eq_dec r' r) as [->|Hne].
  - right. split; [reflexivity|]. destruct (get_node s r) as [n|] eqn:E.
    + rewrite (get_upd_same _ _ _ _ E) in H. inversion H. now exists n.
    + unfold upd_node in H. rewrite E in H. congruence.
  - left. split; [exact Hne|]. now rewrite get_upd_other in H by congruence.
Qed.

Lemma lookup_upd s r f k : lookup (upd_node s r f) k = lookup s k.
Proof. unfold upd_node. destruct (get_node s r); reflexivity. Qed.

Lemma mdata_upd s r f : mdata (upd_node s r f) = mdata s.
Proof. unfold upd_node. destruct (get_node s r); reflexivity. Qed.

Lemma handles_upd s r f : mhandles (upd_node s r f) = mhandles s.
Proof. unfold upd_node. destruct (get_node s r); reflexivity. Qed.

Lemma clock_upd s r f : mclock (upd_node s r f) = mclock s.
Proof. unfold upd_node. destruct (get_node s r); reflexivity. Qed.

Lemma heaplen_upd s r f : length (mheap (upd_node s r f)) = length (mheap s).
Proof.
  unfold upd_node. destruct (get_node s r); [|reflexivity]. unfold set_node. cbn [mheap].
  clear. revert r. induction (mheap s) as [|x l IH]; intros [|r]; cbn; auto.
Qed.

Lemma node_name_upd_other s r r' f : r <> r' -> node_name (upd_node s r f) r' = node_name s r'.
Proof. intros H. unfold node_name. now rewrite get_upd_other. Qed.

(* ---------------------------------------------------------------- Stat *)
Lemma stat_state s p : fst (m_step s (Stat p)) = bump s.
Proof.
  rewrite m_step_bump. cbn [fst m_step_raw]. unfold m_stat.
  destruct (lookup s (normalize_path p)) as [f|]; [|reflexivity].
  destruct (get_node s f); reflexivity.
Qed.

Lemma stat_res s p :
  match snd (m_step s (Stat p)) with
  | RInfo _ => lookup s (normalize_path p) <> None
  | RErr e => e = EW KNotExist /\ lookup s (normalize_path p) = None
  | RPanic => True
  | _ => False
  end.
Proof.
  rewrite m_step_bump. cbn [snd m_step_raw]. unfold m_stat.
  destruct (lookup s (normalize_path p)) as [f|]; [|cbn; now split].
  destruct (get_node s f); cbn; [congruence | exact I].
Qed.

Lemma stat_found s p f n : lookup s (normalize_path p) = Some f -> get_node s f = Some n ->
  m_step s (Stat p) = (bump s, RInfo (finfo_of n)).
Proof. intros H1 H2. rewrite m_step_bump. cbn [fst snd m_step_raw]. unfold m_stat. now rewrite H1, H2. Qed.

Lemma stat_missing s p : lookup s (normalize_path p) = None ->
  m_step s (Stat p) = (bump s, RErr (EW KNotExist)).
Proof. intros H1. rewrite m_step_bump. cbn [fst snd m_step_raw]. unfold m_stat. now rewrite H1. Qed.

(* ---------------------------------------------------------------- registration with the parent *)
(* the key under which the parent of a node called x is looked up *)
Definition pkey (x : str) : str := normalize_path (path_dir (clean x)).

Fixpoint anc_keys (fuel : nat) (x : str) : list str :=
  match fuel with O => [] | S fu => pkey x :: anc_keys fu (pkey x) end.

(* what registering may change: keys are only added, nodes only gain a child index *)
Record grows (s s' : mst) : Prop := {
  g_keep : forall k v, lookup s k = Some v -> lookup s' k = Some v;
  g_node : forall r n, get_node s r = Some n -> exists n', get_node s' r = Some n' /\ nname n' = nname n /\
             (nhasdir n = true -> nhasdir n' = true /\ ndir n' = ndir n);
  g_handles : mhandles s' = mhandles s;
  g_clock : mclock s' = mclock s;
  g_heap : (length (mheap s) <= length (mheap s'))%nat }.

Lemma grows_refl s : grows s s.
Proof. split; auto. intros r n H. exists n. auto. Qed.

Lemma grows_trans a b c : grows a b -> grows b c -> grows a c.
Proof.
  intros [k1 n1 h1 c1 l1] [k2 n2 h2 c2 l2]. split; try congruence; try lia; auto.
  intros r n H. destruct (n1 r n H) as (n' & G1 & N1 & K1).
  destruct (n2 r n' G1) as (n'' & G2 & N2 & K2).
  exists n''. split; [exact G2|]. split; [congruence|].
  intros Hd. destruct (K1 Hd) as [A1 B1]. destruct (K2 A1). split; congruence.
Qed.

Lemma grows_add_kid s p f : grows s (add_kid s p f).
Proof.
  unfold add_kid. split.
  - intros k v H. now rewrite lookup_upd.
  - intros r n H. destruct (Nat.eq_dec p r) as [->|Hne].
    + rewrite (get_upd_same _ _ _ _ H). eexists. split; [reflexivity|].
      unfold init_dir. destruct (nhasdir n) eqn:Hd; cbn; repeat split; auto; try discriminate.
    + rewrite get_upd_other by exact Hne. exists n. auto.
  - apply handles_upd.
  - apply clock_upd.
  - rewrite heaplen_upd. lia.
Qed.

(* changing the mode of a node *)
Lemma grows_with_mode s r m : grows s (upd_node s r (with_mode m)).
Proof.
  split.
  - intros k v H. now rewrite lookup_upd.
  - intros r' n H. destruct (Nat.eq_dec r r') as [->|Hne].
    + rewrite (get_upd_same _ _ _ _ H). eexists. split; [reflexivity|]. cbn. auto.
    + rewrite get_upd_other by exact Hne. exists n. auto.
  - apply handles_upd.
  - apply clock_upd.
  - rewrite heaplen_upd. lia.
Qed.

Lemma lookup_alloc s n k : lookup (fst (alloc_node s n)) k = lookup s k.
Proof. reflexivity. Qed.

Lemma get_alloc_old s n r x : get_node s r = Some x -> get_node (fst (alloc_node s n)) r = Some x.
Proof. unfold get_node, alloc_node. cbn [fst mheap]. apply nth_app_old. Qed.

Lemma get_alloc_new s n : get_node (fst (alloc_node s n)) (snd (alloc_node s n)) = Some n.
Proof. unfold get_node, alloc_node. cbn [fst snd mheap]. apply nth_app_new. Qed.

(* allocating a node and binding a FRESH key to it *)
Lemma grows_alloc_bind s n k : lookup s k = None ->
  grows s (set_data (fst (alloc_node s n)) (alist_set k (snd (alloc_node s n)) (mdata (fst (alloc_node s n))))).
Proof.
  intros Hk. split.
  - intros k' v H. unfold lookup, set_data. cbn [mdata fst alloc_node].
    rewrite alist_get_set_other; [exact H|]. intros ->. unfold lookup in *. congruence.
  - intros r x H. exists x. repeat split; auto.
    unfold get_node, set_data, alloc_node. cbn [fst mheap]. now apply nth_app_old.
  - reflexivity.
  - reflexivity.
  - unfold set_data, alloc_node. cbn [fst mheap]. rewrite app_length. lia.
Qed.

(* keys present after registering: those present before, or ancestors' keys *)
Lemma register_spec fuel : forall s f perm,
  grows s (register fuel s f perm) /\
  (forall k, lookup (register fuel s f perm) k <> None -> lookup s k <> None \/ In k (anc_keys fuel (node_name s f))).
Proof.
  induction fuel as [|fu IH]; intros s f perm; cbn [register].
  - destruct (find_parent s f) as [p|].
    + split; [apply grows_add_kid|]. intros k. unfold add_kid. rewrite lookup_upd. now left.
    + split; [apply grows_refl | now left].
  - destruct (find_parent s f) as [p|].
    + split; [apply grows_add_kid|]. intros k. unfold add_kid. rewrite lookup_upd. now left.
    + set (pn := normalize_path (path_dir (clean (node_name s f)))).
      assert (Hpk : pkey (node_name s f) = pn) by reflexivity.
      destruct (lookup s pn) as [x|] eqn:Hl.
      * destruct (get_node s x) as [nx|]; [|split; [apply grows_refl | now left]].
        destruct (ndir nx); [|split; [apply grows_refl | now left]].
        destruct (lockfree_open s (path_dir (clean (node_name s f)))) as [p|].
        -- split; [apply grows_add_kid|]. intros k. unfold add_kid. rewrite lookup_upd. now left.
        -- split; [apply grows_refl | now left].
      * set (nd := with_mode (Z.lor mode_dir perm) (new_dir pn (mclock s))).
        pose proof (grows_alloc_bind s nd pn Hl) as G0.
        set (s2 := set_data (fst (alloc_node s nd)) (alist_set pn (snd (alloc_node s nd)) (mdata (fst (alloc_node s nd))))) in *.
        match goal with |- context [match ?X with Some s3 => _ | None => _ end] =>
          change X with (Some (register fu s2 (snd (alloc_node s nd)) perm)) end.
        cbv iota.
        destruct (IH s2 (snd (alloc_node s nd)) perm) as [G1 K1].
        set (s3 := register fu s2 (snd (alloc_node s nd)) perm) in *.
        assert (Hnm : node_name s2 (snd (alloc_node s nd)) = pn).
        { unfold node_name, s2. change (get_node (set_data ?a ?b) ?r) with (get_node a r).
          rewrite get_alloc_new. reflexivity. }
        assert (K3 : forall k, lookup s3 k <> None -> lookup s k <> None \/ In k (anc_keys (S fu) (node_name s f))).
        { intros k Hk. destruct (K1 k Hk) as [H2|H2].
          - unfold s2, lookup, set_data in H2. cbn [mdata fst alloc_node] in H2.
            destruct (list_eq_dec N.eq_dec k pn) as [->|Hne].
            + right. cbn [anc_keys]. left. exact Hpk.
            + rewrite alist_get_set_other in H2 by exact Hne. now left.
          - right. cbn [anc_keys]. right. rewrite Hpk. rewrite Hnm in H2. exact H2. }
        destruct (lockfree_open s3 (path_dir (clean (node_name s f)))) as [p|].
        -- split.
           ++ eapply grows_trans; [exact G0|]. eapply grows_trans; [exact G1|]. apply grows_add_kid.
           ++ intros k. unfold add_kid. rewrite lookup_upd. apply K3.
        -- split; [eapply grows_trans; [exact G0 | exact G1] | exact K3].
Qed.

(* ---------------------------------------------------------------- MkdirAll *)
Lemma mkdirall_existing s p perm f : lookup s (normalize_path p) = Some f ->
  m_step s (MkdirAll p perm) = (bump s, ROk).
Proof.
  intros H. rewrite m_step_bump. cbn [m_step_raw]. unfold m_mkdirall, m_mkdir. rewrite H. reflexivity.
Qed.

Lemma mkdirall_fresh s p perm : lookup s (normalize_path p) = None -> below_file s (normalize_path p) = false ->
  exists s', m_step s (MkdirAll p perm) = (bump s', ROk) /\ grows s s' /\
    (exists item nd, lookup s' (normalize_path p) = Some item /\ get_node s' item = Some nd /\
                     ndir nd = true /\ nhasdir nd = true) /\
    (forall k, lookup s' k <> None ->
       lookup s k <> None \/ In k (normalize_path p :: anc_keys (S (length (normalize_path p))) (normalize_path p))).
Proof.
  intros Hl Hbf. set (name := normalize_path p) in *. set (perm' := Z.land perm chmod_bits).
  set (nd := with_mode (Z.lor mode_dir perm') (new_dir name (mclock s))).
  set (item := snd (alloc_node s nd)).
  set (s2 := set_data (fst (alloc_node s nd)) (alist_set name item (mdata (fst (alloc_node s nd))))).
  set (s3 := reg s2 item perm').
  assert (Hmk : m_mkdir s p perm = set_file_mode s3 name (Z.lor perm' mode_dir)).
  { unfold m_mkdir. fold name. rewrite Hl, Hbf. reflexivity. }
  assert (Hnm : node_name s2 item = name).
  { unfold node_name, s2. change (get_node (set_data ?a ?b) ?r) with (get_node a r).
    unfold item. rewrite get_alloc_new. reflexivity. }
  pose proof (grows_alloc_bind s nd name Hl) as G0. fold item in G0. fold s2 in G0.
  destruct (register_spec (S (length (node_name s2 item))) s2 item perm') as [G1 K1].
  fold (reg s2 item perm') in G1, K1. fold s3 in G1, K1.
  assert (Hl2 : lookup s2 name = Some item).
  { unfold lookup, s2, set_data. cbn [mdata]. apply alist_get_set_same. }
  assert (Hl3 : lookup s3 name = Some item) by (apply (g_keep _ _ G1), Hl2).
  assert (Hg2 : get_node s2 item = Some nd).
  { unfold s2. change (get_node (set_data ?a ?b) ?r) with (get_node a r). apply get_alloc_new. }
  destruct (g_node _ _ G1 item nd Hg2) as (n3 & Hg3 & _ & Hd3). destruct (Hd3 eq_refl) as [Hd3a Hd3b].
  exists (upd_node s3 item (with_mode (Z.lor perm' mode_dir))).
  split; [|split; [|split]].
  - rewrite m_step_bump. cbn [m_step_raw]. unfold m_mkdirall. rewrite Hmk. unfold set_file_mode.
    assert (Hnn : normalize_path name = name) by apply normalize_idempotent.
    rewrite Hnn, Hl3. reflexivity.
  - eapply grows_trans; [exact G0|]. eapply grows_trans; [exact G1|]. apply grows_with_mode.
  - exists item, (with_mode (Z.lor perm' mode_dir) n3). rewrite lookup_upd. split; [exact Hl3|].
    split; [now apply get_upd_same|]. cbn. split; [exact Hd3b | exact Hd3a].
  - intros k. rewrite lookup_upd. intros Hk. destruct (K1 k Hk) as [H2|H2].
    + destruct (list_eq_dec N.eq_dec k name) as [->|Hne]; [right; now left|].
      left. unfold lookup, s2, set_data in H2. cbn [mdata fst alloc_node] in H2.
      now rewrite alist_get_set_other in H2 by exact Hne.
    + right. right. rewrite Hnm in H2. exact H2.
Qed.

(* ---------------------------------------------------------------- what the copy needs of the layer *)
Definition par_ok (s : mst) (name : str) : Prop :=
  exists p pn, lookup s (normalize_path (path_dir name)) = Some p /\ get_node s p = Some pn /\
               ndir pn = true /\ nhasdir pn = true.

Definition file_at (s : mst) (name : str) (dat : bytes) : Prop :=
  exists g gn, lookup s name = Some g /\ get_node s g = Some gn /\ ndir gn = false /\ nname gn = name /\ ndata gn = dat.

(* a copy in progress: the entry, its bytes so far, the write handle positioned at their end *)
Definition copying (s : mst) (name : str) (lh : nat) (dat : bytes) : Prop :=
  exists g gn h, lookup s name = Some g /\ get_node s g = Some gn /\ ndir gn = false /\ nname gn = name /\
    ndata gn = dat /\ nth_error (mhandles s) lh = Some h /\ href h = g /\ hat h = zlen dat /\
    hclosed h = false /\ hro h = false /\ par_ok s name.

(* states that differ in clock, handles, mtimes, modes: same path map, same kinds/bytes/names *)
Definition cosmetic (s s' : mst) : Prop :=
  mdata s' = mdata s /\
  forall r n, get_node s r = Some n -> exists n', get_node s' r = Some n' /\ ndir n' = ndir n /\
    nhasdir n' = nhasdir n /\ ndata n' = ndata n /\ nname n' = nname n.

Lemma cosmetic_refl s : cosmetic s s.
Proof. split; [reflexivity|]. intros r n H. now exists n. Qed.

Lemma cosmetic_trans a b c : cosmetic a b -> cosmetic b c -> cosmetic a c.
Proof.
  intros [D1 N1] [D2 N2]. split; [congruence|]. intros r n H.
  destruct (N1 r n H) as (n1 & G1 & A1 & B1 & C1 & E1).
  destruct (N2 r n1 G1) as (n2 & G2 & A2 & B2 & C2 & E2).
  exists n2. repeat split; congruence.
Qed.

Lemma cosmetic_bump s : cosmetic s (bump s).
Proof. split; [reflexivity|]. intros r n H. exists n. split; [exact H | auto]. Qed.

Lemma cosmetic_upd s r f :
  (forall n, ndir (f n) = ndir n /\ nhasdir (f n) = nhasdir n /\ ndata (f n) = ndata n /\ nname (f n) = nname n) ->
  cosmetic s (upd_node s r f).
Proof.
  intros Hf. split; [apply mdata_upd|]. intros r' n H. destruct (Nat.eq_dec r r') as [->|Hne].
  - rewrite (get_upd_same _ _ _ _ H). exists (f n). split; [reflexivity | apply Hf].
  - rewrite get_upd_other by exact Hne. now exists n.
Qed.

Lemma cosmetic_lookup s s' k : cosmetic s s' -> lookup s' k = lookup s k.
Proof. intros [D _]. unfold lookup. now rewrite D. Qed.

Lemma cosmetic_par_ok s s' name : cosmetic s s' -> par_ok s name -> par_ok s' name.
Proof.
  intros C (p & pn & L & G & A & B). destruct (proj2 C p pn G) as (n' & G' & A' & B' & _).
  exists p, n'. rewrite (cosmetic_lookup _ _ _ C). repeat split; congruence.
Qed.

Lemma cosmetic_file_at s s' name dat : cosmetic s s' -> file_at s name dat -> file_at s' name dat.
Proof.
  intros C (g & gn & L & G & A & B & D). destruct (proj2 C g gn G) as (n' & G' & A' & B' & D' & E').
  exists g, n'. rewrite (cosmetic_lookup _ _ _ C). repeat split; congruence.
Qed.

Lemma copying_file_at s name lh dat : copying s name lh dat -> file_at s name dat /\ par_ok s name.
Proof. intros (g & gn & h & L & G & A & B & D & _ & _ & _ & _ & _ & P). split; [now exists g, gn | exact P]. Qed.

Lemma par_ok_upd s name r f : par_ok s name ->
  (forall n, ndir (f n) = ndir n /\ nhasdir (f n) = nhasdir n) -> par_ok (upd_node s r f) name.
Proof.
  intros (p & pn & L & G & A & B) Hf. exists p. destruct (Nat.eq_dec r p) as [->|Hne].
  - exists (f pn). rewrite lookup_upd, (get_upd_same _ _ _ _ G). destruct (Hf pn). repeat split; congruence.
  - exists pn. rewrite lookup_upd, get_upd_other by exact Hne. now repeat split.
Qed.

(* ---------------------------------------------------------------- Create *)
Lemma create_spec s name : normalize_path name = name -> par_ok s name ->
  (lookup s name = None \/ exists dat, file_at s name dat) ->
  exists s', m_step s (Create name) = (bump s', RHandle (length (mhandles s))) /\
             copying s' name (length (mhandles s)) [].
Proof.
  intros Hn (p & pn & Lp & Gp & Ap & Bp) Hcase. rewrite m_step_bump. cbn [m_step_raw]. unfold m_create. rewrite Hn.
  destruct Hcase as [Hnone | (dat & g & gn & L & G & A & B & D)].
  - rewrite Hnone, (below_file_parent_dir s name p pn Lp Gp Ap).
    set (nf := new_file name (mclock s)). set (f := snd (alloc_node s nf)).
    set (s2 := set_data (fst (alloc_node s nf)) (alist_set name f (mdata (fst (alloc_node s nf))))).
    assert (Hne : normalize_path (path_dir name) <> name) by (intros E; rewrite E in Lp; congruence).
    assert (Hnm : node_name s2 f = name).
    { unfold node_name, s2. change (get_node (set_data ?a ?b) ?r) with (get_node a r).
      unfold f. rewrite get_alloc_new. reflexivity. }
    assert (Hfp : find_parent s2 f = Some p).
    { unfold find_parent, lockfree_open. rewrite Hnm. change (clean (fst (path_split name))) with (path_dir name).
      unfold lookup, s2, set_data. cbn [mdata fst alloc_node]. rewrite alist_get_set_other by exact Hne. exact Lp. }
    assert (Hreg : reg s2 f 0 = add_kid s2 p f).
    { unfold reg. cbn [register]. now rewrite Hfp. }
    assert (Hcn : m_create_node s name = (add_kid s2 p f, f)).
    { unfold m_create_node. fold nf. rewrite <- Hreg. reflexivity. }
    rewrite Hcn.
    assert (Hpf : p <> f).
    { unfold f, alloc_node. cbn [snd]. apply nth_error_lt in Gp. lia. }
    assert (Hh : mhandles (add_kid s2 p f) = mhandles s) by (unfold add_kid; now rewrite handles_upd).
    unfold alloc_handle. cbn [fst snd]. rewrite Hh.
    eexists. split; [reflexivity|].
    unfold add_kid. exists f, nf, (mkH f 0 0 false false).
    split. { unfold alloc_handle. cbn [fst]. change (lookup (mkM ?d ?h ?hs ?c) ?k) with (alist_get k d).
             rewrite mdata_upd. unfold s2, set_data. cbn [mdata]. apply alist_get_set_same. }
    split. { unfold alloc_handle. cbn [fst]. change (get_node (mkM ?d ?h ?hs ?c) ?r) with (nth_error h r).
             change (nth_error (mheap ?x) ?r) with (get_node x r). rewrite get_upd_other by exact Hpf.
             unfold s2. change (get_node (set_data ?a ?b) ?r) with (get_node a r). apply get_alloc_new. }
    split; [reflexivity|]. split; [reflexivity|]. split; [reflexivity|].
    split. { cbn [mhandles]. apply nth_app_new. }
    split; [reflexivity|]. split; [reflexivity|]. split; [reflexivity|]. split; [reflexivity|].
    exists p. eexists. unfold alloc_handle. cbn [fst].
    change (lookup (mkM ?d ?h ?hs ?c) ?k) with (alist_get k d).
    change (get_node (mkM ?d ?h ?hs ?c) ?r) with (nth_error h r).
    change (nth_error (mheap ?x) ?r) with (get_node x r). rewrite mdata_upd.
    split. { unfold s2, set_data. cbn [mdata fst alloc_node]. rewrite alist_get_set_other by exact Hne. exact Lp. }
    split. { apply get_upd_same. unfold s2. change (get_node (set_data ?a ?b) ?r) with (get_node a r).
             apply get_alloc_old. exact Gp. }
    unfold init_dir. rewrite Bp. cbn. split; [exact Ap | exact Bp].
  - rewrite L, G, A.
    assert (Hpg : p <> g) by (intros ->; congruence).
    unfold alloc_handle. cbn [fst snd]. rewrite handles_upd.
    eexists. split; [reflexivity|].
    exists g, (with_mtime (mclock s) (with_data [] gn)), (mkH g 0 0 false false).
    unfold alloc_handle. cbn [fst].
    change (lookup (mkM ?d ?h ?hs ?c) ?k) with (alist_get k d).
    change (get_node (mkM ?d ?h ?hs ?c) ?r) with (nth_error h r).
    change (nth_error (mheap ?x) ?r) with (get_node x r). rewrite mdata_upd.
    split; [exact L|]. split; [exact (get_upd_same s g _ gn G)|]. split; [exact A|]. split; [exact B|].
    split; [reflexivity|]. split. { cbn [mhandles]. apply nth_app_new. }
    split; [reflexivity|]. split; [reflexivity|]. split; [reflexivity|]. split; [reflexivity|].
    exists p, pn.
    change (lookup (mkM ?d ?h ?hs ?c) ?k) with (alist_get k d).
    change (get_node (mkM ?d ?h ?hs ?c) ?r) with (nth_error h r).
    change (nth_error (mheap ?x) ?r) with (get_node x r). try rewrite mdata_upd.
    split; [exact Lp|]. split; [now rewrite get_upd_other by congruence|]. now split.
Qed.

(* ---------------------------------------------------------------- Write on the copy's handle *)
Lemma go_write_append dat b : b <> [] -> go_write dat b (zlen dat) = dat ++ b.
Proof.
  intros Hb. unfold go_write. rewrite Z.sub_diag. cbn [Z.ltb Z.compare].
  assert (Hlt : (zlen b + zlen dat <? zlen dat) = false).
  { apply Z.ltb_ge. pose proof (zlen_ge0 b). lia. }
  rewrite Hlt, app_nil_r. unfold zlen. rewrite Nat2Z.id, firstn_all. reflexivity.
Qed.

Lemma get_set_handle s i h r : get_node (set_handle s i h) r = get_node s r.
Proof. reflexivity. Qed.
Lemma lookup_set_handle s i h k : lookup (set_handle s i h) k = lookup s k.
Proof. reflexivity. Qed.

Lemma par_ok_set_handle s i h name : par_ok s name -> par_ok (set_handle s i h) name.
Proof. intros H. exact H. Qed.

Lemma write_spec s name lh dat b : copying s name lh dat ->
  exists s', m_step s (HWrite lh b) = (bump s', RCount (zlen b) None) /\ copying s' name lh (dat ++ b).
Proof.
  intros (g & gn & h & L & G & A & B & D & Hh & Hr & Ha & Hc & Ho & P).
  rewrite m_step_bump. cbn [m_step_raw]. unfold m_hop. rewrite Hh, Hr, G.
  unfold f_write. rewrite Hc, Ho, D.
  destruct b as [|x b].
  - cbn [zlen length Z.of_nat Z.eqb]. cbn [fst snd put_data]. eexists. split; [reflexivity|].
    rewrite app_nil_r. exists g, gn, h. repeat split; auto.
    unfold set_handle. cbn [mhandles]. apply nth_list_set_eq. now apply nth_error_lt in Hh.
  - assert (Hz : (zlen (x :: b) =? 0) = false).
    { apply Z.eqb_neq. unfold zlen. cbn [length]. lia. }
    rewrite Hz. assert (Hn : (hat h <? 0) = false) by (rewrite Ha; apply Z.ltb_ge, zlen_ge0).
    rewrite Hn. cbn [fst snd put_data]. rewrite Ha, go_write_append by discriminate.
    eexists. split; [reflexivity|].
    set (s1 := set_handle s lh (set_at h (zlen dat + zlen (x :: b)))).
    exists g, (with_mtime (mclock s1) (with_data (dat ++ x :: b) gn)), (set_at h (zlen dat + zlen (x :: b))).
    rewrite lookup_upd. split; [exact L|].
    split; [exact (get_upd_same s1 g _ gn G)|].
    split; [exact A|]. split; [exact B|]. split; [reflexivity|].
    split. { rewrite handles_upd. unfold s1, set_handle. cbn [mhandles]. apply nth_list_set_eq. now apply nth_error_lt in Hh. }
    split; [exact Hr|]. split; [cbn [hat set_at]; now rewrite zlen_app|].
    split; [exact Hc|]. split; [exact Ho|].
    apply par_ok_upd; [exact P|]. intros n. now split.
Qed.

(* ---------------------------------------------------------------- Read / Stat on the source handle *)
Definition reading (s : mst) (fb bh : nat) (nb : node) (a : nat) : Prop :=
  exists h, nth_error (mhandles s) bh = Some h /\ href h = fb /\ hat h = Z.of_nat a /\ hclosed h = false /\
            get_node s fb = Some nb /\ (a <= length (ndata nb))%nat.

Lemma slice_firstn_skipn d a k : 0 <= k ->
  slice d (Z.of_nat a) (Z.of_nat a + k) = firstn (Z.to_nat k) (skipn a d).
Proof. intros Hk. unfold slice. rewrite Nat2Z.id. f_equal. f_equal. lia. Qed.

Lemma read_spec s fb bh nb a n : reading s fb bh nb a -> 0 <= n ->
  exists s' k er, m_step s (HRead bh n) = (bump s', RData (firstn k (skipn a (ndata nb))) er) /\
    reading s' fb bh nb (a + k) /\ mdata s' = mdata s /\ mheap s' = mheap s /\
    (length (mhandles s') = length (mhandles s)) /\
    (forall j, j <> bh -> nth_error (mhandles s') j = nth_error (mhandles s) j) /\
    (if (0 <? n) && (Z.of_nat a =? zlen (ndata nb)) then k = 0%nat /\ er = Some (E KEOF)
     else k = Z.to_nat (Z.min n (zlen (ndata nb) - Z.of_nat a)) /\ er = None).
Proof.
  intros (h & Hh & Hr & Ha & Hc & G & Hle) Hn.
  rewrite m_step_bump. cbn [m_step_raw]. unfold m_hop. rewrite Hh, Hr, G.
  unfold f_read. rewrite Hc, Ha.
  assert (Hlen : Z.of_nat a <= zlen (ndata nb)) by (unfold zlen; lia).
  destruct ((0 <? n) && (Z.of_nat a =? zlen (ndata nb))) eqn:Eeof.
  - cbn [fst snd]. exists (set_handle s bh h), 0%nat, (Some (E KEOF)).
    split; [reflexivity|]. rewrite Nat.add_0_r.
    split. { exists h. repeat split; auto. unfold set_handle. cbn [mhandles]. apply nth_list_set_eq. now apply nth_error_lt in Hh. }
    split; [reflexivity|]. split; [reflexivity|].
    split; [unfold set_handle; cbn [mhandles]; apply list_set_length_eq|].
    split; [|now split]. intros j Hj. unfold set_handle. cbn [mhandles]. apply nth_list_set_neq; congruence.
  - assert (H1 : (zlen (ndata nb) <? Z.of_nat a) = false) by (apply Z.ltb_ge; lia).
    assert (H2 : (Z.of_nat a <? 0) = false) by (apply Z.ltb_ge; lia).
    rewrite H1, H2. cbn [fst snd].
    set (k := if n <=? zlen (ndata nb) - Z.of_nat a then n else zlen (ndata nb) - Z.of_nat a).
    assert (Hk : k = Z.min n (zlen (ndata nb) - Z.of_nat a)).
    { unfold k. destruct (n <=? zlen (ndata nb) - Z.of_nat a) eqn:E2; [apply Z.leb_le in E2 | apply Z.leb_gt in E2]; lia. }
    assert (Hk0 : 0 <= k) by lia.
    exists (set_handle s bh (set_at h (Z.of_nat a + k))), (Z.to_nat k), None.
    rewrite slice_firstn_skipn by exact Hk0.
    split; [reflexivity|].
    split. { exists (set_at h (Z.of_nat a + k)). split.
             { unfold set_handle. cbn [mhandles]. apply nth_list_set_eq. now apply nth_error_lt in Hh. }
             split; [exact Hr|]. split; [cbn [hat set_at]; lia|]. split; [exact Hc|]. split; [exact G|].
             unfold zlen in *. lia. }
    split; [reflexivity|]. split; [reflexivity|].
    split; [unfold set_handle; cbn [mhandles]; apply list_set_length_eq|].
    split; [|split; [now rewrite Hk | reflexivity]].
    intros j Hj. unfold set_handle. cbn [mhandles]. apply nth_list_set_neq; congruence.
Qed.

Lemma hstat_spec s fb bh nb a : reading s fb bh nb a ->
  m_step s (HStat bh) = (bump s, RInfo (finfo_of nb)).
Proof.
  intros (h & Hh & Hr & Ha & Hc & G & Hle). rewrite m_step_bump. cbn [m_step_raw]. unfold m_hop.
  now rewrite Hh, Hr, G.
Qed.

Lemma reading_bump s fb bh nb a : reading s fb bh nb a -> reading (bump s) fb bh nb a.
Proof. intros H. exact H. Qed.
Lemma copying_bump s name lh dat : copying s name lh dat -> copying (bump s) name lh dat.
Proof. intros H. exact H. Qed.

(* ---------------------------------------------------------------- Close / Chtimes / Remove *)
Lemma close_cosmetic s i : cosmetic s (fst (m_step s (HClose i))).
Proof.
  rewrite m_step_bump. cbn [fst m_step_raw]. eapply cosmetic_trans; [|apply cosmetic_bump].
  unfold m_hop. destruct (nth_error (mhandles s) i) as [h|]; [|apply cosmetic_refl].
  destruct (get_node s (href h)) as [nd|]; [|apply cosmetic_refl].
  destruct (hclosed h); [apply cosmetic_refl|]. cbn [fst].
  destruct (hro h).
  - split; [reflexivity|]. intros r n H. exists n. split; [exact H | auto].
  - eapply cosmetic_trans; [|apply cosmetic_upd; intros n0; now repeat split].
    split; [reflexivity|]. intros r n H. exists n. split; [exact H | auto].
Qed.

Lemma close_copying s name lh dat : copying s name lh dat ->
  exists s', m_step s (HClose lh) = (s', ROk).
Proof.
  intros (g & gn & h & L & G & A & B & D & Hh & Hr & Ha & Hc & Ho & P).
  rewrite m_step_bump. cbn [m_step_raw]. unfold m_hop. rewrite Hh, Hr, G, Hc. eexists. reflexivity.
Qed.

Lemma chtimes_cosmetic s p t : cosmetic s (fst (m_step s (Chtimes p t))).
Proof.
  rewrite m_step_bump. cbn [fst m_step_raw]. eapply cosmetic_trans; [|apply cosmetic_bump].
  unfold m_chtimes. destruct (lookup s (normalize_path p)); [|apply cosmetic_refl].
  cbn [fst]. apply cosmetic_upd. intros n0. now repeat split.
Qed.

Lemma chtimes_ok s p t f : lookup s (normalize_path p) = Some f -> snd (m_step s (Chtimes p t)) = ROk.
Proof. intros H. rewrite m_step_bump. cbn [snd m_step_raw]. unfold m_chtimes. now rewrite H. Qed.

(* Remove of a regular file whose parent is registered (no handle needed: also what copyFile does after a Create
   that failed while an older copy was there) *)
Lemma remove_file_spec s name dat : normalize_path name = name -> file_at s name dat -> par_ok s name ->
  exists s', m_step s (Remove name) = (bump s', ROk) /\ lookup s' name = None /\ par_ok s' name /\
             mhandles s' = mhandles s /\ (forall r, r <> name -> lookup s' r = lookup s r).
Proof.
  intros Hn (g & gn & L & G & A & B & D) (p & pn & Lp & Gp & Ap & Bp).
  rewrite m_step_bump. cbn [m_step_raw]. unfold m_remove. rewrite Hn, L.
  assert (Hnm : node_name s g = name) by (unfold node_name; now rewrite G).
  assert (Hfp : find_parent s g = Some p).
  { unfold find_parent, lockfree_open. rewrite Hnm. exact Lp. }
  assert (Hun : unregister s name = Some (upd_node s p (fun pn => with_kids (alist_del (node_name s g) (nkids pn)) pn), true)).
  { unfold unregister, lockfree_open. rewrite Hn, L, Hfp, Gp, Bp. reflexivity. }
  rewrite Hun. cbn [fst snd]. eexists. split; [reflexivity|].
  assert (Hne : normalize_path (path_dir name) <> name).
  { intros E. rewrite E in Lp. assert (p = g) by congruence. subst. congruence. }
  split. { unfold lookup, set_data. cbn [mdata]. apply alist_get_del_same. }
  split. { exists p. eexists. unfold lookup, set_data. cbn [mdata]. rewrite alist_get_del_other by exact Hne.
           change (alist_get ?k (mdata ?x)) with (lookup x k). rewrite lookup_upd. split; [exact Lp|].
           change (get_node (set_data ?a ?b) ?r) with (get_node a r).
           split; [exact (get_upd_same s p _ pn Gp)|]. now split. }
  split. { unfold set_data. cbn [mhandles]. apply handles_upd. }
  intros r Hr'. unfold lookup, set_data. cbn [mdata]. rewrite alist_get_del_other by exact Hr'.
  change (alist_get ?k (mdata ?x)) with (lookup x k). apply lookup_upd.
Qed.

Lemma remove_spec s name lh dat : normalize_path name = name -> copying s name lh dat ->
  exists s', m_step s (Remove name) = (bump s', ROk) /\ lookup s' name = None /\ par_ok s' name /\
             mhandles s' = mhandles s /\ (forall r, r <> name -> lookup s' r = lookup s r).
Proof.
  intros Hn Hc. destruct (copying_file_at s name lh dat Hc) as [F P]. exact (remove_file_spec s name dat Hn F P).
Qed.

(* Remove of a name without an entry: refused, nothing but the clock moves *)
Lemma remove_missing s name : normalize_path name = name -> lookup s name = None ->
  m_step s (Remove name) = (bump s, RErr (EW KNotExist)).
Proof. intros Hn L. rewrite m_step_bump. cbn [m_step_raw]. unfold m_remove. now rewrite Hn, L. Qed.

(* ---------------------------------------------------------------- the layer before a copy *)
(* Either the parent directory of [name] is registered (a directory node with a child index) and
   [name] is absent or a regular file whose node carries that name — or neither the parent nor
   [name] has an entry (the copy then creates the parent chain with MkdirAll) and that MkdirAll is
   not refused: walking up from the parent's own parent, the first existing name is a directory
   (or there is none) — MemMapFs answers ENOTDIR when it is a regular file. *)
Definition mkdirall_clear (s : mst) (d : str) : Prop := chain_clear s (path_dir (normalize_path d)).

Definition layer_sane (s : mst) (name : str) : Prop :=
  (par_ok s name /\ (lookup s name = None \/ exists dat, file_at s name dat))
  \/ (lookup s (normalize_path (path_dir name)) = None /\ lookup s name = None /\ mkdirall_clear s (path_dir name)).

Lemma cosmetic_mkdirall_clear s s' d : cosmetic s s' -> mkdirall_clear s d -> mkdirall_clear s' d.
Proof.
  intros [D N]. apply chain_clear_stable; [exact D|]. intros r n H.
  destruct (N r n H) as (n' & G & A & _). now exists n'.
Qed.

Lemma cosmetic_layer_sane s s' name : cosmetic s s' -> layer_sane s name -> layer_sane s' name.
Proof.
  intros C [[P H]|[H1 [H2 H3]]].
  - left. split; [now apply (cosmetic_par_ok s)|]. destruct H as [H|[dat H]].
    + left. now rewrite (cosmetic_lookup _ _ _ C).
    + right. exists dat. now apply (cosmetic_file_at s).
  - right. rewrite !(cosmetic_lookup _ _ _ C). split; [exact H1|]. split; [exact H2|]. now apply (cosmetic_mkdirall_clear s).
Qed.

(* the entry of a name: the node its path-map entry points to *)
Definition fs_entry (s : mst) (name : str) : option node :=
  match lookup s name with Some f => get_node s f | None => None end.

Lemma file_at_entry s name dat : file_at s name dat ->
  exists nd, fs_entry s name = Some nd /\ ndir nd = false /\ ndata nd = dat.
Proof. intros (g & gn & L & G & A & B & D). exists gn. unfold fs_entry. rewrite L. auto. Qed.
