(* Proofs/MemRenameChain.v — Rename on a well-formed MemMapFs when the directory of the target may be MISSING
   (registerWithParent then creates it and its missing ancestors), WITHOUT any dependency on the cache proofs.

   This is the section RG of Proofs/MemFsRenameGen.v (written for C11) with its conclusion stated through the
   record MovedC below instead of CacheFrames.MovedG: MemFsRenameGen.v imports Proofs.CacheReady / CacheInv /
   CacheFrames, which are outside the dependency cone of C03 (and did not compile while this was written).
   C03's quiescent-consistency theorem (Proofs/ConcQuiescent.v) needs exactly this case: a concurrent
   RemoveAll can remove the directory of a Rename's target before the Rename runs.
   Once the cache proofs compile again MemFsRenameGen.RG can be replaced by a re-export of RC. *)
From Coq Require Import Sorting.Permutation.
From AF Require Import Lib.Bytes Lib.Path Lib.Ops Gen.Consts Model.MemFile Model.MemFs Model.WfOps
  Proofs.BytesLemmas Proofs.MemFsPath Proofs.MemFsWF Proofs.MemBelow Proofs.MemFsStep Proofs.MemFsRename.
Local Open Scope Z_scope.

(* the effect of a successful Rename(old, new) on the path map and the kinds of the nodes; the last
   alternative of mc_rest: a missing ancestor of the target, created as a directory *)
Record MovedC (old new : str) (s s' : mst) : Prop := mkMovedC {
  mc_sub : forall k0, atbelow old k0 -> lookup s' (rw old new k0) = lookup s k0;
  mc_gone : forall k, atbelow old k -> lookup s' k = None;
  mc_rest : forall k, ~ atbelow old k -> ~ atbelow new k ->
            lookup s' k = lookup s k \/
            (lookup s k = None /\ below k new = true /\
             exists r n, lookup s' k = Some r /\ get_node s' r = Some n /\ ndir n = true);
  mc_nodes : forall r n, get_node s r = Some n -> exists n', get_node s' r = Some n' /\ ndir n' = ndir n
}.

Lemma register_chain_Dc : forall fuel (P D : kset) s k f perm,
  (length k < fuel)%nat ->
  GWF P D kempty s -> (forall x, P x -> lookup s x <> None) ->
  lookup s k = Some f -> node_name s f = k -> k <> s_slash ->
  (forall a r n, below a k = true -> lookup s a = Some r -> get_node s r = Some n -> ndir n = true) ->
  GWF (ksub P k) (ksub D k) kempty (register fuel s f perm) /\ reg_frame perm k s (register fuel s f perm).
Proof.
  induction fuel as [|fu IH]; intros P D s k f perm Hfuel G HPkeys Hk Hname Hkr Hdirs; [lia|].
  assert (Hc : canon k) by (eapply g_canon; eauto).
  destruct (lookup s (par k)) as [p|] eqn:Hpar.
  - (* the parent exists: it is a directory *)
    destruct (g_node _ _ _ _ G _ _ Hpar) as (pn & Hpn & _ & Hpd & _).
    assert (Hdir : ndir pn = true).
    { destruct (str_eq_dec (par k) s_slash) as [E|E].
      - destruct (g_root _ _ _ _ G) as (r0 & n0 & Hl0 & Hn0 & _ & Hd0). rewrite E in Hpar. congruence.
      - apply (Hdirs (par k) p pn); auto. now apply below_par. }
    rewrite (register_present (S fu) s f perm k p pn Hname Hc Hpar Hpn) by congruence.
    split; [eapply (GWF_add_kid P D kempty s k f p pn); eauto |].
    apply reg_frame_kid. intros n; reflexivity.
  - (* the parent is missing: lockfreeMkdir creates it and registers it first *)
    rewrite (register_missing fu s f perm k Hname Hc Hpar). cbv zeta.
    set (pk := par k) in *. set (nd := mkdir_node pk perm (mclock s)).
    set (s2 := put_new s pk nd). set (item := length (mheap s)).
    assert (Hcp : canon pk) by now apply canon_par.
    assert (Hpkr : pk <> s_slash).
    { intros E. destruct (g_root _ _ _ _ G) as (r0 & n0 & Hl0 & _). rewrite E in Hpar. congruence. }
    assert (G2 : GWF (kadd P pk) D kempty s2) by (apply GWF_new; auto).
    assert (L2 : forall k', k' <> pk -> lookup s2 k' = lookup s k').
    { intros k' Hne. unfold s2. rewrite lookup_put_new. assert (E : beqb pk k' = false) by (apply beqb_neq; congruence). now rewrite E. }
    assert (L2k : lookup s2 pk = Some item) by (unfold s2; rewrite lookup_put_new, beqb_refl; reflexivity).
    assert (Gn2 : forall r, (r < length (mheap s))%nat -> get_node s2 r = get_node s r) by (intros; now apply get_put_new_old).
    assert (Gi2 : get_node s2 item = Some nd) by apply get_put_new_new.
    assert (Hkpk : k <> pk) by (intros E; symmetry in E; revert E; now apply par_neq).
    destruct (IH (kadd P pk) D s2 pk item perm) as [G3 F3].
    + pose proof (par_shorter k Hc Hkr). fold pk in H. lia.
    + exact G2.
    + intros x [Hx | ->]; [rewrite L2; [now apply HPkeys | intros ->; apply (HPkeys _ Hx); exact Hpar] | congruence].
    + exact L2k.
    + unfold node_name. now rewrite Gi2.
    + exact Hpkr.
    + intros a r n Hb Hl Hn. assert (Hane : a <> pk) by (intros ->; rewrite below_irrefl in Hb; discriminate).
      rewrite L2 in Hl by exact Hane. rewrite Gn2 in Hn by (eapply GWF_lt; eauto).
      apply (Hdirs a r n); auto. eapply below_trans; [exact Hb|]. now apply below_par.
    + set (s3 := register fu s2 item perm) in *.
      assert (L3k : lookup s3 pk = Some item) by (apply (rf_keep _ _ _ _ F3); exact L2k).
      rewrite L3k.
      destruct (rf_nodes _ _ _ _ F3 item nd Gi2) as (n3 & Hn3 & En3).
      destruct (with_kids_nil_fields _ _ En3) as (A1 & A2 & A3 & _).
      assert (Hf2 : lookup s2 k = Some f) by (rewrite L2; auto).
      assert (Hf3 : lookup s3 k = Some f) by (apply (rf_keep _ _ _ _ F3); exact Hf2).
      destruct (g_node _ _ _ _ G _ _ Hk) as (fn & Hfn & _).
      assert (Hfn2 : get_node s2 f = Some fn) by (rewrite Gn2; [exact Hfn | now apply get_some_lt in Hfn]).
      destruct (rf_nodes _ _ _ _ F3 f fn Hfn2) as (fn3 & Hfn3 & Efn3).
      destruct (with_kids_nil_fields _ _ Efn3) as (B1 & _).
      assert (Hname3 : node_name s3 f = k).
      { rewrite (node_name_get _ _ _ Hfn3), B1, <- (node_name_get _ _ _ Hfn). exact Hname. }
      rewrite (add_kid_eq s3 item f n3 Hn3) by (rewrite A3; reflexivity). rewrite Hname3.
      split.
      * eapply GWF_ext; [| | |eapply (GWF_add_kid _ _ kempty s3 k f item n3); eauto; rewrite A2; reflexivity].
        -- intros x. unfold ksub, kadd. split; [intros [[[Hx|Hx] Hx1] Hx2]; [auto | contradiction] |].
           intros [Hx Hx2]. split; [split; [now left|] | exact Hx2]. intros ->. apply (HPkeys _ Hx). exact Hpar.
        -- intros x [[Hx _] Hx2]. now split.
        -- intros x [].
      * (* frame *)
        pose proof (reg_frame_kid perm k s3 item (set_kid k f) (fun n => eq_refl)) as F4.
        set (s4 := upd_node s3 item (set_kid k f)) in *.
        split.
        -- intros k' r Hl. apply (rf_keep _ _ _ _ F4). apply (rf_keep _ _ _ _ F3).
           rewrite L2; [exact Hl | intros ->; congruence].
        -- intros k' r Hl4 Hnone. unfold s4 in Hl4. rewrite lookup_upd in Hl4.
           destruct (str_eq_dec k' pk) as [->|Hne].
           ++ split; [now apply below_par|]. assert (r = item) by congruence. subst r.
              destruct (rf_nodes _ _ _ _ F4 item n3 Hn3) as (n4 & Hn4 & En4). exists n4. split; [exact Hn4|].
              rewrite En4, En3. reflexivity.
           ++ rewrite <- L2 in Hnone by exact Hne.
              destruct (rf_new _ _ _ _ F3 k' r Hl4 Hnone) as (Hb & n & Hn & En).
              split; [eapply below_trans; [exact Hb | now apply below_par]|].
              destruct (rf_nodes _ _ _ _ F4 r n Hn) as (n4 & Hn4 & En4). exists n4. split; [exact Hn4|].
              rewrite En4, En. reflexivity.
        -- intros r n Hn. assert (Hn2 : get_node s2 r = Some n) by (rewrite Gn2; [exact Hn | now apply get_some_lt in Hn]).
           destruct (rf_nodes _ _ _ _ F3 r n Hn2) as (n3' & Hn3' & En3').
           destruct (rf_nodes _ _ _ _ F4 r n3' Hn3') as (n4 & Hn4 & En4). exists n4. split; [exact Hn4 | congruence].
        -- rewrite (rf_handles _ _ _ _ F4), (rf_handles _ _ _ _ F3). reflexivity.
        -- rewrite (rf_clock _ _ _ _ F4), (rf_clock _ _ _ _ F3). reflexivity.
Qed.

Module RC.
Section RenameG.
Variables (old new : str) (f : nat).
Hypotheses (Ho : canon old) (Hn : canon new) (Hor : old <> s_slash) (Hnr : new <> s_slash)
  (Hne : old <> new) (Hb1 : below old new = false) (Hb2 : below new old = false).

Definition Sof (removes : list str) : kset := fun k => k = old \/ In k removes.
Definition Dnew : kset := fun k => k = new.
Notation rwk := (rw old new).

Lemma Sof_dec removes k : {Sof removes k} + {~ Sof removes k}.
Proof.
  unfold Sof. destruct (str_eq_dec k old) as [E|E]; [left; now left|].
  destruct (in_dec str_eq_dec k removes) as [I|I]; [left; now right | right; tauto].
Qed.

Lemma Sof_snoc removes k x : Sof (removes ++ [k]) x <-> kadd (Sof removes) k x.
Proof. unfold Sof, kadd. rewrite in_app_iff. cbn. intuition congruence. Qed.

Record RInv (removes : list str) (s : mst) (todo : list nat) : Prop := mkRInv {
  ri_g : GWF (Sof removes) Dnew (Sof removes) s;
  ri_S : forall k0, Sof removes k0 -> atbelow old k0 /\ exists r, lookup s k0 = Some r /\ node_name s r = rwk k0;
  ri_par : forall k0, Sof removes k0 -> k0 <> old -> Sof removes (par k0);
  ri_new : forall k' r, lookup s k' = Some r -> below new k' = true -> exists k0, Sof removes k0 /\ k' = rwk k0;
  ri_todo : forall k r, lookup s k = Some r -> below old k = true -> ~ Sof removes k -> In r todo;
  ri_todo_inv : forall r, In r todo -> exists k, lookup s k = Some r /\ below old k = true /\ ~ Sof removes k;
  ri_nodup : NoDup todo;
  ri_sorted : dsorted (fun r => depth (node_name s r)) todo;
  ri_pnew : forall a r n, below a new = true -> lookup s a = Some r -> get_node s r = Some n -> ndir n = true;
  ri_rm : NoDup removes /\ ~ In old removes;
  ri_f : lookup s new = Some f /\ node_name s f = new
}.

Definition step_frame (s s' : mst) (d : nat) : Prop :=
  below old (node_name s d) = true /\ lookup s (node_name s d) = Some d /\
  (forall x, lookup s' x = if beqb (rwk (node_name s d)) x then Some d else lookup s x) /\
  attrs_kept s s'.

Lemma disj x : canon x -> atbelow old x -> atbelow new x -> False.
Proof. apply disjoint_trees; auto. Qed.

(* stale keys rewrite to names at or below new *)
Lemma S_rw removes s todo k0 : RInv removes s todo -> Sof removes k0 -> canon k0 /\ atbelow new (rwk k0) /\ prefixb old k0 = true.
Proof.
  intros R Hk0. destruct (ri_S _ _ _ R k0 Hk0) as (Hat & r & Hr & _).
  pose proof (g_canon _ _ _ _ (ri_g _ _ _ R) k0 r Hr) as Hc. split; [exact Hc|].
  destruct Hat as [->|Hat].
  - split; [left; apply rw_self | apply prefixb_spec; exists []; now rewrite app_nil_r].
  - split; [right; apply (rw_canon old new k0 Ho Hn Hnr Hc Hat) | now apply below_prefix].
Qed.

Lemma shape_upd s r g x n :
  (forall m, ndir (g m) = ndir m /\ nhasdir (g m) = nhasdir m) -> get_node s x = Some n ->
  exists n', get_node (upd_node s r g) x = Some n' /\ ndir n' = ndir n /\ nhasdir n' = nhasdir n.
Proof.
  intros Hg Hx. rewrite get_upd. destruct (Nat.eqb r x) eqn:E.
  - apply Nat.eqb_eq in E. subst x. rewrite Hx. cbn. exists (g n). destruct (Hg n). auto.
  - exists n. auto.
Qed.

Lemma rename_one_step removes s d todo :
  RInv removes s (d :: todo) ->
  exists s', rename_one old new s d = Some (s', true) /\ RInv (removes ++ [node_name s d]) s' todo /\ step_frame s s' d.
Proof.
  intros R. destruct (ri_todo_inv _ _ _ R d (or_introl eq_refl)) as (k & Hk & Hbk & HSk).
  pose proof (ri_g _ _ _ R) as G.
  assert (Hname : node_name s d = k) by (apply (g_fresh _ _ _ _ G k d Hk HSk)).
  assert (Hck : canon k) by (apply (g_canon _ _ _ _ G k d Hk)).
  assert (Hkr : k <> s_slash) by (apply (below_not_root old k Ho Hbk)).
  assert (HDk : ~ Dnew k) by (unfold Dnew; intros ->; rewrite Hbk in Hb1; discriminate).
  destruct (GWF_unregister _ _ _ s k d G Hk Hname Hkr HSk HDk) as (q & qn & Hq & Hqn & Hqd & Hun & G1).
  set (s1 := upd_node s q (del_kid k)) in *.
  destruct (rw_canon old new k Ho Hn Hnr Hck Hbk) as [Hc2 Hbn2 Hpt Hpd]. set (k2 := rw old new k) in *.
  assert (Hk2r : k2 <> s_slash) by (apply (below_not_root new k2 Hn Hbn2)).
  (* the parent of k has been processed (or is old itself) *)
  assert (HSpk : Sof removes (par k)).
  { destruct (below_inv old k Ho Hck Hbk) as [E|E]; [left; auto|].
    destruct (Sof_dec removes (par k)) as [Y|N]; [exact Y|]. exfalso.
    pose proof (ri_todo _ _ _ R (par k) q Hq E N) as Hin.
    assert (Hnq : node_name s q = par k) by (apply (g_fresh _ _ _ _ G _ _ Hq N)).
    destruct Hin as [Hin|Hin].
    - subst q. assert (par k = k) by (eapply (GWF_inj _ _ _ s (par k) k d G); eauto). revert H. now apply par_neq.
    - destruct (ri_sorted _ _ _ R) as [Hs _]. specialize (Hs q Hin). rewrite Hname, Hnq in Hs.
      rewrite (depth_par k Hck Hkr) in Hs; [lia|]. apply (below_not_root old (par k) Ho E). }
  assert (Hpk2 : par k2 = rwk (par k)).
  { destruct (below_inv old k Ho Hck Hbk) as [E|E].
    - rewrite <- E, rw_self. apply Hpt. auto.
    - now apply Hpd. }
  assert (Hq2 : lookup s (par k2) = Some q).
  { destruct (ri_S _ _ _ R (par k) HSpk) as (_ & r & Hr & Hrn). rewrite Hq in Hr. inversion Hr; subst r.
    destruct (g_node _ _ _ _ G _ _ Hq) as (n & Hgn & Hln & _). rewrite Hpk2, <- Hrn, (node_name_get s q n Hgn). exact Hln. }
  assert (L1 : forall x, lookup s1 x = lookup s x) by (intros; apply lookup_upd).
  assert (N1 : forall x, node_name s1 x = node_name s x).
  { intros x. unfold s1. rewrite node_name_upd. destruct (Nat.eqb q x) eqn:E; [|reflexivity].
    apply Nat.eqb_eq in E. subst x. unfold node_name. now rewrite Hqn. }
  assert (Hk2k : k2 <> k).
  { intros E. apply (disj k Hck); [now right | right; now rewrite <- E]. }
  assert (Hk2old : ~ atbelow old k2) by (intros Y; apply (disj k2 Hc2 Y); now right).
  assert (HSk2 : ~ Sof removes k2).
  { intros Y. destruct (ri_S _ _ _ R k2 Y) as (Hat & _). contradiction. }
  assert (Hnokey : lookup s k2 = None).
  { destruct (lookup s k2) as [r|] eqn:E; [|reflexivity]. exfalso.
    destruct (ri_new _ _ _ R k2 r E Hbn2) as (k0 & Hk0 & Ek0).
    destruct (S_rw _ _ _ k0 R Hk0) as (_ & _ & Hp0).
    apply rw_inj in Ek0; [subst k0; contradiction | now apply below_prefix | exact Hp0]. }
  assert (Hpnew_k2 : par new <> k2).
  { intros E. apply below_shorter in Hbn2. fold k2 in Hbn2. rewrite <- E in Hbn2. pose proof (par_shorter new Hn Hnr). lia. }
  (* ChangeFileName + m.data[k2] = d *)
  assert (G3 : GWF (kadd (Sof removes) k) (kadd Dnew k2) (kadd (Sof removes) k) (move_key s1 d k2)).
  { apply (GWF_move _ _ _ s1 k d k2); auto.
    - now rewrite L1.
    - now rewrite N1.
    - now right.
    - intros [Y|Y]; [contradiction | congruence].
    - intros k' r' Hl' Hr' Ep. rewrite L1 in Hl'.
      assert (Hck' : canon k') by (apply (g_canon _ _ _ _ G k' r' Hl')).
      assert (Hbk' : below new k' = true).
      { eapply below_trans; [exact Hbn2|]. rewrite <- Ep. apply below_par; auto. now rewrite Ep. }
      destruct (ri_new _ _ _ R k' r' Hl' Hbk') as (k0 & Hk0 & ->).
      destruct (ri_S _ _ _ R k0 Hk0) as (Hat & _). destruct (S_rw _ _ _ k0 R Hk0) as (Hc0 & _ & Hp0).
      destruct Hat as [->|Hat].
      + rewrite rw_self in Ep. contradiction.
      + assert (Hk0old : k0 <> old) by (intros ->; rewrite below_irrefl in Hat; discriminate).
        pose proof (ri_par _ _ _ R k0 Hk0 Hk0old) as Hp0S.
        destruct (rw_canon old new k0 Ho Hn Hnr Hc0 Hat) as [_ _ Ht Hd].
        destruct (below_inv old k0 Ho Hc0 Hat) as [E|E].
        * rewrite Ht in Ep by auto. rewrite Ep in Hbn2. fold k2 in Hbn2. rewrite below_irrefl in Hbn2. discriminate.
        * rewrite (Hd E) in Ep. apply rw_inj in Ep; [|now apply below_prefix | now apply below_prefix].
          rewrite Ep in Hp0S. contradiction.
    - intros name -> E. contradiction.
    - intros k' r' Hl' Hne' E. rewrite L1 in Hl'. rewrite N1 in E.
      destruct (g_node _ _ _ _ G _ _ Hl') as (n & Hgn & Hln & _). rewrite <- (node_name_get s r' n Hgn), E in Hln. congruence. }
  set (s3 := move_key s1 d k2) in *.
  destruct (g_node _ _ _ _ G _ _ Hk) as (dn & Hdn & _).
  assert (Hdn1 : exists dn1, get_node s1 d = Some dn1).
  { destruct (shape_upd s q (del_kid k) d dn (fun m => conj eq_refl eq_refl) Hdn) as (n' & Hn' & _). now exists n'. }
  destruct Hdn1 as (dn1 & Hdn1).
  assert (L3 : forall x, lookup s3 x = if beqb k2 x then Some d else lookup s x).
  { intros x. unfold s3. rewrite lookup_move_key, L1. reflexivity. }
  assert (N3 : forall r, node_name s3 r = if Nat.eqb d r then k2 else node_name s r).
  { intros r. unfold s3. rewrite node_name_move, Hdn1, N1. reflexivity. }
  assert (Hq3 : exists qn3, get_node s3 q = Some qn3 /\ ndir qn3 = true /\ nhasdir qn3 = true).
  { destruct (g_node _ _ _ _ G _ _ Hq) as (qn' & Hqn' & _ & Hqd' & _). rewrite Hqn in Hqn'. inversion Hqn'; subst qn'.
    destruct (shape_upd s q (del_kid k) q qn (fun m => conj eq_refl eq_refl) Hqn) as (n1 & Hn1 & A1 & A2).
    destruct (get_move_shape s1 d k2 q n1 Hn1) as (n3 & Hn3 & B1 & B2 & _).
    exists n3. split; [exact Hn3|]. split; congruence. }
  destruct Hq3 as (qn3 & Hqn3 & Hqd3 & Hqh3).
  assert (Hpk2ne : par k2 <> k2) by (now apply par_neq).
  assert (Hq3l : lookup s3 (par k2) = Some q).
  { rewrite L3. assert (E : beqb k2 (par k2) = false) by (apply beqb_neq; congruence). now rewrite E. }
  assert (Hk3 : lookup s3 k2 = Some d) by (rewrite L3, beqb_refl; reflexivity).
  assert (Hn3 : node_name s3 d = k2) by (rewrite N3, Nat.eqb_refl; reflexivity).
  set (s4 := upd_node s3 q (set_kid k2 d)).
  assert (Hreg : reg s3 d 0 = s4).
  { unfold reg. apply (register_present _ s3 d 0 k2 q qn3); auto. }
  exists s4. split.
  { unfold rename_one. rewrite Hname. rewrite (str_replace1_prefix k old new (below_prefix _ _ Hbk)). rewrite Hun.
    fold k2. change (set_data (upd_node s1 d (with_name k2)) (alist_set k2 d (mdata (upd_node s1 d (with_name k2))))) with s3.
    now rewrite Hreg. }
  assert (G4 : GWF (Sof (removes ++ [k])) Dnew (Sof (removes ++ [k])) s4).
  { eapply GWF_ext; [| | |eapply (GWF_add_kid _ _ _ s3 k2 d q qn3 G3); eauto].
    - intros x. rewrite Sof_snoc. unfold ksub, kadd. split; [tauto|]. intros Y. split; [exact Y|].
      intros ->. destruct Y; [contradiction | congruence].
    - intros x [[Y|Y] Y2]; [exact Y | contradiction].
    - intros x Y. now apply Sof_snoc. }
  assert (L4 : forall x, lookup s4 x = if beqb k2 x then Some d else lookup s x).
  { intros x. unfold s4. now rewrite lookup_upd, L3. }
  assert (N4 : forall r, node_name s4 r = if Nat.eqb d r then k2 else node_name s r).
  { intros r. unfold s4. rewrite node_name_upd, Hqn3. cbn [set_kid with_kids nname].
    destruct (Nat.eqb q r) eqn:E; [|apply N3]. apply Nat.eqb_eq in E. subst r. rewrite <- (node_name_get s3 q qn3 Hqn3). apply N3. }
  assert (Lold : forall x r, atbelow old x -> lookup s x = Some r -> lookup s4 x = Some r).
  { intros x r Hx Hl. rewrite L4. assert (E : beqb k2 x = false) by (apply beqb_neq; intros <-; contradiction). now rewrite E. }
  unfold step_frame. rewrite Hname. split.
  2:{ split; [exact Hbk|]. split; [exact Hk|]. split; [exact L4|].
      eapply attrs_kept_trans; [apply (attrs_upd s q (del_kid k)); reflexivity|].
      eapply attrs_kept_trans; [apply (attrs_move s1 d k2)|]. apply (attrs_upd s3 q (set_kid k2 d)). reflexivity. }
  split.
  - exact G4.
  - intros k0 Hk0. apply Sof_snoc in Hk0 as [Hk0 | ->].
    + destruct (ri_S _ _ _ R k0 Hk0) as (Hat & r & Hr & Hrn). split; [exact Hat|]. exists r. split; [now apply Lold|].
      rewrite N4. destruct (Nat.eqb d r) eqn:E; [|exact Hrn]. apply Nat.eqb_eq in E. subst r. exfalso.
      destruct (S_rw _ _ _ k0 R Hk0) as (_ & Hnw & _). rewrite <- Hrn, Hname in Hnw. apply (disj k Hck); [now right | exact Hnw].
    + split; [now right|]. exists d. split; [apply Lold; [now right | exact Hk]|]. rewrite N4, Nat.eqb_refl. reflexivity.
  - intros k0 Hk0 Hk0o. apply Sof_snoc. apply Sof_snoc in Hk0 as [Hk0 | ->]; [left; now apply (ri_par _ _ _ R) | now left].
  - intros k' r Hl Hb. rewrite L4 in Hl. destruct (beqb k2 k') eqn:E.
    + apply beqb_eq in E. subst k'. exists k. split; [apply Sof_snoc; now right | reflexivity].
    + destruct (ri_new _ _ _ R k' r Hl Hb) as (k0 & Hk0 & ->). exists k0. split; [apply Sof_snoc; now left | reflexivity].
  - intros kx r Hl Hb HS. rewrite L4 in Hl. destruct (beqb k2 kx) eqn:E.
    + apply beqb_eq in E. subst kx. exfalso. apply Hk2old. now right.
    + assert (HSx : ~ Sof removes kx) by (intros Y; apply HS; apply Sof_snoc; now left).
      destruct (ri_todo _ _ _ R kx r Hl Hb HSx) as [<-|Hin]; [|exact Hin]. exfalso.
      assert (kx = k) by (eapply (GWF_inj _ _ _ s kx k d G); eauto). subst kx. apply HS. apply Sof_snoc. now right.
  - intros r Hin. destruct (ri_todo_inv _ _ _ R r (or_intror Hin)) as (kx & Hlx & Hbx & HSx).
    assert (Hrd : r <> d). { intros ->. pose proof (ri_nodup _ _ _ R) as Hnd. inversion Hnd; contradiction. }
    exists kx. split; [apply Lold; [now right | exact Hlx]|]. split; [exact Hbx|].
    intros Y. apply Sof_snoc in Y as [Y | ->]; [contradiction | congruence].
  - pose proof (ri_nodup _ _ _ R) as Hnd. now inversion Hnd.
  - destruct (ri_sorted _ _ _ R) as [_ Hs]. eapply dsorted_ext; [|exact Hs]. intros e He. cbn beta.
    rewrite N4. assert (E : Nat.eqb d e = false).
    { apply Nat.eqb_neq. intros ->. pose proof (ri_nodup _ _ _ R) as Hnd. inversion Hnd; contradiction. }
    now rewrite E.
  - intros a r n Hba Hla Hna. rewrite L4 in Hla. destruct (beqb k2 a) eqn:E.
    + apply beqb_eq in E. subst a. exfalso. apply below_shorter in Hba. apply below_shorter in Hbn2. fold k2 in Hbn2. lia.
    + assert (Ak : attrs_kept s s4).
      { eapply attrs_kept_trans; [apply (attrs_upd s q (del_kid k)); reflexivity|].
        eapply attrs_kept_trans; [apply (attrs_move s1 d k2)|]. apply (attrs_upd s3 q (set_kid k2 d)). reflexivity. }
      destruct Ak as (Alen & _ & Aat).
      destruct (get_node s r) as [n0|] eqn:Hn0.
      * destruct (Aat r n0 Hn0) as (n' & Hn' & Ea). rewrite Hna in Hn'. inversion Hn'; subst n'.
        apply (f_equal (fun t => fst (fst (fst (fst (fst (fst t))))))) in Ea. cbn in Ea. rewrite Ea. exact (ri_pnew _ _ _ R a r n0 Hba Hla Hn0).
      * exfalso. apply get_some_lt in Hna. rewrite Alen in Hna. unfold get_node in Hn0. apply nth_error_None in Hn0. lia.
  - destruct (ri_rm _ _ _ R) as [Hnd Hno]. split.
    + apply nodup_snoc; [exact Hnd|]. intros Y. apply HSk. now right.
    + rewrite in_app_iff. cbn. intros [Y|[Y|[]]]; [contradiction|]. rewrite Y in Hbk. rewrite below_irrefl in Hbk. discriminate.
  - destruct (ri_f _ _ _ R) as [Hfl Hfn]. split.
    + rewrite L4. assert (E : beqb k2 new = false).
      { apply beqb_neq. intros E. rewrite E in Hbn2. rewrite below_irrefl in Hbn2. discriminate. }
      now rewrite E.
    + rewrite N4. assert (E : Nat.eqb d f = false).
      { apply Nat.eqb_neq. intros ->. rewrite Hfn in Hname. rewrite <- Hname in Hbk. congruence. }
      now rewrite E.
Qed.

(* renameDescendants: the loop.  LF sref s: relative to the state sref at the start of the loop,
   nodes keep their attributes, names not below new are untouched, and every name below new is the
   rewriting of a name below old holding the same node. *)
Record LF (sref s : mst) : Prop := mkLF {
  lf_attrs : attrs_kept sref s;
  lf_out : forall x, below new x = false -> lookup s x = lookup sref x;
  lf_new : forall x r, below new x = true -> lookup s x = Some r ->
           exists k0, below old k0 = true /\ x = rwk k0 /\ lookup sref k0 = Some r
}.

Lemma rename_descs_loop sref : forall todo removes s,
  RInv removes s todo -> LF sref s ->
  exists s' removes', rename_descs old new s todo removes = Some (s', true, removes') /\ RInv removes' s' [] /\ LF sref s'.
Proof.
  induction todo as [|d todo IH]; intros removes s R F.
  - exists s, removes. split; [reflexivity | split; [exact R | exact F]].
  - destruct (rename_one_step removes s d todo R) as (s1 & Hone & R1 & Hbk & Hk & L1 & A1).
    set (k := node_name s d) in *.
    assert (Hck : canon k) by (apply (g_canon _ _ _ _ (ri_g _ _ _ R) k d Hk)).
    assert (Hbn2 : below new (rwk k) = true) by (apply (rw_canon old new k Ho Hn Hnr Hck Hbk)).
    assert (Hknew : below new k = false).
    { destruct (below new k) eqn:E; [|reflexivity]. exfalso. apply (disj k Hck); now right. }
    assert (F1 : LF sref s1).
    { destruct F as [Fa Fo Fn]. split.
      - eapply attrs_kept_trans; eauto.
      - intros x Hx. rewrite L1. assert (E : beqb (rwk k) x = false) by (apply beqb_neq; intros <-; congruence).
        rewrite E. now apply Fo.
      - intros x r Hx Hl. rewrite L1 in Hl. destruct (beqb (rwk k) x) eqn:E.
        + apply beqb_eq in E. subst x. inversion Hl; subst r. exists k. split; [exact Hbk|]. split; [reflexivity|].
          rewrite <- (Fo k Hknew). exact Hk.
        + now apply Fn. }
    destruct (IH _ _ R1 F1) as (s' & removes' & Hloop & R' & F').
    exists s', removes'. split; [|split; [exact R' | exact F']]. cbn [rename_descs]. rewrite Hone. exact Hloop.
Qed.

(* ---------- the deferred deletes ---------- *)
Definition inl (ks : list str) : kset := fun k => In k ks.

Record DInv (ks : list str) (s : mst) : Prop := mkDInv {
  di_g : GWF (inl ks) Dnew (inl ks) s;
  di_S : forall k0, In k0 ks -> atbelow old k0 /\ exists r, lookup s k0 = Some r /\ node_name s r = rwk k0;
  di_all : forall k r, lookup s k = Some r -> atbelow old k -> In k ks;
  di_pnew : forall a r n, below a new = true -> lookup s a = Some r -> get_node s r = Some n -> ndir n = true;
  di_f : lookup s new = Some f /\ node_name s f = new
}.

Lemma rw_neq k0 : canon k0 -> atbelow old k0 -> rwk k0 <> k0.
Proof.
  intros Hc Hat E. apply (disj k0 Hc Hat). rewrite <- E. destruct Hat as [->|Hat]; [left; apply rw_self|].
  right. apply (rw_canon old new k0 Ho Hn Hnr Hc Hat).
Qed.

Lemma del_step k ks s : NoDup (k :: ks) -> DInv (k :: ks) s -> DInv ks (del_key s k).
Proof.
  intros Hnd [G HS Hall Hpn Hf]. inversion Hnd as [|? ? Hnik Hnd']; subst.
  destruct (HS k (or_introl eq_refl)) as (Hatk & rk & Hrk & Hnk).
  assert (Hck : canon k) by (apply (g_canon _ _ _ _ G k rk Hrk)).
  assert (Hkr : k <> s_slash). { destruct Hatk as [->|Hb]; [exact Hor | apply (below_not_root old k Ho Hb)]. }
  assert (Hparnew : par new <> k).
  { intros E. assert (Hb : below k new = true).
    { rewrite <- E. apply below_par; auto. now rewrite E. }
    destruct Hatk as [->|Hb']; [congruence|]. rewrite (below_trans _ _ _ Hb' Hb) in Hb1. discriminate. }
  assert (L : forall x, x <> k -> lookup (del_key s k) x = lookup s x).
  { intros x Hx. rewrite lookup_del_key. assert (E : beqb k x = false) by (apply beqb_neq; congruence). now rewrite E. }
  split.
  - eapply GWF_ext; [| | |eapply (GWF_del _ _ _ s k G)]; auto.
    + intros x. unfold ksub, inl. cbn. split; [intros [[Y|Y] Y2]; [congruence | exact Y] | intros Y; split; [now right | congruence]].
    + intros x [[Y|Y] Y2]; [congruence | exact Y].
    + now left.
    + intros k' r' Hne' Hl' E. destruct (g_node _ _ _ _ G _ _ Hl') as (n & Hgn & Hln & _).
      rewrite <- (node_name_get s r' n Hgn), E, Hrk in Hln. inversion Hln; subst r'.
      rewrite Hnk in E. revert E. now apply rw_neq.
    + intros k' r' Hl' Hne' Hr' Hnm' HP' Ep. apply HP'. apply (Hall k' r' Hl'). right.
      apply below_step; auto; [apply (g_canon _ _ _ _ G k' r' Hl') | rewrite Ep; destruct Hatk; auto].
    + intros name -> E. contradiction.
  - intros k0 Hk0. destruct (HS k0 (or_intror Hk0)) as (Hat & r & Hr & Hrn). split; [exact Hat|].
    exists r. split; [rewrite L; [exact Hr | congruence] | exact Hrn].
  - intros x r Hl Hat. rewrite lookup_del_key in Hl. destruct (beqb k x) eqn:E; [discriminate|]. apply beqb_neq in E.
    destruct (Hall x r Hl Hat) as [Y|Y]; [congruence | exact Y].
  - intros a r n Hba Hla Hna. change (get_node (del_key s k) r) with (get_node s r) in Hna.
    rewrite lookup_del_key in Hla. destruct (beqb k a); [discriminate|]. exact (Hpn a r n Hba Hla Hna).
  - destruct Hf as [Hfl Hfn]. split; [|exact Hfn]. rewrite L; [exact Hfl|].
    intros E. destruct Hatk as [Y|Y]; [congruence|]. rewrite <- E in Y. congruence.
Qed.

Lemma del_all : forall ks s, NoDup ks -> DInv ks s -> DInv [] (fold_left del_key ks s).
Proof.
  induction ks as [|k ks IH]; intros s Hnd D; [exact D|]. cbn [fold_left]. apply IH; [now inversion Hnd | now apply del_step].
Qed.

Lemma mst_eta s : mkM (mdata s) (mheap s) (mhandles s) (mclock s) = s.
Proof. now destruct s. Qed.

Lemma fold_del_key ks : forall s, set_data s (fold_left (fun d k => alist_del k d) ks (mdata s)) = fold_left del_key ks s.
Proof.
  induction ks as [|k ks IH]; intros s; cbn [fold_left]; [apply mst_eta|].
  rewrite <- IH. reflexivity.
Qed.

(* the state after the loop is ready for the deletes *)
Lemma RInv_DInv removes s : RInv removes s [] -> DInv (removes ++ [old]) s.
Proof.
  intros R. assert (E : forall x, In x (removes ++ [old]) <-> Sof removes x).
  { intros x. unfold Sof. rewrite in_app_iff. cbn. intuition congruence. }
  split.
  - eapply GWF_ext; [| | |exact (ri_g _ _ _ R)]; [intros x; symmetry; apply E | auto | intros x; apply E].
  - intros k0 Hk0. apply (ri_S _ _ _ R). now apply E.
  - intros k r Hl [->|Hb]; [apply E; now left|]. apply E. destruct (Sof_dec removes k) as [Y|N]; [exact Y|].
    destruct (ri_todo _ _ _ R k r Hl Hb N).
  - exact (ri_pnew _ _ _ R).
  - exact (ri_f _ _ _ R).
Qed.

Lemma lookup_fold_del ks : forall s x,
  lookup (fold_left del_key ks s) x = if in_dec str_eq_dec x ks then None else lookup s x.
Proof.
  induction ks as [|k ks IH]; intros s x; [reflexivity|]. cbn [fold_left]. rewrite IH, lookup_del_key.
  destruct (in_dec str_eq_dec x ks) as [I|I]; destruct (in_dec str_eq_dec x (k :: ks)) as [J|J]; try reflexivity.
  - exfalso. apply J. now right.
  - destruct J as [->|J]; [now rewrite beqb_refl | contradiction].
  - assert (E : beqb k x = false) by (apply beqb_neq; intros ->; apply J; now left). now rewrite E.
Qed.
Lemma mheap_fold_del ks : forall s, mheap (fold_left del_key ks s) = mheap s.
Proof. induction ks as [|k ks IH]; intros s; [reflexivity|]. cbn [fold_left]. now rewrite IH. Qed.
Lemma mhandles_fold_del ks : forall s, mhandles (fold_left del_key ks s) = mhandles s.
Proof. induction ks as [|k ks IH]; intros s; [reflexivity|]. cbn [fold_left]. now rewrite IH. Qed.

Lemma rw_at k0 : atbelow old k0 -> atbelow new (rwk k0).
Proof.
  intros [->|Hb]; [left; apply rw_self|]. right. apply below_spec in Hb as [t ->]. rewrite rw_app. apply below_spec. now exists t.
Qed.

(* the effect of a successful Rename on the path map and the nodes *)
Record moved (s s' : mst) : Prop := mkMoved {
  mv_attrs : attrs_kept s s';
  mv_sub : forall k0, atbelow old k0 -> lookup s' (rwk k0) = lookup s k0;
  mv_gone : forall k, atbelow old k -> lookup s' k = None;
  mv_rest : forall k, ~ atbelow old k -> ~ atbelow new k -> lookup s' k = lookup s k
}.

(* the body of Rename once the source has been found and differs from the target *)
Definition rename_body (s : mst) : mst * res :=
  match unregister s old with
  | None => (s, RPanic)
  | Some (s1, false) => (s1, RErr (E KNotExist))
  | Some (s1, true) =>
    let s3 := move_key s1 f new in
    match rename_descs old new s3 (find_descendants s3 old) [] with
    | None => (s3, RPanic)
    | Some (s4, false, _) => (s4, RErr (E KNotExist))
    | Some (s4, true, removes) =>
      let s5 := set_data s4 (fold_left (fun d k => alist_del k d) removes (mdata s4)) in
      let s6 := set_data s5 (alist_del old (mdata s5)) in
      (reg s6 f 0, ROk)
    end
  end.

Lemma Sof_nil x : Sof [] x <-> x = old.
Proof. unfold Sof. cbn. tauto. Qed.

Lemma rename_core_gen s :
  WF s -> lookup s old = Some f ->
  (forall k r, lookup s k = Some r -> below new k = false) ->
  (forall a r n, below a new = true -> lookup s a = Some r -> get_node s r = Some n -> ndir n = true) ->
  snd (rename_body s) = ROk /\ WF (fst (rename_body s)) /\ MovedC old new s (fst (rename_body s)).
Proof.
  intros W Hl Hfree Hpnew.
  pose proof (WF_fresh s old f W Hl) as Hname.
  destruct (GWF_unregister kempty kempty kempty s old f W Hl Hname Hor) as (q0 & qn0 & Hq0 & Hqn0 & Hqd0 & Hun & G1); [intros [] | intros [] |].
  set (s1 := upd_node s q0 (del_kid old)) in *.
  assert (L1 : forall x, lookup s1 x = lookup s x) by (intros; apply lookup_upd).
  assert (N1 : forall x, node_name s1 x = node_name s x).
  { intros x. unfold s1. rewrite node_name_upd. destruct (Nat.eqb q0 x) eqn:E; [|reflexivity].
    apply Nat.eqb_eq in E. subst x. unfold node_name. now rewrite Hqn0. }
  assert (G3 : GWF (kadd kempty old) (kadd kempty new) (kadd kempty old) (move_key s1 f new)).
  { apply (GWF_move _ _ _ s1 old f new); auto.
    - now rewrite L1.
    - now rewrite N1.
    - now right.
    - intros [[]|Y]; congruence.
    - intros k' r' Hl' Hr' Ep. rewrite L1 in Hl'. assert (Hb : below new k' = true).
      { rewrite <- Ep. apply below_par; [apply (g_canon _ _ _ _ W k' r' Hl') | exact Hr' | now rewrite Ep]. }
      rewrite (Hfree k' r' Hl') in Hb. discriminate.
    - intros k' r' Hl' Hne' E. rewrite L1 in Hl'. rewrite N1, (WF_fresh s k' r' W Hl') in E. contradiction. }
  set (s3 := move_key s1 f new) in *.
  destruct (g_node _ _ _ _ W _ _ Hl) as (fn & Hfn & _).
  assert (Hfn1 : exists fn1, get_node s1 f = Some fn1).
  { destruct (shape_upd s q0 (del_kid old) f fn (fun m => conj eq_refl eq_refl) Hfn) as (n' & Hn' & _). now exists n'. }
  destruct Hfn1 as (fn1 & Hfn1).
  assert (L3 : forall x, lookup s3 x = if beqb new x then Some f else lookup s x).
  { intros x. unfold s3. rewrite lookup_move_key, L1. reflexivity. }
  assert (N3 : forall r, node_name s3 r = if Nat.eqb f r then new else node_name s r).
  { intros r. unfold s3. rewrite node_name_move, Hfn1, N1. reflexivity. }
  assert (Eon : beqb new old = false) by (apply beqb_neq; congruence).
  assert (R0 : RInv [] s3 (find_descendants s3 old)).
  { assert (Hperm : Permutation (find_descendants s3 old)
                      (map snd (filter (fun kv => prefixb (old ++ s_slash) (fst kv)) (mdata s3)))).
    { unfold find_descendants. apply (sort_perm (fun r => depth (node_name s3 r))). }
    assert (Hmem : forall r, In r (find_descendants s3 old) <-> exists k, lookup s3 k = Some r /\ below old k = true).
    { intros r. split.
      - intros Hin. apply (Permutation_in _ Hperm) in Hin. apply in_map_iff in Hin as ([k r'] & E & Hin). cbn in E. subst r'.
        apply filter_In in Hin as [Hin Hb]. exists k. split; [|exact Hb]. apply in_aget; [apply (g_nodup _ _ _ _ G3) | exact Hin].
      - intros (k & Hk & Hb). apply (Permutation_in _ (Permutation_sym Hperm)). apply in_map_iff. exists (k, r). split; [reflexivity|].
        apply filter_In. split; [now apply aget_in | exact Hb]. }
    split.
    - eapply GWF_ext; [| | |exact G3].
      + intros x. rewrite Sof_nil. unfold kadd, kempty. tauto.
      + intros x [[]|Y]. exact Y.
      + intros x [[]|Y]. now apply Sof_nil.
    - intros k0 Hk0. apply Sof_nil in Hk0. subst k0. split; [now left|]. exists f. split.
      + rewrite L3, Eon. exact Hl.
      + rewrite N3, Nat.eqb_refl. symmetry. apply rw_self.
    - intros k0 Hk0 Hk0o. apply Sof_nil in Hk0. contradiction.
    - intros k' r Hk' Hb. rewrite L3 in Hk'. destruct (beqb new k') eqn:E.
      + apply beqb_eq in E. subst k'. rewrite below_irrefl in Hb. discriminate.
      + rewrite (Hfree k' r Hk') in Hb. discriminate.
    - intros k r Hk Hb _. apply Hmem. now exists k.
    - intros r Hin. apply Hmem in Hin as (k & Hk & Hb). exists k. split; [exact Hk|]. split; [exact Hb|].
      intros Y. apply Sof_nil in Y. subst k. rewrite below_irrefl in Hb. discriminate.
    - apply (Permutation_NoDup (Permutation_sym Hperm)). apply nodup_map_snd.
      + intros k1 k2 r H1 H2. apply filter_In in H1 as [H1 B1], H2 as [H2 B2]. cbn [fst] in B1, B2.
        apply (in_aget _ _ _ (g_nodup _ _ _ _ G3)) in H1, H2.
        apply (GWF_inj _ _ _ s3 k1 k2 r G3); auto.
        * intros [[]|Y]. subst k1. change (prefixb (old ++ s_slash) old) with (below old old) in B1. rewrite below_irrefl in B1. discriminate.
        * intros [[]|Y]. subst k2. change (prefixb (old ++ s_slash) old) with (below old old) in B2. rewrite below_irrefl in B2. discriminate.
      + apply nodup_filter. apply (g_nodup _ _ _ _ G3).
    - unfold find_descendants. apply (sort_sorted (fun r => depth (node_name s3 r))).
    - intros a r n Hba Hla Hna. rewrite L3 in Hla. destruct (beqb new a) eqn:E.
      + apply beqb_eq in E. subst a. rewrite below_irrefl in Hba. discriminate.
      + assert (Ak : attrs_kept s s3).
        { eapply attrs_kept_trans; [apply (attrs_upd s q0 (del_kid old)); reflexivity | apply (attrs_move s1 f new)]. }
        destruct Ak as (Alen & _ & Aat). destruct (get_node s r) as [n0|] eqn:Hn0.
        * destruct (Aat r n0 Hn0) as (n' & Hn' & Ea). rewrite Hna in Hn'. inversion Hn'; subst n'.
          apply (f_equal (fun t => fst (fst (fst (fst (fst (fst t))))))) in Ea. cbn in Ea. rewrite Ea. exact (Hpnew a r n0 Hba Hla Hn0).
        * exfalso. apply get_some_lt in Hna. rewrite Alen in Hna. unfold get_node in Hn0. apply nth_error_None in Hn0. lia.
    - split; [constructor | intros []].
    - split; [rewrite L3, beqb_refl; reflexivity | rewrite N3, Nat.eqb_refl; reflexivity]. }
  assert (F0 : LF s3 s3).
  { split; [apply attrs_kept_refl | reflexivity|]. intros x r Hx Hlx. exfalso. rewrite L3 in Hlx.
    destruct (beqb new x) eqn:E; [apply beqb_eq in E; subst x; rewrite below_irrefl in Hx; discriminate|].
    rewrite (Hfree x r Hlx) in Hx. discriminate. }
  destruct (rename_descs_loop s3 _ _ _ R0 F0) as (s4 & removes & Hloop & R4 & F4).
  pose proof (RInv_DInv _ _ R4) as D4.
  destruct (ri_rm _ _ _ R4) as [Hnd Hno].
  assert (Hnd' : NoDup (removes ++ [old])) by (now apply nodup_snoc).
  assert (Eks : forall x, In x (removes ++ [old]) <-> Sof removes x).
  { intros x. unfold Sof. rewrite in_app_iff. cbn. intuition congruence. }
  pose proof (del_all _ _ Hnd' D4) as D6.
  pose proof (lookup_fold_del (removes ++ [old]) s4) as L6.
  pose proof (mheap_fold_del (removes ++ [old]) s4) as H6.
  pose proof (mhandles_fold_del (removes ++ [old]) s4) as Hh6.
  rewrite fold_left_app in D6, L6, H6, Hh6. cbn [fold_left] in D6, L6, H6, Hh6.
  set (s5 := fold_left del_key removes s4) in *. set (s6 := del_key s5 old) in *.
  assert (Ebody : rename_body s = (reg s6 f 0, ROk)).
  { unfold rename_body. rewrite Hun. cbv zeta. fold s3. rewrite Hloop. rewrite (fold_del_key removes s4). reflexivity. }
  rewrite Ebody. cbn [fst snd]. split; [reflexivity|].
  pose proof D6 as [G6 _ Hall6 Hpn6 [Hfl6 Hfn6]].
  assert (G6' : GWF (inl []) Dnew kempty s6) by (eapply GWF_ext; [| | |exact G6]; [tauto | auto | intros x []]).
  destruct (register_chain_Dc (S (length (node_name s6 f))) (inl []) Dnew s6 new f 0) as [G7 F7]; auto.
  { rewrite Hfn6. lia. }
  fold (reg s6 f 0) in G7, F7. set (s7 := reg s6 f 0) in *.
  split.
  { eapply GWF_to_WF; [| | |exact G7]; [intros x [[] _] | intros x [Y1 Y2]; contradiction | intros x []]. }
  (* the frame *)
  assert (Hks_at : forall x, In x (removes ++ [old]) -> atbelow old x /\ canon x).
  { intros x Hx. apply Eks in Hx. destruct (ri_S _ _ _ R4 x Hx) as (Hat & r & Hr & _). split; [exact Hat|].
    apply (g_canon _ _ _ _ (ri_g _ _ _ R4) x r Hr). }
  assert (L6' : forall x, ~ atbelow old x -> lookup s6 x = lookup s4 x).
  { intros x Hx. rewrite L6. destruct (in_dec str_eq_dec x (removes ++ [old])) as [I|I]; [|reflexivity].
    exfalso. apply Hx. now apply Hks_at. }
  assert (Hsub4 : forall k0, atbelow old k0 -> lookup s4 (rwk k0) = lookup s k0).
  { intros k0 [->|Hb].
    - rewrite rw_self. rewrite (lf_out _ _ F4 new (below_irrefl new)). rewrite L3, beqb_refl. now rewrite Hl.
    - assert (Hk0new : k0 <> new) by (intros ->; congruence).
      assert (E3 : lookup s3 k0 = lookup s k0).
      { rewrite L3. assert (E : beqb new k0 = false) by (apply beqb_neq; congruence). now rewrite E. }
      destruct (lookup s k0) as [r|] eqn:Hk0.
      + assert (Hc0 : canon k0) by (apply (g_canon _ _ _ _ W k0 r Hk0)).
        assert (Hnb : below new k0 = false).
        { destruct (below new k0) eqn:E; [|reflexivity]. exfalso. apply (disj k0 Hc0); now right. }
        assert (E4 : lookup s4 k0 = Some r) by (rewrite (lf_out _ _ F4 k0 Hnb); congruence).
        assert (HS : Sof removes k0).
        { destruct (Sof_dec removes k0) as [Y|N]; [exact Y|]. destruct (ri_todo _ _ _ R4 k0 r E4 Hb N). }
        destruct (ri_S _ _ _ R4 k0 HS) as (_ & r' & Hr' & Hrn). rewrite E4 in Hr'. inversion Hr'; subst r'.
        destruct (g_node _ _ _ _ (ri_g _ _ _ R4) _ _ E4) as (n & Hgn & Hln & _).
        rewrite <- (node_name_get s4 r n Hgn), Hrn in Hln. exact Hln.
      + destruct (lookup s4 (rwk k0)) as [r|] eqn:E4; [|reflexivity]. exfalso.
        assert (Hbn : below new (rwk k0) = true).
        { destruct (rw_at k0 (or_intror Hb)) as [E|E]; [|exact E].
          apply below_spec in Hb as [t ->]. rewrite rw_app in E.
          assert (Hlen := f_equal (@length _) E). rewrite app_length in Hlen. cbn in Hlen. lia. }
        destruct (lf_new _ _ F4 _ r Hbn E4) as (k1 & Hb1' & Erw & Hl1).
        apply rw_inj in Erw; [|now apply below_prefix | now apply below_prefix]. subst k1. congruence. }
  assert (A6 : attrs_kept s s6).
  { eapply attrs_kept_trans; [apply (attrs_upd s q0 (del_kid old)); reflexivity|].
    eapply attrs_kept_trans; [apply (attrs_move s1 f new)|].
    eapply attrs_kept_trans; [exact (lf_attrs _ _ F4)|].
    apply (attrs_kept_heap s4 s6); [exact H6 | exact Hh6]. }
  destruct A6 as (Alen & Ahd & Aat).
  assert (Hnew7 : forall k r, lookup s7 k = Some r -> lookup s6 k = None ->
            below k new = true /\ exists n, get_node s7 r = Some n /\ ndir n = true).
  { intros k r Hk Hk6. destruct (rf_new _ _ _ _ F7 k r Hk Hk6) as (Hb & n & Hnn & En). split; [exact Hb|].
    exists n. split; [exact Hnn|]. apply (f_equal ndir) in En. cbn in En. exact En. }
  assert (Hkeep7 : forall k r, lookup s6 k = Some r -> lookup s7 k = Some r) by (apply (rf_keep _ _ _ _ F7)).
  assert (Hnb_at : forall x, below x new = true -> atbelow new x -> False).
  { intros x Hbx [->|Hbx2]; [rewrite below_irrefl in Hbx; discriminate|]. apply below_shorter in Hbx. apply below_shorter in Hbx2. lia. }
  split.
  - intros k0 Hat.
    assert (E6 : lookup s6 (rwk k0) = lookup s k0).
    { rewrite L6. destruct (in_dec str_eq_dec (rwk k0) (removes ++ [old])) as [I|I]; [|now apply Hsub4].
      exfalso. destruct (Hks_at _ I) as [Hat2 Hc2]. apply (disj (rwk k0) Hc2 Hat2). now apply rw_at. }
    destruct (lookup s k0) as [r|] eqn:Hk0; [now apply Hkeep7|].
    destruct (lookup s7 (rwk k0)) as [r|] eqn:E7; [|reflexivity]. exfalso.
    destruct (Hnew7 _ r E7 E6) as (Hb & _). apply (Hnb_at (rwk k0) Hb). now apply rw_at.
  - intros k Hat. destruct (lookup s6 k) as [r|] eqn:E6; [destruct (Hall6 k r E6 Hat)|].
    destruct (lookup s7 k) as [r|] eqn:E7; [|reflexivity]. exfalso. destruct (Hnew7 k r E7 E6) as (Hb & _).
    destruct Hat as [->|Hat]; [congruence | rewrite (below_trans _ _ _ Hat Hb) in Hb1; discriminate].
  - intros k Ho' Hn'.
    assert (E6 : lookup s6 k = lookup s k).
    { rewrite (L6' k Ho').
      assert (Hnb : below new k = false) by (destruct (below new k) eqn:E; [exfalso; apply Hn'; now right | reflexivity]).
      rewrite (lf_out _ _ F4 k Hnb), L3.
      assert (E : beqb new k = false) by (apply beqb_neq; intros <-; apply Hn'; now left). now rewrite E. }
    destruct (lookup s k) as [r|] eqn:Hk; [left; now apply Hkeep7|].
    destruct (lookup s7 k) as [r|] eqn:E7; [|now left]. right. destruct (Hnew7 k r E7 E6) as (Hb & n & Hn7 & Hd).
    split; [reflexivity|]. split; [exact Hb|]. exists r, n. auto.
  - intros r n Hn0. destruct (Aat r n Hn0) as (n6 & Hn6 & Ea). destruct (rf_nodes _ _ _ _ F7 r n6 Hn6) as (n7 & Hn7 & En7).
    exists n7. split; [exact Hn7|]. destruct (with_kids_nil_fields _ _ En7) as (_ & A & _). unfold attrs in Ea. inversion Ea. congruence.
Qed.
End RenameG.
End RC.
