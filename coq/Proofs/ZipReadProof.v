(* Proofs/ZipReadProof.v — C14 for zipfs (patched variant, legacy = false): the buffer invariant
   of an open handle, exactness of Read/ReadAt/Seek/Close against the byte-array specification,
   absence of panics, EOF never early. *)
From AF Require Import Lib.Bytes Lib.Path Lib.Ops Gen.Consts Model.ByteFile Model.Archive Model.Zip
  Proofs.ArchiveLemmas.
Local Open Scope Z_scope.

Definition rdval (h : zh) : nat := match zrd h with Some r => r | None => 0%nat end.

(* an open handle on the file entry e: the offset is inside the file, the buffer is the prefix of
   the content the decompressor has delivered so far *)
Record z_ok (e : aentry) (h : zh) : Prop := mk_z_ok {
  zk_file : zfile h = Some e;
  zk_dir : zisdir h = false;
  zk_open : zclosed h = false;
  zk_off : 0 <= zoff h <= esize e;
  zk_buf : zbuf h = firstn (length (zbuf h)) (econtent e);
  zk_rd : rdval h = length (zbuf h) }.

Lemma z_ok_buf_le e h : z_ok e h -> (length (zbuf h) <= length (econtent e))%nat.
Proof.
  intros K. pose proof (f_equal (@length _) (zk_buf e h K)) as L.
  rewrite firstn_length in L. lia.
Qed.

Lemma fill_buffer_ok e h t :
  z_ok e h ->
  z_ok e (fst (fill_buffer e h t)) /\
  zoff (fst (fill_buffer e h t)) = zoff h /\
  Z.min t (esize e) <= zlen (zbuf (fst (fill_buffer e h t))) /\
  snd (fill_buffer e h t) = (if esize e <? t then Some (E KEOF) else None).
Proof.
  intros K. pose proof (z_ok_buf_le e h K) as Lb. destruct K as [Kf Kd Ko Koff Kb Kr].
  unfold fill_buffer. fold (rdval h). unfold esize in *. unfold zlen in *.
  set (c := econtent e) in *. set (buf := zbuf h) in *.
  assert (exists off' err', (if Z.of_nat (length c) <? t then (Z.of_nat (length c), Some (E KEOF)) else (t, None)) = (off', err')
          /\ off' = Z.min t (Z.of_nat (length c))
          /\ err' = (if Z.of_nat (length c) <? t then Some (E KEOF) else None)) as (off' & err' & -> & Hoff & Herr).
  { destruct (Z.of_nat (length c) <? t) eqn:Et; eexists _, _; repeat split; apply Z.ltb_lt in Et || apply Z.ltb_ge in Et; lia. }
  destruct (off' <=? Z.of_nat (length buf)) eqn:Ele.
  - apply Z.leb_le in Ele. cbn [fst snd].
    split; [constructor; cbn; unfold esize, zlen; try assumption; try lia
           | repeat split; cbn; try assumption; try lia].
  - apply Z.leb_gt in Ele.
    unfold read_full. set (k := Z.to_nat (off' - Z.of_nat (length buf))).
    set (b := firstn k (skipn (rdval h) c)).
    assert (Hk : (length buf + k = Z.to_nat off')%nat) by (unfold k; lia).
    assert (Hlen : length b = k).
    { unfold b. rewrite firstn_length, skipn_length, Kr. fold buf. lia. }
    assert (Hcat : buf ++ b = firstn (length buf + k) c).
    { unfold b. rewrite Kr. fold buf. rewrite Kb at 1. apply firstn_prefix_app. }
    destruct b as [|x b'] eqn:Eb; [cbn in Hlen; lia|].
    cbn [fst snd]. rewrite <- Eb in *.
    split; [constructor; cbn; unfold esize, zlen; try assumption; try lia
           | repeat split; cbn; try assumption; try lia].
    + rewrite Hcat. rewrite firstn_length. f_equal. lia.
    + rewrite app_length. lia.
    + rewrite app_length. lia.
Qed.

(* ---------------------------------------------------------------- one handle against the byte array *)
Definition Rz (e : aentry) (h : zh) (b : bh) : Prop :=
  bro b = true /\ zisdir h = false /\ zclosed h = bclosed b /\
  (bclosed b = false -> z_ok e h /\ zoff h = Z.of_nat (bpos b)).

Lemma pread_len c pos n : length (pread c pos n) = Nat.min n (length c - pos).
Proof. unfold pread. now rewrite firstn_length, skipn_length. Qed.

Lemma proj14_read_none i n x : proj14 (HRead i n) (RData x None) = PBytes x false.
Proof. destruct x; reflexivity. Qed.
Lemma proj14_read_eof i n x :
  proj14 (HRead i n) (RData x (Some (E KEOF))) = PBytes x (match x with [] => 0 <? n | _ => false end).
Proof. destruct x; reflexivity. Qed.

Lemma z_read_local e h b i n :
  Rz e h b ->
  proj14 (HRead i n) (snd (z_read h n)) = snd (bh_local true (econtent e) b (HRead i n)) /\
  Rz e (fst (z_read h n)) (fst (bh_local true (econtent e) b (HRead i n))).
Proof.
  intros (Hro & Hdir & Hcl & Hopen). unfold z_read, bh_local. rewrite Hdir, Hcl.
  destruct (bclosed b) eqn:Ec.
  { cbn [fst snd]. split; [reflexivity|]. repeat split; auto; congruence. }
  destruct (Hopen eq_refl) as [K Hoff]. rewrite (zk_file _ _ K).
  pose proof (fill_buffer_ok e h (zoff h + Z.max 0 n) K) as (K1 & Ho1 & Hmin & Herr).
  destruct (fill_buffer e h (zoff h + Z.max 0 n)) as [h1 err] eqn:Ef. cbn [fst snd] in *.
  pose proof (zk_off _ _ K) as Hrange. unfold esize, zlen in *.
  set (c := econtent e) in *.
  assert (Hnp : (zoff h <? 0) || (Z.of_nat (length (zbuf h1)) <? zoff h) = false).
  { apply orb_false_iff; split; [apply Z.ltb_ge|apply Z.ltb_ge]; lia. }
  rewrite Hnp. cbn [fst snd].
  assert (Hb : firstn (Z.to_nat (Z.max 0 n)) (skipn (Z.to_nat (zoff h)) (zbuf h1)) = pread c (bpos b) (Z.to_nat n)).
  { rewrite (zk_buf _ _ K1). fold c. unfold pread.
    replace (Z.to_nat (Z.max 0 n)) with (Z.to_nat n) by lia.
    replace (Z.to_nat (zoff h)) with (bpos b) by lia.
    apply pread_prefix. lia. }
  rewrite Hb. set (x := pread c (bpos b) (Z.to_nat n)) in *.
  pose proof (pread_len c (bpos b) (Z.to_nat n)) as Lx. fold x in Lx.
  split.
  - subst err. destruct (Z.of_nat (length c) <? zoff h + Z.max 0 n) eqn:Et.
    + apply Z.ltb_lt in Et. rewrite proj14_read_eof. destruct x as [|x0 x'] eqn:Ex.
      * cbn. now destruct (0 <? n).
      * cbn -[Nat.eqb Z.ltb]. rewrite andb_false_r. reflexivity.
    + apply Z.ltb_ge in Et. rewrite proj14_read_none. f_equal.
      destruct (0 <? n) eqn:En; [|reflexivity]. apply Z.ltb_lt in En.
      symmetry. apply Nat.eqb_neq. lia.
  - split; [exact Hro|]. split; [cbn; now destruct K1|]. split; [cbn; now destruct K1|].
    intros _. destruct K1 as [F1 D1 O1 [L1 L2] B1 R1]. split; [|cbn; lia].
    constructor; cbn; auto. unfold esize, zlen. fold c. lia.
Qed.

Lemma z_readat_local e h b i n off :
  Rz e h b ->
  proj14 (HReadAt i n off) (snd (z_readat false h n off)) = snd (bh_local true (econtent e) b (HReadAt i n off)) /\
  Rz e (fst (z_readat false h n off)) (fst (bh_local true (econtent e) b (HReadAt i n off))).
Proof.
  intros HR0. pose proof HR0 as (Hro & Hdir & Hcl & Hopen). unfold z_readat, bh_local. rewrite Hdir, Hcl.
  destruct (bclosed b) eqn:Ec.
  { cbn [fst snd]. split; [reflexivity|exact HR0]. }
  destruct (Hopen eq_refl) as [K Hoff]. rewrite (zk_file _ _ K). cbn [negb andb].
  destruct (off <? 0) eqn:Eo.
  { cbn [fst snd]. split; [reflexivity|exact HR0]. }
  apply Z.ltb_ge in Eo.
  pose proof (fill_buffer_ok e h (off + Z.max 0 n) K) as (K1 & Ho1 & Hmin & Herr).
  destruct (fill_buffer e h (off + Z.max 0 n)) as [h1 err] eqn:Ef. cbn [fst snd] in *.
  pose proof (z_ok_buf_le _ _ K1) as Lb1.
  assert (HR : Rz e h1 b).
  { split; [exact Hro|]. destruct K1 as [F1 D1 O1 L1 B1 R1] eqn:EK. repeat split; auto; try congruence; apply L1. }
  unfold esize, zlen in *. set (c := econtent e) in *.
  destruct (Z.of_nat (length (zbuf h1)) <? off) eqn:El.
  - apply Z.ltb_lt in El. cbn [fst snd]. split; [|exact HR].
    assert (Hlt : Z.of_nat (length c) <? off + Z.max 0 n = true) by (apply Z.ltb_lt; lia).
    rewrite Hlt in Herr. subst err.
    assert (pread c (Z.to_nat off) (Z.to_nat n) = []) as ->.
    { unfold pread. rewrite skipn_all2 by lia. apply firstn_nil. }
    reflexivity.
  - apply Z.ltb_ge in El.
    cbn [orb].
    cbn [fst snd]. split; [|exact HR].
    assert (Hb : firstn (Z.to_nat (Z.max 0 n)) (skipn (Z.to_nat off) (zbuf h1)) = pread c (Z.to_nat off) (Z.to_nat n)).
    { rewrite (zk_buf _ _ K1). fold c. unfold pread.
      replace (Z.to_nat (Z.max 0 n)) with (Z.to_nat n) by lia.
      apply pread_prefix. lia. }
    rewrite Hb. set (x := pread c (Z.to_nat off) (Z.to_nat n)) in *.
    pose proof (pread_len c (Z.to_nat off) (Z.to_nat n)) as Lx. fold x in Lx.
    subst err. destruct (Z.of_nat (length c) <? off + Z.max 0 n) eqn:Et.
    + apply Z.ltb_lt in Et. cbn -[Z.ltb].
      assert (0 <? n = true) as -> by (apply Z.ltb_lt; lia).
      f_equal. symmetry. apply Z.ltb_lt. lia.
    + apply Z.ltb_ge in Et. cbn -[Z.ltb]. f_equal. symmetry. apply Z.ltb_ge. lia.
Qed.

Lemma z_seek_local e h b i off wh :
  Rz e h b ->
  proj14 (HSeek i off wh) (snd (z_seek h off wh)) = snd (bh_local true (econtent e) b (HSeek i off wh)) /\
  Rz e (fst (z_seek h off wh)) (fst (bh_local true (econtent e) b (HSeek i off wh))).
Proof.
  intros HR0. pose proof HR0 as (Hro & Hdir & Hcl & Hopen). unfold z_seek, bh_local, ok_whence. rewrite Hdir, Hcl.
  destruct (bclosed b) eqn:Ec.
  { cbn [fst snd]. split.
    - cbn. destruct (negb ((wh =? 0) || (wh =? 1) || (wh =? 2))); reflexivity.
    - exact HR0. }
  destruct (Hopen eq_refl) as [K Hoff]. rewrite (zk_file _ _ K).
  pose proof HR0 as HR.
  destruct (negb ((wh =? 0) || (wh =? 1) || (wh =? 2))) eqn:Ew.
  { cbn [fst snd]. split; [|exact HR]. cbn. rewrite Ew. reflexivity. }
  unfold esize. set (c := econtent e) in *.
  assert ((if wh =? 0 then off else if wh =? 1 then off + zoff h else off + zlen c) =
          (if wh =? 0 then off else if wh =? 1 then Z.of_nat (bpos b) + off else zlen c + off)) as ->.
  { destruct (wh =? 0), (wh =? 1); lia. }
  set (target := if wh =? 0 then off else if wh =? 1 then Z.of_nat (bpos b) + off else zlen c + off).
  cbn [andb].
  destruct (zlen c <? target) eqn:Eh.
  { rewrite orb_true_r. cbn [fst snd]. split; [|exact HR]. cbn. rewrite Ew. reflexivity. }
  rewrite orb_false_r. destruct (target <? 0) eqn:El.
  { cbn [fst snd]. split; [|exact HR]. cbn. rewrite Ew. reflexivity. }
  apply Z.ltb_ge in Eh, El. cbn [fst snd]. split.
  - reflexivity.
  - destruct K as [F1 D1 O1 L1 B1 R1]. split; [exact Hro|]. split; [exact Hdir|]. split; [exact Hcl|].
    intros _. split; [|cbn; lia]. constructor; cbn; auto.
Qed.

Lemma z_close_local e h b i :
  Rz e h b ->
  proj14 (HClose i) ROk = snd (bh_local true (econtent e) b (HClose i)) /\
  Rz e (z_close h) (fst (bh_local true (econtent e) b (HClose i))).
Proof.
  intros (Hro & Hdir & Hcl & Hopen). cbn. split; [reflexivity|]. repeat split; auto; discriminate.
Qed.

(* ---------------------------------------------------------------- whole states *)
(* the path q names the entry e in the index: what Open(q) finds *)
Definition zip_resolves (ix : index) (q : str) (e : aentry) : Prop :=
  is_empty (snd (splitpath q)) = false /\ idx_get ix (fst (splitpath q)) (snd (splitpath q)) = Some e.

Definition z_fresh (e : aentry) : zh := mkZH (Some e) (eisdir e) false 0 [] None.

Lemma z_open_resolves s q e :
  zip_resolves (zix s) q e ->
  z_open s q = (mkZS (zix s) (zhs s ++ [z_fresh e]), RHandle (length (zhs s))).
Proof.
  unfold zip_resolves, z_open, idx_get. destruct (splitpath q) as [d f]. cbn [fst snd].
  intros [-> H]. destruct (alist_get d (zix s)) as [m|]; [|discriminate]. now rewrite H.
Qed.

Lemma Rz_fresh e : eisdir e = false -> Rz e (z_fresh e) (mkBH 0 false true).
Proof.
  intros Hd. split; [reflexivity|]. split; [exact Hd|]. split; [reflexivity|]. intros _.
  split; [|reflexivity]. constructor; cbn; auto. pose proof (zlen_nonneg (econtent e)). unfold esize. lia.
Qed.

Lemma zip_step_sim e s bs o :
  eisdir e = false ->
  Forall2 (Rz e) (zhs s) (bhs bs) -> bdata bs = econtent e ->
  is_read_op o = true ->
  (forall q, o = Open q -> zip_resolves (zix s) q e) ->
  proj14 o (snd (zip_step false s o)) = snd (aspec_step true bs o) /\
  Forall2 (Rz e) (zhs (fst (zip_step false s o))) (bhs (fst (aspec_step true bs o))) /\
  bdata (fst (aspec_step true bs o)) = econtent e /\
  zix (fst (zip_step false s o)) = zix s.
Proof.
  intros Hd HF Hc Hop Hres.
  destruct o; cbn in Hop; try discriminate.
  - (* Open *)
    change (zip_step false s (Open p)) with (z_open s p).
    rewrite (z_open_resolves s p e (Hres p eq_refl)). cbn.
    repeat split; auto. apply Forall2_snoc; [exact HF|]. now apply Rz_fresh.
  - (* HRead *)
    pose proof (Forall2_nth_error _ _ _ h HF) as Hn. unfold zip_step.
    destruct (nth_error (zhs s) h) as [zh0|] eqn:Ez, (nth_error (bhs bs) h) as [b0|] eqn:Eb; try contradiction.
    + rewrite (aspec_step_local true bs (HRead h n) h b0 eq_refl Eb). rewrite Hc. cbn [fst snd zhs zix bhs bdata].
      destruct (z_read_local e zh0 b0 h n Hn) as [P R]. repeat split; auto. now apply Forall2_list_set.
    + rewrite (aspec_step_noslot true bs (HRead h n) h eq_refl Eb). cbn. auto.
  - (* HReadAt *)
    pose proof (Forall2_nth_error _ _ _ h HF) as Hn. unfold zip_step.
    destruct (nth_error (zhs s) h) as [zh0|] eqn:Ez, (nth_error (bhs bs) h) as [b0|] eqn:Eb; try contradiction.
    + rewrite (aspec_step_local true bs (HReadAt h n off) h b0 eq_refl Eb). rewrite Hc. cbn [fst snd zhs zix bhs bdata].
      destruct (z_readat_local e zh0 b0 h n off Hn) as [P R]. repeat split; auto. now apply Forall2_list_set.
    + rewrite (aspec_step_noslot true bs (HReadAt h n off) h eq_refl Eb). cbn. auto.
  - (* HSeek *)
    pose proof (Forall2_nth_error _ _ _ h HF) as Hn. unfold zip_step.
    destruct (nth_error (zhs s) h) as [zh0|] eqn:Ez, (nth_error (bhs bs) h) as [b0|] eqn:Eb; try contradiction.
    + rewrite (aspec_step_local true bs (HSeek h off whence) h b0 eq_refl Eb). rewrite Hc. cbn [fst snd zhs zix bhs bdata].
      destruct (z_seek_local e zh0 b0 h off whence Hn) as [P R]. repeat split; auto. now apply Forall2_list_set.
    + rewrite (aspec_step_noslot true bs (HSeek h off whence) h eq_refl Eb). cbn. auto.
  - (* HClose *)
    pose proof (Forall2_nth_error _ _ _ h HF) as Hn. unfold zip_step.
    destruct (nth_error (zhs s) h) as [zh0|] eqn:Ez, (nth_error (bhs bs) h) as [b0|] eqn:Eb; try contradiction.
    + rewrite (aspec_step_local true bs (HClose h) h b0 eq_refl Eb). rewrite Hc. cbn [fst snd zhs zix bhs bdata].
      destruct (z_close_local e zh0 b0 h Hn) as [P R]. repeat split; auto. now apply Forall2_list_set.
    + rewrite (aspec_step_noslot true bs (HClose h) h eq_refl Eb). cbn. auto.
Qed.

(* C14 (a) for zipfs: any program of Open/Read/ReadAt/Seek/Close over any number of handles of
   one file entry, started in any state whose handles agree with the byte array's *)
Theorem zip_reads_exact_from e : eisdir e = false -> forall prog s bs,
  Forall2 (Rz e) (zhs s) (bhs bs) -> bdata bs = econtent e ->
  (forall o, In o prog -> is_read_op o = true) ->
  (forall q, In (Open q) prog -> zip_resolves (zix s) q e) ->
  proj14_all prog (snd (arun (zip_step false) s prog)) = snd (aspec_run true bs prog).
Proof.
  intros Hd. induction prog as [|o prog IH]; intros s bs HF Hc Hops Hres; [reflexivity|].
  cbn [arun aspec_run].
  destruct (zip_step_sim e s bs o Hd HF Hc (Hops o (or_introl eq_refl))
              (fun q E => Hres q (or_introl E))) as (P & F' & C' & I').
  destruct (zip_step false s o) as [s1 r] eqn:Es. destruct (aspec_step true bs o) as [bs1 p] eqn:Eb.
  cbn [fst snd] in *.
  specialize (IH s1 bs1 F' C' (fun o' H => Hops o' (or_intror H))).
  rewrite I' in IH. specialize (IH (fun q H => Hres q (or_intror H))).
  destruct (arun (zip_step false) s1 prog) as [s2 rs]. destruct (aspec_run true bs1 prog) as [bs2 ps].
  cbn [fst snd proj14_all] in *. now rewrite P, IH.
Qed.

(* ---------------------------------------------------------------- no panics, for every operation *)
(* every open handle on a file is z_ok for its entry (directories and closed handles never reach a
   slice expression) *)
Definition z_inv (h : zh) : Prop := zisdir h = false -> zclosed h = false -> exists e, z_ok e h.
Definition zs_inv (s : zst) : Prop := Forall z_inv (zhs s).

Lemma Rz_of_ok e h : z_ok e h -> Rz e h (mkBH (Z.to_nat (zoff h)) false true).
Proof.
  intros K. split; [reflexivity|]. split; [apply K|]. split; [apply K|]. intros _. split; [exact K|].
  cbn. pose proof (zk_off _ _ K). lia.
Qed.

Lemma Rz_inv e h b : Rz e h b -> z_inv h.
Proof. intros (_ & _ & Hcl & Hopen) _ Ho. exists e. apply Hopen. congruence. Qed.

Lemma bh_local_not99 strict c b o : snd (bh_local strict c b o) <> PErr 99.
Proof.
  destruct o; cbn; try discriminate.
  - destruct (bclosed b); cbn; discriminate.
  - destruct (bclosed b); cbn; [discriminate|]. destruct (off <? 0); cbn; discriminate.
  - destruct (bclosed b); cbn; [discriminate|]. destruct (negb (ok_whence whence)); cbn; [discriminate|].
    match goal with |- context [if ?c then _ else _] => destruct c end; cbn; [discriminate|].
    match goal with |- context [if ?c then _ else _] => destruct c end; cbn; discriminate.
Qed.

Lemma proj14_panic o : proj14 o RPanic = PErr 99.
Proof. destruct o; reflexivity. Qed.

Lemma z_handle_op_inv h :
  z_inv h ->
  (forall n, snd (z_read h n) <> RPanic /\ z_inv (fst (z_read h n))) /\
  (forall n off, snd (z_readat false h n off) <> RPanic /\ z_inv (fst (z_readat false h n off))) /\
  (forall off wh, snd (z_seek h off wh) <> RPanic /\ z_inv (fst (z_seek h off wh))).
Proof.
  intros Hi. unfold z_inv in Hi.
  destruct (zisdir h) eqn:Ed.
  { repeat split; intros; unfold z_read, z_readat, z_seek; rewrite Ed; cbn; try discriminate; congruence. }
  destruct (zclosed h) eqn:Ec.
  { repeat split; intros; unfold z_read, z_readat, z_seek; rewrite Ed, Ec; cbn; try discriminate; congruence. }
  destruct (Hi eq_refl eq_refl) as [e K]. pose proof (Rz_of_ok e h K) as R.
  repeat split; intros.
  - destruct (z_read_local e h _ 0%nat n R) as [P _]. intros E. rewrite E, proj14_panic in P.
    symmetry in P. now apply bh_local_not99 in P.
  - destruct (z_read_local e h _ 0%nat n R) as [_ R']. now apply Rz_inv in R'.
  - destruct (z_readat_local e h _ 0%nat n off R) as [P _]. intros E. rewrite E, proj14_panic in P.
    symmetry in P. now apply bh_local_not99 in P.
  - destruct (z_readat_local e h _ 0%nat n off R) as [_ R']. now apply Rz_inv in R'.
  - destruct (z_seek_local e h _ 0%nat off wh R) as [P _]. intros E. rewrite E, proj14_panic in P.
    symmetry in P. now apply bh_local_not99 in P.
  - destruct (z_seek_local e h _ 0%nat off wh R) as [_ R']. now apply Rz_inv in R'.
Qed.

Lemma z_inv_fresh e : z_inv (z_fresh e).
Proof.
  intros Hd _. exists e. destruct (Rz_fresh e Hd) as (_ & _ & _ & H). now apply H.
Qed.

Lemma z_open_inv s p : zs_inv s -> snd (z_open s p) <> RPanic /\ zs_inv (fst (z_open s p)).
Proof.
  intros Hi. unfold z_open. destruct (splitpath p) as [d f].
  destruct (is_empty f).
  { cbn. split; [discriminate|]. apply Forall_app; split; [exact Hi|]. constructor; [|constructor].
    intros Hd; cbn in Hd; discriminate. }
  destruct (alist_get d (zix s)) as [m|]; [|cbn; split; [discriminate|exact Hi]].
  destruct (alist_get f m) as [e|]; [|cbn; split; [discriminate|exact Hi]].
  cbn. split; [discriminate|]. apply Forall_app; split; [exact Hi|]. constructor; [|constructor].
  apply z_inv_fresh.
Qed.

Lemma zip_step_inv s o :
  zs_inv s -> snd (zip_step false s o) <> RPanic /\ zs_inv (fst (zip_step false s o)).
Proof.
  intros Hi.
  assert (Hh : forall i h, nth_error (zhs s) i = Some h -> z_inv h).
  { intros i h E. eapply Forall_nth_error; eauto. }
  destruct o; unfold zip_step;
    try (cbn; split; [discriminate|exact Hi]);
    try (destruct (nth_error (zhs s) h) as [h0|] eqn:En; [|cbn; split; [discriminate|exact Hi]]).
  - (* Open *) now apply z_open_inv.
  - (* OpenFile *) destruct (negb (flag =? o_rdonly)); [cbn; split; [discriminate|exact Hi]|now apply z_open_inv].
  - (* Stat *)
    cbn [fst snd]. split; [|exact Hi]. unfold z_stat. destruct (splitpath p) as [d f].
    destruct (is_empty f); [discriminate|]. destruct (alist_get d (zix s)) as [m|]; [|discriminate].
    destruct (alist_get f m); discriminate.
  - (* HRead *)
    destruct (z_handle_op_inv h0 (Hh _ _ En)) as (H1 & _ & _). destruct (H1 n) as [P I].
    cbn [fst snd]. split; [exact P|]. now apply Forall_list_set.
  - (* HReadAt *)
    destruct (z_handle_op_inv h0 (Hh _ _ En)) as (_ & H1 & _). destruct (H1 n off) as [P I].
    cbn [fst snd]. split; [exact P|]. now apply Forall_list_set.
  - (* HWrite *) cbn; split; [discriminate|exact Hi].
  - (* HWriteAt *) cbn; split; [discriminate|exact Hi].
  - (* HWriteString *) cbn; split; [discriminate|exact Hi].
  - (* HSeek *)
    destruct (z_handle_op_inv h0 (Hh _ _ En)) as (_ & _ & H1). destruct (H1 off whence) as [P I].
    cbn [fst snd]. split; [exact P|]. now apply Forall_list_set.
  - (* HTruncate *) cbn; split; [discriminate|exact Hi].
  - (* HClose *)
    cbn [fst snd]. split; [discriminate|]. apply Forall_list_set; [exact Hi|].
    intros _ Hc; cbn in Hc; discriminate.
  - (* HReaddir *)
    cbn [fst snd]. split; [|exact Hi]. unfold z_readdir. destruct (z_dir_entries (zix s) h0); discriminate.
  - (* HReaddirnames *)
    cbn [fst snd]. split; [|exact Hi]. unfold z_readdirnames. destruct (z_dir_entries (zix s) h0); discriminate.
  - (* HStat *) cbn [fst snd]. split; [|exact Hi]. unfold z_hstat. destruct (zfile h0); discriminate.
  - (* HName *) cbn; split; [discriminate|exact Hi].
  - (* HSync *) cbn; split; [discriminate|exact Hi].
Qed.

Lemma zip_run_inv prog : forall s, zs_inv s ->
  ~ In RPanic (snd (arun (zip_step false) s prog)) /\ zs_inv (fst (arun (zip_step false) s prog)).
Proof.
  induction prog as [|o prog IH]; intros s Hi; [cbn; tauto|].
  cbn [arun]. destruct (zip_step_inv s o Hi) as [P I].
  destruct (zip_step false s o) as [s1 r]. cbn [fst snd] in *.
  destruct (IH s1 I) as [P' I']. destruct (arun (zip_step false) s1 prog) as [s2 rs]. cbn [fst snd] in *.
  split; [|exact I']. intros [E|H]; [now apply P|now apply P'].
Qed.

(* C14 (b) for zipfs: whatever the archive and whatever the program (all operations, any number of
   handles on any entries, any offsets), no call panics *)
Theorem zip_never_panics : forall (a : archive) (prog : list op), ~ In RPanic (zip_run false a prog).
Proof. intros a prog. apply zip_run_inv. constructor. Qed.

(* ---------------------------------------------------------------- EOF is never early *)
Lemma z_read_eof h n x er :
  z_inv h -> snd (z_read h n) = RData x (Some er) -> is_eof er = true ->
  exists e, zfile (fst (z_read h n)) = Some e /\ zoff (fst (z_read h n)) = esize e.
Proof.
  intros Hi. unfold z_read.
  destruct (zisdir h) eqn:Ed. { cbn. intros E; inversion E; subst; discriminate. }
  destruct (zclosed h) eqn:Ec. { cbn. intros E; inversion E; subst; discriminate. }
  destruct (Hi Ed Ec) as [e K]. rewrite (zk_file _ _ K).
  pose proof (fill_buffer_ok e h (zoff h + Z.max 0 n) K) as (K1 & Ho1 & Hmin & Herr).
  destruct (fill_buffer e h (zoff h + Z.max 0 n)) as [h1 err]. cbn [fst snd] in *.
  pose proof (zk_off _ _ K) as Hrange. pose proof (z_ok_buf_le _ _ K1) as Lb.
  destruct ((zoff h <? 0) || (zlen (zbuf h1) <? zoff h)) eqn:Enp; [discriminate|].
  apply orb_false_iff in Enp as [_ Hle]. apply Z.ltb_ge in Hle.
  cbn [fst snd]. intros E Heof. inversion E; subst x err. exists e. split; [cbn; apply K1|].
  destruct (esize e <? zoff h + Z.max 0 n) eqn:Et; [|discriminate]. apply Z.ltb_lt in Et.
  cbn. unfold zlen. rewrite firstn_length, skipn_length. unfold esize, zlen in *. lia.
Qed.

Theorem zip_eof_only_at_end : forall (a : archive) (prog : list op) (i : nat) (n : Z) x er,
  let s := fst (arun (zip_step false) (zip_init false a) prog) in
  snd (zip_step false s (HRead i n)) = RData x (Some er) -> is_eof er = true ->
  exists h e, nth_error (zhs (fst (zip_step false s (HRead i n)))) i = Some h /\
              zfile h = Some e /\ zoff h = esize e.
Proof.
  intros a prog i n x er s. 
  assert (Hi : zs_inv s) by (apply zip_run_inv; constructor).
  unfold zip_step. destruct (nth_error (zhs s) i) as [h|] eqn:En; [|cbn; discriminate].
  cbn [fst snd zhs]. intros E Heof.
  destruct (z_read_eof h n x er (Forall_nth_error _ _ _ _ Hi En) E Heof) as (e & F & O).
  exists (fst (z_read h n)), e. split; [|auto]. eapply nth_error_list_set_same; eauto.
Qed.
