(* Proofs/CowViewProof.v — C06, the lookup half: which inner filesystem answers a call made
   through a CopyOnWriteFs, over two ARBITRARY inner filesystems.  Overlay entry if the overlay
   has one, else the base's; refusals (EPERM / EEXIST) that only Stat the inner filesystems;
   write opens always hand out a handle of the overlay, whose methods go straight to it. *)
From AF Require Import Lib.Bytes Lib.Path Lib.Ops Gen.Consts Model.MemFile Model.ReadOnly Model.Union Model.Cow.
Local Open Scope Z_scope.

Section View.
Context {B L : Type} (bstep : B -> op -> B * res) (lstep : L -> op -> L * res).
Notation cow := (cow_step bstep lstep).

(* ---------------- Stat: overlay first, base only for "does not exist" ---------------- *)
Theorem cow_stat_overlay sb sl tbl p sl1 fi :
  lstep sl (Stat p) = (sl1, RInfo fi) ->
  cow (sb, sl, tbl) (Stat p) = ((sb, sl1, tbl), RInfo fi).
Proof. intros E. cbn [cow_step]. now rewrite E. Qed.

Theorem cow_stat_base sb sl tbl p sl1 e :
  lstep sl (Stat p) = (sl1, RErr e) -> cow_is_not_exist e = true ->
  cow (sb, sl, tbl) (Stat p) = ((fst (bstep sb (Stat p)), sl1, tbl), snd (bstep sb (Stat p))).
Proof.
  intros E Hn. cbn [cow_step]. rewrite E. cbn [err_of res_err]. rewrite Hn.
  destruct (bstep sb (Stat p)); reflexivity.
Qed.

(* any other overlay error is the answer; the base is not consulted *)
Theorem cow_stat_overlay_error sb sl tbl p sl1 e :
  lstep sl (Stat p) = (sl1, RErr e) -> cow_is_not_exist e = false ->
  cow (sb, sl, tbl) (Stat p) = ((sb, sl1, tbl), RErr e).
Proof. intros E Hn. cbn [cow_step]. rewrite E. cbn [err_of res_err]. now rewrite Hn. Qed.

(* ---------------- Open: the same rule for contents ---------------- *)
Definition is_info (r : res) : bool := match r with RInfo _ => true | _ => false end.

Lemma is_base_file_overlay_has sb sl p sl1 fi :
  lstep sl (Stat p) = (sl1, RInfo fi) -> is_base_file bstep lstep sb sl p = (sb, sl1, false, None).
Proof. intros E. unfold is_base_file. now rewrite E. Qed.

Lemma is_base_file_base_only sb sl p sl1 r sb1 fi :
  lstep sl (Stat p) = (sl1, r) -> is_info r = false -> bstep sb (Stat p) = (sb1, RInfo fi) ->
  is_base_file bstep lstep sb sl p = (sb1, sl1, true, None).
Proof. intros E Hr Eb. unfold is_base_file. rewrite E, Eb. destruct r; try reflexivity; discriminate. Qed.

(* the overlay has a non-directory at p: Open is the overlay's Open, the base is not touched *)
Theorem cow_open_overlay_file sb sl tbl p sl1 fi sl2 fi' :
  lstep sl (Stat p) = (sl1, RInfo fi) -> lstep sl1 (Stat p) = (sl2, RInfo fi') -> fi_dir fi' = false ->
  cow (sb, sl, tbl) (Open p) = open_layer lstep sb sl2 tbl (Open p).
Proof.
  intros E1 E2 Hd. cbn [cow_step]. unfold cow_open. rewrite (is_base_file_overlay_has sb sl p sl1 fi E1).
  unfold l_is_dir. now rewrite E2, Hd.
Qed.

(* the overlay has no entry at p and the base has one: Open is the base's Open *)
Theorem cow_open_base_only sb sl tbl p sl1 r sb1 fi :
  lstep sl (Stat p) = (sl1, r) -> is_info r = false -> bstep sb (Stat p) = (sb1, RInfo fi) ->
  cow (sb, sl, tbl) (Open p) = open_base bstep sb1 sl1 tbl (Open p).
Proof.
  intros E Hr Eb. cbn [cow_step]. unfold cow_open. now rewrite (is_base_file_base_only sb sl p sl1 r sb1 fi E Hr Eb).
Qed.

(* a directory in both: a union handle over the two directory handles, fresh listing state *)
Theorem cow_open_both_dirs sb sl tbl p sl1 fi sl2 fi' sb1 fib sb2 bh sl3 lh :
  lstep sl (Stat p) = (sl1, RInfo fi) -> lstep sl1 (Stat p) = (sl2, RInfo fi') -> fi_dir fi' = true ->
  bstep sb (Stat p) = (sb1, RInfo fib) -> fi_dir fib = true ->
  bstep sb1 (Open p) = (sb2, RHandle bh) -> lstep sl2 (Open p) = (sl3, RHandle lh) ->
  cow (sb, sl, tbl) (Open p) =
    ((sb2, sl3, tbl ++ [HU (mkUF (Some bh) (Some lh) 0 [])]), RHandle (length tbl)).
Proof.
  intros E1 E2 Hd Eb Hbd Ebo Elo. cbn [cow_step]. unfold cow_open.
  rewrite (is_base_file_overlay_has sb sl p sl1 fi E1). unfold l_is_dir, b_is_dir. rewrite E2, Hd, Eb, Hbd, Ebo, Elo.
  reflexivity.
Qed.

(* ---------------- refusals that only look: the view cannot change ---------------- *)
(* Rename of a name that only the base has: EPERM; the inner filesystems were only Stat'ed *)
Theorem cow_rename_base_only sb sl tbl p q sl1 r sb1 fi :
  lstep sl (Stat p) = (sl1, r) -> is_info r = false -> bstep sb (Stat p) = (sb1, RInfo fi) ->
  cow (sb, sl, tbl) (Rename p q) = ((sb1, sl1, tbl), RErr (E KEPERM)).
Proof.
  intros E Hr Eb. cbn [cow_step]. now rewrite (is_base_file_base_only sb sl p sl1 r sb1 fi E Hr Eb).
Qed.

(* Remove / RemoveAll of a name the overlay reports as ENOENT and the base has: EPERM *)
Theorem cow_remove_base_only sb sl tbl p sl1 sb1 fi :
  lstep sl (Remove p) = (sl1, RErr (E KENOENT)) -> bstep sb (Stat p) = (sb1, RInfo fi) ->
  cow (sb, sl, tbl) (Remove p) = ((sb1, sl1, tbl), RErr (E KEPERM)).
Proof. intros E Eb. cbn [cow_step]. rewrite E. cbn. now rewrite Eb. Qed.
Theorem cow_removeall_base_only sb sl tbl p sl1 sb1 fi :
  lstep sl (RemoveAll p) = (sl1, RErr (E KENOENT)) -> bstep sb (Stat p) = (sb1, RInfo fi) ->
  cow (sb, sl, tbl) (RemoveAll p) = ((sb1, sl1, tbl), RErr (E KEPERM)).
Proof. intros E Eb. cbn [cow_step]. rewrite E. cbn. now rewrite Eb. Qed.

(* whenever the overlay's Remove/RemoveAll fails, the union call fails, no handle changes, and the
   only other inner call is (at most) a Stat on the base *)
Theorem cow_remove_failed sb sl tbl o p sl1 er :
  o = Remove p \/ o = RemoveAll p -> lstep sl o = (sl1, RErr er) ->
  exists e', (cow (sb, sl, tbl) o = ((sb, sl1, tbl), RErr e') \/
              cow (sb, sl, tbl) o = ((fst (bstep sb (Stat p)), sl1, tbl), RErr e')).
Proof.
  intros [-> | ->] El; cbn [cow_step]; rewrite El;
    (destruct (errk_eqb (ek er) KENOENT && negb (ewrapped er)); [|exists er; now left]);
    destruct (bstep sb (Stat p)) as [sb1 rb]; cbn [fst];
    (destruct rb; [..]; (exists (E KEPERM); now right) || (exists (E KENOENT); now right)).
Qed.

(* Mkdir (cow_mkdir_checks_union = 1, read from copyOnWriteFs.go): `if _, err := u.Stat(name); err == nil`
   — a name the union's own Stat finds, in the overlay or (overlay: "does not exist") in the base, as a
   directory or as a file — is refused with &PathError{Err: ErrFileExists}; only Stat was called *)
Lemma cow_mkdir_checks_union_on : cow_mkdir_checks_union = 1.
Proof. reflexivity. Qed.

Theorem cow_mkdir_overlay_entry sb sl tbl p perm sl1 fi :
  lstep sl (Stat p) = (sl1, RInfo fi) ->
  cow (sb, sl, tbl) (Mkdir p perm) = ((sb, sl1, tbl), RErr (EW KExist)).
Proof.
  intros E. cbn [cow_step]. rewrite cow_mkdir_checks_union_on. change (1 =? 1) with true. cbv iota.
  now rewrite E.
Qed.

(* Mkdir of a name (directory or not) the base has and the overlay reports as not existing: EEXIST;
   the overlay was only Stat'ed *)
Theorem cow_mkdir_base_dir sb sl tbl p perm sl1 r sb1 fi :
  lstep sl (Stat p) = (sl1, r) -> is_info r = false -> cow_is_not_exist (err_of r) = true ->
  bstep sb (Stat p) = (sb1, RInfo fi) ->
  cow (sb, sl, tbl) (Mkdir p perm) = ((sb1, sl1, tbl), RErr (EW KExist)).
Proof.
  intros E Hr Hn Eb. cbn [cow_step]. rewrite cow_mkdir_checks_union_on. change (1 =? 1) with true. cbv iota.
  rewrite E. destruct r; try discriminate Hr; rewrite Hn, Eb; reflexivity.
Qed.

(* the same with views: if Stat changes nothing an observer can see on either side, and a FAILED
   call leaves the overlay as it was, these refused calls leave both views and the handle table
   unchanged *)
Section FailedView.
Context {VB VL : Type} (vb : B -> VB) (vl : L -> VL).
Hypothesis HbStat : forall s p, vb (fst (bstep s (Stat p))) = vb s.
Hypothesis HlStat : forall s p, vl (fst (lstep s (Stat p))) = vl s.
Hypothesis HlFail : forall s o, res_is_err (snd (lstep s o)) = true -> vl (fst (lstep s o)) = vl s.

Definition same_view (st st' : B * L * list chandle) : Prop :=
  vb (fst (fst st')) = vb (fst (fst st)) /\ vl (snd (fst st')) = vl (snd (fst st)) /\ snd st' = snd st.

Theorem cow_rename_base_only_view sb sl tbl p q fi :
  is_info (snd (lstep sl (Stat p))) = false -> snd (bstep sb (Stat p)) = RInfo fi ->
  snd (cow (sb, sl, tbl) (Rename p q)) = RErr (E KEPERM) /\
  same_view (sb, sl, tbl) (fst (cow (sb, sl, tbl) (Rename p q))).
Proof.
  intros Hr Hb. destruct (lstep sl (Stat p)) as [sl1 r] eqn:E. destruct (bstep sb (Stat p)) as [sb1 rb] eqn:Eb.
  cbn [snd] in *. subst rb. rewrite (cow_rename_base_only sb sl tbl p q sl1 r sb1 fi E Hr Eb).
  split; [reflexivity|]. unfold same_view. cbn [fst snd].
  pose proof (HbStat sb p) as H1. pose proof (HlStat sl p) as H2. rewrite Eb in H1. rewrite E in H2. now repeat split.
Qed.

Theorem cow_remove_failed_view sb sl tbl o p er :
  o = Remove p \/ o = RemoveAll p -> snd (lstep sl o) = RErr er ->
  res_is_err (snd (cow (sb, sl, tbl) o)) = true /\ same_view (sb, sl, tbl) (fst (cow (sb, sl, tbl) o)).
Proof.
  intros Ho Hl. destruct (lstep sl o) as [sl1 r] eqn:E. cbn [snd] in Hl. subst r.
  assert (Hv : vl sl1 = vl sl).
  { pose proof (HlFail sl o) as H. rewrite E in H. apply H. reflexivity. }
  destruct (cow_remove_failed sb sl tbl o p sl1 er Ho E) as [e' [H|H]]; rewrite H; split; try reflexivity;
    unfold same_view; cbn [fst snd]; repeat split; auto.
Qed.

(* Mkdir of any name the union's Stat finds *)
Theorem cow_mkdir_base_dir_view sb sl tbl p perm :
  is_info (snd (cow (sb, sl, tbl) (Stat p))) = true ->
  snd (cow (sb, sl, tbl) (Mkdir p perm)) = RErr (EW KExist) /\
  same_view (sb, sl, tbl) (fst (cow (sb, sl, tbl) (Mkdir p perm))).
Proof.
  intros Hs. destruct (lstep sl (Stat p)) as [sl1 r] eqn:E.
  pose proof (HlStat sl p) as H2. rewrite E in H2. cbn [fst] in H2.
  destruct (is_info r) eqn:Hr.
  - destruct r; try discriminate Hr.
    rewrite (cow_mkdir_overlay_entry sb sl tbl p perm sl1 fi E). split; [reflexivity|].
    unfold same_view. cbn [fst snd]. now repeat split.
  - assert (Hn : cow_is_not_exist (err_of r) = true /\ exists fi, snd (bstep sb (Stat p)) = RInfo fi).
    { cbn [cow_step] in Hs. rewrite E in Hs.
      destruct (cow_is_not_exist (err_of r)) eqn:Hc.
      - split; [reflexivity|]. destruct (bstep sb (Stat p)) as [sb1 rb].
        destruct r; try discriminate Hr; cbn [ret snd] in Hs; (destruct rb; try discriminate Hs; now eexists).
      - destruct r; try discriminate Hr; cbn [ret snd] in Hs; discriminate Hs. }
    destruct Hn as [Hn [fi Hb]]. destruct (bstep sb (Stat p)) as [sb1 rb] eqn:Eb. cbn [snd] in Hb. subst rb.
    rewrite (cow_mkdir_base_dir sb sl tbl p perm sl1 r sb1 fi E Hr Hn Eb). split; [reflexivity|].
    unfold same_view. cbn [fst snd]. pose proof (HbStat sb p) as H1. rewrite Eb in H1. now repeat split.
Qed.
End FailedView.

(* ---------------- write opens hand out overlay handles ---------------- *)
Lemma open_layer_handle (sb : B) sl tbl o st r :
  open_layer lstep sb sl tbl o = (st, r) ->
  match r with
  | RHandle i => exists h, snd st = tbl ++ [HL h] /\ i = length tbl /\ snd (lstep sl o) = RHandle h
  | _ => snd st = tbl
  end.
Proof.
  unfold open_layer. destruct (lstep sl o) as [sl1 rl] eqn:E.
  destruct rl; cbn [alloc_ch ret]; intros H; inversion H; subst; cbn [snd]; try reflexivity.
  exists h. now repeat split.
Qed.

(* OpenFile with any write-ish bit (and Create): a returned handle is ALWAYS an overlay handle
   appended to the table; on error the table is unchanged *)
Theorem cow_write_open_overlay_handle sb sl tbl p flag perm st r :
  Z.land flag cow_mask <> 0 ->
  cow (sb, sl, tbl) (OpenFile p flag perm) = (st, r) ->
  match r with
  | RHandle i => exists h, snd st = tbl ++ [HL h] /\ i = length tbl
  | _ => snd st = tbl
  end.
Proof.
  intros Hm. cbn [cow_step]. unfold cow_openfile.
  destruct (is_base_file bstep lstep sb sl p) as [[[sb1 sl1] b] e].
  assert (Hol : forall (sb' : B) sl' o st r, open_layer lstep sb' sl' tbl o = (st, r) ->
     match r with RHandle i => exists h, snd st = tbl ++ [HL h] /\ i = length tbl | _ => snd st = tbl end).
  { intros sb' sl' o st0 r0 H. pose proof (open_layer_handle sb' sl' tbl o st0 r0 H) as Ho.
    destruct r0; try exact Ho. destruct Ho as [h' [H1 [H2 _]]]. now exists h'. }
  assert (Hret : forall (sb' : B) (sl' : L) e', ret sb' sl' tbl (RErr e') = (st, r) ->
     match r with RHandle i => exists h, snd st = tbl ++ [HL h] /\ i = length tbl | _ => snd st = tbl end).
  { intros sb' sl' e' H. unfold ret in H. inversion H; subst. reflexivity. }
  destruct e; [apply Hret|].
  destruct (Z.land flag cow_mask =? 0) eqn:E; [apply Z.eqb_eq in E; contradiction|]. cbn [negb].
  destruct b.
  - destruct (copy_to_layer bstep lstep sb1 sl1 p) as [[sb2 sl2] [ce|]]; [apply Hret | apply Hol].
  - destruct (b_is_dir bstep sb1 (path_dir p)) as [sb2 [[|]|er]].
    + destruct (lstep sl1 (MkdirAll (path_dir p) 511)) as [sl2 rl]. destruct rl; try apply Hret. apply Hol.
    + destruct (l_is_dir lstep sl1 (path_dir p)) as [sl2 [[|]|er2]]; try apply Hret. apply Hol.
    + destruct (negb (is_not_exist er)); [apply Hret|].
      destruct (l_is_dir lstep sl1 (path_dir p)) as [sl2 [[|]|er2]]; try apply Hret. apply Hol.
Qed.

Lemma create_flag_is_write : Z.land (Z.lor (Z.lor o_create o_trunc) o_rdwr) cow_mask <> 0.
Proof. discriminate. Qed.

Theorem cow_create_overlay_handle sb sl tbl p st r :
  cow (sb, sl, tbl) (Create p) = (st, r) ->
  match r with
  | RHandle i => exists h, snd st = tbl ++ [HL h] /\ i = length tbl
  | _ => snd st = tbl
  end.
Proof.
  intros H. apply (cow_write_open_overlay_handle sb sl tbl p _ 438 st r create_flag_is_write).
  cbn [cow_step] in *. exact H.
Qed.

(* every method of an overlay handle goes straight to the overlay (so what was written through
   it is read back exactly as the overlay reads it back); the base is not called *)
Theorem cow_overlay_handle_transparent sb sl tbl o i h :
  op_handle_of o = Some i -> nth_error tbl i = Some (HL h) ->
  cow (sb, sl, tbl) o = ((sb, fst (lstep sl (op_set_handle o h)), tbl), snd (lstep sl (op_set_handle o h))).
Proof.
  intros Ho Hn. destruct o; try discriminate Ho; cbn [op_handle_of] in Ho; inversion Ho; subst;
    cbn [cow_step op_handle_of]; rewrite Hn; destruct (lstep sl _); reflexivity.
Qed.

(* and a base handle (read-only open of a base-only file) goes straight to the base *)
Theorem cow_base_handle_transparent sb sl tbl o i h :
  op_handle_of o = Some i -> nth_error tbl i = Some (HB h) ->
  cow (sb, sl, tbl) o = ((fst (bstep sb (op_set_handle o h)), sl, tbl), snd (bstep sb (op_set_handle o h))).
Proof.
  intros Ho Hn. destruct o; try discriminate Ho; cbn [op_handle_of] in Ho; inversion Ho; subst;
    cbn [cow_step op_handle_of]; rewrite Hn; destruct (bstep sb _); reflexivity.
Qed.
(* the three Stat cases in one statement *)
Theorem cow_stat_rule sb sl tbl p sl1 :
  (forall fi, lstep sl (Stat p) = (sl1, RInfo fi) ->
     cow (sb, sl, tbl) (Stat p) = ((sb, sl1, tbl), RInfo fi)) /\
  (forall e, lstep sl (Stat p) = (sl1, RErr e) -> cow_is_not_exist e = true ->
     cow (sb, sl, tbl) (Stat p) = ((fst (bstep sb (Stat p)), sl1, tbl), snd (bstep sb (Stat p)))) /\
  (forall e, lstep sl (Stat p) = (sl1, RErr e) -> cow_is_not_exist e = false ->
     cow (sb, sl, tbl) (Stat p) = ((sb, sl1, tbl), RErr e)).
Proof.
  split; [|split].
  - intros fi H. now apply cow_stat_overlay.
  - intros e H Hn. now apply (cow_stat_base sb sl tbl p sl1 e).
  - intros e H Hn. now apply cow_stat_overlay_error.
Qed.

(* a union (directory) handle: the call is the UnionFile method, the updated UnionFile is stored back *)
Theorem cow_union_handle sb sl tbl o i u :
  op_handle_of o = Some i -> nth_error tbl i = Some (HU u) ->
  cow (sb, sl, tbl) o =
    let '(sb1, sl1, u1, r) := uf_op bstep lstep sb sl u o in ((sb1, sl1, list_set i (HU u1) tbl), r).
Proof.
  intros Ho Hn. destruct o; try discriminate Ho; cbn [op_handle_of] in Ho; inversion Ho; subst;
    cbn [cow_step op_handle_of]; rewrite Hn; reflexivity.
Qed.
End View.

(* the refusals with views, in one statement *)
Theorem cow_refusals_view :
  forall (B L VB VL : Type) (bstep : B -> op -> B * res) (lstep : L -> op -> L * res) (vb : B -> VB) (vl : L -> VL),
  (forall s p, vb (fst (bstep s (Stat p))) = vb s) ->
  (forall s p, vl (fst (lstep s (Stat p))) = vl s) ->
  (forall s o, res_is_err (snd (lstep s o)) = true -> vl (fst (lstep s o)) = vl s) ->
  forall sb sl tbl,
  (forall p q fi, is_info (snd (lstep sl (Stat p))) = false -> snd (bstep sb (Stat p)) = RInfo fi ->
     snd (cow_step bstep lstep (sb, sl, tbl) (Rename p q)) = RErr (E KEPERM) /\
     same_view vb vl (sb, sl, tbl) (fst (cow_step bstep lstep (sb, sl, tbl) (Rename p q)))) /\
  (forall o p er, o = Remove p \/ o = RemoveAll p -> snd (lstep sl o) = RErr er ->
     res_is_err (snd (cow_step bstep lstep (sb, sl, tbl) o)) = true /\
     same_view vb vl (sb, sl, tbl) (fst (cow_step bstep lstep (sb, sl, tbl) o))) /\
  (forall p perm, is_info (snd (cow_step bstep lstep (sb, sl, tbl) (Stat p))) = true ->
     snd (cow_step bstep lstep (sb, sl, tbl) (Mkdir p perm)) = RErr (EW KExist) /\
     same_view vb vl (sb, sl, tbl) (fst (cow_step bstep lstep (sb, sl, tbl) (Mkdir p perm)))).
Proof.
  intros B L VB VL bstep lstep vb vl Hb Hl Hf sb sl tbl. split; [|split].
  - intros p q fi. now apply cow_rename_base_only_view.
  - intros o p er. now apply cow_remove_failed_view.
  - intros p perm. now apply cow_mkdir_base_dir_view.
Qed.
