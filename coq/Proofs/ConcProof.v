(* Proofs/ConcProof.v — theorems about the lock discipline model (Model/Conc.v), for ALL programs,
   thread counts and schedules:
   - every code fragment an action returns is well bracketed for the locks the action runs under
     ([cc_sem_ok], a finite case analysis over the action table);
   - invariant of the runs in which no panic leaked a lock: the lock state is the sum of what
     the threads hold, and every thread's remaining code is well bracketed ([cc_inv_run]);
   - hence no unlock error, no stuck configuration, actions run under their declared locks;
   - lockset: decided over the access table. *)
From Coq Require Import String.
From AF Require Import Lib.Bytes Lib.Path Lib.Ops Gen.Consts Model.MemFile Model.MemFs Model.Conc.
Local Open Scope nat_scope.

(* ------------------------------------------------------------------ lists *)
Lemma nth_list_set_eq {A} (l : list A) t v x :
  nth_error l t = Some x -> nth_error (list_set t v l) t = Some v.
Proof.
  revert t. induction l as [|y l IH]; intros [|t] H; cbn in *; try discriminate; auto.
Qed.

Lemma nth_list_set_ne {A} (l : list A) t t' v :
  t <> t' -> nth_error (list_set t v l) t' = nth_error l t'.
Proof.
  revert t t'. induction l as [|y l IH]; intros [|t] [|t'] H; cbn; try reflexivity; try congruence.
  apply IH. congruence.
Qed.

Lemma length_list_set {A} (l : list A) t v : length (list_set t v l) = length l.
Proof. revert t. induction l as [|y l IH]; intros [|t]; cbn; auto. Qed.

Lemma map_list_set {A B} (g : A -> B) (l : list A) t v :
  map g (list_set t v l) = list_set t (g v) (map g l).
Proof. revert t. induction l as [|y l IH]; intros [|t]; cbn; auto. now rewrite IH. Qed.

Lemma list_set_same {A} (l : list A) t x : nth_error l t = Some x -> list_set t x l = l.
Proof.
  revert t. induction l as [|y l IH]; intros [|t] H; cbn in *; try discriminate.
  - now inversion H.
  - now rewrite IH.
Qed.

Lemma nth_error_map_some {A B} (g : A -> B) (l : list A) t y :
  nth_error (map g l) t = Some y -> exists x, nth_error l t = Some x /\ g x = y.
Proof.
  revert t. induction l as [|a l IH]; intros [|t] H; cbn in *; try discriminate.
  - inversion H. eauto.
  - auto.
Qed.

(* ------------------------------------------------------------------ well-bracketed code *)
Definition is_nil {A} (l : list A) : bool := match l with [] => true | _ :: _ => false end.
(* how many file mutexes an action runs under *)
Definition ctx_len (a : cc_aid) : nat := if snd (fst (cc_ctx a)) then 1 else 0.
Definition cc_ctx_eqb (x : cc_hmu * bool * list cc_lk) (m : cc_hmu) (h : list nat) (d : list cc_lk) : bool :=
  cc_hmu_eqb (fst (fst x)) m && Nat.eqb (if snd (fst x) then 1 else 0) (length h) && cc_lks_eqb (snd x) d.

(* [cc_ok m h d code]: started while holding [m] of mu, the file mutexes [h] (innermost first), with
   the deferred unlocks [d] pending, [code] never releases what is not held, takes mu only when
   nothing is held, takes a file mutex only if it does not hold it already and - when it holds
   another file mutex - only with mu WRITE-locked (the nested holds of Rename), reaches every action
   under that action's declared locks and - if it ends - ends with deferred unlocks that release
   everything *)
Fixpoint cc_ok (m : cc_hmu) (h : list nat) (d : list cc_lk) (code : list cc_instr) : bool :=
  match code with
  | [] => cc_okd m (length h) d
  | CcAcq LkW _ :: r => cc_hmu_eqb m HNone && is_nil h && cc_ok HW h d r
  | CcAcq LkR _ :: r => cc_hmu_eqb m HNone && is_nil h && cc_ok HR h d r
  | CcAcq LkF x :: r => negb (cc_heldb x h) && (is_nil h || cc_hmu_eqb m HW) && cc_ok m (x :: h) d r
  | CcRel LkW :: r => cc_hmu_eqb m HW && cc_ok HNone h d r
  | CcRel LkR :: r => cc_hmu_eqb m HR && cc_ok HNone h d r
  | CcRel LkF :: r => negb (is_nil h) && cc_ok m (tl h) d r
  | CcDefer l :: r => cc_ok m h (l :: d) r
  | CcAct a :: r => match r with [] => cc_ctx_eqb (cc_ctx a) m h d | _ => false end
  end.

Lemma hmu_eqb_eq a b : cc_hmu_eqb a b = true -> a = b.
Proof. destruct a, b; cbn; congruence. Qed.
Lemma lk_eqb_eq a b : cc_lk_eqb a b = true -> a = b.
Proof. destruct a, b; cbn; congruence. Qed.
Lemma lks_eqb_eq a b : cc_lks_eqb a b = true -> a = b.
Proof.
  revert b. induction a as [|x a IH]; intros [|y b] H; cbn in H; try discriminate; auto.
  apply andb_true_iff in H as [H1 H2]. apply lk_eqb_eq in H1. apply IH in H2. congruence.
Qed.
Lemma is_nil_true {A} (l : list A) : is_nil l = true -> l = [].
Proof. destruct l; [reflexivity|discriminate]. Qed.

Lemma ctx_eqb_eq x m h d : cc_ctx_eqb x m h d = true ->
  x = (m, negb (is_nil h), d) /\ length h = (if snd (fst x) then 1 else 0).
Proof.
  destruct x as [[m' f'] d']. unfold cc_ctx_eqb. cbn. intros H.
  apply andb_true_iff in H as [H H3]. apply andb_true_iff in H as [H1 H2].
  apply hmu_eqb_eq in H1. apply Nat.eqb_eq in H2. apply lks_eqb_eq in H3. subst. split; [|now symmetry].
  destruct f', h as [|x [|y h]]; cbn in *; try discriminate; reflexivity.
Qed.

Lemma cc_ok_touches m d l rest :
  cc_ok m [] d (cc_touches l ++ rest) = cc_ok m [] d rest.
Proof. induction l as [|r l IH]; cbn; auto. Qed.

Lemma cc_ok_touches_nil m d l : cc_ok m [] d (cc_touches l) = cc_okd m 0 d.
Proof. rewrite <- (app_nil_r (cc_touches l)), cc_ok_touches. reflexivity. Qed.

Lemma cc_ra_next_ok keys : cc_ok HR [] [LkR] (cc_ra_next keys) = true.
Proof. destruct keys; reflexivity. Qed.

(* ---- the nested holds of Rename: under mu write-locked, [cc_touches_h] and [cc_holding] leave what
   is held as it was, whatever they are given ---- *)
Lemma cc_ok_touches_h h d l rest : cc_ok HW h d (cc_touches_h h l ++ rest) = cc_ok HW h d rest.
Proof.
  induction l as [|r l IH]; [reflexivity|]. unfold cc_touches_h in *. cbn [flat_map].
  destruct (cc_heldb r h) eqn:E; cbn [app]; [exact IH|].
  cbn [cc_ok]. rewrite E. cbn [negb andb cc_hmu_eqb is_nil tl]. rewrite orb_true_r. cbn [andb]. exact IH.
Qed.

Lemma cc_ok_holding d hs : forall h inner rest,
  (forall h' rest', cc_ok HW h' d (inner h' ++ rest') = cc_ok HW h' d rest') ->
  cc_ok HW h d (cc_holding h hs inner ++ rest) = cc_ok HW h d rest.
Proof.
  induction hs as [|r hs IH]; intros h inner rest Hin; cbn [cc_holding]; [apply Hin|].
  destruct (cc_heldb r h) eqn:E; [now apply IH|].
  cbn [app cc_ok]. rewrite E. cbn [negb andb cc_hmu_eqb]. rewrite orb_true_r. cbn [andb].
  rewrite <- app_assoc, IH by exact Hin. reflexivity.
Qed.

Lemma cc_ok_flat_map {A} d (g : A -> list cc_instr) l h rest :
  (forall x rest', cc_ok HW h d (g x ++ rest') = cc_ok HW h d rest') ->
  cc_ok HW h d (flat_map g l ++ rest) = cc_ok HW h d rest.
Proof.
  intros Hg. induction l as [|x l IH]; [reflexivity|]. cbn [flat_map]. now rewrite <- app_assoc, Hg.
Qed.

Lemma cc_rename_code_ok s p q d rest :
  cc_ok HW [] d (cc_rename_code s p q ++ rest) = cc_ok HW [] d rest.
Proof.
  unfold cc_rename_code. destruct (lookup s p) as [f|]; [|apply cc_ok_touches_h].
  apply cc_ok_holding. intros h' rest'.
  rewrite <- !app_assoc, cc_ok_touches_h, cc_ok_flat_map; [apply cc_ok_touches_h|].
  intros x rest2. destruct (filter _ _) as [|k kids]; [reflexivity|].
  destruct (prefixb _ _); [apply cc_ok_touches_h|].
  apply cc_ok_holding. intros h2 rest3. apply cc_ok_touches_h.
Qed.

(* code that consists of lock operations only *)
Definition cc_lockonly (code : list cc_instr) : bool :=
  forallb (fun i => match i with CcAcq _ _ | CcRel _ => true | _ => false end) code.
Lemma lockonly_touches_h h l : cc_lockonly (cc_touches_h h l) = true.
Proof. unfold cc_lockonly, cc_touches_h. induction l as [|r l IH]; [reflexivity|]. cbn [flat_map]. rewrite forallb_app, IH. destruct (cc_heldb r h); reflexivity. Qed.
Lemma lockonly_holding hs : forall h inner, (forall h', cc_lockonly (inner h') = true) -> cc_lockonly (cc_holding h hs inner) = true.
Proof.
  induction hs as [|r hs IH]; intros h inner Hin; cbn [cc_holding]; [apply Hin|].
  destruct (cc_heldb r h); [now apply IH|]. unfold cc_lockonly in *. cbn [forallb]. rewrite forallb_app, IH by exact Hin. reflexivity.
Qed.
Lemma lockonly_flat_map {A} (g : A -> list cc_instr) l : (forall x, cc_lockonly (g x) = true) -> cc_lockonly (flat_map g l) = true.
Proof. intros Hg. unfold cc_lockonly in *. induction l as [|x l IH]; [reflexivity|]. cbn [flat_map]. now rewrite forallb_app, Hg, IH. Qed.
Lemma lockonly_rename_code s p q : cc_lockonly (cc_rename_code s p q) = true.
Proof.
  unfold cc_rename_code. destruct (lookup s p) as [f|]; [|apply lockonly_touches_h].
  apply lockonly_holding. intros h'. unfold cc_lockonly. rewrite !forallb_app.
  fold (cc_lockonly (cc_touches_h h' (f :: find_descendants s p))). rewrite lockonly_touches_h.
  fold (cc_lockonly (cc_touches_h h' (cc_node_at s (cc_parent_path q)))). rewrite lockonly_touches_h. rewrite andb_true_r. cbn [andb].
  apply lockonly_flat_map. intros x. destruct (filter _ _) as [|k kids]; [reflexivity|].
  destruct (prefixb _ _); [apply lockonly_touches_h|]. apply lockonly_holding. intros h2. apply lockonly_touches_h.
Qed.

Definition cc_ok_ctx (a : cc_aid) (h : list nat) (code : list cc_instr) : bool :=
  cc_ok (fst (fst (cc_ctx a))) h (snd (cc_ctx a)) code.
Definition cc_okd_ctx (a : cc_aid) : bool :=
  cc_okd (fst (fst (cc_ctx a))) (ctx_len a) (snd (cc_ctx a)).

(* THE SECTION TABLE IS WELL BRACKETED: whatever an action finds in the shared state, the code it
   continues with is well bracketed for the locks it runs under; and if it panics, either the
   deferred unlocks registered so far release everything or the action is the one leaky section *)
Lemma cc_sem_ok a f s h : length h = ctx_len a ->
  match cc_sem a f s with
  | CcCont _ _ code => cc_ok_ctx a h code = true
  | CcPanic _ => cc_leaky a = true \/ cc_okd_ctx a = true
  end.
Proof.
  unfold cc_ok_ctx, cc_okd_ctx, ctx_len. intros Hlen.
  destruct a; cbn [cc_ctx fst snd] in Hlen; destruct h as [|x0 [|x1 h]]; try discriminate Hlen; clear Hlen;
    cbn [cc_sem cc_ctx fst snd cc_leaky];
    repeat match goal with
           | |- context [cc_ok _ [] _ (cc_touches _ ++ _)] => rewrite cc_ok_touches
           | |- context [cc_ok HW [] _ (cc_rename_code _ _ _ ++ _)] => rewrite cc_rename_code_ok
           | |- match (let '(_, _) := ?x in _) with _ => _ end => destruct x
           | |- match (match ?x with _ => _ end) with _ => _ end => destruct x
           | |- match (if ?x then _ else _) with _ => _ end => destruct x
           end;
    cbn [cc_ok cc_okd cc_hmu_eqb negb andb orb cc_ctx cc_ctx_eqb fst snd Nat.eqb Nat.ltb Nat.leb pred length tl is_nil cc_lks_eqb cc_lk_eqb cc_heldb existsb];
    try rewrite cc_ra_next_ok; try rewrite cc_ok_touches_nil;
    cbn [cc_ok cc_okd cc_hmu_eqb negb andb orb Nat.eqb Nat.ltb Nat.leb pred length];
    auto.
Qed.

Lemma cc_begin_ok lg o slots : cc_ok HNone [] [] (snd (cc_begin lg o slots)) = true.
Proof.
  destruct lg, o; cbn; try reflexivity;
    repeat match goal with |- context [match ?x with _ => _ end] => destruct x end; reflexivity.
Qed.

(* ------------------------------------------------------------------ the invariant *)
Definition cc_hasf (th : cc_thread) : bool := negb (is_nil (th_f th)).

Definition cc_th_wt (th : cc_thread) : Prop :=
  (th_active th = true /\ cc_ok (th_mu th) (th_f th) (th_defers th) (th_code th) = true) \/
  (th_active th = false /\ th_mu th = HNone /\ th_f th = [] /\ th_defers th = [] /\ th_code th = []).

Definition held_of (th : cc_thread) : cc_hmu * list nat := (th_mu th, th_f th).
Definition is_hr (h : cc_hmu * list nat) : bool := cc_hmu_eqb (fst h) HR.
Definition count_r (hs : list (cc_hmu * list nat)) : nat := length (filter is_hr hs).

(* the lock state is exactly the sum of what the threads hold *)
Definition mu_wf (mu : cc_mu) (hs : list (cc_hmu * list nat)) : Prop :=
  match mu with
  | CcFree => forall t h, nth_error hs t = Some h -> fst h = HNone
  | CcW t0 => (exists h0, nth_error hs t0 = Some h0 /\ fst h0 = HW) /\
              (forall t h, nth_error hs t = Some h -> t <> t0 -> fst h = HNone)
  | CcR n => n >= 1 /\ count_r hs = n /\ (forall t h, nth_error hs t = Some h -> fst h <> HW)
  end.
Definition f_wf (fm : nat -> option nat) (hs : list (cc_hmu * list nat)) : Prop :=
  (forall r t, fm r = Some t -> exists h, nth_error hs t = Some h /\ In r (snd h)) /\
  (forall t h r, nth_error hs t = Some h -> In r (snd h) -> fm r = Some t) /\
  (forall t h, nth_error hs t = Some h -> NoDup (snd h)).
Definition locks_wf (mu : cc_mu) (fm : nat -> option nat) (hs : list (cc_hmu * list nat)) : Prop :=
  mu_wf mu hs /\ f_wf fm hs.

Definition cc_inv (c : cc_cfg) : Prop :=
  locks_wf (cf_mu c) (cf_fm c) (map held_of (cf_threads c)) /\
  (forall t th, nth_error (cf_threads c) t = Some th -> cc_th_wt th).

Lemma count_r_list_set hs t old new :
  nth_error hs t = Some old ->
  count_r (list_set t new hs) + (if is_hr old then 1 else 0) = count_r hs + (if is_hr new then 1 else 0).
Proof.
  unfold count_r. revert t. induction hs as [|y hs IH]; intros [|t] H; cbn in *; try discriminate.
  - inversion H; subst. destruct (is_hr old), (is_hr new); cbn; lia.
  - specialize (IH t H). destruct (is_hr y); cbn; lia.
Qed.

Lemma count_r_pos hs : count_r hs >= 1 -> exists t h, nth_error hs t = Some h /\ fst h = HR.
Proof.
  unfold count_r. induction hs as [|y hs IH]; cbn; [lia|].
  destruct (is_hr y) eqn:Hy; cbn; intros H.
  - exists 0, y. split; [reflexivity|]. unfold is_hr in Hy. now apply hmu_eqb_eq.
  - destruct (IH H) as (t & h & Hn & Hh). exists (S t), h. auto.
Qed.

Lemma nth_held (ths : list cc_thread) t th :
  nth_error ths t = Some th -> nth_error (map held_of ths) t = Some (held_of th).
Proof. intros H. now rewrite nth_error_map, H. Qed.

Lemma nth_held_inv (ths : list cc_thread) t h :
  nth_error (map held_of ths) t = Some h -> exists th, nth_error ths t = Some th /\ held_of th = h.
Proof. apply nth_error_map_some. Qed.

(* what a thread that holds something tells about the lock state *)
Lemma wf_holds_w mu fm hs t h :
  locks_wf mu fm hs -> nth_error hs t = Some h -> fst h = HW -> mu = CcW t.
Proof.
  intros [Hmu _] Hn Hh. destruct mu as [|n|t0]; cbn in Hmu.
  - rewrite (Hmu t h Hn) in Hh. discriminate.
  - destruct Hmu as (_ & _ & Hno). now destruct (Hno t h Hn).
  - destruct Hmu as [_ Hoth]. destruct (Nat.eq_dec t t0) as [->|Hne]; [reflexivity|].
    rewrite (Hoth t h Hn Hne) in Hh. discriminate.
Qed.

Lemma wf_holds_r mu fm hs t h :
  locks_wf mu fm hs -> nth_error hs t = Some h -> fst h = HR -> exists n, mu = CcR (S n).
Proof.
  intros [Hmu _] Hn Hh. destruct mu as [|n|t0]; cbn in Hmu.
  - rewrite (Hmu t h Hn) in Hh. discriminate.
  - destruct Hmu as (Hge & _). destruct n; [lia|]. eauto.
  - destruct Hmu as [(h0 & Hn0 & Hh0) Hoth]. destruct (Nat.eq_dec t t0) as [->|Hne].
    + rewrite Hn in Hn0. inversion Hn0; subst. congruence.
    + rewrite (Hoth t h Hn Hne) in Hh. discriminate.
Qed.

(* a thread's update that does not change what it holds *)
Lemma wf_same mu fm (ths : list cc_thread) t th th' :
  locks_wf mu fm (map held_of ths) -> nth_error ths t = Some th -> held_of th' = held_of th ->
  locks_wf mu fm (map held_of (list_set t th' ths)).
Proof.
  intros H Hn He. rewrite map_list_set, He, list_set_same; [exact H|]. now apply nth_held.
Qed.

(* the file part does not see a change of what a thread holds of mu, and conversely *)
Lemma f_wf_set_fst fm hs t h m :
  f_wf fm hs -> nth_error hs t = Some h -> f_wf fm (list_set t (m, snd h) hs).
Proof.
  intros (Hf1 & Hf2 & Hf3) Hn. split; [|split].
  - intros r t' Hr. destruct (Hf1 r t' Hr) as (h' & Hn' & Hs).
    destruct (Nat.eq_dec t t') as [<-|Hne].
    + rewrite Hn in Hn'. inversion Hn'; subst. exists (m, snd h'). split; [now apply nth_list_set_eq with (x := h')|exact Hs].
    + exists h'. rewrite nth_list_set_ne by exact Hne. auto.
  - intros t' h' r Hn' Hs. destruct (Nat.eq_dec t t') as [<-|Hne].
    + rewrite (nth_list_set_eq _ _ _ _ Hn) in Hn'. inversion Hn'; subst. cbn in Hs. eauto.
    + rewrite nth_list_set_ne in Hn' by exact Hne. eauto.
  - intros t' h' Hn'. destruct (Nat.eq_dec t t') as [<-|Hne].
    + rewrite (nth_list_set_eq _ _ _ _ Hn) in Hn'. inversion Hn'; subst. cbn. eauto.
    + rewrite nth_list_set_ne in Hn' by exact Hne. eauto.
Qed.

Lemma mu_wf_set_snd mu hs t h f' :
  mu_wf mu hs -> nth_error hs t = Some h -> mu_wf mu (list_set t (fst h, f') hs).
Proof.
  intros Hmu Hn. destruct mu as [|n|t0]; cbn in *.
  - intros t' h' Hn'. destruct (Nat.eq_dec t t') as [<-|Hne].
    + rewrite (nth_list_set_eq _ _ _ _ Hn) in Hn'. inversion Hn'; subst. cbn. eauto.
    + rewrite nth_list_set_ne in Hn' by exact Hne. eauto.
  - destruct Hmu as (Hge & Hcnt & Hno). split; [exact Hge|]. split.
    + pose proof (count_r_list_set hs t h (fst h, f') Hn) as Hc.
      assert (H : is_hr (fst h, f') = is_hr h) by reflexivity. rewrite H in Hc. destruct (is_hr h); lia.
    + intros t' h' Hn'. destruct (Nat.eq_dec t t') as [<-|Hne].
      * rewrite (nth_list_set_eq _ _ _ _ Hn) in Hn'. inversion Hn'; subst. cbn. eauto.
      * rewrite nth_list_set_ne in Hn' by exact Hne. eauto.
  - destruct Hmu as [(h0 & Hn0 & Hh0) Hoth]. split.
    + destruct (Nat.eq_dec t t0) as [->|Hne].
      * rewrite Hn in Hn0. inversion Hn0; subst. exists (fst h0, f'). split; [now apply nth_list_set_eq with (x := h0)|exact Hh0].
      * exists h0. rewrite nth_list_set_ne by exact Hne. auto.
    + intros t' h' Hn' Hne'. destruct (Nat.eq_dec t t') as [<-|Hne].
      * rewrite (nth_list_set_eq _ _ _ _ Hn) in Hn'. inversion Hn'; subst. cbn. eauto.
      * rewrite nth_list_set_ne in Hn' by exact Hne. eauto.
Qed.

(* acquisitions and releases on the held-list *)
Lemma wf_acq_w fm hs t h :
  locks_wf CcFree fm hs -> nth_error hs t = Some h ->
  locks_wf (CcW t) fm (list_set t (HW, snd h) hs).
Proof.
  intros (Hmu & Hf) Hn. split; [|now apply f_wf_set_fst]. cbn in *. split.
  - exists (HW, snd h). split; [now apply nth_list_set_eq with (x := h)|reflexivity].
  - intros t' h' Hn' Hne. rewrite nth_list_set_ne in Hn' by congruence. eauto.
Qed.

Lemma wf_acq_r mu fm hs t h :
  locks_wf mu fm hs -> nth_error hs t = Some h -> fst h = HNone ->
  (mu = CcFree \/ exists n, mu = CcR n) ->
  locks_wf (match mu with CcR n => CcR (S n) | _ => CcR 1 end) fm (list_set t (HR, snd h) hs).
Proof.
  intros (Hmu & Hf) Hn Hh Hm. split; [|now apply f_wf_set_fst].
  pose proof (count_r_list_set hs t h (HR, snd h) Hn) as Hc.
  assert (Hih : is_hr h = false) by (unfold is_hr; now rewrite Hh).
  rewrite Hih in Hc. cbn in Hc.
  destruct Hm as [->|[n ->]]; cbn in *.
  - split; [lia|]. split.
    + assert (count_r hs = 0).
      { unfold count_r. clear -Hmu. assert (forall t h, nth_error hs t = Some h -> is_hr h = false).
        { intros t h Hn. unfold is_hr. now rewrite (Hmu t h Hn). }
        clear Hmu. induction hs as [|y hs IH]; cbn; [reflexivity|].
        rewrite (H 0 y eq_refl). apply IH. intros t h Hn. apply (H (S t) h Hn). }
      lia.
    + intros t' h' Hn'. destruct (Nat.eq_dec t t') as [<-|Hne].
      * rewrite (nth_list_set_eq _ _ _ _ Hn) in Hn'. inversion Hn'; subst. cbn. discriminate.
      * rewrite nth_list_set_ne in Hn' by exact Hne. rewrite (Hmu t' h' Hn'). discriminate.
  - destruct Hmu as (Hge & Hcnt & Hno). split; [lia|]. split; [lia|].
    intros t' h' Hn'. destruct (Nat.eq_dec t t') as [<-|Hne].
    + rewrite (nth_list_set_eq _ _ _ _ Hn) in Hn'. inversion Hn'; subst. cbn. discriminate.
    + rewrite nth_list_set_ne in Hn' by exact Hne. eauto.
Qed.

Lemma wf_acq_f mu fm hs t h r :
  locks_wf mu fm hs -> nth_error hs t = Some h -> fm r = None ->
  locks_wf mu (fm_set fm r (Some t)) (list_set t (fst h, r :: snd h) hs).
Proof.
  intros (Hmu & Hf1 & Hf2 & Hf3) Hn Hr. split; [now apply mu_wf_set_snd|]. split; [|split].
  - intros r' t' Hr'. unfold fm_set in Hr'. destruct (Nat.eqb r' r) eqn:He.
    + apply Nat.eqb_eq in He. subst r'. inversion Hr'; subst t'.
      exists (fst h, r :: snd h). split; [now apply nth_list_set_eq with (x := h)|now left].
    + destruct (Hf1 r' t' Hr') as (h' & Hn' & Hs'). destruct (Nat.eq_dec t t') as [<-|Hne].
      * rewrite Hn in Hn'. inversion Hn'; subst. exists (fst h', r :: snd h').
        split; [now apply nth_list_set_eq with (x := h')|now right].
      * exists h'. rewrite nth_list_set_ne by exact Hne. auto.
  - intros t' h' r' Hn' Hs'. unfold fm_set. destruct (Nat.eq_dec t t') as [<-|Hne].
    + rewrite (nth_list_set_eq _ _ _ _ Hn) in Hn'. inversion Hn'; subst. cbn in Hs'.
      destruct Hs' as [<-|Hs']; [now rewrite Nat.eqb_refl|].
      destruct (Nat.eqb r' r) eqn:He; [reflexivity|]. eauto.
    + rewrite nth_list_set_ne in Hn' by exact Hne. destruct (Nat.eqb r' r) eqn:He.
      * apply Nat.eqb_eq in He. subst r'. rewrite (Hf2 t' h' r Hn' Hs') in Hr. discriminate.
      * eauto.
  - intros t' h' Hn'. destruct (Nat.eq_dec t t') as [<-|Hne].
    + rewrite (nth_list_set_eq _ _ _ _ Hn) in Hn'. inversion Hn'; subst. cbn. constructor; [|eauto].
      intros Hin. rewrite (Hf2 t h r Hn Hin) in Hr. discriminate.
    + rewrite nth_list_set_ne in Hn' by exact Hne. eauto.
Qed.

Lemma wf_rel_w fm hs t h :
  locks_wf (CcW t) fm hs -> nth_error hs t = Some h ->
  locks_wf CcFree fm (list_set t (HNone, snd h) hs).
Proof.
  intros (Hmu & Hf) Hn. split; [|now apply f_wf_set_fst]. cbn in *.
  destruct Hmu as [_ Hoth]. intros t' h' Hn'. destruct (Nat.eq_dec t t') as [<-|Hne].
  - rewrite (nth_list_set_eq _ _ _ _ Hn) in Hn'. now inversion Hn'.
  - rewrite nth_list_set_ne in Hn' by exact Hne. apply (Hoth t' h' Hn'). congruence.
Qed.

Lemma wf_rel_r n fm hs t h :
  locks_wf (CcR (S n)) fm hs -> nth_error hs t = Some h -> fst h = HR ->
  locks_wf (match n with O => CcFree | S _ => CcR n end) fm (list_set t (HNone, snd h) hs).
Proof.
  intros (Hmu & Hf) Hn Hh. split; [|now apply f_wf_set_fst]. cbn in Hmu.
  destruct Hmu as (Hge & Hcnt & Hno).
  pose proof (count_r_list_set hs t h (HNone, snd h) Hn) as Hc.
  assert (Hih : is_hr h = true) by (unfold is_hr; now rewrite Hh).
  rewrite Hih in Hc. cbn in Hc.
  destruct n as [|n]; cbn.
  - intros t' h' Hn'. destruct (Nat.eq_dec t t') as [<-|Hne].
    + rewrite (nth_list_set_eq _ _ _ _ Hn) in Hn'. now inversion Hn'.
    + assert (Hz : count_r (list_set t (HNone, snd h) hs) = 0) by lia.
      destruct (fst h') eqn:Hf'; [reflexivity| |].
      * exfalso. unfold count_r in Hz. clear -Hn' Hf' Hz.
        revert t' Hn'. induction (list_set t (HNone, snd h) hs) as [|y l IH]; intros [|t'] Hn'; cbn in *; try discriminate.
        -- inversion Hn'; subst. unfold is_hr in Hz. rewrite Hf' in Hz. cbn in Hz. discriminate.
        -- destruct (is_hr y); cbn in Hz; [discriminate|]. eauto.
      * rewrite nth_list_set_ne in Hn' by exact Hne. now destruct (Hno t' h' Hn').
  - split; [lia|]. split; [lia|]. intros t' h' Hn'. destruct (Nat.eq_dec t t') as [<-|Hne].
    + rewrite (nth_list_set_eq _ _ _ _ Hn) in Hn'. inversion Hn'; subst. cbn. discriminate.
    + rewrite nth_list_set_ne in Hn' by exact Hne. eauto.
Qed.

Lemma wf_rel_f mu fm hs t h r rest :
  locks_wf mu fm hs -> nth_error hs t = Some h -> snd h = r :: rest ->
  locks_wf mu (fm_set fm r None) (list_set t (fst h, rest) hs).
Proof.
  intros (Hmu & Hf1 & Hf2 & Hf3) Hn Hs. split; [now apply mu_wf_set_snd|].
  pose proof (Hf3 t h Hn) as Hnd. rewrite Hs in Hnd. inversion Hnd as [|? ? Hnotin Hnd']; subst.
  split; [|split].
  - intros r' t' Hr'. unfold fm_set in Hr'. destruct (Nat.eqb r' r) eqn:He; [discriminate|].
    destruct (Hf1 r' t' Hr') as (h' & Hn' & Hs'). destruct (Nat.eq_dec t t') as [<-|Hne].
    + rewrite Hn in Hn'. inversion Hn'; subst. rewrite Hs in Hs'. destruct Hs' as [<-|Hs'].
      * rewrite Nat.eqb_refl in He. discriminate.
      * exists (fst h', rest). split; [now apply nth_list_set_eq with (x := h')|exact Hs'].
    + exists h'. rewrite nth_list_set_ne by exact Hne. auto.
  - intros t' h' r' Hn' Hs'. unfold fm_set. destruct (Nat.eq_dec t t') as [<-|Hne].
    + rewrite (nth_list_set_eq _ _ _ _ Hn) in Hn'. inversion Hn'; subst. cbn in Hs'.
      destruct (Nat.eqb r' r) eqn:He.
      * apply Nat.eqb_eq in He. subst r'. contradiction.
      * apply (Hf2 t h r' Hn). rewrite Hs. now right.
    + rewrite nth_list_set_ne in Hn' by exact Hne. destruct (Nat.eqb r' r) eqn:He.
      * apply Nat.eqb_eq in He. subst r'. pose proof (Hf2 t' h' r Hn' Hs') as H1.
        assert (H2 : fm r = Some t) by (apply (Hf2 t h r Hn); rewrite Hs; now left). congruence.
      * eauto.
  - intros t' h' Hn'. destruct (Nat.eq_dec t t') as [<-|Hne].
    + rewrite (nth_list_set_eq _ _ _ _ Hn) in Hn'. inversion Hn'; subst. exact Hnd'.
    + rewrite nth_list_set_ne in Hn' by exact Hne. eauto.
Qed.

(* ------------------------------------------------------------------ one step *)
Definition cc_noleak (c : cc_cfg) : Prop :=
  forall t th, nth_error (cf_threads c) t = Some th -> th_leaked th = false.

Lemma cc_noleakb_iff c : cc_noleakb c = true <-> cc_noleak c.
Proof.
  unfold cc_noleakb, cc_noleak. rewrite forallb_forall. split.
  - intros H t th Hn. apply nth_error_In in Hn. specialize (H th Hn). now destruct (th_leaked th).
  - intros H th Hin. apply In_nth_error in Hin as [t Hn]. now rewrite (H t th Hn).
Qed.

Lemma threads_set (P : cc_thread -> Prop) ths t th new :
  nth_error ths t = Some th -> (forall t' x, nth_error ths t' = Some x -> P x) -> P new ->
  forall t' x, nth_error (list_set t new ths) t' = Some x -> P x.
Proof.
  intros Hn Hall Hnew t' x Hx. destruct (Nat.eq_dec t t') as [<-|Hne].
  - rewrite (nth_list_set_eq _ _ _ _ Hn) in Hx. inversion Hx; subst. exact Hnew.
  - rewrite nth_list_set_ne in Hx by exact Hne. eauto.
Qed.

Lemma next_start th : cc_next_of th = NxStart -> th_active th = false /\ exists o r, th_prog th = o :: r.
Proof. unfold cc_next_of. destruct (th_active th); [destruct (th_code th), (th_defers th); discriminate|].
  destruct (th_prog th); [discriminate|]. eauto. Qed.
Lemma next_instr th i : cc_next_of th = NxInstr i -> th_active th = true /\ exists r, th_code th = i :: r.
Proof. unfold cc_next_of. destruct (th_active th); [|destruct (th_prog th); discriminate].
  destruct (th_code th); [destruct (th_defers th); discriminate|]. intros H. inversion H. eauto. Qed.
Lemma next_deferred th l : cc_next_of th = NxDeferred l ->
  th_active th = true /\ th_code th = [] /\ exists d, th_defers th = l :: d.
Proof. unfold cc_next_of. destruct (th_active th); [|destruct (th_prog th); discriminate].
  destruct (th_code th); [|discriminate]. destruct (th_defers th); [discriminate|]. intros H. inversion H. eauto. Qed.
Lemma next_finish th : cc_next_of th = NxFinish -> th_active th = true /\ th_code th = [] /\ th_defers th = [].
Proof. unfold cc_next_of. destruct (th_active th); [|destruct (th_prog th); discriminate].
  destruct (th_code th); [|discriminate]. destruct (th_defers th); [auto|discriminate]. Qed.

Lemma wt_active th : cc_th_wt th -> th_active th = true ->
  cc_ok (th_mu th) (th_f th) (th_defers th) (th_code th) = true.
Proof. intros [[_ H]|[H _]] Ha; [exact H|congruence]. Qed.

Definition holds (th : cc_thread) (l : cc_lk) : Prop :=
  match l with LkW => th_mu th = HW | LkR => th_mu th = HR | LkF => exists r rest, th_f th = r :: rest end.

Definition after_rel (th : cc_thread) (l : cc_lk) : cc_hmu * list nat :=
  match l with LkW | LkR => (HNone, th_f th) | LkF => (th_mu th, tl (th_f th)) end.

(* a release of a lock the thread holds succeeds and keeps the lock state well formed *)
Lemma cc_release_spec c t th th1 l :
  locks_wf (cf_mu c) (cf_fm c) (map held_of (cf_threads c)) ->
  nth_error (cf_threads c) t = Some th -> held_of th1 = held_of th -> holds th l ->
  exists mu' fm',
    cc_release c t th1 l =
      mkCcC (cf_st c) mu' fm' (list_set t (th_set_held th1 (fst (after_rel th l)) (snd (after_rel th l))) (cf_threads c))
            (cf_bad c) (cf_panics c) (cf_legacy c) /\
    locks_wf mu' fm' (map held_of (list_set t (th_set_held th1 (fst (after_rel th l)) (snd (after_rel th l))) (cf_threads c))).
Proof.
  intros Hwf Hn He Hh. pose proof (nth_held _ _ _ Hn) as Hnh.
  unfold held_of in He. inversion He as [[Hm Hf]].
  rewrite map_list_set. unfold cc_release, after_rel. destruct l; cbn in Hh.
  - pose proof (wf_holds_w _ _ _ t _ Hwf Hnh Hh) as Hmu. rewrite Hmu, Hm, Hh, Nat.eqb_refl.
    eexists _, _. split; [rewrite Hf; reflexivity|]. rewrite Hmu in Hwf.
    apply (wf_rel_w _ _ t _ Hwf Hnh).
  - destruct (wf_holds_r _ _ _ t _ Hwf Hnh Hh) as [n Hmu]. rewrite Hmu, Hm, Hh.
    eexists _, _. split; [rewrite Hf; reflexivity|]. rewrite Hmu in Hwf.
    apply (wf_rel_r n _ _ t _ Hwf Hnh Hh).
  - destruct Hh as (r & rest & Hr). rewrite Hf, Hr. cbn [tl].
    pose proof Hwf as (Hmu & Hf1 & Hf2 & Hf3).
    assert (Hfm : cf_fm c r = Some t) by (apply (Hf2 t _ r Hnh); cbn; rewrite Hr; now left).
    rewrite Hfm, Nat.eqb_refl.
    eexists _, _. split; [rewrite Hm; reflexivity|].
    apply (wf_rel_f _ _ _ t (held_of th) r rest Hwf Hnh Hr).
Qed.

Lemma okd_holds m f l d : cc_okd m f (l :: d) = true ->
  match l with LkW => m = HW | LkR => m = HR | LkF => 0 < f end /\
  cc_okd (match l with LkF => m | _ => HNone end) (match l with LkF => pred f | _ => f end) d = true.
Proof.
  destruct l; cbn [cc_okd]; intros H; apply andb_true_iff in H as [H1 H2]; try apply hmu_eqb_eq in H1; auto.
  apply Nat.ltb_lt in H1. auto.
Qed.

Lemma length_tl {A} (l : list A) : length (tl l) = pred (length l).
Proof. destruct l; reflexivity. Qed.

Lemma cc_release_threads c t th1 l :
  exists x, cf_threads (cc_release c t th1 l) = list_set t x (cf_threads c) /\ th_leaked x = th_leaked th1.
Proof.
  unfold cc_release.
  destruct l; repeat match goal with |- context [match ?x with _ => _ end] => destruct x end;
    eexists; (split; [reflexivity|reflexivity]).
Qed.

Lemma cc_release_shape c t th1 l :
  cf_st (cc_release c t th1 l) = cf_st c /\
  exists x, cf_threads (cc_release c t th1 l) = list_set t x (cf_threads c) /\
            th_prog x = th_prog th1 /\ th_active x = th_active th1 /\ th_fr x = th_fr th1 /\
            th_code x = th_code th1 /\ th_leaked x = th_leaked th1.
Proof.
  unfold cc_release.
  destruct l; repeat match goal with |- context [match ?x with _ => _ end] => destruct x end;
    (split; [reflexivity|]); eexists; (split; [reflexivity|]); cbn; auto.
Qed.

Lemma leaked_monotone c t : cc_noleak (cc_step c t) -> cc_noleak c.
Proof.
  unfold cc_step. destruct (cc_enabled c t); [|auto]. cbn [negb].
  destruct (nth_error (cf_threads c) t) as [th|] eqn:Hn; [|auto].
  assert (Hgen : forall c' new, cf_threads c' = list_set t new (cf_threads c) ->
                   (th_leaked th = true -> th_leaked new = true) -> cc_noleak c' -> cc_noleak c).
  { intros c' new Hc Hl Hno t' x Hx. destruct (Nat.eq_dec t t') as [<-|Hne].
    - rewrite Hn in Hx. inversion Hx; subst x. destruct (th_leaked th) eqn:E; [|reflexivity].
      specialize (Hno t new). rewrite Hc, (nth_list_set_eq _ _ _ _ Hn) in Hno. rewrite (Hl eq_refl) in Hno.
      now specialize (Hno eq_refl).
    - apply (Hno t' x). rewrite Hc, nth_list_set_ne by exact Hne. exact Hx. }
  assert (Hrel : forall th1 l, th_leaked th1 = th_leaked th -> cc_noleak (cc_release c t th1 l) -> cc_noleak c).
  { intros th1 l Hl. destruct (cc_release_threads c t th1 l) as (x & Hx & Hlx).
    apply (Hgen _ x Hx). congruence. }
  destruct (cc_next_of th) eqn:Hnx; auto.
  - destruct (th_prog th) as [|o rest]; [auto|]. destruct (cc_begin (cf_legacy c) o (th_slots th)) as [f code].
    apply Hgen with (new := mkCcT rest true code [] f (th_slots th) (th_results th) (th_mu th) (th_f th) (th_leaked th)); auto.
  - destruct i as [l r|l|l|a].
    + unfold cc_acquire. destruct l; eapply Hgen; try reflexivity; cbn; auto.
    + apply Hrel. reflexivity.
    + eapply Hgen; [reflexivity|auto].
    + destruct (cc_sem a (th_fr th) (cf_st c)); eapply Hgen; try reflexivity; cbn; auto.
      intros ->. reflexivity.
  - apply Hrel. reflexivity.
  - eapply Hgen; [reflexivity|auto].
Qed.

(* THE STEP LEMMA *)
Lemma cc_step_inv c t :
  cc_inv c -> cf_bad c = None -> cc_noleak (cc_step c t) ->
  cc_inv (cc_step c t) /\ cf_bad (cc_step c t) = None.
Proof.
  intros [Hwf Hth] Hbad Hnl. unfold cc_step in *.
  destruct (cc_enabled c t) eqn:Hen; cbn [negb] in *; [|split; [split|]; assumption].
  destruct (nth_error (cf_threads c) t) as [th|] eqn:Hn; [|split; [split|]; assumption].
  pose proof (Hth t th Hn) as Hwt.
  (* release by this thread, with the rest of its state th1 *)
  assert (Hrelease : forall th1 l m' f',
             held_of th1 = held_of th -> holds th l -> (m', f') = after_rel th l ->
             cc_th_wt (th_set_held th1 m' f') ->
             cc_inv (cc_release c t th1 l) /\ cf_bad (cc_release c t th1 l) = None).
  { intros th1 l m' f' He Hh Ha Hw. destruct (cc_release_spec c t th th1 l Hwf Hn He Hh) as (mu' & fm' & Heq & Hwf').
    rewrite Heq. rewrite <- Ha in *. cbn [fst snd] in *. split; [split|]; cbn; [exact Hwf'| |exact Hbad].
    eapply threads_set; eauto. }
  destruct (cc_next_of th) eqn:Hnx.
  - (* start of a call *)
    apply next_start in Hnx as (Hact & o & rest & Hp). rewrite Hp in *.
    destruct (cc_begin (cf_legacy c) o (th_slots th)) as [f code] eqn:Hb.
    destruct Hwt as [[Ha _]|(_ & Hm & Hf & Hd & Hc)]; [congruence|].
    split; [split|]; cbn; [| |exact Hbad].
    + eapply wf_same; eauto.
    + eapply threads_set; eauto. left. cbn. split; [reflexivity|]. rewrite Hm, Hf.
      pose proof (cc_begin_ok (cf_legacy c) o (th_slots th)) as Hok. now rewrite Hb in Hok.
  - (* an instruction *)
    apply next_instr in Hnx as (Hact & r & Hc). pose proof (wt_active th Hwt Hact) as Hok. rewrite Hc in *.
    cbn [tl]. destruct i as [l x|l|l|a].
    + (* acquire *)
      assert (Hnh := nth_held _ _ _ Hn).
      unfold cc_enabled in Hen. rewrite Hn in Hen. unfold cc_next_of in Hen. rewrite Hact, Hc in Hen.
      unfold cc_can_acq in Hen. unfold cc_acquire.
      destruct l; cbn [cc_ok] in Hok.
      * apply andb_true_iff in Hok as [Hok Hok2]. apply andb_true_iff in Hok as [Hm Hf]. apply hmu_eqb_eq in Hm.
        apply is_nil_true in Hf.
        destruct (cf_mu c) eqn:Hmu; try discriminate.
        split; [split|]; cbn; [| |exact Hbad].
        -- rewrite map_list_set. apply (wf_acq_w _ _ t (held_of th)); assumption.
        -- eapply threads_set; eauto. left. cbn. split; [exact Hact|]. exact Hok2.
      * apply andb_true_iff in Hok as [Hok Hok2]. apply andb_true_iff in Hok as [Hm Hf]. apply hmu_eqb_eq in Hm.
        apply is_nil_true in Hf.
        split; [split|]; cbn; [| |exact Hbad].
        -- rewrite map_list_set. apply (wf_acq_r _ _ _ t (held_of th)); try assumption.
           destruct (cf_mu c); try discriminate; eauto.
        -- eapply threads_set; eauto. left. cbn. split; [exact Hact|]. exact Hok2.
      * apply andb_true_iff in Hok as [Hf Hok2].
        destruct (cf_fm c x) eqn:Hfm; [discriminate|].
        split; [split|]; cbn; [| |exact Hbad].
        -- rewrite map_list_set. apply (wf_acq_f _ _ _ t (held_of th) x); assumption.
        -- eapply threads_set; eauto. left. cbn. split; [exact Hact|]. exact Hok2.
    + (* release *)
      destruct l; cbn [cc_ok] in Hok; apply andb_true_iff in Hok as [Hm Hok2].
      * apply hmu_eqb_eq in Hm. eapply (Hrelease _ LkW HNone (th_f th)); try reflexivity; [exact Hm|].
        left. cbn. split; [exact Hact|exact Hok2].
      * apply hmu_eqb_eq in Hm. eapply (Hrelease _ LkR HNone (th_f th)); try reflexivity; [exact Hm|].
        left. cbn. split; [exact Hact|exact Hok2].
      * destruct (th_f th) as [|x rest] eqn:Hthf; [discriminate|].
        eapply (Hrelease _ LkF (th_mu th) rest); try reflexivity.
        -- cbn. eauto.
        -- unfold after_rel. now rewrite Hthf.
        -- left. cbn. split; [exact Hact|exact Hok2].
    + (* defer *)
      cbn [cc_ok] in Hok. split; [split|]; cbn; [| |exact Hbad].
      * eapply wf_same; eauto.
      * eapply threads_set; eauto. left. cbn. split; [exact Hact|exact Hok].
    + (* action *)
      cbn [cc_ok] in Hok. destruct r; [|discriminate]. apply ctx_eqb_eq in Hok as [Hok Hlen].
      assert (Hlen' : length (th_f th) = ctx_len a) by (unfold ctx_len; exact Hlen).
      pose proof (cc_sem_ok a (th_fr th) (cf_st c) (th_f th) Hlen') as Hsem. unfold cc_ok_ctx, cc_okd_ctx in Hsem.
      rewrite <- Hlen' in Hsem. rewrite Hok in Hsem. cbn [fst snd] in Hsem.
      destruct (cc_sem a (th_fr th) (cf_st c)) as [s f code|s].
      * split; [split|]; cbn; [| |exact Hbad].
        -- eapply wf_same; eauto.
        -- eapply threads_set; eauto. left. cbn. split; [reflexivity|]. rewrite app_nil_r. exact Hsem.
      * (* panic: no leak by hypothesis *)
        split; [split|]; cbn; [| |exact Hbad].
        -- eapply wf_same; eauto.
        -- eapply threads_set; eauto. left. cbn. split; [reflexivity|].
           specialize (Hnl t). cbn in Hnl. rewrite (nth_list_set_eq _ _ _ _ Hn) in Hnl.
           specialize (Hnl _ eq_refl). cbn in Hnl. apply orb_false_iff in Hnl as [_ Hl].
           apply negb_false_iff in Hl. exact Hl.
  - (* a deferred unlock *)
    apply next_deferred in Hnx as (Hact & Hc & d & Hd). pose proof (wt_active th Hwt Hact) as Hok.
    rewrite Hc, Hd in *. cbn [cc_ok tl] in *. apply okd_holds in Hok as [Hh Hok2].
    destruct l.
    + eapply (Hrelease _ LkW HNone (th_f th)); try reflexivity; [exact Hh|].
      left. cbn. split; [exact Hact|]. rewrite Hc. exact Hok2.
    + eapply (Hrelease _ LkR HNone (th_f th)); try reflexivity; [exact Hh|].
      left. cbn. split; [exact Hact|]. rewrite Hc. exact Hok2.
    + destruct (th_f th) as [|x rest] eqn:Hthf; [cbn in Hh; lia|].
      eapply (Hrelease _ LkF (th_mu th) rest); try reflexivity.
      * cbn. eauto.
      * unfold after_rel. now rewrite Hthf.
      * left. cbn. split; [exact Hact|]. rewrite Hc. cbn [cc_ok]. exact Hok2.
  - (* the call returns *)
    apply next_finish in Hnx as (Hact & Hc & Hd). pose proof (wt_active th Hwt Hact) as Hok.
    rewrite Hc, Hd in Hok. cbn in Hok. apply andb_true_iff in Hok as [Hm Hf]. apply hmu_eqb_eq in Hm.
    apply Nat.eqb_eq in Hf. destruct (th_f th) eqn:Hthf; [|discriminate].
    split; [split|]; cbn; [| |exact Hbad].
    + eapply wf_same; eauto. unfold held_of. cbn. now rewrite Hthf.
    + eapply threads_set; eauto. right. cbn. auto.
  - split; [split|]; assumption.
Qed.

(* ------------------------------------------------------------------ all schedules *)
Lemma cc_inv_init_gen lg s progs : cc_inv (cc_init_gen lg s progs) /\ cf_bad (cc_init_gen lg s progs) = None.
Proof.
  split; [|reflexivity]. unfold cc_inv, cc_init_gen. cbn. split; [split; [|split; [|split]]|].
  - intros t h Hn. apply nth_held_inv in Hn as (th & Hn & <-).
    rewrite nth_error_map in Hn. destruct (nth_error progs t); [|discriminate]. now inversion Hn.
  - discriminate.
  - intros t h r Hn Hs. apply nth_held_inv in Hn as (th & Hn & <-).
    rewrite nth_error_map in Hn. destruct (nth_error progs t); [|discriminate]. inversion Hn; subst. contradiction.
  - intros t h Hn. apply nth_held_inv in Hn as (th & Hn & <-).
    rewrite nth_error_map in Hn. destruct (nth_error progs t); [|discriminate]. inversion Hn; subst. constructor.
  - intros t th Hn. rewrite nth_error_map in Hn. destruct (nth_error progs t); [|discriminate].
    inversion Hn; subst. right. cbn. auto.
Qed.

Lemma run_snoc c sched t : run_sched_from c (sched ++ [t]) = cc_step (run_sched_from c sched) t.
Proof. unfold run_sched_from. now rewrite fold_left_app. Qed.

Lemma noleak_prefix c sched : cc_noleak (run_sched_from c sched) -> cc_noleak c.
Proof.
  induction sched as [|t sched IH] using rev_ind; [auto|]. rewrite run_snoc. intros H.
  apply IH. now apply leaked_monotone in H.
Qed.

Theorem cc_inv_run c sched :
  cc_inv c -> cf_bad c = None -> cc_noleak (run_sched_from c sched) ->
  cc_inv (run_sched_from c sched) /\ cf_bad (run_sched_from c sched) = None.
Proof.
  intros Hi Hb. induction sched as [|t sched IH] using rev_ind; [auto|].
  rewrite run_snoc. intros Hnl. pose proof (leaked_monotone _ _ Hnl) as Hnl'.
  destruct (IH Hnl') as [Hi' Hb']. now apply cc_step_inv.
Qed.

Lemma cc_inv_init s progs : cc_inv (cc_init_from s progs) /\ cf_bad (cc_init_from s progs) = None.
Proof. apply cc_inv_init_gen. Qed.

(* ------------------------------------------------------------------ no deadlock *)
Lemma enabled_any c t : cc_enabled c t = true -> cc_any_enabled c = true.
Proof.
  intros H. unfold cc_any_enabled. apply existsb_exists. exists t. split; [|exact H].
  apply in_seq. split; [lia|]. cbn. unfold cc_enabled in H.
  destruct (nth_error (cf_threads c) t) eqn:Hn; [|discriminate]. apply nth_error_Some. congruence.
Qed.

(* THE LOCK ORDER.  A thread that is about to take mu holds nothing.  A thread that is about to take
   a file mutex does not hold that mutex, and if it holds another file mutex it holds mu
   write-locked (Rename: the parents, the directory of the children, the child). *)
Lemma wt_acq th l r :
  cc_th_wt th -> cc_next_of th = NxInstr (CcAcq l r) ->
  (l <> LkF -> th_mu th = HNone /\ th_f th = []) /\
  (l = LkF -> cc_heldb r (th_f th) = false /\ (th_f th = [] \/ th_mu th = HW)).
Proof.
  intros Hwt Hnx. apply next_instr in Hnx as (Hact & rest & Hc). pose proof (wt_active th Hwt Hact) as Hok.
  rewrite Hc in Hok.
  destruct l; cbn [cc_ok] in Hok.
  - apply andb_true_iff in Hok as [Hok _]. apply andb_true_iff in Hok as [Hm Hf]. apply hmu_eqb_eq in Hm.
    apply is_nil_true in Hf. split; [auto|discriminate].
  - apply andb_true_iff in Hok as [Hok _]. apply andb_true_iff in Hok as [Hm Hf]. apply hmu_eqb_eq in Hm.
    apply is_nil_true in Hf. split; [auto|discriminate].
  - apply andb_true_iff in Hok as [Hok _]. apply andb_true_iff in Hok as [Hh Hm].
    apply negb_true_iff in Hh. split; [congruence|]. intros _. split; [exact Hh|].
    apply orb_true_iff in Hm as [Hm|Hm]; [left; now apply is_nil_true|right; now apply hmu_eqb_eq].
Qed.

Lemma wt_holder_active th : cc_th_wt th -> (th_mu th <> HNone \/ th_f th <> []) -> th_active th = true.
Proof. intros [[Ha _]|(_ & Hm & Hf & _)] [H|H]; congruence. Qed.

Lemma heldb_in r h : cc_heldb r h = false -> ~ In r h.
Proof.
  unfold cc_heldb. intros H Hin. assert (existsb (Nat.eqb r) h = true); [|congruence].
  apply existsb_exists. exists r. split; [exact Hin|apply Nat.eqb_refl].
Qed.

(* a thread that holds a file mutex without holding mu write-locked is enabled: it never waits *)
Lemma f_holder_enabled c t th :
  cc_inv c -> nth_error (cf_threads c) t = Some th -> th_f th <> [] -> th_mu th <> HW -> cc_enabled c t = true.
Proof.
  intros [_ Hth] Hn Hf Hm. pose proof (Hth t th Hn) as Hwt.
  pose proof (wt_holder_active th Hwt (or_intror Hf)) as Hact.
  unfold cc_enabled. rewrite Hn. destruct (cc_next_of th) eqn:Hnx; try reflexivity.
  - destruct i as [l r| | |]; try reflexivity. destruct (wt_acq th l r Hwt Hnx) as [H1 H2].
    destruct l; try (now destruct (H1 ltac:(discriminate)) as [_ H]).
    destruct (H2 eq_refl) as [_ [H|H]]; congruence.
  - unfold cc_next_of in Hnx. rewrite Hact in Hnx. destruct (th_code th); [destruct (th_defers th)|]; discriminate.
Qed.

(* the thread that holds mu write-locked is enabled when nobody else holds a file mutex *)
Lemma w_holder_enabled c t th :
  cc_inv c -> nth_error (cf_threads c) t = Some th -> th_mu th = HW ->
  (forall t' th', nth_error (cf_threads c) t' = Some th' -> th_f th' <> [] -> t' = t) ->
  cc_enabled c t = true.
Proof.
  intros [Hwf Hth] Hn Hm Honly. pose proof (Hth t th Hn) as Hwt.
  assert (Hact : th_active th = true) by (apply (wt_holder_active th Hwt); left; congruence).
  unfold cc_enabled. rewrite Hn. destruct (cc_next_of th) eqn:Hnx; try reflexivity.
  - destruct i as [l r| | |]; try reflexivity. destruct (wt_acq th l r Hwt Hnx) as [H1 H2].
    destruct l; try (destruct (H1 ltac:(discriminate)) as [H _]; congruence).
    destruct (H2 eq_refl) as [Hnot _]. cbn. destruct (cf_fm c r) as [t'|] eqn:Hfm; [|reflexivity]. exfalso.
    destruct Hwf as (_ & Hf1 & _). destruct (Hf1 r t' Hfm) as (h & Hnh & Hin).
    apply nth_held_inv in Hnh as (th' & Hn' & <-). cbn in Hin.
    assert (t' = t) by (apply (Honly t' th' Hn'); intros E; rewrite E in Hin; contradiction). subst t'.
    rewrite Hn in Hn'. inversion Hn'; subst th'. now apply heldb_in in Hnot.
  - unfold cc_next_of in Hnx. rewrite Hact in Hnx. destruct (th_code th); [destruct (th_defers th)|]; discriminate.
Qed.

(* when no file mutex is held, a thread that holds mu is enabled *)
Lemma mu_holder_enabled c t th :
  cc_inv c -> (forall r, cf_fm c r = None) -> nth_error (cf_threads c) t = Some th -> th_mu th <> HNone ->
  cc_enabled c t = true.
Proof.
  intros [_ Hth] Hfm Hn Hm. pose proof (Hth t th Hn) as Hwt.
  pose proof (wt_holder_active th Hwt (or_introl Hm)) as Hact.
  unfold cc_enabled. rewrite Hn. destruct (cc_next_of th) eqn:Hnx; try reflexivity.
  - destruct i as [l r| | |]; try reflexivity. destruct (wt_acq th l r Hwt Hnx) as [H _].
    destruct l; try (now destruct Hm; apply H). cbn. now rewrite Hfm.
  - unfold cc_next_of in Hnx. rewrite Hact in Hnx. destruct (th_code th); [destruct (th_defers th)|]; discriminate.
Qed.

Definition cc_nests_without_w (th : cc_thread) : bool := negb (is_nil (th_f th)) && negb (cc_hmu_eqb (th_mu th) HW).

Theorem cc_inv_not_stuck c : cc_inv c -> cc_stuckb c = false.
Proof.
  intros Hinv. unfold cc_stuckb. destruct (cc_any_unfinished c) eqn:Hun; [|reflexivity]. cbn.
  apply negb_false_iff.
  (* 1. somebody holds a file mutex without holding mu write-locked: that thread never waits *)
  destruct (existsb cc_nests_without_w (cf_threads c)) eqn:HF.
  { apply existsb_exists in HF as (th & Hin & Hf). apply In_nth_error in Hin as [t Hn].
    apply (enabled_any c t). unfold cc_nests_without_w in Hf. apply andb_true_iff in Hf as [Hf Hm].
    apply (f_holder_enabled c t th Hinv Hn).
    - intros E. rewrite E in Hf. discriminate.
    - intros E. rewrite E in Hm. discriminate. }
  assert (Honlyw : forall t th, nth_error (cf_threads c) t = Some th -> th_f th <> [] -> th_mu th = HW).
  { intros t th Hn Hf. destruct (cc_hmu_eqb (th_mu th) HW) eqn:E; [now apply hmu_eqb_eq|]. exfalso.
    assert (existsb cc_nests_without_w (cf_threads c) = true); [|congruence].
    apply existsb_exists. exists th. split; [now apply nth_error_In in Hn|].
    unfold cc_nests_without_w. rewrite E. destruct (th_f th); [congruence|reflexivity]. }
  pose proof Hinv as [Hwf Hth].
  (* 2. mu is write-locked: its holder is the only one that can hold file mutexes, and it is enabled *)
  destruct (cf_mu c) as [|n|t0] eqn:Hmu.
  3: { destruct Hwf as [[(h0 & Hn0 & Hh0) _] _]. apply nth_held_inv in Hn0 as (th0 & Hn0 & <-).
       apply (enabled_any c t0). apply (w_holder_enabled c t0 th0 Hinv Hn0 Hh0).
       intros t' th' Hn' Hf'. pose proof (Honlyw t' th' Hn' Hf') as Hw.
       pose proof (wf_holds_w _ _ _ t' _ (proj1 Hinv) (nth_held _ _ _ Hn') Hw) as E. rewrite Hmu in E. now inversion E. }
  (* 3. otherwise nobody holds a file mutex *)
  all: assert (Hfm : forall r, cf_fm c r = None)
    by (intros r; destruct (cf_fm c r) as [t|] eqn:Hr; [|reflexivity]; exfalso;
        destruct Hwf as (_ & Hf1 & _); destruct (Hf1 r t Hr) as (h & Hn & Hs);
        apply nth_held_inv in Hn as (th & Hn & <-); cbn in Hs;
        assert (Hw : th_mu th = HW) by (apply (Honlyw t th Hn); intros E; rewrite E in Hs; contradiction);
        pose proof (wf_holds_w _ _ _ t _ (proj1 Hinv) (nth_held _ _ _ Hn) Hw) as E; rewrite Hmu in E; discriminate).
  all: unfold cc_any_unfinished in Hun; apply existsb_exists in Hun as (th & Hin & Hu);
    apply In_nth_error in Hin as [t Hn];
    (destruct (cc_enabled c t) eqn:Hen; [now apply (enabled_any c t)|]);
    pose proof (Hth t th Hn) as Hwt;
    unfold cc_enabled in Hen; rewrite Hn in Hen; unfold cc_unfinished in Hu;
    (destruct (cc_next_of th) eqn:Hnx; try discriminate);
    (destruct i as [l r| | |]; try discriminate);
    unfold cc_can_acq in Hen; rewrite Hmu in Hen.
  - (* mu is free: every acquisition is possible *)
    destruct l; try discriminate. rewrite Hfm in Hen. discriminate.
  - (* mu is read-locked: a reader is enabled *)
    destruct l; try discriminate; [|rewrite Hfm in Hen; discriminate].
    destruct Hwf as [(Hge & Hcnt & _) _]. rewrite <- Hcnt in Hge.
    apply count_r_pos in Hge as (t' & h & Hn' & Hh). apply nth_held_inv in Hn' as (th' & Hn' & <-).
    apply (enabled_any c t'). apply (mu_holder_enabled c t' th' Hinv Hfm Hn'). cbn in Hh. congruence.
Qed.

(* ------------------------------------------------------------------ the main statements *)
Definition cc_run_from (s : mst) (progs : list (list (option nat) * list op)) (sched : list nat) : cc_cfg :=
  run_sched_from (cc_init_from s progs) sched.

Theorem conc_no_unlock_error s progs sched :
  cc_noleakb (cc_run_from s progs sched) = true -> cf_bad (cc_run_from s progs sched) = None.
Proof.
  intros H. apply cc_noleakb_iff in H. destruct (cc_inv_init s progs) as [Hi Hb].
  exact (proj2 (cc_inv_run _ sched Hi Hb H)).
Qed.

Theorem conc_no_deadlock s progs sched :
  cc_noleakb (cc_run_from s progs sched) = true -> cc_stuckb (cc_run_from s progs sched) = false.
Proof.
  intros H. apply cc_noleakb_iff in H. destruct (cc_inv_init s progs) as [Hi Hb].
  apply cc_inv_not_stuck. exact (proj1 (cc_inv_run _ sched Hi Hb H)).
Qed.

(* every action runs under exactly the locks the table declares for it (this is what ties the
   access annotations' lock context to the executions) *)
Theorem conc_sections_hold_declared_locks s progs sched t th a :
  cc_noleakb (cc_run_from s progs sched) = true ->
  nth_error (cf_threads (cc_run_from s progs sched)) t = Some th ->
  cc_next_of th = NxInstr (CcAct a) ->
  cc_ctx a = (th_mu th, cc_hasf th, th_defers th).
Proof.
  intros H Hn Hnx. apply cc_noleakb_iff in H. destruct (cc_inv_init s progs) as [Hi Hb].
  destruct (cc_inv_run _ sched Hi Hb H) as [[_ Hth] _]. pose proof (Hth t th Hn) as Hwt.
  apply next_instr in Hnx as (Hact & r & Hc). pose proof (wt_active th Hwt Hact) as Hok.
  rewrite Hc in Hok. cbn [cc_ok] in Hok. destruct r; [|discriminate]. now apply ctx_eqb_eq in Hok as [Hok _].
Qed.

(* lock order: a thread that waits for mu holds nothing; a thread that waits for a file mutex does
   not hold that mutex, and holds another file mutex only together with mu write-locked (the nested
   holds of Rename: mu, then directory mutexes, then the renamed entry's mutex) *)
Theorem conc_lock_order s progs sched t th l r :
  cc_noleakb (cc_run_from s progs sched) = true ->
  nth_error (cf_threads (cc_run_from s progs sched)) t = Some th ->
  cc_next_of th = NxInstr (CcAcq l r) ->
  (l <> LkF -> th_mu th = HNone /\ th_f th = []) /\
  (l = LkF -> cc_heldb r (th_f th) = false /\ (th_f th = [] \/ th_mu th = HW)).
Proof.
  intros H Hn Hnx. apply cc_noleakb_iff in H. destruct (cc_inv_init s progs) as [Hi Hb].
  destruct (cc_inv_run _ sched Hi Hb H) as [[_ Hth] _]. exact (wt_acq th l r (Hth t th Hn) Hnx).
Qed.

(* panics: only one section of the table can panic with a lock that no defer releases *)
Theorem conc_panic_balanced a f s s' :
  cc_sem a f s = CcPanic s' -> a <> ARaUnreg -> cc_okd_ctx a = true.
Proof.
  intros H Hne. pose proof (cc_sem_ok a f s (repeat 0 (ctx_len a)) (repeat_length _ _)) as Hs. rewrite H in Hs. destruct Hs as [Hl|Hk]; [|exact Hk].
  destruct a; try discriminate. congruence.
Qed.

(* a run leaks a lock only through a panic of RemoveAll's unregister section: if no call of any
   program is RemoveAll, no schedule leaks (hence the theorems above hold unconditionally) *)
Definition cc_no_removeall (progs : list (list (option nat) * list op)) : Prop :=
  forall sp o, In sp progs -> In o (snd sp) -> match o with RemoveAll _ => False | _ => True end.

(* ------------------------------------------------------------------ today's table never leaks a lock *)
(* the legacy sections of RemoveAll are the only ones that can panic with a lock no defer releases;
   they run only in legacy configurations, and there only in calls of RemoveAll *)
Definition cc_is_ra (a : cc_aid) : bool :=
  match a with ARaUnregT | ARaUnreg | ARaScan | ARaDelete | ARaNext => true | _ => false end.
Definition cc_instr_nora (i : cc_instr) : bool := match i with CcAct a => negb (cc_is_ra a) | _ => true end.
Definition cc_op_nora (o : op) : bool := match o with RemoveAll _ => false | _ => true end.
Definition cc_th_nora (lg : bool) (th : cc_thread) : Prop :=
  forallb cc_instr_nora (th_code th) = true /\ (lg = true -> forallb cc_op_nora (th_prog th) = true).
Definition cc_nora (c : cc_cfg) : Prop :=
  forall t th, nth_error (cf_threads c) t = Some th -> cc_th_nora (cf_legacy c) th.

Lemma nora_touches l : forallb cc_instr_nora (cc_touches l) = true.
Proof. induction l; cbn; auto. Qed.

Lemma nora_lockonly code : cc_lockonly code = true -> forallb cc_instr_nora code = true.
Proof.
  unfold cc_lockonly. induction code as [|i code IH]; [reflexivity|]. cbn [forallb]. intros H.
  apply andb_true_iff in H as [H1 H2]. rewrite (IH H2). destruct i; try discriminate; reflexivity.
Qed.

Lemma cc_sem_nora a f s :
  cc_is_ra a = false ->
  match cc_sem a f s with CcCont _ _ code => forallb cc_instr_nora code = true | CcPanic _ => True end.
Proof.
  intros Ha. destruct a; try discriminate Ha; cbn [cc_sem];
    repeat match goal with
           | |- match (let '(_, _) := ?x in _) with _ => _ end => destruct x
           | |- match (match ?x with _ => _ end) with _ => _ end => destruct x
           | |- match (if ?x then _ else _) with _ => _ end => destruct x
           end;
    cbn [forallb cc_instr_nora cc_is_ra negb andb]; rewrite ?forallb_app, ?nora_touches, ?(nora_lockonly _ (lockonly_rename_code _ _ _)); auto.
Qed.

Lemma cc_begin_nora lg o slots :
  (lg = true -> cc_op_nora o = true) -> forallb cc_instr_nora (snd (cc_begin lg o slots)) = true.
Proof.
  destruct lg, o; cbn; try reflexivity; intros H; try (specialize (H eq_refl); discriminate);
    repeat match goal with |- context [match ?x with _ => _ end] => destruct x end; reflexivity.
Qed.

Lemma forallb_tl {A} (p : A -> bool) l : forallb p l = true -> forallb p (tl l) = true.
Proof. destruct l; cbn; [auto|]. intros H. now apply andb_true_iff in H as [_ H]. Qed.

Lemma cc_release_legacy c t th1 l : cf_legacy (cc_release c t th1 l) = cf_legacy c.
Proof.
  unfold cc_release.
  destruct l; repeat match goal with |- context [match ?x with _ => _ end] => destruct x end; reflexivity.
Qed.

Lemma cc_step_legacy c t : cf_legacy (cc_step c t) = cf_legacy c.
Proof.
  unfold cc_step. destruct (cc_enabled c t); cbn [negb]; [|reflexivity].
  destruct (nth_error (cf_threads c) t) as [th|]; [|reflexivity].
  destruct (cc_next_of th); try reflexivity.
  - destruct (th_prog th); [reflexivity|]. destruct (cc_begin (cf_legacy c) o (th_slots th)). reflexivity.
  - destruct i as [l r|l|l|a]; try reflexivity.
    + unfold cc_acquire. destruct l; reflexivity.
    + apply cc_release_legacy.
    + destruct (cc_sem a (th_fr th) (cf_st c)); reflexivity.
  - apply cc_release_legacy.
Qed.

Lemma run_legacy c sched : cf_legacy (run_sched_from c sched) = cf_legacy c.
Proof.
  induction sched as [|t sched IH] using rev_ind; [reflexivity|]. now rewrite run_snoc, cc_step_legacy.
Qed.

Lemma cc_step_nora c t : cc_inv c -> cc_noleak c -> cc_nora c -> cc_noleak (cc_step c t) /\ cc_nora (cc_step c t).
Proof.
  intros [Hwf Hth] Hnl Hnr. unfold cc_nora. rewrite cc_step_legacy. unfold cc_step.
  destruct (cc_enabled c t); cbn [negb]; [|auto].
  destruct (nth_error (cf_threads c) t) as [th|] eqn:Hn; [|auto].
  pose proof (Hth t th Hn) as Hwt. pose proof (Hnl t th Hn) as Hl. pose proof (Hnr t th Hn) as [Hc Hp].
  assert (Hgen : forall c' new, cf_threads c' = list_set t new (cf_threads c) ->
                   th_leaked new = false -> cc_th_nora (cf_legacy c) new ->
                   cc_noleak c' /\ (forall t' x, nth_error (cf_threads c') t' = Some x -> cc_th_nora (cf_legacy c) x)).
  { intros c' new Hc' Hl' Hn'. split.
    - intros t' x Hx. rewrite Hc' in Hx. revert t' x Hx.
      apply (threads_set (fun x => th_leaked x = false) _ t th new Hn); [exact Hnl|exact Hl'].
    - intros t' x Hx. rewrite Hc' in Hx. revert t' x Hx.
      apply (threads_set (cc_th_nora (cf_legacy c)) _ t th new Hn); [exact Hnr|exact Hn']. }
  assert (Hrel : forall th1 l, th_leaked th1 = false -> th_code th1 = tl (th_code th) \/ th_code th1 = th_code th ->
                               th_prog th1 = th_prog th ->
                               cc_noleak (cc_release c t th1 l) /\
                               (forall t' x, nth_error (cf_threads (cc_release c t th1 l)) t' = Some x -> cc_th_nora (cf_legacy c) x)).
  { intros th1 l Hl1 Hc1 Hp1.
    assert (Hnora1 : forallb cc_instr_nora (th_code th1) = true).
    { destruct Hc1 as [->| ->]; [now apply forallb_tl|exact Hc]. }
    destruct (cc_release_shape c t th1 l) as (_ & x & Hx & Hxp & _ & _ & Hxc & Hxl).
    apply (Hgen _ x Hx); [congruence|]. split; [now rewrite Hxc|]. rewrite Hxp, Hp1. exact Hp. }
  destruct (cc_next_of th) eqn:Hnx; auto.
  - destruct (th_prog th) as [|o rest] eqn:Hpr; [auto|].
    destruct (cc_begin (cf_legacy c) o (th_slots th)) as [f code] eqn:Hb.
    eapply Hgen; [reflexivity|exact Hl|]. split; cbn.
    + pose proof (cc_begin_nora (cf_legacy c) o (th_slots th)) as H. rewrite Hb in H. apply H.
      intros Hlg. specialize (Hp Hlg). cbn in Hp. now apply andb_true_iff in Hp as [Ho _].
    + intros Hlg. specialize (Hp Hlg). cbn in Hp. now apply andb_true_iff in Hp as [_ Hr].
  - apply next_instr in Hnx as (Hact & r & Hcode). destruct i as [l x|l|l|a].
    + unfold cc_acquire. destruct l; eapply Hgen; try reflexivity; cbn; try assumption;
        (split; cbn; [now apply forallb_tl|exact Hp]).
    + apply Hrel; cbn; auto.
    + eapply Hgen; [reflexivity|exact Hl|]. split; cbn; [now apply forallb_tl|exact Hp].
    + pose proof (wt_active th Hwt Hact) as Hok. rewrite Hcode in Hok, Hc. cbn [cc_ok] in Hok.
      destruct r; [|discriminate]. apply ctx_eqb_eq in Hok as [Hok Hlen].
      assert (Hlen' : length (th_f th) = ctx_len a) by (unfold ctx_len; exact Hlen).
      cbn in Hc. rewrite andb_true_r in Hc. apply negb_true_iff in Hc.
      pose proof (cc_sem_nora a (th_fr th) (cf_st c) Hc) as Hsn.
      pose proof (cc_sem_ok a (th_fr th) (cf_st c) (th_f th) Hlen') as Hsem. unfold cc_okd_ctx in Hsem.
      rewrite <- Hlen', Hok in Hsem. cbn [fst snd] in Hsem.
      destruct (cc_sem a (th_fr th) (cf_st c)) as [s f code|s].
      * eapply Hgen; [reflexivity|exact Hl|]. split; cbn; [|exact Hp]. rewrite Hcode. cbn. now rewrite app_nil_r.
      * eapply Hgen; [reflexivity| |split; cbn; [reflexivity|exact Hp]]. cbn. rewrite Hl. cbn.
        apply negb_false_iff. destruct Hsem as [Hk|Hk]; [|exact Hk]. destruct a; discriminate.
  - apply next_finish in Hnx as (Hact & Hcode & Hd). eapply Hgen; [reflexivity|exact Hl|]. split; cbn; [reflexivity|exact Hp].
Qed.

Theorem cc_nora_run c sched :
  cc_inv c -> cf_bad c = None -> cc_noleak c -> cc_nora c -> cc_noleak (run_sched_from c sched).
Proof.
  intros Hi Hb Hl Hn.
  assert (H : cc_noleak (run_sched_from c sched) /\ cc_nora (run_sched_from c sched)).
  { induction sched as [|t sched IH] using rev_ind; [auto|]. rewrite run_snoc. destruct IH as [IHl IHn].
    apply cc_step_nora; [|exact IHl|exact IHn]. exact (proj1 (cc_inv_run c sched Hi Hb IHl)). }
  exact (proj1 H).
Qed.

Definition cc_progs_nora (progs : list (list (option nat) * list op)) : bool :=
  forallb (fun sp => forallb cc_op_nora (snd sp)) progs.

Lemma init_noleak lg s progs : cc_noleak (cc_init_gen lg s progs).
Proof.
  intros t th Hn. unfold cc_init_gen in Hn. cbn in Hn. rewrite nth_error_map in Hn.
  destruct (nth_error progs t); [|discriminate]. now inversion Hn.
Qed.

(* TODAY'S TABLE: no schedule of any programs leaks a lock *)
Theorem conc_no_leak s progs sched : cc_noleakb (cc_run_from s progs sched) = true.
Proof.
  apply cc_noleakb_iff. destruct (cc_inv_init s progs) as [Hi Hb]. apply cc_nora_run; auto.
  - apply init_noleak.
  - intros t th Hn. unfold cc_init_from, cc_init_gen in Hn. cbn in Hn. rewrite nth_error_map in Hn.
    destruct (nth_error progs t) as [sp|] eqn:Hs; [|discriminate]. inversion Hn; subst. split; [reflexivity|]. cbn. discriminate.
Qed.

(* the table before ce143d9: no leak as long as no program calls RemoveAll *)
Theorem conc_legacy_no_removeall_no_leak s progs sched :
  cc_progs_nora progs = true -> cc_noleakb (run_sched_from (cc_init_gen true s progs) sched) = true.
Proof.
  intros Hp. apply cc_noleakb_iff. destruct (cc_inv_init_gen true s progs) as [Hi Hb]. apply cc_nora_run; auto.
  - apply init_noleak.
  - intros t th Hn. unfold cc_init_gen in Hn. cbn in Hn. rewrite nth_error_map in Hn.
    destruct (nth_error progs t) as [sp|] eqn:Hs; [|discriminate]. inversion Hn; subst. split; [reflexivity|]. cbn. intros _.
    unfold cc_progs_nora in Hp. rewrite forallb_forall in Hp. apply Hp. now apply nth_error_In in Hs.
Qed.

(* ------------------------------------------------------------------ lockset, decided over the table *)
Definition cc_name_unlocked_reader (a : cc_aid) : bool :=
  match a with
  | AHPre HkReadAt | AHPre HkWrite | AHPre HkWriteAt | AHPre HkSeek | AHPre HkTruncate => true
  | _ => false
  end.
Definition cc_is_rename (a : cc_aid) : bool := match a with ARename => true | _ => false end.
Definition cc_is_readdir_body (a : cc_aid) : bool :=
  match a with AHBody HkReaddir | AHBody HkReaddirnames => true | _ => false end.
Definition cc_is_fname (f : cc_field) : bool := match f with FName => true | _ => false end.

(* the pairs without a common lock: Rename's write of name vs the sort of a listing (ordered by
   happens-before, see cc_protected_hb) and — before commit cbef301 — vs the unlocked reads of the
   error paths of mem.File *)
Definition cc_exc_errpath (a1 : cc_aid) (x : cc_access) (a2 : cc_aid) (y : cc_access) : bool :=
  cc_is_fname (ac_field x) &&
  ((cc_is_rename a1 && ac_write x && cc_name_unlocked_reader a2 && negb (ac_own y) && negb (ac_parent y)) ||
   (cc_is_rename a2 && ac_write y && cc_name_unlocked_reader a1 && negb (ac_own x) && negb (ac_parent x))).
Definition cc_exc_sort (a1 : cc_aid) (x : cc_access) (a2 : cc_aid) (y : cc_access) : bool :=
  cc_is_fname (ac_field x) &&
  ((cc_is_rename a1 && ac_write x && cc_is_readdir_body a2 && ac_parent y) ||
   (cc_is_rename a2 && ac_write y && cc_is_readdir_body a1 && ac_parent x)).

(* [acc]: the annotation table; [wt]: only accesses that well-typed programs can make *)
Definition cc_table_dec (acc : cc_aid -> list cc_access) (wt : bool)
           (ok : cc_aid -> cc_access -> cc_aid -> cc_access -> bool) : bool :=
  forallb (fun a1 => forallb (fun a2 => forallb (fun x => forallb (fun y =>
    negb (cc_conflict x y) || (wt && negb (ac_wt x && ac_wt y)) || ok a1 x a2 y) (acc a2)) (acc a1)) cc_all_aids) cc_all_aids.

Lemma cc_table_dec_spec acc ok : cc_table_dec acc false ok = true ->
  forall a1 a2 x y, In a1 cc_all_aids -> In a2 cc_all_aids -> In x (acc a1) -> In y (acc a2) ->
    cc_conflict x y = true -> ok a1 x a2 y = true.
Proof.
  unfold cc_table_dec. intros H a1 a2 x y H1 H2 Hx Hy Hc.
  rewrite forallb_forall in H. specialize (H a1 H1). rewrite forallb_forall in H. specialize (H a2 H2).
  rewrite forallb_forall in H. specialize (H x Hx). rewrite forallb_forall in H. specialize (H y Hy).
  rewrite Hc in H. exact H.
Qed.

Lemma cc_table_dec_spec_wt acc ok : cc_table_dec acc true ok = true ->
  forall a1 a2 x y, In a1 cc_all_aids -> In a2 cc_all_aids -> In x (acc a1) -> In y (acc a2) ->
    cc_conflict x y = true -> ac_wt x = true -> ac_wt y = true -> ok a1 x a2 y = true.
Proof.
  unfold cc_table_dec. intros H a1 a2 x y H1 H2 Hx Hy Hc Hwx Hwy.
  rewrite forallb_forall in H. specialize (H a1 H1). rewrite forallb_forall in H. specialize (H a2 H2).
  rewrite forallb_forall in H. specialize (H x Hx). rewrite forallb_forall in H. specialize (H y Hy).
  rewrite Hc, Hwx, Hwy in H. exact H.
Qed.

(* today: every conflicting pair (well-typed or not, List included) is ordered *)
Lemma conc_lockset_hb_table : cc_table_dec cc_acc false cc_protected_hb = true.
Proof. vm_compute. reflexivity. Qed.

(* today, pure lockset: only the sort of a listing has no common lock with Rename *)
Lemma conc_lockset_table :
  cc_table_dec cc_acc false (fun a1 x a2 y => cc_protected a1 x a2 y || cc_exc_sort a1 x a2 y) = true.
Proof. vm_compute. reflexivity. Qed.

(* before cbef301, well-typed accesses: additionally the error paths *)
Lemma conc_lockset_hb_table_before_cbef301 :
  cc_table_dec cc_acc_before_cbef301 true (fun a1 x a2 y => cc_protected_hb a1 x a2 y || cc_exc_errpath a1 x a2 y) = true.
Proof. vm_compute. reflexivity. Qed.

Lemma cc_all_aids_complete a : In a cc_all_aids.
Proof. destruct a; try destruct k; vm_compute; tauto. Qed.

(* ------------------------------------------------------------------ quiescent consistency: transfer *)
(* the tree part of the state: the path map and, per node, name / kind / child index *)
Definition cc_node_tree (n : node) := (nname n, ndir n, nhasdir n, nkids n).
Definition cc_tree_of (s : mst) := (mdata s, map cc_node_tree (mheap s)).

Lemma tree_upd_node s r g :
  (forall n, cc_node_tree (g n) = cc_node_tree n) -> cc_tree_of (upd_node s r g) = cc_tree_of s.
Proof.
  intros Hg. unfold upd_node, get_node. destruct (nth_error (mheap s) r) as [n|] eqn:Hn; [|reflexivity].
  unfold cc_tree_of, set_node. cbn. f_equal. rewrite map_list_set, Hg. apply list_set_same.
  now rewrite nth_error_map, Hn.
Qed.

Lemma tree_put_data s r d : cc_tree_of (put_data s r d) = cc_tree_of s.
Proof. destruct d; [|reflexivity]. cbn. now apply tree_upd_node. Qed.

Lemma tree_m_hop s i k :
  (forall h nd, cc_tree_of (fst (k h nd)) = cc_tree_of s) -> cc_tree_of (fst (m_hop s i k)) = cc_tree_of s.
Proof.
  intros H. unfold m_hop. destruct (nth_error (mhandles s) i); [|reflexivity].
  destruct (get_node s (href h)); [apply H|reflexivity].
Qed.

Lemma tree_m_readdir s i h n : cc_tree_of (fst (fst (m_readdir s i h n))) = cc_tree_of s.
Proof.
  unfold m_readdir. destruct (get_node s (href h)); [|reflexivity]. destruct (negb (ndir n0)); reflexivity.
Qed.

(* calls on handles never change the tree part *)
Lemma tree_handle_op s o : op_handle_of o <> None -> cc_tree_of (fst (m_step_raw s o)) = cc_tree_of s.
Proof.
  destruct o; cbn [op_handle_of]; try congruence; intros _; cbn [m_step_raw]; apply tree_m_hop; intros hd nd.
  - destruct (f_read (ndata nd) hd n). reflexivity.
  - destruct (f_readat (ndata nd) hd n off). reflexivity.
  - destruct (f_write (ndata nd) hd b) as [[d h'] r]. cbn. now rewrite tree_put_data.
  - destruct (f_writeat (ndata nd) hd b off) as [[d h'] r]. cbn. now rewrite tree_put_data.
  - destruct (f_write (ndata nd) hd b) as [[d h'] r]. cbn. now rewrite tree_put_data.
  - destruct (f_seek (ndata nd) hd off whence). reflexivity.
  - destruct (f_truncate (ndata nd) hd n) as [d r]. cbn. now rewrite tree_put_data.
  - destruct (hclosed hd); [reflexivity|]. cbn. destruct (hro hd); [reflexivity|].
    rewrite tree_upd_node; [reflexivity|intros; reflexivity].
  - pose proof (tree_m_readdir s h hd n) as H. destruct (m_readdir s h hd n) as [[s1 infos] e]. cbn in H.
    destruct e as [er|]; [destruct infos; [destruct (errk_eqb (ek er) KEOF)|]|]; exact H.
  - pose proof (tree_m_readdir s h hd n) as H. destruct (m_readdir s h hd n) as [[s1 infos] e]. cbn in H.
    destruct e as [er|]; [destruct infos; [destruct (errk_eqb (ek er) KEOF)|]|]; exact H.
  - reflexivity.
  - reflexivity.
  - reflexivity.
Qed.

Definition cc_code_for (o : op) (code : list cc_instr) : bool :=
  forallb (fun i => match i with CcAct a => cc_aid_for a o | _ => true end) code.

Lemma code_for_touches o l : cc_code_for o (cc_touches l) = true.
Proof. unfold cc_code_for. induction l; cbn; auto. Qed.

Lemma code_for_lockonly o code : cc_lockonly code = true -> cc_code_for o code = true.
Proof.
  unfold cc_lockonly, cc_code_for. induction code as [|i code IH]; [reflexivity|]. cbn [forallb]. intros H.
  apply andb_true_iff in H as [H1 H2]. rewrite (IH H2). destruct i; try discriminate; reflexivity.
Qed.

Lemma handle_set o h : op_handle_of (op_set_handle o h) = match op_handle_of o with Some _ => Some h | None => None end.
Proof. destruct o; reflexivity. Qed.

(* the sections of a call stay within the call's method and keep its arguments *)
Lemma cc_sem_for a f s :
  cc_aid_for a (fr_op f) = true ->
  match cc_sem a f s with
  | CcCont _ f' code => fr_op f' = fr_op f /\ cc_code_for (fr_op f) code = true
  | CcPanic _ => True
  end.
Proof.
  unfold cc_code_for. intros Ha.
  destruct a; destruct (fr_op f) eqn:Hop; try discriminate Ha; cbn [cc_sem]; rewrite ?Hop;
    repeat match goal with
           | |- match (let '(_, _) := ?x in _) with _ => _ end => destruct x
           | |- match (match ?x with _ => _ end) with _ => _ end => destruct x
           | |- match (if ?x then _ else _) with _ => _ end => destruct x
           end;
    try exact I; (split; [cbn; try rewrite Hop; reflexivity|]);
    unfold cc_ra_next; cbn [fr_op fr_set_res fr_set_ref fr_set_h fr_set_z fr_set_keys fr_set_created fr_created];
    rewrite ?Hop;
    repeat match goal with |- context [if ?c then _ else _] => destruct c end;
    repeat match goal with |- context [match ?c with _ => _ end] => destruct c end;
    rewrite ?forallb_app; fold (cc_code_for (fr_op f)); rewrite ?Hop;
    cbn [forallb cc_aid_for andb op_handle_of]; try reflexivity; try exact (code_for_touches _ _);
    try (rewrite andb_true_r; exact (code_for_touches _ _));
    try (rewrite andb_true_r; exact (code_for_lockonly _ _ (lockonly_rename_code _ _ _))).
Qed.

Lemma cc_begin_for o slots :
  fr_op (fst (cc_begin false o slots)) = o /\ cc_code_for o (snd (cc_begin false o slots)) = true.
Proof.
  destruct o; cbn; auto;
    repeat match goal with |- context [match ?x with _ => _ end] => destruct x end; cbn; auto.
Qed.

Lemma tree_m_chmod s name m : cc_tree_of (fst (m_chmod s name m)) = cc_tree_of s.
Proof.
  unfold m_chmod. destruct (lookup s (normalize_path name)); [|reflexivity].
  unfold set_file_mode. destruct (lookup s (normalize_path (normalize_path name))); [|reflexivity].
  cbn. now apply tree_upd_node.
Qed.

Lemma tree_m_chtimes s name t : cc_tree_of (fst (m_chtimes s name t)) = cc_tree_of s.
Proof.
  unfold m_chtimes. destruct (lookup s (normalize_path name)); [|reflexivity]. cbn. now apply tree_upd_node.
Qed.

Lemma tree_of_finish s x h flag : cc_tree_of (cc_of_finish s x h flag) = cc_tree_of s.
Proof.
  unfold cc_of_finish.
  match goal with |- context [upd_node ?a _ _] => set (s1 := a) end.
  assert (H1 : cc_tree_of s1 = cc_tree_of s).
  { unfold s1. destruct (flag_has flag o_append); [|reflexivity]. destruct (nth_error (mhandles s) h); reflexivity. }
  destruct (_ && _)%bool; [|exact H1]. rewrite tree_upd_node; [exact H1|intros; reflexivity].
Qed.

Section Transfer.
  Variable P : mst -> Prop.
  Variable A : op -> Prop.
  Hypothesis Htree : forall s s', cc_tree_of s = cc_tree_of s' -> P s -> P s'.
  Hypothesis Hcreate : forall s p, A (Create p) -> P s -> P (fst (m_create s (normalize_path p))).
  Hypothesis Hofcreate : forall s p fl pm s' x, A (OpenFile p fl pm) ->
      cc_open_or_create s (normalize_path p) fl (Z.land pm chmod_bits) = inr (s', x) -> P s -> P s'.
  Hypothesis Hremoveall : forall s p, A (RemoveAll p) -> P s -> P (fst (m_removeall s (normalize_path p))).
  Hypothesis Hmkdir : forall s p pm, A (Mkdir p pm) \/ A (MkdirAll p pm) -> lookup s (normalize_path p) = None ->
                                     P s -> P (cc_mkdir_body s (normalize_path p) (Z.land pm chmod_bits)).
  Hypothesis Hremove : forall s p, A (Remove p) -> P s -> P (fst (m_remove s (normalize_path p))).
  Hypothesis Hrename : forall s p q, A (Rename p q) -> P s -> P (fst (m_rename s (normalize_path p) q)).

  Lemma P_tick s : P s -> P (cc_tick s).
  Proof. apply Htree. reflexivity. Qed.

  Lemma cc_sem_P a f s :
    A (fr_op f) -> cc_aid_for a (fr_op f) = true -> P s ->
    match cc_sem a f s with CcCont s' _ _ => P s' | CcPanic s' => P s' end.
  Proof.
    intros HA Ha HP. apply P_tick in HP.
    destruct a; destruct (fr_op f) eqn:Hop; try discriminate Ha; cbn [cc_sem]; rewrite ?Hop; cbn [cc_path].
    all: try exact HP.
    all: try solve [
      repeat match goal with
             | |- context [match nth_error ?l ?i with _ => _ end] => destruct (nth_error l i)
             | |- context [match get_node ?s0 ?r with _ => _ end] => destruct (get_node s0 r)
             | |- context [if cc_early ?a ?b ?c then _ else _] => destruct (cc_early a b c)
             end; try exact HP;
      match goal with
      | |- context [m_step_raw ?s0 ?o0] =>
        let Ht := fresh "Ht" in
        pose proof (tree_handle_op s0 o0) as Ht;
        destruct (m_step_raw s0 o0) as [s1 r]; cbn [fst] in Ht;
        eapply Htree; [symmetry; apply Ht; rewrite handle_set; cbn; discriminate | exact HP]
      end ].
    all: try solve [
      unfold m_open;
      repeat match goal with
             | |- context [match lookup ?s0 ?n with _ => _ end] => destruct (lookup s0 n)
             | |- context [match get_node ?s0 ?r with _ => _ end] => destruct (get_node s0 r)
             | |- context [match nth_error ?l ?i with _ => _ end] => destruct (nth_error l i)
             | |- context [if ?c then _ else _] => destruct c
             end; unfold alloc_handle; lazy beta iota;
      first [ exact HP
            | (eapply Htree; [|exact HP]; reflexivity)
            | (eapply Htree; [|exact HP]; symmetry; now apply tree_upd_node) ] ].
    all: try solve [
      match goal with
      | |- context [m_chmod ?s0 ?n ?m] =>
        pose proof (tree_m_chmod s0 n m) as Ht; destruct (m_chmod s0 n m) as [s1 r]; cbn [fst] in Ht;
        eapply Htree; [symmetry; exact Ht|exact HP]
      | |- context [m_chtimes ?s0 ?n ?m] =>
        pose proof (tree_m_chtimes s0 n m) as Ht; destruct (m_chtimes s0 n m) as [s1 r]; cbn [fst] in Ht;
        eapply Htree; [symmetry; exact Ht|exact HP]
      | |- context [m_create ?s0 (normalize_path ?p0)] =>
        pose proof (Hcreate s0 p0 HA HP) as H; destruct (m_create s0 (normalize_path p0)); exact H
      | |- context [m_remove ?s0 (normalize_path ?p0)] =>
        pose proof (Hremove s0 p0 HA HP) as H; destruct (m_remove s0 (normalize_path p0)) as [s1 r]; cbn in H;
        destruct r; first [exact H|exact HP]
      | |- context [m_rename ?s0 (normalize_path ?p0) ?q0] =>
        pose proof (Hrename s0 p0 q0 HA HP) as H; destruct (m_rename s0 (normalize_path p0) q0) as [s1 r]; cbn in H;
        destruct r; first [exact H|exact HP]
      | |- context [m_removeall ?s0 (normalize_path ?p0)] =>
        pose proof (Hremoveall s0 p0 HA HP) as H; destruct (m_removeall s0 (normalize_path p0)) as [s1 r]; cbn in H;
        destruct r; first [exact H|exact HP]
      | |- context [cc_mkdir_body ?s0 (normalize_path ?p0) _] =>
        destruct (lookup s0 (normalize_path p0)) eqn:Hl; [exact HP|];
        destruct (below_file s0 (normalize_path p0)); [exact HP|]; apply Hmkdir; auto
      | |- context [cc_open_or_create ?s0 (normalize_path ?p0) (cc_flag (OpenFile _ ?fl ?pm)) _] =>
        cbn [cc_flag cc_perm];
        destruct (cc_open_or_create s0 (normalize_path p0) fl (Z.land pm chmod_bits)) as [k|[s1 x]] eqn:Hoc; [exact HP|];
        pose proof (Hofcreate s0 p0 fl pm s1 x HA Hoc HP) as H; eapply Htree; [|exact H]; reflexivity
      end ].
    - (* AOfLookup: the handle is finished inside the section *)
      destruct (lookup (cc_tick s) (normalize_path p)); [|exact HP]. unfold alloc_handle. cbv zeta beta iota.
      eapply Htree; [|exact HP]. symmetry. now rewrite tree_of_finish.
    - (* AOfCreate *)
      cbn [cc_flag cc_perm].
      destruct (cc_open_or_create (cc_tick s) (normalize_path p) flag (Z.land perm chmod_bits)) as [k|[s1 x]] eqn:Hoc; [exact HP|].
      pose proof (Hofcreate (cc_tick s) p flag perm s1 x HA Hoc HP) as H. unfold alloc_handle. cbv zeta beta iota.
      eapply Htree; [|exact H]. symmetry. now rewrite tree_of_finish.
  Qed.

  Definition cc_th_for (th : cc_thread) : Prop :=
    Forall A (th_prog th) /\
    (th_active th = true -> A (fr_op (th_fr th)) /\ cc_code_for (fr_op (th_fr th)) (th_code th) = true).

  Lemma cc_step_P c t :
    cf_legacy c = false ->
    P (cf_st c) -> (forall t' th, nth_error (cf_threads c) t' = Some th -> cc_th_for th) ->
    P (cf_st (cc_step c t)) /\
    (forall t' th, nth_error (cf_threads (cc_step c t)) t' = Some th -> cc_th_for th).
  Proof.
    intros Hlg HP Hall. unfold cc_step. rewrite Hlg. destruct (cc_enabled c t); cbn [negb]; [|auto].
    destruct (nth_error (cf_threads c) t) as [th|] eqn:Hn; [|auto].
    pose proof (Hall t th Hn) as [Hprog Hcode].
    assert (Hrel : forall th1 l, th_prog th1 = th_prog th -> th_active th1 = th_active th -> th_fr th1 = th_fr th ->
                     (th_code th1 = tl (th_code th) \/ th_code th1 = th_code th) ->
                     P (cf_st (cc_release c t th1 l)) /\
                     (forall t' x, nth_error (cf_threads (cc_release c t th1 l)) t' = Some x -> cc_th_for x)).
    { intros th1 l H1 H2 H3 H4. destruct (cc_release_shape c t th1 l) as (Hs & x & Hx & Hp & Ha & Hf & Hc & _).
      rewrite Hs, Hx. split; [exact HP|]. eapply threads_set; eauto. split; [now rewrite Hp, H1|].
      rewrite Ha, H2, Hf, H3, Hc. intros Hact. destruct (Hcode Hact) as [HA Hcf]. split; [exact HA|].
      destruct H4 as [->| ->]; [now apply forallb_tl|exact Hcf]. }
    destruct (cc_next_of th) eqn:Hnx; auto.
    - apply next_start in Hnx as (Hact & o & rest & Hp). rewrite Hp in *. inversion Hprog as [|? ? HAo Hrest]; subst.
      destruct (cc_begin false o (th_slots th)) as [f code] eqn:Hb. cbn. split; [exact HP|].
      eapply threads_set; eauto. split; cbn; [exact Hrest|]. intros _.
      pose proof (cc_begin_for o (th_slots th)) as [H1 H2]. rewrite Hb in H1, H2. cbn in H1, H2. now rewrite H1.
    - apply next_instr in Hnx as (Hact & r & Hc). destruct (Hcode Hact) as [HA Hcf]. destruct i as [l x|l|l|a].
      + unfold cc_acquire. destruct l; cbn; (split; [exact HP|]); eapply threads_set; eauto;
          (split; cbn; [exact Hprog|intros _; split; [exact HA|now apply forallb_tl]]).
      + apply Hrel; cbn; auto.
      + cbn. split; [exact HP|]. eapply threads_set; eauto. split; cbn; [exact Hprog|].
        intros _. split; [exact HA|now apply forallb_tl].
      + rewrite Hc in Hcf. cbn in Hcf. apply andb_true_iff in Hcf as [Hfa Hcr].
        pose proof (cc_sem_P a (th_fr th) (cf_st c) HA Hfa HP) as HPs.
        pose proof (cc_sem_for a (th_fr th) (cf_st c) Hfa) as Hfor.
        destruct (cc_sem a (th_fr th) (cf_st c)) as [s f code|s]; cbn; (split; [exact HPs|]); eapply threads_set; eauto.
        * destruct Hfor as [Hop Hcf']. split; cbn; [exact Hprog|]. intros _. rewrite Hop. split; [exact HA|].
          unfold cc_code_for. rewrite forallb_app. rewrite Hc. cbn [tl]. unfold cc_code_for in Hcf'. now rewrite Hcf'.
        * split; cbn; [exact Hprog|]. intros _. split; [exact HA|reflexivity].
    - cbn. split; [exact HP|]. eapply threads_set; eauto. split; cbn; [exact Hprog|discriminate].
  Qed.

  Theorem conc_transfer s0 progs sched :
    (forall sp o, In sp progs -> In o (snd sp) -> A o) -> P s0 -> P (cf_st (cc_run_from s0 progs sched)).
  Proof.
    intros HA HP0. unfold cc_run_from.
    assert (H : P (cf_st (run_sched_from (cc_init_from s0 progs) sched)) /\
                (forall t' th, nth_error (cf_threads (run_sched_from (cc_init_from s0 progs) sched)) t' = Some th -> cc_th_for th)).
    { induction sched as [|t sched IH] using rev_ind.
      - split; [exact HP0|]. intros t' th Hn. cbn in Hn. rewrite nth_error_map in Hn.
        destruct (nth_error progs t') as [sp|] eqn:Hs; [|discriminate]. inversion Hn; subst. split; cbn; [|discriminate].
        apply Forall_forall. intros o Ho. apply (HA sp o); [now apply nth_error_In in Hs|exact Ho].
      - rewrite run_snoc. destruct IH as [IH1 IH2]. apply cc_step_P; auto. now rewrite run_legacy. }
    exact (proj1 H).
  Qed.
End Transfer.
