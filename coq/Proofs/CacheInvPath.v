(* Proofs/CacheInvPath.v — C11, part C: the calls of CacheOnReadFs that name a path preserve the invariant. *)
From AF Require Import Lib.Bytes Lib.Path Lib.Ops Gen.Consts Model.MemFile Model.MemFs Model.WfOps Model.Union Model.Cow
  Model.Cache Proofs.MemFsBasics Proofs.MemFsPath Proofs.MemFsWF Proofs.MemFsStep Proofs.MemFsInv Proofs.MemFsRename
  Proofs.CacheProof Proofs.CacheReady Proofs.CacheInv Proofs.CacheFrames Proofs.CacheHandles Proofs.CacheInvOps Proofs.CacheCopy
  Proofs.CacheInvCopy Proofs.MemFsRenameGen Proofs.MemFsBelow Proofs.MemBelowRefused.
Local Open Scope Z_scope.

(* ---------- well-formedness of a call depends on the path map and the kinds of the nodes only ---------- *)
Section KindSame.
Variables (s s' : mst).
Hypothesis K : kind_same s s'.

Lemma ks_is_dir k : is_dir_at s' k = is_dir_at s k.
Proof. unfold is_dir_at. now rewrite (kind_same_kind s s' k K). Qed.
Lemma ks_is_file k : is_file_at s' k = is_file_at s k.
Proof. unfold is_file_at. now rewrite (kind_same_kind s s' k K). Qed.
Lemma ks_has_kids k : has_kids s' k = has_kids s k.
Proof. unfold has_kids. destruct K as (A & _). now rewrite A. Qed.
Lemma ks_nfp k : no_file_prefix s' k = no_file_prefix s k.
Proof.
  unfold no_file_prefix. destruct K as (A & _). rewrite A. clear A. induction (mdata s) as [|kv l IH]; [reflexivity|].
  cbn [forallb]. now rewrite IH, ks_is_file.
Qed.
Lemma ks_prefixes k : prefixes_dirs s' k = prefixes_dirs s k.
Proof.
  unfold prefixes_dirs. destruct K as (A & _). rewrite A. clear A. induction (mdata s) as [|kv l IH]; [reflexivity|].
  cbn [forallb]. now rewrite IH, ks_is_dir.
Qed.
Lemma ks_through k : through_file s' k = through_file s k.
Proof.
  unfold through_file. destruct K as (A & _). rewrite A. clear A. induction (mdata s) as [|kv l IH]; [reflexivity|].
  cbn [existsb]. now rewrite IH, ks_is_file.
Qed.
Lemma ks_wf_below o : wf_below s' o = wf_below s o.
Proof. destruct o; cbn [wf_below]; rewrite ?(kind_same_kind s s' _ K), ?ks_through; reflexivity. Qed.
Lemma ks_wf_op o : WfOps.wf_op_ord s' o = WfOps.wf_op_ord s o.
Proof.
  destruct o; cbn [WfOps.wf_op_ord]; rewrite ?(kind_same_kind s s' _ K), ?(kind_same_lookup s s' _ K), ?ks_is_dir, ?ks_nfp, ?ks_prefixes, ?ks_has_kids; reflexivity.
Qed.
Lemma ks_wf_op_full o : WfOps.wf_op s' o = WfOps.wf_op s o.
Proof. unfold WfOps.wf_op. now rewrite ks_wf_op, ks_wf_below. Qed.
End KindSame.

(* a call refused because its name passes through a regular file: only the clock moves *)
Lemma below_step_bump s o : WF s -> wf_below s o = true -> m_step s o = (bump s, RErr (EW KENOTDIR)).
Proof. intros W H. exact (below_step_ticked s o W H). Qed.

(* ---------- the call on the base, then on the layer ---------- *)
(* [stop_of r]: cache_both returns here (an error or a panic of the base) *)
Definition stop_of (r : res) : option res :=
  match r with RPanic => Some RPanic | _ => match res_err r with Some er => Some (RErr er) | None => None end end.

(* Chmod / Chown / Chtimes: each side on its own keeps the invariant *)
Lemma cinv_attr_base sb sl tbl phi o : CInvP sb sl tbl phi -> attr_op o = true -> exists phi', CInvP (fst (m_step sb o)) sl tbl phi'.
Proof.
  intros [T B] Ha. destruct (attr_step sb o Ha) as (F & D & Hh & W).
  destruct (cinv_frames sb sl tbl phi (fst (m_step sb o)) sl Some (conj T B) (W (ti_wfb _ _ _ T)) (ti_wfl _ _ _ T) F (frame_refl sl) D) as (phi' & C & _).
  - now apply dkeep_view.
  - intros i h H. now rewrite Hh.
  - apply hkeep_refl.
  - intros k' rl Hk Hf. exfalso. exact (no_fresh_of_lookup sl sl (ti_wfl _ _ _ T) (fun _ => eq_refl) k' rl Hk Hf).
  - now exists phi'.
Qed.
Lemma cinv_attr_layer sb sl tbl phi o : CInvP sb sl tbl phi -> attr_op o = true -> exists phi', CInvP sb (fst (m_step sl o)) tbl phi'.
Proof.
  intros [T B] Ha. destruct (attr_step sl o Ha) as (F & D & Hh & W).
  destruct (cinv_frames sb sl tbl phi sb (fst (m_step sl o)) Some (conj T B) (ti_wfb _ _ _ T) (W (ti_wfl _ _ _ T)) (frame_refl sb) F) as (phi' & C & _).
  - now apply dkeep_view.
  - exact D.
  - apply hkeep_refl.
  - intros i h H. now rewrite Hh.
  - intros k' rl Hk Hf. exfalso. exact (no_fresh_of_lookup sl _ (ti_wfl _ _ _ T) (fun k => attr_lookup sl o k Ha) k' rl Hk Hf).
  - now exists phi'.
Qed.

(* Remove: on both sides; on the base alone when the layer does not hold the name *)
Lemma wf_remove_parts sb p : WfOps.wf_op_ord sb (Remove p) = true -> wf_name p = true /\ normalize_path p <> s_slash.
Proof.
  cbn [WfOps.wf_op_ord]. intros H. apply andb_true_iff in H as [H _]. apply andb_true_iff in H as [H1 H2]. split; [exact H1|].
  apply negb_true_iff, beqb_neq in H2. exact H2.
Qed.

Lemma remove_layer_wf sb sl phi p : TreeShape sb sl phi -> WfOps.wf_op_ord sb (Remove p) = true -> WF (fst (m_step sl (Remove p))).
Proof.
  intros T Hwf. destruct (wf_remove_parts sb p Hwf) as [Hw Hr]. pose proof (ts_wfl _ _ _ T) as Wl.
  destruct (lookup sl (normalize_path p)) as [rl|] eqn:Hl.
  - apply WF_step_ord; [exact Wl|]. cbn [WfOps.wf_op_ord] in *. apply andb_true_iff in Hwf as [H0 Hk]. rewrite H0. cbn [andb].
    destruct (kind_at sl (normalize_path p)) as [b|] eqn:Ek.
    + rewrite (layer_kind_base sb sl phi T _ b Ek) in Hk. destruct b; [|reflexivity].
      apply negb_true_iff. apply negb_true_iff in Hk. destruct (has_kids sl (normalize_path p)) eqn:E; [|reflexivity].
      now rewrite (has_kids_layer_base sb sl phi T _ E) in Hk.
    + exfalso. unfold kind_at in Ek. rewrite Hl in Ek. destruct (GWF_lookup_node _ _ _ _ _ _ Wl Hl) as (n & Hn). rewrite Hn in Ek. discriminate.
  - destruct (remove_step sl p Wl Hw Hr) as (_ & _ & _ & Hb & _). rewrite (Hb Hl). now apply WF_bump.
Qed.

Lemma cinv_remove_both sb sl tbl phi p :
  CInvP sb sl tbl phi -> WfOps.wf_op_ord sb (Remove p) = true ->
  exists phi', CInvP (fst (m_step sb (Remove p))) (fst (m_step sl (Remove p))) tbl phi'.
Proof.
  intros [T B] Hwf. destruct (wf_remove_parts sb p Hwf) as [Hw Hr].
  pose proof (ti_wfb _ _ _ T) as Wb. pose proof (ti_wfl _ _ _ T) as Wl.
  destruct (remove_step sb p Wb Hw Hr) as (Fb & Db & Hhb & _). destruct (remove_step sl p Wl Hw Hr) as (Fl & Dl & Hhl & _).
  destruct (cinv_frames sb sl tbl phi _ _ _ (conj T B) (WF_step_ord sb _ Wb Hwf) (remove_layer_wf sb sl phi p (TreeInv_shape _ _ _ T) Hwf) Fb Fl Db Dl) as (phi' & C & _).
  - intros i h H. now rewrite Hhb.
  - intros i h H. now rewrite Hhl.
  - intros k' rl Hk Hf. exfalso.
    exact (no_fresh_of_olookup (rho_del (normalize_path p)) sl _ (WF_bound_ok sl Wl) (fun k => remove_lookup sl p k Wl Hw Hr) k' rl Hk Hf).
  - now exists phi'.
Qed.

Lemma cinv_remove_base_only sb sl tbl phi p :
  CInvP sb sl tbl phi -> WfOps.wf_op_ord sb (Remove p) = true -> lookup sl (normalize_path p) = None ->
  exists phi', CInvP (fst (m_step sb (Remove p))) sl tbl phi'.
Proof.
  intros [T B] Hwf Hl. destruct (wf_remove_parts sb p Hwf) as [Hw Hr].
  pose proof (ti_wfb _ _ _ T) as Wb. pose proof (ti_wfl _ _ _ T) as Wl.
  destruct (remove_step sb p Wb Hw Hr) as (Fb & Db & Hhb & _).
  assert (Fl : Frame (rho_del (normalize_path p)) sl sl).
  { eapply frame_ext_lookup; [|apply frame_refl]. intros k. unfold rho_del. destruct (beqb (normalize_path p) k) eqn:E; [|reflexivity].
    apply beqb_eq in E. subst k. cbn [olookup]. exact Hl. }
  destruct (cinv_frames sb sl tbl phi _ sl _ (conj T B) (WF_step_ord sb _ Wb Hwf) Wl Fb Fl Db) as (phi' & C & _).
  - now apply dkeep_view.
  - intros i h H. now rewrite Hhb.
  - apply hkeep_refl.
  - intros k' rl Hk Hf. exfalso. exact (no_fresh_of_lookup sl sl Wl (fun _ => eq_refl) k' rl Hk Hf).
  - now exists phi'.
Qed.

(* RemoveAll on both sides *)
Lemma wf_removeall_parts sb p : WfOps.wf_op_ord sb (RemoveAll p) = true ->
  wf_name p = true /\ normalize_path p <> s_slash /\ no_file_prefix sb (normalize_path p) = true.
Proof.
  cbn [WfOps.wf_op_ord]. intros H. apply andb_true_iff in H as [H H3]. apply andb_true_iff in H as [H1 H2]. split; [exact H1|].
  apply negb_true_iff, beqb_neq in H2. now split.
Qed.

Lemma cinv_removeall_both sb sl tbl phi p :
  CInvP sb sl tbl phi -> WfOps.wf_op_ord sb (RemoveAll p) = true ->
  exists phi', CInvP (fst (m_step sb (RemoveAll p))) (fst (m_step sl (RemoveAll p))) tbl phi'.
Proof.
  intros [T B] Hwf. destruct (wf_removeall_parts sb p Hwf) as (Hw & Hr & Hn).
  pose proof (ti_wfb _ _ _ T) as Wb. pose proof (ti_wfl _ _ _ T) as Wl.
  destruct (removeall_step sb p Wb Hw Hr) as (Fb & Db & Hhb & _). destruct (removeall_step sl p Wl Hw Hr) as (Fl & Dl & Hhl & _).
  assert (Hwfl : WfOps.wf_op_ord sl (RemoveAll p) = true).
  { cbn [WfOps.wf_op_ord]. rewrite Hw. assert (E : beqb (normalize_path p) s_slash = false) by now apply beqb_neq. rewrite E. cbn [andb negb].
    exact (nfp_base_layer sb sl phi (TreeInv_shape _ _ _ T) _ Hn). }
  destruct (cinv_frames sb sl tbl phi _ _ _ (conj T B) (WF_step_ord sb _ Wb Hwf) (WF_step_ord sl _ Wl Hwfl) Fb Fl Db Dl) as (phi' & C & _).
  - intros i h H. now rewrite Hhb.
  - intros i h H. now rewrite Hhl.
  - intros k' rl Hk Hf. exfalso.
    exact (no_fresh_of_olookup (rho_prune (normalize_path p)) sl _ (WF_bound_ok sl Wl) (fun k => removeall_lookup sl p k Wl Hw Hr) k' rl Hk Hf).
  - now exists phi'.
Qed.

(* Rename on both sides (the layer holds the source whenever the base does: CacheOnReadFs copies it first) *)
Lemma wf_rename_parts sb p q : WfOps.wf_op_ord sb (Rename p q) = true ->
  wf_name p = true /\ wf_name q = true /\ normalize_path p <> s_slash.
Proof.
  cbn [WfOps.wf_op_ord]. intros H. apply andb_true_iff in H as [H _]. apply andb_true_iff in H as [H H3]. apply andb_true_iff in H as [H1 H2].
  apply negb_true_iff, beqb_neq in H3. auto.
Qed.

Lemma cinv_rename_both sb sl tbl phi p q :
  CInvP sb sl tbl phi -> WfOps.wf_op_ord sb (Rename p q) = true ->
  (lookup sb (normalize_path p) <> None -> lookup sl (normalize_path p) <> None) ->
  exists phi', CInvP (fst (m_step sb (Rename p q))) (fst (m_step sl (Rename p q))) tbl phi'.
Proof.
  intros [T B] Hwf Hhas. destruct (wf_rename_parts sb p q Hwf) as (Hwp & Hwq & Hor).
  set (old := normalize_path p) in *. set (new := normalize_path q) in *.
  pose proof (ti_wfb _ _ _ T) as Wb. pose proof (ti_wfl _ _ _ T) as Wl. pose proof (TreeInv_shape _ _ _ T) as TS.
  destruct (lookup sb old) as [fb|] eqn:Hlb.
  2:{ (* the source is missing on both sides *)
      rewrite (rename_noop sb p q) by (left; exact Hlb).
      rewrite (rename_noop sl p q) by (left; exact (base_none_layer_none sb sl phi TS old Hlb)).
      exists phi. apply (CInvP_view sb sl tbl phi); [apply same3_bump | apply same3_bump | now split]. }
  destruct (str_eq_dec old new) as [Eon|Eon].
  { rewrite (rename_noop sb p q) by (right; exact Eon). rewrite (rename_noop sl p q) by (right; exact Eon).
    exists phi. apply (CInvP_view sb sl tbl phi); [apply same3_bump | apply same3_bump | now split]. }
  destruct (lookup sl old) as [fl|] eqn:Hll; [|exfalso; apply Hhas; congruence].
  destruct (rename_step_wf sb p q fb Wb Hwf Hlb Eon) as (_ & Wb' & Mb). fold old new in Mb.
  destruct (rename_pre_facts sb p q fb Wb Hwf Hlb Eon) as (Ho & Hn & _ & Hnr & Hb1 & Hb2 & Hfreeb). fold old new in Ho, Hn, Hnr, Hb1, Hb2, Hfreeb.
  (* every proper ancestor of the target is a directory of the base; no regular file on the way *)
  assert (Hanc : forall a, canon a -> below a new = true -> exists ra na, lookup sb a = Some ra /\ get_node sb ra = Some na /\ ndir na = true).
  { intros a Ha Hba. pose proof Hwf as Hwf'. cbn [WfOps.wf_op_ord] in Hwf'. fold old new in Hwf'.
    apply andb_true_iff in Hwf' as [_ Hk]. destruct (GWF_lookup_node _ _ _ _ _ _ Wb Hlb) as (nfb & Hnfb).
    assert (Eko : kind_at sb old = Some (ndir nfb)) by (unfold kind_at; now rewrite Hlb, Hnfb). rewrite Eko in Hk.
    assert (Ebn : beqb old new = false) by now apply beqb_neq. rewrite Ebn, Hb1 in Hk. cbn [orb negb andb] in Hk.
    destruct (kind_at sb new) as [d2|] eqn:Ekn.
    - apply kind_at_some in Ekn as (rn & nn & Hln & _). exact (anc_live sb new rn a Wb Hln Ha Hba).
    - apply is_dir_at_true in Hk as (rp & np & Hlp & Hnp & Hdp). destruct (below_inv a new Ha Hn Hba) as [->|Hbb]; [now exists rp, np|].
      exact (anc_live sb (par new) rp a Wb Hlp Ha Hbb). }
  assert (Hnfpb : no_file_prefix sb new = true).
  { unfold no_file_prefix. apply forallb_forall. intros [a ra] Hin. cbn [fst].
    assert (Hla : lookup sb a = Some ra) by (apply in_aget; [exact (g_nodup _ _ _ _ Wb) | exact Hin]).
    destruct (below a new) eqn:E; [|reflexivity]. cbn [andb].
    destruct (Hanc a (g_canon _ _ _ _ Wb a ra Hla) E) as (r2 & n2 & Hl2 & Hn2 & Hd2). unfold is_file_at, kind_at. now rewrite Hl2, Hn2, Hd2. }
  destruct (rename_step_gen sl p q fl Wl Hwp Hwq Hor Hnr Hll Eon Hb1 Hb2) as (_ & Wl' & Ml).
  { intros k r Hk. destruct (layer_lookup_base sb sl phi TS k r Hk) as (rb & Hb). exact (Hfreeb k rb Hb). }
  { exact (nfp_base_layer sb sl phi TS new Hnfpb). }
  fold old new in Ml.
  destruct (MovedG_frame old new sb _ (WF_bound_ok sb Wb) Mb) as [Fb Db]. destruct (MovedG_frame old new sl _ (WF_bound_ok sl Wl) Ml) as [Fl Dl].
  destruct (cinv_frames sb sl tbl phi _ _ _ (conj T B) Wb' Wl' Fb Fl Db Dl) as (phi' & C & _).
  - intros i h H. now rewrite (mg_handles _ _ _ _ Mb).
  - intros i h H. now rewrite (mg_handles _ _ _ _ Ml).
  - intros k' rl Hk Hf.
    assert (Hold : forall k, lookup sl k = Some rl -> False).
    { intros k Hkk. destruct (WF_bound_ok sl Wl k rl Hkk) as (x & Hx). exact (fresh_not_old sl rl x Hf Hx). }
    destruct (under new k') eqn:En.
    { exfalso. apply under_atbelow, atbelow_suffix in En as (rest & Hrest & ->).
      rewrite <- (rw_app old new rest), (mg_sub _ _ _ _ Ml) in Hk by (apply atbelow_suffix; now exists rest). eauto. }
    destruct (under old k') eqn:Eo.
    { rewrite (mg_gone _ _ _ _ Ml) in Hk by (now apply under_atbelow). discriminate. }
    assert (Hno : ~ atbelow old k') by (intros H; apply under_atbelow in H; congruence).
    assert (Hnn : ~ atbelow new k') by (intros H; apply under_atbelow in H; congruence).
    destruct (mg_rest _ _ _ _ Ml k' Hno Hnn) as [E|(E & Hbel & r2 & n2 & Hl2 & _ & Hn2 & Hd2 & He2)]; [exfalso; rewrite E in Hk; eauto|].
    rewrite Hk in Hl2. inversion Hl2; subst r2.
    destruct (Hanc k' (g_canon _ _ _ _ Wl' k' rl Hk) Hbel) as (ra & na & Hla & Hna & Hda).
    destruct (mg_nodes _ _ _ _ Mb ra na Hna) as (na' & Hna' & Hda' & Hea').
    exists ra, n2, na'. split.
    + destruct (mg_rest _ _ _ _ Mb k' Hno Hnn) as [E2|(E2 & _)]; [now rewrite E2 | congruence].
    + split; [exact Hn2|]. split; [exact Hna'|]. split; [congruence|]. rewrite Hea', (ti_dirs _ _ _ T k' ra na Hla Hna Hda). exact He2.
  - now exists phi'.
Qed.

(* ---------- the six mutators that go through cache_both ---------- *)
Lemma both_op_wf_name sb o : both_op o = true -> WfOps.wf_op_ord sb o = true -> wf_name (op_path o) = true.
Proof.
  destruct o; try discriminate; cbn [WfOps.wf_op_ord op_path]; intros _ H; repeat (apply andb_true_iff in H as [H _]); exact H.
Qed.

Lemma both_op_cases o : both_op o = true ->
  attr_op o = true \/ (exists p, o = Remove p) \/ (exists p, o = RemoveAll p) \/ (exists p q, o = Rename p q).
Proof. destruct o; try discriminate; intros _; eauto 6. Qed.

(* the base refuses: nothing has changed *)
Lemma mut_base_fail sb sl tbl phi o :
  CInvP sb sl tbl phi -> both_op o = true -> WfOps.wf_op_ord sb o = true -> stop_of (snd (m_step sb o)) <> None ->
  exists phi', CInvP (fst (m_step sb o)) sl tbl phi'.
Proof.
  intros C Hb Hwf Hstop. pose proof (ti_wfb _ _ _ (proj1 C)) as Wb.
  destruct (both_op_cases o Hb) as [Ha|[(p & ->)|[(p & ->)|(p & q & ->)]]].
  - exact (cinv_attr_base sb sl tbl phi o C Ha).
  - destruct (wf_remove_parts sb p Hwf) as [Hw Hr]. destruct (remove_step sb p Wb Hw Hr) as (_ & _ & _ & Hnone & Hsome).
    destruct (lookup sb (normalize_path p)) as [f|] eqn:Hl.
    + exfalso. apply Hstop. rewrite Hsome by congruence. reflexivity.
    + rewrite (Hnone eq_refl). exists phi. apply (CInvP_view sb sl tbl phi); [apply same3_bump | apply same3_refl | exact C].
  - destruct (wf_removeall_parts sb p Hwf) as (Hw & Hr & _). destruct (removeall_step sb p Wb Hw Hr) as (_ & _ & _ & Hres).
    exfalso. apply Hstop. rewrite Hres. reflexivity.
  - destruct (lookup sb (normalize_path p)) as [f|] eqn:Hl.
    + exfalso. apply Hstop. destruct (str_eq_dec (normalize_path p) (normalize_path q)) as [E|E].
      * rewrite m_step_bump. cbn [snd m_step_raw]. unfold m_rename. rewrite Hl, E, beqb_refl. reflexivity.
      * destruct (rename_step_wf sb p q f Wb Hwf Hl E) as (Hres & _). rewrite Hres. reflexivity.
    + rewrite (rename_noop sb p q) by (now left). exists phi. apply (CInvP_view sb sl tbl phi); [apply same3_bump | apply same3_refl | exact C].
Qed.

(* the base accepts: the same call on the layer *)
Lemma mut_both sb sl tbl phi o :
  CInvP sb sl tbl phi -> both_op o = true -> WfOps.wf_op_ord sb o = true ->
  (copies_first o = true -> lookup sb (normalize_path (op_path o)) <> None -> lookup sl (normalize_path (op_path o)) <> None) ->
  exists phi', CInvP (fst (m_step sb o)) (fst (m_step sl o)) tbl phi'.
Proof.
  intros C Hb Hwf Hhas. destruct (both_op_cases o Hb) as [Ha|[(p & ->)|[(p & ->)|(p & q & ->)]]].
  - destruct (cinv_attr_base sb sl tbl phi o C Ha) as (phi1 & C1). exact (cinv_attr_layer _ sl tbl phi1 o C1 Ha).
  - exact (cinv_remove_both sb sl tbl phi p C Hwf).
  - exact (cinv_removeall_both sb sl tbl phi p C Hwf).
  - exact (cinv_rename_both sb sl tbl phi p q C Hwf (Hhas eq_refl)).
Qed.

Lemma same3_kind_same s s' : same3 s s' -> kind_same s s'.
Proof. intros H. apply kind_same_of_same2. now apply same3_2. Qed.

Lemma both_op_wf_name_full sb o : both_op o = true -> WfOps.wf_op sb o = true -> wf_name (op_path o) = true.
Proof.
  intros Hb H. apply wf_op_cases in H as [H|H]; [exact (both_op_wf_name sb o Hb H)|].
  destruct o; try discriminate Hb; cbn [wf_below] in H; try discriminate H. cbn [op_path].
  repeat (apply andb_true_iff in H as [H _]). exact H.
Qed.

Theorem cinv_cache_both dur now sb sl tbl o :
  CInv (sb, sl, tbl) -> both_op o = true -> WfOps.wf_op sb o = true ->
  CInv (fst (cache_both m_step m_step dur now sb sl tbl (op_path o) o (copies_first o) (base_only_switch o))).
Proof.
  intros (phi & C) Hb Hwf. pose proof (both_op_wf_name_full sb o Hb Hwf) as Hw.
  destruct (status_mem dur now sb sl phi (op_path o) (TreeInv_shape _ _ _ (proj1 C))) as (sb1 & sl1 & cs & fi & Est & Sb & Sl & Hcs).
  pose proof (CInvP_view sb sl tbl phi sb1 sl1 Sb Sl C) as C1.
  assert (Hwf1 : WfOps.wf_op sb1 o = true) by (rewrite (ks_wf_op_full sb sb1 (same3_kind_same _ _ Sb)); exact Hwf).
  unfold cache_both. rewrite Est.
  (* the call on the base state [x] paired with the layer state [y], then on the layer *)
  assert (Hrun : forall x y phi0, CInvP x y tbl phi0 -> WfOps.wf_op x o = true ->
            (copies_first o = true -> lookup x (normalize_path (op_path o)) <> None -> lookup y (normalize_path (op_path o)) <> None) ->
            CInv (fst (match (let '(sb2, r) := m_step x o in (sb2, y, stop_of r)) with
                       | (sb2, sl2, Some r) => cret sb2 sl2 tbl r
                       | (sb2, sl2, None) => let '(sl3, r) := m_step sl2 o in cret sb2 sl3 tbl r
                       end))).
  { intros x y phi0 C0 Hwf0 Hhas. apply wf_op_cases in Hwf0 as [Hwf0|Hbel].
    2:{ rewrite (below_step_bump x o (ti_wfb _ _ _ (proj1 C0)) Hbel). cbn [stop_of res_err fst cret].
        exists phi0. apply (CInvP_view x y tbl phi0); [apply same3_bump | apply same3_refl | exact C0]. }
    destruct (m_step x o) as [sb2 r] eqn:Eb.
    destruct (stop_of r) as [rr|] eqn:Es.
    - cbn [fst cret]. destruct (mut_base_fail x y tbl phi0 o C0 Hb Hwf0) as (phi' & C'); [rewrite Eb; cbn [snd]; congruence|].
      rewrite Eb in C'. now exists phi'.
    - destruct (mut_both x y tbl phi0 o C0 Hb Hwf0 Hhas) as (phi' & C'). rewrite Eb in C'. cbn [fst] in C'.
      destruct (m_step y o) as [sl3 r3]. cbn [fst cret] in *. now exists phi'. }
  destruct cs.
  - (* miss *)
    destruct (base_only_switch o) eqn:Esw.
    + (* Remove on a miss: the base only *)
      assert (Ho : exists p, o = Remove p) by (destruct o; try discriminate Esw; eauto). destruct Ho as (p & ->). cbn [op_path] in *.
      assert (Hwfo : WfOps.wf_op_ord sb1 (Remove p) = true) by (apply wf_op_cases in Hwf1 as [H|H]; [exact H | discriminate H]).
      destruct (cinv_remove_base_only sb1 sl1 tbl phi p C1 Hwfo) as (phi' & C'); [rewrite (same3_lookup _ _ _ Sl); exact Hcs|].
      destruct (m_step sb1 (Remove p)) as [sb2 r]. cbn [fst cret] in *. now exists phi'.
    + destruct (copies_first o) eqn:Ecf.
      * destruct (cinv_cache_copy sb1 sl1 tbl phi (op_path o) C1 Hw) as (sb2 & sl2 & oe & phi2 & Ecp & C2 & _ & Hks & Hok & _).
        rewrite Ecp. destruct oe as [ce|]; [cbn [fst cret]; now exists phi2|].
        destruct (Hok eq_refl) as [_ Hl2].
        apply (Hrun sb2 sl2 phi2 C2); [rewrite (ks_wf_op_full sb1 sb2 Hks); exact Hwf1 | intros _ _; exact Hl2].
      * apply (Hrun sb1 sl1 phi C1 Hwf1). intros H; discriminate H.
  - (* stale *)
    destruct Hcs as (rl & nl & f & Hl & _).
    assert (Hl1 : lookup sl1 (normalize_path (op_path o)) <> None) by (rewrite (same3_lookup _ _ _ Sl); congruence).
    destruct (copies_first o) eqn:Ecf.
    + destruct (cinv_cache_copy sb1 sl1 tbl phi (op_path o) C1 Hw) as (sb2 & sl2 & oe & phi2 & Ecp & C2 & _ & Hks & Hok & Hsucc).
      rewrite Ecp. destruct oe as [ce|].
      * destruct (base_only_switch o); cbn [fst cret]; now exists phi2.
      * destruct (Hok eq_refl) as [_ Hl2].
        assert (Hgo : CInv (fst (match (let '(sb3, r) := m_step sb2 o in (sb3, sl2, stop_of r)) with
                       | (sb3, sl3, Some r) => cret sb3 sl3 tbl r
                       | (sb3, sl3, None) => let '(sl4, r) := m_step sl3 o in cret sb3 sl4 tbl r
                       end))).
        { apply (Hrun sb2 sl2 phi2 C2); [rewrite (ks_wf_op_full sb1 sb2 Hks); exact Hwf1 | intros _ _; exact Hl2]. }
        destruct (base_only_switch o); exact Hgo.
    + assert (Hgo : CInv (fst (match (let '(sb3, r) := m_step sb1 o in (sb3, sl1, stop_of r)) with
                       | (sb3, sl3, Some r) => cret sb3 sl3 tbl r
                       | (sb3, sl3, None) => let '(sl4, r) := m_step sl3 o in cret sb3 sl4 tbl r
                       end))).
      { apply (Hrun sb1 sl1 phi C1 Hwf1). intros H; discriminate H. }
      destruct (base_only_switch o); exact Hgo.
  - (* hit *)
    destruct Hcs as (rl & nl & f & Hl & _).
    assert (Hl1 : lookup sl1 (normalize_path (op_path o)) <> None) by (rewrite (same3_lookup _ _ _ Sl); congruence).
    assert (Hgo : CInv (fst (match (let '(sb3, r) := m_step sb1 o in (sb3, sl1, stop_of r)) with
                     | (sb3, sl3, Some r) => cret sb3 sl3 tbl r
                     | (sb3, sl3, None) => let '(sl4, r) := m_step sl3 o in cret sb3 sl4 tbl r
                     end))).
    { apply (Hrun sb1 sl1 phi C1 Hwf1). intros _ _. exact Hl1. }
    destruct (base_only_switch o); exact Hgo.
  - destruct Hcs.
Qed.

(* ---------- directories of the base stay empty along a frame ---------- *)
Lemma frame_dirs_empty rho s s' :
  Frame rho s s' -> (forall k r n, lookup s k = Some r -> get_node s r = Some n -> ndir n = true -> ndata n = []) ->
  forall k' r n', lookup s' k' = Some r -> get_node s' r = Some n' -> ndir n' = true -> ndata n' = [].
Proof.
  intros F Td k' r n' Hl Hn' Hd. destruct (fresh_or_old s r) as [Hf|(n & Hn)].
  - exact (fr_fresh _ _ _ F k' r n' Hl Hf Hn' Hd).
  - destruct (fr_nodes _ _ _ F r n Hn) as (n2 & Hn2 & Hd2 & Hdat). rewrite Hn' in Hn2. inversion Hn2; subst n2.
    pose proof (frame_old _ _ _ _ _ _ F Hl Hn) as Ho. destruct (rho k') as [k|] eqn:Er; [|discriminate Ho]. cbn [olookup] in Ho.
    rewrite Hdat by congruence. apply (Td k r n Ho Hn). congruence.
Qed.

(* the base gains names (nothing else changes for the layer): the shape of the invariant survives *)
Lemma TreeShape_base_grow sb sl phi sb' :
  TreeShape sb sl phi -> Frame Some sb sb' -> WF sb' -> TreeShape sb' sl phi.
Proof.
  intros [A B C D E F G] Fr W'. split; auto.
  - intros k rl H. destruct (C k rl H) as (rb & Hp & Hb). exists rb. split; [exact Hp|]. now apply (frame_keep Some sb sb' k rb Fr).
  - intros rl rb H. destruct (D rl rb H) as (nl & nb & H1 & H2 & H3). destruct (fr_nodes _ _ _ Fr rb nb H2) as (nb' & Hnb' & Hd' & _).
    exists nl, nb'. split; [exact H1|]. split; [exact Hnb'|]. congruence.
  - intros rl rb k H Hb. destruct (D rl rb H) as (_ & nb & _ & Hnb & _). pose proof (frame_old _ _ _ _ _ _ Fr Hb Hnb) as Ho. cbn [olookup] in Ho.
    now apply (E rl rb k).
  - exact (frame_dirs_empty Some sb sb' Fr G).
Qed.

(* ---------- Stat ---------- *)
Theorem cinv_stat dur now sb sl tbl p :
  CInv (sb, sl, tbl) -> CInv (fst (cache_step m_step m_step dur now (sb, sl, tbl) (Stat p))).
Proof.
  intros (phi & C). cbn [cache_step].
  destruct (status_mem dur now sb sl phi p (TreeInv_shape _ _ _ (proj1 C))) as (sb1 & sl1 & cs & fi & Est & Sb & Sl & Hcs).
  rewrite Est. pose proof (CInvP_view sb sl tbl phi sb1 sl1 Sb Sl C) as C1.
  destruct cs.
  - rewrite (step_stat_full sb1 p (ti_wfb _ _ _ (proj1 C1))). cbn [fst cret]. exists phi.
    apply (CInvP_view sb1 sl1 tbl phi); [apply same3_bump | apply same3_refl | exact C1].
  - destruct fi; cbn [fst cret]; now exists phi.
  - destruct fi; cbn [fst cret]; now exists phi.
  - destruct Hcs.
Qed.

(* ---------- Mkdir / MkdirAll ---------- *)
Lemma cinv_mkdirall_both sb sl tbl phi p perm1 perm2 :
  CInvP sb sl tbl phi -> wf_name p = true -> prefixes_dirs sb (normalize_path p) = true ->
  exists phi', CInvP (fst (m_step sb (MkdirAll p perm1))) (fst (m_step sl (MkdirAll p perm2))) tbl phi'.
Proof.
  intros [T B] Hw Hpre. set (key := normalize_path p) in *.
  pose proof (ti_wfb _ _ _ T) as Wb. pose proof (ti_wfl _ _ _ T) as Wl.
  destruct (mkdirall_step sb p perm1 Wb Hw Hpre) as (_ & Wb' & Fb & Db & Hhb & Hdb & _). fold key in Hdb.
  destruct (mkdirall_step sl p perm2 Wl Hw (prefixes_base_layer sb sl phi (TreeInv_shape _ _ _ T) key Hpre)) as (_ & Wl' & Fl & Dl & Hhl & _ & Hch).
  fold key in Hch.
  set (sb' := fst (m_step sb (MkdirAll p perm1))) in *. set (sl' := fst (m_step sl (MkdirAll p perm2))) in *.
  destruct (cinv_frames sb sl tbl phi sb' sl' Some (conj T B) Wb' Wl' Fb Fl Db Dl) as (phi' & C & _).
  - intros i h H. now rewrite Hhb.
  - intros i h H. now rewrite Hhl.
  - intros k' rl Hk Hf. destruct (Hch k' rl Hk Hf) as (Hwhere & n & Hn & Hdn & Hen).
    apply is_dir_at_true in Hdb as (rk & nk & Hlk & Hnk & Hdk).
    assert (Hbk : exists ra na, lookup sb' k' = Some ra /\ get_node sb' ra = Some na /\ ndir na = true).
    { destruct Hwhere as [->|Hbel]; [now exists rk, nk|]. exact (anc_live sb' key rk k' Wb' Hlk (g_canon _ _ _ _ Wl' k' rl Hk) Hbel). }
    destruct Hbk as (ra & na & Hla & Hna & Hda). exists ra, n, na. repeat split; auto; try congruence.
    rewrite (frame_dirs_empty Some sb sb' Fb (ti_dirs _ _ _ T) k' ra na Hla Hna Hda). exact Hen.
  - now exists phi'.
Qed.

Theorem cinv_mkdirall dur now sb sl tbl p perm :
  CInv (sb, sl, tbl) -> WfOps.wf_op_ord sb (MkdirAll p perm) = true ->
  CInv (fst (cache_step m_step m_step dur now (sb, sl, tbl) (MkdirAll p perm))).
Proof.
  intros (phi & C) Hwf. cbn [cache_step]. cbn [WfOps.wf_op_ord] in Hwf. apply andb_true_iff in Hwf as [Hw Hpre].
  destruct (cinv_mkdirall_both sb sl tbl phi p perm perm C Hw Hpre) as (phi' & C').
  destruct (mkdirall_step sb p perm (ti_wfb _ _ _ (proj1 C)) Hw Hpre) as (Hres & _).
  destruct (m_step sb (MkdirAll p perm)) as [sb1 r]. cbn [fst snd] in *. subst r.
  destruct (m_step sl (MkdirAll p perm)) as [sl1 r]. cbn [fst cret] in *. now exists phi'.
Qed.

Theorem cinv_mkdir dur now sb sl tbl p perm :
  CInv (sb, sl, tbl) -> WfOps.wf_op_ord sb (Mkdir p perm) = true ->
  CInv (fst (cache_step m_step m_step dur now (sb, sl, tbl) (Mkdir p perm))).
Proof.
  intros (phi & C) Hwf. cbn [cache_step]. pose proof (ti_wfb _ _ _ (proj1 C)) as Wb.
  destruct (mkdir_step sb p perm Wb Hwf) as [Hex Hmiss].
  assert (Hw : wf_name p = true) by (cbn [WfOps.wf_op_ord] in Hwf; now apply andb_true_iff in Hwf as [Hw _]).
  destruct (lookup sb (normalize_path p)) as [f|] eqn:Hl.
  - rewrite Hex by congruence. cbn [fst cret]. exists phi. apply (CInvP_view sb sl tbl phi); [apply same3_bump | apply same3_refl | exact C].
  - destruct (Hmiss eq_refl) as (Hres & Hfst & Hpre).
    destruct (cinv_mkdirall_both sb sl tbl phi p perm perm C Hw Hpre) as (phi' & C'). rewrite <- Hfst in C'.
    destruct (m_step sb (Mkdir p perm)) as [sb1 r]. cbn [fst snd] in *. subst r.
    destruct (m_step sl (MkdirAll p perm)) as [sl1 r]. cbn [fst cret] in *. now exists phi'.
Qed.

(* ---------- the general step with the bytes of the pairs given explicitly ---------- *)
Lemma cinv_step_gen sb sl tbl phi sb' sl' rho :
  CInvP sb sl tbl phi -> WF sb' -> WF sl' -> Frame rho sb sb' -> Frame rho sl sl' ->
  (forall rl rb nl nb, phi rl = Some rb -> get_node sl' rl = Some nl -> get_node sb' rb = Some nb -> ndata nl = ndata nb) ->
  hkeep sb sb' -> hkeep sl sl' ->
  (forall k' rl, lookup sl' k' = Some rl -> fresh_in sl rl ->
     exists rb nl nb, lookup sb' k' = Some rb /\ get_node sl' rl = Some nl /\ get_node sb' rb = Some nb /\
                      ndir nl = ndir nb /\ ndata nl = ndata nb) ->
  exists phi', CInvP sb' sl' tbl phi' /\ (forall rl rb, phi rl = Some rb -> phi' rl = Some rb).
Proof.
  intros [T B] Wb Wl Fb Fl H4 Kb Kl H5.
  destruct (TreeInv_step phi sb sl sb' sl' rho T Wb Wl Fb Fl H4 H5) as [T' Hext].
  exists (phi_next phi sl sb' sl'). split; [split; [exact T'|] | exact Hext].
  apply (TblInv_mono sb sl tbl phi); auto; [exact (frame_kkeep _ _ _ Fl) | exact (phi_has_node phi sb sl T)].
Qed.

(* ---------- a new UnionFile in the table ---------- *)
Lemma TblInv_new_union sb sl tbl phi bh lh hb hl :
  TblInv sb sl tbl phi ->
  nth_error (mhandles sb) bh = Some hb -> nth_error (mhandles sl) lh = Some hl ->
  hproj_eq hb hl -> phi (href hl) = Some (href hb) ->
  (forall nl, get_node sl (href hl) = Some nl -> ndir nl = true -> inert hl = true) ->
  (forall i c, nth_error tbl i = Some c -> ~ In bh (bhs c)) -> (forall i c, nth_error tbl i = Some c -> ~ In lh (lhs c)) ->
  TblInv sb sl (tbl ++ [HU (mkUF (Some bh) (Some lh) 0 [])]) phi.
Proof.
  intros B Hb Hl Hp Hphi Hdir Hfb Hfl. apply TblInv_snoc; auto.
  - cbn [EntOK]. exists bh, lh, hb, hl. repeat split; auto; apply Hp.
  - intros i ci h Hi Hin Hx. destruct Hx as [Hx|[]]. subst h. exact (Hfb i ci Hi Hin).
  - intros i ci h Hi Hin Hx. destruct Hx as [Hx|[]]. subst h. exact (Hfl i ci Hi Hin).
Qed.

Lemma tbl_handles_below sb sl tbl phi : TblInv sb sl tbl phi ->
  (forall i c, nth_error tbl i = Some c -> ~ In (length (mhandles sb)) (bhs c)) /\
  (forall i c, nth_error tbl i = Some c -> ~ In (length (mhandles sl)) (lhs c)).
Proof.
  intros [Bok _ _]. split; intros i c Hi Hin.
  - destruct (EntOK_bounds sb sl phi c (length (mhandles sb)) (Bok i c Hi)) as [H _]. specialize (H Hin). lia.
  - destruct (EntOK_bounds sb sl phi c (length (mhandles sl)) (Bok i c Hi)) as [_ H]. specialize (H Hin). lia.
Qed.

(* ---------- Create ---------- *)
Lemma wf_create_parts sb p : WF sb -> WfOps.wf_op_ord sb (Create p) = true ->
  wf_name p = true /\ normalize_path p <> s_slash /\ no_file_prefix sb (normalize_path p) = true /\ kind_at sb (normalize_path p) <> Some true.
Proof.
  intros W H. cbn [WfOps.wf_op_ord] in H. apply andb_true_iff in H as [Hw Hk]. set (key := normalize_path p) in *.
  assert (Hc : canon key) by (apply canon_normalize; exact Hw).
  assert (Hr : key <> s_slash).
  { intros E. rewrite E in Hk. destruct (g_root _ _ _ _ W) as (r & n & Hl & Hn & _ & Hd). unfold kind_at in Hk. rewrite Hl, Hn, Hd in Hk. discriminate. }
  split; [exact Hw|]. split; [exact Hr|]. destruct (kind_at sb key) as [[|]|] eqn:Ek; [discriminate| |].
  - split; [|discriminate]. apply kind_at_some in Ek as (r & n & Hl & _). exact (existing_nfp sb key r W Hl).
  - split; [|discriminate]. now apply dir_parent_nfp.
Qed.

Theorem cinv_create dur now sb sl tbl p :
  CInv (sb, sl, tbl) -> WfOps.wf_op_ord sb (Create p) = true ->
  CInv (fst (cache_step m_step m_step dur now (sb, sl, tbl) (Create p))).
Proof.
  intros (phi & [T B]) Hwf. cbn [cache_step]. set (key := normalize_path p) in *.
  pose proof (ti_wfb _ _ _ T) as Wb. pose proof (ti_wfl _ _ _ T) as Wl. pose proof (TreeInv_shape _ _ _ T) as TS.
  destruct (wf_create_parts sb p Wb Hwf) as (Hw & Hr & Hnb & Hkb). fold key in Hr, Hnb, Hkb.
  destruct (create_step sb p Wb Hw Hr Hnb Hkb) as (fb & Hresb & Wb' & Fb & Db & Kb & Hhb & Hlenb & Hlb' & (nb' & Hnb' & Hdb' & Heb') & Holdb & _).
  fold key in Hlb', Holdb.
  assert (Hkl : kind_at sl key <> Some true) by (intros E; apply Hkb; exact (layer_kind_base sb sl phi TS key true E)).
  destruct (create_step sl p Wl Hw Hr (nfp_base_layer sb sl phi TS key Hnb) Hkl)
    as (fl & Hresl & Wl' & Fl & Dl & Kl & Hhl & Hlenl & Hll' & (nl' & Hnl' & Hdl' & Hel') & Holdl & Hchl).
  fold key in Hll', Holdl, Hchl.
  destruct (m_step sb (Create p)) as [sb' rb] eqn:Eb. destruct (m_step sl (Create p)) as [sl' rl] eqn:El. cbn [fst snd] in *. subst rb rl.
  unfold alloc_ch. cbn [fst cret].
  destruct (cinv_step_gen sb sl tbl phi sb' sl' Some (conj T B) Wb' Wl' Fb Fl) as (phi' & [T' B'] & Hext).
  - (* bytes of the pairs *)
    intros rl rb nl nb Hp Hnl Hnb2. destruct (ti_pair _ _ _ T rl rb Hp) as (nl0 & nb0 & Hnl0 & Hnb0 & _ & Hdat0).
    destruct (Nat.eq_dec rb fb) as [->|Hneb].
    + destruct Holdb as [Hob|[_ Hfb]]; [|exfalso; exact (fresh_not_old sb fb nb0 Hfb Hnb0)].
      pose proof (ti_live _ _ _ T rl fb key Hp Hob) as Hlk. destruct Holdl as [Hol|[Hol _]]; [|congruence].
      assert (rl = fl) by congruence. subst rl. congruence.
    + assert (Hnel : rl <> fl).
      { intros ->. destruct Holdl as [Hol|[_ Hfl]]; [|exact (fresh_not_old sl fl nl0 Hfl Hnl0)].
        destruct (ti_key _ _ _ T key fl Hol) as (rb' & Hp' & Hb'). rewrite Hp in Hp'. inversion Hp'; subst rb'.
        destruct Holdb as [Hob|[Hob _]]; congruence. }
      rewrite (Dl rl nl0 nl Hnl0 Hnl Hnel), (Db rb nb0 nb Hnb0 Hnb2 Hneb). exact Hdat0.
  - exact Kb.
  - exact Kl.
  - intros k' r Hk Hf. destruct (Hchl k' r Hk Hf) as [[-> ->]|(Hbel & n & Hn & Hdn & Hen)].
    + exists fb, nl', nb'. repeat split; auto; congruence.
    + destruct (anc_live sb' key fb k' Wb' Hlb' (g_canon _ _ _ _ Wl' k' r Hk) Hbel) as (ra & na & Hla & Hna & Hda).
      exists ra, n, na. repeat split; auto; try congruence.
      rewrite (frame_dirs_empty Some sb sb' Fb (ti_dirs _ _ _ T) k' ra na Hla Hna Hda). exact Hen.
  - exists phi'. split; [exact T'|].
    destruct (tbl_handles_below sb sl tbl phi B) as [Hfb Hfl].
    apply (TblInv_new_union sb' sl' tbl phi' (length (mhandles sb)) (length (mhandles sl)) _ _ B' Hhb Hhl); auto.
    + repeat split.
    + cbn [href]. destruct (ti_key _ _ _ T' key fl Hll') as (rb & Hp & Hb). congruence.
    + cbn [href]. intros n Hn Hd. congruence.
Qed.

(* ---------- only new handles ---------- *)
Lemma CInvP_handles sb sl tbl phi sb' sl' :
  CInvP sb sl tbl phi -> same2 sb sb' -> same2 sl sl' -> hkeep sb sb' -> hkeep sl sl' -> CInvP sb' sl' tbl phi.
Proof.
  intros [T B] Sb Sl Kb Kl. split; [now apply (TreeInv_view2 sb sl)|].
  apply (TblInv_mono sb sl tbl phi sb' sl' phi B Kb Kl); [|auto | exact (phi_has_node phi sb sl T)].
  intros r n Hn. exists n. now rewrite (same2_node _ _ _ Sl).
Qed.

Lemma same2_alloc s h : same2 s (bump (fst (alloc_handle s h))). Proof. now split. Qed.

Lemma TblInv_new_single sb sl tbl phi c :
  TblInv sb sl tbl phi -> EntOK sb sl phi c ->
  (forall i ci h, nth_error tbl i = Some ci -> In h (bhs ci) -> ~ In h (bhs c)) ->
  (forall i ci h, nth_error tbl i = Some ci -> In h (lhs ci) -> ~ In h (lhs c)) ->
  TblInv sb sl (tbl ++ [c]) phi.
Proof. apply TblInv_snoc. Qed.

(* Open on the layer alone: a read-only handle *)
Lemma cinv_open_layer sb sl tbl phi p :
  CInvP sb sl tbl phi -> CInv (fst (open_layer m_step sb sl tbl (Open p))).
Proof.
  intros C. unfold open_layer. rewrite (open_step sl p). destruct (lookup sl (normalize_path p)) as [f|].
  - unfold alloc_ch, ret. cbn [fst]. set (h := mkH f 0 0 false true). set (sl' := bump (fst (alloc_handle sl h))).
    pose proof (CInvP_handles sb sl tbl phi sb sl' C (same2_refl sb) (same2_alloc sl h) (hkeep_refl sb) (hkeep_alloc sl h)) as [T' B'].
    exists phi. split; [exact T'|]. destruct (tbl_handles_below sb sl tbl phi (proj2 C)) as [_ Hfl].
    apply TblInv_new_single; auto.
    + cbn [EntOK]. exists h. split; [apply (hnew_alloc sl h) | reflexivity].
    + intros i ci x Hi Hin Hx. destruct Hx as [Hx|[]]. subst x. exact (Hfl i ci Hi Hin).
  - unfold ret. cbn [fst]. exists phi. apply (CInvP_view sb sl tbl phi); [apply same3_refl | apply same3_bump | exact C].
Qed.

(* Open on the base alone (a directory the cache does not hold): a read-only handle *)
Lemma cinv_open_base sb sl tbl phi p :
  CInvP sb sl tbl phi -> CInv (fst (open_base m_step sb sl tbl (Open p))).
Proof.
  intros C. unfold open_base. rewrite (open_step sb p). destruct (lookup sb (normalize_path p)) as [f|].
  - unfold alloc_ch, ret. cbn [fst]. set (h := mkH f 0 0 false true). set (sb' := bump (fst (alloc_handle sb h))).
    pose proof (CInvP_handles sb sl tbl phi sb' sl C (same2_alloc sb h) (same2_refl sl) (hkeep_alloc sb h) (hkeep_refl sl)) as [T' B'].
    exists phi. split; [exact T'|]. destruct (tbl_handles_below sb sl tbl phi (proj2 C)) as [Hfb _].
    apply TblInv_new_single; auto.
    + cbn [EntOK]. exists h. split; [apply (hnew_alloc sb h) | reflexivity].
    + intros i ci x Hi Hin Hx. destruct Hx as [Hx|[]]. subst x. exact (Hfb i ci Hi Hin).
  - unfold ret. cbn [fst]. exists phi. apply (CInvP_view sb sl tbl phi); [apply same3_bump | apply same3_refl | exact C].
Qed.

(* Open of a directory both layers hold: a UnionFile over two read-only handles *)
Lemma cinv_union_dirs sb sl tbl phi p rl :
  CInvP sb sl tbl phi -> lookup sl (normalize_path p) = Some rl ->
  CInv (fst (let '(sb2, rb) := m_step sb (Open p) in
             let '(sl2, rl) := m_step sl (Open p) in
             let ob := match rb with RHandle h => Some h | _ => None end in
             let ol := match rl with RHandle h => Some h | _ => None end in
             match ob, ol with
             | None, None => cret sb2 sl2 tbl (RErr (err_of rl))
             | _, _ => let '(tbl1, i) := alloc_ch tbl (HU (mkUF ob ol 0 [])) in cret sb2 sl2 tbl1 (RHandle i)
             end)).
Proof.
  intros C Hl. destruct (ti_key _ _ _ (proj1 C) _ rl Hl) as (rb & Hp & Hb).
  rewrite (open_step sb p), (open_step sl p), Hl, Hb. unfold alloc_ch. cbn [fst cret].
  set (hb := mkH rb 0 0 false true). set (hl := mkH rl 0 0 false true).
  set (sb' := bump (fst (alloc_handle sb hb))). set (sl' := bump (fst (alloc_handle sl hl))).
  pose proof (CInvP_handles sb sl tbl phi sb' sl' C (same2_alloc sb hb) (same2_alloc sl hl) (hkeep_alloc sb hb) (hkeep_alloc sl hl)) as [T' B'].
  exists phi. split; [exact T'|]. destruct (tbl_handles_below sb sl tbl phi (proj2 C)) as [Hfb Hfl].
  apply (TblInv_new_union sb' sl' tbl phi (length (mhandles sb)) (length (mhandles sl)) hb hl B'); auto.
  - apply (hnew_alloc sb hb).
  - apply (hnew_alloc sl hl).
  - repeat split.
Qed.

(* ---------- Open ---------- *)
Theorem cinv_open dur now sb sl tbl p :
  CInv (sb, sl, tbl) -> WfOps.wf_op_ord sb (Open p) = true ->
  CInv (fst (cache_step m_step m_step dur now (sb, sl, tbl) (Open p))).
Proof.
  intros (phi & C) Hwf. cbn [cache_step].
  assert (Hw : wf_name p = true) by (cbn [WfOps.wf_op_ord] in Hwf; now apply andb_true_iff in Hwf as [Hw _]).
  destruct (status_mem dur now sb sl phi p (TreeInv_shape _ _ _ (proj1 C))) as (sb1 & sl1 & cs & fi & Est & Sb & Sl & Hcs).
  rewrite Est. pose proof (CInvP_view sb sl tbl phi sb1 sl1 Sb Sl C) as C1.
  (* copy, then the layer's Open *)
  assert (Hcopy : CInv (fst (match cache_copy_to_layer m_step m_step sb1 sl1 p with
                             | (sb3, sl2, Some ce) => cret sb3 sl2 tbl (RErr ce)
                             | (sb3, sl2, None) => open_layer m_step sb3 sl2 tbl (Open p)
                             end))).
  { destruct (cinv_cache_copy sb1 sl1 tbl phi p C1 Hw) as (sb3 & sl2 & oe & phi2 & Ecp & C2 & _).
    rewrite Ecp. destruct oe as [ce|]; [cbn [fst cret]; now exists phi2 | exact (cinv_open_layer sb3 sl2 tbl phi2 p C2)]. }
  destruct cs.
  - (* miss *)
    rewrite (step_stat_full sb1 p (ti_wfb _ _ _ (proj1 C1))).
    assert (C1' : CInvP (bump sb1) sl1 tbl phi) by (apply (CInvP_view sb1 sl1 tbl phi); [apply same3_bump | apply same3_refl | exact C1]).
    destruct (lookup sb1 (normalize_path p)) as [f|] eqn:Hlb.
    + destruct (GWF_lookup_node _ _ _ _ _ _ (ti_wfb _ _ _ (proj1 C1)) Hlb) as (n & Hn). rewrite Hn. cbn [fi_dir finfo_of].
      destruct (ndir n).
      * exact (cinv_open_base (bump sb1) sl1 tbl phi p C1').
      * destruct (cinv_cache_copy (bump sb1) sl1 tbl phi p C1' Hw) as (sb3 & sl2 & oe & phi2 & Ecp & C2 & _).
        rewrite Ecp. destruct oe as [ce|]; [cbn [fst cret]; now exists phi2 | exact (cinv_open_layer sb3 sl2 tbl phi2 p C2)].
    + cbn [fst cret]. now exists phi.
  - (* stale *)
    destruct Hcs as (rl & nl & f & Hl & Hnl & -> & Hfd).
    destruct (fi_dir f); cbn [negb].
    + apply (cinv_union_dirs sb1 sl1 tbl phi p rl C1). now rewrite (same3_lookup _ _ _ Sl).
    + exact Hcopy.
  - (* hit *)
    destruct Hcs as (rl & nl & f & Hl & Hnl & -> & Hfd).
    destruct (fi_dir f); cbn [negb].
    + apply (cinv_union_dirs sb1 sl1 tbl phi p rl C1). now rewrite (same3_lookup _ _ _ Sl).
    + exact (cinv_open_layer sb1 sl1 tbl phi p C1).
  - destruct Hcs.
Qed.

(* ---------- flag words ---------- *)
Lemma flag_has_zero flag bit : 0 <= bit -> flag_has flag bit = false -> Z.land flag bit = 0.
Proof.
  intros Hb H. unfold flag_has in H. apply Z.ltb_ge in H. assert (0 <= Z.land flag bit) by (apply Z.land_nonneg; now right). lia.
Qed.
Lemma zero_flag_has flag bit : Z.land flag bit = 0 -> flag_has flag bit = false.
Proof. intros H. unfold flag_has. now rewrite H. Qed.

Lemma flag_ok_sub flag : flag_ok flag = true -> Z.land flag flag_mask = flag.
Proof.
  unfold flag_ok. intros H. apply andb_true_iff in H as [H _]. apply andb_true_iff in H as [H _]. apply Z.eqb_eq in H.
  rewrite <- (Z.land_m1_r flag) at 2. rewrite <- (Z.lor_lnot_diag flag_mask), Z.land_lor_distr_r, H, Z.lor_0_r. reflexivity.
Qed.

(* a flag word of the well-formed class selects the union (writing) path of OpenFile iff it has an access
   mode, O_CREATE or O_TRUNC *)
Lemma cache_mask_flag flag : flag_ok flag = true ->
  Z.land flag cache_mask = Z.lor (Z.land flag memfs_access_mask) (Z.lor (Z.land flag o_create) (Z.land flag o_trunc)).
Proof.
  intros H. rewrite <- (flag_ok_sub flag H) at 1. rewrite <- Z.land_assoc.
  change (Z.land flag_mask cache_mask) with (Z.lor memfs_access_mask (Z.lor o_create o_trunc)).
  now rewrite !Z.land_lor_distr_r.
Qed.

Lemma flag_ok_trunc_access flag : flag_ok flag = true -> Z.land flag memfs_access_mask = 0 -> Z.land flag o_trunc = 0.
Proof.
  unfold flag_ok. intros H Ha. apply andb_true_iff in H as [_ H]. apply negb_true_iff in H. rewrite Ha in H. cbn [Z.eqb] in H.
  rewrite andb_true_r in H. now apply flag_has_zero.
Qed.

Lemma flag_ok_no_append flag : flag_ok flag = true -> Z.land flag (Z.lnot o_append) = flag.
Proof.
  intros H. rewrite <- (flag_ok_sub flag H) at 1. rewrite <- Z.land_assoc. change (Z.land flag_mask (Z.lnot o_append)) with flag_mask.
  exact (flag_ok_sub flag H).
Qed.

Lemma flag_ok_clear_excl flag : flag_ok flag = true -> flag_ok (Z.land flag (Z.lnot o_excl)) = true.
Proof.
  intros H. pose proof (flag_ok_sub flag H) as Hs. unfold flag_ok in *.
  apply andb_true_iff in H as [H H3]. apply andb_true_iff in H as [H1 H2].
  assert (Ea : Z.land (Z.land flag (Z.lnot o_excl)) memfs_access_mask = Z.land flag memfs_access_mask).
  { rewrite <- Z.land_assoc. reflexivity. }
  assert (Et : flag_has (Z.land flag (Z.lnot o_excl)) o_trunc = flag_has flag o_trunc).
  { unfold flag_has. rewrite <- Z.land_assoc. reflexivity. }
  rewrite Ea, Et, H2, H3, !andb_true_r. apply Z.eqb_eq. apply Z.eqb_eq in H1.
  rewrite <- Z.land_assoc, (Z.land_comm (Z.lnot o_excl)), Z.land_assoc, H1. reflexivity.
Qed.

Lemma clear_excl_bits flag : flag_has (Z.land flag (Z.lnot o_excl)) o_excl = false /\
  Z.land (Z.land flag (Z.lnot o_excl)) cache_mask = Z.land flag cache_mask /\
  of_ro (Z.land flag (Z.lnot o_excl)) = of_ro flag /\ of_tr (Z.land flag (Z.lnot o_excl)) = of_tr flag.
Proof.
  unfold of_tr, of_ro, flag_has. rewrite <- !Z.land_assoc. repeat split.
  change (Z.land (Z.lnot o_excl) o_excl) with 0. now rewrite Z.land_0_r.
Qed.

(* ---------- OpenFile once the layer holds what it has to hold ---------- *)
Definition open_tail (sb2 sl2 : mst) (tbl : list chandle) (p : str) (flag perm : Z) : (mst * mst * list chandle) * res :=
  let o := OpenFile p flag perm in
  if negb (Z.land flag cache_mask =? 0) then
    match m_step sb2 o with
    | (sb3, RHandle bh) =>
      match m_step sl2 o with
      | (sl3, RHandle lh) =>
        let '(tbl1, i) := alloc_ch tbl (HU (mkUF (Some bh) (Some lh) 0 [])) in
        cret sb3 sl3 tbl1 (RHandle i)
      | (sl3, r) => cret (fst (m_step sb3 (HClose bh))) sl3 tbl (RErr (err_of r))
      end
    | (sb3, r) => cret sb3 sl2 tbl (RErr (err_of r))
    end
  else open_layer m_step sb2 sl2 tbl o.

Lemma cinv_open_tail sb sl tbl phi p flag perm :
  CInvP sb sl tbl phi -> flag_ok flag = true ->
  (Z.land flag cache_mask <> 0 -> is_file_at sl (normalize_path p) = true) ->
  CInv (fst (open_tail sb sl tbl p flag perm)).
Proof.
  intros [T B] Hfo Hfile. set (key := normalize_path p) in *. unfold open_tail.
  pose proof (ti_wfb _ _ _ T) as Wb. pose proof (ti_wfl _ _ _ T) as Wl.
  destruct (Z.land flag cache_mask =? 0) eqn:Em; cbn [negb].
  - (* no access mode, no O_CREATE, no O_TRUNC: the layer's OpenFile, a read-only handle *)
    apply Z.eqb_eq in Em. rewrite (cache_mask_flag flag Hfo) in Em.
    apply Z.lor_eq_0_iff in Em as [Ea Em]. apply Z.lor_eq_0_iff in Em as [Ec Et].
    unfold open_layer. destruct (lookup sl key) as [rl|] eqn:Hl.
    + rewrite (openfile_existing sl p flag perm rl Hfo Hl) by (rewrite (zero_flag_has flag o_create Ec); apply andb_false_r).
      assert (Etr : of_tr flag = false) by (unfold of_tr; now rewrite (zero_flag_has flag o_trunc Et)).
      assert (Ero : of_ro flag = true) by (unfold of_ro; now rewrite Ea).
      rewrite Etr, Ero. unfold alloc_ch, ret. cbn [fst]. set (h := mkH rl 0 0 false true). set (sl' := bump (fst (alloc_handle sl h))).
      pose proof (CInvP_handles sb sl tbl phi sb sl' (conj T B) (same2_refl sb) (same2_alloc sl h) (hkeep_refl sb) (hkeep_alloc sl h)) as [T' B'].
      exists phi. split; [exact T'|]. destruct (tbl_handles_below sb sl tbl phi B) as [_ Hfl].
      apply TblInv_new_single; auto.
      * cbn [EntOK]. exists h. split; [apply (hnew_alloc sl h) | reflexivity].
      * intros i ci x Hi Hin Hx. destruct Hx as [Hx|[]]. subst x. exact (Hfl i ci Hi Hin).
    + rewrite (openfile_missing sl p flag perm Hl (zero_flag_has flag o_create Ec)). unfold ret. cbn [fst].
      exists phi. apply (CInvP_view sb sl tbl phi); [apply same3_refl | apply same3_bump | now split].
  - (* a UnionFile over both layers *)
    apply Z.eqb_neq in Em. specialize (Hfile Em). unfold is_file_at in Hfile.
    destruct (kind_at sl key) as [[|]|] eqn:Ek; try discriminate Hfile. apply kind_at_some in Ek as (rl & nl & Hl & Hnl & Hdl).
    destruct (ti_key _ _ _ T key rl Hl) as (rb & Hp & Hb). destruct (ti_pair _ _ _ T rl rb Hp) as (nl0 & nb & Hnl0 & Hnb & Hkd & Hdat).
    rewrite Hnl in Hnl0. inversion Hnl0; subst nl0. assert (Hdb : ndir nb = false) by congruence.
    destruct (flag_has flag o_excl && flag_has flag o_create) eqn:Ex.
    + rewrite (openfile_excl sb p flag perm rb Hb Ex). cbn [fst cret].
      exists phi. apply (CInvP_view sb sl tbl phi); [apply same3_bump | apply same3_refl | now split].
    + rewrite (openfile_existing sb p flag perm rb Hfo Hb Ex), (openfile_existing sl p flag perm rl Hfo Hl Ex).
      destruct (openfile_existing_frame sb flag rb nb Wb Hnb (fun _ => Hdb)) as (Wb' & Fb & Db & Kb & Hhb & _ & Hlkb & (nb' & Hnb' & _ & Heb')).
      destruct (openfile_existing_frame sl flag rl nl Wl Hnl (fun _ => Hdl)) as (Wl' & Fl & Dl & Kl & Hhl & _ & Hlkl & (nl' & Hnl' & Hdl' & Hel')).
      set (sb' := bump (fst (alloc_handle (if of_tr flag then upd_node sb rb (trunc_node (mclock sb)) else sb) (mkH rb 0 0 false (of_ro flag))))) in *.
      set (sl' := bump (fst (alloc_handle (if of_tr flag then upd_node sl rl (trunc_node (mclock sl)) else sl) (mkH rl 0 0 false (of_ro flag))))) in *.
      unfold alloc_ch. cbn [fst cret].
      destruct (cinv_step_gen sb sl tbl phi sb' sl' Some (conj T B) Wb' Wl' Fb Fl) as (phi' & [T' B'] & Hext).
      * intros x y nx ny Hxy Hnx Hny. destruct (ti_pair _ _ _ T x y Hxy) as (nx0 & ny0 & Hnx0 & Hny0 & _ & Hd0).
        destruct (Nat.eq_dec y rb) as [->|Hne].
        -- assert (x = rl) by exact (ti_inj _ _ _ T x rl rb Hxy Hp). subst x.
           rewrite Hnl' in Hnx. rewrite Hnb' in Hny. inversion Hnx; inversion Hny; subst nx ny. rewrite Heb', Hel'.
           destruct (of_tr flag); [reflexivity | congruence].
        -- assert (Hnex : x <> rl) by (intros ->; apply Hne; congruence).
           rewrite (Dl x nx0 nx Hnx0 Hnx) by (intros [_ E]; contradiction). rewrite (Db y ny0 ny Hny0 Hny) by (intros [_ E]; contradiction). exact Hd0.
      * exact Kb.
      * exact Kl.
      * intros k' r Hk Hf. exfalso. exact (no_fresh_of_lookup sl sl' Wl Hlkl k' r Hk Hf).
      * exists phi'. split; [exact T'|]. destruct (tbl_handles_below sb sl tbl phi B) as [Hfb Hfl].
        apply (TblInv_new_union sb' sl' tbl phi' (length (mhandles sb)) (length (mhandles sl)) _ _ B' Hhb Hhl); auto.
        -- repeat split.
        -- cbn [href]. intros n Hn Hd. rewrite Hnl' in Hn. inversion Hn; subst n. congruence.
Qed.

(* ---------- copyFileToLayer: the base is opened with the caller's flags (it may create or truncate the file) ---------- *)
Lemma cinv_copy_with sb sl tbl phi p flag perm :
  CInvP sb sl tbl phi -> WfOps.wf_op_ord sb (OpenFile p flag perm) = true -> is_dir_at sb (normalize_path p) = false ->
  exists sb2 sl2 oe phi', copy_to_layer_with m_step m_step sb sl p (OpenFile p flag perm) = (sb2, sl2, oe) /\
    CInvP sb2 sl2 tbl phi' /\ (oe = None -> is_file_at sl2 (normalize_path p) = true).
Proof.
  intros [T B] Hwf Hnd. set (key := normalize_path p) in *.
  pose proof (ti_wfb _ _ _ T) as Wb. pose proof (ti_wfl _ _ _ T) as Wl. pose proof (TreeInv_shape _ _ _ T) as TS.
  pose proof Hwf as Hwf0. cbn [WfOps.wf_op_ord] in Hwf0. fold key in Hwf0. apply andb_true_iff in Hwf0 as [Hw Hk]. apply andb_true_iff in Hw as [Hw Hfo].
  unfold copy_to_layer_with.
  (* the copy once the base file is open through a fresh handle *)
  assert (Hgo : forall sb1 fb nb1 bh,
            WF sb1 -> Frame Some sb sb1 -> hkeep sb sb1 -> bh = length (mhandles sb) ->
            (forall r n n', get_node sb r = Some n -> get_node sb1 r = Some n' -> r <> fb -> ndata n' = ndata n) ->
            lookup sb1 key = Some fb -> BaseAt' sb1 bh fb nb1 0 -> ndir nb1 = false ->
            exists sb2 sl2 oe phi', (let '(sb2, sl1, e) := copy_file m_step m_step sb1 sl p bh in (fst (m_step sb2 (HClose bh)), sl1, e)) = (sb2, sl2, oe) /\
              CInvP sb2 sl2 tbl phi' /\ (oe = None -> is_file_at sl2 key = true)).
  { intros sb1 fb nb1 bh W1 F1 K1 Ebh D1 Hl1 Hb1 Hd1.
    assert (T1 : TreeShape sb1 sl phi) by (now apply (TreeShape_base_grow sb sl phi sb1)).
    assert (B1 : TblInv sb1 sl tbl phi).
    { apply (TblInv_mono sb sl tbl phi sb1 sl phi B K1); [apply hkeep_refl | intros r n Hn; now exists n | auto | exact (phi_has_node phi sb sl T)]. }
    destruct (cinv_copy sb1 sl tbl phi p bh fb nb1 T1 B1) as (sb2 & sl' & phi' & Hcf & C' & _ & Hfile & _); auto.
    - intros rl rb nl nb' Hp Hne Hnl Hnb'. destruct (ti_pair _ _ _ T rl rb Hp) as (x & y & Hx & Hy & _ & Hxy).
      rewrite (D1 rb y nb' Hy Hnb' Hne). congruence.
    - intros i c Hic Hin. subst bh. destruct (tbl_handles_below sb sl tbl phi B) as [Hfb _]. exact (Hfb i c Hic Hin).
    - rewrite Hcf. exists (fst (m_step sb2 (HClose bh))), sl', None, phi'. split; [reflexivity|]. split; [exact C'|]. intros _. exact Hfile. }
  destruct (lookup sb key) as [fb|] eqn:Hlb.
  - destruct (GWF_lookup_node _ _ _ _ _ _ Wb Hlb) as (nb & Hnb).
    assert (Hdb : ndir nb = false).
    { unfold is_dir_at, kind_at in Hnd. rewrite Hlb, Hnb in Hnd. now destruct (ndir nb). }
    destruct (flag_has flag o_excl && flag_has flag o_create) eqn:Ex.
    + rewrite (openfile_excl sb p flag perm fb Hlb Ex). cbn [res_err]. exists (bump sb), sl, (Some (EW KExist)), phi.
      split; [reflexivity|]. split; [apply (CInvP_view sb sl tbl phi); [apply same3_bump | apply same3_refl | now split] | discriminate].
    + rewrite (openfile_existing sb p flag perm fb Hfo Hlb Ex).
      destruct (openfile_existing_frame sb flag fb nb Wb Hnb (fun _ => Hdb)) as (W1 & F1 & D1 & K1 & Hh1 & _ & Hlk1 & (nb1 & Hnb1 & Hdk1 & _)).
      apply (Hgo _ fb nb1 (length (mhandles sb)) W1 F1 K1 eq_refl).
      * intros r n n' Hn Hn' Hne. apply (D1 r n n' Hn Hn'). intros [_ E]. contradiction.
      * rewrite Hlk1. exact Hlb.
      * eexists. split; [exact Hh1|]. repeat split. exact Hnb1.
      * congruence.
  - assert (Hkn : kind_at sb key = None) by (unfold kind_at; now rewrite Hlb). rewrite Hkn in Hk.
    destruct (flag_has flag o_create) eqn:Ec.
    + destruct (openfile_create_step sb p flag perm Wb Hwf Hlb Ec) as (fb & Hres & W1 & F1 & D1 & K1 & Hh1 & _ & Hl1 & (n1 & Hn1 & Hd1 & _) & Hf1 & _).
      fold key in Hl1.
      destruct (m_step sb (OpenFile p flag perm)) as [sb1 r] eqn:Eo. cbn [fst snd] in *. subst r.
      apply (Hgo sb1 fb n1 (length (mhandles sb)) W1 F1 K1 eq_refl).
      * intros r n n' Hn Hn' _. exact (D1 r n n' Hn Hn' (fun H => H)).
      * exact Hl1.
      * eexists. split; [exact Hh1|]. repeat split. exact Hn1.
      * exact Hd1.
    + rewrite (openfile_missing sb p flag perm Hlb Ec). cbn [res_err]. exists (bump sb), sl, (Some (EW KNotExist)), phi.
      split; [reflexivity|]. split; [apply (CInvP_view sb sl tbl phi); [apply same3_bump | apply same3_refl | now split] | discriminate].
Qed.

(* ---------- OpenFile ---------- *)
Lemma copyfiletolayer_clears_append_is_1 : copyfiletolayer_clears_append = 1. Proof. reflexivity. Qed.
Lemma copyfiletolayer_reads_through_rdwr_is_1 : copyfiletolayer_reads_through_rdwr = 1. Proof. reflexivity. Qed.
Lemma cache_openfile_clears_excl_is_1 : cache_openfile_clears_excl = 1. Proof. reflexivity. Qed.
(* CacheOnReadFs.OpenFile makes a directory of the base in the layer instead of copying it like a file.
   Compiles iff Gen/Consts.v (read from cacheOnReadFs.go) says so. *)
Lemma cache_openfile_dir_mkdir_fact : cache_openfile_dir_mkdir = 1. Proof. reflexivity. Qed.

(* a directory of the base made in the layer with MkdirAll (CacheOnReadFs.copyToLayer, CacheOnReadFs.OpenFile) *)
Lemma cinv_dir_into_layer sb sl tbl phi p pm fb nb :
  CInvP sb sl tbl phi -> wf_name p = true ->
  lookup sb (normalize_path p) = Some fb -> get_node sb fb = Some nb -> ndir nb = true ->
  exists sl' phi', m_step sl (MkdirAll p pm) = (sl', ROk) /\ CInvP sb sl' tbl phi'.
Proof.
  intros [T B] Hw Hlb Hnb Hnd. set (key := normalize_path p) in *.
  pose proof (ti_wfb _ _ _ T) as Wb. pose proof (ti_wfl _ _ _ T) as Wl.
  assert (Hc : canon key) by (apply canon_normalize; exact Hw).
  assert (Hpre : prefixes_dirs sl key = true).
  { apply (prefixes_base_layer sb sl phi (TreeInv_shape _ _ _ T)). apply (dir_prefixes_dirs sb key Wb Hc).
    unfold is_dir_at, kind_at. now rewrite Hlb, Hnb, Hnd. }
  destruct (mkdirall_step sl p pm Wl Hw Hpre) as (Hres & Wl' & Fl & Dl & Hhl & Hdl & Hch). fold key in Hdl, Hch.
  destruct (m_step sl (MkdirAll p pm)) as [sl' r]. cbn [fst snd] in *. subst r.
  destruct (cinv_frames sb sl tbl phi sb sl' Some (conj T B) Wb Wl' (frame_refl sb) Fl) as (phi' & C' & _).
  { now apply dkeep_view. } { exact Dl. } { apply hkeep_refl. } { intros i h H. now rewrite Hhl. }
  { intros k' rl Hk Hf. destruct (Hch k' rl Hk Hf) as (Hwhere & n & Hn & Hdn & Hen).
    assert (Hbk : exists ra na, lookup sb k' = Some ra /\ get_node sb ra = Some na /\ ndir na = true).
    { destruct Hwhere as [->|Hbel]; [now exists fb, nb|]. exact (anc_live sb key fb k' Wb Hlb (g_canon _ _ _ _ Wl' k' rl Hk) Hbel). }
    destruct Hbk as (ra & na & Hla & Hna & Hda). exists ra, n, na. repeat split; auto; try congruence.
    now rewrite (ti_dirs _ _ _ T k' ra na Hla Hna Hda). }
  now exists sl', phi'.
Qed.

Theorem cinv_openfile dur now sb sl tbl p flag perm :
  CInv (sb, sl, tbl) -> WfOps.wf_op_ord sb (OpenFile p flag perm) = true ->
  CInv (fst (cache_step m_step m_step dur now (sb, sl, tbl) (OpenFile p flag perm))).
Proof.
  intros (phi & C) Hwf. cbn [cache_step]. set (key := normalize_path p) in *.
  pose proof Hwf as Hwf0. cbn [WfOps.wf_op_ord] in Hwf0. fold key in Hwf0. apply andb_true_iff in Hwf0 as [Hw Hk]. apply andb_true_iff in Hw as [Hw Hfo].
  destruct (status_mem dur now sb sl phi p (TreeInv_shape _ _ _ (proj1 C))) as (sb1 & sl1 & cs & fi & Est & Sb & Sl & Hcs).
  rewrite Est. pose proof (CInvP_view sb sl tbl phi sb1 sl1 Sb Sl C) as C1.
  pose proof (same3_kind_same _ _ Sb) as Kb.
  rewrite copyfiletolayer_clears_append_is_1, cache_openfile_clears_excl_is_1, cache_openfile_dir_mkdir_fact. cbn [Z.eqb Pos.eqb].
  (* a directory of the base: no access mode, no O_CREATE, no O_TRUNC in a well-formed flag word *)
  assert (Hdirmask : kind_at sb key = Some true -> Z.land flag cache_mask = 0).
  { intros Ekb. rewrite Ekb in Hk. apply andb_true_iff in Hk as [Ha Hc]. apply Z.eqb_eq in Ha. apply negb_true_iff in Hc.
    rewrite (cache_mask_flag flag Hfo), Ha, (flag_has_zero flag o_create ltac:(discriminate) Hc), (flag_ok_trunc_access flag Hfo Ha). reflexivity. }
  (* miss / stale: Stat of the base; a directory is made in the layer, anything else goes through copyFileToLayer;
     then the opening with O_EXCL cleared *)
  assert (Hcopy : CInv (fst (match (match m_step sb1 (Stat p) with
                                    | (sb1', RInfo bfi) =>
                                      if fi_dir bfi then
                                        match m_step sl1 (MkdirAll p (Z.land (fi_mode bfi) 511)) with
                                        | (sl2, ROk) => (sb1', sl2, None)
                                        | (sl2, r) => (sb1', sl2, Some (err_of r))
                                        end
                                      else copy_to_layer_with m_step m_step sb1' sl1 p (OpenFile p (Z.land flag (Z.lnot o_append)) perm)
                                    | (sb1', _) => copy_to_layer_with m_step m_step sb1' sl1 p (OpenFile p (Z.land flag (Z.lnot o_append)) perm)
                                    end) with
                             | (sb2, sl2, Some ce) => cret sb2 sl2 tbl (RErr ce)
                             | (sb2, sl2, None) => open_tail sb2 sl2 tbl p (Z.land flag (Z.lnot o_excl)) perm
                             end))).
  { rewrite (step_stat_full sb1 p (ti_wfb _ _ _ (proj1 C1))). fold key. rewrite (flag_ok_no_append flag Hfo).
    assert (C1' : CInvP (bump sb1) sl1 tbl phi) by (apply (CInvP_view sb1 sl1 tbl phi); [apply same3_bump | apply same3_refl | exact C1]).
    assert (Kb' : kind_same sb (bump sb1)) by (eapply kind_same_trans; [exact Kb | apply same3_kind_same, same3_bump]).
    assert (Hnotdir : is_dir_at sb1 key = false ->
              CInv (fst (match copy_to_layer_with m_step m_step (bump sb1) sl1 p (OpenFile p flag perm) with
                         | (sb2, sl2, Some ce) => cret sb2 sl2 tbl (RErr ce)
                         | (sb2, sl2, None) => open_tail sb2 sl2 tbl p (Z.land flag (Z.lnot o_excl)) perm
                         end))).
    { intros Hnd. destruct (cinv_copy_with (bump sb1) sl1 tbl phi p flag perm C1') as (sb2 & sl2 & oe & phi2 & Ecp & C2 & Hf2).
      { rewrite (ks_wf_op sb (bump sb1) Kb'). exact Hwf. } { exact Hnd. }
      rewrite Ecp. destruct oe as [ce|]; [cbn [fst cret]; now exists phi2|].
      apply (cinv_open_tail sb2 sl2 tbl phi2 p _ perm C2 (flag_ok_clear_excl flag Hfo)). intros _. exact (Hf2 eq_refl). }
    destruct (lookup sb1 key) as [fb|] eqn:Hlb.
    - destruct (GWF_lookup_node _ _ _ _ _ _ (ti_wfb _ _ _ (proj1 C1)) Hlb) as (nb & Hnb). rewrite Hnb. cbn [fi_dir fi_mode finfo_of].
      destruct (ndir nb) eqn:Hnd.
      + destruct (cinv_dir_into_layer (bump sb1) sl1 tbl phi p (Z.land (nmode nb) 511) fb nb C1' Hw Hlb Hnb Hnd) as (sl2 & phi2 & Emk & C2).
        rewrite Emk. apply (cinv_open_tail (bump sb1) sl2 tbl phi2 p _ perm C2 (flag_ok_clear_excl flag Hfo)).
        intros Hm. exfalso. apply Hm. destruct (clear_excl_bits flag) as (_ & Em & _). rewrite Em. apply Hdirmask.
        rewrite <- (kind_same_kind sb sb1 key Kb). unfold kind_at. now rewrite Hlb, Hnb, Hnd.
      + apply Hnotdir. unfold is_dir_at, kind_at. now rewrite Hlb, Hnb, Hnd.
    - apply Hnotdir. unfold is_dir_at, kind_at. now rewrite Hlb. }
  destruct cs.
  - exact Hcopy.
  - exact Hcopy.
  - (* hit *)
    change (CInv (fst (open_tail sb1 sl1 tbl p flag perm))).
    apply (cinv_open_tail sb1 sl1 tbl phi p flag perm C1 Hfo). intros Hm.
    destruct Hcs as (rl & nl & f & Hl & Hnl & _). fold key in Hl.
    unfold is_file_at, kind_at. fold key. rewrite (same3_lookup _ _ _ Sl), Hl, (same3_node _ _ _ Sl), Hnl.
    destruct (ndir nl) eqn:Hd; [|reflexivity]. exfalso. apply Hm. apply Hdirmask.
    apply (layer_kind_base sb sl phi (TreeInv_shape _ _ _ (proj1 C)) key true). unfold kind_at. now rewrite Hl, Hnl, Hd.
  - destruct Hcs.
Qed.

(* ---------- the creating calls whose name passes through a regular file of the base ---------- *)
(* the base answers ENOTDIR and does not change; Create / Mkdir / MkdirAll call the base first and stop there;
   OpenFile(O_CREATE) finds a miss (the layer's tree is part of the base's) and copyFileToLayer's OpenFile on
   the base is the refused call; (Rename goes through cache_both: it may first copy the source into the layer,
   which keeps the invariant, then the base refuses) — the layer is never ahead of the base *)
Theorem cinv_below_create dur now sb sl tbl p :
  CInv (sb, sl, tbl) -> wf_below sb (Create p) = true -> CInv (fst (cache_step m_step m_step dur now (sb, sl, tbl) (Create p))).
Proof.
  intros (phi & C) Hb. cbn [cache_step]. rewrite (below_step_bump sb _ (ti_wfb _ _ _ (proj1 C)) Hb). cbn [fst cret].
  exists phi. apply (CInvP_view sb sl tbl phi); [apply same3_bump | apply same3_refl | exact C].
Qed.
Theorem cinv_below_mkdir dur now sb sl tbl p perm :
  CInv (sb, sl, tbl) -> wf_below sb (Mkdir p perm) = true -> CInv (fst (cache_step m_step m_step dur now (sb, sl, tbl) (Mkdir p perm))).
Proof.
  intros (phi & C) Hb. cbn [cache_step]. rewrite (below_step_bump sb _ (ti_wfb _ _ _ (proj1 C)) Hb). cbn [fst cret].
  exists phi. apply (CInvP_view sb sl tbl phi); [apply same3_bump | apply same3_refl | exact C].
Qed.
Theorem cinv_below_mkdirall dur now sb sl tbl p perm :
  CInv (sb, sl, tbl) -> wf_below sb (MkdirAll p perm) = true -> CInv (fst (cache_step m_step m_step dur now (sb, sl, tbl) (MkdirAll p perm))).
Proof.
  intros (phi & C) Hb. cbn [cache_step]. rewrite (below_step_bump sb _ (ti_wfb _ _ _ (proj1 C)) Hb). cbn [fst cret].
  exists phi. apply (CInvP_view sb sl tbl phi); [apply same3_bump | apply same3_refl | exact C].
Qed.
Theorem cinv_below_openfile dur now sb sl tbl p flag perm :
  CInv (sb, sl, tbl) -> wf_below sb (OpenFile p flag perm) = true ->
  CInv (fst (cache_step m_step m_step dur now (sb, sl, tbl) (OpenFile p flag perm))).
Proof.
  intros (phi & C) Hb. cbn [cache_step]. pose proof (TreeInv_shape _ _ _ (proj1 C)) as TS.
  pose proof Hb as Hb0. cbn [wf_below] in Hb0. apply andb_true_iff in Hb0 as [Hb0 Ht]. apply andb_true_iff in Hb0 as [Hb0 _].
  apply andb_true_iff in Hb0 as [Hw Hfo].
  destruct (through_file_refused sb _ (ti_wfb _ _ _ (proj1 C)) (canon_normalize p Hw) Ht) as [Hlb _].
  pose proof (base_none_layer_none sb sl phi TS _ Hlb) as Hll.
  destruct (status_mem dur now sb sl phi p TS) as (sb1 & sl1 & cs & fi & Est & Sb & Sl & Hcs).
  rewrite Est. pose proof (CInvP_view sb sl tbl phi sb1 sl1 Sb Sl C) as C1.
  rewrite copyfiletolayer_clears_append_is_1, cache_openfile_dir_mkdir_fact. cbn [Z.eqb Pos.eqb].
  assert (Hb1 : wf_below (bump sb1) (OpenFile p flag perm) = true).
  { rewrite (ks_wf_below sb (bump sb1)); [exact Hb|]. eapply kind_same_trans; [exact (same3_kind_same _ _ Sb) | apply same3_kind_same, same3_bump]. }
  assert (Hcp : copy_to_layer_with m_step m_step (bump sb1) sl1 p (OpenFile p (Z.land flag (Z.lnot o_append)) perm) = (bump (bump sb1), sl1, Some (EW KENOTDIR))).
  { unfold copy_to_layer_with. rewrite (flag_ok_no_append flag Hfo), (below_step_bump (bump sb1) _ (WF_bump sb1 (ti_wfb _ _ _ (proj1 C1))) Hb1). reflexivity. }
  destruct cs; [| destruct Hcs as (rl & nl & f & Hl & _); congruence | destruct Hcs as (rl & nl & f & Hl & _); congruence | destruct Hcs].
  rewrite (step_stat_full sb1 p (ti_wfb _ _ _ (proj1 C1))). rewrite (same3_lookup sb sb1 (normalize_path p) Sb). rewrite Hlb, Hcp. cbn [fst cret].
  exists phi. apply (CInvP_view sb1 sl1 tbl phi); [eapply same3_trans; apply same3_bump | apply same3_refl | exact C1].
Qed.
