(* Proofs/CacheInvPath.v — C11, part C: the calls of CacheOnReadFs that name a path preserve the invariant. *)
From AF Require Import Lib.Bytes Lib.Path Lib.Ops Gen.Consts Model.MemFile Model.MemFs Model.WfOps Model.Union Model.Cow
  Model.Cache Proofs.MemFsBasics Proofs.MemFsPath Proofs.MemFsWF Proofs.MemFsStep Proofs.MemFsInv Proofs.MemFsRename
  Proofs.CacheProof Proofs.CacheReady Proofs.CacheInv Proofs.CacheFrames Proofs.CacheHandles Proofs.CacheInvOps Proofs.CacheCopy
  Proofs.CacheInvCopy.
Local Open Scope Z_scope.

(* ---------- well-formedness of a call depends on the path map and the kinds of the nodes only ---------- *)
Section KindSame.
Variables (s s' : mst).
Hypothesis K : kind_same s s'.

Lemma ks_is_dir k : is_dir_at s' k = is_dir_at s k.
Proof. unfold is_dir_at. now rewrite (kind_same_kind s s' k K). Qed.
Lemma ks_is_file k : is_file_at s' k = is_file_at s k.
Proof. unfold is_file_at. now rewrite (kind_same_kind s s' k K). Qed.
Lemma ks_has_kids k : has_kids s' k = has_kids s k.
Proof. unfold has_kids. destruct K as (A & _). now rewrite A. Qed.
Lemma ks_nfp k : no_file_prefix s' k = no_file_prefix s k.
Proof.
  unfold no_file_prefix. destruct K as (A & _). rewrite A. clear A. induction (mdata s) as [|kv l IH]; [reflexivity|].
  cbn [forallb]. now rewrite IH, ks_is_file.
Qed.
Lemma ks_prefixes k : prefixes_dirs s' k = prefixes_dirs s k.
Proof.
  unfold prefixes_dirs. destruct K as (A & _). rewrite A. clear A. induction (mdata s) as [|kv l IH]; [reflexivity|].
  cbn [forallb]. now rewrite IH, ks_is_dir.
Qed.
Lemma ks_wf_op o : WfOps.wf_op s' o = WfOps.wf_op s o.
Proof.
  destruct o; cbn [WfOps.wf_op]; rewrite ?(kind_same_kind s s' _ K), ?(kind_same_lookup s s' _ K), ?ks_is_dir, ?ks_nfp, ?ks_prefixes, ?ks_has_kids; reflexivity.
Qed.
End KindSame.
