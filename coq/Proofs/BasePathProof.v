(* Proofs/BasePathProof.v — C08 (confinement) and C09 (faithful re-rooting) of BasePathFs,
   httpDir and nested base paths, on top of the path lemmas of Proofs/PathProof.v *)
From AF Require Import Lib.Bytes Lib.Path Lib.Ops Gen.Consts Model.BasePath Proofs.PathProof.

(* the path arguments of a call *)
Definition op_paths (o : op) : list str :=
  match o with
  | Create p | Mkdir p _ | MkdirAll p _ | Open p | OpenFile p _ _ | Remove p | RemoveAll p
  | Stat p | Chmod p _ | Chown p _ _ | Chtimes p _ => [p]
  | Rename p q => [p; q]
  | _ => []
  end.

(* p lies, segment-wise, at or below the cleaned base, is itself clean, and is rooted iff the
   base is: what "inside the subtree of D" means for a path handed to the source *)
Definition below (base p : str) : Prop :=
  seg_prefix (clean_segs base) (clean_segs p) /\ clean p = p /\ is_rooted p = is_rooted base.

(* bp_step makes at most one call to its source, namely the translated one *)
Theorem bp_step_single_call {St} (inner : St -> op -> St * res) base s o :
  bp_step inner base s o =
  match bp_translate base o with
  | None => (s, RErr (EW KNotExist))
  | Some o' => let '(s', r) := inner s o' in (s', bp_relabel base o r)
  end.
Proof. reflexivity. Qed.

(* every name in that call is confined to the base *)
Theorem bp_translate_confined base o o' :
  bp_translate base o = Some o' -> forall p, In p (op_paths o') -> below base p.
Proof.
  intros Ht p Hin. unfold below.
  destruct o; cbn [bp_translate] in Ht;
    try (inversion Ht; subst; cbn in Hin; contradiction);
    try (destruct (real_path base p0) as [rp|] eqn:Hr; [|discriminate]; inversion Ht; subst;
         cbn in Hin; destruct Hin as [<-|[]]; exact (real_path_confined_gen _ _ _ Hr)).
  destruct (real_path base p0) as [rp|] eqn:Hr; [|discriminate].
  destruct (real_path base q) as [rq|] eqn:Hq; [|discriminate]. inversion Ht; subst.
  cbn in Hin. destruct Hin as [<-|[<-|[]]].
  - exact (real_path_confined_gen _ _ _ Hr).
  - exact (real_path_confined_gen _ _ _ Hq).
Qed.

(* a refused name: reported as not existing, the source is not consulted, nothing changes *)
Theorem bp_refused {St} (inner : St -> op -> St * res) base s o :
  bp_translate base o = None -> bp_step inner base s o = (s, RErr (EW KNotExist)).
Proof. unfold bp_step. intros ->. reflexivity. Qed.

(* a name is refused exactly when it would escape (rooted base) *)
Theorem bp_escape_refused base name :
  is_rooted (clean base) = true -> ~ stays_inside base name -> bp_translate base (Open name) = None.
Proof. intros Hr He. cbn [bp_translate]. now rewrite (real_path_escape base name Hr He). Qed.

(* handle operations are forwarded untouched: they can only reach files that were opened
   through a confined name *)
Theorem bp_handle_ops_forwarded base o :
  op_paths o = [] -> bp_translate base o = Some o.
Proof. destruct o; cbn; try reflexivity; discriminate. Qed.

(* the sibling whose name merely starts with the base's name is outside *)
Example bp_sibling_refused :
  bp_translate [47;98;97;115;101]%N (Open [46;46;47;98;97;115;101;50;47;120]%N) = None.
Proof. vm_compute. reflexivity. Qed.

(* ---- httpDir ---- *)
Theorem http_target_confined root name :
  let dir := if is_empty root then s_dot else root in
  seg_prefix (clean_segs dir) (clean_segs (http_target root name)).
Proof.
  intros dir. unfold http_target. fold dir.
  assert (Hd : dir <> []) by (unfold dir; destruct root; cbn; discriminate).
  change (path_join [dir; clean (SLASH :: name)]) with (join2 dir (clean (SLASH :: name))).
  rewrite <- (join2_clean_l dir _ Hd).
  rewrite clean_segs_join2.
  rewrite joined_segs_no_up by (apply no_up_clean_rooted; reflexivity).
  now exists (rel_segs (clean (SLASH :: name))).
Qed.

(* ---- nested base paths ---- *)
Theorem bp_nested_confined b1 b2 o o2 o1 :
  bp_translate b2 o = Some o2 -> bp_translate b1 o2 = Some o1 ->
  (forall p, In p (op_paths o2) -> below b2 p) /\ (forall p, In p (op_paths o1) -> below b1 p).
Proof. intros H2 H1. split; [exact (bp_translate_confined _ _ _ H2) | exact (bp_translate_confined _ _ _ H1)]. Qed.

(* a path that the inner wrapper (root b2, rooted) produced is mapped by the outer wrapper
   (root b1) below b1 ++ b2 *)
Theorem real_path_nested b1 b2 name p2 p1 :
  is_rooted (clean b2) = true -> (is_rooted b1 = false -> clean_segs b1 <> []) ->
  real_path b2 name = Some p2 -> real_path b1 p2 = Some p1 ->
  seg_prefix (clean_segs b1 ++ clean_segs b2) (clean_segs p1).
Proof.
  intros Hr2 Hs1 H2 H1.
  destruct (real_path_confined _ _ _ Hr2 H2) as [[r Hseg] [Hc2 Hroot2]].
  assert (Hno : no_up p2) by (rewrite <- Hc2; apply no_up_clean_rooted; exact Hroot2).
  rewrite (real_path_no_up b1 p2 Hs1 Hno) in H1. inversion H1 as [Hp1].
  rewrite <- (clean_segs_no_up p2 Hno), Hseg in *.
  destruct (real_path_confined_gen b1 p2 p1) as [_ [Hc1 _]].
  { rewrite (real_path_no_up b1 p2 Hs1 Hno). now rewrite <- (clean_segs_no_up p2 Hno), Hseg. }
  (* clean_segs of a rendered normal form *)
  assert (Hnf : nf (is_rooted b1) (clean_segs b1 ++ clean_segs b2 ++ r)).
  { pose proof (joined_segs_nf b1 p2) as Hj. rewrite (joined_segs_no_up b1 p2 Hno) in Hj.
    now rewrite <- (clean_segs_no_up p2 Hno), Hseg in Hj. }
  rewrite (clean_segs_render _ _ Hnf). exists r. now rewrite app_assoc.
Qed.

(* ---- C09: re-rooting ---- *)
(* for names that stay inside, the forwarded call is the same call with D prepended *)
Definition prepend (base name : str) : str := clean (join2 (clean base) name).

Theorem bp_translate_inside base o :
  is_rooted (clean base) = true -> (forall p, In p (op_paths o) -> stays_inside base p) ->
  bp_translate base o = Some (map_paths (prepend base) o).
Proof.
  intros Hr Hin. unfold prepend.
  destruct o; cbn [bp_translate map_paths]; try reflexivity;
    try (rewrite (real_path_inside base p Hr) by (apply Hin; cbn; auto); reflexivity).
  rewrite (real_path_inside base p Hr) by (apply Hin; cbn; auto).
  rewrite (real_path_inside base q Hr) by (apply Hin; cbn; auto). reflexivity.
Qed.

Theorem bp_commutes {St} (inner : St -> op -> St * res) base s o :
  is_rooted (clean base) = true -> (forall p, In p (op_paths o) -> stays_inside base p) ->
  bp_step inner base s o =
  (let '(s', r) := inner s (map_paths (prepend base) o) in (s', bp_relabel base o r)).
Proof. intros Hr Hin. unfold bp_step. now rewrite (bp_translate_inside base o Hr Hin). Qed.

(* results other than Name are passed through unchanged *)
Theorem bp_relabel_only_name base o r :
  (forall h, o <> HName h) -> bp_relabel base o r = r.
Proof. intros Hn. destruct o; try reflexivity. exfalso. now apply (Hn h). Qed.

(* stacking = one base path on the joined roots, for roots and names that never step up *)
Theorem bp_stack_translate a b o :
  (is_rooted a = false -> clean_segs a <> []) -> (is_rooted b = false -> clean_segs b <> []) ->
  no_up b -> (forall p, In p (op_paths o) -> no_up p) ->
  match bp_translate b o with
  | Some o2 => bp_translate a o2
  | None => None
  end = bp_translate (join2 a b) o.
Proof.
  intros Ha Hb Hnb Hnp.
  assert (H1 : forall c, no_up c ->
     match real_path b c with Some q => real_path a q | None => None end = real_path (join2 a b) c).
  { intros c Hc. destruct (real_path_stack a b c Ha Hb Hnb Hc) as [q [E1 [E2 E3]]].
    rewrite E1, E2, E3. reflexivity. }
  destruct o; cbn [bp_translate]; try reflexivity;
    try (specialize (H1 p (Hnp p (or_introl eq_refl)));
         destruct (real_path b p) as [q1|]; cbn [bp_translate]; rewrite <- H1; reflexivity).
  pose proof (H1 p (Hnp p (or_introl eq_refl))) as Hp.
  pose proof (H1 q (Hnp q (or_intror (or_introl eq_refl)))) as Hq.
  destruct (real_path b p) as [p1|]; destruct (real_path b q) as [q1|]; cbn [bp_translate];
    rewrite <- ?Hp, <- ?Hq; try reflexivity.
  destruct (real_path a p1); reflexivity.
Qed.

(* util.go FullBaseFsPath: Join the roots from the innermost wrapper outwards *)
Fixpoint full_base_path (roots : list str) (rel : str) : str :=
  match roots with
  | [] => rel
  | r :: outer => full_base_path outer (join2 r rel)
  end.

Theorem full_base_path_two b1 b2 rel :
  full_base_path [b2; b1] rel = join2 b1 (join2 b2 rel).
Proof. reflexivity. Qed.

Theorem full_base_path_joined b1 b2 rel :
  b1 <> [] -> b2 <> [] -> rel <> [] -> is_rooted b2 = false \/ (no_up b2 /\ no_up rel) ->
  full_base_path [b2; b1] rel = join2 (join2 b1 b2) rel.
Proof. intros H1 H2 H3 H. cbn [full_base_path]. symmetry. now apply join2_assoc. Qed.

(* ---- BasePathFile.Name after the fix: the base is trimmed WITHOUT its trailing separator ---- *)
Lemma join_slash_last (l : list str) : l <> [] -> Forall seg_ok l ->
  exists c r, rev (join_slash l) = c :: r /\ c <> SLASH.
Proof.
  induction l as [|x l IH]; intros Hne Hok; [contradiction|].
  inversion Hok as [|? ? Hx Hl]; subst.
  destruct l as [|y l'].
  - cbn [join_slash]. destruct Hx as [Hn [_ Hsf]].
    destruct (rev x) as [|c r] eqn:Er.
    + exfalso. apply Hn. rewrite <- (rev_involutive x), Er. reflexivity.
    + exists c, r. split; [reflexivity|]. intros ->. apply Hsf. rewrite <- (rev_involutive x), Er.
      apply in_rev. rewrite rev_involutive. now left.
  - destruct (IH ltac:(discriminate) Hl) as [c [r [Hr Hc]]].
    change (join_slash (x :: y :: l')) with (x ++ SLASH :: join_slash (y :: l')).
    rewrite rev_app_distr. cbn [rev]. rewrite Hr. cbn [app]. rewrite <- app_assoc. cbn [app].
    exists c, (r ++ SLASH :: rev x). split; [reflexivity | exact Hc].
Qed.

Lemma trim_suffix_slash_clean b : clean_segs b <> [] -> trim_suffix_slash (clean b) = clean b.
Proof.
  intros Hne. pose proof (clean_segs_nf b) as [Hok _].
  destruct (join_slash_last (clean_segs b) Hne Hok) as [c [r [Hr Hc]]].
  unfold clean, render, trim_suffix_slash. destruct (is_rooted b).
  - cbn [rev]. rewrite Hr. cbn [app]. destruct (N.eqb_spec c SLASH); [contradiction | reflexivity].
  - destruct (clean_segs b) as [|x l] eqn:E; [contradiction|]. rewrite Hr.
    destruct (N.eqb_spec c SLASH); [contradiction | reflexivity].
Qed.

Theorem bp_name_shape_fixed base name p :
  is_rooted (clean base) = true -> real_path base name = Some p ->
  exists r, clean_segs p = clean_segs base ++ r /\
    bp_name base p =
      match clean_segs base, r with
      | [], _ => p                        (* base "/": the name is the real path itself *)
      | _ :: _, [] => []                  (* the base directory itself *)
      | _ :: _, _ :: _ => SLASH :: join_slash r
      end.
Proof.
  intros Hr H. destruct (bp_name_shape base name p H) as [r [Hs Ht]]. exists r. split; [exact Hs|].
  unfold bp_name. destruct (clean_segs base) as [|x l] eqn:E.
  - (* clean base = "/" *)
    assert (Hc : clean base = s_slash).
    { unfold clean. rewrite is_rooted_clean in Hr. rewrite Hr, E. reflexivity. }
    rewrite Hc. reflexivity.
  - rewrite trim_suffix_slash_clean by (rewrite E; discriminate). exact Ht.
Qed.

(* Symlink: both names handed to the source are confined *)
Theorem bp_symlink_confined base o n a b :
  bp_symlink base o n = Some (a, b) -> below base a /\ below base b.
Proof.
  unfold bp_symlink. destruct (real_path base o) as [x|] eqn:H1; [|discriminate].
  destruct (real_path base n) as [y|] eqn:H2; [|discriminate]. intros H; inversion H; subst.
  split; [exact (real_path_confined_gen _ _ _ H1) | exact (real_path_confined_gen _ _ _ H2)].
Qed.
