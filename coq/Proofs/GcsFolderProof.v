(* Proofs/GcsFolderProof.v — C20, folder rules: folder detection, listing, Remove on a non-empty
   folder.  The layout class ("prefix-free names", no name both object and folder, no empty path
   components) is stated as explicit hypotheses on the object list. *)
From Coq Require Import Sorting.Permutation.
From AF Require Import Lib.Bytes Lib.Path Lib.Ops Gen.Consts Model.Gcs Model.GcsFs.
From AF Require Import Proofs.BytesLemmas Proofs.GcsProof.
Local Open Scope Z_scope.

(* ------------------------------------------------------------------ sorting, dedup *)
Lemma insert_by_perm {A} (lt : A -> A -> bool) x l : Permutation (insert_by lt x l) (x :: l).
Proof.
  induction l as [|y l IH]; simpl; [reflexivity|].
  destruct (lt y x); [|reflexivity].
  rewrite IH. apply perm_swap.
Qed.

Lemma sort_by_perm {A} (lt : A -> A -> bool) l : Permutation (sort_by lt l) l.
Proof.
  induction l as [|x l IH]; simpl; [reflexivity|].
  unfold sort_by in *. simpl. rewrite insert_by_perm. now constructor.
Qed.

Lemma sort_by_in {A} (lt : A -> A -> bool) l x : In x (sort_by lt l) <-> In x l.
Proof. split; apply Permutation_in; [|symmetry]; apply sort_by_perm. Qed.

Lemma gmemb_in x l : gmemb x l = true <-> In x l.
Proof.
  induction l as [|y l IH]; simpl; [split; [discriminate | tauto]|].
  rewrite orb_true_iff, beqb_eq, IH. split; intros [H|H]; auto.
Qed.

Lemma gdedup_in x l : In x (gdedup l) <-> In x l.
Proof.
  induction l as [|y l IH]; simpl; [tauto|].
  destruct (gmemb y l) eqn:E.
  - rewrite IH. split; [auto|]. intros [->|H]; [now apply gmemb_in | exact H].
  - simpl. now rewrite IH.
Qed.

Lemma gdedup_nodup l : NoDup (gdedup l).
Proof.
  induction l as [|y l IH]; simpl; [constructor|].
  destruct (gmemb y l) eqn:E; [exact IH|].
  constructor; [|exact IH]. rewrite gdedup_in. intros H. apply gmemb_in in H. congruence.
Qed.

Lemma names_sorted_in (objs : gstore) k : In k (names_sorted objs) <-> In k (map fst objs).
Proof. apply sort_by_in. Qed.

Lemma names_under_in (objs : gstore) p k :
  In k (names_under p objs) <-> In k (map fst objs) /\ prefixb p k = true.
Proof. unfold names_under. now rewrite filter_In, names_sorted_in. Qed.

(* ------------------------------------------------------------------ the page is empty iff nothing has the prefix *)
Lemma list_page_nil (objs : gstore) p :
  list_page objs p = [] <-> (forall k, In k (map fst objs) -> prefixb p k = false).
Proof.
  unfold list_page. split.
  - intros H k Hk. destruct (prefixb p k) eqn:E; [|reflexivity]. exfalso.
    apply app_eq_nil in H. destruct H as (H1 & H2).
    apply map_eq_nil in H1. apply map_eq_nil in H2.
    assert (Hu : In k (names_under p objs)) by (apply names_under_in; auto).
    destruct (has_slash (rest_of p k)) eqn:Es.
    + unfold page_prefixes in H2.
      assert (Hin : In (p ++ upto_slash (rest_of p k))
                       (sort_by bltb (gdedup (map (fun n => p ++ upto_slash (rest_of p n))
                          (filter (fun n => has_slash (rest_of p n)) (names_under p objs)))))).
      { apply sort_by_in, gdedup_in, in_map_iff. exists k. split; [reflexivity|].
        apply filter_In. auto. }
      rewrite H2 in Hin. exact Hin.
    + unfold page_objs in H1.
      assert (Hin : In k (filter (fun n => negb (has_slash (rest_of p n))) (names_under p objs))).
      { apply filter_In. split; [exact Hu|]. now rewrite Es. }
      rewrite H1 in Hin. exact Hin.
  - intros H.
    assert (Hu : names_under p objs = []).
    { destruct (names_under p objs) as [|k l] eqn:E; [reflexivity|]. exfalso.
      assert (Hin : In k (names_under p objs)) by (rewrite E; now left).
      apply names_under_in in Hin. destruct Hin as (Hk & Hp). rewrite (H k Hk) in Hp. discriminate. }
    unfold page_objs, page_prefixes. rewrite Hu. reflexivity.
Qed.

Lemma prefixb_app_weaken (p q k : bytes) : prefixb (p ++ q) k = true -> prefixb p k = true.
Proof.
  rewrite !prefixb_spec. intros [r ->]. exists (q ++ r). now rewrite app_assoc.
Qed.

Lemma alist_get_none_notin {A} k (l : list (str * A)) : alist_get k l = None -> ~ In k (map fst l).
Proof.
  induction l as [|[k' v] l IH]; simpl; [tauto|].
  destruct (beqb k k') eqn:E; [discriminate|].
  intros H [Hk|Hk]; [subst k'; now rewrite beqb_refl in E | now apply IH].
Qed.

(* the regenerated switches: /repo's sources carry the three earlier repairs (Readdir count bound,
   own-entry test by object path, RemoveAll of an implicit folder), so the configuration the
   correspondence check runs is the one the theorems below are stated for *)
Lemma cfg_src_is_patched : cfg_src = cfg_patched.
Proof. reflexivity. Qed.

(* the regenerated switch: the folder probe of newFileInfo lists with the prefix path+"/" *)
Lemma gcs_fileinfo_prefix_sep_fact : gcs_fileinfo_prefix_sep = 1.
Proof. reflexivity. Qed.

Lemma exists_prefixed (p : str) (l : list str) :
  ~ (forall k, In k l -> prefixb p k = false) -> exists k, In k l /\ prefixb p k = true.
Proof.
  induction l as [|k l IH]; intros Hne.
  - exfalso. apply Hne. intros k [].
  - destruct (prefixb p k) eqn:E; [exists k; split; [now left | exact E]|].
    destruct IH as (k' & Hk' & Hp').
    + intros H. apply Hne. intros k0 [<-|Hk0]; [exact E | now apply H].
    + exists k'. split; [now right | exact Hp'].
Qed.

(* C20: a name (that is not itself an object) is a folder exactly when objects exist under it.
   No layout hypothesis: since the probe carries the separator, a look-alike sibling ("d.txt" next to
   the name "d") no longer makes the name a folder. *)
Theorem folder_iff_objects_below bkt (objs : gstore) name path :
  split_name name = (bkt, path) -> path <> [] ->
  alist_get path objs = None ->
  ((exists i, new_file_info bkt objs name = inr i /\ gi_dir i = true) <->
   (exists k, In k (map fst objs) /\ prefixb (ensure_trailing path) k = true)) /\
  ((exists i, new_file_info bkt objs name = inr i) -> exists i, new_file_info bkt objs name = inr i /\ gi_dir i = true).
Proof.
  intros Hs Hp Hg.
  assert (Hnfi : new_file_info bkt objs name =
                 match list_page objs (ensure_trailing path) with
                 | [] => inl GENOENT
                 | _ :: _ => inr (mkGI (ensure_trailing name) true folder_size) end).
  { unfold new_file_info. rewrite Hs. unfold get_bucket. rewrite beqb_refl.
    unfold o_attrs, o_check. rewrite beqb_refl. cbn [negb].
    rewrite gcs_fileinfo_prefix_sep_fact. cbn [Z.eqb Pos.eqb].
    destruct path; [contradiction|]. cbn [is_empty]. now rewrite Hg. }
  rewrite Hnfi.
  destruct (list_page objs (ensure_trailing path)) as [|e l] eqn:El.
  - pose proof (proj1 (list_page_nil objs (ensure_trailing path)) El) as Hnil.
    split; [split|].
    + intros (i & H & _). discriminate.
    + intros (k & Hk & Hpre). rewrite (Hnil k Hk) in Hpre. discriminate.
    + intros (i & H). discriminate.
  - split; [split|].
    + intros _. apply exists_prefixed.
      intros H. apply list_page_nil in H. rewrite H in El. discriminate.
    + intros _. eexists. split; reflexivity.
    + intros _. eexists. split; reflexivity.
Qed.

Lemma ensure_trailing_plain (p : str) :
  p <> [] -> last_is_slash p = false -> ensure_trailing p = p ++ s_slash.
Proof. intros Hp Hl. unfold ensure_trailing. destruct p; [contradiction|]. cbn [is_empty]. now rewrite Hl. Qed.

(* the situation the old probe (bare path) got wrong, computed: only "d.txt" exists, the name is "b/d" *)
Example look_alike_sibling_is_no_folder :
  new_file_info [98]%N [([100;46;116;120;116]%N, [1]%N)] [98;47;100]%N = inl GENOENT.
Proof. vm_compute. reflexivity. Qed.

(* ------------------------------------------------------------------ Remove on a folder *)
Lemma close_io_fresh bkt (objs : gstore) r :
  r_reader r = None -> r_writer r = None -> close_io bkt objs r = (objs, r, None).
Proof.
  intros Hr Hw. unfold close_io, close_writer. cbn [set_io r_writer]. rewrite Hw.
  destruct r; cbn in *. subst. reflexivity.
Qed.

Lemma alist_get_del_same {A} k (l : list (str * A)) : alist_get k (alist_del k l) = None.
Proof.
  induction l as [|[k' v] l IH]; simpl; [reflexivity|].
  destruct (beqb k k') eqn:E; [exact IH|]. simpl. now rewrite E.
Qed.

Lemma nth_error_snoc {A} (l : list A) x : nth_error (l ++ [x]) (length l) = Some x.
Proof. induction l; simpl; auto. Qed.

Lemma nth_error_list_set {A} (l : list A) i x y :
  nth_error l i = Some y -> nth_error (list_set i x l) i = Some x.
Proof.
  revert i; induction l as [|z l IH]; intros [|i]; simpl; try discriminate; auto.
Qed.

Lemma land_0_l_eqb x : (Z.land o_rdonly x =? 0) = true.
Proof. unfold o_rdonly. reflexivity. Qed.

(* Open(name) of a folder: a fresh resource, the bucket untouched *)
Lemma fs_open_dir bkt g name path info :
  norm_name name = name -> name <> [] -> split_name name = (bkt, path) ->
  alist_get name (g_raw g) = None ->
  new_file_info bkt (g_objs g) name = inr info ->
  let r := mkR name bkt path 0 0 None None in
  let i := length (g_res g) in
  exists g2, fs_open bkt g name = (g2, inr (mkGH o_rdonly 0 false i)) /\
             g_objs g2 = g_objs g /\ nth_error (g_res g2) i = Some r.
Proof.
  intros Hn Hne Hs Hraw Hinfo r i.
  unfold fs_open, fs_open_file. rewrite Hn.
  unfold gvalidate. destruct name as [|c name']; [contradiction|]. cbn [is_empty].
  set (name := c :: name') in *.
  rewrite Hraw. unfold get_obj. rewrite Hs. cbn [fst]. unfold get_bucket. rewrite beqb_refl.
  unfold galloc, new_resource. rewrite Hs. fold r. fold i.
  rewrite Z.eqb_refl.
  unfold h_stat, with_res. cbn [g_res h_res g_objs]. unfold i at 1. rewrite nth_error_snoc.
  unfold gf_stat. rewrite (close_io_fresh bkt (g_objs g) r eq_refl eq_refl).
  cbn [r r_name]. rewrite Hinfo.
  rewrite !land_0_l_eqb. cbn [negb].
  eexists. split; [reflexivity|]. cbn [put_or g_objs g_res h_res]. split; [reflexivity|].
  apply nth_error_list_set with (y := r). apply nth_error_snoc.
Qed.

(* C20: Remove refuses a folder whose listing is not empty, and leaves the bucket as it was *)
Theorem remove_nonempty_refused c bkt g name path info l :
  norm_name name = name -> name <> [] -> split_name name = (bkt, path) ->
  new_file_info bkt (g_objs g) name = inr info -> gi_dir info = true ->
  (let r := mkR name bkt path 0 0 None None in
   readdir_impl c bkt (g_objs g) r 0 = (g_objs g, r, l, None)) -> l <> [] ->
  exists g', fs_remove c bkt g name = (g', UErr GENOTEMPTY) /\ g_objs g' = g_objs g.
Proof.
  intros Hn Hne Hs Hinfo Hdir Hl Hlne.
  unfold fs_remove. rewrite Hn.
  unfold gvalidate. destruct name as [|ch name']; [contradiction|]. cbn [is_empty].
  set (name := ch :: name') in *.
  unfold get_obj. rewrite Hs. cbn [fst]. unfold get_bucket. rewrite beqb_refl.
  unfold fs_stat. rewrite Hn. unfold gvalidate. cbn [name is_empty]. fold name.
  rewrite Hinfo, Hdir.
  set (g1 := mkG (g_objs g) (g_res g) (alist_del name (g_raw g))).
  destruct (fs_open_dir bkt g1 name path info Hn Hne Hs (alist_get_del_same _ _) Hinfo)
    as (g2 & Ho & Hobjs & Hnth).
  rewrite Ho. cbn [g1 g_res g_objs] in Hobjs, Hnth.
  unfold h_readdir, with_res. cbn [h_res]. change (g_res g1) with (g_res g). rewrite Hnth.
  unfold gf_readdir. rewrite Hobjs. cbv zeta in Hl. rewrite Hl.
  cbn [Z.ltb Z.compare].
  set (sorted := sort_by (fun a b => bltb (gi_base a) (gi_base b)) l).
  assert (Hsne : sorted <> []).
  { intros E. apply Hlne. pose proof (sort_by_perm (fun a b => bltb (gi_base a) (gi_base b)) l) as P.
    fold sorted in P. rewrite E in P. now apply Permutation_nil in P. }
  destruct sorted as [|s0 ss]; [contradiction|].
  eexists. split; [reflexivity|]. cbn [put_or g_objs]. reflexivity.
Qed.

(* ------------------------------------------------------------------ filepath.Base of listed names *)
Lemma has_slash_app a b : has_slash (a ++ b) = has_slash a || has_slash b.
Proof. induction a as [|x a IH]; simpl; [reflexivity|]. now rewrite IH, orb_assoc. Qed.

Lemma split_last_none c : has_slash c = false -> split_last_aux c = None.
Proof.
  induction c as [|x c IH]; simpl; [reflexivity|].
  intros H. apply orb_false_iff in H. destruct H as (Hx & Hc). now rewrite (IH Hc), Hx.
Qed.

Lemma split_last_at q c : has_slash c = false ->
  split_last_aux (q ++ SLASH :: c) = Some (q ++ [SLASH], c).
Proof.
  intros Hc. induction q as [|x q IH]; simpl.
  - now rewrite (split_last_none c Hc).
  - now rewrite IH.
Qed.

Lemma strip_trailing_rev_nonslash x r : N.eqb x SLASH = false -> strip_trailing_rev (x :: r) = x :: r.
Proof. intros H. simpl. now rewrite H. Qed.

Lemma last_nonslash c : c <> [] -> has_slash c = false -> exists x r, rev c = x :: r /\ N.eqb x SLASH = false.
Proof.
  intros Hne Hs. destruct (rev c) as [|x r] eqn:E.
  - exfalso. apply Hne. rewrite <- (rev_involutive c), E. reflexivity.
  - exists x, r. split; [reflexivity|].
    assert (Hin : In x c) by (apply in_rev; rewrite E; now left).
    clear -Hin Hs. induction c as [|y c IH]; [contradiction|].
    simpl in Hs. apply orb_false_iff in Hs. destruct Hs as (Hy & Hc).
    destruct Hin as [->|Hin]; [exact Hy | now apply IH].
Qed.

Lemma path_base_child q c : c <> [] -> has_slash c = false -> path_base (q ++ SLASH :: c) = c.
Proof.
  intros Hne Hs. unfold path_base.
  destruct (q ++ SLASH :: c) as [|y s] eqn:E; [destruct q; discriminate|]. rewrite <- E. clear y s E.
  assert (Hst : strip_trailing (q ++ SLASH :: c) = q ++ SLASH :: c).
  { unfold strip_trailing. rewrite rev_app_distr. simpl. rewrite <- app_assoc.
    destruct (last_nonslash c Hne Hs) as (x & r & Hr & Hx). rewrite Hr. simpl. rewrite Hx.
    change (x :: r ++ SLASH :: rev q) with ((x :: r) ++ SLASH :: rev q). rewrite <- Hr.
    rewrite rev_app_distr. simpl. rewrite !rev_involutive. now rewrite <- app_assoc. }
  rewrite Hst. destruct (q ++ SLASH :: c) as [|y s] eqn:E; [destruct q; discriminate|]. rewrite <- E.
  unfold path_split. now rewrite (split_last_at q c Hs).
Qed.

Lemma path_base_child_dir q c : c <> [] -> has_slash c = false -> path_base (q ++ SLASH :: c ++ [SLASH]) = c.
Proof.
  intros Hne Hs. unfold path_base.
  destruct (q ++ SLASH :: c ++ [SLASH]) as [|y s] eqn:E; [destruct q; discriminate|]. rewrite <- E. clear y s E.
  assert (Hst : strip_trailing (q ++ SLASH :: c ++ [SLASH]) = q ++ SLASH :: c).
  { unfold strip_trailing.
    replace (q ++ SLASH :: c ++ [SLASH]) with ((q ++ SLASH :: c) ++ [SLASH]) by (now rewrite <- app_assoc).
    rewrite rev_app_distr. simpl.
    rewrite rev_app_distr. simpl. rewrite <- app_assoc.
    destruct (last_nonslash c Hne Hs) as (x & r & Hr & Hx). rewrite Hr. simpl. rewrite Hx.
    change (x :: r ++ SLASH :: rev q) with ((x :: r) ++ SLASH :: rev q). rewrite <- Hr.
    rewrite rev_app_distr. simpl. rewrite !rev_involutive. now rewrite <- app_assoc. }
  rewrite Hst. destruct (q ++ SLASH :: c) as [|y s] eqn:E; [destruct q; discriminate|]. rewrite <- E.
  unfold path_split. now rewrite (split_last_at q c Hs).
Qed.

(* ------------------------------------------------------------------ listing a folder *)
From AF Require Import Model.GcsSpec.

Lemma gcomponent_noslash s : has_slash (gcomponent s) = false.
Proof.
  unfold gcomponent. induction s as [|x s IH]; simpl; [reflexivity|].
  destruct (N.eqb x SLASH) eqn:E; simpl; [reflexivity|].
  destruct (split_first s) as [a b]. simpl in *. now rewrite E, IH.
Qed.

Lemma gcomponent_id s : has_slash s = false -> gcomponent s = s.
Proof.
  unfold gcomponent. induction s as [|x s IH]; simpl; [reflexivity|].
  intros H. apply orb_false_iff in H. destruct H as (Hx & Hs). rewrite Hx.
  destruct (split_first s) as [a b]. simpl in *. now rewrite (IH Hs).
Qed.

Lemma upto_slash_comp s : has_slash s = true -> upto_slash s = gcomponent s ++ [SLASH].
Proof.
  unfold gcomponent. induction s as [|x s IH]; simpl; [discriminate|].
  destruct (N.eqb x SLASH) eqn:E; simpl.
  - intros _. apply N.eqb_eq in E. now subst x.
  - intros H. destruct (split_first s) as [a b]. simpl in *. now rewrite (IH H).
Qed.

Lemma under_decomp p k : prefixb p k = true -> k = p ++ rest_of p k.
Proof.
  intros H. apply prefixb_spec in H. destruct H as (r & ->). unfold rest_of. now rewrite skipn_app_exact.
Qed.

Lemma NoDup_app' {A} (a b : list A) :
  NoDup a -> NoDup b -> (forall x, In x a -> ~ In x b) -> NoDup (a ++ b).
Proof.
  induction a as [|x a IH]; simpl; intros Ha Hb Hd; [exact Hb|].
  inversion Ha; subst. constructor.
  - rewrite in_app_iff. intros [H|H]; [contradiction | exact (Hd x (or_introl eq_refl) H)].
  - apply IH; auto.
Qed.

Lemma NoDup_map_inj_in {A B} (f : A -> B) l :
  NoDup l -> (forall x y, In x l -> In y l -> f x = f y -> x = y) -> NoDup (map f l).
Proof.
  induction l as [|x l IH]; simpl; intros Hn Hinj; [constructor|].
  inversion Hn; subst. constructor.
  - rewrite in_map_iff. intros (y & Hy & Hin). apply H1.
    rewrite (Hinj x y (or_introl eq_refl) (or_intror Hin) (eq_sym Hy)). exact Hin.
  - apply IH; auto.
Qed.

Lemma filter_map_comm {A B} (f : B -> bool) (g : A -> B) l :
  filter f (map g l) = map g (filter (fun x => f (g x)) l).
Proof. induction l as [|x l IH]; simpl; [reflexivity|]. destruct (f (g x)); simpl; now rewrite IH. Qed.

(* the immediate children of the folder whose objects carry the prefix bpath = path ++ "/" *)
Definition is_child (objs : gstore) (bpath c : str) : Prop :=
  exists k, In k (map fst objs) /\ prefixb bpath k = true /\ k <> bpath /\ gcomponent (rest_of bpath k) = c.

(* the layout class below one folder: names unique, no empty component right below the folder,
   no name that is both an object and a folder *)
Record layout_ok (objs : gstore) (bpath : str) : Prop := {
  lo_nodup : NoDup (map fst objs);
  lo_wf : forall k, In k (map fst objs) -> prefixb bpath k = true -> k <> bpath ->
                    gcomponent (rest_of bpath k) <> [];
  lo_sep : forall k1 k2, In k1 (map fst objs) -> In k2 (map fst objs) ->
                         prefixb bpath k1 = true -> prefixb bpath k2 = true ->
                         has_slash (rest_of bpath k1) = false -> has_slash (rest_of bpath k2) = true ->
                         rest_of bpath k1 <> gcomponent (rest_of bpath k2) }.

(* what the patched readdirImpl keeps of a page *)
Definition kept (objs : gstore) (bpath : str) : list lentry :=
  filter (fun e => match e with EObj n _ => negb (beqb n bpath) | EPrefix _ => true end) (list_page objs bpath).
Definition kept_names (objs : gstore) (bpath : str) : list str :=
  map gi_base (map info_of_lentry (kept objs bpath)).

Lemma kept_names_eq (objs : gstore) bpath :
  kept_names objs bpath =
  map path_base (filter (fun n => negb (beqb n bpath)) (page_objs objs bpath)) ++
  map path_base (page_prefixes objs bpath).
Proof.
  unfold kept_names, kept, list_page. rewrite filter_app, !map_app. f_equal.
  - rewrite filter_map_comm, !map_map. reflexivity.
  - rewrite filter_map_comm, !map_map.
    induction (page_prefixes objs bpath) as [|p l IH]; simpl; [reflexivity|]. f_equal. exact IH.
Qed.

Lemma rest_nil_iff p k : prefixb p k = true -> (rest_of p k = [] <-> k = p).
Proof.
  intros H. pose proof (under_decomp p k H) as E. split.
  - intros Hr. rewrite Hr, app_nil_r in E. exact E.
  - intros ->. unfold rest_of. apply skipn_all.
Qed.

Lemma objs_part_in (objs : gstore) bpath n :
  In n (filter (fun n => negb (beqb n bpath)) (page_objs objs bpath)) <->
  In n (map fst objs) /\ prefixb bpath n = true /\ has_slash (rest_of bpath n) = false /\ n <> bpath.
Proof.
  unfold page_objs. rewrite !filter_In, names_under_in, !negb_true_iff. split.
  - intros ((( H1 & H2) & H3) & H4). splits; auto. intros ->. now rewrite beqb_refl in H4.
  - intros (H1 & H2 & H3 & H4). splits; auto. now apply beqb_neq.
Qed.

Lemma prefixes_part_in (objs : gstore) bpath p :
  In p (page_prefixes objs bpath) <->
  exists n, In n (map fst objs) /\ prefixb bpath n = true /\ has_slash (rest_of bpath n) = true /\
            p = bpath ++ upto_slash (rest_of bpath n).
Proof.
  unfold page_prefixes. rewrite sort_by_in, gdedup_in, in_map_iff. split.
  - intros (n & <- & Hn). apply filter_In in Hn. destruct Hn as (Hu & Hs).
    apply names_under_in in Hu. destruct Hu. exists n. auto.
  - intros (n & H1 & H2 & H3 & ->). exists n. split; [reflexivity|].
    apply filter_In. split; [apply names_under_in; auto | exact H3].
Qed.

Lemma objs_part_base (objs : gstore) path n :
  prefixb (path ++ [SLASH]) n = true -> has_slash (rest_of (path ++ [SLASH]) n) = false -> n <> path ++ [SLASH] ->
  path_base n = rest_of (path ++ [SLASH]) n.
Proof.
  intros Hp Hs Hne. pose proof (under_decomp _ n Hp) as E.
  rewrite E at 1. rewrite <- app_assoc. simpl.
  apply path_base_child; [|exact Hs]. intros Hr. apply Hne. now apply rest_nil_iff.
Qed.

Lemma prefixes_part_base path rest :
  has_slash rest = true -> gcomponent rest <> [] ->
  path_base ((path ++ [SLASH]) ++ upto_slash rest) = gcomponent rest.
Proof.
  intros Hs Hne. rewrite (upto_slash_comp rest Hs), <- app_assoc. simpl.
  apply path_base_child_dir; [exact Hne | apply gcomponent_noslash].
Qed.

(* C20: listing a folder returns its immediate children, once each (patched readdirImpl) *)
Theorem kept_names_children (objs : gstore) path :
  let bpath := path ++ [SLASH] in
  layout_ok objs bpath ->
  (forall c, In c (kept_names objs bpath) <-> is_child objs bpath c) /\ NoDup (kept_names objs bpath).
Proof.
  intros bpath [Hnd Hwf Hsep]. subst bpath. set (bpath := path ++ [SLASH]) in *. rewrite kept_names_eq. split.
  - intros c. rewrite in_app_iff, !in_map_iff. split.
    + intros [(n & Hb & Hn) | (p & Hb & Hp)].
      * apply objs_part_in in Hn. destruct Hn as (H1 & H2 & H3 & H4).
        exists n. splits; auto.
        rewrite (gcomponent_id _ H3). rewrite <- Hb. symmetry. now apply (objs_part_base objs path).
      * apply prefixes_part_in in Hp. destruct Hp as (n & H1 & H2 & H3 & ->).
        assert (Hne : n <> bpath).
        { intros ->. unfold rest_of in H3. rewrite skipn_all in H3. discriminate. }
        exists n. splits; auto. rewrite <- Hb. symmetry.
        apply prefixes_part_base; [exact H3 | now apply Hwf].
    + intros (k & H1 & H2 & H3 & H4).
      destruct (has_slash (rest_of bpath k)) eqn:Es.
      * right. exists (bpath ++ upto_slash (rest_of bpath k)). split.
        -- rewrite <- H4. apply prefixes_part_base; [exact Es | now apply Hwf].
        -- apply prefixes_part_in. exists k. auto.
      * left. exists k. split.
        -- rewrite <- H4, (gcomponent_id _ Es). now apply (objs_part_base objs path).
        -- apply objs_part_in. auto.
  - apply NoDup_app'.
    + apply NoDup_map_inj_in.
      * apply NoDup_filter. unfold page_objs. apply NoDup_filter. unfold names_under. apply NoDup_filter.
        unfold names_sorted. eapply Permutation_NoDup; [symmetry; apply sort_by_perm | exact Hnd].
      * intros x y Hx Hy Hxy. apply objs_part_in in Hx. apply objs_part_in in Hy.
        destruct Hx as (_ & X2 & X3 & X4). destruct Hy as (_ & Y2 & Y3 & Y4).
        rewrite (objs_part_base objs path x X2 X3 X4), (objs_part_base objs path y Y2 Y3 Y4) in Hxy. fold bpath in Hxy.
        rewrite (under_decomp bpath x X2), (under_decomp bpath y Y2). now rewrite Hxy.
    + apply NoDup_map_inj_in.
      * unfold page_prefixes. eapply Permutation_NoDup; [symmetry; apply sort_by_perm | apply gdedup_nodup].
      * intros x y Hx Hy Hxy. apply prefixes_part_in in Hx. apply prefixes_part_in in Hy.
        destruct Hx as (n & X1 & X2 & X3 & ->). destruct Hy as (m & Y1 & Y2 & Y3 & ->).
        assert (Hn : n <> bpath) by (intros ->; unfold rest_of in X3; rewrite skipn_all in X3; discriminate).
        assert (Hm : m <> bpath) by (intros ->; unfold rest_of in Y3; rewrite skipn_all in Y3; discriminate).
        pose proof (prefixes_part_base path _ X3 (Hwf n X1 X2 Hn)) as Bx. fold bpath in Bx.
        pose proof (prefixes_part_base path _ Y3 (Hwf m Y1 Y2 Hm)) as By. fold bpath in By.
        rewrite Bx, By in Hxy.
        now rewrite (upto_slash_comp _ X3), (upto_slash_comp _ Y3), Hxy.
    + intros c Hc1 Hc2. apply in_map_iff in Hc1. apply in_map_iff in Hc2.
      destruct Hc1 as (n & Hb1 & Hn). destruct Hc2 as (p & Hb2 & Hp).
      apply objs_part_in in Hn. destruct Hn as (N1 & N2 & N3 & N4).
      apply prefixes_part_in in Hp. destruct Hp as (m & M1 & M2 & M3 & ->).
      assert (Hm : m <> bpath) by (intros ->; unfold rest_of in M3; rewrite skipn_all in M3; discriminate).
      rewrite (objs_part_base objs path n N2 N3 N4) in Hb1.
      pose proof (prefixes_part_base path _ M3 (Hwf m M1 M2 Hm)) as Bm. fold bpath in Bm. rewrite Bm in Hb2.
      fold bpath in Hb1, Hb2. apply (Hsep n m N1 M1 N2 M2 N3 M3). now rewrite Hb1, Hb2.
Qed.

(* readdirImpl (patched) on a freshly opened folder handle *)
Lemma readdir_impl_fresh bkt (objs : gstore) name path own count :
  let r := mkR name bkt path 0 0 None None in
  new_file_info bkt objs name = inr own -> gi_dir own = true ->
  split_name (ensure_trailing name) = (bkt, path ++ [SLASH]) ->
  readdir_impl cfg_patched bkt objs r count =
  (objs, r, map info_of_lentry (kept objs (path ++ [SLASH])),
   match kept objs (path ++ [SLASH]) with [] => if count <=? 0 then None else Some GEOF | _ => None end).
Proof.
  intros r Hinfo Hdir Hs. unfold readdir_impl, gf_stat.
  rewrite (close_io_fresh bkt objs r eq_refl eq_refl). cbn [r r_name]. rewrite Hinfo, Hdir. cbn [negb].
  rewrite Hs. cbn [fix_d19 cfg_patched]. fold (kept objs (path ++ [SLASH])).
  destruct (kept objs (path ++ [SLASH])); reflexivity.
Qed.

(* C20: listing a folder (Readdir with count <= 0, patched code) returns its immediate children, once each *)
Theorem listing_once_each bkt (objs : gstore) name path own count :
  let bpath := path ++ [SLASH] in
  let r := mkR name bkt path 0 0 None None in
  new_file_info bkt objs name = inr own -> gi_dir own = true ->
  split_name (ensure_trailing name) = (bkt, bpath) ->
  layout_ok objs bpath -> count <= 0 ->
  exists l, gf_readdir cfg_patched bkt objs r count = (objs, r, LList l None) /\
            (forall c, In c (map gi_base l) <-> is_child objs bpath c) /\ NoDup (map gi_base l).
Proof.
  intros bpath r Hinfo Hdir Hs Hlo Hc.
  unfold gf_readdir. unfold r. rewrite (readdir_impl_fresh bkt objs name path own count Hinfo Hdir Hs).
  replace (0 <? count) with false by (symmetry; apply Z.ltb_ge; lia).
  replace (count <=? 0) with true by (symmetry; apply Z.leb_le; lia).
  set (l0 := map info_of_lentry (kept objs (path ++ [SLASH]))).
  set (sorted := sort_by (fun a b => bltb (gi_base a) (gi_base b)) l0).
  exists sorted. split.
  { destruct (kept objs (path ++ [SLASH])); reflexivity. }
  assert (P : Permutation (map gi_base sorted) (kept_names objs bpath)).
  { unfold kept_names. fold l0. apply Permutation_map. apply sort_by_perm. }
  destruct (kept_names_children objs path Hlo) as (Hin & Hnd). fold bpath in Hin, Hnd.
  split.
  - intros c. rewrite <- Hin. split; apply Permutation_in; [exact P | symmetry; exact P].
  - eapply Permutation_NoDup; [symmetry; exact P | exact Hnd].
Qed.

(* C20: a folder that has a child cannot be removed by Remove (patched code), the bucket stays as it was *)
Theorem remove_refused_when_child bkt g name path own c :
  let bpath := path ++ [SLASH] in
  norm_name name = name -> name <> [] -> split_name name = (bkt, path) ->
  new_file_info bkt (g_objs g) name = inr own -> gi_dir own = true ->
  split_name (ensure_trailing name) = (bkt, bpath) ->
  layout_ok (g_objs g) bpath -> is_child (g_objs g) bpath c ->
  exists g', fs_remove cfg_patched bkt g name = (g', UErr GENOTEMPTY) /\ g_objs g' = g_objs g.
Proof.
  intros bpath Hn Hne Hs Hinfo Hdir Hs' Hlo Hch.
  destruct (kept_names_children (g_objs g) path Hlo) as (Hin & _). fold bpath in Hin.
  apply Hin in Hch.
  assert (Hk : kept (g_objs g) bpath <> []).
  { intros E. unfold kept_names in Hch. rewrite E in Hch. exact Hch. }
  eapply (remove_nonempty_refused cfg_patched bkt g name path own
            (map info_of_lentry (kept (g_objs g) bpath)) Hn Hne Hs Hinfo Hdir).
  - cbv zeta. rewrite (readdir_impl_fresh bkt (g_objs g) name path own 0 Hinfo Hdir Hs'). fold bpath.
    destruct (kept (g_objs g) bpath); [contradiction | reflexivity].
  - destruct (kept (g_objs g) bpath); [contradiction | discriminate].
Qed.

(* ------------------------------------------------------------------ RemoveAll *)
(* on an object: exactly that object goes *)
Theorem removeall_file c bkt fuel g name path (d : bytes) :
  norm_name name = name -> name <> [] -> split_name name = (bkt, path) -> path <> [] ->
  alist_get path (g_objs g) = Some d ->
  exists g', fs_remove_all c bkt (S fuel) g name = (g', UOk) /\ g_objs g' = alist_del path (g_objs g).
Proof.
  intros Hn Hne Hs Hp Hg.
  assert (Hinfo : new_file_info bkt (g_objs g) name = inr (mkGI name false (zlen d))).
  { unfold new_file_info. rewrite Hs. unfold get_bucket. rewrite beqb_refl.
    unfold o_attrs, o_check. rewrite beqb_refl. cbn [negb].
    destruct path; [contradiction|]. cbn [is_empty]. now rewrite Hg. }
  cbn [fs_remove_all]. rewrite Hn.
  unfold gvalidate. destruct name as [|ch name']; [contradiction|]. cbn [is_empty].
  set (name := ch :: name') in *.
  unfold fs_stat at 1. rewrite Hn. unfold gvalidate. cbn [name is_empty]. fold name.
  rewrite Hinfo. cbn [gi_dir negb].
  unfold fs_remove. rewrite Hn. unfold gvalidate. cbn [name is_empty]. fold name.
  unfold get_obj. rewrite Hs. cbn [fst]. unfold get_bucket. rewrite beqb_refl.
  unfold fs_stat. rewrite Hn. unfold gvalidate. cbn [name is_empty]. fold name.
  rewrite Hinfo. cbn [gi_dir g_objs].
  unfold o_delete, o_check. rewrite beqb_refl. cbn [negb].
  destruct path; [contradiction|]. cbn [is_empty]. rewrite Hg.
  eexists. split; reflexivity.
Qed.

(* ------------------------------------------------------------------ OpenFile establishes the session of data_exact *)
Lemma rdwr_bits : (o_rdwr =? o_rdonly) = false /\ (Z.land o_rdwr o_trunc =? 0) = true /\
                  (Z.land o_rdwr o_append =? 0) = true /\ (Z.land o_rdwr o_create =? 0) = true.
Proof. repeat split; reflexivity. Qed.

(* OpenFile(name, O_RDWR) on an existing object that has no cached resource: the bucket is untouched,
   the new handle and its fresh resource satisfy every hypothesis of data_exact (position 0, writable) *)
Theorem open_establishes_session bkt g name path (d : bytes) :
  norm_name name = name -> name <> [] -> split_name name = (bkt, path) -> path <> [] ->
  alist_get name (g_raw g) = None -> alist_get path (g_objs g) = Some d ->
  exists g' h r,
    fs_open_file bkt g name o_rdwr = (g', inr h) /\ g_objs g' = g_objs g /\
    nth_error (g_res g') (h_res h) = Some r /\
    rvalid bkt r /\ r_reader r = None /\ r_writer r = None /\ r_path r = path /\
    h_closed h = false /\ h_off h = 0 /\ (h_flags h =? o_rdonly) = false.
Proof.
  intros Hn Hne Hs Hp Hraw Hg.
  destruct rdwr_bits as (B1 & B2 & B3 & B4).
  unfold fs_open_file. rewrite Hn.
  unfold gvalidate. destruct name as [|c name']; [contradiction|]. cbn [is_empty].
  set (name := c :: name') in *.
  rewrite Hraw. unfold get_obj. rewrite Hs. cbn [fst]. unfold get_bucket. rewrite beqb_refl.
  unfold galloc, new_resource. rewrite Hs. rewrite B1, B2, B3, B4. cbn [negb].
  eexists _, _, (mkR name bkt path 0 0 None None). split; [reflexivity|].
  cbn [g_objs g_res h_res h_closed h_off h_flags r_reader r_writer r_path].
  splits; auto.
  - apply nth_error_snoc.
  - unfold rvalid. cbn. auto.
Qed.
