(* Proofs/RegexpProof.v — C13: RegexpFs over ANY inner filesystem and ANY matcher.
   - a call naming a non-matching non-directory is refused and the inner filesystem sees at most
     the Stat probe (exact equation, then corollaries);
   - a call naming a directory or a matching file is forwarded unchanged after the probe;
   - listings of handles returned by Open (and by OpenFile when it wraps) are filtered;
   - instance: MemMapFs as the inner filesystem (the probe leaves what it holds unchanged). *)
From AF Require Import Lib.Bytes Lib.Path Lib.Ops Gen.Consts Model.MemFile Model.MemFs Model.ReadOnly
  Model.Regexp Model.Stack Proofs.MemFsBasics.
Local Open Scope Z_scope.

(* ---- a copy of re_step with the source switch "OpenFile wraps its result" as an argument;
        re_step is this function at the value regenerated from regexpfs.go ---- *)
Section Switch.
Context {St : Type} (inner : St -> op -> St * res).
Variable m : str -> bool.

Definition re_fwd (s : St) (w : list nat) (o : op) : (St * list nat) * res :=
  let '(s', r) := inner s o in ((s', w), r).
Definition re_wrap (w : list nat) (x : St * res) : (St * list nat) * res :=
  match x with
  | (s', RHandle h) => ((s', h :: w), RHandle h)
  | (s', r) => ((s', w), r)
  end.

Definition re_step_sw (sw : bool) (st : St * list nat) (o : op) : (St * list nat) * res :=
  let '(s, w) := st in
  let gated (name : str) :=
    match dir_or_matches inner m s name with
    | (s', Some e) => ((s', w), RErr e)
    | (s', None) => re_fwd s' w o
    end in
  match o with
  | Chtimes p _ | Chmod p _ | Chown p _ _ | Stat p | Remove p => gated p
  | OpenFile p _ _ =>
    match dir_or_matches inner m s p with
    | (s', Some e) => ((s', w), RErr e)
    | (s', None) => if sw then re_wrap w (inner s' o) else re_fwd s' w o
    end
  | Rename p q =>
    match is_dir inner s p with
    | (s', inr e) => ((s', w), RErr e)
    | (s', inl true) => ((s', w), ROk)
    | (s', inl false) =>
      if negb (m p) then ((s', w), eNOENT)
      else if negb (m q) then ((s', w), eNOENT)
      else re_fwd s' w o
    end
  | RemoveAll p =>
    match is_dir inner s p with
    | (s', inr e) => ((s', w), RErr e)
    | (s', inl d) => if negb d && negb (m p) then ((s', w), eNOENT) else re_fwd s' w o
    end
  | Open p =>
    match is_dir inner s p with
    | (s', inr e) => ((s', w), RErr e)
    | (s', inl d) => if negb d && negb (m p) then ((s', w), eNOENT) else re_wrap w (inner s' o)
    end
  | Mkdir _ _ | MkdirAll _ _ => re_fwd s w o
  | Create p => if m p then re_fwd s w o else ((s, w), eNOENT)
  | HReaddir h n =>
    if existsb (Nat.eqb h) w then
      let '(s', r) := re_readdir inner m re_fuel s h n in ((s', w), r)
    else re_fwd s w o
  | HReaddirnames h n =>
    if existsb (Nat.eqb h) w then
      match re_readdir inner m re_fuel s h n with
      | (s', RInfos l e) => ((s', w), RNames (map fi_name l) e)
      | (s', r) => ((s', w), r)
      end
    else re_fwd s w o
  | _ => re_fwd s w o
  end.

Lemma re_step_is_sw st o : re_step inner m st o = re_step_sw (regexp_openfile_wraps =? 1) st o.
Proof. destruct st as [s w]. destruct o; reflexivity. Qed.

(* ---- what the Stat probe says ---- *)
Definition stat_res (s : St) (p : str) : res := snd (inner s (Stat p)).
Definition after_stat (s : St) (p : str) : St := fst (inner s (Stat p)).

(* the inner filesystem reports a directory *)
Definition reports_dir (s : St) (p : str) : Prop := exists fi, stat_res s p = RInfo fi /\ fi_dir fi = true.
(* it reports a non-directory, or nothing at all *)
Definition not_dir (s : St) (p : str) : Prop := forall fi, stat_res s p = RInfo fi -> fi_dir fi = false.
(* a name the filter hides: non-matching and not a directory (a regular file, or missing) *)
Definition hidden (s : St) (p : str) : Prop := m p = false /\ not_dir s p.
(* a name the filter shows: it exists and is a directory or matches *)
Definition visible (s : St) (p : str) : Prop :=
  exists fi, stat_res s p = RInfo fi /\ (fi_dir fi = true \/ m p = true).

(* the error of a refusal: the probe's own error, else ENOENT *)
Definition probe_err (s : St) (p : str) : err :=
  match stat_res s p with RErr e => e | RInfo _ => E KENOENT | _ => E KOther end.

Lemma is_dir_spec s p :
  is_dir inner s p =
  (after_stat s p, match stat_res s p with RInfo fi => inl (fi_dir fi) | RErr e => inr e | _ => inr (E KOther) end).
Proof.
  unfold is_dir, after_stat, stat_res. destruct (inner s (Stat p)) as [s' r]. destruct r; reflexivity.
Qed.

Lemma dom_hidden s p : hidden s p -> dir_or_matches inner m s p = (after_stat s p, Some (probe_err s p)).
Proof.
  intros [Hm Hn]. unfold dir_or_matches, probe_err. rewrite is_dir_spec.
  unfold not_dir in Hn. destruct (stat_res s p) as [| | |e| |fi| | | | | |]; try reflexivity.
  rewrite (Hn fi eq_refl), Hm. reflexivity.
Qed.

Lemma dom_visible s p : visible s p -> dir_or_matches inner m s p = (after_stat s p, None).
Proof.
  intros [fi [Hs Hv]]. unfold dir_or_matches. rewrite is_dir_spec, Hs.
  destruct (fi_dir fi); [reflexivity|]. destruct Hv as [Hv|Hv]; [discriminate | now rewrite Hv].
Qed.

(* ---- 1. hidden names are never forwarded ---- *)
Definition gated_path (o : op) : option str :=
  match o with
  | OpenFile p _ _ | Open p | Remove p | RemoveAll p | Chmod p _ | Chown p _ _ | Chtimes p _ | Stat p => Some p
  | _ => None
  end.

(* the op names (in the role the property speaks about) a non-matching non-directory *)
Definition names_hidden (s : St) (o : op) : Prop :=
  match o with
  | Create p => m p = false                                   (* would create a non-matching file *)
  | Rename p q => not_dir s p /\ (m p = false \/ m q = false)   (* renamed from / to a non-matching name *)
  | _ => match gated_path o with Some p => hidden s p | None => False end
  end.

(* what the filter answers then: an error, the inner filesystem having seen at most Stat *)
Definition refusal (s : St) (w : list nat) (o : op) : (St * list nat) * res :=
  match o with
  | Create _ => ((s, w), RErr (E KENOENT))
  | Rename p _ => ((after_stat s p, w), RErr (probe_err s p))
  | _ => match gated_path o with
         | Some p => ((after_stat s p, w), RErr (probe_err s p))
         | None => ((s, w), RErr (E KENOENT))
         end
  end.

Theorem re_hidden_refused sw s w o : names_hidden s o -> re_step_sw sw (s, w) o = refusal s w o.
Proof.
  intros H. destruct o; cbn [names_hidden gated_path] in H; try contradiction;
    cbn [re_step_sw refusal gated_path].
  - (* Create *) now rewrite H.
  - (* Open *) destruct H as [Hm Hn]. rewrite is_dir_spec. unfold probe_err. unfold not_dir in Hn.
    destruct (stat_res s p) as [| | |e| |fi| | | | | |]; try reflexivity.
    rewrite (Hn fi eq_refl), Hm. reflexivity.
  - (* OpenFile *) now rewrite (dom_hidden s p H).
  - (* Remove *) now rewrite (dom_hidden s p H).
  - (* RemoveAll *) destruct H as [Hm Hn]. rewrite is_dir_spec. unfold probe_err. unfold not_dir in Hn.
    destruct (stat_res s p) as [| | |e| |fi| | | | | |]; try reflexivity.
    rewrite (Hn fi eq_refl), Hm. reflexivity.
  - (* Rename *) destruct H as [Hn Hm]. rewrite is_dir_spec. unfold probe_err. unfold not_dir in Hn.
    destruct (stat_res s p) as [| | |e| |fi| | | | | |]; try reflexivity.
    rewrite (Hn fi eq_refl). destruct Hm as [Hm|Hm]; rewrite Hm; [reflexivity|].
    destruct (m p); reflexivity.
  - (* Stat *) now rewrite (dom_hidden s p H).
  - (* Chmod *) now rewrite (dom_hidden s p H).
  - (* Chown *) now rewrite (dom_hidden s p H).
  - (* Chtimes *) now rewrite (dom_hidden s p H).
Qed.

(* the refusal is an error, returns no handle, and the error is ENOENT or the probe's *)
Lemma refusal_is_error s w o :
  exists e, snd (refusal s w o) = RErr e /\
            (e = E KENOENT \/ e = E KOther \/ exists p, stat_res s p = RErr e).
Proof.
  assert (Hp : forall p, probe_err s p = E KENOENT \/ probe_err s p = E KOther \/ exists q, stat_res s q = RErr (probe_err s p)).
  { intros p. unfold probe_err. destruct (stat_res s p) eqn:Hs; auto. right; right. now exists p. }
  destruct o; cbn [refusal gated_path snd]; eauto.
Qed.

(* ... and the inner filesystem has seen nothing but (at most) one Stat *)
Lemma refusal_state s w o :
  snd (fst (refusal s w o)) = w /\
  (fst (fst (refusal s w o)) = s \/ exists p, fst (fst (refusal s w o)) = fst (inner s (Stat p))).
Proof.
  destruct o; cbn [refusal gated_path fst snd]; (split; [reflexivity|]); auto; right; eexists; reflexivity.
Qed.

(* predicate-preservation form: whatever Stat preserves, a refused call preserves *)
Theorem re_hidden_preserves sw (P : St -> Prop) :
  (forall s p, P s -> P (fst (inner s (Stat p)))) ->
  forall s w o, names_hidden s o -> P s -> P (fst (fst (re_step_sw sw (s, w) o))).
Proof.
  intros HP s w o Hh Hs. rewrite (re_hidden_refused sw s w o Hh).
  destruct (refusal_state s w o) as [_ [-> | [p ->]]]; [exact Hs | now apply HP].
Qed.

(* Rename of a directory: answered "ok" without forwarding anything (observation) *)
Lemma re_rename_dir_noop sw s w p q :
  reports_dir s p -> re_step_sw sw (s, w) (Rename p q) = ((after_stat s p, w), ROk).
Proof.
  intros [fi [Hs Hd]]. cbn [re_step_sw]. rewrite is_dir_spec, Hs, Hd. reflexivity.
Qed.

(* hence a Rename whose target name does not match is never forwarded, whatever the source is *)
Lemma re_rename_to_nonmatching_not_forwarded sw s w p q :
  m q = false -> fst (re_step_sw sw (s, w) (Rename p q)) = (after_stat s p, w).
Proof.
  intros Hq. cbn [re_step_sw]. rewrite is_dir_spec.
  destruct (stat_res s p) as [| | |e| |fi| | | | | |]; try reflexivity.
  destruct (fi_dir fi); [reflexivity|]. rewrite Hq. destruct (m p); reflexivity.
Qed.

(* ---- 2. directories and matching files: forwarded unchanged after the probe ---- *)
Theorem re_visible_forwarded sw s w o p :
  gated_path o = Some p -> visible s p ->
  fst (fst (re_step_sw sw (s, w) o)) = fst (inner (after_stat s p) o) /\
  snd (re_step_sw sw (s, w) o) = snd (inner (after_stat s p) o).
Proof.
  intros Hg Hv. pose proof (dom_visible s p Hv) as Hd. destruct Hv as [fi [Hs Hv]].
  assert (Hx : negb (fi_dir fi) && negb (m p) = false).
  { destruct (fi_dir fi); [reflexivity|]. destruct Hv as [Hv|Hv]; [discriminate | now rewrite Hv]. }
  destruct o; cbn [gated_path] in Hg; try discriminate; inversion Hg; subst; cbn [re_step_sw];
    try (rewrite Hd; unfold re_fwd; destruct (inner (after_stat s p) _) as [s2 r]; now split).
  - (* Open *) rewrite is_dir_spec, Hs, Hx. unfold re_wrap.
    destruct (inner (after_stat s p) (Open p)) as [s2 r]. destruct r; now split.
  - (* OpenFile *) rewrite Hd. destruct sw; unfold re_wrap, re_fwd;
      destruct (inner (after_stat s p) (OpenFile p flag perm)) as [s2 r]; [destruct r|]; now split.
  - (* RemoveAll *) rewrite is_dir_spec, Hs, Hx. unfold re_fwd.
    destruct (inner (after_stat s p) (RemoveAll p)) as [s2 r]. now split.
Qed.

Corollary re_dirs_never_hidden sw s w o p :
  gated_path o = Some p -> reports_dir s p ->
  fst (fst (re_step_sw sw (s, w) o)) = fst (inner (after_stat s p) o) /\
  snd (re_step_sw sw (s, w) o) = snd (inner (after_stat s p) o).
Proof.
  intros Hg [fi [Hs Hd]]. apply re_visible_forwarded; [exact Hg|]. exists fi. auto.
Qed.

Lemma re_create_matching sw s w p : m p = true -> re_step_sw sw (s, w) (Create p) = re_fwd s w (Create p).
Proof. intros H. cbn [re_step_sw]. now rewrite H. Qed.

Lemma re_rename_matching sw s w p q fi :
  stat_res s p = RInfo fi -> fi_dir fi = false -> m p = true -> m q = true ->
  re_step_sw sw (s, w) (Rename p q) = re_fwd (after_stat s p) w (Rename p q).
Proof. intros Hs Hd Hp Hq. cbn [re_step_sw]. rewrite is_dir_spec, Hs, Hd, Hp, Hq. reflexivity. Qed.

Lemma re_mkdir_forwarded sw s w o :
  match o with Mkdir _ _ | MkdirAll _ _ => True | _ => False end -> re_step_sw sw (s, w) o = re_fwd s w o.
Proof. destruct o; intros H; try contradiction; reflexivity. Qed.

(* reads and writes through a handle the filter returned are the inner filesystem's own *)
Definition plain_handle_op (o : op) : bool :=
  match o with
  | HRead _ _ | HReadAt _ _ _ | HWrite _ _ | HWriteAt _ _ _ | HWriteString _ _ | HSeek _ _ _
  | HTruncate _ _ | HClose _ | HStat _ | HName _ | HSync _ => true
  | _ => false
  end.
Lemma re_handle_ops_transparent sw s w o : plain_handle_op o = true -> re_step_sw sw (s, w) o = re_fwd s w o.
Proof. destruct o; intros H; try discriminate; reflexivity. Qed.

(* ---- 3. listings ---- *)
Definition shown (fi : finfo) : Prop := fi_dir fi = true \/ m (fi_name fi) = true.

Lemma filter_infos_shown l : Forall shown (filter_infos m l).
Proof.
  unfold filter_infos. apply Forall_forall. intros fi Hin. apply filter_In in Hin as [_ H].
  unfold shown. apply orb_true_iff in H. exact H.
Qed.

Lemma filter_infos_incl l fi : In fi (filter_infos m l) -> In fi l.
Proof. unfold filter_infos. intros H. now apply filter_In in H. Qed.

(* every non-hidden entry of the inner listing stays: the filter removes nothing else *)
Lemma filter_infos_keeps l fi : In fi l -> shown fi -> In fi (filter_infos m l).
Proof.
  unfold filter_infos, shown. intros Hin H. apply filter_In. split; [exact Hin|]. now apply orb_true_iff.
Qed.

(* a listing result whose every entry is a directory or matches *)
Definition listing_filtered (r : res) : Prop :=
  match r with
  | RInfos l _ => Forall shown l
  | RNames l _ => exists infos, Forall shown infos /\ l = map fi_name infos
  | _ => True
  end.

(* the inner filesystem answers Readdir with infos or an error, never with a list of names *)
Definition readdir_shape : Prop :=
  forall s h n, match snd (inner s (HReaddir h n)) with RNames _ _ => False | _ => True end.

(* ---- RegexpFile.Readdir = re_readdir: a run of inner Readdir(n) calls ----
   whatever the value of the refill switch and whatever the fuel: some (possibly no) pages that the
   inner filesystem answered with a nil error were dropped, each of them holding nothing the filter
   shows; then the answer to the next inner Readdir(n) is the one returned, filtered *)
Definition last_answer (r : res) : res :=
  match r with
  | RInfos l None => RInfos (filter_infos m l) None
  | RInfos l (Some e) => RInfos [] (Some e)
  | r => r
  end.

Inductive dropped_pages (h : nat) (n : Z) : St -> list (list finfo) -> St -> Prop :=
| dp_nil s : dropped_pages h n s [] s
| dp_cons s l s1 ps s' :
    inner s (HReaddir h n) = (s1, RInfos l None) -> filter_infos m l = [] ->
    dropped_pages h n s1 ps s' -> dropped_pages h n s (l :: ps) s'.

Lemma re_readdir_spec : forall fuel s h n,
  exists ps s1 s' r0, dropped_pages h n s ps s1 /\ inner s1 (HReaddir h n) = (s', r0) /\
    re_readdir inner m fuel s h n = (s', last_answer r0).
Proof.
  induction fuel as [|f IH]; intros s h n; cbn [re_readdir];
    destruct (inner s (HReaddir h n)) as [s' r] eqn:E.
  - exists [], s, s', r. split; [constructor|]. split; [exact E|].
    destruct r as [| | | | | | | | |l e| |]; try reflexivity. destruct e as [e|]; [reflexivity|].
    cbn [last_answer]. destruct (negb (regexp_readdir_refills =? 1)); [reflexivity|].
    destruct ((n <=? 0) || negb (match filter_infos m l with [] => true | _ => false end)
              || (match l with [] => true | _ => false end)) eqn:C; [reflexivity|].
    apply orb_false_iff in C as [C _]. apply orb_false_iff in C as [_ C]. apply negb_false_iff in C.
    destruct (filter_infos m l); [reflexivity | discriminate].
  - destruct r as [| | | | | | | | |l e| |];
      try (exists [], s, s'; eexists; split; [constructor|]; split; [exact E|]; reflexivity).
    destruct e as [e|]; [exists [], s, s'; eexists; split; [constructor|]; split; [exact E|]; reflexivity|].
    destruct (negb (regexp_readdir_refills =? 1));
      [exists [], s, s'; eexists; split; [constructor|]; split; [exact E|]; reflexivity|].
    destruct ((n <=? 0) || negb (match filter_infos m l with [] => true | _ => false end)
              || (match l with [] => true | _ => false end)) eqn:C;
      [exists [], s, s'; eexists; split; [constructor|]; split; [exact E|]; reflexivity|].
    apply orb_false_iff in C as [C _]. apply orb_false_iff in C as [_ C]. apply negb_false_iff in C.
    assert (Hfl : filter_infos m l = []) by (destruct (filter_infos m l); [reflexivity | discriminate]).
    destruct (IH s' h n) as [ps [s1 [s2 [r0 [Hd [Hi Hr]]]]]].
    exists (l :: ps), s1, s2, r0. split; [econstructor; eauto|]. split; [exact Hi | exact Hr].
Qed.

Lemma filter_infos_app a b : filter_infos m (a ++ b) = filter_infos m a ++ filter_infos m b.
Proof. unfold filter_infos. apply filter_app. Qed.

Lemma dropped_pages_hidden h n s ps s' : dropped_pages h n s ps s' -> filter_infos m (concat ps) = [].
Proof.
  induction 1 as [|s l s1 ps s' Hi Hf Hd IH]; [reflexivity|].
  cbn [concat]. now rewrite filter_infos_app, Hf, IH.
Qed.

(* consecutive nil-error answers of the inner Readdir(n) on handle h, from state s to state s' *)
Inductive pages_read (h : nat) (n : Z) : St -> list (list finfo) -> St -> Prop :=
| pr_last s l s' : inner s (HReaddir h n) = (s', RInfos l None) -> pages_read h n s [l] s'
| pr_more s l s1 ps s' :
    inner s (HReaddir h n) = (s1, RInfos l None) -> pages_read h n s1 ps s' -> pages_read h n s (l :: ps) s'.

Lemma dropped_then_read h n s ps s1 l s' :
  dropped_pages h n s ps s1 -> inner s1 (HReaddir h n) = (s', RInfos l None) -> pages_read h n s (ps ++ [l]) s'.
Proof.
  induction 1 as [|s l0 s1 ps s2 Hi Hf Hd IH]; intros Hl; cbn [app].
  - now apply pr_last.
  - eapply pr_more; [exact Hi | now apply IH].
Qed.

(* a nil-error listing is exactly the filter applied to the concatenation of the pages read:
   everything in it is shown, and nothing that is shown was removed *)
Theorem re_readdir_pages fuel s h n s' out :
  re_readdir inner m fuel s h n = (s', RInfos out None) ->
  exists pages, pages_read h n s pages s' /\ out = filter_infos m (concat pages) /\
    forall fi, In fi (concat pages) -> shown fi -> In fi out.
Proof.
  intros H. destruct (re_readdir_spec fuel s h n) as [ps [s1 [s2 [r0 [Hd [Hi Hr]]]]]].
  rewrite Hr in H. destruct r0 as [| | | | | | | | |l e| |]; cbn [last_answer] in H; try discriminate.
  destruct e as [e|]; [discriminate|]. inversion H; subst s2 out.
  exists (ps ++ [l]). split; [eapply dropped_then_read; eauto|].
  assert (Heq : filter_infos m l = filter_infos m (concat (ps ++ [l]))).
  { rewrite concat_app, filter_infos_app, (dropped_pages_hidden _ _ _ _ _ Hd). cbn [concat app].
    now rewrite app_nil_r. }
  split; [exact Heq|]. intros fi Hin Hs. rewrite Heq. now apply filter_infos_keeps.
Qed.

(* an error from the inner Readdir comes back with no entries *)
Lemma re_readdir_error fuel s h n s' out e :
  re_readdir inner m fuel s h n = (s', RInfos out (Some e)) -> out = [].
Proof.
  intros H. destruct (re_readdir_spec fuel s h n) as [ps [s1 [s2 [r0 [Hd [Hi Hr]]]]]].
  rewrite Hr in H. destruct r0 as [| | | | | | | | |l e0| |]; cbn [last_answer] in H; try discriminate.
  destruct e0; inversion H; reflexivity.
Qed.

(* the refill loop (switch on): for n > 0, an empty nil-error answer means that the inner filesystem's
   last page was itself empty — or that fuel + 1 pages in a row held nothing the filter shows *)
Lemma re_readdir_refills : regexp_readdir_refills = 1 -> forall fuel s h n s',
  0 < n -> re_readdir inner m fuel s h n = (s', RInfos [] None) ->
  exists ps s1 l, dropped_pages h n s ps s1 /\ inner s1 (HReaddir h n) = (s', RInfos l None) /\
    (l = [] \/ (length ps = fuel /\ filter_infos m l = [])).
Proof.
  intros Hc. induction fuel as [|f IH]; intros s h n s' Hn; cbn [re_readdir]; rewrite Hc; cbn [Z.eqb Pos.eqb negb];
    destruct (inner s (HReaddir h n)) as [s1 r] eqn:E;
    (destruct r as [| | | | | | | | |l e| |]; try discriminate); (destruct e as [e|]; [discriminate|]);
    (replace (n <=? 0) with false by (symmetry; apply Z.leb_gt; exact Hn)); cbn [orb];
    destruct (filter_infos m l) as [|x fl] eqn:Hf; cbn [negb orb].
  - destruct l as [|y l]; intros H; inversion H; subst s1;
      exists [], s; eexists; (split; [constructor|]); (split; [exact E|]); [left|right]; auto.
  - intros H; inversion H.
  - destruct l as [|y l].
    + intros H; inversion H; subst s1. exists [], s, []. split; [constructor|]. split; [exact E|]. now left.
    + intros H. destruct (IH s1 h n s' Hn H) as [ps [s2 [l2 [Hd [Hi Ho]]]]].
      exists ((y :: l) :: ps), s2, l2. split; [econstructor; eauto|]. split; [exact Hi|].
      destruct Ho as [Ho|[Ho1 Ho2]]; [now left | right]. split; [cbn [length]; now rewrite Ho1 | exact Ho2].
  - intros H; inversion H.
Qed.

Lemma re_readdir_filtered : readdir_shape -> forall fuel s h n,
  match snd (re_readdir inner m fuel s h n) with
  | RInfos l _ => Forall shown l
  | RNames _ _ => False
  | _ => True
  end.
Proof.
  intros Hshape fuel s h n. destruct (re_readdir_spec fuel s h n) as [ps [s1 [s2 [r0 [Hd [Hi Hr]]]]]].
  rewrite Hr. cbn [snd]. pose proof (Hshape s1 h n) as Hs. rewrite Hi in Hs. cbn [snd] in Hs.
  destruct r0 as [| | | | | | | | |l e|l e|]; cbn [last_answer]; try exact I; [|exact Hs].
  destruct e; [constructor | apply filter_infos_shown].
Qed.

Theorem re_wrapped_listing_filtered sw s w o h :
  readdir_shape -> op_handle_of o = Some h -> In h w ->
  match o with HReaddir _ _ | HReaddirnames _ _ => True | _ => False end ->
  listing_filtered (snd (re_step_sw sw (s, w) o)).
Proof.
  intros Hshape Hh Hin Ho.
  assert (Hex : existsb (Nat.eqb h) w = true).
  { apply existsb_exists. exists h. split; [exact Hin | apply Nat.eqb_refl]. }
  destruct o; try contradiction; cbn [op_handle_of] in Hh; inversion Hh; subst h0; cbn [re_step_sw]; rewrite Hex;
    pose proof (re_readdir_filtered Hshape re_fuel s h n) as Hf;
    destruct (re_readdir inner m re_fuel s h n) as [s' r]; cbn [snd] in Hf.
  - destruct r; cbn [snd listing_filtered]; try exact I; [exact Hf | contradiction].
  - destruct r as [| | | | | | | | |l e|l e|]; cbn [snd listing_filtered]; try exact I; [|contradiction].
    exists l. split; [exact Hf | reflexivity].
Qed.

(* a wrapped handle's Readdir is re_readdir, its Readdirnames the names of the same *)
Lemma re_wrapped_readdir sw s w h n :
  In h w ->
  re_step_sw sw (s, w) (HReaddir h n) = (let '(s', r) := re_readdir inner m re_fuel s h n in ((s', w), r)) /\
  re_step_sw sw (s, w) (HReaddirnames h n) =
    (let '(s', r) := re_readdir inner m re_fuel s h n in
     ((s', w), match r with RInfos l e => RNames (map fi_name l) e | r => r end)).
Proof.
  intros Hin.
  assert (Hex : existsb (Nat.eqb h) w = true).
  { apply existsb_exists. exists h. split; [exact Hin | apply Nat.eqb_refl]. }
  cbn [re_step_sw]. rewrite Hex. split; [reflexivity|].
  destruct (re_readdir inner m re_fuel s h n) as [s' r]. destruct r; reflexivity.
Qed.

(* which handles are RegexpFiles: Open always adds its handle; OpenFile iff the switch is on *)
Lemma re_open_wraps sw s w p s' w' h :
  re_step_sw sw (s, w) (Open p) = ((s', w'), RHandle h) -> In h w'.
Proof.
  cbn [re_step_sw]. rewrite is_dir_spec.
  destruct (stat_res s p) as [| | |e| |fi| | | | | |]; try discriminate.
  destruct (negb (fi_dir fi) && negb (m p)); [discriminate|].
  unfold re_wrap. destruct (inner (after_stat s p) (Open p)) as [s2 r].
  destruct r; intros H; inversion H; subst. now left.
Qed.

Lemma re_openfile_wraps s w p fl perm s' w' h :
  re_step_sw true (s, w) (OpenFile p fl perm) = ((s', w'), RHandle h) -> In h w'.
Proof.
  cbn [re_step_sw]. destruct (dir_or_matches inner m s p) as [s1 [e|]]; [discriminate|].
  unfold re_wrap. destruct (inner s1 (OpenFile p fl perm)) as [s2 r].
  destruct r; intros H; inversion H; subst. now left.
Qed.

Lemma re_wrapped_mono sw s w o h : In h w -> In h (snd (fst (re_step_sw sw (s, w) o))).
Proof.
  intros Hin.
  assert (Hf : forall s0 o0, In h (snd (fst (re_fwd s0 w o0)))).
  { intros s0 o0. unfold re_fwd. destruct (inner s0 o0). exact Hin. }
  assert (Hw : forall x, In h (snd (fst (re_wrap w x)))).
  { intros [s0 r]. unfold re_wrap. destruct r; cbn [fst snd]; auto. now right. }
  assert (Hg : forall name o0, In h (snd (fst (match dir_or_matches inner m s name with
            | (s', Some e) => ((s', w), RErr e) | (s', None) => re_fwd s' w o0 end)))).
  { intros name o0. destruct (dir_or_matches inner m s name) as [s1 [e|]]; [exact Hin | apply Hf]. }
  destruct o; cbn [re_step_sw]; try apply Hf; try apply Hg.
  - destruct (m p); [apply Hf | exact Hin].
  - destruct (is_dir inner s p) as [s1 [d|e]]; [|exact Hin].
    destruct (negb d && negb (m p)); [exact Hin | apply Hw].
  - destruct (dir_or_matches inner m s p) as [s1 [e|]]; [exact Hin|]. destruct sw; [apply Hw | apply Hf].
  - destruct (is_dir inner s p) as [s1 [d|e]]; [|exact Hin].
    destruct (negb d && negb (m p)); [exact Hin | apply Hf].
  - destruct (is_dir inner s p) as [s1 [[|]|e]]; try exact Hin.
    destruct (negb (m p)); [exact Hin|]. destruct (negb (m q)); [exact Hin | apply Hf].
  - destruct (existsb (Nat.eqb h0) w); [|apply Hf].
    destruct (re_readdir inner m re_fuel s h0 n) as [s1 r]. exact Hin.
  - destruct (existsb (Nat.eqb h0) w); [|apply Hf].
    destruct (re_readdir inner m re_fuel s h0 n) as [s1 r]. destruct r; exact Hin.
Qed.

(* handles returned by Open / OpenFile during a run *)
Fixpoint opened_by (ops : list op) (rs : list res) : list nat :=
  match ops, rs with
  | (Open _ | OpenFile _ _ _) :: ops', RHandle h :: rs' => h :: opened_by ops' rs'
  | _ :: ops', _ :: rs' => opened_by ops' rs'
  | _, _ => []
  end.

Lemma re_run_wrapped : forall ops s w h,
  let x := run_steps (re_step_sw true) (s, w) ops in
  In h w \/ In h (opened_by ops (snd x)) -> In h (snd (fst x)).
Proof.
  induction ops as [|o ops IH]; intros s w h; cbn [run_steps].
  - cbn. intros [H|[]]. exact H.
  - destruct (re_step_sw true (s, w) o) as [[s1 w1] r] eqn:E1.
    specialize (IH s1 w1 h). destruct (run_steps (re_step_sw true) (s1, w1) ops) as [[s2 w2] rs] eqn:E2.
    cbn [fst snd] in *. intros H. apply IH. destruct H as [H|H].
    + left. pose proof (re_wrapped_mono true s w o h H) as Hm. now rewrite E1 in Hm.
    + destruct o; cbn [opened_by] in H; try (right; exact H).
      * destruct r; try (right; exact H). destruct H as [<-|H]; [left|right; exact H].
        eapply re_open_wraps. exact E1.
      * destruct r; try (right; exact H). destruct H as [<-|H]; [left|right; exact H].
        eapply re_openfile_wraps. exact E1.
Qed.

(* the property's sentence about listings: after ANY run through the filter, a Readdir /
   Readdirnames on a handle that Open or OpenFile returned during the run lists only
   directories and matching names *)
Theorem re_listing_filtered_run :
  readdir_shape ->
  forall ops s w h n,
  let x := run_steps (re_step_sw true) (s, w) ops in
  In h (opened_by ops (snd x)) ->
  listing_filtered (snd (re_step_sw true (fst x) (HReaddir h n))) /\
  listing_filtered (snd (re_step_sw true (fst x) (HReaddirnames h n))).
Proof.
  intros Hshape ops s w h n x Hin.
  assert (Hw : In h (snd (fst x))) by (apply re_run_wrapped; now right).
  destruct (fst x) as [s2 w2] eqn:Ex. cbn [snd] in Hw.
  split; eapply re_wrapped_listing_filtered; eauto; reflexivity || exact I.
Qed.

End Switch.

(* ---- the same statements about re_step itself ---- *)
Section Model.
Context {St : Type} (inner : St -> op -> St * res).
Variable m : str -> bool.

Theorem re_step_hidden_refused s w o :
  names_hidden inner m s o -> re_step inner m (s, w) o = refusal inner s w o.
Proof. intros H. rewrite re_step_is_sw. now apply re_hidden_refused. Qed.

Theorem re_step_hidden_preserves (P : St -> Prop) :
  (forall s p, P s -> P (fst (inner s (Stat p)))) ->
  forall s w o, names_hidden inner m s o -> P s -> P (fst (fst (re_step inner m (s, w) o))).
Proof. intros HP s w o Hh Hs. rewrite re_step_is_sw. now apply re_hidden_preserves. Qed.

Theorem re_step_visible_forwarded s w o p :
  gated_path o = Some p -> visible inner m s p ->
  fst (fst (re_step inner m (s, w) o)) = fst (inner (after_stat inner s p) o) /\
  snd (re_step inner m (s, w) o) = snd (inner (after_stat inner s p) o).
Proof. intros Hg Hv. rewrite re_step_is_sw. now apply re_visible_forwarded. Qed.

Theorem re_step_dirs_never_hidden s w o p :
  gated_path o = Some p -> reports_dir inner s p ->
  fst (fst (re_step inner m (s, w) o)) = fst (inner (after_stat inner s p) o) /\
  snd (re_step inner m (s, w) o) = snd (inner (after_stat inner s p) o).
Proof. intros Hg Hv. rewrite re_step_is_sw. now apply re_dirs_never_hidden. Qed.

Lemma run_steps_ext {S1} (f g : S1 -> op -> S1 * res) : (forall s o, f s o = g s o) ->
  forall ops s, run_steps f s ops = run_steps g s ops.
Proof.
  intros H. induction ops as [|o ops IH]; intros s; cbn [run_steps]; [reflexivity|].
  rewrite H. destruct (g s o) as [s1 r]. now rewrite IH.
Qed.

(* needs the fact about the source: OpenFile wraps *)
Theorem re_step_listing_filtered_run :
  regexp_openfile_wraps = 1 -> readdir_shape inner ->
  forall ops s w h n,
  let x := run_steps (re_step inner m) (s, w) ops in
  In h (opened_by ops (snd x)) ->
  listing_filtered m (snd (re_step inner m (fst x) (HReaddir h n))) /\
  listing_filtered m (snd (re_step inner m (fst x) (HReaddirnames h n))).
Proof.
  intros Hw Hshape ops s w h n.
  assert (Heq : forall st o, re_step inner m st o = re_step_sw inner m true st o).
  { intros st o. rewrite re_step_is_sw, Hw. reflexivity. }
  cbv zeta. rewrite (run_steps_ext _ _ Heq), !Heq. now apply re_listing_filtered_run.
Qed.

(* whatever the switch: handles returned by Open are filtered *)
Theorem re_step_open_listing_filtered s w p s' w' h o :
  readdir_shape inner ->
  re_step inner m (s, w) (Open p) = ((s', w'), RHandle h) ->
  op_handle_of o = Some h ->
  match o with HReaddir _ _ | HReaddirnames _ _ => True | _ => False end ->
  forall s2, listing_filtered m (snd (re_step inner m (s2, w') o)).
Proof.
  intros Hshape Ho Hh Hk s2. rewrite re_step_is_sw in *.
  eapply re_wrapped_listing_filtered; eauto. eapply re_open_wraps. exact Ho.
Qed.

(* the listing of a RegexpFile handle, in terms of the inner filesystem's pages *)
Theorem re_step_listing_pages s w h n s' w' out :
  In h w -> re_step inner m (s, w) (HReaddir h n) = ((s', w'), RInfos out None) ->
  w' = w /\
  exists pages, pages_read inner h n s pages s' /\ out = filter_infos m (concat pages) /\
    forall fi, In fi (concat pages) -> shown m fi -> In fi out.
Proof.
  intros Hin H. rewrite re_step_is_sw in H.
  rewrite (proj1 (re_wrapped_readdir inner m _ s w h n Hin)) in H.
  destruct (re_readdir inner m re_fuel s h n) as [s1 r] eqn:E. inversion H; subst s1 w' r.
  split; [reflexivity|]. eapply re_readdir_pages. exact E.
Qed.

Theorem re_step_readdirnames_of_readdir s w h n :
  In h w ->
  fst (re_step inner m (s, w) (HReaddirnames h n)) = fst (re_step inner m (s, w) (HReaddir h n)) /\
  snd (re_step inner m (s, w) (HReaddirnames h n)) =
    match snd (re_step inner m (s, w) (HReaddir h n)) with RInfos l e => RNames (map fi_name l) e | r => r end.
Proof.
  intros Hin. rewrite !re_step_is_sw.
  destruct (re_wrapped_readdir inner m (regexp_openfile_wraps =? 1) s w h n Hin) as [-> ->].
  destruct (re_readdir inner m re_fuel s h n) as [s1 r]. destruct r; now split.
Qed.

(* the refill loop, given the fact about the source "Readdir re-reads while a page was filtered to nothing" *)
Theorem re_step_listing_refills s w h n s' w' :
  regexp_readdir_refills = 1 -> In h w -> 0 < n ->
  re_step inner m (s, w) (HReaddir h n) = ((s', w'), RInfos [] None) ->
  exists ps s1 l, dropped_pages inner m h n s ps s1 /\ inner s1 (HReaddir h n) = (s', RInfos l None) /\
    (l = [] \/ (length ps = re_fuel /\ filter_infos m l = [])).
Proof.
  intros Hc Hin Hn H. rewrite re_step_is_sw in H.
  rewrite (proj1 (re_wrapped_readdir inner m _ s w h n Hin)) in H.
  destruct (re_readdir inner m re_fuel s h n) as [s1 r] eqn:E. inversion H; subst s1 w' r.
  eapply re_readdir_refills; eauto.
Qed.
End Model.

(* ---- the property's restriction on patterns: decided by the final path element ---- *)
Definition base_decided (m : str -> bool) : Prop := forall p, m p = m (last_elem p).

Definition no_slash (n : str) : bool := forallb (fun c => negb (N.eqb c SLASH)) n.

Lemma re_split_none n : no_slash n = true -> split_last_aux n = None.
Proof.
  induction n as [|c n IH]; [reflexivity|]. cbn [no_slash forallb]. intros H.
  apply andb_true_iff in H as [Hc Hn]. cbn [split_last_aux]. rewrite (IH Hn).
  apply negb_true_iff in Hc. now rewrite Hc.
Qed.

Lemma re_split_at d n : no_slash n = true -> split_last_aux (d ++ SLASH :: n) = Some (d ++ [SLASH], n).
Proof.
  intros Hn. induction d as [|c d IH]; cbn [app split_last_aux].
  - now rewrite (re_split_none n Hn).
  - now rewrite IH.
Qed.

Lemma last_elem_join d n : no_slash n = true -> last_elem (d ++ SLASH :: n) = n.
Proof. intros Hn. unfold last_elem, path_split. now rewrite (re_split_at d n Hn). Qed.

Lemma last_elem_no_slash n : no_slash n = true -> last_elem n = n.
Proof. intros Hn. unfold last_elem, path_split. now rewrite (re_split_none n Hn). Qed.

(* the listing filter (applied to entry names) and the gate (applied to whole names) agree:
   an entry n of directory d is listed iff d/n passes the gate *)
Theorem base_decided_listing_agrees m d n :
  base_decided m -> no_slash n = true -> m (d ++ SLASH :: n) = m n.
Proof. intros Hb Hn. rewrite (Hb (d ++ SLASH :: n)), (last_elem_join d n Hn). reflexivity. Qed.

(* last_elem p has no slash and is a suffix of p *)
Lemma split_last_some_noslash : forall s d f, split_last_aux s = Some (d, f) -> no_slash f = true.
Proof.
  induction s as [|c s IH]; intros d f H; cbn [split_last_aux] in H; [discriminate|].
  destruct (split_last_aux s) as [[d' f']|] eqn:E.
  - inversion H; subst. now apply (IH d').
  - destruct (N.eqb c SLASH) eqn:Ec; [|discriminate]. inversion H; subst.
    clear -E. revert E. induction f as [|x f IHf]; [reflexivity|]. cbn [split_last_aux].
    destruct (split_last_aux f) as [[? ?]|] eqn:Ef; [discriminate|].
    destruct (N.eqb x SLASH) eqn:Ex; [discriminate|]. intros _. cbn [no_slash forallb]. rewrite Ex. cbn.
    now apply IHf.
Qed.

Lemma split_last_none_noslash : forall s, split_last_aux s = None -> no_slash s = true.
Proof.
  induction s as [|c s IH]; [reflexivity|]. cbn [split_last_aux].
  destruct (split_last_aux s) as [[? ?]|] eqn:E; [discriminate|].
  destruct (N.eqb c SLASH) eqn:Ec; [discriminate|]. intros _. cbn [no_slash forallb]. rewrite Ec. cbn. now apply IH.
Qed.

Lemma last_elem_noslash p : no_slash (last_elem p) = true.
Proof.
  unfold last_elem, path_split. destruct (split_last_aux p) as [[d f]|] eqn:E; cbn [snd].
  - eapply split_last_some_noslash. exact E.
  - now apply split_last_none_noslash.
Qed.

Lemma last_elem_idem p : last_elem (last_elem p) = last_elem p.
Proof. apply last_elem_no_slash, last_elem_noslash. Qed.

(* patterns 1 and 2 of the harness look at last_elem only *)
Lemma re_match_1_base : base_decided (re_match 1).
Proof. intros p. cbn [re_match]. now rewrite last_elem_idem. Qed.
Lemma re_match_2_base : base_decided (re_match 2).
Proof. intros p. cbn [re_match]. now rewrite last_elem_idem. Qed.

(* pattern 0: a suffix without a slash is a suffix of the final element *)
Lemma re_beqb_eq : forall a b, beqb a b = true -> a = b.
Proof.
  induction a as [|x a IH]; destruct b as [|y b]; cbn [beqb]; intros H; try discriminate; [reflexivity|].
  apply andb_true_iff in H as [Hx Hab]. apply N.eqb_eq in Hx. subst. now rewrite (IH b Hab).
Qed.

Lemma has_suffix_cons c s t : has_suffix (c :: s) t = beqb t (c :: s) || has_suffix s t.
Proof. reflexivity. Qed.

Lemma has_suffix_last_elem t : no_slash t = true -> forall p, has_suffix p t = has_suffix (last_elem p) t.
Proof.
  intros Ht. induction p as [|c s IH]; [reflexivity|].
  unfold last_elem, path_split in *. cbn [split_last_aux].
  destruct (split_last_aux s) as [[d f]|] eqn:E; cbn [snd] in *.
  - rewrite has_suffix_cons, IH.
    destruct (beqb t (c :: s)) eqn:Eb; [|reflexivity].
    apply re_beqb_eq in Eb. subst t. cbn [no_slash forallb] in Ht. apply andb_true_iff in Ht as [_ Hs].
    rewrite (re_split_none s Hs) in E. discriminate.
  - destruct (N.eqb c SLASH) eqn:Ec; cbn [snd]; [|reflexivity].
    rewrite has_suffix_cons.
    destruct (beqb t (c :: s)) eqn:Eb; [|reflexivity].
    apply re_beqb_eq in Eb. subst t. cbn [no_slash forallb] in Ht. rewrite Ec in Ht. discriminate.
Qed.

Lemma re_match_0_base : base_decided (re_match 0).
Proof. intros p. cbn [re_match]. now apply has_suffix_last_elem. Qed.

(* all the patterns of the harness satisfy the property's restriction *)
Theorem re_match_base_decided pat : (pat <= 2)%nat -> base_decided (re_match pat).
Proof.
  intros H. destruct pat as [|[|[|pat]]]; [apply re_match_0_base | apply re_match_1_base | apply re_match_2_base | lia].
Qed.

(* ---- instance: MemMapFs as the inner filesystem ---- *)
Lemma m_stat_view s p : fs_view (fst (m_step s (Stat p))) = fs_view s.
Proof.
  unfold m_step. cbn [m_step_raw]. unfold m_stat.
  destruct (lookup s (normalize_path p)) as [f|]; [|reflexivity]. destruct (get_node s f); reflexivity.
Qed.

Lemma m_step_readdir_shape : readdir_shape m_step.
Proof.
  intros s h n. unfold m_step. cbn [m_step_raw]. unfold m_hop.
  destruct (nth_error (mhandles s) h) as [hd|]; [|exact I].
  destruct (get_node s (href hd)) as [nd|]; [|exact I].
  destruct (m_readdir s h hd n) as [[s1 infos] e].
  destruct e as [er|]; [destruct infos; [destruct (errk_eqb (ek er) KEOF)|]|]; exact I.
Qed.

(* what the underlying MemMapFs holds (every path: bytes, mode, mtime) is unchanged by any call
   through the filter that names a hidden file, for every matcher *)
Theorem re_mem_hidden_protected m s w o :
  names_hidden m_step m s o ->
  fs_view (fst (fst (re_step m_step m (s, w) o))) = fs_view s /\
  snapshot (fst (fst (re_step m_step m (s, w) o))) = snapshot s /\
  exists e, snd (re_step m_step m (s, w) o) = RErr e.
Proof.
  intros H.
  assert (Hv : fs_view (fst (fst (re_step m_step m (s, w) o))) = fs_view s).
  { apply (re_step_hidden_preserves m_step m (fun t => fs_view t = fs_view s)); [|exact H|reflexivity].
    intros t p Ht. now rewrite m_stat_view. }
  split; [exact Hv|]. split; [now apply snapshot_of_view|].
  rewrite (re_step_hidden_refused m_step m s w o H).
  destruct (refusal_is_error m_step s w o) as [e [He _]]. now exists e.
Qed.
