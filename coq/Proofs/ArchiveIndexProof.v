(* Proofs/ArchiveIndexProof.v — C14: the directory index built by zipfs.New / tarfs.New.
   Which entry a (dir, base) pair resolves to, Stat/Open of every entry, directory listings,
   immutability. *)
From AF Require Import Lib.Bytes Lib.Path Lib.Ops Gen.Consts Model.ByteFile Model.Archive Model.Zip Model.Tar
  Proofs.ArchiveLemmas.
From Coq Require Import Permutation.
Local Open Scope Z_scope.

(* ---------------------------------------------------------------- index operations *)
Definition has_dir (ix : index) (d : str) : Prop := alist_get d ix <> None.

Lemma dir_ensure d ix d' :
  alist_get d' (idx_ensure d ix) =
  match alist_get d' ix with Some m => Some m | None => if beqb d' d then Some [] else None end.
Proof.
  unfold idx_ensure. destruct (alist_get d ix) eqn:E.
  - destruct (alist_get d' ix) eqn:E'; [reflexivity|].
    destruct (beqb d' d) eqn:B; [|reflexivity]. apply beqb_eq in B; subst. congruence.
  - apply alist_get_snoc.
Qed.

Lemma has_dir_ensure d ix : has_dir (idx_ensure d ix) d.
Proof. unfold has_dir. rewrite dir_ensure. destruct (alist_get d ix); [discriminate|]. now rewrite beqb_refl. Qed.

Lemma has_dir_ensure_mono d ix d' : has_dir ix d' -> has_dir (idx_ensure d ix) d'.
Proof. unfold has_dir. rewrite dir_ensure. destruct (alist_get d' ix); [discriminate|tauto]. Qed.

Lemma get_ensure d ix d' f' : idx_get (idx_ensure d ix) d' f' = idx_get ix d' f'.
Proof.
  unfold idx_get. rewrite dir_ensure. destruct (alist_get d' ix); [reflexivity|].
  destruct (beqb d' d); reflexivity.
Qed.

Lemma dir_put d f e ix d' :
  alist_get d' (idx_put d f e ix) =
  match alist_get d ix with
  | Some m => if beqb d' d then Some (alist_set f e m) else alist_get d' ix
  | None => alist_get d' ix
  end.
Proof.
  unfold idx_put. destruct (alist_get d ix) as [m|] eqn:E; [|reflexivity].
  destruct (beqb d' d) eqn:B.
  - apply beqb_eq in B; subst. apply alist_get_set_same.
  - apply alist_get_set_other. apply beqb_neq in B. congruence.
Qed.

Lemma get_put d f e ix d' f' :
  has_dir ix d ->
  idx_get (idx_put d f e ix) d' f' = if key_eqb (d', f') (d, f) then Some e else idx_get ix d' f'.
Proof.
  unfold has_dir, idx_get, key_eqb. cbn [fst snd]. intros H. rewrite dir_put.
  destruct (alist_get d ix) as [m|] eqn:E; [|contradiction].
  destruct (beqb d' d) eqn:B; cbn [andb]; [|reflexivity].
  apply beqb_eq in B; subst d'. rewrite E.
  destruct (beqb f' f) eqn:Bf.
  - apply beqb_eq in Bf; subst. apply alist_get_set_same.
  - apply alist_get_set_other. apply beqb_neq in Bf. congruence.
Qed.

Lemma has_dir_put_mono d f e ix d' : has_dir ix d' -> has_dir (idx_put d f e ix) d'.
Proof.
  unfold has_dir. rewrite dir_put. destruct (alist_get d ix); [|tauto].
  destruct (beqb d' d); [discriminate|tauto].
Qed.

Lemma put_first_eq d f e ix :
  idx_put_first d f e ix = match idx_get ix d f with Some _ => ix | None => idx_put d f e ix end.
Proof.
  unfold idx_put_first, idx_get, idx_put. destruct (alist_get d ix) as [m|]; [|reflexivity].
  destruct (alist_get f m); reflexivity.
Qed.

Lemma get_put_first d f e ix d' f' :
  has_dir ix d ->
  idx_get (idx_put_first d f e ix) d' f' =
  match idx_get ix d' f' with Some x => Some x | None => if key_eqb (d', f') (d, f) then Some e else None end.
Proof.
  intros H. rewrite put_first_eq. destruct (idx_get ix d f) eqn:E.
  - destruct (idx_get ix d' f') eqn:E'; [reflexivity|].
    destruct (key_eqb (d', f') (d, f)) eqn:K; [|reflexivity].
    apply key_eqb_eq in K; inversion K; subst. congruence.
  - rewrite get_put by exact H. destruct (key_eqb (d', f') (d, f)) eqn:K.
    + apply key_eqb_eq in K; inversion K; subst. now rewrite E.
    + destruct (idx_get ix d' f'); reflexivity.
Qed.

Lemma has_dir_put_first_mono d f e ix d' : has_dir ix d' -> has_dir (idx_put_first d f e ix) d'.
Proof. rewrite put_first_eq. destruct (idx_get ix d f); [tauto|apply has_dir_put_mono]. Qed.

(* ---------------------------------------------------------------- which entry a key resolves to *)
Definition key_is (k : str * str) (e : aentry) : bool := key_eqb k (ekey e).

Lemma get_zip_add ix e d f :
  idx_get (zip_add ix e) d f =
  match idx_get ix d f with Some x => Some x | None => if key_is (d, f) e then Some e else None end.
Proof.
  unfold zip_add, key_is, ekey. destruct (splitpath (ename e)) as [d0 f0].
  assert (H : idx_get (idx_put_first d0 f0 e (idx_ensure d0 ix)) d f =
              match idx_get ix d f with Some x => Some x | None => if key_eqb (d, f) (d0, f0) then Some e else None end).
  { rewrite get_put_first by apply has_dir_ensure. now rewrite get_ensure. }
  destruct (eisdir e); [rewrite get_ensure|]; exact H.
Qed.

Lemma get_zip_fold a : forall ix d f,
  idx_get (fold_left zip_add a ix) d f =
  match idx_get ix d f with Some x => Some x | None => find (key_is (d, f)) a end.
Proof.
  induction a as [|e a IH]; intros ix d f; cbn [fold_left find]; [now destruct (idx_get ix d f)|].
  rewrite IH, get_zip_add. destruct (idx_get ix d f); [reflexivity|].
  destruct (key_is (d, f) e); reflexivity.
Qed.

Lemma get_zip_new a d f : idx_get (zip_new false a) d f = find (key_is (d, f)) a.
Proof.
  unfold zip_new. rewrite get_zip_fold. unfold idx_get at 1. cbn.
  destruct (beqb d s_slash); reflexivity.
Qed.

Lemma get_tar_add ix e d f :
  idx_get (tar_add false ix e) d f = if key_is (d, f) e then Some e else idx_get ix d f.
Proof.
  unfold tar_add, key_is, ekey. destruct (splitpath (ename e)) as [d0 f0]. cbn [negb andb].
  assert (H : idx_get (idx_put d0 f0 e (idx_ensure d0 ix)) d f =
              if key_eqb (d, f) (d0, f0) then Some e else idx_get ix d f).
  { rewrite get_put by apply has_dir_ensure. now rewrite get_ensure. }
  destruct (eisdir e); [rewrite get_ensure|]; exact H.
Qed.

Lemma find_snoc {A} (p : A -> bool) l x :
  find p (l ++ [x]) = match find p l with Some y => Some y | None => if p x then Some x else None end.
Proof. induction l as [|y l IH]; cbn; [reflexivity|]. destruct (p y); auto. Qed.

Lemma get_tar_fold a : forall ix d f,
  idx_get (fold_left (tar_add false) a ix) d f =
  match find (key_is (d, f)) (rev a) with Some x => Some x | None => idx_get ix d f end.
Proof.
  induction a as [|e a IH]; intros ix d f; cbn [fold_left rev]; [reflexivity|].
  rewrite IH, find_snoc, get_tar_add. destruct (find (key_is (d, f)) (rev a)); [reflexivity|].
  destruct (key_is (d, f) e); reflexivity.
Qed.

Lemma get_tar_new a d f :
  idx_get (tar_new false a) d f =
  if key_eqb (d, f) (s_slash, []) then Some tar_root
  else find (key_is (d, f)) (rev a).
Proof.
  unfold tar_new. rewrite get_put by apply has_dir_ensure. rewrite get_ensure, get_tar_fold.
  unfold key_eqb; cbn [fst snd].
  destruct (beqb d s_slash), (beqb f []); cbn [andb]; try reflexivity;
    destruct (find (key_is (d, f)) (rev a)); reflexivity.
Qed.

(* ---------------------------------------------------------------- well-formed archives *)
(* the cleaned paths of the entries are pairwise different, and none of them is the root *)
Definition wf_archive (a : archive) : Prop :=
  NoDup (map ekey a) /\ forall e, In e a -> snd (ekey e) <> [].

Lemma find_key_unique a : NoDup (map ekey a) -> forall k e,
  find (key_is k) a = Some e <-> In e a /\ ekey e = k.
Proof.
  induction a as [|x a IH]; intros ND k e; cbn [find In map].
  - split; [discriminate|tauto].
  - inversion ND as [|? ? Hx ND']; subst. unfold key_is at 1. destruct (key_eqb k (ekey x)) eqn:K.
    + apply key_eqb_eq in K. split.
      * intros E; inversion E; subst. auto.
      * intros [[->|H] Ek]; [reflexivity|]. exfalso. apply Hx. apply in_map_iff. exists e. split; [congruence|exact H].
    + rewrite (IH ND'). split.
      * intros [H Ek]; auto.
      * intros [[->|H] Ek]; [|auto]. subst k. rewrite key_eqb_refl in K. discriminate.
Qed.

Lemma NoDup_map_rev {A B} (f : A -> B) l : NoDup (map f l) -> NoDup (map f (rev l)).
Proof. intros H. rewrite map_rev. now apply NoDup_rev. Qed.

Lemma find_key_unique_rev a : NoDup (map ekey a) -> forall k e,
  find (key_is k) (rev a) = Some e <-> In e a /\ ekey e = k.
Proof.
  intros ND k e. rewrite (find_key_unique (rev a) (NoDup_map_rev _ _ ND)). now rewrite <- in_rev.
Qed.

(* ---------------------------------------------------------------- (c) every entry is found *)
Lemma zip_get_entry a e : wf_archive a -> In e a ->
  idx_get (zip_new false a) (fst (ekey e)) (snd (ekey e)) = Some e.
Proof.
  intros [ND _] Hin. rewrite get_zip_new. apply (find_key_unique a ND). split; [exact Hin|].
  now destruct (ekey e).
Qed.

Lemma tar_get_entry a e : wf_archive a -> In e a ->
  idx_get (tar_new false a) (fst (ekey e)) (snd (ekey e)) = Some e.
Proof.
  intros [ND Hnr] Hin. rewrite get_tar_new.
  assert (key_eqb (fst (ekey e), snd (ekey e)) (s_slash, []) = false) as ->.
  { destruct (key_eqb (fst (ekey e), snd (ekey e)) (s_slash, [])) eqn:K; [|reflexivity].
    apply key_eqb_eq in K. inversion K as [[K1 K2]]. exfalso. now apply (Hnr e Hin). }
  apply (find_key_unique_rev a ND). split; [exact Hin|]. now destruct (ekey e).
Qed.

Lemma z_stat_get s p :
  z_stat s p = let '(d, f) := splitpath p in
               if is_empty f then RInfo root_info
               else match idx_get (zix s) d f with Some e => RInfo (zinfo e) | None => RErr (EW KENOENT) end.
Proof.
  unfold z_stat, idx_get. destruct (splitpath p) as [d f]. destruct (is_empty f); [reflexivity|].
  destruct (alist_get d (zix s)); reflexivity.
Qed.

Lemma t_stat_get s p :
  t_stat s p = let '(d, f) := splitpath p in
               match idx_get (tix s) d f with Some e => RInfo (tinfo e) | None => RErr (EW KENOENT) end.
Proof. unfold t_stat, idx_get. destruct (splitpath p) as [d f]. destruct (alist_get d (tix s)); reflexivity. Qed.

Lemma z_open_get s p :
  z_open s p = let '(d, f) := splitpath p in
    if is_empty f then (mkZS (zix s) (zhs s ++ [mkZH None true false 0 [] None]), RHandle (length (zhs s)))
    else match idx_get (zix s) d f with
         | Some e => (mkZS (zix s) (zhs s ++ [mkZH (Some e) (eisdir e) false 0 [] None]), RHandle (length (zhs s)))
         | None => (s, RErr (EW KENOENT))
         end.
Proof.
  unfold z_open, idx_get. destruct (splitpath p) as [d f]. destruct (is_empty f); [reflexivity|].
  destruct (alist_get d (zix s)) as [m|]; [|reflexivity]. destruct (alist_get f m); reflexivity.
Qed.

Lemma t_open_get s p :
  t_open s p = let '(d, f) := splitpath p in
    match idx_get (tix s) d f with
    | Some e => (mkTS (tix s) (ths s ++ [mkTH (Some e) (d, f) false 0]) (tsh s), RHandle (length (ths s)))
    | None => (s, RErr (EW KENOENT))
    end.
Proof.
  unfold t_open, idx_get. destruct (splitpath p) as [d f].
  destruct (alist_get d (tix s)) as [m|]; [|reflexivity]. destruct (alist_get f m); reflexivity.
Qed.

(* Stat and Open under any name p that cleans to the entry's own cleaned path *)
Theorem zip_entries_found : forall (a : archive) (e : aentry) (p : str) hs,
  wf_archive a -> In e a -> splitpath p = ekey e ->
  z_stat (mkZS (zip_new false a) hs) p = RInfo (zinfo e) /\
  z_open (mkZS (zip_new false a) hs) p =
    (mkZS (zip_new false a) (hs ++ [mkZH (Some e) (eisdir e) false 0 [] None]), RHandle (length hs)).
Proof.
  intros a e p hs W Hin Hp. pose proof (zip_get_entry a e W Hin) as G. destruct W as [_ Hnr].
  specialize (Hnr e Hin). rewrite z_stat_get, z_open_get. rewrite Hp. destruct (ekey e) as [d f]. cbn [fst snd zix zhs] in *.
  assert (is_empty f = false) as -> by (destruct f; [contradiction|reflexivity]).
  rewrite G. split; reflexivity.
Qed.

Theorem tar_entries_found : forall (a : archive) (e : aentry) (p : str) hs sh,
  wf_archive a -> In e a -> splitpath p = ekey e ->
  t_stat (mkTS (tar_new false a) hs sh) p = RInfo (tinfo e) /\
  t_open (mkTS (tar_new false a) hs sh) p =
    (mkTS (tar_new false a) (hs ++ [mkTH (Some e) (ekey e) false 0]) sh, RHandle (length hs)).
Proof.
  intros a e p hs sh W Hin Hp. pose proof (tar_get_entry a e W Hin) as G.
  rewrite t_stat_get, t_open_get. rewrite Hp. destruct (ekey e) as [d f]. cbn [fst snd tix ths tsh] in *.
  rewrite G. split; reflexivity.
Qed.

(* ---------------------------------------------------------------- (d) directory listings *)
(* every directory map has pairwise different names (it is a Go map) *)
Definition idx_wf (ix : index) : Prop := forall d m, alist_get d ix = Some m -> NoDup (map fst m).

Lemma idx_wf_ensure d ix : idx_wf ix -> idx_wf (idx_ensure d ix).
Proof.
  intros W d' m. rewrite dir_ensure. destruct (alist_get d' ix) eqn:E.
  - intros H; inversion H; subst. eapply W; eauto.
  - destruct (beqb d' d); [|discriminate]. intros H; inversion H. constructor.
Qed.

Lemma idx_wf_put d f e ix : idx_wf ix -> idx_wf (idx_put d f e ix).
Proof.
  intros W d' m. rewrite dir_put. destruct (alist_get d ix) as [m0|] eqn:E; [|apply W].
  destruct (beqb d' d); [|apply W]. intros H; inversion H. apply alist_set_nodup. eapply W; eauto.
Qed.

Lemma idx_wf_put_first d f e ix : idx_wf ix -> idx_wf (idx_put_first d f e ix).
Proof. intros W. rewrite put_first_eq. destruct (idx_get ix d f); [exact W|now apply idx_wf_put]. Qed.

Lemma idx_wf_zip_add ix e : idx_wf ix -> idx_wf (zip_add ix e).
Proof.
  intros W. unfold zip_add. destruct (splitpath (ename e)) as [d f].
  destruct (eisdir e); [apply idx_wf_ensure|]; apply idx_wf_put_first; now apply idx_wf_ensure.
Qed.

Lemma idx_wf_tar_add ix e : idx_wf ix -> idx_wf (tar_add false ix e).
Proof.
  intros W. unfold tar_add. destruct (splitpath (ename e)) as [d f]. cbn [negb andb].
  destruct (eisdir e); [apply idx_wf_ensure|]; apply idx_wf_put; now apply idx_wf_ensure.
Qed.

Lemma fold_left_inv {A B} (P : A -> Prop) (f : A -> B -> A) l :
  (forall x y, P x -> P (f x y)) -> forall x, P x -> P (fold_left f l x).
Proof. intros H. induction l as [|y l IH]; intros x Hx; cbn; auto. Qed.

Lemma idx_wf_zip_new a : idx_wf (zip_new false a).
Proof.
  unfold zip_new. apply fold_left_inv; [intros; now apply idx_wf_zip_add|].
  intros d m. cbn. destruct (beqb d s_slash); [|discriminate]. intros H; inversion H. constructor.
Qed.

Lemma idx_wf_tar_new a : idx_wf (tar_new false a).
Proof.
  unfold tar_new. apply idx_wf_put, idx_wf_ensure. apply fold_left_inv; [intros; now apply idx_wf_tar_add|].
  intros d m. cbn. discriminate.
Qed.

(* membership in a directory map = resolution of (dir, name) *)
Lemma dir_member ix d m f x : idx_wf ix -> alist_get d ix = Some m ->
  (In (f, x) m <-> idx_get ix d f = Some x).
Proof.
  intros W E. unfold idx_get. rewrite E. split; [apply alist_In_get; eapply W; eauto|apply alist_get_In].
Qed.

Lemma NoDup_map_snd {A B} (g : B -> A) (m : list (A * B)) :
  NoDup (map fst m) -> (forall k x, In (k, x) m -> k = g x) -> NoDup (map snd m).
Proof.
  induction m as [|[k x] m IH]; cbn; intros ND H; [constructor|].
  inversion ND as [|? ? Hk ND']; subst. constructor.
  - intros Hin. apply in_map_iff in Hin as ([k' x'] & E & Hin). cbn in E; subst x'.
    apply Hk. apply in_map_iff. exists (k', x). split; [|exact Hin]. cbn.
    rewrite (H k x (or_introl eq_refl)), (H k' x (or_intror Hin)). reflexivity.
  - apply IH; auto.
Qed.

Lemma map_fst_by_snd {A B} (g : B -> A) (m : list (A * B)) :
  (forall k x, In (k, x) m -> k = g x) -> map fst m = map g (map snd m).
Proof.
  induction m as [|[k x] m IH]; cbn; intros H; [reflexivity|].
  rewrite (H k x (or_introl eq_refl)), IH; auto.
Qed.

Lemma spec_children_nodup a d : NoDup (map ekey a) -> NoDup (spec_children a d).
Proof. intros ND. apply NoDup_filter. eapply NoDup_map_inv; eauto. Qed.

Lemma in_spec_children a d x : wf_archive a ->
  (In x (spec_children a d) <-> In x a /\ fst (ekey x) = d).
Proof.
  intros [_ Hnr]. unfold spec_children, is_child_of. rewrite filter_In. split.
  - intros [Hin H]. apply andb_true_iff in H as [H _]. apply beqb_eq in H. auto.
  - intros [Hin H]. split; [exact Hin|]. apply andb_true_iff. split; [now apply beqb_eq|].
    destruct (snd (ekey x)) eqn:E; [exfalso; now apply (Hnr x Hin)|reflexivity].
Qed.

(* zipfs: the map of directory d holds exactly the entries whose cleaned path lies directly in d,
   each under its own base name *)
Lemma zip_dir_exact a d m : wf_archive a -> alist_get d (zip_new false a) = Some m ->
  (forall k x, In (k, x) m -> k = snd (ekey x)) /\
  NoDup (map snd m) /\
  Permutation (map snd m) (spec_children a d).
Proof.
  intros W E. pose proof (idx_wf_zip_new a) as Wf. destruct W as [ND Hnr].
  assert (Hk : forall k x, In (k, x) m -> In x a /\ ekey x = (d, k)).
  { intros k x Hin. apply (dir_member _ _ _ _ _ Wf E) in Hin. rewrite get_zip_new in Hin.
    now apply (find_key_unique a ND) in Hin. }
  assert (Hs : forall k x, In (k, x) m -> k = snd (ekey x)).
  { intros k x Hin. destruct (Hk k x Hin) as [_ Ek]. now rewrite Ek. }
  assert (NDs : NoDup (map snd m)) by (eapply NoDup_map_snd; [eapply Wf; eauto|exact Hs]).
  split; [exact Hs|]. split; [exact NDs|].
  apply NoDup_Permutation; [exact NDs|now apply spec_children_nodup|].
  intros x. rewrite (in_spec_children a d x (conj ND Hnr)). split.
  - intros Hin. apply in_map_iff in Hin as ([k x'] & Ex & Hin). cbn in Ex; subst x'.
    destruct (Hk k x Hin) as [Ha Ek]. split; [exact Ha|]. now rewrite Ek.
  - intros [Ha Ed]. apply in_map_iff. exists (snd (ekey x), x). split; [reflexivity|].
    apply (dir_member _ _ _ _ _ Wf E). rewrite get_zip_new. apply (find_key_unique a ND).
    split; [exact Ha|]. rewrite <- Ed. now destruct (ekey x).
Qed.

(* the directory maps that exist: the root, and one for every directory entry *)
Lemma has_dir_zip_add_mono ix e d : has_dir ix d -> has_dir (zip_add ix e) d.
Proof.
  intros H. unfold zip_add. destruct (splitpath (ename e)) as [d0 f0].
  destruct (eisdir e); [apply has_dir_ensure_mono|]; apply has_dir_put_first_mono; now apply has_dir_ensure_mono.
Qed.

Lemma has_dir_zip_add_self ix e : eisdir e = true -> has_dir (zip_add ix e) (joined (ename e)).
Proof.
  intros Hd. unfold zip_add, joined. destruct (splitpath (ename e)) as [d0 f0]. rewrite Hd. apply has_dir_ensure.
Qed.

Lemma has_dir_zip_fold a : forall ix d,
  has_dir ix d \/ (exists e, In e a /\ eisdir e = true /\ joined (ename e) = d) ->
  has_dir (fold_left zip_add a ix) d.
Proof.
  induction a as [|x a IH]; intros ix d H; cbn [fold_left].
  - destruct H as [H|(e & [] & _)]; exact H.
  - apply IH. destruct H as [H|(e & [->|Hin] & Hd & Ej)].
    + left. now apply has_dir_zip_add_mono.
    + left. subst d. now apply has_dir_zip_add_self.
    + right. eauto.
Qed.

Lemma has_dir_tar_add_mono ix e d : has_dir ix d -> has_dir (tar_add false ix e) d.
Proof.
  intros H. unfold tar_add. destruct (splitpath (ename e)) as [d0 f0]. cbn [negb andb].
  destruct (eisdir e); [apply has_dir_ensure_mono|]; apply has_dir_put_mono; now apply has_dir_ensure_mono.
Qed.

Lemma has_dir_tar_add_self ix e : eisdir e = true -> has_dir (tar_add false ix e) (joined (ename e)).
Proof.
  intros Hd. unfold tar_add, joined. destruct (splitpath (ename e)) as [d0 f0]. rewrite Hd. apply has_dir_ensure.
Qed.

Lemma has_dir_tar_fold a : forall ix d,
  has_dir ix d \/ (exists e, In e a /\ eisdir e = true /\ joined (ename e) = d) ->
  has_dir (fold_left (tar_add false) a ix) d.
Proof.
  induction a as [|x a IH]; intros ix d H; cbn [fold_left].
  - destruct H as [H|(e & [] & _)]; exact H.
  - apply IH. destruct H as [H|(e & [->|Hin] & Hd & Ej)].
    + left. now apply has_dir_tar_add_mono.
    + left. subst d. now apply has_dir_tar_add_self.
    + right. eauto.
Qed.

Lemma zip_has_root a : has_dir (zip_new false a) s_slash.
Proof. unfold zip_new. apply has_dir_zip_fold. left. unfold has_dir. cbn. discriminate. Qed.

Lemma zip_has_entry_dir a e : In e a -> eisdir e = true -> has_dir (zip_new false a) (joined (ename e)).
Proof. intros Hin Hd. unfold zip_new. apply has_dir_zip_fold. right. eauto. Qed.

Lemma tar_has_root a : has_dir (tar_new false a) s_slash.
Proof. unfold tar_new. apply has_dir_put_mono, has_dir_ensure. Qed.

Lemma tar_has_entry_dir a e : In e a -> eisdir e = true -> has_dir (tar_new false a) (joined (ename e)).
Proof.
  intros Hin Hd. unfold tar_new. apply has_dir_put_mono, has_dir_ensure_mono, has_dir_tar_fold. right. eauto.
Qed.

Lemma take_count_map {A B} (g : A -> B) count l : take_count count (map g l) = map g (take_count count l).
Proof. unfold take_count. destruct (0 <? count); [apply firstn_map|reflexivity]. Qed.

(* C14 (d) for zipfs: Readdir / Readdirnames of a directory handle (the handle of a directory entry,
   or the root handle) answer from a list l that is a permutation of the entries stored directly
   under that directory; count > 0 cuts l short, count <= 0 returns all of it.  (Go's map order
   is not modelled, so l's order is not specified further.) *)
Theorem zip_listing_exact : forall (a : archive) (h : zh) (d : str),
  wf_archive a ->
  (h = mkZH None true false 0 [] None /\ d = s_slash \/
   exists e, In e a /\ eisdir e = true /\ h = mkZH (Some e) true false 0 [] None /\ d = joined (ename e)) ->
  exists l, Permutation l (spec_children a d) /\
    forall count,
      z_readdir (zip_new false a) h count = RInfos (map zinfo (take_count count l)) None /\
      z_readdirnames (zip_new false a) h count = RNames (map (fun x => snd (ekey x)) (take_count count l)) None.
Proof.
  intros a h d W Hh.
  assert (Hn : zisdir h = true /\ z_name h = d /\ has_dir (zip_new false a) d).
  { destruct Hh as [[-> ->]|(e & Hin & Hd & -> & ->)]; cbn; repeat split; [apply zip_has_root|now apply zip_has_entry_dir]. }
  destruct Hn as (Hd & Hname & Hdir). unfold has_dir in Hdir.
  destruct (alist_get d (zip_new false a)) as [m|] eqn:E; [|contradiction].
  destruct (zip_dir_exact a d m W E) as (Hs & _ & P).
  exists (map snd m). split; [exact P|]. intros count.
  unfold z_readdir, z_readdirnames, z_dir_entries. rewrite Hd, Hname, E. cbn [negb].
  rewrite <- !take_count_map. split; [now rewrite !map_map|].
  f_equal. f_equal. now apply map_fst_by_snd.
Qed.

(* ---------------------------------------------------------------- tarfs listings *)
Lemma insert_by_perm {A} (lt : A -> A -> bool) x l : Permutation (insert_by lt x l) (x :: l).
Proof.
  induction l as [|y l IH]; cbn; [reflexivity|]. destruct (lt y x); [|reflexivity].
  rewrite IH. apply perm_swap.
Qed.

Lemma sort_by_perm {A} (lt : A -> A -> bool) l : Permutation (sort_by lt l) l.
Proof.
  unfold sort_by. induction l as [|x l IH]; cbn; [reflexivity|].
  rewrite insert_by_perm. now constructor.
Qed.

Lemma NoDup_map_filter {A B} (g : A -> B) p l : NoDup (map g l) -> NoDup (map g (filter p l)).
Proof.
  induction l as [|x l IH]; cbn; intros ND; [constructor|]. inversion ND as [|? ? Hx ND']; subst.
  destruct (p x); cbn; [|auto]. constructor; [|auto].
  intros Hin. apply Hx. apply in_map_iff in Hin as (y & E & Hy). apply filter_In in Hy as [Hy _].
  apply in_map_iff. eauto.
Qed.

Definition tar_listed (m : list (str * aentry)) : list aentry :=
  map snd (filter (fun fe => negb (is_empty (fst fe))) (sort_by key_lt m)).

Lemma tar_dir_exact a d m : wf_archive a -> alist_get d (tar_new false a) = Some m ->
  Permutation (tar_listed m) (spec_children a d).
Proof.
  intros W E. pose proof (idx_wf_tar_new a) as Wf. destruct W as [ND Hnr].
  set (m' := filter (fun fe => negb (is_empty (fst fe))) (sort_by key_lt m)).
  assert (Hm' : forall k x, In (k, x) m' <-> k <> [] /\ In (k, x) m).
  { intros k x. unfold m'. rewrite filter_In. cbn [fst].
    split; intros [H1 H2].
    - split; [destruct k; [discriminate|congruence]|]. eapply Permutation_in; [apply sort_by_perm|exact H1].
    - split; [eapply Permutation_in; [symmetry; apply sort_by_perm|exact H2]|]. destruct k; [contradiction|reflexivity]. }
  assert (Hk : forall k x, In (k, x) m' -> In x a /\ ekey x = (d, k)).
  { intros k x Hin. apply Hm' in Hin as [Hne Hin].
    apply (dir_member _ _ _ _ _ Wf E) in Hin. rewrite get_tar_new in Hin.
    assert (key_eqb (d, k) (s_slash, []) = false) as K.
    { destruct (key_eqb (d, k) (s_slash, [])) eqn:K; [|reflexivity]. apply key_eqb_eq in K. inversion K. contradiction. }
    rewrite K in Hin. now apply (find_key_unique_rev a ND) in Hin. }
  assert (NDs : NoDup (tar_listed m)).
  { unfold tar_listed. fold m'. apply (NoDup_map_snd (fun x => snd (ekey x))).
    - unfold m'. apply NoDup_map_filter. eapply Permutation_NoDup; [apply Permutation_map; symmetry; apply sort_by_perm|].
      eapply Wf; eauto.
    - intros k x Hin. destruct (Hk k x Hin) as [_ Ek]. now rewrite Ek. }
  apply NoDup_Permutation; [exact NDs|now apply spec_children_nodup|].
  intros x. rewrite (in_spec_children a d x (conj ND Hnr)). unfold tar_listed. fold m'. split.
  - intros Hin. apply in_map_iff in Hin as ([k x'] & Ex & Hin). cbn in Ex; subst x'.
    destruct (Hk k x Hin) as [Ha Ek]. split; [exact Ha|]. now rewrite Ek.
  - intros [Ha Ed]. apply in_map_iff. exists (snd (ekey x), x). split; [reflexivity|].
    apply Hm'. split; [now apply Hnr|].
    apply (dir_member _ _ _ _ _ Wf E). rewrite get_tar_new.
    assert (key_eqb (d, snd (ekey x)) (s_slash, []) = false) as ->.
    { destruct (key_eqb (d, snd (ekey x)) (s_slash, [])) eqn:K; [|reflexivity].
      apply key_eqb_eq in K. inversion K as [[K1 K2]]. exfalso. now apply (Hnr x Ha). }
    apply (find_key_unique_rev a ND). split; [exact Ha|]. rewrite <- Ed. now destruct (ekey x).
Qed.

(* C14 (d) for tarfs: Readdir / Readdirnames of an open directory handle (a directory entry or the
   pseudo-root) answer from the list l = the directory's entries in ascending order of their base
   names, which is a permutation of the entries stored directly under that directory. *)
Theorem tar_listing_exact : forall (a : archive) (h : th) (e : aentry) (k : str * str) (pos : Z),
  wf_archive a ->
  h = mkTH (Some e) k false pos -> eisdir e = true -> (e = tar_root \/ In e a) ->
  exists l, Permutation l (spec_children a (joined (ename e))) /\
    forall count,
      t_readdir (tar_new false a) h count = RInfos (map tinfo (take_count count l)) None /\
      t_readdirnames (tar_new false a) h count = RNames (map (fun x => fi_name (tinfo x)) (take_count count l)) None.
Proof.
  intros a h e k pos W -> Hd He.
  assert (Hdir : has_dir (tar_new false a) (joined (ename e))).
  { destruct He as [->|Hin]; [apply tar_has_root|now apply tar_has_entry_dir]. }
  unfold has_dir in Hdir. destruct (alist_get (joined (ename e)) (tar_new false a)) as [m|] eqn:E; [|contradiction].
  exists (tar_listed m). split; [now apply tar_dir_exact|]. intros count.
  unfold t_readdir, t_readdirnames, t_readdir_entries. cbn [tclosed tfile]. rewrite Hd, E. cbn [negb].
  split; reflexivity.
Qed.

(* ---------------------------------------------------------------- (e) immutability *)
(* a refused call: the permission / read-only error (or no such handle) *)
Definition refused (r : res) : Prop :=
  r = RNoSlot \/
  exists k w, (k = KEPERM \/ k = KEROFS) /\ (r = RErr (mkErr k w) \/ r = RCount 0 (Some (mkErr k w))).

Ltac refused_with k w := right; exists k, w; split; [auto|auto].

Theorem zip_mutators_refused : forall legacy (s : zst) (o : op),
  is_mutator o = true -> fst (zip_step legacy s o) = s /\ refused (snd (zip_step legacy s o)).
Proof.
  intros legacy s o Hm. destruct o; cbn in Hm; try discriminate; unfold zip_step;
    try (cbn [fst snd]; split; [reflexivity|refused_with KEPERM false]);
    try (destruct (nth_error (zhs s) h); cbn [fst snd]; (split; [reflexivity|]); [refused_with KEPERM false|now left]).
  unfold o_rdonly. rewrite Hm. cbn [fst snd]. split; [reflexivity|refused_with KEPERM false].
Qed.

Theorem tar_mutators_refused : forall legacy (s : tst) (o : op),
  is_mutator o = true -> fst (tar_step legacy s o) = s /\ refused (snd (tar_step legacy s o)).
Proof.
  intros legacy s o Hm. destruct o; cbn in Hm; try discriminate; unfold tar_step;
    try (cbn [fst snd]; split; [reflexivity|refused_with KEROFS false]);
    try (destruct (nth_error (ths s) h); cbn [fst snd]; (split; [reflexivity|]); [refused_with KEROFS false|now left]).
  unfold o_rdonly. rewrite Hm. cbn [fst snd]. split; [reflexivity|refused_with KEPERM true].
Qed.

(* the index is never written after New, whatever is called *)
Theorem zip_index_constant : forall legacy s o, zix (fst (zip_step legacy s o)) = zix s.
Proof.
  intros legacy s o. destruct o; unfold zip_step; try reflexivity;
    try (destruct (nth_error (zhs s) h); reflexivity).
  - unfold z_open. destruct (splitpath p) as [d f]. destruct (is_empty f); [reflexivity|].
    destruct (alist_get d (zix s)) as [m|]; [|reflexivity]. destruct (alist_get f m); reflexivity.
  - destruct (negb (flag =? o_rdonly)); [reflexivity|].
    unfold z_open. destruct (splitpath p) as [d f]. destruct (is_empty f); [reflexivity|].
    destruct (alist_get d (zix s)) as [m|]; [|reflexivity]. destruct (alist_get f m); reflexivity.
Qed.

Theorem tar_index_constant : forall s o, tix (fst (tar_step false s o)) = tix s.
Proof.
  intros s o. destruct o; unfold tar_step; try reflexivity;
    try (destruct (nth_error (ths s) h) as [h0|]; [|reflexivity]); try reflexivity.
  - unfold t_open. destruct (splitpath p) as [d f].
    destruct (alist_get d (tix s)) as [m|]; [|reflexivity]. destruct (alist_get f m); reflexivity.
  - destruct (negb (flag =? o_rdonly)); [reflexivity|].
    unfold t_open. destruct (splitpath p) as [d f].
    destruct (alist_get d (tix s)) as [m|]; [|reflexivity]. destruct (alist_get f m); reflexivity.
  - unfold t_read. destruct (tclosed h0); [reflexivity|]. destruct (tfile h0) as [e|]; [|reflexivity].
    destruct (eisdir e); [reflexivity|]. match goal with |- context [br_read ?a ?b ?c] => destruct (br_read a b c) end. reflexivity.
  - unfold t_readat. destruct (tclosed h0); [reflexivity|]. destruct (tfile h0) as [e|]; [|reflexivity].
    destruct (eisdir e); reflexivity.
  - unfold t_seek. destruct (tclosed h0); [reflexivity|]. destruct (tfile h0) as [e|]; [|reflexivity].
    destruct (eisdir e); [reflexivity|]. match goal with |- context [br_seek ?a ?b ?c ?d] => destruct (br_seek a b c d) end. reflexivity.
  - unfold t_close. destruct (tclosed h0); reflexivity.
Qed.

(* "leaves the view unchanged", observationally: deleting the mutating calls from a program changes
   neither the final state nor the result of any other call *)
Definition keeps (o : op) : bool := negb (is_mutator o).

Lemma arun_without_mutators {St} (step : St -> op -> St * res) :
  (forall s o, is_mutator o = true -> fst (step s o) = s) ->
  forall prog s,
    fst (arun step s (filter keeps prog)) = fst (arun step s prog) /\
    snd (arun step s (filter keeps prog)) =
      map snd (filter (fun x => keeps (fst x)) (combine prog (snd (arun step s prog)))).
Proof.
  intros Hm. induction prog as [|o prog IH]; intros s; [cbn; auto|].
  cbn [filter]. destruct (keeps o) eqn:Ek.
  - cbn [arun]. destruct (step s o) as [s1 r]. destruct (IH s1) as [I1 I2].
    destruct (arun step s1 prog) as [s2 rs]. destruct (arun step s1 (filter keeps prog)) as [s3 rs'].
    cbn [fst snd combine filter map] in *. rewrite Ek. cbn [map snd]. split; congruence.
  - assert (Em : is_mutator o = true) by (unfold keeps in Ek; destruct (is_mutator o); [reflexivity|discriminate]).
    cbn [arun]. specialize (Hm s o Em). destruct (step s o) as [s1 r]. cbn [fst] in Hm. subst s1.
    destruct (IH s) as [I1 I2]. destruct (arun step s prog) as [s2 rs]. cbn [fst snd combine filter] in *.
    rewrite Ek. auto.
Qed.

Theorem zip_view_unchanged : forall (a : archive) (prog : list op),
  let full := arun (zip_step false) (zip_init false a) prog in
  let pure := arun (zip_step false) (zip_init false a) (filter keeps prog) in
  fst pure = fst full /\
  snd pure = map snd (filter (fun x => keeps (fst x)) (combine prog (snd full))).
Proof. intros a prog. apply arun_without_mutators. intros s o H. now apply zip_mutators_refused. Qed.

Theorem tar_view_unchanged : forall (a : archive) (prog : list op),
  let full := arun (tar_step false) (tar_init false a) prog in
  let pure := arun (tar_step false) (tar_init false a) (filter keeps prog) in
  fst pure = fst full /\
  snd pure = map snd (filter (fun x => keeps (fst x)) (combine prog (snd full))).
Proof. intros a prog. apply arun_without_mutators. intros s o H. now apply tar_mutators_refused. Qed.
