(* Proofs/CacheCopy.v — C11/C10: copyFile between two MemMapFs layers, with everything it leaves unchanged.
   The base handle may come from Open or from OpenFile with any flags (copyFileToLayer); it is only read.
   Result: the copy succeeds, the layer binds the name to a regular file holding the base's bytes, every
   other name / node / handle of the layer is as before (new directories above the name apart), the base's
   tree and bytes are untouched. *)
From AF Require Import Lib.Bytes Lib.Path Lib.Ops Gen.Consts Model.MemFile Model.MemFs Model.WfOps Model.Union Model.Cow
  Model.Cache Proofs.MemFsBasics Proofs.MemFsPath Proofs.MemFsWF Proofs.MemBelow Proofs.MemFsStep Proofs.MemFsInv Proofs.MemFsRename
  Proofs.CacheProof Proofs.CacheReady Proofs.CacheInv Proofs.CacheFrames Proofs.CacheHandles.
Local Open Scope Z_scope.

(* ---------- the base handle: open, at offset k, on the regular file fb (any access mode) ---------- *)
Definition BaseAt' (s : mst) (bh fb : nat) (nb : node) (k : Z) : Prop :=
  exists hb, nth_error (mhandles s) bh = Some hb /\ href hb = fb /\ hclosed hb = false /\ hat hb = k /\ get_node s fb = Some nb.

(* what reading through bh leaves alone *)
Definition BKeep (bh : nat) (s s' : mst) : Prop :=
  fs_view s' = fs_view s /\ length (mhandles s') = length (mhandles s) /\
  forall j, j <> bh -> nth_error (mhandles s') j = nth_error (mhandles s) j.
Lemma BKeep_refl bh s : BKeep bh s s. Proof. repeat split. Qed.
Lemma BKeep_trans bh a b c : BKeep bh a b -> BKeep bh b c -> BKeep bh a c.
Proof. intros (A1 & A2 & A3) (B1 & B2 & B3). split; [congruence|]. split; [congruence|]. intros j Hj. rewrite B3, A3; auto. Qed.
Lemma BKeep_bump bh s : BKeep bh s (bump s). Proof. repeat split. Qed.
Lemma BKeep_set bh s h : BKeep bh s (bump (set_handle s bh h)).
Proof.
  split; [reflexivity|]. split; [unfold bump, set_handle; cbn [mhandles]; apply list_set_len|].
  intros j Hj. unfold bump, set_handle. cbn [mhandles]. apply nth_error_list_set_neq. congruence.
Qed.

Lemma base_read_more' s bh fb nb k :
  BaseAt' s bh fb nb k -> 0 <= k < zlen (ndata nb) ->
  let kk := Z.min 32768 (zlen (ndata nb) - k) in
  exists s', m_step s (HRead bh 32768) = (s', RData (slice (ndata nb) k (k + kk)) None) /\
             BaseAt' s' bh fb nb (k + kk) /\ BKeep bh s s'.
Proof.
  intros [hb [Hh [Hf [Hc [Hk Hn]]]]] Hr kk. subst fb k.
  rewrite (mstep_hread s bh hb nb 32768 Hh Hn), (f_read_more (ndata nb) hb 32768 Hc Hr) by lia.
  cbn [fst snd]. eexists. split; [reflexivity|]. split; [|apply BKeep_set].
  exists (set_at hb (hat hb + kk)). repeat split; try assumption.
  unfold bump, set_handle. cbn [mhandles]. apply nth_error_list_set_eq. exact (nth_error_lt _ _ _ Hh).
Qed.

Lemma base_read_eof' s bh fb nb :
  BaseAt' s bh fb nb (zlen (ndata nb)) ->
  exists s', m_step s (HRead bh 32768) = (s', RData [] (Some (E KEOF))) /\
             BaseAt' s' bh fb nb (zlen (ndata nb)) /\ BKeep bh s s'.
Proof.
  intros [hb [Hh [Hf [Hc [Hk Hn]]]]]. subst fb.
  rewrite (mstep_hread s bh hb nb 32768 Hh Hn), (f_read_eof (ndata nb) hb 32768 Hc Hk) by lia.
  cbn [fst snd]. eexists. split; [reflexivity|]. split; [|apply BKeep_set].
  exists hb. repeat split; try assumption.
  unfold bump, set_handle. cbn [mhandles]. apply nth_error_list_set_eq. exact (nth_error_lt _ _ _ Hh).
Qed.

Lemma base_hstat' s bh fb nb k : BaseAt' s bh fb nb k -> m_step s (HStat bh) = (bump s, RInfo (finfo_of nb)).
Proof. intros [h [H1 [H2 [_ [_ H3]]]]]. subst fb. exact (mstep_hstat s bh h nb H1 H3). Qed.
Lemma BaseAt'_bump s bh fb nb k : BaseAt' s bh fb nb k -> BaseAt' (bump s) bh fb nb k.
Proof. intros [hb H]. exists hb. exact H. Qed.

(* ---------- the layer: what writing through lh leaves alone ---------- *)
Definition LTouch (lh fl : nat) (s s' : mst) : Prop :=
  mdata s' = mdata s /\ length (mheap s') = length (mheap s) /\ length (mhandles s') = length (mhandles s) /\
  (forall j, j <> lh -> nth_error (mhandles s') j = nth_error (mhandles s) j) /\
  (forall r, r <> fl -> get_node s' r = get_node s r) /\
  (forall n, get_node s fl = Some n -> exists n', get_node s' fl = Some n' /\ ndir n' = ndir n).
Lemma LTouch_refl lh fl s : LTouch lh fl s s.
Proof. repeat split; auto. intros n Hn. now exists n. Qed.
Lemma LTouch_trans lh fl a b c : LTouch lh fl a b -> LTouch lh fl b c -> LTouch lh fl a c.
Proof.
  intros (A1 & A2 & A3 & A4 & A5 & A6) (B1 & B2 & B3 & B4 & B5 & B6).
  split; [congruence|]. split; [congruence|]. split; [congruence|].
  split; [intros j Hj; rewrite B4, A4; auto|]. split; [intros r Hr; rewrite B5, A5; auto|].
  intros n Hn. destruct (A6 n Hn) as (n1 & Hn1 & D1). destruct (B6 n1 Hn1) as (n2 & Hn2 & D2). exists n2. split; [exact Hn2 | congruence].
Qed.
Lemma LTouch_of_hop lh fl s s' h h' : HopEff s s' lh h h' -> href h = fl -> LTouch lh fl s s'.
Proof.
  intros [H1 H2 H3 H4 _ _ _ H8 H9 _] <-. repeat split; auto.
  intros n Hn. destruct (H9 n Hn) as (n' & A & B & _). now exists n'.
Qed.

Lemma layer_handle s lh fl key d : LayerAt s lh fl key d -> exists hl nl, nth_error (mhandles s) lh = Some hl /\ href hl = fl /\ get_node s fl = Some nl.
Proof. intros (hl & nl & A & B & _ & _ & _ & C & _). now exists hl, nl. Qed.

(* one method through lh *)
Lemma layer_hop_touch s lh fl key d o :
  LayerAt s lh fl key d -> op_handle_of o = Some lh -> WF s -> WfOps.wf_op_ord s o = true ->
  LTouch lh fl s (fst (m_step s o)) /\ WF (fst (m_step s o)).
Proof.
  intros HL Ho W Hwf. destruct (layer_handle s lh fl key d HL) as (hl & nl & Hh & Hf & Hn). subst fl.
  destruct (hop_eff s o lh hl nl Ho Hh Hn) as (h' & E & _).
  split; [exact (LTouch_of_hop lh (href hl) s _ hl h' E eq_refl) | now apply WF_step_ord].
Qed.

(* io.Copy's loop: any file size; the base is only read, the layer only written through lh *)
Lemma io_copy_full bh fb nb lh fl key : forall fuel sb sl k,
  BaseAt' sb bh fb nb k -> 0 <= k <= zlen (ndata nb) ->
  LayerAt sl lh fl key (firstn (Z.to_nat k) (ndata nb)) -> WF sl ->
  (Z.to_nat (zlen (ndata nb) - k) < fuel)%nat ->
  exists sb' sl', io_copy m_step m_step fuel sb sl bh lh k = (sb', sl', zlen (ndata nb), None) /\
                  BaseAt' sb' bh fb nb (zlen (ndata nb)) /\ LayerAt sl' lh fl key (ndata nb) /\
                  BKeep bh sb sb' /\ LTouch lh fl sl sl' /\ WF sl'.
Proof.
  induction fuel as [|fuel IH]; intros sb sl k Hb Hk Hl W Hf; [lia|].
  cbn [io_copy]. destruct (Z.eq_dec k (zlen (ndata nb))) as [He|He].
  - subst k. destruct (base_read_eof' sb bh fb nb Hb) as [sb' [Hs [Hb' Hv]]]. rewrite Hs.
    cbn [zlen length Z.of_nat Z.ltb Z.compare errk_eqb ek E]. rewrite Z.add_0_r.
    exists sb', sl. split; [reflexivity|]. split; [exact Hb'|]. split; [rewrite firstn_zlen in Hl; exact Hl|].
    split; [exact Hv|]. split; [apply LTouch_refl | exact W].
  - assert (Hr : 0 <= k < zlen (ndata nb)) by lia.
    destruct (base_read_more' sb bh fb nb k Hb Hr) as [sb' [Hs [Hb' Hv]]]. cbv zeta in *. rewrite Hs.
    set (kk := Z.min 32768 (zlen (ndata nb) - k)) in *.
    assert (Hkk : 0 < kk) by (unfold kk; lia).
    assert (Hz : zlen (slice (ndata nb) k (k + kk)) = kk) by (rewrite zlen_slice; unfold kk; lia).
    assert (Hne : slice (ndata nb) k (k + kk) <> []).
    { intros Hq. rewrite Hq in Hz. unfold zlen in Hz. cbn in Hz. lia. }
    destruct (layer_write sl lh fl key _ _ Hl Hne) as [sl' [Hw Hl']].
    destruct (layer_hop_touch sl lh fl key _ (HWrite lh (slice (ndata nb) k (k + kk))) Hl eq_refl W eq_refl) as [Ht W'].
    rewrite Hw in Ht, W'. cbn [fst] in Ht, W'. rewrite Hz in *.
    assert (E1 : (0 <? kk) = true) by (apply Z.ltb_lt; lia). rewrite E1, Hw.
    assert (E2 : (kk <? 0) = false) by (apply Z.ltb_ge; lia).
    assert (E3 : (kk <? kk) = false) by (apply Z.ltb_ge; lia).
    assert (E4 : (kk =? kk) = true) by (apply Z.eqb_eq; reflexivity).
    rewrite E2, E3, E4. cbn [orb negb].
    rewrite firstn_slice in Hl' by lia.
    destruct (IH sb' sl' (k + kk) Hb' ltac:(unfold kk; lia) Hl' W' ltac:(unfold kk in *; lia)) as [sb2 [sl2 [Hc [Hb2 [Hl2 [Hv2 [Ht2 W2]]]]]]].
    exists sb2, sl2. split; [exact Hc|]. split; [exact Hb2|]. split; [exact Hl2|].
    split; [exact (BKeep_trans bh _ _ _ Hv Hv2)|]. split; [exact (LTouch_trans lh fl _ _ _ Ht Ht2) | exact W2].
Qed.

Lemma LTouch_frame lh fl s s' :
  LTouch lh fl s s' -> (forall n, get_node s fl = Some n -> ndir n = false) -> Frame Some s s' /\ dkeep (only fl) s s'.
Proof.
  intros (H1 & H2 & _ & _ & H5 & H6) Hfile. split; [split|].
  - intros k. left. cbn [olookup]. unfold lookup. now rewrite H1.
  - intros r n Hn. destruct (Nat.eq_dec r fl) as [->|Hne].
    + destruct (H6 n Hn) as (n' & A & B). exists n'. split; [exact A|]. split; [exact B|]. intros Hd. rewrite (Hfile n Hn) in Hd. discriminate.
    + exists n. rewrite (H5 r Hne). auto.
  - intros k r n' _ Hf Hn'. exfalso. apply get_some_lt in Hn'. unfold fresh_in in Hf. lia.
  - lia.
  - intros r n n' Hn Hn' HX. rewrite (H5 r) in Hn' by (intros E; now apply HX). congruence.
Qed.

(* old handles (below a fixed index) survive *)
Definition hkeep_below (m : nat) (s s' : mst) : Prop := forall i, (i < m)%nat -> nth_error (mhandles s') i = nth_error (mhandles s) i.
Lemma hkeep_below_trans m a b c : hkeep_below m a b -> hkeep_below m b c -> hkeep_below m a c.
Proof. intros H1 H2 i Hi. rewrite H2, H1; auto. Qed.
Lemma hkeep_of_below s s' : hkeep_below (length (mhandles s)) s s' -> hkeep s s'.
Proof. intros H i h Hi. rewrite H; [exact Hi | now apply nth_error_lt in Hi]. Qed.

(* ---------- copyFile's directory preparation, with what it leaves unchanged ---------- *)
Lemma dir_prep_full sl p :
  WF sl -> wf_name p = true -> normalize_path p <> s_slash -> no_file_prefix sl (normalize_path p) = true ->
  let key := normalize_path p in
  exists sl1, dir_prep sl p = (sl1, None) /\ WF sl1 /\ is_dir_at sl1 (par key) = true /\
    Frame Some sl sl1 /\ dkeep nobody sl sl1 /\ mhandles sl1 = mhandles sl /\ chain_of (par key) sl sl1.
Proof.
  intros W Hw Hr Hn key. fold key in Hr, Hn.
  assert (Hc : canon key) by (apply canon_normalize; exact Hw).
  assert (Hcp : canon (par key)) by now apply canon_par.
  unfold dir_prep, l_exists. rewrite (copy_dir_key p Hw Hr). fold key.
  destruct (lookup sl (par key)) as [d|] eqn:Hp.
  - destruct (GWF_lookup_node _ _ _ _ _ _ W Hp) as (pn & Hpn).
    rewrite (CacheReady.stat_found sl (par key) d pn) by (try rewrite (canon_norm _ Hcp); assumption).
    exists (bump sl). split; [reflexivity|]. split; [now apply WF_bump|].
    split; [change (is_dir_at sl (par key) = true); now apply (no_file_prefix_parent sl key d)|].
    split; [apply frame_bump|]. split; [now apply dkeep_view|]. split; [reflexivity|].
    intros k' r Hk Hf. exfalso. destruct (WF_bound_ok sl W k' r Hk) as (x & Hx). exact (fresh_not_old sl r x Hf Hx).
  - rewrite (CacheReady.stat_missing sl (par key)) by (rewrite (canon_norm _ Hcp); assumption).
    cbn [is_not_exist ek EW errk_eqb].
    assert (Hwp : wf_name (par key) = true) by (unfold wf_name; rewrite (canon_norm _ Hcp); now destruct Hcp).
    assert (Hpre : prefixes_dirs (bump sl) (normalize_path (par key)) = true).
    { rewrite (canon_norm _ Hcp). exact (no_file_prefix_prefixes_dirs sl key W Hc Hr Hn). }
    destruct (mkdirall_step (bump sl) (par key) 511 (WF_bump sl W) Hwp Hpre) as (Hres & W' & F & D & Hh & Hd & Hch).
    rewrite (canon_norm _ Hcp) in Hd, Hch.
    destruct (m_step (bump sl) (MkdirAll (par key) 511)) as [s' r]. cbn [fst snd] in *. subst r.
    exists s'. split; [reflexivity|]. split; [exact W'|]. split; [exact Hd|].
    split; [eapply frame_id_comp; [apply frame_bump | exact F]|]. split; [exact D|]. split; [exact Hh|].
    intros k' r Hk Hf. exact (Hch k' r Hk Hf).
Qed.

(* ---------- copyFile after the preparation ---------- *)
Lemma copy_body_full sb sl1 p bh fb nb :
  BaseAt' sb bh fb nb 0 -> ndir nb = false ->
  WF sl1 -> wf_name p = true -> normalize_path p <> s_slash ->
  is_dir_at sl1 (par (normalize_path p)) = true -> kind_at sl1 (normalize_path p) <> Some true ->
  let key := normalize_path p in
  exists sb' sl' fl nl, copy_body sb sl1 p bh = (sb', sl', None) /\
    BKeep bh sb sb' /\ BaseAt' sb' bh fb nb (zlen (ndata nb)) /\
    WF sl' /\ Frame Some sl1 sl' /\ dkeep (only fl) sl1 sl' /\ hkeep sl1 sl' /\
    lookup sl' key = Some fl /\ get_node sl' fl = Some nl /\ ndir nl = false /\ ndata nl = ndata nb /\ nmtime nl = nmtime nb /\
    (lookup sl1 key = Some fl \/ (lookup sl1 key = None /\ fresh_in sl1 fl)) /\
    (forall k' r, lookup sl' k' = Some r -> fresh_in sl1 r ->
       (k' = key /\ r = fl) \/ (below k' key = true /\ exists n, get_node sl' r = Some n /\ ndir n = true /\ ndata n = [])).
Proof.
  intros Hb Hnd W Hw Hr Hpd Hkind key. fold key in Hr, Hpd, Hkind.
  assert (Hc : canon key) by (apply canon_normalize; exact Hw).
  assert (Hnfp : no_file_prefix sl1 key = true) by (now apply dir_parent_nfp).
  destruct (create_step sl1 p W Hw Hr Hnfp Hkind) as (fl & Hres & W2 & F2 & D2 & K2 & Hh2 & Hlen2 & Hl2 & (n2 & Hn2 & Hn2d & Hn2e) & Hold & Hch2).
  fold key in Hl2, Hold, Hch2.
  unfold copy_body. destruct (m_step sl1 (Create p)) as [sl2 rc] eqn:Ecr. cbn [fst snd] in *. subst rc.
  set (lh := length (mhandles sl1)) in *.
  rewrite (base_hstat' sb bh fb nb 0 Hb).
  assert (Hsz : fi_size (finfo_of nb) = zlen (ndata nb)) by (unfold finfo_of; cbn [fi_size]; rewrite Hnd; reflexivity).
  rewrite Hsz.
  assert (Hl0 : LayerAt sl2 lh fl key (firstn (Z.to_nat 0) (ndata nb))).
  { exists (mkH fl 0 0 false false), n2. cbn [firstn Z.to_nat href hclosed hro hat]. repeat split; assumption. }
  destruct (io_copy_full bh fb nb lh fl key (S (S (Z.to_nat (zlen (ndata nb))))) (bump sb) sl2 0
              (BaseAt'_bump _ _ _ _ _ Hb) ltac:(pose proof (zlen_ge0 (ndata nb)); lia) Hl0 W2 ltac:(lia))
    as [sb2 [sl3 [Hio [Hb2 [Hl3 [Hv [Ht3 W3]]]]]]].
  rewrite Hio. rewrite (base_hstat' sb2 bh fb nb _ Hb2). rewrite Hsz, Z.eqb_refl. cbn [negb].
  destruct (layer_close sl3 lh fl _ _ Hl3) as [sl4 [nl4 [Hcl [Hn4 [Hd4 [Hdat4 Hl4]]]]]].
  destruct (layer_hop_touch sl3 lh fl key _ (HClose lh) Hl3 eq_refl W3 eq_refl) as [Ht4 W4].
  rewrite Hcl in Ht4, W4. cbn [fst] in Ht4, W4. rewrite Hcl.
  destruct (layer_chtimes sl4 p fl nl4 (fi_mtime (finfo_of nb)) Hl4 Hn4) as [sl5 [Hct [Hn5 Hl5]]].
  destruct (attr_step sl4 (Chtimes p (fi_mtime (finfo_of nb))) eq_refl) as (F5 & D5 & Hh5 & W5).
  rewrite Hct in F5, D5, Hh5, W5. cbn [fst] in F5, D5, Hh5, W5. rewrite Hct.
  exists (bump sb2), sl5, fl, (with_mtime (fi_mtime (finfo_of nb)) nl4).
  split; [reflexivity|].
  split; [eapply BKeep_trans; [apply BKeep_bump|]; eapply BKeep_trans; [exact Hv | apply BKeep_bump]|].
  split; [now apply BaseAt'_bump|]. split; [now apply W5|].
  (* frames of the layer *)
  assert (Hfile2 : forall n, get_node sl2 fl = Some n -> ndir n = false) by (intros n Hn; rewrite Hn2 in Hn; now inversion Hn; subst).
  assert (Ht24 : LTouch lh fl sl2 sl4) by (eapply LTouch_trans; eauto).
  destruct (LTouch_frame lh fl sl2 sl4 Ht24 Hfile2) as [F24 D24].
  assert (F14 : Frame Some sl1 sl4) by (eapply frame_comp_id; [exact F2 | exact F24]).
  split; [eapply frame_comp_id; [exact F14 | exact F5]|].
  split.
  { eapply dkeep_trans; [exact (frame_kkeep _ _ _ F14) | | eapply dkeep_weaken; [|exact D5]; intros r []].
    eapply dkeep_trans; [exact (frame_kkeep _ _ _ F2) | exact D2 | exact D24]. }
  split.
  { intros i h Hi. rewrite Hh5. destruct Ht24 as (_ & _ & _ & Ho & _). rewrite Ho; [now apply K2|].
    apply nth_error_lt in Hi. unfold lh. lia. }
  split; [exact Hl5|]. split; [exact Hn5|]. split; [exact Hd4|]. split; [exact Hdat4|].
  split; [cbn [nmtime with_mtime]; unfold finfo_of; cbn [fi_mtime]; reflexivity|].
  split; [exact Hold|].
  intros k' r Hk Hf.
  assert (Hk2 : lookup sl2 k' = Some r).
  { pose proof (attr_lookup sl4 (Chtimes p (fi_mtime (finfo_of nb))) k' eq_refl) as E5. rewrite Hct in E5. cbn [fst] in E5.
    rewrite E5 in Hk. destruct Ht24 as (Hd24 & _). unfold lookup in *. now rewrite Hd24 in Hk. }
  destruct (Hch2 k' r Hk2 Hf) as [Hx|(Hbel & n & Hn & Hnd2 & Hne2)]; [now left | right]. split; [exact Hbel|].
  assert (Hrf : r <> fl).
  { intros ->. assert (k' = key) by (apply (GWF_inj _ _ _ sl2 k' key fl W2); auto). subst k'. rewrite below_irrefl in Hbel. discriminate. }
  destruct (fr_nodes _ _ _ (frame_comp_id _ _ _ _ F24 F5) r n Hn) as (n' & Hn' & Hd' & Hk').
  exists n'. split; [exact Hn'|]. split; [congruence|]. rewrite Hk' by exact Hnd2. exact Hne2.
Qed.

(* ---------- copyFile as a whole ---------- *)
Theorem copy_file_full sb sl p bh fb nb :
  BaseAt' sb bh fb nb 0 -> ndir nb = false ->
  WF sl -> wf_name p = true -> normalize_path p <> s_slash ->
  no_file_prefix sl (normalize_path p) = true -> kind_at sl (normalize_path p) <> Some true ->
  let key := normalize_path p in
  exists sb' sl' fl nl, copy_file m_step m_step sb sl p bh = (sb', sl', None) /\
    BKeep bh sb sb' /\ BaseAt' sb' bh fb nb (zlen (ndata nb)) /\
    WF sl' /\ Frame Some sl sl' /\ dkeep (only fl) sl sl' /\ hkeep sl sl' /\
    lookup sl' key = Some fl /\ get_node sl' fl = Some nl /\ ndir nl = false /\ ndata nl = ndata nb /\ nmtime nl = nmtime nb /\
    (lookup sl key = Some fl \/ (lookup sl key = None /\ fresh_in sl fl)) /\
    (forall k' r, lookup sl' k' = Some r -> fresh_in sl r ->
       (k' = key /\ r = fl) \/ (below k' key = true /\ exists n, get_node sl' r = Some n /\ ndir n = true /\ ndata n = [])).
Proof.
  intros Hb Hnd W Hw Hr Hnfp Hkind key. fold key in Hr, Hnfp, Hkind.
  assert (Hc : canon key) by (apply canon_normalize; exact Hw).
  destruct (dir_prep_full sl p W Hw Hr Hnfp) as (sl1 & Hprep & W1 & Hpd & F1 & D1 & Hh1 & Hch1). fold key in Hpd, Hch1.
  (* the name itself is not touched by the preparation *)
  assert (Hkey1 : lookup sl1 key = lookup sl key).
  { destruct (fr_keys _ _ _ F1 key) as [E|(E & r & Hl & Hf)]; [exact E|]. exfalso. cbn [olookup] in E.
    destruct (Hch1 key r Hl Hf) as ([E2|E2] & _).
    - symmetry in E2. revert E2. now apply par_neq.
    - apply below_shorter in E2. pose proof (par_shorter key Hc Hr). unfold par in *. lia. }
  assert (Hkind1 : kind_at sl1 key <> Some true).
  { assert (E : kind_at sl1 key = kind_at sl key).
    { unfold kind_at. rewrite Hkey1. destruct (lookup sl key) as [r|] eqn:Hlk; [|reflexivity].
      destruct (WF_bound_ok sl W key r Hlk) as (n & Hn). destruct (fr_nodes _ _ _ F1 r n Hn) as (n' & Hn' & Hd' & _).
      rewrite Hn, Hn', Hd'. reflexivity. }
    rewrite E. exact Hkind. }
  rewrite copy_file_prep, Hprep.
  destruct (copy_body_full sb sl1 p bh fb nb Hb Hnd W1 Hw Hr Hpd Hkind1)
    as (sb' & sl' & fl & nl & Hcb & Hbk & Hb' & W' & F2 & D2 & K2 & Hl' & Hn' & Hd' & Hdat' & Hmt' & Hold & Hch2).
  fold key in Hl', Hold, Hch2.
  exists sb', sl', fl, nl. split; [exact Hcb|]. split; [exact Hbk|]. split; [exact Hb'|]. split; [exact W'|].
  split; [eapply frame_comp_id; [exact F1 | exact F2]|].
  split; [eapply dkeep_trans; [exact (frame_kkeep _ _ _ F1) | eapply dkeep_weaken; [|exact D1]; intros r [] | exact D2]|].
  split; [intros i h Hi; apply K2; now rewrite Hh1|].
  split; [exact Hl'|]. split; [exact Hn'|]. split; [exact Hd'|]. split; [exact Hdat'|]. split; [exact Hmt'|].
  split.
  { rewrite Hkey1 in Hold. destruct Hold as [Ho|[Ho Hf]]; [now left | right; split; [exact Ho|]].
    exact (fresh_mono sl sl1 fl (fr_heap _ _ _ F1) Hf). }
  intros k' r Hk Hf. destruct (fresh_or_old sl1 r) as [Hf1|(n1 & Hn1)].
  - exact (Hch2 k' r Hk Hf1).
  - right. pose proof (frame_old _ _ _ _ _ _ F2 Hk Hn1) as Hk1. cbn [olookup] in Hk1.
    destruct (Hch1 k' r Hk1 Hf) as (Hwhere & n & Hn & Hdn & Hen). rewrite Hn1 in Hn. inversion Hn; subst n.
    split.
    + destruct Hwhere as [->|Hbel].
      * apply below_par; auto. intros E. rewrite E in Hk1.
        destruct (g_root _ _ _ _ W) as (r0 & n0 & Hl0 & Hn0 & _).
        assert (Hl01 : lookup sl1 s_slash = Some r0) by (apply (frame_keep Some sl sl1 s_slash r0 F1); exact Hl0).
        rewrite Hk1 in Hl01. inversion Hl01; subst r0. exact (fresh_not_old sl r n0 Hf Hn0).
      * eapply below_trans; [exact Hbel|]. apply below_par; auto. intros E. rewrite E in Hbel.
        destruct (WF_bound_ok sl1 W1 k' r Hk1) as (x & _). apply (below_not_root k' s_slash (g_canon _ _ _ _ W1 k' r Hk1) Hbel). reflexivity.
    + destruct (fr_nodes _ _ _ F2 r n1 Hn1) as (n2 & Hn2 & Hd2 & Hk2). exists n2. split; [exact Hn2|]. split; [congruence|].
      rewrite Hk2 by exact Hdn. exact Hen.
Qed.
