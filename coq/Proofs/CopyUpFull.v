(* Proofs/CopyUpFull.v — C06, copy-up at full strength, MemMapFs on both sides: for EVERY
   well-formed overlay state (the invariant WF of C01), EVERY rooted name in any spelling and a
   regular base file of ANY size, copyToLayer succeeds exactly when the name does not lie below a
   regular file of the overlay; then the overlay holds the base's bytes and mtime under the name,
   every other entry of the overlay is as before except that missing ancestor directories — any
   number of levels — have appeared, and the overlay is well-formed again; otherwise nothing in the
   overlay has changed.  The base's stored filesystem is untouched in both cases. *)
From AF Require Import Lib.Bytes Lib.Path Lib.Ops Gen.Consts Model.MemFile Model.MemFs Model.WfOps Model.CowView
  Model.ReadOnly Model.Union Model.Cow
  Proofs.MemFsPath Proofs.MemFsBasics Proofs.MemFsWF Proofs.MemBelow Proofs.MemFsStep Proofs.MemFsInv Proofs.PathProof
  Proofs.CopyUpProof Proofs.CowLayer Proofs.CowFileOps Proofs.CopyFailedCreate.
Local Open Scope Z_scope.

(* ---------------- an invariant of the overlay carried through io.Copy ---------------- *)
Lemma io_copy_layer_inv {B : Type} (bstep : B -> op -> B * res) (P : mst -> Prop) lh :
  (forall s b, P s -> P (fst (m_step s (HWrite lh b)))) ->
  forall fuel sb sl bh w, P sl -> P (snd (fst (fst (io_copy bstep m_step fuel sb sl bh lh w)))).
Proof.
  intros HP. induction fuel as [|fu IH]; intros sb sl bh w Hs; cbn [io_copy]; [exact Hs|].
  destruct (bstep sb (HRead bh 32768)) as [sb1 r]. destruct r as [| | | | | |chunk er| | | | |]; try exact Hs.
  match goal with |- context [if 0 <? zlen chunk then ?a else ?b] =>
    destruct (if 0 <? zlen chunk then a else b) as [[sl1 w1] werr] eqn:Et end.
  assert (H1 : P sl1).
  { destruct (0 <? zlen chunk); [|inversion Et; subst; exact Hs].
    pose proof (HP sl chunk Hs) as H. destruct (m_step sl (HWrite lh chunk)) as [s1 rw]. cbn [fst] in H.
    destruct rw; inversion Et; subst; exact H. }
  destruct werr as [e|]; [exact H1|]. destruct er as [e|]; [exact H1|]. apply IH. exact H1.
Qed.

(* ---------------- copyFile after the overlay's Create ---------------- *)
Definition copy_body (sb : mst) (sl2 : mst) (name : str) (bh lh : nat) : mst * mst * option err :=
  let '(sb1, st) := m_step sb (HStat bh) in
  let fuel := match st with RInfo fi => S (S (Z.to_nat (fi_size fi))) | _ => 2%nat end in
  let '(sb2, sl3, n, cerr) := io_copy m_step m_step fuel sb1 sl2 bh lh 0 in
  match cerr with
  | Some e =>
    let sl4 := fst (m_step sl3 (Remove name)) in
    let sl5 := fst (m_step sl4 (HClose lh)) in (sb2, sl5, Some e)
  | None =>
    let '(sb3, st2) := m_step sb2 (HStat bh) in
    match st2 with
    | RInfo bfi =>
      if negb (fi_size bfi =? n) then
        let sl4 := fst (m_step sl3 (Remove name)) in
        let sl5 := fst (m_step sl4 (HClose lh)) in (sb3, sl5, Some (E KEIO))
      else
        match m_step sl3 (HClose lh) with
        | (sl4, ROk) =>
          match m_step sl4 (Chtimes name (fi_mtime bfi)) with
          | (sl5, ROk) => (sb3, sl5, None)
          | (sl5, r) => (sb3, sl5, match res_err r with Some e => Some e | None => Some (E KOther) end)
          end
        | (sl4, r) =>
          let sl5 := fst (m_step sl4 (Remove name)) in
          let sl6 := fst (m_step sl5 (HClose lh)) in
          (sb3, sl6, match res_err r with Some e => Some e | None => Some (E KOther) end)
        end
    | _ =>
      let sl4 := fst (m_step sl3 (Remove name)) in
      let sl5 := fst (m_step sl4 (HClose lh)) in (sb3, sl5, Some (E KEIO))
    end
  end.

Lemma copy_tail_body sb sl1 name bh :
  copy_tail m_step m_step sb sl1 name bh =
  match m_step sl1 (Create name) with
  | (sl2, RHandle lh) => copy_body sb sl2 name bh lh
  | (sl2, r) => (sb, after_failed_create m_step sl2 name, match res_err r with Some e => Some e | None => Some (E KOther) end)
  end.
Proof. reflexivity. Qed.

(* copyFile removes the name after a failed Create (today's source): when the layer has no such entry the Remove
   is refused and only the clock moves *)
Lemma failed_create_no_entry s name : lookup s (normalize_path name) = None ->
  after_failed_create m_step s name = tick s.
Proof.
  intros Hno. rewrite after_failed_create_today, m_step_tick. cbn [m_step_raw fst]. unfold m_remove. cbv zeta.
  now rewrite Hno.
Qed.

Lemma LI_FH nn g lh s d a : LI nn g lh s d a -> FH g lh s d (mkH g a 0 false false).
Proof.
  intros [[Hl (n & Hn & Hd & Hdir & _)] Hh]. split; [exact Hh | reflexivity|]. exists n. auto.
Qed.

(* what every HWrite through lh keeps: well-formedness, a handle on the file node, and the frame *)
Definition layer_inv (g lh : nat) (s0 s : mst) : Prop :=
  WF s /\ hop_frame g lh s0 s /\ exists d h, FH g lh s d h.

Lemma layer_inv_write g lh s0 s b : layer_inv g lh s0 s -> layer_inv g lh s0 (fst (m_step s (HWrite lh b))).
Proof.
  intros (W & Fr & d & h & F).
  destruct (m_step_file_op g lh s d h (HWrite lh b) F eq_refl eq_refl) as (s1 & r & d1 & h1 & r' & E1 & _ & _ & F1 & Fr1).
  pose proof (WF_step s (HWrite lh b) W eq_refl) as W1. rewrite E1 in *. cbn [fst] in *.
  split; [exact W1|]. split; [eapply hop_frame_trans; eauto | eauto].
Qed.

Lemma step_frame g lh s d h o : WF s -> FH g lh s d h -> op_handle_of o = Some lh -> file_op o = true ->
  WF (fst (m_step s o)) /\ hop_frame g lh s (fst (m_step s o)).
Proof.
  intros W F Ho Hf. destruct (m_step_file_op g lh s d h o F Ho Hf) as (s1 & r & d1 & h1 & r' & E1 & _ & _ & F1 & Fr1).
  pose proof (WF_step s o W (file_op_wf_c01 s o Hf)) as W1. rewrite E1 in *. now split.
Qed.

(* Chtimes of the file: only the mtime of its node *)
Lemma chtimes_frame nn g lh s d mt name t : normalize_path name = nn -> WF s -> LF nn g s d mt ->
  WF (fst (m_step s (Chtimes name t))) /\ hop_frame g lh s (fst (m_step s (Chtimes name t))).
Proof.
  intros Hnn W [Hl (n & Hn & _)]. rewrite m_step_tick. cbn [m_step_raw fst]. unfold m_chtimes. rewrite Hnn, Hl. cbn [fst].
  split.
  - apply WF_tick. apply WF_attr; [apply keeps_mtime | exact W].
  - apply hop_frame_tick. split.
    + now rewrite mdata_upd.
    + intros r Hr. rewrite get_upd_other by congruence. reflexivity.
    + intros n1 Hn1. exists (with_mtime t n1). split; [now apply get_upd_same | now repeat split].
    + intros j _. now rewrite mhandles_upd.
Qed.

Theorem copy_body_mem sb1 sl2 name f nd bh g lh :
  let nn := normalize_path name in
  BI f nd bh sb1 0 -> ndir nd = false -> WF sl2 -> LI nn g lh sl2 [] 0 ->
  exists sb' sl', copy_body sb1 sl2 name bh lh = (sb', sl', None) /\
    fs_view sb' = fs_view sb1 /\ BI f nd bh sb' (zlen (ndata nd)) /\
    LF nn g sl' (ndata nd) (Some (nmtime nd)) /\ WF sl' /\ hop_frame g lh sl2 sl'.
Proof.
  intros nn Hb1 Hbd W2 Hl2. unfold copy_body.
  destruct (base_hstat f nd bh sb1 0 Hb1) as [sb2 [Es [Hb2 Hv2]]]. rewrite Es.
  destruct (finfo_of_file nd Hbd) as [Hsz Hmt]. rewrite Hsz.
  assert (Hz : 0 <= zlen (ndata nd)) by (unfold zlen; lia).
  set (fuel := S (S (Z.to_nat (zlen (ndata nd))))).
  destruct (io_copy_mem f nd bh nn g lh fuel sb2 sl2 0 0 Hb2 Hl2 ltac:(lia) ltac:(unfold fuel; lia))
    as [sb3 [sl3 [Ei [Hb3 [Hl3 Hv3]]]]].
  assert (I2 : layer_inv g lh sl2 sl2).
  { split; [exact W2|]. split; [apply hop_frame_refl|]. eexists. eexists. exact (LI_FH _ _ _ _ _ _ Hl2). }
  pose proof (io_copy_layer_inv m_step (layer_inv g lh sl2) lh (layer_inv_write g lh sl2) fuel sb2 sl2 bh 0 I2) as I3.
  rewrite Ei in *. cbn [fst snd] in I3. destruct I3 as (W3 & Fr3 & _).
  destruct (base_hstat f nd bh sb3 _ Hb3) as [sb4 [Es4 [Hb4 Hv4]]]. rewrite Es4, Hsz.
  assert (En : zlen (ndata nd) =? 0 + (zlen (ndata nd) - 0) = true) by (apply Z.eqb_eq; lia). rewrite En. cbn [negb].
  destruct (layer_close nn g lh sl3 _ _ Hl3) as [sl4 [Ecl Hl4]].
  destruct (step_frame g lh sl3 _ _ (HClose lh) W3 (LI_FH _ _ _ _ _ _ Hl3) eq_refl eq_refl) as [W4 Fr4].
  rewrite Ecl in *. cbn [fst] in W4, Fr4.
  destruct (layer_chtimes nn g sl4 _ name (fi_mtime (finfo_of nd)) eq_refl Hl4) as [sl5 [Ect Hl5]].
  destruct (chtimes_frame nn g lh sl4 _ None name (fi_mtime (finfo_of nd)) eq_refl W4 Hl4) as [W5 Fr5].
  rewrite Ect in *. cbn [fst] in W5, Fr5.
  exists sb4, sl5. split; [reflexivity|]. split; [congruence|]. split; [exact Hb4|].
  split; [rewrite Hmt in Hl5; exact Hl5|]. split; [exact W5|].
  eapply hop_frame_trans; [|exact Fr5]. eapply hop_frame_trans; [exact Fr3 | exact Fr4].
Qed.

(* ---------------- Create + copy, the directory of the name being there ---------------- *)
Lemma kind_at_cview s k : kind_at s k = option_map fst (cview s k).
Proof. unfold kind_at, cview. destruct (lookup s k) as [r|]; [|reflexivity]. now destruct (get_node s r). Qed.

Lemma kind_at_tick s k : kind_at (tick s) k = kind_at s k. Proof. reflexivity. Qed.
Lemma is_dir_at_tick s k : is_dir_at (tick s) k = is_dir_at s k. Proof. reflexivity. Qed.
Lemma below_file_tick s k : below_file (tick s) k = below_file s k.
Proof. apply below_file_ext; reflexivity. Qed.

Theorem copy_tail_in_dir sb1 sl1 name f nd bh :
  let nn := normalize_path name in
  WF sl1 -> wf_name name = true -> nn <> s_slash -> is_dir_at sl1 (par nn) = true -> kind_at sl1 nn <> Some true ->
  BI f nd bh sb1 0 -> ndir nd = false ->
  exists sb' sl' g, copy_tail m_step m_step sb1 sl1 name bh = (sb', sl', None) /\
    fs_view sb' = fs_view sb1 /\ BI f nd bh sb' (zlen (ndata nd)) /\
    LF nn g sl' (ndata nd) (Some (nmtime nd)) /\ WF sl' /\
    (forall k, k <> nn -> cview sl' k = cview sl1 k).
Proof.
  intros nn W1 Hw Hroot Hpd Hkind Hb1 Hbd. rewrite copy_tail_body.
  destruct (layer_create_in_dir sl1 name W1 Hw Hroot Hpd) as (sl2 & g & Ec & Hl2 & Hfr2 & _ & HW2). fold nn in Hl2, Hfr2.
  rewrite Ec. specialize (HW2 Hkind).
  destruct (copy_body_mem sb1 sl2 name f nd bh g (length (mhandles sl1)) Hb1 Hbd HW2 Hl2) as (sb' & sl' & Eb & Hv & Hb' & Hlf & W' & Fr).
  exists sb', sl', g. split; [exact Eb|]. split; [exact Hv|]. split; [exact Hb'|]. split; [exact Hlf|]. split; [exact W'|].
  intros k Hk. rewrite <- (Hfr2 k Hk). destruct Hl2 as [[Hlk _] _]. exact (hop_frame_cview g _ sl2 sl' nn HW2 Hlk Fr k Hk).
Qed.

(* ---------------- copyToLayer ---------------- *)
Lemma anc_dirs_absent_up s d : canon d -> lookup s d = None -> anc_dirs s (par d) -> anc_dirs s d.
Proof.
  intros Hc Hno H a r n Ha Hcase Hl Hn. apply (H a r n Ha); auto.
  destruct Hcase as [-> | [Hb | ->]]; [congruence | | now right; right].
  destruct (below_inv a d Ha Hc Hb) as [-> | Hb']; [now left | now right; left].
Qed.

(* the name is not below a file, its directory is missing: the directory is not below a file either *)
Lemma below_file_dir_of s k : WF s -> canon k -> k <> s_slash -> lookup s (par k) = None ->
  below_file s (par k) = below_file s k.
Proof.
  intros W Hc Hr Hno. assert (Hcp : canon (par k)) by now apply canon_par.
  assert (Hpr : par k <> s_slash).
  { intros E. destruct (g_root _ _ _ _ W) as (r0 & n0 & Hl0 & _). rewrite E in Hno. congruence. }
  destruct (below_file s k) eqn:E1; destruct (below_file s (par k)) eqn:E2; try reflexivity; exfalso.
  - (* dir clear, name not: impossible *)
    pose proof (below_file_false_anc s (par k) W Hcp E2) as Ha.
    pose proof (anc_dirs_absent_up s (par k) Hcp Hno Ha) as Ha'.
    rewrite (below_file_anc_dirs s k Hc Ha') in E1. discriminate.
  - pose proof (below_file_false_anc s k W Hc E1) as Ha.
    pose proof (anc_dirs_par s (par k) Hcp Hpr Ha) as Ha'.
    rewrite (below_file_anc_dirs s (par k) Hcp Ha') in E2. discriminate.
Qed.

Lemma new_dir_not_self nn k : canon nn -> nn <> s_slash -> (k = par nn \/ below k (par nn) = true) -> k <> nn.
Proof.
  intros Hc Hr [-> | Hb] E.
  - now apply (par_neq nn Hc Hr).
  - subst k. apply below_shorter in Hb. pose proof (par_shorter nn Hc Hr). lia.
Qed.

Definition copy_up_frame (nn : str) (sl sl' : mst) : Prop :=
  forall k, k <> nn ->
    cview sl' k = cview sl k \/
    (cview sl k = None /\ cview sl' k = Some (true, []) /\ (k = par nn \/ below k (par nn) = true)).

Theorem copy_up_full sb sl name f nd :
  WF sl -> wf_name name = true ->
  let nn := normalize_path name in
  nn <> s_slash ->
  lookup sb nn = Some f -> get_node sb f = Some nd -> ndir nd = false ->
  kind_at sl nn <> Some true ->
  exists sb' sl' e, copy_to_layer m_step m_step sb sl name = (sb', sl', e) /\
    fs_view sb' = fs_view sb /\
    (e = None <-> below_file sl nn = false) /\
    (e = None -> (exists g, LF nn g sl' (ndata nd) (Some (nmtime nd))) /\ WF sl' /\ copy_up_frame nn sl sl') /\
    (e <> None -> fs_view sl' = fs_view sl).
Proof.
  intros W Hw nn Hroot Hbl Hbn Hbd Hkind.
  pose proof (wf_name_canon name Hw) as Hc. fold nn in Hc.
  pose proof (copy_dir_key name Hw) as Hkey. fold nn in Hkey.
  assert (Hcd : canon (par nn)) by now apply canon_par.
  assert (Hwd : wf_name (copy_dir name) = true) by (unfold wf_name; rewrite Hkey; apply Hcd).
  unfold copy_to_layer, copy_to_layer_with.
  destruct (base_open sb name f nd Hbl Hbn) as [sb1 [Eo [Hb1 Hv1]]]. rewrite Eo.
  set (bh := length (mhandles sb)) in *.
  rewrite copy_file_tail. cbv zeta. unfold l_exists.
  destruct (lookup sl (par nn)) as [d|] eqn:Hd.
  - (* the directory of the name exists in the overlay *)
    destruct (GWF_lookup_node _ _ _ _ _ _ W Hd) as (dn & Hdn).
    assert (Hd' : lookup sl (normalize_path (copy_dir name)) = Some d) by (rewrite Hkey; exact Hd).
    rewrite (layer_stat_ok sl (copy_dir name) d dn Hd' Hdn). cbn [is_not_exist].
    destruct (ndir dn) eqn:Hdd.
    + (* ... as a directory *)
      assert (Hpd : is_dir_at (tick sl) (par nn) = true) by (rewrite is_dir_at_tick; unfold is_dir_at, kind_at; now rewrite Hd, Hdn, Hdd).
      destruct (copy_tail_in_dir sb1 (tick sl) name f nd bh (WF_tick sl W) Hw Hroot Hpd Hkind Hb1 Hbd)
        as (sb' & sl' & g & Et & Hv & Hb' & Hlf & W' & Hfr).
      rewrite Et. eexists. exists sl', None. split; [reflexivity|].
      split; [rewrite (base_close f nd bh sb' _ Hb'); congruence|].
      split; [split; [intros _; apply below_file_dir_parent; [exact Hc | now rewrite is_dir_at_tick in Hpd] | reflexivity]|].
      split; [|congruence]. intros _. split; [now exists g|]. split; [exact W'|].
      intros k Hk. left. now rewrite (Hfr k Hk).
    + (* ... as a regular file: Create is refused *)
      assert (Hno : lookup sl nn = None).
      { destruct (lookup sl nn) as [r|] eqn:Hl; [|reflexivity]. exfalso.
        destruct (g_par _ _ _ _ W nn r Hl (WF_fresh sl nn r W Hl) Hroot) as (p & pn & Hp & Hpn & Hpd & _); [intros [] | intros [] |].
        congruence. }
      rewrite copy_tail_body.
      rewrite (layer_create_below_file (tick sl) name d dn Hw Hno Hd Hdn Hdd).
      (* copyFile removes the name after the failed Create: no such entry, the Remove is refused *)
      rewrite (failed_create_no_entry (tick (tick sl)) name Hno).
      eexists. eexists. eexists. split; [reflexivity|].
      split; [|split; [|split; [discriminate | reflexivity]]].
      * (* the base handle is closed *)
        rewrite (base_close f nd bh sb1 _ Hb1). exact Hv1.
      * rewrite (parent_file_below sl nn d dn Hc Hd Hdn Hdd). split; discriminate.
  - (* the directory is missing: MkdirAll *)
    assert (Hd' : lookup sl (normalize_path (copy_dir name)) = None) by (rewrite Hkey; exact Hd).
    rewrite (stat_missing sl (copy_dir name) Hd'). cbn [is_not_exist ek EW].
    destruct (layer_mkdirall (tick sl) (copy_dir name) 511 (WF_tick sl W) Hwd) as [(Hbf & _ & Em) | (Hacc & sl1 & Em & W1 & _ & _ & Hdir1 & Hg1)];
      rewrite Hkey in *; rewrite Em.
    + (* refused *)
      eexists. eexists. eexists. split; [reflexivity|].
      split; [rewrite (base_close f nd bh sb1 _ Hb1); exact Hv1|].
      split; [|split; [discriminate | reflexivity]].
      rewrite below_file_tick in Hbf. rewrite (below_file_dir_of sl nn W Hc Hroot Hd) in Hbf. rewrite Hbf. split; discriminate.
    + (* created, any number of levels *)
      assert (Hbf : below_file sl nn = false).
      { destruct Hacc as [Hx | Hx]; [exfalso; apply Hx; exact Hd|]. rewrite below_file_tick in Hx.
        now rewrite <- (below_file_dir_of sl nn W Hc Hroot Hd). }
      specialize (Hdir1 Hd).
      assert (Hk1 : kind_at sl1 nn <> Some true).
      { destruct (Hg1 nn) as [E | (_ & _ & Hnew)].
        - rewrite kind_at_cview, E, cview_tick, <- kind_at_cview. exact Hkind.
        - exfalso. exact (new_dir_not_self nn nn Hc Hroot Hnew eq_refl). }
      destruct (copy_tail_in_dir sb1 sl1 name f nd bh W1 Hw Hroot Hdir1 Hk1 Hb1 Hbd)
        as (sb' & sl' & g & Et & Hv & Hb' & Hlf & W' & Hfr).
      rewrite Et. eexists. exists sl', None. split; [reflexivity|].
      split; [rewrite (base_close f nd bh sb' _ Hb'); congruence|].
      split; [split; [intros _; exact Hbf | reflexivity]|].
      split; [|congruence]. intros _. split; [now exists g|]. split; [exact W'|].
      intros k Hk. rewrite (Hfr k Hk). destruct (Hg1 k) as [E | (E1 & E2 & E3)].
      * left. now rewrite E, cview_tick.
      * right. rewrite cview_tick in E1. auto.
Qed.
