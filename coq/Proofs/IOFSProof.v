(* Proofs/IOFSProof.v — C15: facts about the io/fs adapters of Model/IOFS.v, for ALL names, inner
   filesystems, directories, page sizes, file contents and chunk sizes. *)
From Coq Require Import Sorting.Sorted Sorting.Permutation.
From AF Require Import Lib.Bytes Lib.Path Lib.Ops Gen.Consts Model.MemFile Model.ByteFile Model.MemFs Model.BasePath
  Model.Walk Model.Glob Model.IOFS Proofs.BytesLemmas Proofs.PathProof Proofs.MemFileProof.
Local Open Scope Z_scope.

(* ------------------------------------------------------------------------------------ *)
(** * io/fs.ValidPath *)

(* declarative: what the documentation of io/fs.ValidPath says *)
Definition good_elem (e : str) : Prop := e <> [] /\ e <> s_dot /\ e <> s_dotdot /\ ~ In SLASH e.
Definition valid_spec (name : str) : Prop :=
  name = s_dot \/ exists elems, elems <> [] /\ name = join_slash elems /\ Forall good_elem elems.

Lemma valid_from_split name : forall cur,
  valid_from name cur = forallb (fun e => negb (io_bad_elem e)) (split_aux name cur).
Proof.
  induction name as [|c name IH]; intros cur; cbn [valid_from split_aux forallb].
  - now rewrite andb_true_r.
  - destruct (N.eqb c SLASH); cbn [forallb]; now rewrite IH.
Qed.

Lemma join_split_aux s : forall cur, join_slash (split_aux s cur) = rev cur ++ s.
Proof.
  induction s as [|c s IH]; intros cur; cbn [split_aux].
  - cbn. now rewrite app_nil_r.
  - destruct (N.eqb_spec c SLASH) as [->|Hne].
    + rewrite join_slash_cons by apply split_aux_nonnil. now rewrite IH.
    + rewrite IH. cbn [rev]. now rewrite <- app_assoc.
Qed.

Lemma join_split s : join_slash (split_slash s) = s.
Proof. unfold split_slash. now rewrite join_split_aux. Qed.

Lemma bad_elem_false e : io_bad_elem e = false <-> e <> [] /\ e <> s_dot /\ e <> s_dotdot.
Proof.
  unfold io_bad_elem. rewrite !orb_false_iff.
  rewrite <- (not_true_iff_false (is_empty e)), <- (not_true_iff_false (is_dot e)), <- (not_true_iff_false (is_dotdot e)).
  rewrite is_empty_true, is_dot_true, is_dotdot_true. tauto.
Qed.

Theorem valid_path_spec name : valid_path name = true <-> valid_spec name.
Proof.
  unfold valid_path, valid_spec. rewrite orb_true_iff, is_dot_true, valid_from_split.
  fold (split_slash name). split.
  - intros [H|H]; [now left|]. right. exists (split_slash name). split; [apply split_aux_nonnil|].
    split; [now rewrite join_split|].
    apply Forall_forall. intros e He. rewrite forallb_forall in H. specialize (H e He).
    apply negb_true_iff, bad_elem_false in H. destruct H as [H1 [H2 H3]].
    repeat split; auto. pose proof (split_slash_pieces name) as Hp. rewrite Forall_forall in Hp. now apply Hp.
  - intros [H|[elems [Hn [-> Hf]]]]; [now left|]. right.
    rewrite split_join; [|exact Hn|].
    + apply forallb_forall. intros e He. rewrite Forall_forall in Hf. destruct (Hf e He) as [H1 [H2 [H3 _]]].
      apply negb_true_iff, bad_elem_false. auto.
    + apply Forall_forall. intros e He. rewrite Forall_forall in Hf. now destruct (Hf e He) as [_ [_ [_ H4]]].
Qed.

(* ------------------------------------------------------------------------------------ *)
(** * invalid names never reach the inner filesystem *)

Lemma iofs_open_invalid {St} (step : St -> op -> St * res) s name :
  valid_path name = false -> iofs_open step s name = (s, io_invalid).
Proof. intros H. unfold iofs_open. now rewrite H. Qed.

Lemma iofs_readfile_invalid {St} (step : St -> op -> St * res) fuel s name :
  valid_path name = false -> iofs_readfile step fuel s name = (s, io_invalid).
Proof. intros H. unfold iofs_readfile. now rewrite H. Qed.

Lemma iofs_open_valid {St} (step : St -> op -> St * res) s name :
  valid_path name = true -> iofs_open step s name = step s (Open name).
Proof. intros H. unfold iofs_open. now rewrite H. Qed.

(* a filesystem that answers every call with ROk: separates "rejected" from "forwarded" *)
Definition ok_step (s : unit) (o : op) : unit * res := (s, ROk).

Lemma iofs_readdir_invalid_iff :
  (forall St (step : St -> op -> St * res) s name, valid_path name = false -> iofs_readdir step s name = (s, io_invalid))
  <-> iofs_readdir_validates = 1.
Proof.
  split.
  - intros H. specialize (H unit ok_step tt [] eq_refl). unfold iofs_readdir in H.
    destruct (Z.eqb_spec iofs_readdir_validates 1) as [E|E]; [exact E|]. cbn in H. discriminate.
  - intros E St step s name Hv. unfold iofs_readdir. now rewrite E, Hv.
Qed.

Lemma iofs_stat_invalid_iff :
  (forall St (step : St -> op -> St * res) s name, valid_path name = false -> iofs_stat step s name = (s, io_invalid))
  <-> iofs_stat_validates = 1.
Proof.
  split.
  - intros H. specialize (H unit ok_step tt [] eq_refl). unfold iofs_stat in H.
    destruct (Z.eqb_spec iofs_stat_validates 1) as [E|E]; [exact E|]. cbn in H. discriminate.
  - intros E St step s name Hv. unfold iofs_stat. now rewrite E, Hv.
Qed.

Lemma iofs_sub_invalid_iff :
  (forall dir, valid_path dir = false -> iofs_sub_ok dir = false) <-> iofs_sub_validates = 1.
Proof.
  unfold iofs_sub_ok. split.
  - intros H. specialize (H [] eq_refl). destruct (Z.eqb_spec iofs_sub_validates 1) as [E|E]; [exact E|]. discriminate.
  - intros E dir Hv. now rewrite E, Hv.
Qed.

(* ------------------------------------------------------------------------------------ *)
(** * sort_by is a sort *)

Section Sort.
Context {A : Type} (lt : A -> A -> bool).
Hypothesis lt_asym : forall a b, lt a b = true -> lt b a = false.

(* "a may stand before b" *)
Definition le_of (a b : A) : Prop := lt b a = false.

Lemma insert_by_perm x l : Permutation (x :: l) (Ops.insert_by lt x l).
Proof.
  induction l as [|y l IH]; cbn [Ops.insert_by]; [reflexivity|].
  destruct (lt y x); [|reflexivity].
  etransitivity; [apply perm_swap|]. now apply perm_skip.
Qed.

Lemma sort_by_perm l : Permutation l (sort_by lt l).
Proof.
  unfold sort_by. induction l as [|x l IH]; cbn [fold_right]; [reflexivity|].
  etransitivity; [apply perm_skip, IH | apply insert_by_perm].
Qed.

Lemma insert_by_hdrel a x l : le_of a x -> HdRel le_of a l -> HdRel le_of a (Ops.insert_by lt x l).
Proof.
  intros Hax Hl. destruct l as [|y l]; cbn [Ops.insert_by]; [now constructor|].
  destruct (lt y x); constructor; [now inversion Hl | exact Hax].
Qed.

Lemma insert_by_sorted x l : Sorted le_of l -> Sorted le_of (Ops.insert_by lt x l).
Proof.
  induction l as [|y l IH]; intros Hs; cbn [Ops.insert_by]; [repeat constructor|].
  inversion Hs as [|? ? Hl Hhd]; subst.
  destruct (lt y x) eqn:E.
  - constructor; [now apply IH|]. apply insert_by_hdrel; [|exact Hhd]. unfold le_of. now apply lt_asym.
  - constructor; [exact Hs|]. constructor. exact E.
Qed.

Lemma sort_by_sorted l : Sorted le_of (sort_by lt l).
Proof.
  unfold sort_by. induction l as [|x l IH]; cbn [fold_right]; [constructor|]. now apply insert_by_sorted.
Qed.
End Sort.

Lemma bltb_asym a : forall b, bltb a b = true -> bltb b a = false.
Proof.
  induction a as [|x a IH]; intros [|y b]; cbn [bltb]; try discriminate; try reflexivity.
  intros H. apply orb_true_iff in H. apply orb_false_iff.
  destruct H as [H|H].
  - apply N.ltb_lt in H. split; [apply N.ltb_ge; lia|].
    apply andb_false_iff. left. apply N.eqb_neq. lia.
  - apply andb_true_iff in H as [H1 H2]. apply N.eqb_eq in H1. subst y.
    split; [apply N.ltb_irrefl|]. rewrite N.eqb_refl. cbn. now apply IH.
Qed.

Lemma by_name_asym a b : by_name a b = true -> by_name b a = false.
Proof. unfold by_name. apply bltb_asym. Qed.

(* sorted by name, in Go's string order: no entry is followed by one with a smaller name *)
Definition name_le (a b : finfo) : Prop := bleb (fi_name a) (fi_name b) = true.

Lemma name_le_le_of a b : le_of by_name a b <-> name_le a b.
Proof. unfold le_of, name_le, by_name, bleb. now rewrite negb_true_iff. Qed.

Lemma sorted_name_le l : Sorted (le_of by_name) l -> Sorted name_le l.
Proof.
  induction 1 as [|a l Hs IH Hhd]; constructor; [exact IH|].
  destruct Hhd; constructor. now apply name_le_le_of.
Qed.

(* the listing IOFS.ReadDir returns: sorted by name, the entries of the file's Readdir(-1) *)
Theorem iofs_readdir_sorted {St} (step : St -> op -> St * res) s name s' l e :
  iofs_readdir step s name = (s', RInfos l e) ->
  e = None /\ Sorted name_le l /\
  exists h s1 s2 l0,
    step s (Open name) = (s1, RHandle h) /\
    step s1 (HReaddir h (-1)) = (s2, RInfos l0 None) /\
    s' = fst (step s2 (HClose h)) /\
    Permutation l0 l.
Proof.
  unfold iofs_readdir.
  destruct (Z.eqb iofs_readdir_validates 1 && negb (valid_path name)); [discriminate|].
  destruct (step s (Open name)) as [s1 r1] eqn:E1.
  destruct r1; try discriminate.
  unfold readdirfile_readdir.
  destruct (step s1 (HReaddir h (-1))) as [s2 r2] eqn:E2.
  assert (Hc : forall r : res, (let '(s3, _) := step s2 (HClose h) in (s3, r)) = (fst (step s2 (HClose h)), r))
    by (intros r; now destruct (step s2 (HClose h))).
  destruct r2 as [| | |e2|h2|fi2|b2 e2|n2 e2|n2 e2|l2 [e2|]|l2 e2|nm2]; cbn iota beta; rewrite ?Hc;
    try (intros H; discriminate H).
  intros H. inversion H; subst. split; [reflexivity|]. split.
  - apply sorted_name_le, sort_by_sorted, by_name_asym.
  - exists h, s1, s2, l2. repeat split; auto. apply sort_by_perm.
Qed.

(* ------------------------------------------------------------------------------------ *)
(** * paging through a MemMapFs directory handle (mem.File.Readdir + readDirCount) *)

(* declarative: what a sequence of ReadDir(n) calls hands out of a listing [rest] that nobody modifies:
   n > 0: the next (at most) n entries, end-of-directory is reported exactly when nothing was left;
   n <= 0: everything that is left, without an error — and nothing is left afterwards *)
Fixpoint page_spec {A} (rest : list A) (ns : list Z) : list (list A * bool) :=
  match ns with
  | [] => []
  | n :: r =>
    if 0 <? n then (firstn (Z.to_nat n) rest, match rest with [] => true | _ => false end)
                   :: page_spec (skipn (Z.to_nat n) rest) r
    else (rest, false) :: page_spec [] r
  end.

Definition page_res (p : list finfo * bool) : res :=
  RInfos (fst p) (if snd p then Some (E KEOF) else None).

Definition node_info (s : mst) (r : nat) : finfo :=
  match get_node s r with Some c => finfo_of c | None => mkFi [] false 0 0 0 end.
(* the full listing of directory node [nd], in the order mem.File.Readdir serves it *)
Definition dir_infos (s : mst) (nd : node) : list finfo := map (node_info s) (dir_files s nd).

Lemma nth_error_list_set {A} (l : list A) i a b : nth_error l i = Some a -> nth_error (list_set i b l) i = Some b.
Proof.
  revert i; induction l as [|x l IH]; intros [|i]; cbn; try discriminate; auto.
Qed.

Lemma firstn_min_length {A} (l : list A) n : firstn (Nat.min n (length l)) l = firstn n l.
Proof.
  destruct (Nat.le_ge_cases n (length l)) as [H|H].
  - now rewrite Nat.min_l.
  - rewrite Nat.min_r by exact H. now rewrite firstn_all, firstn_all2.
Qed.

Lemma skipn_min_length {A} (l : list A) n : skipn (Nat.min n (length l)) l = skipn n l.
Proof.
  destruct (Nat.le_ge_cases n (length l)) as [H|H].
  - now rewrite Nat.min_l.
  - rewrite Nat.min_r by exact H. now rewrite skipn_all, skipn_all2.
Qed.

Lemma skipn_skipn_add {A} (l : list A) a b : skipn (a + b) l = skipn b (skipn a l).
Proof.
  revert l; induction a as [|a IH]; intros l; cbn [Nat.add skipn]; [reflexivity|].
  destruct l; [now destruct b | apply IH].
Qed.

(* the offset mem.File.Readdir resumes from: the handle's count, but no further than the end of the listing
   (entries may have been removed since the previous call); what is left to serve is the same either way *)
Definition clamp_rdc (s : mst) (nd : node) (h : hnd) : Z :=
  if zlen (dir_files s nd) <? hrdc h then zlen (dir_files s nd) else hrdc h.

Lemma clamp_rdc_bounds s nd h : 0 <= hrdc h -> 0 <= clamp_rdc s nd h <= hrdc h.
Proof.
  intros H. unfold clamp_rdc, zlen.
  destruct (Z.of_nat (length (dir_files s nd)) <? hrdc h) eqn:E; [apply Z.ltb_lt in E|]; lia.
Qed.

Lemma clamp_rdc_within s nd h : hrdc h <= zlen (dir_files s nd) -> clamp_rdc s nd h = hrdc h.
Proof. intros H. unfold clamp_rdc. now replace (_ <? _) with false by (symmetry; apply Z.ltb_ge; lia). Qed.

Lemma skipn_clamp_rdc {A} s nd h (l : list A) : length l = length (dir_files s nd) ->
  skipn (Z.to_nat (clamp_rdc s nd h)) l = skipn (Z.to_nat (hrdc h)) l.
Proof.
  intros Hl. unfold clamp_rdc, zlen.
  destruct (Z.of_nat (length (dir_files s nd)) <? hrdc h) eqn:E; [|reflexivity].
  apply Z.ltb_lt in E. rewrite Nat2Z.id, <- Hl, skipn_all. symmetry. apply skipn_all2. lia.
Qed.

(* one Readdir(n) on handle i of a directory: closed form of the step *)
Lemma m_step_readdir s i h nd n :
  nth_error (mhandles s) i = Some h -> get_node s (href h) = Some nd -> ndir nd = true -> 0 <= hrdc h ->
  let rest := skipn (Z.to_nat (hrdc h)) (dir_infos s nd) in
  let k := if 0 <? n then Nat.min (Z.to_nat n) (length rest) else length rest in
  let h' := set_rdc h (clamp_rdc s nd h + Z.of_nat k) in
  m_step s (HReaddir i n) =
    (mkM (mdata s) (mheap s) (list_set i h' (mhandles s)) (mclock s + 1),
     page_res (if 0 <? n then (firstn (Z.to_nat n) rest, match rest with [] => true | _ => false end)
               else (rest, false))).
Proof.
  intros Hh Hn Hd Hc rest k h'.
  unfold m_step, m_step_raw, m_hop. rewrite Hh, Hn. unfold m_readdir. rewrite Hn, Hd. cbn [negb].
  fold (clamp_rdc s nd h).
  set (files := skipn (Z.to_nat (clamp_rdc s nd h)) (dir_files s nd)).
  assert (Hrest : rest = map (node_info s) files).
  { unfold rest, dir_infos, files. now rewrite skipn_map, skipn_clamp_rdc. }
  assert (Hlen : length rest = length files) by (rewrite Hrest; apply map_length).
  fold (node_info s).
  destruct (0 <? n) eqn:En.
  - apply Z.ltb_lt in En.
    assert (Hout : (if zlen files <? n then zlen files else n) = Z.of_nat k).
    { unfold k, zlen. rewrite Hlen.
      destruct (Z.of_nat (length files) <? n) eqn:E; [apply Z.ltb_lt in E | apply Z.ltb_ge in E]; lia. }
    rewrite Hout, Nat2Z.id. fold h'.
    assert (Hinf : map (node_info s) (firstn k files) = firstn (Z.to_nat n) rest).
    { rewrite Hrest, <- firstn_map. unfold k. rewrite Hlen, <- (map_length (node_info s) files).
      apply firstn_min_length. }
    rewrite Hinf. cbn [andb].
    destruct files as [|f files'] eqn:Ef.
    + cbn [zlen length Z.of_nat]. cbn [Z.eqb]. rewrite Hrest. cbn [map firstn].
      rewrite firstn_nil. cbn. reflexivity.
    + assert (E0 : (zlen (f :: files') =? 0) = false) by (apply Z.eqb_neq; unfold zlen; cbn [length]; lia).
      rewrite E0. rewrite Hrest. cbn [map]. unfold page_res. cbn [fst snd].
      destruct (firstn (Z.to_nat n) (node_info s f :: map (node_info s) files')); reflexivity.
  - cbn [andb].
    assert (Hk : zlen files = Z.of_nat k) by (unfold k, zlen; now rewrite Hlen).
    replace (Z.to_nat (zlen files)) with (length files) by (unfold zlen; now rewrite Nat2Z.id).
    rewrite firstn_all, Hk. fold h'. rewrite <- Hrest. unfold page_res, set_handle. cbn [fst snd mdata mheap mhandles mclock].
    destruct rest; reflexivity.
Qed.

(* the heap is all a directory listing depends on *)
Lemma dir_infos_heap s s' nd : mheap s' = mheap s -> dir_infos s' nd = dir_infos s nd.
Proof.
  intros H. unfold dir_infos, dir_files, node_info, node_name, get_node. now rewrite H.
Qed.

Theorem m_readdir_pages ns : forall s i h nd,
  nth_error (mhandles s) i = Some h -> get_node s (href h) = Some nd -> ndir nd = true -> 0 <= hrdc h ->
  snd (run_steps m_step s (map (HReaddir i) ns)) =
  map page_res (page_spec (skipn (Z.to_nat (hrdc h)) (dir_infos s nd)) ns).
Proof.
  induction ns as [|n ns IH]; intros s i h nd Hh Hn Hd Hc; [reflexivity|].
  cbn [map run_steps page_spec].
  rewrite (m_step_readdir s i h nd n Hh Hn Hd Hc).
  set (rest := skipn (Z.to_nat (hrdc h)) (dir_infos s nd)).
  set (k := if 0 <? n then Nat.min (Z.to_nat n) (length rest) else length rest).
  set (h' := set_rdc h (clamp_rdc s nd h + Z.of_nat k)).
  set (s' := mkM (mdata s) (mheap s) (list_set i h' (mhandles s)) (mclock s + 1)).
  assert (Hh' : nth_error (mhandles s') i = Some h') by (apply (nth_error_list_set _ _ h); exact Hh).
  assert (Hn' : get_node s' (href h') = Some nd) by exact Hn.
  pose proof (clamp_rdc_bounds s nd h Hc) as Hb.
  assert (Hc' : 0 <= hrdc h') by (cbn; lia).
  specialize (IH s' i h' nd Hh' Hn' Hd Hc').
  destruct (run_steps m_step s' (map (HReaddir i) ns)) as [s2 xs]. cbn [snd] in *.
  rewrite IH. rewrite (dir_infos_heap s s' nd eq_refl).
  assert (Hskip : skipn (Z.to_nat (hrdc h')) (dir_infos s nd) = skipn k rest).
  { cbn [hrdc h' set_rdc]. rewrite Z2Nat.inj_add, Nat2Z.id by lia. rewrite skipn_skipn_add. unfold rest.
    rewrite skipn_clamp_rdc; [reflexivity | apply map_length]. }
  rewrite Hskip. unfold k.
  destruct (0 <? n); cbn [map]; f_equal.
  - now rewrite skipn_min_length.
  - now rewrite skipn_all.
Qed.

Lemma firstn_add_split {A} a b : forall (l : list A), firstn (a + b) l = firstn a l ++ firstn b (skipn a l).
Proof.
  induction a as [|a IH]; intros l; cbn [Nat.add firstn skipn app]; [reflexivity|].
  destruct l; cbn [firstn skipn app]; [now rewrite firstn_nil | now rewrite IH].
Qed.

(* consequences of the characterisation, for any listing *)
Lemma page_spec_concat_pos {A} ns : forall (rest : list A), Forall (fun n => 0 < n) ns ->
  concat (map fst (page_spec rest ns)) = firstn (Z.to_nat (fold_right Z.add 0 ns)) rest.
Proof.
  induction ns as [|n ns IH]; intros rest Hf; [now destruct rest|].
  inversion Hf as [|? ? Hn Hns]; subst. cbn [page_spec fold_right].
  replace (0 <? n) with true by (symmetry; now apply Z.ltb_lt).
  cbn [map fst concat]. rewrite IH by exact Hns.
  assert (Hs : 0 <= fold_right Z.add 0 ns) by (clear -Hns; induction Hns; cbn; lia).
  rewrite Z2Nat.inj_add by lia.
  now rewrite firstn_add_split.
Qed.

Lemma page_spec_eof_iff {A} ns : forall (rest : list A) k page eof,
  nth_error (page_spec rest ns) k = Some (page, eof) ->
  Forall (fun n => 0 < n) ns ->
  (eof = true <-> skipn (Z.to_nat (fold_right Z.add 0 (firstn k ns))) rest = []) /\
  (eof = true -> page = []).
Proof.
  induction ns as [|n ns IH]; intros rest k page eof Hk Hf; [now destruct k|].
  inversion Hf as [|? ? Hn Hns]; subst. cbn [page_spec] in Hk.
  replace (0 <? n) with true in Hk by (symmetry; now apply Z.ltb_lt).
  destruct k as [|k]; cbn [nth_error firstn fold_right] in *.
  - inversion Hk; subst. cbn [Z.to_nat skipn]. destruct rest; [|split; [split|]; discriminate].
    rewrite firstn_nil. now split.
  - destruct (IH _ _ _ _ Hk Hns) as [H1 H2]. split; [|exact H2].
    rewrite H1. assert (Hs : 0 <= fold_right Z.add 0 (firstn k ns)).
    { clear -Hns. revert k. induction Hns; intros [|k]; cbn; try lia. specialize (IHHns k). lia. }
    rewrite Z2Nat.inj_add by lia. now rewrite skipn_skipn_add.
Qed.

Lemma page_spec_all {A} (rest : list A) n ns : n <= 0 ->
  page_spec rest (n :: ns) = (rest, false) :: page_spec [] ns.
Proof. intros H. cbn [page_spec]. now replace (0 <? n) with false by (symmetry; apply Z.ltb_ge; lia). Qed.

Lemma page_spec_nil_next {A} n : page_spec (@nil A) [n] = [([], 0 <? n)].
Proof. cbn. destruct (0 <? n); [now rewrite firstn_nil | reflexivity]. Qed.

(* ------------------------------------------------------------------------------------ *)
(** * Read, Seek, ReadAt and ReadFile agree (mem.File, through C02's refinement) *)

(* what a sequence of Read calls with buffer sizes [ns] returns on a byte array, from offset [pos] *)
Fixpoint read_chunks (data : bytes) (pos : nat) (ns : list Z) : list pres :=
  match ns with
  | [] => []
  | n :: r => let b := pread data pos (Z.to_nat n) in
              PBytes b ((0 <? n) && Nat.eqb (length b) 0) :: read_chunks data (pos + length b) r
  end.

Definition pres_bytes (p : pres) : bytes := match p with PBytes b _ => b | _ => [] end.
Definition pres_eof (p : pres) : bool := match p with PBytes _ e => e | _ => false end.
Definition res_bytes (r : res) : bytes := match r with RData b _ => b | _ => [] end.

Lemma bf_run_reads ns : forall data pos ro, 
  snd (bf_run (mkBS data [mkBH pos false ro]) (map (HRead 0) ns)) = read_chunks data pos ns.
Proof.
  induction ns as [|n ns IH]; intros data pos ro; [reflexivity|].
  cbn [map bf_run read_chunks]. unfold bf_step at 1. cbn [bhs nth_error bclosed bdata bpos bro list_set].
  specialize (IH data (pos + length (pread data pos (Z.to_nat n)))%nat ro).
  destruct (bf_run _ (map (HRead 0) ns)) as [t2 xs]. cbn [snd] in *. now rewrite IH.
Qed.

(* C02's refinement, instantiated: mem.File.Read with any buffer sizes is reading the byte array *)
Theorem mem_read_chunks content ro ns : Forall (fun n => 0 <= n) ns ->
  proj_all (map (HRead 0) ns) (snd (run_steps mf_step (mf_init content [(ro, false)]) (map (HRead 0) ns)))
  = read_chunks content 0 ns.
Proof.
  intros Hf.
  assert (Hwf : Forall (fun o => wf_op o = true) (map (HRead 0) ns)).
  { apply Forall_map. eapply Forall_impl; [|exact Hf]. intros n Hn. apply wf_op_meaning. exact Hn. }
  pose proof (memfile_refines content [(ro, false)] _ Hwf) as H.
  pose proof (bf_run_reads ns content 0%nat ro) as Hb.
  unfold bf_init in H. cbn [map] in H.
  destruct (run_steps mf_step (mf_init content [(ro, false)]) (map (HRead 0) ns)) as [s outs].
  destruct (bf_run _ (map (HRead 0) ns)) as [t pouts]. cbn [snd] in *.
  destruct H as [H _]. unfold proj_all. now rewrite H, Hb.
Qed.

Lemma proj_bytes o r : pres_bytes (proj o r) = match proj o r with PBytes _ _ => res_bytes r | _ => [] end.
Proof.
  destruct r as [| | |e|h|fi|b [e|]|n [e|]|n [e|]|l e|l e|nm]; cbn; try reflexivity.
  destruct (is_eof e); reflexivity.
Qed.

Lemma pread_add data pos a b :
  pread data pos (a + b) = pread data pos a ++ pread data (pos + length (pread data pos a)) b.
Proof.
  unfold pread. rewrite firstn_add_split. f_equal.
  destruct (Nat.le_ge_cases a (length (skipn pos data))) as [H|H].
  - rewrite firstn_length_le by exact H. now rewrite skipn_skipn_add.
  - rewrite (firstn_all2 (n := a)) by exact H. rewrite (skipn_all2 (n := a)) by exact H.
    rewrite (skipn_all2 data); [reflexivity|]. rewrite skipn_length in *. lia.
Qed.

Lemma read_chunks_bytes ns : forall data pos, Forall (fun n => 0 <= n) ns ->
  concat (map pres_bytes (read_chunks data pos ns)) = pread data pos (Z.to_nat (fold_right Z.add 0 ns)).
Proof.
  induction ns as [|n ns IH]; intros data pos Hf; [reflexivity|].
  inversion Hf as [|? ? Hn Hns]; subst. cbn [read_chunks map concat pres_bytes fold_right].
  rewrite IH by exact Hns.
  assert (Hs : 0 <= fold_right Z.add 0 ns) by (clear -Hns; induction Hns; cbn; lia).
  rewrite Z2Nat.inj_add by lia. now rewrite pread_add.
Qed.

(* position before the k-th Read *)
Fixpoint chunk_pos (data : bytes) (pos : nat) (ns : list Z) (k : nat) : nat :=
  match k, ns with
  | S k', n :: r => chunk_pos data (pos + length (pread data pos (Z.to_nat n))) r k'
  | _, _ => pos
  end.

Lemma read_chunks_eof ns : forall data pos k p n,
  nth_error (read_chunks data pos ns) k = Some p -> nth_error ns k = Some n -> 0 < n ->
  (pres_eof p = true <-> (length data <= chunk_pos data pos ns k)%nat).
Proof.
  induction ns as [|m ns IH]; intros data pos k p n Hp Hn Hpos; [now destruct k|].
  destruct k as [|k]; cbn [nth_error read_chunks chunk_pos] in *.
  - inversion Hp; inversion Hn; subst. cbn [pres_eof].
    replace (0 <? n) with true by (symmetry; now apply Z.ltb_lt). cbn [andb].
    rewrite Nat.eqb_eq, pread_length. lia.
  - eapply IH; eauto.
Qed.

(* closed form of File.ReadAt on an open handle *)
Lemma f_readat_char data h n off : hclosed h = false -> 0 <= off -> 0 <= n ->
  let p := pread data (Z.to_nat off) (Z.to_nat n) in
  f_readat data h n off =
    (h, RData p (match read_err data off n with
                 | Some e => Some e
                 | None => if zlen p <? n then Some (E KEOF) else None
                 end)).
Proof.
  intros Hc Ho Hn p. unfold f_readat.
  replace (off <? 0) with false by (symmetry; apply Z.ltb_ge; lia).
  pose proof (f_read_char data (set_at h off) n) as Hr. cbn [hclosed hat set_at] in Hr.
  rewrite Hr by auto. fold p. rewrite !set_at_set_at, set_at_same.
  destruct (read_err data off n); [reflexivity|]. destruct (zlen p <? n); reflexivity.
Qed.

(* ReadAt(0, size) is the whole file, without an error *)
Theorem mem_readat_whole data h : hclosed h = false ->
  f_readat data h (zlen data) 0 = (h, RData data None).
Proof.
  intros Hc. rewrite f_readat_char by (auto using zlen_nonneg; lia).
  assert (Hp : pread data (Z.to_nat 0) (Z.to_nat (zlen data)) = data).
  { unfold pread, zlen. rewrite Nat2Z.id. cbn [Z.to_nat skipn]. apply firstn_all. }
  rewrite Hp. unfold read_err.
  replace (zlen data <? 0) with false by (symmetry; apply Z.ltb_ge; apply zlen_nonneg).
  rewrite Z.ltb_irrefl.
  destruct ((0 <? zlen data) && (0 =? zlen data)) eqn:E; [|reflexivity].
  apply andb_true_iff in E as [E1 E2]. apply Z.ltb_lt in E1. apply Z.eqb_eq in E2. lia.
Qed.

(* ReadAt never returns fewer bytes than asked for without an error, and what it reports at or past
   the end of the file is an end-of-file error (io.EOF exactly at the end) *)
Theorem mem_readat_short data h n off : hclosed h = false -> 0 <= off -> 0 <= n ->
  exists e, f_readat data h n off = (h, RData (pread data (Z.to_nat off) (Z.to_nat n)) e) /\
    (zlen (pread data (Z.to_nat off) (Z.to_nat n)) < n -> exists e', e = Some e' /\ is_eof e' = true) /\
    (0 < n -> off = zlen data -> e = Some (E KEOF)) /\
    (e = None -> zlen (pread data (Z.to_nat off) (Z.to_nat n)) = n).
Proof.
  intros Hc Ho Hn. rewrite f_readat_char by auto.
  set (p := pread data (Z.to_nat off) (Z.to_nat n)). eexists. split; [reflexivity|].
  assert (Hlen : zlen p <= n) by (unfold p, zlen; rewrite pread_length; lia).
  unfold read_err. destruct ((0 <? n) && (off =? zlen data)) eqn:E1.
  - repeat split; try discriminate. intros _. now exists (E KEOF).
  - assert (Hx : ~ (0 < n /\ off = zlen data)).
    { intros [H0 H1]. apply andb_false_iff in E1. destruct E1 as [E1|E1];
        [apply Z.ltb_ge in E1; lia | apply Z.eqb_neq in E1; lia]. }
    destruct (zlen data <? off) eqn:E2.
    + repeat split; try discriminate; try (intros H0 H1; exfalso; apply Hx; now split).
      intros _. now exists (E KUnexpectedEOF).
    + destruct (zlen p <? n) eqn:E3.
      * repeat split; try discriminate; try (intros H0 H1; exfalso; apply Hx; now split).
        intros _. now exists (E KEOF).
      * apply Z.ltb_ge in E3.
        repeat split; try (intros H0 H1; exfalso; apply Hx; now split); intros; lia.
Qed.

(* Seek(off, SeekStart) followed by Read(n) returns the bytes ReadAt(n, off) returns *)
Theorem mem_seek_read_is_readat data h n off : hclosed h = false -> 0 <= off -> 0 <= n ->
  snd (f_seek data h off 0) = RPos off None /\
  res_bytes (snd (f_read data (fst (f_seek data h off 0)) n)) = res_bytes (snd (f_readat data h n off)) /\
  res_bytes (snd (f_readat data h n off)) = pread data (Z.to_nat off) (Z.to_nat n).
Proof.
  intros Hc Ho Hn. unfold f_seek. rewrite Hc. cbn [Z.eqb].
  replace (off <? 0) with false by (symmetry; apply Z.ltb_ge; lia). cbn [fst snd].
  split; [reflexivity|]. rewrite f_readat_char by auto.
  pose proof (f_read_char data (set_at h off) n) as Hr. cbn [hclosed hat set_at] in Hr.
  rewrite Hr by auto. cbn [snd res_bytes]. split; reflexivity.
Qed.

(* bytes.Buffer.ReadFrom (the loop of afero.ReadFile) over a mem.File: exactly the content, nil error *)
Lemma io_read_from_mem fuel : forall content h pos cap,
  hclosed h = false -> hat h = Z.of_nat pos -> (pos <= length content)%nat ->
  (length content - pos < fuel)%nat ->
  exists s', io_read_from mf_step fuel (mkFS content [h]) 0 cap (firstn pos content) = (s', content, None).
Proof.
  induction fuel as [|fuel IH]; intros content h pos cap Hc Hat Hpos Hfuel; [lia|].
  cbn [io_read_from].
  set (len := zlen (firstn pos content)).
  set (cap' := if len + min_read <=? cap then cap else Z.max (2 * cap) (len + min_read)).
  assert (Hlen : len = Z.of_nat pos) by (unfold len, zlen; rewrite firstn_length_le by exact Hpos; reflexivity).
  assert (Hchunk : 0 < cap' - len).
  { unfold cap', min_read. destruct (len + 512 <=? cap) eqn:E; [apply Z.leb_le in E|]; lia. }
  unfold mf_step at 1. cbn [fhandles nth_error fdata].
  rewrite f_read_char by (auto; lia). rewrite Hat, Nat2Z.id.
  set (p := pread content pos (Z.to_nat (cap' - len))).
  unfold upd_h. cbn [fdata fhandles list_set]. unfold read_err.
  replace (0 <? cap' - len) with true by (symmetry; now apply Z.ltb_lt). cbn [andb].
  destruct (Z.of_nat pos =? zlen content) eqn:E1.
  - apply Z.eqb_eq in E1. unfold zlen in E1. assert (pos = length content) by lia. subst pos.
    cbn [errk_eqb ek E]. eexists. f_equal. f_equal.
    unfold p. rewrite pread_nil by lia. now rewrite app_nil_r, firstn_all.
  - apply Z.eqb_neq in E1. unfold zlen in E1.
    replace (zlen content <? Z.of_nat pos) with false by (symmetry; apply Z.ltb_ge; unfold zlen; lia).
    assert (Hp : (1 <= length p)%nat) by (unfold p; rewrite pread_length; lia).
    assert (Hacc : firstn pos content ++ p = firstn (pos + length p) content).
    { rewrite firstn_add_split. f_equal. unfold p, pread. symmetry. apply firstn_firstn_length. }
    rewrite Hacc. apply IH.
    + exact Hc.
    + cbn [hat set_at]. unfold zlen. lia.
    + unfold p. rewrite pread_length. lia.
    + lia.
Qed.

Theorem mem_readfrom_is_content content ro cap fuel : (length content < fuel)%nat ->
  exists s', io_read_from mf_step fuel (mf_init content [(ro, false)]) 0 cap [] = (s', content, None).
Proof.
  intros H. unfold mf_init, mk_handles. cbn [map].
  apply (io_read_from_mem fuel content (mkH 0 0 0 false ro) 0 cap); auto; cbn; lia.
Qed.

(* ------------------------------------------------------------------------------------ *)
(** * FromIOFS *)

Section FromProofs.
Context {St : Type} (step : St -> op -> St * res).

(* every mutator other than OpenFile: a permission error, nothing is forwarded, nothing changes *)
Theorem fromiofs_rejects st o : io_plain_mutator o = true ->
  fst (fromiofs_step step st o) = st /\ io_denied (snd (fromiofs_step step st o)) = true.
Proof. destruct st as [s names]. destruct o; cbn; intros H; try discriminate H; split; reflexivity. Qed.

(* OpenFile with a flag the code's mask catches *)
Theorem fromiofs_openfile_masked st p flag perm : Z.land flag fromiofs_openfile_mask <> 0 ->
  fromiofs_step step st (OpenFile p flag perm) = (st, RErr io_perm).
Proof.
  destruct st as [s names]. intros H. cbn [fromiofs_step].
  apply Z.eqb_neq in H. now rewrite H.
Qed.

Theorem fromiofs_openfile_unmasked s names p flag perm : Z.land flag fromiofs_openfile_mask = 0 ->
  fromiofs_step step (s, names) (OpenFile p flag perm) = fromiofs_step step (s, names) (Open p).
Proof. intros H. cbn [fromiofs_step]. now rewrite H. Qed.

(* reads are delegated *)
Theorem fromiofs_open s names p :
  fromiofs_step step (s, names) (Open p) =
  match iofs_open step s p with
  | (s', RHandle h) => ((s', (h, p) :: names), RHandle h)
  | (s', r) => ((s', names), r)
  end.
Proof. reflexivity. Qed.

Theorem fromiofs_stat s names p :
  fromiofs_step step (s, names) (Stat p) = ((fst (iofs_stat step s p), names), snd (iofs_stat step s p)).
Proof. cbn [fromiofs_step]. now destruct (iofs_stat step s p). Qed.

Definition io_delegated (o : op) : bool :=
  match o with HRead _ _ | HReadAt _ _ _ | HSeek _ _ _ | HClose _ | HStat _ => true | _ => false end.

Theorem fromiofs_handle_reads s names o : io_delegated o = true ->
  fromiofs_step step (s, names) o = ((fst (step s o), names), snd (step s o)).
Proof. destruct o; cbn; intros H; try discriminate H; now destruct (step s _). Qed.

Theorem fromiofs_readdir s names h n :
  fromiofs_step step (s, names) (HReaddir h n) =
  ((fst (readdirfile_readdir step s h n), names), snd (readdirfile_readdir step s h n)).
Proof. cbn [fromiofs_step]. now destruct (readdirfile_readdir step s h n). Qed.
End FromProofs.

(* bits *)
Lemma land_pow2_testbit a k : 0 <= k -> Z.land a (2 ^ k) <> 0 -> Z.testbit a k = true.
Proof.
  intros Hk H. destruct (Z.testbit a k) eqn:E; [reflexivity|]. exfalso. apply H.
  apply Z.bits_inj'. intros n Hn. rewrite Z.land_spec, Z.bits_0, Z.pow2_bits_eqb by exact Hk.
  destruct (Z.eqb_spec k n) as [->|Hne]; [now rewrite E | apply andb_false_r].
Qed.

Lemma testbit_land_nonzero a b k : Z.testbit a k = true -> Z.testbit b k = true -> Z.land a b <> 0.
Proof.
  intros Ha Hb H. assert (E : Z.testbit (Z.land a b) k = true) by (rewrite Z.land_spec, Ha, Hb; reflexivity).
  rewrite H, Z.bits_0 in E. discriminate.
Qed.

Lemma write_bits_pow2 b : In b io_write_bits -> exists k, 0 <= k /\ b = 2 ^ k.
Proof.
  unfold io_write_bits. cbn [In]. intros [<-|[<-|[<-|[<-|[<-|[]]]]]].
  - exists 0. split; [lia | reflexivity].
  - exists 1. split; [lia | reflexivity].
  - exists 10. split; [lia | reflexivity].
  - exists 6. split; [lia | reflexivity].
  - exists 9. split; [lia | reflexivity].
Qed.

(* does the mask FromIOFS.OpenFile tests contain every write bit? *)
Definition fromiofs_mask_complete : bool :=
  forallb (fun b => negb (Z.eqb (Z.land b fromiofs_openfile_mask) 0)) io_write_bits.

Theorem fromiofs_openfile_iff :
  (forall St (step : St -> op -> St * res) st p flag perm, io_write_flag flag = true ->
     fromiofs_step step st (OpenFile p flag perm) = (st, RErr io_perm))
  <-> fromiofs_mask_complete = true.
Proof.
  unfold fromiofs_mask_complete. rewrite forallb_forall. split.
  - intros H b Hb. specialize (H unit ok_step (tt, []) [] b 0).
    assert (Hw : io_write_flag b = true).
    { unfold io_write_flag. apply existsb_exists. exists b. split; [exact Hb|].
      apply negb_true_iff, Z.eqb_neq. rewrite Z.land_diag.
      destruct (write_bits_pow2 b Hb) as [k [Hk ->]]. pose proof (Z.pow_pos_nonneg 2 k). lia. }
    specialize (H Hw). cbn [fromiofs_step] in H.
    destruct (Z.land b fromiofs_openfile_mask =? 0); [|reflexivity].
    cbn in H. discriminate H.
  - intros H St step st p flag perm Hw. apply fromiofs_openfile_masked.
    unfold io_write_flag in Hw. apply existsb_exists in Hw. destruct Hw as [b [Hb Hfb]].
    apply negb_true_iff, Z.eqb_neq in Hfb. specialize (H b Hb). apply negb_true_iff, Z.eqb_neq in H.
    destruct (write_bits_pow2 b Hb) as [k [Hk ->]].
    apply (testbit_land_nonzero _ _ k).
    + now apply land_pow2_testbit.
    + apply land_pow2_testbit; [exact Hk|]. now rewrite Z.land_comm.
Qed.

(* all mutators at once, under the condition the code decides *)
Theorem fromiofs_rejects_all {St} (step : St -> op -> St * res) st o :
  fromiofs_mask_complete = true -> io_mutator o = true ->
  fst (fromiofs_step step st o) = st /\ io_denied (snd (fromiofs_step step st o)) = true.
Proof.
  intros Hm Ho. destruct o; try (apply fromiofs_rejects; exact Ho); try discriminate Ho.
  cbn [io_mutator] in Ho. destruct fromiofs_openfile_iff as [_ H].
  rewrite (H Hm St step st p flag perm Ho). split; reflexivity.
Qed.

(* ReadDir(n) of the fs.ReadDirFile over such a handle: the page, or (nil, io.EOF) *)
Lemma readdirfile_page s i h nd n :
  nth_error (mhandles s) i = Some h -> get_node s (href h) = Some nd -> ndir nd = true -> 0 <= hrdc h ->
  let rest := skipn (Z.to_nat (hrdc h)) (dir_infos s nd) in
  snd (readdirfile_readdir m_step s i n) =
    if 0 <? n then match rest with [] => RErr (E KEOF) | _ => RInfos (firstn (Z.to_nat n) rest) None end
    else RInfos rest None.
Proof.
  intros Hh Hn Hd Hc rest. unfold readdirfile_readdir.
  rewrite (m_step_readdir s i h nd n Hh Hn Hd Hc). fold rest. unfold page_res.
  destruct (0 <? n); cbn [fst snd]; [|reflexivity]. destruct rest; reflexivity.
Qed.

(* IOFS.Sub(".") as the code stands without the "." special case: the BasePathFs it builds refuses every
   name but "." before the inner filesystem is asked *)
Lemma sub_dot_rejects {St} (step : St -> op -> St * res) s : iofs_sub_dot_self = 0 ->
  iofs_open (iofs_sub_step step s_dot) s [97%N] = (s, RErr (EW KNotExist)) /\
  iofs_open (iofs_sub_step step s_dot) s s_dot = step s (Open s_dot).
Proof.
  intros H. unfold iofs_sub_step. rewrite H. cbn. split; [reflexivity|]. now destruct (step s (Open s_dot)).
Qed.

Lemma fromiofs_openfile_ignores_flags {St} (step : St -> op -> St * res) st p flag perm :
  fromiofs_openfile_mask = 0 ->
  fromiofs_step step st (OpenFile p flag perm) = fromiofs_step step st (Open p).
Proof. intros H. destruct st as [s names]. apply fromiofs_openfile_unmasked. rewrite H. apply Z.land_0_r. Qed.

(* statements as they appear in Props/C15.v *)
Lemma iofs_invalid_rejected {St} (step : St -> op -> St * res) (s : St) (name : str) (fuel : nat) :
  valid_path name = false ->
  iofs_open step s name = (s, RErr (EW KInvalid)) /\
  iofs_readfile step fuel s name = (s, RErr (EW KInvalid)).
Proof. intros. split; [now apply iofs_open_invalid | now apply iofs_readfile_invalid]. Qed.

Lemma page_spec_rest {A} (rest : list A) n m : n <= 0 ->
  page_spec rest [n; m] = [(rest, false); ([], 0 <? m)].
Proof. intros. rewrite page_spec_all by assumption. now rewrite page_spec_nil_next. Qed.

Lemma fromiofs_reads_delegate {St} (step : St -> op -> St * res) s names :
  (forall p, fromiofs_step step (s, names) (Open p) =
     match iofs_open step s p with
     | (s', RHandle h) => ((s', (h, p) :: names), RHandle h)
     | (s', r) => ((s', names), r)
     end) /\
  (forall p, fromiofs_step step (s, names) (Stat p) = ((fst (iofs_stat step s p), names), snd (iofs_stat step s p))) /\
  (forall o, io_delegated o = true -> fromiofs_step step (s, names) o = ((fst (step s o), names), snd (step s o))) /\
  (forall h n, fromiofs_step step (s, names) (HReaddir h n) =
     ((fst (readdirfile_readdir step s h n), names), snd (readdirfile_readdir step s h n))).
Proof.
  split; [|split; [|split]].
  - intros p. apply fromiofs_open.
  - intros p. apply fromiofs_stat.
  - intros o Ho. now apply fromiofs_handle_reads.
  - intros h n. apply fromiofs_readdir.
Qed.
