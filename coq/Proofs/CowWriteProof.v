(* Proofs/CowWriteProof.v — C06, "a successful write through the union is read back through the
   union; modifying part of a base-only file keeps all its other bytes", MemMapFs on both sides,
   at full strength: EVERY well-formed overlay, EVERY rooted name, EVERY write-ish flag word,
   EVERY sequence of file-handle methods (all offsets, lengths, Seek/Truncate/WriteAt/...): through
   the CopyOnWriteFs the handle behaves as the flat byte array of C02 initialised with the BASE's
   bytes; afterwards the overlay holds exactly the array's final bytes, and a fresh Open through
   the union reads them. *)
From AF Require Import Lib.Bytes Lib.Path Lib.Ops Gen.Consts Model.MemFile Model.ByteFile Model.MemFs Model.WfOps Model.CowView
  Model.ReadOnly Model.Union Model.Cow
  Proofs.MemFileProof Proofs.MemFsPath Proofs.MemFsBasics Proofs.MemFsWF Proofs.MemBelow Proofs.MemFsStep Proofs.MemFsInv
  Proofs.PathProof Proofs.CowViewProof Proofs.CopyUpProof Proofs.CowLayer Proofs.CowFileOps Proofs.CopyUpFull.
Local Open Scope Z_scope.

Lemma nth_error_app_other {A} (l : list A) x j : j <> length l -> nth_error (l ++ [x]) j = nth_error l j.
Proof.
  intros Hj. destruct (Nat.lt_ge_cases j (length l)) as [Hlt|Hge].
  - now rewrite nth_error_app1.
  - rewrite (proj2 (nth_error_None l j)) by lia. apply nth_error_None. rewrite app_length. cbn. lia.
Qed.

(* ---------------- OpenFile of an existing regular file of a layer ---------------- *)
Lemma trunc_ro_dead flag :
  flag_has flag o_trunc && flag_has flag (Z.lor o_rdwr o_wronly) && (Z.land flag memfs_access_mask =? 0) = false.
Proof.
  destruct (Z.land flag memfs_access_mask =? 0) eqn:E; [|apply andb_false_r]. apply Z.eqb_eq in E.
  unfold flag_has at 2. change (Z.lor o_rdwr o_wronly) with memfs_access_mask. rewrite E. cbn. now rewrite andb_false_r.
Qed.

Theorem layer_openfile_existing nn g s d mt name flag perm :
  normalize_path name = nn -> WF s -> LF nn g s d mt ->
  flag_has flag o_excl && flag_has flag o_create = false ->
  let lh := length (mhandles s) in
  exists s', m_step s (OpenFile name flag perm) = (s', RHandle lh) /\
    WF s' /\
    FH g lh s' (fst (fst (open_spec flag d))) (mkH g (snd (fst (open_spec flag d))) 0 false (snd (open_spec flag d))) /\
    LF nn g s' (fst (fst (open_spec flag d))) None /\ hop_frame g lh s s'.
Proof.
  intros Hnn W [Hl (n & Hn & Hd & Hdir & _)] Hex lh. rewrite m_step_tick. cbn [m_step_raw]. unfold m_openfile.
  rewrite Hnn, Hl, Hex. cbv zeta. rewrite Hn, Hd.
  pose proof (trunc_ro_dead flag) as Hdead. unfold open_spec. cbv zeta.
  set (ro := Z.land flag memfs_access_mask =? 0) in *.
  set (tr := flag_has flag o_trunc && flag_has flag (Z.lor o_rdwr o_wronly)) in *.
  rewrite Hdead. cbn [fst snd].
  set (at_ := if flag_has flag o_append then zlen d else 0).
  replace (if tr && negb ro then at_ else at_) with at_ by (now destruct (tr && negb ro)).
  destruct (tr && negb ro) eqn:Et; cbn [alloc_handle fst snd].
  - (* truncated *)
    set (gf := fun n0 : node => with_mtime (mclock s) (with_data [] n0)).
    match goal with |- exists s', (?S, _) = _ /\ _ => set (s1 := S) end.
    assert (L1 : forall k, lookup s1 k = lookup s k) by (intros k; change (lookup s1 k) with (lookup (upd_node s g gf) k); apply lookup_upd).
    assert (G1 : forall x, get_node s1 x = get_node (upd_node s g gf) x) by reflexivity.
    assert (H1 : mhandles s1 = mhandles s ++ [mkH g at_ 0 false ro]) by (change (mhandles s1) with (mhandles (upd_node s g gf) ++ [mkH g at_ 0 false ro]); now rewrite mhandles_upd).
    assert (Hg1 : get_node s1 g = Some (gf n)) by (rewrite G1; now apply get_upd_same).
    exists s1. split; [unfold s1; now rewrite mhandles_upd|].
    split; [apply (WF_view (upd_node s g gf)); [reflexivity | reflexivity|]; apply WF_attr; [|exact W];
            apply (keeps_comp (with_mtime _) (with_data _)); [apply keeps_mtime | apply keeps_data]|].
    split; [split; [rewrite H1; apply nth_error_app_last | reflexivity | exists (gf n); now repeat split]|].
    split; [split; [now rewrite L1 | exists (gf n); now repeat split]|].
    split.
    + change (mdata s1) with (mdata (upd_node s g gf)). apply mdata_upd.
    + intros r Hr. rewrite G1. apply get_upd_other. congruence.
    + intros n1 Hn1. rewrite Hn in Hn1. inversion Hn1; subst n1. exists (gf n). now repeat split.
    + intros j Hj. rewrite H1. now apply nth_error_app_other.
  - match goal with |- exists s', (?S, _) = _ /\ _ => set (s1 := S) end.
    assert (H1 : mhandles s1 = mhandles s ++ [mkH g at_ 0 false ro]) by reflexivity.
    exists s1. split; [reflexivity|].
    split; [apply (WF_view s); [reflexivity | reflexivity | exact W]|].
    split; [split; [rewrite H1; apply nth_error_app_last | reflexivity | exists n; now repeat split]|].
    split; [split; [exact Hl | exists n; now repeat split]|].
    split; try reflexivity.
    + intros n1 Hn1. exists n1. now repeat split.
    + intros j Hj. rewrite H1. now apply nth_error_app_other.
Qed.

(* Open (read-only) of an existing regular file of a layer *)
Theorem layer_open_existing nn g s d mt name :
  normalize_path name = nn -> WF s -> LF nn g s d mt ->
  let lh := length (mhandles s) in
  exists s', m_step s (Open name) = (s', RHandle lh) /\
    WF s' /\ FH g lh s' d (mkH g 0 0 false true) /\ LF nn g s' d mt /\ hop_frame g lh s s'.
Proof.
  intros Hnn W [Hl (n & Hn & Hrest)] lh. rewrite m_step_tick. cbn [m_step_raw]. unfold m_open. rewrite Hnn, Hl.
  cbn [alloc_handle fst snd].
  match goal with |- exists s', (?S, _) = _ /\ _ => set (s1 := S) end.
  assert (H1 : mhandles s1 = mhandles s ++ [mkH g 0 0 false true]) by reflexivity.
  exists s1. split; [reflexivity|].
  split; [apply (WF_view s); [reflexivity | reflexivity | exact W]|].
  split; [split; [rewrite H1; apply nth_error_app_last | reflexivity | exists n; tauto]|].
  split; [split; [exact Hl | exists n; tauto]|].
  split; try reflexivity.
  - intros n1 Hn1. exists n1. now repeat split.
  - intros j Hj. rewrite H1. now apply nth_error_app_other.
Qed.

(* ---------------- a run of methods of one overlay handle through the CopyOnWriteFs ---------------- *)
Section CowRun.
Context {B L : Type} (bstep : B -> op -> B * res) (lstep : L -> op -> L * res).

Lemma cow_run_overlay_handle i lh : forall ops sb sl tbl,
  nth_error tbl i = Some (HL lh) -> Forall (fun o => op_handle_of o = Some i) ops ->
  run_steps (cow_step bstep lstep) (sb, sl, tbl) ops =
    ((sb, fst (run_steps lstep sl (map (fun o => op_set_handle o lh) ops)), tbl),
     snd (run_steps lstep sl (map (fun o => op_set_handle o lh) ops))).
Proof.
  induction ops as [|o ops IH]; intros sb sl tbl Hn Hall; [reflexivity|].
  inversion Hall as [|o' ops' Ho Hops]; subst o' ops'.
  cbn [map]. rewrite !CopyUpProof.run_steps_cons.
  rewrite (cow_overlay_handle_transparent bstep lstep sb sl tbl o i lh Ho Hn).
  destruct (lstep sl (op_set_handle o lh)) as [sl1 r]. cbn [fst snd].
  rewrite (IH sb sl1 tbl Hn Hops).
  destruct (run_steps lstep sl1 (map (fun o0 => op_set_handle o0 lh) ops)) as [sl2 rs]. reflexivity.
Qed.
End CowRun.

Lemma proj_all_retarget lh : forall ops outs, proj_all (map (fun o => op_set_handle o lh) ops) outs = proj_all ops outs.
Proof.
  unfold proj_all. induction ops as [|o ops IH]; intros outs; [reflexivity|].
  destruct outs as [|r outs]; [reflexivity|]. cbn [map combine]. now rewrite proj_retarget, IH.
Qed.

Lemma map_retarget_twice lh (ops : list op) :
  map (fun o => op_set_handle o 0) (map (fun o => op_set_handle o lh) ops) = map (fun o => op_set_handle o 0) ops.
Proof. rewrite map_map. apply map_ext. intros o. apply op_set_handle_twice. Qed.

Lemma Forall_retarget i lh (ops : list op) :
  Forall (fun o => op_handle_of o = Some i /\ file_op o = true) ops ->
  Forall (fun o => op_handle_of o = Some lh /\ file_op o = true) (map (fun o => op_set_handle o lh) ops).
Proof.
  intros H. apply Forall_forall. intros o' Hin. apply in_map_iff in Hin as (o & <- & Hin).
  rewrite Forall_forall in H. destruct (H o Hin) as [H1 H2]. split; [exact (op_handle_retarget o i lh H1) | now rewrite file_op_retarget].
Qed.

Lemma FH_LF nn g lh s d h : lookup s nn = Some g -> FH g lh s d h -> LF nn g s d None.
Proof. intros Hl [_ _ (n & Hn & Hd & Hdir)]. split; [exact Hl|]. exists n. now repeat split. Qed.

Lemma hop_frame_lookup g lh s s' k : hop_frame g lh s s' -> lookup s' k = lookup s k.
Proof. intros [H _ _ _]. unfold lookup. now rewrite H. Qed.

(* the first handle state, as the specification sees it *)
Definition spec_open (flag : Z) (data : bytes) : bstate :=
  let '(d0, pos0, ro) := open_spec flag data in mkBS d0 [mkBH (Z.to_nat pos0) false ro].

Lemma open_spec_rel flag data g :
  Rel (mkFS (fst (fst (open_spec flag data))) [mkH g (snd (fst (open_spec flag data))) 0 false (snd (open_spec flag data))])
      (spec_open flag data).
Proof.
  unfold spec_open. destruct (open_spec flag data) as [[d0 pos0] ro] eqn:E. cbn [fst snd]. split; [reflexivity|].
  constructor; [|constructor]. unfold hrel. cbn [hat hclosed hro bpos bclosed bro].
  assert (0 <= pos0).
  { unfold open_spec in E. inversion E. destruct (flag_has flag o_append); [unfold zlen; lia | lia]. }
  rewrite Z2Nat.id by assumption. auto.
Qed.

Section CowMemWrite.
Notation cowmm := (cow_step m_step m_step).

(* OpenFile with any write-ish flag word of a file only the base has, then any methods of the handle *)
Theorem cow_write_through sb sl tbl name flag perm f nd ops :
  WF sl -> wf_name name = true ->
  let nn := normalize_path name in
  nn <> s_slash ->
  lookup sb nn = Some f -> get_node sb f = Some nd -> ndir nd = false ->
  lookup sl nn = None -> below_file sl nn = false ->
  Z.land flag cow_mask <> 0 -> flag_has flag o_excl && flag_has flag o_create = false ->
  let i := length tbl in
  Forall (fun o => op_handle_of o = Some i /\ file_op o = true) ops ->
  let spec := bf_run (spec_open flag (ndata nd)) (map (fun o => op_set_handle o 0) ops) in
  exists sb' sl' lh outs g,
    run_steps cowmm (sb, sl, tbl) (OpenFile name flag perm :: ops) = ((sb', sl', tbl ++ [HL lh]), RHandle i :: outs) /\
    length outs = length ops /\ proj_all ops outs = snd spec /\
    fs_view sb' = fs_view sb /\
    LF nn g sl' (bdata (fst spec)) None /\ WF sl' /\ copy_up_frame nn sl sl'.
Proof.
  intros W Hw nn Hroot Hbl Hbn Hbd Hno Hbf Hmask Hex i Hall spec.
  rewrite CopyUpProof.run_steps_cons. cbn [cow_step]. unfold cow_openfile.
  rewrite (is_base_file_base_only m_step m_step sb sl name (tick sl) (RErr (EW KNotExist)) (tick sb) (finfo_of nd));
    [| apply stat_missing; exact Hno | reflexivity | exact (layer_stat_ok sb name f nd Hbl Hbn)].
  destruct (Z.land flag cow_mask =? 0) eqn:Em; [apply Z.eqb_eq in Em; contradiction|]. cbn [negb].
  assert (Hk : kind_at (tick sl) nn <> Some true) by (unfold kind_at; change (lookup (tick sl) nn) with (lookup sl nn); rewrite Hno; discriminate).
  destruct (copy_up_full (tick sb) (tick sl) name f nd (WF_tick sl W) Hw Hroot Hbl Hbn Hbd Hk)
    as (sb' & sl1 & e & Ec & Hv & Hiff & Hok & _).
  assert (He : e = None) by (apply Hiff; now rewrite below_file_tick). subst e.
  destruct (Hok eq_refl) as ((g & Hlf) & W1 & Hfr1).
  rewrite Ec. unfold open_layer.
  destruct (layer_openfile_existing nn g sl1 _ _ name flag perm eq_refl W1 Hlf Hex) as (sl2 & Eo & W2 & F2 & Hlf2 & Fr2).
  rewrite Eo. cbn [alloc_ch ret]. set (lh := length (mhandles sl1)) in *. set (tbl1 := tbl ++ [HL lh]).
  assert (Hi : nth_error tbl1 i = Some (HL lh)) by apply nth_error_app_last.
  assert (Hall1 : Forall (fun o => op_handle_of o = Some i) ops) by (eapply Forall_impl; [|exact Hall]; now intros o [H _]).
  rewrite (cow_run_overlay_handle m_step m_step i lh ops sb' sl2 tbl1 Hi Hall1).
  destruct (m_run_file_ops g lh (map (fun o => op_set_handle o lh) ops) sl2 _ _ (spec_open flag (ndata nd)) W2 F2
              (open_spec_rel flag (ndata nd) g) (Forall_retarget i lh ops Hall))
    as (sl3 & outs & d3 & h3 & Er & Ep & W3 & F3 & R3 & Fr3).
  rewrite Er. cbn [fst snd]. rewrite map_retarget_twice in Ep, R3. rewrite proj_all_retarget in Ep. fold spec in Ep, R3.
  assert (Hlen : length outs = length ops).
  { pose proof (run_steps_length m_step (map (fun o => op_set_handle o lh) ops) sl2) as Hx. rewrite Er, map_length in Hx. exact Hx. }
  exists sb', sl3, lh, outs, g. split; [reflexivity|]. split; [exact Hlen|]. split; [exact Ep|]. split; [exact Hv|].
  assert (Hl3 : lookup sl3 nn = Some g).
  { rewrite (hop_frame_lookup g lh sl2 sl3 nn Fr3). apply Hlf2. }
  destruct R3 as [Hd3 _]. cbn [fdata] in Hd3. rewrite <- Hd3.
  split; [exact (FH_LF nn g lh sl3 d3 h3 Hl3 F3)|]. split; [exact W3|].
  intros k Hk'. destruct Hlf as [Hl1 _]. destruct Hlf2 as [Hl2 _].
  rewrite (hop_frame_cview g lh sl2 sl3 nn W2 Hl2 Fr3 k Hk'), (hop_frame_cview g lh sl1 sl2 nn W1 Hl1 Fr2 k Hk').
  destruct (Hfr1 k Hk') as [E | (E1 & E2 & E3)]; [left; now rewrite E, cview_tick | right; rewrite cview_tick in E1; auto].
Qed.

(* a name the overlay holds as a regular file: Open through the union, then any methods of the handle *)
Theorem cow_read_overlay_file sb sl tbl name g d mt ops :
  WF sl ->
  let nn := normalize_path name in
  LF nn g sl d mt ->
  let i := length tbl in
  Forall (fun o => op_handle_of o = Some i /\ file_op o = true) ops ->
  let spec := bf_run (mkBS d [mkBH 0 false true]) (map (fun o => op_set_handle o 0) ops) in
  exists sl' lh outs,
    run_steps cowmm (sb, sl, tbl) (Open name :: ops) = ((sb, sl', tbl ++ [HL lh]), RHandle i :: outs) /\
    length outs = length ops /\ proj_all ops outs = snd spec /\
    LF nn g sl' (bdata (fst spec)) None /\ WF sl' /\ (forall k, k <> nn -> cview sl' k = cview sl k).
Proof.
  intros W nn Hlf i Hall spec.
  rewrite CopyUpProof.run_steps_cons.
  destruct (LF_stat_ok nn g sl d mt name eq_refl Hlf) as [fi1 [E1 Hfd1]].
  destruct (LF_stat_ok nn g (tick sl) d mt name eq_refl (LF_tick _ _ _ _ _ Hlf)) as [fi2 [E2 Hfd2]].
  rewrite (cow_open_overlay_file m_step m_step sb sl tbl name _ fi1 _ fi2 E1 E2 Hfd2). unfold open_layer.
  set (sl0 := tick (tick sl)).
  assert (W0 : WF sl0) by (apply WF_tick, WF_tick, W).
  assert (Hlf0 : LF nn g sl0 d mt) by (apply LF_tick, LF_tick, Hlf).
  destruct (layer_open_existing nn g sl0 d mt name eq_refl W0 Hlf0) as (sl2 & Eo & W2 & F2 & Hlf2 & Fr2).
  rewrite Eo. cbn [alloc_ch ret]. set (lh := length (mhandles sl0)) in *. set (tbl1 := tbl ++ [HL lh]).
  assert (Hi : nth_error tbl1 i = Some (HL lh)) by apply nth_error_app_last.
  assert (Hall1 : Forall (fun o => op_handle_of o = Some i) ops) by (eapply Forall_impl; [|exact Hall]; now intros o [H _]).
  rewrite (cow_run_overlay_handle m_step m_step i lh ops sb sl2 tbl1 Hi Hall1).
  assert (R0 : Rel (mkFS d [mkH g 0 0 false true]) (mkBS d [mkBH 0 false true])).
  { split; [reflexivity|]. constructor; [|constructor]. unfold hrel. cbn. auto. }
  destruct (m_run_file_ops g lh (map (fun o => op_set_handle o lh) ops) sl2 _ _ _ W2 F2 R0 (Forall_retarget i lh ops Hall))
    as (sl3 & outs & d3 & h3 & Er & Ep & W3 & F3 & R3 & Fr3).
  rewrite Er. cbn [fst snd]. rewrite map_retarget_twice in Ep, R3. rewrite proj_all_retarget in Ep. fold spec in Ep, R3.
  assert (Hlen : length outs = length ops).
  { pose proof (run_steps_length m_step (map (fun o => op_set_handle o lh) ops) sl2) as Hx. rewrite Er, map_length in Hx. exact Hx. }
  exists sl3, lh, outs. split; [reflexivity|]. split; [exact Hlen|]. split; [exact Ep|].
  assert (Hl3 : lookup sl3 nn = Some g).
  { rewrite (hop_frame_lookup g lh sl2 sl3 nn Fr3). apply Hlf2. }
  destruct R3 as [Hd3 _]. cbn [fdata] in Hd3. rewrite <- Hd3.
  split; [exact (FH_LF nn g lh sl3 d3 h3 Hl3 F3)|]. split; [exact W3|].
  intros k Hk'. destruct Hlf0 as [Hl0 _]. destruct Hlf2 as [Hl2 _].
  rewrite (hop_frame_cview g lh sl2 sl3 nn W2 Hl2 Fr3 k Hk'), (hop_frame_cview g lh sl0 sl2 nn W0 Hl0 Fr2 k Hk'). reflexivity.
Qed.
End CowMemWrite.

(* ---------------- statements for Props/C06.v ---------------- *)
Lemma WF_file_not_root s nn f nd : WF s -> lookup s nn = Some f -> get_node s f = Some nd -> ndir nd = false -> nn <> s_slash.
Proof.
  intros W Hl Hn Hd ->. destruct (g_root _ _ _ _ W) as (r & n & Hl0 & Hn0 & _ & Hd0). congruence.
Qed.

Theorem copy_up_preserves sb sl name f nd :
  WF sb -> WF sl -> wf_name name = true ->
  let nn := normalize_path name in
  lookup sb nn = Some f -> get_node sb f = Some nd -> ndir nd = false ->
  kind_at sl nn <> Some true ->
  exists sb' sl' e, copy_to_layer m_step m_step sb sl name = (sb', sl', e) /\
    fs_view sb' = fs_view sb /\
    (e = None <-> below_file sl nn = false) /\
    (e = None -> (exists g, LF nn g sl' (ndata nd) (Some (nmtime nd))) /\ WF sl' /\ copy_up_frame nn sl sl') /\
    (e <> None -> fs_view sl' = fs_view sl).
Proof.
  intros Wb W Hw nn Hbl Hbn Hbd Hk.
  exact (copy_up_full sb sl name f nd W Hw (WF_file_not_root sb nn f nd Wb Hbl Hbn Hbd) Hbl Hbn Hbd Hk).
Qed.

Lemma copy_up_frame_meaning nn sl sl' :
  copy_up_frame nn sl sl' <->
  forall k, k <> nn ->
    cview sl' k = cview sl k \/
    (cview sl k = None /\ cview sl' k = Some (true, []) /\ (k = par nn \/ below k (par nn) = true)).
Proof. reflexivity. Qed.

Lemma cview_meaning s k :
  cview s k = match lookup s k with
              | Some r => match get_node s r with
                          | Some n => Some (ndir n, if ndir n then [] else ndata n)
                          | None => None
                          end
              | None => None
              end.
Proof. reflexivity. Qed.

(* "the name does not lie below a regular file" (lockfreeBelowFile of memmap.go says no), spelled out *)
Lemma not_below_file_meaning s k : WF s -> canon k ->
  (below_file s k = false <->
   forall a r n, canon a -> (a = par k \/ below a (par k) = true \/ a = s_slash) ->
     lookup s a = Some r -> get_node s r = Some n -> ndir n = true).
Proof. intros W Hc. split; [now apply below_file_false_anc | now apply below_file_anc_dirs]. Qed.

Lemma run_steps_app {St} (step : St -> op -> St * res) : forall ops1 ops2 s,
  run_steps step s (ops1 ++ ops2) =
    let '(s1, r1) := run_steps step s ops1 in let '(s2, r2) := run_steps step s1 ops2 in (s2, r1 ++ r2).
Proof.
  induction ops1 as [|o ops1 IH]; intros ops2 s.
  - cbn [app run_steps]. now destruct (run_steps step s ops2).
  - cbn [app]. rewrite !CopyUpProof.run_steps_cons. destruct (step s o) as [s1 x]. rewrite IH.
    destruct (run_steps step s1 ops1) as [s2 xs]. destruct (run_steps step s2 ops2) as [s3 ys]. reflexivity.
Qed.

Lemma Forall_list_set {A} (P : A -> Prop) (l : list A) i a : Forall P l -> P a -> Forall P (list_set i a l).
Proof.
  intros Hl Ha. revert i. induction Hl as [|x l Hx Hl IH]; intros i; [destruct i; constructor|].
  destruct i; cbn [list_set]; constructor; auto.
Qed.

(* a read-only handle never changes the bytes of the specification *)
Lemma bf_step_ro_data t o : Forall (fun b => bro b = true) (bhs t) ->
  bdata (fst (bf_step t o)) = bdata t /\ Forall (fun b => bro b = true) (bhs (fst (bf_step t o))).
Proof.
  intros Hro.
  assert (Hnth : forall i b, nth_error (bhs t) i = Some b -> bro b = true).
  { intros i b Hb. rewrite Forall_forall in Hro. apply Hro. eapply nth_error_In; eauto. }
  assert (Hset : forall i b, bro b = true -> Forall (fun b0 => bro b0 = true) (list_set i b (bhs t))).
  { intros i b Hb. now apply Forall_list_set. }
  destruct o; try (split; [reflexivity | exact Hro]); unfold bf_step;
    destruct (nth_error (bhs t) h) as [hb|] eqn:Eb; try (split; [reflexivity | exact Hro]);
    pose proof (Hnth h hb Eb) as Hb.
  - destruct (bclosed hb); cbn [fst bdata bhs]; (split; [reflexivity|]); [exact Hro | apply Hset; exact Hb].
  - destruct (off <? 0); [|destruct (bclosed hb)]; (split; [reflexivity | exact Hro]).
  - destruct (bclosed hb); [|rewrite Hb]; (split; [reflexivity | exact Hro]).
  - destruct (off <? 0); [|destruct (bclosed hb); [|rewrite Hb]]; (split; [reflexivity | exact Hro]).
  - destruct (bclosed hb); [|rewrite Hb]; (split; [reflexivity | exact Hro]).
  - destruct (bclosed hb); [split; [reflexivity | exact Hro]|].
    match goal with |- context [if ?c <? 0 then _ else _] => destruct (c <? 0) end; cbn [fst bdata bhs];
      (split; [reflexivity|]); [exact Hro | apply Hset; exact Hb].
  - destruct (bclosed hb); [|rewrite Hb]; (split; [reflexivity | exact Hro]).
  - destruct (bclosed hb); cbn [fst bdata bhs]; (split; [reflexivity|]); [exact Hro | apply Hset; exact Hb].
Qed.

Lemma bf_run_ro_data : forall ops t, Forall (fun b => bro b = true) (bhs t) -> bdata (fst (bf_run t ops)) = bdata t.
Proof.
  induction ops as [|o ops IH]; intros t Hro; [reflexivity|]. cbn [bf_run].
  destruct (bf_step_ro_data t o Hro) as [Hd Hro1]. destruct (bf_step t o) as [t1 px]. cbn [fst] in *.
  specialize (IH t1 Hro1). destruct (bf_run t1 ops) as [t2 pxs]. cbn [fst] in *. congruence.
Qed.

Section ReadBack.
Notation cowmm := (cow_step m_step m_step).

(* the whole sentence: write through the union (any flags, any methods), then reopen through the
   union and read (any methods): the second handle sees exactly the final bytes of the first *)
Theorem cow_write_read_back sb sl tbl name flag perm f nd ops ops2 :
  WF sb -> WF sl -> wf_name name = true ->
  let nn := normalize_path name in
  lookup sb nn = Some f -> get_node sb f = Some nd -> ndir nd = false ->
  lookup sl nn = None -> below_file sl nn = false ->
  Z.land flag cow_mask <> 0 -> flag_has flag o_excl && flag_has flag o_create = false ->
  let i := length tbl in
  Forall (fun o => op_handle_of o = Some i /\ file_op o = true) ops ->
  Forall (fun o => op_handle_of o = Some (S i) /\ file_op o = true) ops2 ->
  let spec := bf_run (spec_open flag (ndata nd)) (map (fun o => op_set_handle o 0) ops) in
  let content := bdata (fst spec) in
  let spec2 := bf_run (mkBS content [mkBH 0 false true]) (map (fun o => op_set_handle o 0) ops2) in
  exists st outs outs2 fi,
    run_steps cowmm (sb, sl, tbl) (OpenFile name flag perm :: ops ++ Stat name :: Open name :: ops2)
      = (st, RHandle i :: outs ++ RInfo fi :: RHandle (S i) :: outs2) /\
    length outs = length ops /\ length outs2 = length ops2 /\
    proj_all ops outs = snd spec /\
    fi_dir fi = false /\ fi_size fi = zlen content /\
    proj_all ops2 outs2 = snd spec2 /\
    fs_view (fst (fst st)) = fs_view sb /\
    (exists g, LF nn g (snd (fst st)) content None) /\ WF (snd (fst st)) /\ copy_up_frame nn sl (snd (fst st)).
Proof.
  intros Wb W Hw nn Hbl Hbn Hbd Hno Hbf Hmask Hex i Hall Hall2 spec content spec2.
  pose proof (WF_file_not_root sb nn f nd Wb Hbl Hbn Hbd) as Hroot.
  destruct (cow_write_through sb sl tbl name flag perm f nd ops W Hw Hroot Hbl Hbn Hbd Hno Hbf Hmask Hex Hall)
    as (sb1 & sl1 & lh & outs & g & E1 & Hlen1 & Ep1 & Hv1 & Hlf1 & W1 & Hfr1).
  fold spec in Ep1, Hlf1. fold content in Hlf1.
  change (OpenFile name flag perm :: ops ++ Stat name :: Open name :: ops2)
    with ((OpenFile name flag perm :: ops) ++ Stat name :: Open name :: ops2).
  rewrite run_steps_app, E1. cbv beta iota.
  set (tbl1 := tbl ++ [HL lh]).
  (* Stat through the union: the overlay's entry *)
  destruct Hlf1 as [Hl1 (n1 & Hn1 & Hd1 & Hdir1 & _)].
  rewrite CopyUpProof.run_steps_cons.
  rewrite (cow_stat_overlay m_step m_step sb1 sl1 tbl1 name (tick sl1) (finfo_of n1) (layer_stat_ok sl1 name g n1 Hl1 Hn1)).
  cbv beta iota.
  assert (Hlf2 : LF nn g (tick sl1) content None) by (split; [exact Hl1 | exists n1; now repeat split]).
  assert (Hlen : length tbl1 = S i) by (unfold tbl1, i; rewrite app_length; cbn; lia).
  rewrite <- Hlen in Hall2.
  destruct (cow_read_overlay_file sb1 (tick sl1) tbl1 name g content None ops2 (WF_tick _ W1) Hlf2 Hall2)
    as (sl3 & lh2 & outs2 & E3 & Hlen3 & Ep3 & Hlf3 & W3 & Hfr3).
  rewrite E3. cbv beta iota. rewrite Hlen.
  exists (sb1, sl3, tbl1 ++ [HL lh2]), outs, outs2, (finfo_of n1).
  split; [reflexivity|]. split; [exact Hlen1|]. split; [exact Hlen3|]. split; [exact Ep1|].
  split; [unfold finfo_of; now rewrite Hdir1|]. split; [unfold finfo_of; rewrite Hdir1, Hd1; reflexivity|].
  split; [exact Ep3|]. cbn [fst snd]. split; [exact Hv1|].
  assert (Hsame : bdata (fst (bf_run (mkBS content [mkBH 0 false true]) (map (fun o => op_set_handle o 0) ops2))) = content).
  { apply (bf_run_ro_data _ (mkBS content [mkBH 0 false true])). constructor; [reflexivity | constructor]. }
  rewrite Hsame in Hlf3. split; [now exists g|]. split; [exact W3|].
  intros k Hk. rewrite (Hfr3 k Hk), cview_tick. exact (Hfr1 k Hk).
Qed.
End ReadBack.

(* the sentence of the property about a partial modification, spelled out for one WriteAt:
   OpenFile(O_RDWR) of a base-only file, WriteAt(b, off), Close; then Stat, Open, ReadAt(n, 0)
   through the union: the file now is pwrite (base bytes) off b — every byte before off and from
   off+|b| on is the base's (a gap beyond the old end is zero-filled) — and that is what is read *)
Section OneWrite.
Notation cowmm := (cow_step m_step m_step).

Lemma open_spec_rdwr data : spec_open o_rdwr data = mkBS data [mkBH 0 false false].
Proof. reflexivity. Qed.

Theorem cow_partial_write sb sl tbl name perm f nd b off n :
  WF sb -> WF sl -> wf_name name = true ->
  let nn := normalize_path name in
  lookup sb nn = Some f -> get_node sb f = Some nd -> ndir nd = false ->
  lookup sl nn = None -> below_file sl nn = false ->
  0 <= off -> 0 <= n ->
  let i := length tbl in
  let content := pwrite (ndata nd) (Z.to_nat off) b in
  exists st r1 fi r2,
    run_steps cowmm (sb, sl, tbl)
      [OpenFile name o_rdwr perm; HWriteAt i b off; HClose i; Stat name; Open name; HReadAt (S i) n 0]
      = (st, [RHandle i; r1; ROk; RInfo fi; RHandle (S i); r2]) /\
    proj (HWriteAt i b off) r1 = PCount (length b) /\
    fi_dir fi = false /\ fi_size fi = zlen content /\
    proj (HReadAt (S i) n 0) r2 = PBytes (pread content 0 (Z.to_nat n)) (zlen (pread content 0 (Z.to_nat n)) <? n) /\
    fs_view (fst (fst st)) = fs_view sb /\
    (exists g, LF nn g (snd (fst st)) content None) /\ WF (snd (fst st)) /\ copy_up_frame nn sl (snd (fst st)).
Proof.
  intros Wb W Hw nn Hbl Hbn Hbd Hno Hbf Hoff Hn i content.
  assert (Hall : Forall (fun o => op_handle_of o = Some i /\ file_op o = true) [HWriteAt i b off; HClose i])
    by (repeat constructor).
  assert (Hall2 : Forall (fun o => op_handle_of o = Some (S i) /\ file_op o = true) [HReadAt (S i) n 0]).
  { constructor; [|constructor]. split; [reflexivity|]. cbn. now apply Z.leb_le. }
  destruct (cow_write_read_back sb sl tbl name o_rdwr perm f nd _ _ Wb W Hw Hbl Hbn Hbd Hno Hbf
              ltac:(discriminate) eq_refl Hall Hall2) as (st & outs & outs2 & fi & E & Hl1 & Hl2 & Ep1 & Hfd & Hfs & Ep2 & Hv & Hlf & W' & Hfr).
  rewrite open_spec_rdwr in *. cbn [map op_set_handle] in *.
  (* evaluate the specification on the two short op lists *)
  assert (Hoff' : off <? 0 = false) by (apply Z.ltb_ge; lia).
  cbn [bf_run bf_step bdata bhs nth_error] in Ep1, Hfs, Ep2, Hlf. rewrite Hoff' in *.
  cbn [bclosed bro fst snd bdata bhs list_set nth_error] in Ep1, Hfs, Ep2, Hlf.
  fold content in Ep1, Hfs, Ep2, Hlf.
  change (0 <? 0) with false in Ep2. cbn [fst snd bdata bhs bclosed Z.to_nat] in Ep2.
  destruct outs as [|r1 [|r1' [|? ?]]]; try discriminate Hl1.
  destruct outs2 as [|r2 [|? ?]]; try discriminate Hl2.
  unfold proj_all in Ep1, Ep2. cbn [combine map] in Ep1, Ep2.
  injection Ep1 as Hp1 Hp1'. injection Ep2 as Hp2.
  assert (Hr1' : r1' = ROk).
  { destruct r1' as [| | |e| | |bb [e|]|nn' [e|]|nn' [e|]| | |]; cbn in Hp1'; try discriminate Hp1'; try reflexivity.
    destruct (is_eof e); discriminate. }
  subst r1'. exists st, r1, fi, r2. cbn [app] in E. split; [exact E|].
  split; [exact Hp1|]. split; [exact Hfd|]. split; [exact Hfs|]. split; [exact Hp2|]. auto.
Qed.
End OneWrite.
