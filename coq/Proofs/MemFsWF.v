(* Proofs/MemFsWF.v — the invariant of MemMapFs: the per-directory child index mirrors the path
   map.  Part 1: association lists, the node heap, the invariant (with "pending" and "stale"
   keys for the intermediate states of Mkdir/Remove/Rename) and the primitive transitions. *)
From AF Require Import Lib.Bytes Lib.Path Lib.Ops Gen.Consts Model.MemFile Model.MemFs Model.WfOps
  Proofs.BytesLemmas Proofs.MemFsPath.
Local Open Scope Z_scope.

(* ---------- association lists ---------- *)
Section Alist.
Context {A : Type}.
Implicit Types (l : list (str * A)) (k : str) (v : A).

Lemma aget_set_same k v l : alist_get k (alist_set k v l) = Some v.
Proof.
  induction l as [|[k' v'] l IH]; cbn; [now rewrite beqb_refl|].
  destruct (beqb k k') eqn:E; cbn; [now rewrite beqb_refl | now rewrite E].
Qed.

Lemma aget_set_other k k' v l : k <> k' -> alist_get k' (alist_set k v l) = alist_get k' l.
Proof.
  intros Hne. induction l as [|[k2 v2] l IH]; cbn.
  - assert (E : beqb k' k = false) by (apply beqb_neq; congruence). now rewrite E.
  - destruct (beqb k k2) eqn:E; cbn.
    + apply beqb_eq in E. subst k2. assert (E : beqb k' k = false) by (apply beqb_neq; congruence). now rewrite E.
    + now rewrite IH.
Qed.

Lemma aget_set k k' v l : alist_get k' (alist_set k v l) = if beqb k k' then Some v else alist_get k' l.
Proof.
  destruct (beqb k k') eqn:E; [apply beqb_eq in E; subst; apply aget_set_same | apply beqb_neq in E; now apply aget_set_other].
Qed.

Lemma aget_del_same k l : alist_get k (alist_del k l) = None.
Proof.
  induction l as [|[k' v'] l IH]; cbn; [reflexivity|]. destruct (beqb k k') eqn:E; cbn; [exact IH | now rewrite E].
Qed.

Lemma aget_del_other k k' l : k <> k' -> alist_get k' (alist_del k l) = alist_get k' l.
Proof.
  intros Hne. induction l as [|[k2 v2] l IH]; cbn; [reflexivity|].
  destruct (beqb k k2) eqn:E; cbn.
  - apply beqb_eq in E. subst k2. assert (E : beqb k' k = false) by (apply beqb_neq; congruence). now rewrite E.
  - now rewrite IH.
Qed.

Lemma aget_del k k' l : alist_get k' (alist_del k l) = if beqb k k' then None else alist_get k' l.
Proof.
  destruct (beqb k k') eqn:E; [apply beqb_eq in E; subst; apply aget_del_same | apply beqb_neq in E; now apply aget_del_other].
Qed.

Lemma aget_in k v l : alist_get k l = Some v -> In (k, v) l.
Proof.
  induction l as [|[k' v'] l IH]; cbn; [discriminate|]. destruct (beqb k k') eqn:E.
  - apply beqb_eq in E. intros H; inversion H; subst. now left.
  - intros H. right. now apply IH.
Qed.

Lemma aget_none_keys k l : alist_get k l = None <-> ~ In k (map fst l).
Proof.
  induction l as [|[k' v'] l IH]; cbn; [tauto|]. destruct (beqb k k') eqn:E.
  - apply beqb_eq in E. subst. split; [discriminate | intros H; exfalso; apply H; now left].
  - apply beqb_neq in E. rewrite IH. split; [intros H [H1|H1]; [congruence | contradiction] | tauto].
Qed.

Lemma aget_some_keys k l : In k (map fst l) <-> exists v, alist_get k l = Some v.
Proof.
  destruct (alist_get k l) as [v|] eqn:E.
  - split; [intros _; now exists v|]. intros _. apply aget_in in E. apply in_map_iff. now exists (k, v).
  - split; [intros H; apply aget_none_keys in E; contradiction | intros [v H]; discriminate].
Qed.

Lemma in_aget k v l : NoDup (map fst l) -> In (k, v) l -> alist_get k l = Some v.
Proof.
  induction l as [|[k' v'] l IH]; cbn; [contradiction|]. intros Hnd [H|H].
  - inversion H; subst. now rewrite beqb_refl.
  - inversion Hnd as [|? ? Hni Hnd']; subst. destruct (beqb k k') eqn:E.
    + apply beqb_eq in E. subst. exfalso. apply Hni. apply in_map_iff. now exists (k', v).
    + now apply IH.
Qed.

Lemma keys_set k v l k' : In k' (map fst (alist_set k v l)) <-> k' = k \/ In k' (map fst l).
Proof.
  rewrite !aget_some_keys. rewrite aget_set. destruct (beqb k k') eqn:E.
  - apply beqb_eq in E. subst. split; [auto | intros _; now exists v].
  - apply beqb_neq in E. split; [auto | intros [H|H]; [congruence | exact H]].
Qed.

Lemma keys_del k l k' : In k' (map fst (alist_del k l)) <-> k' <> k /\ In k' (map fst l).
Proof.
  rewrite !aget_some_keys. rewrite aget_del. destruct (beqb k k') eqn:E.
  - apply beqb_eq in E. subst. split; [intros [v H]; discriminate | intros [H _]; congruence].
  - apply beqb_neq in E. split; [intros H; split; [congruence | exact H] | tauto].
Qed.

Lemma nodup_set k v l : NoDup (map fst l) -> NoDup (map fst (alist_set k v l)).
Proof.
  induction l as [|[k' v'] l IH]; cbn; intros Hnd; [constructor; [intros [] | constructor]|].
  inversion Hnd as [|? ? Hni Hnd']; subst. destruct (beqb k k') eqn:E; cbn.
  - apply beqb_eq in E. subst. now constructor.
  - constructor; [|now apply IH]. rewrite keys_set. intros [H|H]; [apply beqb_neq in E; congruence | contradiction].
Qed.

Lemma nodup_del k l : NoDup (map fst l) -> NoDup (map fst (alist_del k l)).
Proof.
  induction l as [|[k' v'] l IH]; cbn; intros Hnd; [constructor|].
  inversion Hnd as [|? ? Hni Hnd']; subst. destruct (beqb k k') eqn:E; cbn; [now apply IH|].
  constructor; [|now apply IH]. rewrite keys_del. tauto.
Qed.

Lemma aget_filter (f : str -> bool) k l :
  alist_get k (filter (fun kv => f (fst kv)) l) = if f k then alist_get k l else None.
Proof.
  induction l as [|[k' v'] l IH]; cbn; [now destruct (f k)|].
  destruct (f k') eqn:Ef; cbn.
  - destruct (beqb k k') eqn:E; [apply beqb_eq in E; subst; now rewrite Ef | exact IH].
  - destruct (beqb k k') eqn:E; [apply beqb_eq in E; subst; rewrite Ef in *; exact IH | exact IH].
Qed.

Lemma nodup_filter (f : str * A -> bool) l : NoDup (map fst l) -> NoDup (map fst (filter f l)).
Proof.
  induction l as [|[k' v'] l IH]; cbn; intros Hnd; [constructor|].
  inversion Hnd as [|? ? Hni Hnd']; subst. destruct (f (k', v')); cbn; [|now apply IH].
  constructor; [|now apply IH]. intros H. apply Hni. apply in_map_iff in H as ([k2 v2] & E & H). cbn in E. subst.
  apply filter_In in H as [H _]. apply in_map_iff. now exists (k', v2).
Qed.

Lemma fold_del_get (ks : list str) l k :
  alist_get k (fold_left (fun d x => alist_del x d) ks l) = if existsb (beqb k) ks then None else alist_get k l.
Proof.
  revert l; induction ks as [|x ks IH]; intros l; cbn; [reflexivity|].
  rewrite IH, aget_del. rewrite (beqb_sym x k). destruct (beqb k x); cbn; [now destruct (existsb (beqb k) ks) | reflexivity].
Qed.

Lemma nodup_fold_del (ks : list str) l : NoDup (map fst l) -> NoDup (map fst (fold_left (fun d x => alist_del x d) ks l)).
Proof. revert l; induction ks as [|x ks IH]; intros l H; cbn; [exact H|]. apply IH. now apply nodup_del. Qed.
End Alist.

(* ---------- the node heap ---------- *)
Lemma nth_list_set_same {A} (l : list A) i v : (i < length l)%nat -> nth_error (list_set i v l) i = Some v.
Proof.
  revert i; induction l as [|x l IH]; intros i H; cbn in H; [lia|].
  destruct i; cbn; [reflexivity | apply IH; lia].
Qed.
Lemma nth_list_set_other {A} (l : list A) i j v : i <> j -> nth_error (list_set i v l) j = nth_error l j.
Proof.
  revert i j; induction l as [|x l IH]; intros i j H; [destruct i; reflexivity|].
  destruct i, j; cbn; try reflexivity; [contradiction | apply IH; congruence].
Qed.
Lemma list_set_len {A} (l : list A) i v : length (list_set i v l) = length l.
Proof. revert i; induction l as [|x l IH]; intros [|i]; cbn; auto. Qed.

Lemma get_upd s r f r' :
  get_node (upd_node s r f) r' = if Nat.eqb r r' then option_map f (get_node s r) else get_node s r'.
Proof.
  unfold upd_node. destruct (get_node s r) as [n|] eqn:E.
  - unfold get_node, set_node in *. cbn [mheap]. destruct (Nat.eqb r r') eqn:Er.
    + apply Nat.eqb_eq in Er. subst r'. cbn. apply nth_list_set_same. apply nth_error_Some. congruence.
    + apply Nat.eqb_neq in Er. now apply nth_list_set_other.
  - destruct (Nat.eqb r r') eqn:Er; [apply Nat.eqb_eq in Er; subst; now rewrite E | reflexivity].
Qed.

Lemma get_upd_same s r f n : get_node s r = Some n -> get_node (upd_node s r f) r = Some (f n).
Proof. intros H. now rewrite get_upd, Nat.eqb_refl, H. Qed.
Lemma get_upd_other s r f r' : r <> r' -> get_node (upd_node s r f) r' = get_node s r'.
Proof. intros H. rewrite get_upd. apply Nat.eqb_neq in H. now rewrite H. Qed.

Lemma mdata_upd s r f : mdata (upd_node s r f) = mdata s.
Proof. unfold upd_node. now destruct (get_node s r). Qed.
Lemma lookup_upd s r f k : lookup (upd_node s r f) k = lookup s k.
Proof. unfold lookup. now rewrite mdata_upd. Qed.
Lemma mhandles_upd s r f : mhandles (upd_node s r f) = mhandles s.
Proof. unfold upd_node. now destruct (get_node s r). Qed.
Lemma mclock_upd s r f : mclock (upd_node s r f) = mclock s.
Proof. unfold upd_node. now destruct (get_node s r). Qed.

Lemma get_alloc_old s n r : (r < length (mheap s))%nat -> get_node (fst (alloc_node s n)) r = get_node s r.
Proof. intros H. unfold alloc_node, get_node. cbn. now rewrite nth_error_app1. Qed.
Lemma get_alloc_new s n : get_node (fst (alloc_node s n)) (snd (alloc_node s n)) = Some n.
Proof. unfold alloc_node, get_node. cbn. rewrite nth_error_app2, Nat.sub_diag by lia. reflexivity. Qed.
Lemma get_some_lt s r n : get_node s r = Some n -> (r < length (mheap s))%nat.
Proof. intros H. apply nth_error_Some. unfold get_node in H. congruence. Qed.

Lemma node_name_upd s r f r' :
  node_name (upd_node s r f) r' = if Nat.eqb r r' then match get_node s r with Some n => nname (f n) | None => [] end else node_name s r'.
Proof.
  unfold node_name. rewrite get_upd. destruct (Nat.eqb r r'); [now destruct (get_node s r) | reflexivity].
Qed.

(* ---------- the invariant ---------- *)
Definition kset := str -> Prop.
Definition kempty : kset := fun _ => False.
Definition kadd (P : kset) (k : str) : kset := fun x => P x \/ x = k.
Definition ksub (P : kset) (k : str) : kset := fun x => P x /\ x <> k.

(* GWF P D S s:  P = pending keys (present in the map, registered in no directory),
                 D = dirty names (the entry of that name in the parent's index is unconstrained),
                 S = stale keys (keys still in the map whose node has already been renamed).
   The invariant of the API is  WF = GWF ∅ ∅ ∅. *)
Record GWF (P D S : kset) (s : mst) : Prop := mkGWF {
  g_nodup : NoDup (map fst (mdata s));
  g_canon : forall k r, lookup s k = Some r -> canon k;
  g_node  : forall k r, lookup s k = Some r ->
            exists n, get_node s r = Some n /\ lookup s (nname n) = Some r /\ ndir n = nhasdir n /\ NoDup (map fst (nkids n));
  g_fresh : forall k r, lookup s k = Some r -> ~ S k -> node_name s r = k;
  g_root  : exists r n, lookup s s_slash = Some r /\ get_node s r = Some n /\ nname n = s_slash /\ ndir n = true;
  g_par   : forall k r, lookup s k = Some r -> node_name s r = k -> k <> s_slash -> ~ P k -> ~ D k ->
            exists p pn, lookup s (par k) = Some p /\ get_node s p = Some pn /\ ndir pn = true /\ alist_get k (nkids pn) = Some r;
  g_kids  : forall d p pn name r, lookup s d = Some p -> get_node s p = Some pn -> alist_get name (nkids pn) = Some r ->
            lookup s (par name) = Some p /\
            (D name \/ (~ P name /\ name <> s_slash /\ lookup s name = Some r /\ node_name s r = name))
}.

Definition WF (s : mst) : Prop := GWF kempty kempty kempty s.

Lemma GWF_ext (P D S P' D' S' : kset) s :
  (forall x, P x <-> P' x) -> (forall x, D x -> D' x) -> (forall x, S x -> S' x) -> GWF P D S s -> GWF P' D' S' s.
Proof.
  intros HP HD HS [H1 H2 H3 H4 H5 H6 H7]. split; [exact H1 | exact H2 | exact H3 | | exact H5 | |].
  - intros k r Hk Hs. apply H4; auto.
  - intros k r Hk Hn Hr Hp Hd. apply H6; auto. now rewrite HP.
  - intros d p pn name r Hd Hp Hk. destruct (H7 d p pn name r Hd Hp Hk) as (Hy & [Hx|(Hx1 & Hx)]); (split; [exact Hy|]); [left; auto | right].
    split; [now rewrite <- HP | exact Hx].
Qed.

Lemma GWF_view (P D S : kset) s t : mdata s = mdata t -> mheap s = mheap t -> GWF P D S s -> GWF P D S t.
Proof.
  intros Hd Hh [H1 H2 H3 H4 H5 H6 H7].
  assert (L : forall k, lookup t k = lookup s k) by (intros; unfold lookup; now rewrite Hd).
  assert (G : forall r, get_node t r = get_node s r) by (intros; unfold get_node; now rewrite Hh).
  assert (N : forall r, node_name t r = node_name s r) by (intros; unfold node_name; now rewrite G).
  split; [now rewrite <- Hd | | | | | |].
  - intros k r. rewrite L. apply H2.
  - intros k r. rewrite L. intros Hk. destruct (H3 k r Hk) as (n & Hn). exists n. now rewrite G, L.
  - intros k r. rewrite L, N. apply H4.
  - destruct H5 as (r & n & Hr). exists r, n. now rewrite L, G.
  - intros k r. rewrite L, N. intros Hk Hn Hr Hp Hdd. destruct (H6 k r Hk Hn Hr Hp Hdd) as (p & pn & Hx).
    exists p, pn. now rewrite L, G.
  - intros d p pn name r. rewrite !L, G, N. apply H7.
Qed.

Lemma node_name_get s r n : get_node s r = Some n -> node_name s r = nname n.
Proof. unfold node_name. now intros ->. Qed.

(* consequences *)
Lemma GWF_lookup_node (P D S : kset) s k r : GWF P D S s -> lookup s k = Some r -> exists n, get_node s r = Some n.
Proof. intros G H. destruct (g_node _ _ _ _ G k r H) as (n & Hn & _). now exists n. Qed.

Lemma GWF_inj (P D S : kset) s k1 k2 r : GWF P D S s -> ~ S k1 -> ~ S k2 -> lookup s k1 = Some r -> lookup s k2 = Some r -> k1 = k2.
Proof.
  intros G H1 H2 L1 L2. rewrite <- (g_fresh _ _ _ _ G k1 r L1 H1). now apply (g_fresh _ _ _ _ G k2 r L2 H2).
Qed.

(* ---------- L1: attribute updates ---------- *)
Definition keeps_shape (f : node -> node) : Prop :=
  forall n, nname (f n) = nname n /\ ndir (f n) = ndir n /\ nhasdir (f n) = nhasdir n /\ nkids (f n) = nkids n.

Lemma GWF_attr (P D S : kset) s r f : keeps_shape f -> GWF P D S s -> GWF P D S (upd_node s r f).
Proof.
  intros Hf [H1 H2 H3 H4 H5 H6 H7].
  assert (N : forall x, node_name (upd_node s r f) x = node_name s x).
  { intros x. rewrite node_name_upd. destruct (Nat.eqb r x) eqn:E; [|reflexivity]. apply Nat.eqb_eq in E. subst x.
    unfold node_name. destruct (get_node s r) as [n|]; [apply (Hf n) | reflexivity]. }
  assert (Gn : forall x n, get_node s x = Some n -> exists n', get_node (upd_node s r f) x = Some n' /\
             nname n' = nname n /\ ndir n' = ndir n /\ nhasdir n' = nhasdir n /\ nkids n' = nkids n).
  { intros x n Hx. rewrite get_upd. destruct (Nat.eqb r x) eqn:E.
    - apply Nat.eqb_eq in E. subst x. rewrite Hx. cbn. exists (f n). split; [reflexivity | apply Hf].
    - exists n. auto. }
  assert (Gi : forall x n', get_node (upd_node s r f) x = Some n' -> exists n, get_node s x = Some n /\
             nname n' = nname n /\ ndir n' = ndir n /\ nhasdir n' = nhasdir n /\ nkids n' = nkids n).
  { intros x n' Hx. rewrite get_upd in Hx. destruct (Nat.eqb r x) eqn:E.
    - apply Nat.eqb_eq in E. subst x. destruct (get_node s r) as [n|]; [|discriminate]. cbn in Hx. inversion Hx; subst.
      exists n. split; [reflexivity | apply Hf].
    - exists n'. auto. }
  split; [now rewrite mdata_upd | | | | | |].
  - intros k x. rewrite lookup_upd. apply H2.
  - intros k x. rewrite lookup_upd. intros Hk. destruct (H3 k x Hk) as (n & Hn & Hl & Hd & Hnd).
    destruct (Gn x n Hn) as (n' & Hn' & E1 & E2 & E3 & E4). exists n'. rewrite lookup_upd, E1, E2, E3, E4. auto.
  - intros k x. rewrite lookup_upd, N. apply H4.
  - destruct H5 as (x & n & Hl & Hn & Hnm & Hd). destruct (Gn x n Hn) as (n' & Hn' & E1 & E2 & E3 & E4).
    exists x, n'. rewrite lookup_upd, E1, E2. auto.
  - intros k x. rewrite lookup_upd, N. intros Hk Hn Hr Hp Hdd. destruct (H6 k x Hk Hn Hr Hp Hdd) as (p & pn & Hl & Hpn & Hd & Hg).
    destruct (Gn p pn Hpn) as (n' & Hn' & E1 & E2 & E3 & E4). exists p, n'. rewrite lookup_upd, E2, E4. auto.
  - intros d p pn' name x. rewrite !lookup_upd, N. intros Hd Hp Hk.
    destruct (Gi p pn' Hp) as (pn & Hpn & E1 & E2 & E3 & E4). rewrite E4 in Hk. apply (H7 d p pn name x Hd Hpn Hk).
Qed.

Lemma keeps_mode m : keeps_shape (with_mode m). Proof. intros n; cbn; auto. Qed.
Lemma keeps_mtime t : keeps_shape (with_mtime t). Proof. intros n; cbn; auto. Qed.
Lemma keeps_owner u g : keeps_shape (with_owner u g). Proof. intros n; cbn; auto. Qed.
Lemma keeps_data d : keeps_shape (with_data d). Proof. intros n; cbn; auto. Qed.
Lemma keeps_comp f g : keeps_shape f -> keeps_shape g -> keeps_shape (fun n => f (g n)).
Proof.
  intros Hf Hg n. destruct (Hf (g n)) as (A1 & A2 & A3 & A4), (Hg n) as (B1 & B2 & B3 & B4).
  rewrite A1, A2, A3, A4. auto.
Qed.

(* ---------- L2: a new node under a free key (the key becomes pending) ---------- *)
Definition put_new (s : mst) (k : str) (n : node) : mst :=
  let '(s1, r) := alloc_node s n in set_data s1 (alist_set k r (mdata s1)).

Lemma lookup_put_new s k n k' :
  lookup (put_new s k n) k' = if beqb k k' then Some (length (mheap s)) else lookup s k'.
Proof. unfold put_new, alloc_node, set_data, lookup. cbn [mdata]. apply aget_set. Qed.

Lemma get_put_new_old s k n r : (r < length (mheap s))%nat -> get_node (put_new s k n) r = get_node s r.
Proof. intros H. unfold put_new, alloc_node, set_data, get_node. cbn [mheap]. now rewrite nth_error_app1. Qed.

Lemma get_put_new_new s k n : get_node (put_new s k n) (length (mheap s)) = Some n.
Proof. unfold put_new, alloc_node, set_data, get_node. cbn [mheap]. rewrite nth_error_app2, Nat.sub_diag by lia. reflexivity. Qed.

Lemma GWF_lt (P D S : kset) s k r : GWF P D S s -> lookup s k = Some r -> (r < length (mheap s))%nat.
Proof. intros G H. destruct (GWF_lookup_node _ _ _ _ _ _ G H) as (n & Hn). now apply get_some_lt in Hn. Qed.

Lemma GWF_new (P D S : kset) s k n :
  GWF P D S s -> canon k -> lookup s k = None -> nname n = k -> ndir n = nhasdir n -> nkids n = [] ->
  GWF (kadd P k) D S (put_new s k n).
Proof.
  intros G Hc Hfree Hnm Hdir Hkids. pose proof G as [H1 H2 H3 H4 H5 H6 H7].
  set (s' := put_new s k n). set (r0 := length (mheap s)).
  assert (L : forall k', k' <> k -> lookup s' k' = lookup s k').
  { intros k' Hne. unfold s'. rewrite lookup_put_new. assert (E : beqb k k' = false) by (apply beqb_neq; congruence). now rewrite E. }
  assert (Lk : lookup s' k = Some r0) by (unfold s'; rewrite lookup_put_new, beqb_refl; reflexivity).
  assert (Lkey : forall k' r, lookup s k' = Some r -> k' <> k) by (intros k' r Hk ->; congruence).
  assert (Gn : forall k' r, lookup s k' = Some r -> get_node s' r = get_node s r).
  { intros k' r Hk. apply get_put_new_old. eapply GWF_lt; eauto. }
  assert (Gnew : get_node s' r0 = Some n) by apply get_put_new_new.
  assert (Nn : forall k' r, lookup s k' = Some r -> node_name s' r = node_name s r).
  { intros k' r Hk. unfold node_name. now rewrite (Gn k' r Hk). }
  assert (Inv : forall k' r, lookup s' k' = Some r -> (k' = k /\ r = r0) \/ (k' <> k /\ lookup s k' = Some r)).
  { intros k' r Hk. destruct (str_eq_dec k' k) as [->|Hne]; [left; split; [reflexivity | congruence] | right; split; [exact Hne | now rewrite <- L]]. }
  split.
  - unfold s', put_new, alloc_node, set_data. cbn [mdata]. now apply nodup_set.
  - intros k' r Hk. destruct (Inv k' r Hk) as [[-> _]|[_ Hk']]; [exact Hc | eauto].
  - intros k' r Hk. destruct (Inv k' r Hk) as [[-> ->]|[Hne Hk']].
    + exists n. rewrite Hnm, Hkids. repeat split; auto. constructor.
    + destruct (H3 k' r Hk') as (n' & Hn' & Hl & Hd & Hnd). exists n'. rewrite (Gn k' r Hk').
      repeat split; auto. rewrite L; [exact Hl | eauto].
  - intros k' r Hk Hs. destruct (Inv k' r Hk) as [[-> ->]|[Hne Hk']].
    + unfold node_name. now rewrite Gnew.
    + rewrite (Nn k' r Hk'). auto.
  - destruct H5 as (r & nr & Hl & Hn & Hx). exists r, nr. rewrite L by eauto. rewrite (Gn _ _ Hl). auto.
  - intros k' r Hk Hn Hr Hp Hd. destruct (Inv k' r Hk) as [[-> ->]|[Hne Hk']]; [exfalso; apply Hp; now right|].
    rewrite (Nn k' r Hk') in Hn.
    destruct (H6 k' r Hk' Hn Hr) as (p & pn & Hl & Hpn & Hdp & Hg); [intros Hx; apply Hp; now left | exact Hd |].
    exists p, pn. rewrite L by eauto. rewrite (Gn _ _ Hl). auto.
  - intros d p pn name r Hd Hp Hk. destruct (Inv d p Hd) as [[-> ->]|[Hne Hd']].
    + rewrite Gnew in Hp. inversion Hp; subst pn. rewrite Hkids in Hk. discriminate.
    + rewrite (Gn d p Hd') in Hp. destruct (H7 d p pn name r Hd' Hp Hk) as (Hy & Hx).
      split; [rewrite L; eauto|]. destruct Hx as [Hx|(Hx1 & Hx2 & Hx3 & Hx4)]; [now left | right].
      assert (name <> k) by eauto. repeat split; auto.
      * intros [Hq|Hq]; auto.
      * now rewrite L.
      * now rewrite (Nn name r Hx3).
Qed.

(* ---------- L3: AddToMemDir ---------- *)
Lemma init_dir_id n : nhasdir n = true -> init_dir n = n.
Proof. unfold init_dir. now intros ->. Qed.

Definition set_kid (k : str) (f : nat) (pn : node) : node := with_kids (alist_set k f (nkids pn)) pn.
Definition del_kid (k : str) (pn : node) : node := with_kids (alist_del k (nkids pn)) pn.

Lemma add_kid_eq s p f pn : get_node s p = Some pn -> nhasdir pn = true ->
  add_kid s p f = upd_node s p (set_kid (node_name s f) f).
Proof.
  intros Hp Hh. unfold add_kid, upd_node. rewrite Hp. f_equal. now rewrite init_dir_id.
Qed.

(* a transformation of the kids of one node *)
Lemma upd_kids_facts s p g :
  (forall n, nname (g n) = nname n /\ ndir (g n) = ndir n /\ nhasdir (g n) = nhasdir n) ->
  let s' := upd_node s p g in
  (forall k, lookup s' k = lookup s k) /\
  (forall r, node_name s' r = node_name s r) /\
  (forall r n, get_node s r = Some n -> exists n', get_node s' r = Some n' /\ nname n' = nname n /\ ndir n' = ndir n /\
       nhasdir n' = nhasdir n /\ nkids n' = (if Nat.eqb p r then nkids (g n) else nkids n)) /\
  (forall r n', get_node s' r = Some n' -> exists n, get_node s r = Some n /\ nname n' = nname n /\ ndir n' = ndir n /\
       nhasdir n' = nhasdir n /\ nkids n' = (if Nat.eqb p r then nkids (g n) else nkids n)).
Proof.
  intros Hg s'. split; [intros; apply lookup_upd|]. split; [|split].
  - intros r. unfold s'. rewrite node_name_upd. destruct (Nat.eqb p r) eqn:E; [|reflexivity].
    apply Nat.eqb_eq in E. subst r. unfold node_name. destruct (get_node s p) as [n|]; [apply Hg | reflexivity].
  - intros r n Hr. unfold s'. rewrite get_upd. destruct (Nat.eqb p r) eqn:E.
    + apply Nat.eqb_eq in E. subst r. rewrite Hr. cbn. exists (g n). destruct (Hg n) as (A1 & A2 & A3). auto.
    + exists n. auto.
  - intros r n' Hr. unfold s' in Hr. rewrite get_upd in Hr. destruct (Nat.eqb p r) eqn:E.
    + apply Nat.eqb_eq in E. subst r. destruct (get_node s p) as [n|]; [|discriminate]. cbn in Hr. inversion Hr; subst.
      exists n. destruct (Hg n) as (A1 & A2 & A3). auto.
    + exists n'. auto.
Qed.

Lemma set_kid_shape k f n : nname (set_kid k f n) = nname n /\ ndir (set_kid k f n) = ndir n /\ nhasdir (set_kid k f n) = nhasdir n.
Proof. cbn; auto. Qed.
Lemma del_kid_shape k n : nname (del_kid k n) = nname n /\ ndir (del_kid k n) = ndir n /\ nhasdir (del_kid k n) = nhasdir n.
Proof. cbn; auto. Qed.

Lemma GWF_add_kid (P D S : kset) s k f p pn :
  GWF P D S s -> lookup s k = Some f -> node_name s f = k -> k <> s_slash ->
  lookup s (par k) = Some p -> get_node s p = Some pn -> ndir pn = true ->
  GWF (ksub P k) (ksub D k) S (upd_node s p (set_kid k f)).
Proof.
  intros G Hk Hname Hkr Hpar Hpn Hdir. pose proof G as [H1 H2 H3 H4 H5 H6 H7].
  destruct (upd_kids_facts s p (set_kid k f) (set_kid_shape k f)) as (L & N & Gn & Gi).
  set (s' := upd_node s p (set_kid k f)) in *.
  split.
  - unfold s'. now rewrite mdata_upd.
  - intros k' r. rewrite L. apply H2.
  - intros k' r. rewrite L. intros Hk'. destruct (H3 k' r Hk') as (n & Hn & Hl & Hd & Hnd).
    destruct (Gn r n Hn) as (n' & Hn' & E1 & E2 & E3 & E4). exists n'. rewrite L, E1, E2, E3, E4.
    repeat split; auto. destruct (Nat.eqb p r); [|exact Hnd]. cbn. now apply nodup_set.
  - intros k' r. rewrite L, N. apply H4.
  - destruct H5 as (r & n & Hl & Hn & Hnm & Hd). destruct (Gn r n Hn) as (n' & Hn' & E1 & E2 & E3 & E4).
    exists r, n'. rewrite L, E1, E2. auto.
  - intros k' r. rewrite L, N. intros Hk' Hn Hr Hp Hd.
    destruct (str_eq_dec k' k) as [->|Hne].
    + assert (r = f) by congruence. subst r. destruct (Gn p pn Hpn) as (n' & Hn' & E1 & E2 & E3 & E4).
      exists p, n'. rewrite L, E2, E4, Nat.eqb_refl. repeat split; auto. cbn. apply aget_set_same.
    + destruct (H6 k' r Hk' Hn Hr) as (q & qn & Hl & Hqn & Hdq & Hg); [intros Hx; apply Hp; now split | intros Hx; apply Hd; now split |].
      destruct (Gn q qn Hqn) as (n' & Hn' & E1 & E2 & E3 & E4). exists q, n'. rewrite L, E2, E4. repeat split; auto.
      destruct (Nat.eqb p q); [|exact Hg]. cbn. rewrite aget_set_other by congruence. exact Hg.
  - intros d q qn' name r. rewrite !L, N. intros Hd Hq Hg.
    destruct (Gi q qn' Hq) as (qn & Hqn & E1 & E2 & E3 & E4). rewrite E4 in Hg.
    destruct (Nat.eqb p q) eqn:Epq.
    + apply Nat.eqb_eq in Epq. subst q. cbn in Hg. rewrite aget_set in Hg. destruct (beqb k name) eqn:Ek.
      * apply beqb_eq in Ek. subst name. inversion Hg; subst r. split; [exact Hpar|]. right.
        repeat split; auto. intros [_ Hx]; now apply Hx.
      * apply beqb_neq in Ek. destruct (H7 d p qn name r Hd Hqn Hg) as (Hy & Hx). split; [exact Hy|].
        destruct Hx as [Hx|(Hx1 & Hx)]; [left; split; [exact Hx | congruence] | right]. split; [|exact Hx]. intros [Hz _]; now apply Hx1.
    + destruct (H7 d q qn name r Hd Hqn Hg) as (Hy & Hx). split; [exact Hy|].
      assert (Hnk : name <> k). { intros ->. rewrite Hpar in Hy. inversion Hy; subst. now rewrite Nat.eqb_refl in Epq. }
      destruct Hx as [Hx|(Hx1 & Hx)]; [left; split; [exact Hx | exact Hnk] | right]. split; [|exact Hx]. intros [Hz _]; now apply Hx1.
Qed.

(* ---------- L4: unRegisterWithParent ---------- *)
Lemma lockfree_open_canon s k : canon k -> lockfree_open s k = lookup s k.
Proof. intros Hc. unfold lockfree_open. now rewrite (canon_norm k Hc). Qed.

Lemma find_parent_canon s f k : node_name s f = k -> canon k -> find_parent s f = lookup s (par k).
Proof.
  intros Hn Hc. unfold find_parent, lockfree_open. rewrite Hn. now rewrite (find_parent_path k Hc).
Qed.

Lemma GWF_unregister (P D S : kset) s k f :
  GWF P D S s -> lookup s k = Some f -> node_name s f = k -> k <> s_slash -> ~ P k -> ~ D k ->
  exists p pn, lookup s (par k) = Some p /\ get_node s p = Some pn /\ ndir pn = true /\
    unregister s k = Some (upd_node s p (del_kid k), true) /\
    GWF (kadd P k) D S (upd_node s p (del_kid k)).
Proof.
  intros G Hk Hname Hkr HP HD. pose proof G as [H1 H2 H3 H4 H5 H6 H7].
  destruct (H6 k f Hk Hname Hkr HP HD) as (p & pn & Hpar & Hpn & Hdir & Hent).
  exists p, pn. split; [exact Hpar|]. split; [exact Hpn|]. split; [exact Hdir|]. split.
  - unfold unregister. rewrite (lockfree_open_canon s k (H2 k f Hk)), Hk.
    rewrite (find_parent_canon s f k Hname (H2 k f Hk)), Hpar, Hpn.
    destruct (H3 _ _ Hpar) as (pn' & Hpn' & _ & Hd' & _). rewrite Hpn in Hpn'. inversion Hpn'; subst pn'.
    rewrite <- Hd', Hdir. rewrite Hname. reflexivity.
  - destruct (upd_kids_facts s p (del_kid k) (del_kid_shape k)) as (L & N & Gn & Gi).
    set (s' := upd_node s p (del_kid k)) in *.
    split.
    + unfold s'. now rewrite mdata_upd.
    + intros k' r. rewrite L. apply H2.
    + intros k' r. rewrite L. intros Hk'. destruct (H3 k' r Hk') as (n & Hn & Hl & Hd & Hnd).
      destruct (Gn r n Hn) as (n' & Hn' & E1 & E2 & E3 & E4). exists n'. rewrite L, E1, E2, E3, E4.
      repeat split; auto. destruct (Nat.eqb p r); [|exact Hnd]. cbn. now apply nodup_del.
    + intros k' r. rewrite L, N. apply H4.
    + destruct H5 as (r & n & Hl & Hn & Hnm & Hd). destruct (Gn r n Hn) as (n' & Hn' & E1 & E2 & E3 & E4).
      exists r, n'. rewrite L, E1, E2. auto.
    + intros k' r. rewrite L, N. intros Hk' Hn Hr Hp Hd.
      assert (Hne : k' <> k) by (intros ->; apply Hp; now right).
      destruct (H6 k' r Hk' Hn Hr) as (q & qn & Hl & Hqn & Hdq & Hg); [intros Hx; apply Hp; now left | exact Hd |].
      destruct (Gn q qn Hqn) as (n' & Hn' & E1 & E2 & E3 & E4). exists q, n'. rewrite L, E2, E4. repeat split; auto.
      destruct (Nat.eqb p q); [|exact Hg]. cbn. rewrite aget_del_other by congruence. exact Hg.
    + intros d q qn' name r. rewrite !L, N. intros Hd Hq Hg.
      destruct (Gi q qn' Hq) as (qn & Hqn & E1 & E2 & E3 & E4). rewrite E4 in Hg.
      assert (Hold : alist_get name (nkids qn) = Some r /\ (p = q -> name <> k)).
      { destruct (Nat.eqb p q) eqn:Epq.
        - cbn in Hg. rewrite aget_del in Hg. destruct (beqb k name) eqn:Ek; [discriminate|]. apply beqb_neq in Ek.
          split; [exact Hg | intros _; congruence].
        - split; [exact Hg | intros ->; now rewrite Nat.eqb_refl in Epq]. }
      destruct Hold as [Hg' Hnk]. destruct (H7 d q qn name r Hd Hqn Hg') as (Hy & Hx). split; [exact Hy|].
      destruct Hx as [Hx|(Hx1 & Hx)]; [now left | right]. split; [|exact Hx].
      intros [Hz|Hz]; [now apply Hx1|]. subst name. rewrite Hpar in Hy. inversion Hy; subst. now apply Hnk.
Qed.

(* ---------- L5: delete(m.data, k) for a pending key ---------- *)
Definition del_key (s : mst) (k : str) : mst := set_data s (alist_del k (mdata s)).

Lemma lookup_del_key s k k' : lookup (del_key s k) k' = if beqb k k' then None else lookup s k'.
Proof. unfold del_key, set_data, lookup. cbn [mdata]. apply aget_del. Qed.

Lemma GWF_del (P D S : kset) s k :
  GWF P D S s -> P k -> k <> s_slash ->
  (forall k' r', k' <> k -> lookup s k' = Some r' -> node_name s r' <> k) ->
  (forall k' r', lookup s k' = Some r' -> k' <> k -> k' <> s_slash -> node_name s r' = k' -> ~ P k' -> par k' <> k) ->
  (forall name, D name -> par name <> k) ->
  GWF (ksub P k) D (ksub S k) (del_key s k).
Proof.
  intros G HPk Hkr Hal Hch HDk. pose proof G as [H1 H2 H3 H4 H5 H6 H7].
  set (s' := del_key s k).
  assert (L : forall k', k' <> k -> lookup s' k' = lookup s k').
  { intros k' Hne. unfold s'. rewrite lookup_del_key. assert (E : beqb k k' = false) by (apply beqb_neq; congruence). now rewrite E. }
  assert (Inv : forall k' r, lookup s' k' = Some r -> k' <> k /\ lookup s k' = Some r).
  { intros k' r Hk. unfold s' in Hk. rewrite lookup_del_key in Hk. destruct (beqb k k') eqn:E; [discriminate|].
    apply beqb_neq in E. split; [congruence | exact Hk]. }
  assert (Gn : forall r, get_node s' r = get_node s r) by reflexivity.
  assert (Nn : forall r, node_name s' r = node_name s r) by reflexivity.
  split.
  - unfold s', del_key, set_data. cbn [mdata]. now apply nodup_del.
  - intros k' r Hk. destruct (Inv k' r Hk) as [_ Hk']. eauto.
  - intros k' r Hk. destruct (Inv k' r Hk) as [Hne Hk']. destruct (H3 k' r Hk') as (n & Hn & Hl & Hd & Hnd).
    exists n. rewrite Gn. repeat split; auto. rewrite L; [exact Hl|].
    rewrite <- (node_name_get s r n Hn). now apply (Hal k' r).
  - intros k' r Hk Hs. destruct (Inv k' r Hk) as [Hne Hk']. rewrite Nn. apply H4; [exact Hk'|]. intros Hx. apply Hs. now split.
  - destruct H5 as (r & n & Hl & Hn & Hx). exists r, n. rewrite L by congruence. auto.
  - intros k' r Hk Hn Hr Hp Hd. destruct (Inv k' r Hk) as [Hne Hk']. rewrite Nn in Hn.
    assert (HP' : ~ P k') by (intros Hx; apply Hp; now split).
    destruct (H6 k' r Hk' Hn Hr HP' Hd) as (p & pn & Hl & Hpn & Hdp & Hg).
    exists p, pn. rewrite L; [auto|]. now apply (Hch k' r).
  - intros d p pn name r Hd Hp Hg. destruct (Inv d p Hd) as [Hne Hd']. rewrite Gn in Hp.
    destruct (H7 d p pn name r Hd' Hp Hg) as (Hy & Hx).
    destruct Hx as [Hx|(Hx1 & Hx2 & Hx3 & Hx4)].
    + split; [rewrite L; [exact Hy | now apply HDk] | now left].
    + assert (Hnk : name <> k) by (intros ->; contradiction).
      split; [rewrite L; [exact Hy | now apply (Hch name r)]|]. right. repeat split; auto.
      * intros [Hz _]; contradiction.
      * now rewrite L.
Qed.

(* ---------- L6: ChangeFileName(f, k2); m.data[k2] = f ---------- *)
Definition move_key (s : mst) (f : nat) (k2 : str) : mst :=
  let s2 := upd_node s f (with_name k2) in set_data s2 (alist_set k2 f (mdata s2)).

Lemma lookup_move_key s f k2 k' : lookup (move_key s f k2) k' = if beqb k2 k' then Some f else lookup s k'.
Proof. unfold move_key, set_data, lookup. cbn [mdata]. rewrite mdata_upd. apply aget_set. Qed.

Lemma get_move_key s f k2 r :
  get_node (move_key s f k2) r = if Nat.eqb f r then option_map (with_name k2) (get_node s f) else get_node s r.
Proof. unfold move_key, set_data. change (get_node (mkM ?d ?h ?hs ?c) r) with (nth_error h r). apply get_upd. Qed.

Lemma GWF_move (P D S : kset) s k f k2 :
  GWF P D S s -> lookup s k = Some f -> node_name s f = k -> P k -> k <> s_slash ->
  canon k2 -> k2 <> k -> k2 <> s_slash -> ~ P k2 ->
  (forall k' r', lookup s k' = Some r' -> k' <> s_slash -> par k' <> k2) ->
  (forall name, D name -> par name <> k2) ->
  (forall k' r', lookup s k' = Some r' -> k' <> k2 -> node_name s r' <> k2) ->
  GWF P (kadd D k2) (kadd S k) (move_key s f k2).
Proof.
  intros G Hk Hname HPk Hkr Hc2 Hne2 Hr2 HP2 Hnochild HDpar Hnoname. pose proof G as [H1 H2 H3 H4 H5 H6 H7].
  set (s' := move_key s f k2).
  assert (L : forall k', k' <> k2 -> lookup s' k' = lookup s k').
  { intros k' Hne. unfold s'. rewrite lookup_move_key. assert (E : beqb k2 k' = false) by (apply beqb_neq; congruence). now rewrite E. }
  assert (Lk2 : lookup s' k2 = Some f) by (unfold s'; rewrite lookup_move_key, beqb_refl; reflexivity).
  assert (Inv : forall k' r, lookup s' k' = Some r -> (k' = k2 /\ r = f) \/ (k' <> k2 /\ lookup s k' = Some r)).
  { intros k' r Hk'. destruct (str_eq_dec k' k2) as [->|Hne]; [left; split; [reflexivity | congruence] | right; split; [exact Hne | now rewrite <- L]]. }
  destruct (H3 k f Hk) as (fn & Hfn & Hfl & Hfd & Hfnd).
  assert (Hfname : nname fn = k) by (rewrite <- (node_name_get s f fn Hfn); exact Hname).
  assert (Gf : get_node s' f = Some (with_name k2 fn)) by (unfold s'; rewrite get_move_key, Nat.eqb_refl, Hfn; reflexivity).
  assert (Go : forall r, r <> f -> get_node s' r = get_node s r).
  { intros r Hne. unfold s'. rewrite get_move_key. assert (E : Nat.eqb f r = false) by (apply Nat.eqb_neq; congruence). now rewrite E. }
  assert (Gn : forall r n, get_node s r = Some n -> exists n', get_node s' r = Some n' /\
             nname n' = (if Nat.eqb f r then k2 else nname n) /\ ndir n' = ndir n /\ nhasdir n' = nhasdir n /\ nkids n' = nkids n).
  { intros r n Hn. destruct (Nat.eqb f r) eqn:E.
    - apply Nat.eqb_eq in E. subst r. rewrite Hfn in Hn. inversion Hn; subst n. exists (with_name k2 fn). auto.
    - apply Nat.eqb_neq in E. exists n. rewrite Go by congruence. auto. }
  assert (Gi : forall r n', get_node s' r = Some n' -> exists n, get_node s r = Some n /\
             nname n' = (if Nat.eqb f r then k2 else nname n) /\ ndir n' = ndir n /\ nhasdir n' = nhasdir n /\ nkids n' = nkids n).
  { intros r n' Hn. destruct (Nat.eqb f r) eqn:E.
    - apply Nat.eqb_eq in E. subst r. rewrite Gf in Hn. inversion Hn; subst n'. exists fn. auto.
    - apply Nat.eqb_neq in E. exists n'. rewrite <- Go by congruence. auto. }
  assert (Nf : node_name s' f = k2) by (unfold node_name; now rewrite Gf).
  assert (No : forall r, r <> f -> node_name s' r = node_name s r) by (intros r Hne; unfold node_name; now rewrite Go).
  (* a key other than k2 whose node is f can only be k or a stale key *)
  split.
  - unfold s', move_key, set_data. cbn [mdata]. rewrite mdata_upd. now apply nodup_set.
  - intros k' r Hk'. destruct (Inv k' r Hk') as [[-> _]|[_ Hk'']]; [exact Hc2 | eauto].
  - intros k' r Hk'.
    assert (Hr : lookup s k = Some r /\ r = f \/ (r <> f /\ k' <> k2 /\ lookup s k' = Some r)).
    { destruct (Inv k' r Hk') as [[-> ->]|[Hne Hk'']]; [left; auto|].
      destruct (Nat.eq_dec r f) as [->|Hrf]; [left; auto | right; auto]. }
    destruct Hr as [[_ ->]|(Hrf & Hne & Hk'')].
    + exists (with_name k2 fn). split; [exact Gf|]. split; [exact Lk2|]. cbn. auto.
    + destruct (H3 k' r Hk'') as (n & Hn & Hl & Hd & Hnd). exists n. rewrite Go by exact Hrf.
      repeat split; auto. rewrite L; [exact Hl|]. rewrite <- (node_name_get s r n Hn). now apply (Hnoname k' r).
  - intros k' r Hk' Hs. destruct (Inv k' r Hk') as [[-> ->]|[Hne Hk'']]; [exact Nf|].
    assert (HS : ~ S k') by (intros Hx; apply Hs; now left).
    pose proof (H4 k' r Hk'' HS) as Hnm.
    destruct (Nat.eq_dec r f) as [->|Hrf]; [exfalso; apply Hs; right; congruence|]. now rewrite No.
  - destruct H5 as (r & n & Hl & Hn & Hnm & Hd). destruct (Gn r n Hn) as (n' & Hn' & E1 & E2 & E3 & E4).
    exists r, n'. rewrite L by congruence. repeat split; auto; [|congruence].
    rewrite E1. destruct (Nat.eqb f r) eqn:E; [|exact Hnm]. apply Nat.eqb_eq in E. subst r.
    exfalso. apply Hkr. rewrite <- Hname. rewrite (node_name_get s f n Hn). exact Hnm.
  - intros k' r Hk' Hn Hr Hp Hd.
    destruct (Inv k' r Hk') as [[-> ->]|[Hne Hk'']]; [exfalso; apply Hd; now right|].
    assert (Hrf : r <> f) by (intros ->; rewrite Nf in Hn; congruence).
    rewrite No in Hn by exact Hrf.
    destruct (H6 k' r Hk'' Hn Hr Hp) as (p & pn & Hl & Hpn & Hdp & Hg); [intros Hx; apply Hd; now left|].
    destruct (Gn p pn Hpn) as (n' & Hn' & E1 & E2 & E3 & E4). exists p, n'.
    rewrite L by (now apply (Hnochild k' r)). rewrite E2, E4. auto.
  - intros d p pn' name r Hd Hp Hg.
    assert (Hd' : exists d', lookup s d' = Some p).
    { destruct (Inv d p Hd) as [[-> ->]|[_ Hx]]; [now exists k | now exists d]. }
    destruct Hd' as (d' & Hd'). destruct (Gi p pn' Hp) as (pn & Hpn & E1 & E2 & E3 & E4). rewrite E4 in Hg.
    destruct (H7 d' p pn name r Hd' Hpn Hg) as (Hy & Hx).
    destruct Hx as [Hx|(Hx1 & Hx2 & Hx3 & Hx4)].
    + split; [rewrite L; [exact Hy | now apply HDpar] | left; now left].
    + split; [rewrite L; [exact Hy | now apply (Hnochild name r)]|].
      destruct (str_eq_dec name k2) as [->|Hnk2]; [left; now right | right].
      assert (Hrf : r <> f) by (intros ->; apply Hx1; congruence).
      repeat split; auto; [now rewrite L | now rewrite No].
Qed.

(* ---------- registerWithParent ---------- *)
Lemma register_present fuel s f perm k p pn :
  node_name s f = k -> canon k -> lookup s (par k) = Some p -> get_node s p = Some pn -> nhasdir pn = true ->
  register fuel s f perm = upd_node s p (set_kid k f).
Proof.
  intros Hn Hc Hp Hpn Hh. assert (E : find_parent s f = Some p) by (rewrite (find_parent_canon s f k Hn Hc); exact Hp).
  destruct fuel; cbn [register]; rewrite E; rewrite (add_kid_eq s p f pn Hpn Hh), Hn; reflexivity.
Qed.

Definition mkdir_node (k : str) (perm now : Z) : node := with_mode (Z.lor mode_dir perm) (new_dir k now).

Lemma register_missing fu s f perm k :
  node_name s f = k -> canon k -> lookup s (par k) = None ->
  register (S fu) s f perm =
    let s3 := register fu (put_new s (par k) (mkdir_node (par k) perm (mclock s))) (length (mheap s)) perm in
    match lookup s3 (par k) with Some p => add_kid s3 p f | None => s3 end.
Proof.
  intros Hn Hc Hp. assert (E : find_parent s f = None) by (rewrite (find_parent_canon s f k Hn Hc); exact Hp).
  cbn [register]. rewrite E, Hn. rewrite (register_path k Hc), Hp.
  unfold lockfree_open. rewrite (canon_clean k Hc). change (path_dir k) with (par k).
  rewrite (canon_norm _ (canon_par k Hc)). reflexivity.
Qed.

(* what a chain of auto-created ancestors may change *)
Record reg_frame (perm : Z) (k : str) (s s' : mst) : Prop := mkRF {
  rf_keep : forall k' r, lookup s k' = Some r -> lookup s' k' = Some r;
  rf_new : forall k' r, lookup s' k' = Some r -> lookup s k' = None ->
           below k' k = true /\ exists n, get_node s' r = Some n /\ with_kids [] n = mkdir_node k' perm (mclock s);
  rf_nodes : forall r n, get_node s r = Some n -> exists n', get_node s' r = Some n' /\ with_kids [] n' = with_kids [] n;
  rf_handles : mhandles s' = mhandles s;
  rf_clock : mclock s' = mclock s
}.

Lemma with_kids_nil_fields n n' : with_kids [] n' = with_kids [] n ->
  nname n' = nname n /\ ndir n' = ndir n /\ nhasdir n' = nhasdir n /\ ndata n' = ndata n /\ nmode n' = nmode n /\ nmtime n' = nmtime n.
Proof. destruct n, n'. cbn. intros H. inversion H. repeat split; reflexivity. Qed.

Lemma reg_frame_kid perm k s p g :
  (forall n, with_kids [] (g n) = with_kids [] n) -> reg_frame perm k s (upd_node s p g).
Proof.
  intros Hg. split.
  - intros k' r. now rewrite lookup_upd.
  - intros k' r. rewrite lookup_upd. congruence.
  - intros r n Hn. rewrite get_upd. destruct (Nat.eqb p r) eqn:E.
    + apply Nat.eqb_eq in E. subst. rewrite Hn. cbn. exists (g n). auto.
    + exists n. auto.
  - apply mhandles_upd.
  - apply mclock_upd.
Qed.

Lemma register_chain : forall fuel (P : kset) s k f perm,
  (length k < fuel)%nat ->
  GWF P kempty kempty s -> (forall x, P x -> lookup s x <> None) ->
  lookup s k = Some f -> node_name s f = k -> k <> s_slash -> P k ->
  (forall a r n, below a k = true -> lookup s a = Some r -> get_node s r = Some n -> ndir n = true) ->
  GWF (ksub P k) kempty kempty (register fuel s f perm) /\ reg_frame perm k s (register fuel s f perm).
Proof.
  induction fuel as [|fu IH]; intros P s k f perm Hfuel G HPkeys Hk Hname Hkr HPk Hdirs; [lia|].
  assert (Hc : canon k) by (eapply g_canon; eauto).
  destruct (lookup s (par k)) as [p|] eqn:Hpar.
  - (* the parent exists: it is a directory *)
    destruct (g_node _ _ _ _ G _ _ Hpar) as (pn & Hpn & _ & Hpd & _).
    assert (Hdir : ndir pn = true).
    { destruct (str_eq_dec (par k) s_slash) as [E|E].
      - destruct (g_root _ _ _ _ G) as (r0 & n0 & Hl0 & Hn0 & _ & Hd0). rewrite E in Hpar. congruence.
      - apply (Hdirs (par k) p pn); auto. now apply below_par. }
    rewrite (register_present (S fu) s f perm k p pn Hname Hc Hpar Hpn) by congruence.
    split; [eapply GWF_ext; [| | |eapply (GWF_add_kid P kempty kempty s k f p pn); eauto]; try tauto; intros x [[] _] |].
    apply reg_frame_kid. intros n; reflexivity.
  - (* the parent is missing: lockfreeMkdir creates it and registers it first *)
    rewrite (register_missing fu s f perm k Hname Hc Hpar). cbv zeta.
    set (pk := par k) in *. set (nd := mkdir_node pk perm (mclock s)).
    set (s2 := put_new s pk nd). set (item := length (mheap s)).
    assert (Hcp : canon pk) by now apply canon_par.
    assert (Hpkr : pk <> s_slash).
    { intros E. destruct (g_root _ _ _ _ G) as (r0 & n0 & Hl0 & _). rewrite E in Hpar. congruence. }
    assert (G2 : GWF (kadd P pk) kempty kempty s2) by (apply GWF_new; auto).
    assert (L2 : forall k', k' <> pk -> lookup s2 k' = lookup s k').
    { intros k' Hne. unfold s2. rewrite lookup_put_new. assert (E : beqb pk k' = false) by (apply beqb_neq; congruence). now rewrite E. }
    assert (L2k : lookup s2 pk = Some item) by (unfold s2; rewrite lookup_put_new, beqb_refl; reflexivity).
    assert (Gn2 : forall r, (r < length (mheap s))%nat -> get_node s2 r = get_node s r) by (intros; now apply get_put_new_old).
    assert (Gi2 : get_node s2 item = Some nd) by apply get_put_new_new.
    assert (Hkpk : k <> pk) by (intros E; symmetry in E; revert E; now apply par_neq).
    destruct (IH (kadd P pk) s2 pk item perm) as [G3 F3].
    + pose proof (par_shorter k Hc Hkr). fold pk in H. lia.
    + exact G2.
    + intros x [Hx | ->]; [rewrite L2; [now apply HPkeys | intros ->; apply (HPkeys _ Hx); exact Hpar] | congruence].
    + exact L2k.
    + unfold node_name. now rewrite Gi2.
    + exact Hpkr.
    + now right.
    + intros a r n Hb Hl Hn. assert (Hane : a <> pk) by (intros ->; rewrite below_irrefl in Hb; discriminate).
      rewrite L2 in Hl by exact Hane. rewrite Gn2 in Hn by (eapply GWF_lt; eauto).
      apply (Hdirs a r n); auto. eapply below_trans; [exact Hb|]. now apply below_par.
    + set (s3 := register fu s2 item perm) in *.
      assert (L3k : lookup s3 pk = Some item) by (apply (rf_keep _ _ _ _ F3); exact L2k).
      rewrite L3k.
      destruct (rf_nodes _ _ _ _ F3 item nd Gi2) as (n3 & Hn3 & En3).
      destruct (with_kids_nil_fields _ _ En3) as (A1 & A2 & A3 & _).
      assert (Hf2 : lookup s2 k = Some f) by (rewrite L2; auto).
      assert (Hf3 : lookup s3 k = Some f) by (apply (rf_keep _ _ _ _ F3); exact Hf2).
      destruct (g_node _ _ _ _ G _ _ Hk) as (fn & Hfn & _).
      assert (Hfn2 : get_node s2 f = Some fn) by (rewrite Gn2; [exact Hfn | now apply get_some_lt in Hfn]).
      destruct (rf_nodes _ _ _ _ F3 f fn Hfn2) as (fn3 & Hfn3 & Efn3).
      destruct (with_kids_nil_fields _ _ Efn3) as (B1 & _).
      assert (Hname3 : node_name s3 f = k).
      { rewrite (node_name_get _ _ _ Hfn3), B1, <- (node_name_get _ _ _ Hfn). exact Hname. }
      rewrite (add_kid_eq s3 item f n3 Hn3) by (rewrite A3; reflexivity). rewrite Hname3.
      split.
      * eapply GWF_ext; [| | |eapply (GWF_add_kid _ kempty kempty s3 k f item n3); eauto; rewrite A2; reflexivity].
        -- intros x. unfold ksub, kadd. split; [intros [[[Hx|Hx] Hx1] Hx2]; [auto | contradiction] |].
           intros [Hx Hx2]. split; [split; [now left|] | exact Hx2]. intros ->. apply (HPkeys _ Hx). exact Hpar.
        -- intros x [[] _].
        -- intros x [].
      * (* frame *)
        pose proof (reg_frame_kid perm k s3 item (set_kid k f) (fun n => eq_refl)) as F4.
        set (s4 := upd_node s3 item (set_kid k f)) in *.
        split.
        -- intros k' r Hl. apply (rf_keep _ _ _ _ F4). apply (rf_keep _ _ _ _ F3).
           rewrite L2; [exact Hl | intros ->; congruence].
        -- intros k' r Hl4 Hnone. unfold s4 in Hl4. rewrite lookup_upd in Hl4.
           destruct (str_eq_dec k' pk) as [->|Hne].
           ++ split; [now apply below_par|]. assert (r = item) by congruence. subst r.
              destruct (rf_nodes _ _ _ _ F4 item n3 Hn3) as (n4 & Hn4 & En4). exists n4. split; [exact Hn4|].
              rewrite En4, En3. reflexivity.
           ++ rewrite <- L2 in Hnone by exact Hne.
              destruct (rf_new _ _ _ _ F3 k' r Hl4 Hnone) as (Hb & n & Hn & En).
              split; [eapply below_trans; [exact Hb | now apply below_par]|].
              destruct (rf_nodes _ _ _ _ F4 r n Hn) as (n4 & Hn4 & En4). exists n4. split; [exact Hn4|].
              rewrite En4, En. reflexivity.
        -- intros r n Hn. assert (Hn2 : get_node s2 r = Some n) by (rewrite Gn2; [exact Hn | now apply get_some_lt in Hn]).
           destruct (rf_nodes _ _ _ _ F3 r n Hn2) as (n3' & Hn3' & En3').
           destruct (rf_nodes _ _ _ _ F4 r n3' Hn3') as (n4 & Hn4 & En4). exists n4. split; [exact Hn4 | congruence].
        -- rewrite (rf_handles _ _ _ _ F4), (rf_handles _ _ _ _ F3). reflexivity.
        -- rewrite (rf_clock _ _ _ _ F4), (rf_clock _ _ _ _ F3). reflexivity.
Qed.
