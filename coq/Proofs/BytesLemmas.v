From AF Require Import Lib.Bytes.

Lemma prefixb_spec p s : prefixb p s = true <-> exists r, s = p ++ r.
Proof.
  revert s; induction p as [|x p IH]; intros s; simpl.
  - split; [intros _; exists s; reflexivity | reflexivity].
  - destruct s as [|y s]; [split; [discriminate | intros [r Hr]; discriminate]|].
    rewrite andb_true_iff, N.eqb_eq, IH. split.
    + intros [-> [r ->]]. exists r; reflexivity.
    + intros [r Hr]. inversion Hr; subst. split; [reflexivity | exists r; reflexivity].
Qed.

Lemma infixb_spec n s : infixb n s = true <-> exists a b, s = a ++ n ++ b.
Proof.
  induction s as [|y s IH]; simpl.
  - rewrite orb_false_r, prefixb_spec. split.
    + intros [r Hr]. exists [], r. exact Hr.
    + intros [a [b H]]. destruct a; simpl in H; [exists b; exact H | discriminate].
  - rewrite orb_true_iff, prefixb_spec, IH. split.
    + intros [[r Hr] | [a [b H]]].
      * exists [], r; exact Hr.
      * exists (y :: a), b. simpl. f_equal. exact H.
    + intros [a [b H]]. destruct a as [|z a]; simpl in H.
      * left. exists b; exact H.
      * right. inversion H; subst. exists a, b; reflexivity.
Qed.

Lemma infixb_app_l n s t : infixb n s = true -> infixb n (s ++ t) = true.
Proof.
  rewrite !infixb_spec. intros [a [b ->]]. exists a, (b ++ t). now rewrite <- !app_assoc.
Qed.

Lemma infixb_app_r n s t : infixb n t = true -> infixb n (s ++ t) = true.
Proof.
  rewrite !infixb_spec. intros [a [b ->]]. exists (s ++ a), b. now rewrite <- !app_assoc.
Qed.

Lemma firstn_app_exact {A} (l1 l2 : list A) : firstn (length l1) (l1 ++ l2) = l1.
Proof. rewrite firstn_app, Nat.sub_diag, firstn_all. simpl. apply app_nil_r. Qed.

Lemma skipn_app_exact {A} (l1 l2 : list A) : skipn (length l1) (l1 ++ l2) = l2.
Proof. rewrite skipn_app, skipn_all, Nat.sub_diag. reflexivity. Qed.

(* an occurrence in p ++ c ++ r of a needle no longer than c lies in p ++ c or in c ++ r *)
Lemma infix_split (n p c r : bytes) :
  length n <= length c ->
  infixb n (p ++ c ++ r) = true ->
  infixb n (p ++ c) = true \/ infixb n (c ++ r) = true.
Proof.
  intros Hlen. rewrite !infixb_spec. intros [a [b H]].
  destruct (Nat.le_gt_cases (length a + length n) (length p + length c)) as [Hle|Hgt].
  - left. exists a, (skipn (length a + length n) (p ++ c)).
    assert (Hf : firstn (length a + length n) (p ++ c ++ r) = a ++ n).
    { rewrite H, app_assoc, <- app_length. apply firstn_app_exact. }
    rewrite app_assoc in Hf. rewrite firstn_app in Hf.
    replace (length a + length n - length (p ++ c)) with 0 in Hf by (rewrite app_length; lia).
    simpl in Hf. rewrite app_nil_r in Hf.
    rewrite app_assoc, <- Hf. symmetry. apply firstn_skipn.
  - right. assert (Hp : length p <= length a) by lia.
    exists (skipn (length p) a), b.
    assert (Hs : skipn (length p) (p ++ c ++ r) = c ++ r) by apply skipn_app_exact.
    rewrite <- Hs, H. rewrite skipn_app.
    replace (length p - length a) with 0 by lia. reflexivity.
Qed.

Lemma copy_into_length dst src : length (copy_into dst src) = length dst.
Proof.
  unfold copy_into. rewrite app_length, firstn_length, skipn_length. lia.
Qed.

Lemma copy_into_short dst src : length src <= length dst ->
  copy_into dst src = src ++ skipn (length src) dst.
Proof. intros H. unfold copy_into. now rewrite firstn_all2. Qed.

Lemma zeros_length n : length (zeros n) = n.
Proof. apply repeat_length. Qed.

