(* Proofs/MemFsList.v — directory listings: reading a handle on a directory returns exactly the
   base names of the keys of the path map whose parent is that directory, in ascending order,
   and reading in pages partitions that list. *)
From Coq Require Import Sorting.Permutation Sorting.Sorted.
From AF Require Import Lib.Bytes Lib.Path Lib.Ops Gen.Consts Model.MemFile Model.MemFs Model.WfOps
  Proofs.BytesLemmas Proofs.MemFsPath Proofs.MemFsBasics Proofs.MemFsWF Proofs.MemFsStep.
Local Open Scope Z_scope.

(* ---------- the order on names ---------- *)
Lemma bltb_irrefl a : bltb a a = false.
Proof. induction a as [|x a IH]; cbn; [reflexivity|]. now rewrite N.ltb_irrefl, N.eqb_refl, IH. Qed.

Lemma bltb_trans a b c : bltb a b = true -> bltb b c = true -> bltb a c = true.
Proof.
  revert b c; induction a as [|x a IH]; intros [|y b] [|z c]; cbn; try discriminate; auto.
  rewrite !orb_true_iff, !andb_true_iff, !N.ltb_lt, !N.eqb_eq.
  intros [H1|[H1 H1']] [H2|[H2 H2']]; subst; auto; [left; lia | right; split; [reflexivity | eauto]].
Qed.

Lemma bltb_total a b : a = b \/ bltb a b = true \/ bltb b a = true.
Proof.
  revert b; induction a as [|x a IH]; intros [|y b]; cbn; auto.
  destruct (N.lt_trichotomy x y) as [H|[H|H]].
  - right; left. apply orb_true_iff. left. now apply N.ltb_lt.
  - subst y. rewrite N.ltb_irrefl, N.eqb_refl. cbn. destruct (IH b) as [->|[H|H]]; auto.
  - right; right. apply orb_true_iff. left. now apply N.ltb_lt.
Qed.

Lemma bltb_asym a b : bltb a b = true -> bltb b a = false.
Proof.
  intros H. destruct (bltb b a) eqn:E; [|reflexivity]. pose proof (bltb_trans a b a H E) as T. now rewrite bltb_irrefl in T.
Qed.

Lemma bltb_app p a b : bltb (p ++ a) (p ++ b) = bltb a b.
Proof. induction p as [|x p IH]; cbn; [reflexivity|]. now rewrite N.ltb_irrefl, N.eqb_refl, IH. Qed.

Definition bleq (a b : str) : Prop := bltb b a = false.
Lemma bleq_trans a b c : bleq a b -> bleq b c -> bleq a c.
Proof.
  unfold bleq. intros H1 H2. destruct (bltb c a) eqn:E; [|reflexivity].
  destruct (bltb_total a b) as [->|[H|H]]; [congruence | | congruence].
  pose proof (bltb_trans c a b E H). congruence.
Qed.

(* ---------- insertion sort by a key with a total order ---------- *)
Section SortBy.
Context {A : Type} (lt : A -> A -> bool).
Definition sle (a b : A) : Prop := lt b a = false.
Hypothesis lt_asym : forall a b, lt a b = true -> lt b a = false.
Hypothesis sle_trans : forall a b c, sle a b -> sle b c -> sle a c.

Lemma insert_by_perm x l : Permutation (insert_by lt x l) (x :: l).
Proof.
  induction l as [|y l IH]; cbn [insert_by]; [reflexivity|]. destruct (lt y x); [|reflexivity].
  rewrite IH. apply perm_swap.
Qed.
Lemma sort_by_perm l : Permutation (sort_by lt l) l.
Proof. induction l as [|x l IH]; [reflexivity|]. unfold sort_by in *. cbn [fold_right]. rewrite insert_by_perm. now constructor. Qed.

Lemma insert_by_sorted x l : StronglySorted sle l -> StronglySorted sle (insert_by lt x l).
Proof.
  induction l as [|y l IH]; cbn [insert_by]; intros Hs; [repeat constructor|].
  inversion Hs as [|? ? Hs' Hy]; subst. destruct (lt y x) eqn:E.
  - constructor; [now apply IH|]. apply Forall_forall. intros z Hz.
    apply (Permutation_in _ (insert_by_perm x l)) in Hz. destruct Hz as [<-|Hz]; [now apply lt_asym|].
    rewrite Forall_forall in Hy. now apply Hy.
  - constructor; [exact Hs|]. constructor; [exact E|]. rewrite Forall_forall in *. intros z Hz.
    apply (sle_trans x y z); [exact E | now apply Hy].
Qed.
Lemma sort_by_sorted l : StronglySorted sle (sort_by lt l).
Proof. induction l as [|x l IH]; [constructor|]. unfold sort_by in *. cbn [fold_right]. now apply insert_by_sorted. Qed.
End SortBy.

(* ---------- names of a directory's children ---------- *)
Definition base (k : str) : str := snd (path_split k).
Definition cpfx (d : str) : str := if beqb d s_slash then s_slash else d ++ s_slash.

Lemma child_decomp k : canon k -> k <> s_slash -> k = cpfx (par k) ++ base k.
Proof.
  intros Hc Hr. destruct (canon_inv_snoc k Hc Hr) as (segs & x & Hf & Hx & ->).
  rewrite par_pth by assumption. unfold base. rewrite path_base_split by apply Hx. rewrite pth_snoc. unfold cpfx.
  destruct segs as [|y segs]; [reflexivity|].
  assert (E : beqb (pth (y :: segs)) s_slash = false).
  { apply beqb_neq. intros E. apply good_pth_root in E; [discriminate | exact Hf]. }
  rewrite E. now rewrite <- app_assoc.
Qed.

(* what Readdir(-1) yields for a directory node: the child infos in the order of memDir.Files() *)
Definition dir_infos (s : mst) (n : node) : list finfo :=
  map (fun r => match get_node s r with Some c => finfo_of c | None => mkFi [] false 0 0 0 end) (dir_files s n).
Definition dir_names (s : mst) (n : node) : list str := map fi_name (dir_infos s n).

Lemma dir_names_eq s n : dir_names s n = map (fun r => base (node_name s r)) (dir_files s n).
Proof.
  unfold dir_names, dir_infos. rewrite map_map. apply map_ext. intros r. unfold node_name, base.
  destruct (get_node s r) as [c|]; reflexivity.
Qed.

(* the specification of a listing of directory d in the path map *)
Definition is_child (s : mst) (d k : str) : Prop := exists r, lookup s k = Some r /\ k <> s_slash /\ par k = d.
Record is_listing (s : mst) (d : str) (names : list str) : Prop := mkListing {
  ls_exact : forall x, In x names <-> exists k, is_child s d k /\ x = base k;
  ls_sorted : StronglySorted (fun a b => bltb a b = true) names
}.

Lemma strict_of_sorted_nodup l :
  StronglySorted bleq l -> NoDup l -> StronglySorted (fun a b => bltb a b = true) l.
Proof.
  induction l as [|x l IH]; intros Hs Hnd; [constructor|].
  inversion Hs as [|? ? Hs' Hx]; subst. inversion Hnd as [|? ? Hni Hnd']; subst.
  constructor; [now apply IH|]. rewrite Forall_forall in *. intros y Hy.
  destruct (bltb_total x y) as [->|[H|H]]; [contradiction | exact H|]. specialize (Hx y Hy). unfold bleq in Hx. congruence.
Qed.

Lemma sorted_map_base pfx l :
  (forall k, In k l -> k = pfx ++ base k) ->
  StronglySorted (fun a b => bltb a b = true) l -> StronglySorted (fun a b => bltb a b = true) (map base l).
Proof.
  induction l as [|x l IH]; intros Hp Hs; [constructor|].
  inversion Hs as [|? ? Hs' Hx]; subst. cbn [map]. constructor; [apply IH; auto; intros; apply Hp; now right|].
  rewrite Forall_forall in *. intros y Hy. apply in_map_iff in Hy as (k & <- & Hk).
  specialize (Hx k Hk). rewrite (Hp x (or_introl eq_refl)), (Hp k (or_intror Hk)) in Hx. now rewrite bltb_app in Hx.
Qed.

Theorem listing_is_children s d r n :
  WF s -> lookup s d = Some r -> get_node s r = Some n -> is_listing s d (dir_names s n).
Proof.
  intros W Hd Hn. rewrite dir_names_eq.
  destruct (g_node _ _ _ _ W _ _ Hd) as (n' & Hn' & _ & _ & Hnd). rewrite Hn in Hn'. inversion Hn'; subst n'.
  set (lt := fun a b => bltb (node_name s a) (node_name s b)).
  assert (Hperm : Permutation (dir_files s n) (map snd (nkids n))) by (apply (sort_by_perm lt)).
  (* every entry of the index is a live key named by its node *)
  assert (Hent : forall name c, In (name, c) (nkids n) -> lookup s name = Some c /\ node_name s c = name /\ name <> s_slash /\ par name = d).
  { intros name c Hin. pose proof (in_aget _ _ _ Hnd Hin) as Hg.
    destruct (g_kids _ _ _ _ W d r n name c Hd Hn Hg) as (Hy & [[]|(_ & Hr & Hl & Hnm)]). repeat split; auto.
    rewrite <- (WF_fresh s _ r W Hy). now apply WF_fresh. }
  assert (Hnames : map (node_name s) (map snd (nkids n)) = map fst (nkids n)).
  { rewrite map_map. apply map_ext_in. intros [name c] Hin. cbn. now destruct (Hent name c Hin) as (_ & E & _). }
  assert (Hfull : Permutation (map (node_name s) (dir_files s n)) (map fst (nkids n))).
  { rewrite <- Hnames. now apply Permutation_map. }
  split.
  - intros x. split.
    + intros Hin. apply in_map_iff in Hin as (c & <- & Hc). apply (Permutation_in _ Hperm) in Hc.
      apply in_map_iff in Hc as ([name c'] & E & Hin). cbn in E. subst c'.
      destruct (Hent name c Hin) as (Hl & Hnm & Hr & Hp). exists name. split; [now exists c | now rewrite Hnm].
    + intros (k & (c & Hl & Hr & Hp) & ->).
      destruct (g_par _ _ _ _ W k c Hl (WF_fresh s k c W Hl) Hr) as (p & pn & Hlp & Hpn & _ & Hg); [intros [] | intros [] |].
      rewrite Hp, Hd in Hlp. inversion Hlp; subst p. rewrite Hn in Hpn. inversion Hpn; subst pn.
      apply in_map_iff. exists c. split; [now rewrite (WF_fresh s k c W Hl)|].
      apply (Permutation_in _ (Permutation_sym Hperm)). apply in_map_iff. exists (k, c). split; [reflexivity | now apply aget_in].
  - rewrite <- (map_map (node_name s) base). apply (sorted_map_base (cpfx d)).
    + intros k Hk. apply (Permutation_in _ Hfull) in Hk. apply in_map_iff in Hk as ([name c] & E & Hin). cbn in E. subst name.
      destruct (Hent k c Hin) as (Hl & _ & Hr & Hp). rewrite <- Hp. apply child_decomp; [apply (g_canon _ _ _ _ W k c Hl) | exact Hr].
    + apply strict_of_sorted_nodup.
      * assert (Hs : StronglySorted (sle lt) (dir_files s n)).
        { apply sort_by_sorted.
          - intros a b. unfold lt. apply bltb_asym.
          - intros a b c. unfold sle, lt. apply bleq_trans. }
        clear - Hs. induction Hs as [|a l Hs IH Ha]; cbn; constructor; auto.
        rewrite Forall_forall in *. intros y Hy. apply in_map_iff in Hy as (c & <- & Hc). now apply Ha.
      * apply (Permutation_NoDup (Permutation_sym Hfull)). exact Hnd.
Qed.

(* ---------- one page ---------- *)
Definition page_out (len : nat) (cnt : Z) : nat := if 0 <? cnt then Nat.min len (Z.to_nat cnt) else len.
Definition rdop (nm : bool) (i : nat) (cnt : Z) : op := if nm then HReaddirnames i cnt else HReaddir i cnt.
Definition page_res (nm : bool) (infos : list finfo) (e : option err) : res :=
  if nm then RNames (map fi_name infos) e else RInfos infos e.
Definition names_of (r : res) : list str :=
  match r with RNames l _ => l | RInfos l _ => map fi_name l | _ => [] end.

Lemma names_of_page nm infos e : names_of (page_res nm infos e) = map fi_name infos.
Proof. now destruct nm. Qed.

Lemma m_readdir_eq s i h n cnt :
  get_node s (href h) = Some n -> ndir n = true -> 0 <= hrdc h ->
  let c := Nat.min (Z.to_nat (hrdc h)) (length (dir_infos s n)) in     (* the offset, clamped to the listing *)
  let M := skipn c (dir_infos s n) in
  let po := page_out (length M) cnt in
  m_readdir s i h cnt =
    (set_handle s i (set_rdc h (Z.of_nat c + Z.of_nat po)), firstn po M,
     if (0 <? cnt) && (Nat.eqb (length M) 0) then Some (E KEOF) else None).
Proof.
  intros Hn Hd Hc c M po. unfold m_readdir. rewrite Hn, Hd. cbn [negb].
  set (all := dir_files s n).
  assert (Hla : length all = length (dir_infos s n)) by (unfold dir_infos; now rewrite map_length).
  set (rdc := if zlen all <? hrdc h then zlen all else hrdc h).
  assert (Hrdc : rdc = Z.of_nat c).
  { unfold rdc, c, zlen. rewrite <- Hla. destruct (Z.of_nat (length all) <? hrdc h) eqn:E; [apply Z.ltb_lt in E | apply Z.ltb_ge in E]; lia. }
  rewrite Hrdc, Nat2Z.id.
  set (files := skipn c all).
  assert (Hlen : length files = length M).
  { unfold files, M, dir_infos. now rewrite !skipn_length, map_length. }
  assert (Hz : zlen files = Z.of_nat (length M)) by (unfold zlen; now rewrite Hlen).
  set (out := if 0 <? cnt then if zlen files <? cnt then zlen files else cnt else zlen files).
  assert (Hout : out = Z.of_nat po).
  { unfold out, po, page_out. rewrite Hz. destruct (0 <? cnt) eqn:E1; [|reflexivity]. apply Z.ltb_lt in E1.
    destruct (Z.of_nat (length M) <? cnt) eqn:E2; [apply Z.ltb_lt in E2 | apply Z.ltb_ge in E2]; lia. }
  rewrite Hout, Nat2Z.id. f_equal; [f_equal|].
  - unfold M, dir_infos, files. now rewrite skipn_map, firstn_map.
  - rewrite Hz. destruct (0 <? cnt); [|reflexivity]. cbn [andb].
    destruct (length M); reflexivity.
Qed.

Lemma readdir_page_raw s i h n cnt nm :
  nth_error (mhandles s) i = Some h -> get_node s (href h) = Some n -> ndir n = true -> 0 <= hrdc h ->
  let c := Nat.min (Z.to_nat (hrdc h)) (length (dir_infos s n)) in
  let M := skipn c (dir_infos s n) in
  let po := page_out (length M) cnt in
  m_step_raw s (rdop nm i cnt) =
    (set_handle s i (set_rdc h (Z.of_nat c + Z.of_nat po)),
     page_res nm (firstn po M) (if (0 <? cnt) && (Nat.eqb (length M) 0) then Some (E KEOF) else None)).
Proof.
  intros Hh Hn Hd Hc c M po.
  pose proof (m_readdir_eq s i h n cnt Hn Hd Hc) as E. cbv zeta in E. fold c in E. fold M in E. fold po in E.
  assert (Hnil : (0 <? cnt) && Nat.eqb (length M) 0 = true -> firstn po M = []).
  { intros Ht. apply andb_true_iff in Ht as [_ Ht]. apply Nat.eqb_eq in Ht. destruct M; [now rewrite firstn_nil | discriminate]. }
  destruct nm; cbn [rdop m_step_raw]; unfold m_hop; rewrite Hh, Hn, E;
    destruct ((0 <? cnt) && Nat.eqb (length M) 0) eqn:Ee; try reflexivity; rewrite (Hnil eq_refl); reflexivity.
Qed.

(* the offset of the handle lies within the listing: no entry was removed since the previous page *)
Definition rdc_within (s : mst) (h : hnd) (n : node) : Prop := (Z.to_nat (hrdc h) <= length (dir_infos s n))%nat.

Lemma readdir_page s i h n cnt nm :
  nth_error (mhandles s) i = Some h -> get_node s (href h) = Some n -> ndir n = true -> 0 <= hrdc h -> rdc_within s h n ->
  let M := skipn (Z.to_nat (hrdc h)) (dir_infos s n) in
  let po := page_out (length M) cnt in
  m_step s (rdop nm i cnt) =
    (mkM (mdata s) (mheap s) (list_set i (set_rdc h (hrdc h + Z.of_nat po)) (mhandles s)) (mclock s + 1),
     page_res nm (firstn po M) (if (0 <? cnt) && (Nat.eqb (length M) 0) then Some (E KEOF) else None)).
Proof.
  intros Hh Hn Hd Hc Hle M po. unfold m_step.
  rewrite (readdir_page_raw s i h n cnt nm Hh Hn Hd Hc). cbv zeta. unfold rdc_within in Hle.
  rewrite Nat.min_l by exact Hle. rewrite Z2Nat.id by exact Hc. reflexivity.
Qed.

(* two strictly ascending lists with the same elements are equal *)
Lemma sorted_unique (l1 : list str) : forall l2,
  StronglySorted (fun a b => bltb a b = true) l1 -> StronglySorted (fun a b => bltb a b = true) l2 ->
  (forall x, In x l1 <-> In x l2) -> l1 = l2.
Proof.
  induction l1 as [|a r1 IH]; intros l2 S1 S2 Hm.
  - destruct l2 as [|b r2]; [reflexivity|]. exfalso. apply (Hm b). now left.
  - destruct l2 as [|b r2]; [exfalso; apply (Hm a); now left|].
    inversion S1 as [|? ? S1' F1]; subst. inversion S2 as [|? ? S2' F2]; subst. rewrite Forall_forall in F1, F2.
    assert (Eab : a = b).
    { destruct (proj1 (Hm a) (or_introl eq_refl)) as [E|Ha]; [now symmetry|].
      destruct (proj2 (Hm b) (or_introl eq_refl)) as [E|Hb]; [exact E|].
      pose proof (F2 a Ha) as X1. pose proof (F1 b Hb) as X2. apply bltb_asym in X1. congruence. }
    subst b. f_equal. apply IH; auto. intros x. split; intros Hx.
    + destruct (proj1 (Hm x) (or_intror Hx)) as [E|Hx2]; [|exact Hx2]. subst x. pose proof (F1 a Hx) as X. now rewrite bltb_irrefl in X.
    + destruct (proj2 (Hm x) (or_intror Hx)) as [E|Hx2]; [|exact Hx2]. subst x. pose proof (F2 a Hx) as X. now rewrite bltb_irrefl in X.
Qed.

Lemma is_listing_unique s d l1 l2 : is_listing s d l1 -> is_listing s d l2 -> l1 = l2.
Proof.
  intros [E1 S1] [E2 S2]. apply sorted_unique; auto. intros x. now rewrite E1, E2.
Qed.

(* ---------- pages partition the listing ---------- *)
Lemma firstn_plus {A} a b (l : list A) : firstn (a + b) l = firstn a l ++ firstn b (skipn a l).
Proof.
  revert l; induction a as [|a IH]; intros l; [reflexivity|]. destruct l as [|x l]; [cbn; now rewrite firstn_nil|].
  cbn. now rewrite IH.
Qed.

Lemma skipn_add {A} a b (l : list A) : skipn (a + b) l = skipn b (skipn a l).
Proof.
  revert l; induction a as [|a IH]; intros l; [reflexivity|]. destruct l as [|x l]; [cbn; now rewrite skipn_nil|]. cbn. apply IH.
Qed.

Lemma page_glue {A} (M : list A) cnt t : (0 < cnt)%nat ->
  let po := Nat.min (length M) cnt in
  firstn po M ++ firstn t (skipn po M) = firstn (cnt + t) M.
Proof.
  intros Hc po. rewrite firstn_plus. destruct (Nat.le_gt_cases cnt (length M)) as [H|H].
  - unfold po. now rewrite Nat.min_r.
  - unfold po. rewrite Nat.min_l by lia. rewrite (firstn_all2 (n := cnt)) by lia. rewrite firstn_all.
    now rewrite skipn_all, (skipn_all2 (n := cnt)) by lia.
Qed.

Definition zsum (ns : list Z) : Z := fold_right Z.add 0 ns.

Theorem readdir_pages nm : forall ns s i h n,
  nth_error (mhandles s) i = Some h -> get_node s (href h) = Some n -> ndir n = true -> 0 <= hrdc h -> rdc_within s h n ->
  Forall (fun c => 0 < c) ns ->
  let M := skipn (Z.to_nat (hrdc h)) (dir_infos s n) in
  let s' := fst (run_steps m_step s (map (rdop nm i) ns)) in
  concat (map names_of (snd (run_steps m_step s (map (rdop nm i) ns)))) = map fi_name (firstn (Z.to_nat (zsum ns)) M) /\
  fs_view s' = fs_view s /\
  exists h', nth_error (mhandles s') i = Some h' /\ href h' = href h /\
             hrdc h' = hrdc h + Z.of_nat (Nat.min (length M) (Z.to_nat (zsum ns))).
Proof.
  induction ns as [|c ns IH]; intros s i h n Hh Hn Hd Hc Hle Hpos M s'.
  - cbn. split; [reflexivity|]. split; [reflexivity|]. exists h. rewrite Nat.min_0_r, Z.add_0_r. auto.
  - inversion Hpos as [|? ? Hc0 Hpos']; subst.
    pose proof (readdir_page s i h n c nm Hh Hn Hd Hc Hle) as Hstep. cbv zeta in Hstep. fold M in Hstep.
    set (po := page_out (length M) c) in *.
    set (h1 := set_rdc h (hrdc h + Z.of_nat po)) in *.
    set (s1 := mkM (mdata s) (mheap s) (list_set i h1 (mhandles s)) (mclock s + 1)) in *.
    assert (Hh1 : nth_error (mhandles s1) i = Some h1).
    { unfold s1. cbn [mhandles]. apply nth_list_set_same. apply nth_error_Some. congruence. }
    assert (Hn1 : get_node s1 (href h1) = Some n) by exact Hn.
    assert (Hc1 : 0 <= hrdc h1) by (unfold h1; cbn; lia).
    assert (Hpo : po = Nat.min (length M) (Z.to_nat c)).
    { unfold po, page_out. assert (E : 0 <? c = true) by now apply Z.ltb_lt. now rewrite E. }
    assert (Hle1 : rdc_within s1 h1 n).
    { unfold rdc_within in *. change (dir_infos s1 n) with (dir_infos s n). unfold h1. cbn [hrdc set_rdc].
      rewrite Z2Nat.inj_add, Nat2Z.id by lia. rewrite Hpo. unfold M. rewrite skipn_length. lia. }
    destruct (IH s1 i h1 n Hh1 Hn1 Hd Hc1 Hle1 Hpos') as (Hcat & Hview & h' & Hh' & Hr' & Hrdc').
    assert (HM1 : skipn (Z.to_nat (hrdc h1)) (dir_infos s1 n) = skipn po M).
    { unfold h1. cbn [hrdc set_rdc]. unfold M. rewrite Z2Nat.inj_add by lia. rewrite Nat2Z.id. apply skipn_add. }
    rewrite HM1 in Hcat, Hrdc'.
    assert (Hsum : Z.to_nat (zsum (c :: ns)) = (Z.to_nat c + Z.to_nat (zsum ns))%nat).
    { cbn [zsum fold_right]. fold (zsum ns). apply Z2Nat.inj_add; [lia|].
      clear - Hpos'. induction Hpos' as [|x l Hx Hl IHl]; cbn; [lia|]. fold (zsum l). lia. }
    unfold s'. cbn [map run_steps]. rewrite Hstep.
    destruct (run_steps m_step s1 (map (rdop nm i) ns)) as [s2 outs] eqn:Erun. cbn [fst snd] in *.
    split; [|split].
    + cbn [map concat]. rewrite names_of_page, Hcat, <- map_app. f_equal. rewrite Hsum, Hpo. apply page_glue. lia.
    + exact Hview.
    + exists h'. split; [exact Hh'|]. split; [exact Hr'|]. rewrite Hrdc'. unfold h1. cbn [hrdc set_rdc].
      rewrite skipn_length, Hsum, Hpo. lia.
Qed.

(* after the whole listing has been consumed, the next page reports EOF *)
Theorem readdir_then_eof nm ns s i h n cnt :
  nth_error (mhandles s) i = Some h -> get_node s (href h) = Some n -> ndir n = true -> 0 <= hrdc h -> rdc_within s h n ->
  Forall (fun c => 0 < c) ns -> 0 < cnt ->
  let M := skipn (Z.to_nat (hrdc h)) (dir_infos s n) in
  (length M <= Z.to_nat (zsum ns))%nat ->
  let s' := fst (run_steps m_step s (map (rdop nm i) ns)) in
  concat (map names_of (snd (run_steps m_step s (map (rdop nm i) ns)))) = map fi_name M /\
  snd (m_step s' (rdop nm i cnt)) = page_res nm [] (Some (E KEOF)).
Proof.
  intros Hh Hn Hd Hc Hle Hpos Hcnt M Hall s'.
  destruct (readdir_pages nm ns s i h n Hh Hn Hd Hc Hle Hpos) as (Hcat & Hview & h' & Hh' & Hr' & Hrdc'). fold M in Hcat, Hrdc'. fold s' in Hview, Hh'.
  split; [rewrite Hcat; now rewrite firstn_all2|].
  assert (Hheap : mheap s' = mheap s) by (unfold fs_view in Hview; now inversion Hview).
  assert (Hn' : get_node s' (href h') = Some n) by (unfold get_node; now rewrite Hheap, Hr').
  assert (Hc' : 0 <= hrdc h') by lia.
  assert (Hdi : dir_infos s' n = dir_infos s n).
  { unfold dir_infos, dir_files, node_name, get_node. now rewrite Hheap. }
  assert (Hle' : rdc_within s' h' n).
  { unfold rdc_within in *. rewrite Hdi, Hrdc', Nat.min_l by exact Hall. unfold M. rewrite skipn_length.
    rewrite Z2Nat.inj_add, Nat2Z.id by lia. lia. }
  rewrite (readdir_page s' i h' n cnt nm Hh' Hn' Hd Hc' Hle'). cbn [snd].
  assert (Hempty : skipn (Z.to_nat (hrdc h')) (dir_infos s' n) = []).
  { rewrite Hdi. apply skipn_all2. rewrite Hrdc', Nat.min_l by exact Hall. unfold M. rewrite skipn_length.
    rewrite Z2Nat.inj_add, Nat2Z.id by lia. lia. }
  rewrite Hempty. cbn [length Nat.eqb]. assert (E : 0 <? cnt = true) by now apply Z.ltb_lt. rewrite E. cbn [andb].
  unfold page_out. rewrite E. reflexivity.
Qed.

(* ---------- a fresh handle on a directory ---------- *)
Theorem fresh_listing nm s d r n :
  WF s -> canon d -> lookup s d = Some r -> get_node s r = Some n -> ndir n = true ->
  let s1 := fst (m_step s (Open d)) in
  let h := length (mhandles s) in
  snd (m_step s (Open d)) = RHandle h /\
  snd (m_step s1 (rdop nm h (-1))) = page_res nm (dir_infos s n) None /\
  is_listing s d (dir_names s n).
Proof.
  intros W Hc Hd Hn Hdir s1 h.
  assert (Hopen : m_step s (Open d) = (mkM (mdata s) (mheap s) (mhandles s ++ [mkH r 0 0 false true]) (mclock s + 1), RHandle h)).
  { unfold m_step. cbn [m_step_raw]. unfold m_open. rewrite (canon_norm d Hc), Hd. reflexivity. }
  unfold s1. rewrite Hopen. cbn [fst snd]. split; [reflexivity|].
  set (s2 := mkM (mdata s) (mheap s) (mhandles s ++ [mkH r 0 0 false true]) (mclock s + 1)).
  split; [|now apply (listing_is_children s d r n)].
  assert (Hh : nth_error (mhandles s2) h = Some (mkH r 0 0 false true)).
  { unfold s2, h. cbn [mhandles]. rewrite nth_error_app2, Nat.sub_diag by lia. reflexivity. }
  rewrite (readdir_page s2 h (mkH r 0 0 false true) n (-1) nm Hh Hn Hdir); [|cbn; lia | unfold rdc_within; cbn; lia].
  cbn [snd hrdc Z.to_nat skipn Z.ltb Z.compare andb]. unfold page_out. cbn [Z.ltb Z.compare].
  rewrite firstn_all. reflexivity.
Qed.

(* the two statements of C01 in their final form *)
Theorem listing_fresh_handle s d r n :
  WF s -> canon d -> lookup s d = Some r -> get_node s r = Some n -> ndir n = true ->
  let s1 := fst (m_step s (Open d)) in
  let h := length (mhandles s) in
  snd (m_step s (Open d)) = RHandle h /\
  exists infos,
    snd (m_step s1 (HReaddir h (-1))) = RInfos infos None /\
    snd (m_step s1 (HReaddirnames h (-1))) = RNames (map fi_name infos) None /\
    is_listing s d (map fi_name infos).
Proof.
  intros W Hc Hd Hn Hdir s1 h.
  destruct (fresh_listing false s d r n W Hc Hd Hn Hdir) as (H1 & H2 & H3).
  destruct (fresh_listing true s d r n W Hc Hd Hn Hdir) as (_ & H4 & _).
  split; [exact H1|]. exists (dir_infos s n). split; [exact H2|]. split; [exact H4 | exact H3].
Qed.

Theorem pages_partition nm ns s i h n cnt :
  nth_error (mhandles s) i = Some h -> get_node s (href h) = Some n -> ndir n = true -> hrdc h = 0 ->
  Forall (fun c => 0 < c) ns -> 0 < cnt -> (length (dir_names s n) <= Z.to_nat (zsum ns))%nat ->
  let run := run_steps m_step s (map (rdop nm i) ns) in
  concat (map names_of (snd run)) = dir_names s n /\
  snd (m_step (fst run) (rdop nm i cnt)) = page_res nm [] (Some (E KEOF)).
Proof.
  intros Hh Hn Hd Hc Hpos Hcnt Hall run.
  assert (Hc' : 0 <= hrdc h) by lia.
  assert (Hle : rdc_within s h n) by (unfold rdc_within; rewrite Hc; cbn; lia).
  pose proof (readdir_then_eof nm ns s i h n cnt Hh Hn Hd Hc' Hle Hpos Hcnt) as H. cbv zeta in H.
  rewrite Hc in H. cbn [Z.to_nat skipn] in H. apply H. unfold dir_names in Hall. now rewrite map_length in Hall.
Qed.
