(* Proofs/UnionProof.v — C06, the directory half: the default merge of a UnionFile (overlay
   entries win, every name once) and the paging of UnionFile.Readdir over the merged listing.
   Both inner filesystems are arbitrary step functions. *)
From AF Require Import Lib.Bytes Lib.Path Lib.Ops Gen.Consts Model.Union.
Local Open Scope Z_scope.

Lemma ubeqb_refl a : beqb a a = true.
Proof. induction a as [|x a IH]; cbn; [reflexivity|]. now rewrite N.eqb_refl, IH. Qed.
Lemma ubeqb_eq a b : beqb a b = true <-> a = b.
Proof.
  split; [|intros ->; apply ubeqb_refl].
  revert b. induction a as [|x a IH]; destruct b as [|y b]; cbn; try discriminate; [reflexivity|].
  intros H. apply andb_true_iff in H as [H1 H2]. apply N.eqb_eq in H1. subst. f_equal. now apply IH.
Qed.

(* "some entry of l is called n" *)
Definition has_name (n : str) (l : list finfo) : bool := existsb (fun y => beqb (fi_name y) n) l.

Lemma has_name_In n l : has_name n l = true <-> In n (map fi_name l).
Proof.
  unfold has_name. rewrite existsb_exists, in_map_iff. split.
  - intros [y [Hy He]]. apply ubeqb_eq in He. now exists y.
  - intros [y [He Hy]]. exists y. split; [exact Hy|]. now apply ubeqb_eq.
Qed.
Lemma has_name_false n l : has_name n l = false <-> ~ In n (map fi_name l).
Proof. rewrite <- has_name_In. destruct (has_name n l); split; congruence. Qed.

Lemma dedupe_last_unfold x r :
  dedupe_last (x :: r) = if has_name (fi_name x) r then dedupe_last r else x :: dedupe_last r.
Proof. reflexivity. Qed.

Lemma dedupe_last_names n l : In n (map fi_name (dedupe_last l)) <-> In n (map fi_name l).
Proof.
  induction l as [|x r IH]; [reflexivity|]. rewrite dedupe_last_unfold.
  destruct (has_name (fi_name x) r) eqn:Hx; cbn [map In]; rewrite IH.
  - apply has_name_In in Hx. split; [now right|]. intros [<-|H]; assumption.
  - reflexivity.
Qed.

Lemma dedupe_last_nodup l : NoDup (map fi_name (dedupe_last l)).
Proof.
  induction l as [|x r IH]; [constructor|]. rewrite dedupe_last_unfold.
  destruct (has_name (fi_name x) r) eqn:Hx; [exact IH|]. cbn [map]. constructor; [|exact IH].
  rewrite dedupe_last_names. now apply has_name_false.
Qed.

(* an entry that survives is the LAST entry of the input carrying its name *)
Definition last_named (x : finfo) (l : list finfo) : Prop :=
  exists l1 l2, l = l1 ++ x :: l2 /\ ~ In (fi_name x) (map fi_name l2).

Lemma dedupe_last_is_last x l : In x (dedupe_last l) -> last_named x l.
Proof.
  induction l as [|y r IH]; [intros []|]. rewrite dedupe_last_unfold.
  assert (Hr : In x (dedupe_last r) -> last_named x (y :: r)).
  { intros H. destruct (IH H) as [l1 [l2 [-> Hn]]]. exists (y :: l1), l2. now split. }
  destruct (has_name (fi_name y) r) eqn:Hy; [exact Hr|].
  intros [->|H]; [|now apply Hr]. exists [], r. split; [reflexivity|]. now apply has_name_false.
Qed.

Lemma dedupe_last_id l : NoDup (map fi_name l) -> dedupe_last l = l.
Proof.
  induction l as [|x r IH]; [reflexivity|]. cbn [map]. intros H. inversion H as [|? ? Hn Hr]. subst.
  rewrite dedupe_last_unfold. apply has_name_false in Hn. rewrite Hn. f_equal. now apply IH.
Qed.

(* the base entries that survive the merge: those whose name the overlay lacks *)
Definition base_only (lfi bfi : list finfo) : list finfo :=
  filter (fun b => negb (has_name (fi_name b) lfi)) bfi.

Lemma merge_dirs_unfold lfi bfi : merge_dirs lfi bfi = dedupe_last lfi ++ dedupe_last (base_only lfi bfi).
Proof. reflexivity. Qed.

Lemma base_only_names n lfi bfi :
  In n (map fi_name (base_only lfi bfi)) <-> In n (map fi_name bfi) /\ ~ In n (map fi_name lfi).
Proof.
  unfold base_only. split.
  - intros H. apply in_map_iff in H as [y [<- Hy]]. apply filter_In in Hy as [Hy Hf].
    apply negb_true_iff, has_name_false in Hf. split; [now apply in_map | exact Hf].
  - intros [H Hn]. apply in_map_iff in H as [y [<- Hy]]. apply in_map. apply filter_In. split; [exact Hy|].
    now apply negb_true_iff, has_name_false.
Qed.

Lemma filter_split {A} (f : A -> bool) x l l1 l2 :
  filter f l = l1 ++ x :: l2 -> exists m1 m2, l = m1 ++ x :: m2 /\ filter f m2 = l2.
Proof.
  revert l1. induction l as [|y r IH]; intros l1 H; cbn [filter] in H.
  - destruct l1; discriminate.
  - destruct (f y) eqn:Hy.
    + destruct l1 as [|z l1]; cbn [app] in H.
      * injection H as Hx Hr. subst y. exists [], r. split; [reflexivity | exact Hr].
      * injection H as Hz Hr. subst z. destruct (IH l1 Hr) as [m1 [m2 [-> Hm]]]. exists (y :: m1), m2. now split.
    + destruct (IH l1 H) as [m1 [m2 [-> Hm]]]. exists (y :: m1), m2. now split.
Qed.

Theorem merge_dirs_nodup lfi bfi : NoDup (map fi_name (merge_dirs lfi bfi)).
Proof.
  rewrite merge_dirs_unfold, map_app.
  assert (H : forall (a b : list str), NoDup a -> NoDup b -> (forall n, In n a -> ~ In n b) -> NoDup (a ++ b)).
  { induction a as [|x a IH]; intros b Ha Hb Hd; [exact Hb|]. cbn [app]. inversion Ha; subst. constructor.
    - rewrite in_app_iff. intros [H|H]; [contradiction|]. apply (Hd x); [now left | exact H].
    - apply IH; auto. intros n Hn. apply Hd. now right. }
  apply H; try apply dedupe_last_nodup.
  intros n Hl Hb. rewrite dedupe_last_names in Hl, Hb. apply base_only_names in Hb as [_ Hb]. contradiction.
Qed.

Theorem merge_dirs_names lfi bfi n :
  In n (map fi_name (merge_dirs lfi bfi)) <-> In n (map fi_name lfi) \/ In n (map fi_name bfi).
Proof.
  rewrite merge_dirs_unfold, map_app, in_app_iff, !dedupe_last_names, base_only_names.
  destruct (has_name n lfi) eqn:Hn.
  - apply has_name_In in Hn. tauto.
  - apply has_name_false in Hn. tauto.
Qed.

(* overlay wins: an entry of the result whose name the overlay has IS the overlay's (last) entry
   of that name; any other entry is the base's (last) entry of that name *)
Theorem merge_dirs_overlay_wins lfi bfi x :
  In x (merge_dirs lfi bfi) ->
  (In (fi_name x) (map fi_name lfi) -> last_named x lfi) /\
  (~ In (fi_name x) (map fi_name lfi) -> last_named x bfi).
Proof.
  rewrite merge_dirs_unfold, in_app_iff. intros [H|H].
  - split; [intros _; now apply dedupe_last_is_last|].
    intros Hn. exfalso. apply Hn. apply dedupe_last_names. now apply in_map.
  - assert (Hb : ~ In (fi_name x) (map fi_name lfi)).
    { assert (Hx : In (fi_name x) (map fi_name (base_only lfi bfi))) by (apply dedupe_last_names; now apply in_map).
      now apply base_only_names in Hx. }
    split; [intros Hl; contradiction|]. intros _.
    destruct (dedupe_last_is_last _ _ H) as [l1 [l2 [Hs Hn]]].
    destruct (filter_split _ _ _ _ _ Hs) as [m1 [m2 [-> Hm]]]. exists m1, m2. split; [reflexivity|].
    intros Hi. apply Hn. subst l2. fold (base_only lfi m2). apply base_only_names. now split.
Qed.

(* with well-formed inputs (no directory lists a name twice) the merge is simply: all overlay
   entries, then the base entries whose name the overlay lacks *)
Theorem merge_dirs_wellformed lfi bfi : NoDup (map fi_name lfi) -> NoDup (map fi_name bfi) ->
  merge_dirs lfi bfi = lfi ++ base_only lfi bfi.
Proof.
  intros Hl Hb. rewrite merge_dirs_unfold, (dedupe_last_id lfi Hl). f_equal. apply dedupe_last_id.
  unfold base_only. induction bfi as [|y r IH]; [constructor|]. cbn [map] in Hb. inversion Hb; subst.
  cbn [filter]. destruct (negb (has_name (fi_name y) lfi)); [|now apply IH]. cbn [map]. constructor; [|now apply IH].
  intros Hi. apply in_map_iff in Hi as [z [Hz Hi]]. apply filter_In in Hi as [Hi _]. apply H1. rewrite <- Hz. now apply in_map.
Qed.

(* C06, merged listing, in one statement *)
Theorem merged_listing lfi bfi :
  NoDup (map fi_name (merge_dirs lfi bfi)) /\
  (forall n, In n (map fi_name (merge_dirs lfi bfi)) <-> In n (map fi_name lfi) \/ In n (map fi_name bfi)) /\
  (forall x, In x (merge_dirs lfi bfi) ->
     (In (fi_name x) (map fi_name lfi) -> last_named x lfi) /\
     (~ In (fi_name x) (map fi_name lfi) -> last_named x bfi)).
Proof.
  split; [apply merge_dirs_nodup|]. split; [intros n; apply merge_dirs_names | intros x; apply merge_dirs_overlay_wins].
Qed.

(* ---------------- paging ---------------- *)
Lemma union_all_advances_fact : union_readdir_all_advances = 1.
Proof. reflexivity. Qed.

(* specification of paging: what a sequence of Readdir(c) calls, c > 0, returns on a listing of
   which `rest` is still unread *)
Fixpoint pages (cs : list Z) (rest : list finfo) : list res :=
  match cs with
  | [] => []
  | c :: cs' =>
    match rest with
    | [] => RInfos [] (Some (E KEOF)) :: pages cs' []
    | _ => RInfos (firstn (Z.to_nat c) rest) None :: pages cs' (skipn (Z.to_nat c) rest)
    end
  end.

Definition infos_of (r : res) : list finfo := match r with RInfos l _ => l | _ => [] end.
Fixpoint zsum (cs : list Z) : Z := match cs with [] => 0 | c :: r => c + zsum r end.

Lemma firstn_plus {A} (l : list A) a b : firstn (a + b) l = firstn a l ++ firstn b (skipn a l).
Proof.
  revert l. induction a as [|a IH]; intros l; [reflexivity|].
  destruct l as [|x l]; cbn [Nat.add firstn skipn app]; [now rewrite firstn_nil | now rewrite IH].
Qed.

Lemma zsum_nonneg cs : Forall (fun c => 0 < c) cs -> 0 <= zsum cs.
Proof. induction 1; cbn [zsum]; lia. Qed.

(* the pages are consecutive chunks: glued together they are a prefix of the listing, the
   whole listing as soon as the sizes add up to its length *)
Theorem pages_concat cs : forall rest, Forall (fun c => 0 < c) cs ->
  concat (map infos_of (pages cs rest)) = firstn (Z.to_nat (zsum cs)) rest.
Proof.
  induction cs as [|c cs IH]; intros rest Hc; cbn [pages zsum]; [reflexivity|].
  inversion Hc as [|? ? Hc1 Hc2]; subst. pose proof (zsum_nonneg cs Hc2) as Hs.
  destruct rest as [|x rest'].
  - cbn [map infos_of concat app]. rewrite (IH [] Hc2). now rewrite !firstn_nil.
  - cbn [map infos_of concat]. rewrite (IH _ Hc2).
    rewrite Z2Nat.inj_add by lia. now rewrite firstn_plus.
Qed.

Corollary pages_cover cs rest : Forall (fun c => 0 < c) cs -> zlen rest <= zsum cs ->
  concat (map infos_of (pages cs rest)) = rest.
Proof.
  intros Hc Hl. rewrite pages_concat by exact Hc. apply firstn_all2. unfold zlen in Hl. lia.
Qed.

(* every page is as long as asked for, except the last one; after the listing is used up: EOF *)
Lemma pages_head c cs rest : 0 < c -> rest <> [] ->
  pages (c :: cs) rest = RInfos (firstn (Z.to_nat c) rest) None :: pages cs (skipn (Z.to_nat c) rest).
Proof. intros Hc Hr. cbn [pages]. destruct rest; [contradiction | reflexivity]. Qed.
Lemma pages_eof cs : pages cs [] = map (fun _ => RInfos [] (Some (E KEOF))) cs.
Proof. induction cs as [|c cs IH]; cbn [pages map]; [reflexivity | now rewrite IH]. Qed.

Theorem pages_chunks cs rest : Forall (fun c => 0 < c) cs ->
  concat (map infos_of (pages cs rest)) = firstn (Z.to_nat (zsum cs)) rest /\
  (zlen rest <= zsum cs -> concat (map infos_of (pages cs rest)) = rest) /\
  pages cs [] = map (fun _ => RInfos [] (Some (E KEOF))) cs.
Proof. intros H. split; [now apply pages_concat|]. split; [now apply pages_cover | apply pages_eof]. Qed.

Section Paging.
Context {B L : Type} (bstep : B -> op -> B * res) (lstep : L -> op -> L * res).

Fixpoint uf_run (sb : B) (sl : L) (u : ufile) (ops : list op) : B * L * ufile * list res :=
  match ops with
  | [] => (sb, sl, u, [])
  | o :: r =>
    let '(sb1, sl1, u1, x) := uf_op bstep lstep sb sl u o in
    let '(sb2, sl2, u2, xs) := uf_run sb1 sl1 u1 r in (sb2, sl2, u2, x :: xs)
  end.

(* Readdirnames is Readdir followed by taking the names *)
Definition names_of (r : res) : res :=
  match r with RInfos l None => RNames (map fi_name l) None | RInfos l (Some e) => RNames [] (Some e) | _ => r end.

Lemma uf_readdirnames sb sl u i c :
  uf_op bstep lstep sb sl u (HReaddirnames i c) =
  let '(sb1, sl1, u1, r) := uf_op bstep lstep sb sl u (HReaddir i c) in (sb1, sl1, u1, names_of r).
Proof.
  cbn [uf_op].
  match goal with |- match ?f with _ => _ end = _ => destruct f as [[[sb1 sl1] [all|]] e] end.
  - destruct (c <=? 0); [reflexivity|]. destruct (_ =? 0); reflexivity.
  - destruct e as [er|]; [destruct (errk_eqb (ek er) KEOF)|]; reflexivity.
Qed.

(* one page from a handle whose listing has been filled (offset > 0): no inner call is made *)
Lemma uf_readdir_filled sb sl ob ol off all i c : 0 < off -> 0 < c ->
  uf_op bstep lstep sb sl (mkUF ob ol off all) (HReaddir i c) =
  let rest := skipn (Z.to_nat off) all in
  match rest with
  | [] => (sb, sl, mkUF ob ol off all, RInfos [] (Some (E KEOF)))
  | _ => (sb, sl, mkUF ob ol (off + Z.min c (zlen rest)) all, RInfos (firstn (Z.to_nat c) rest) None)
  end.
Proof.
  intros Ho Hc. cbn [uf_op uoff ufiles ubase ulayer].
  assert (E0 : off =? 0 = false) by (apply Z.eqb_neq; lia). rewrite E0.
  assert (E1 : c <=? 0 = false) by (apply Z.leb_gt; lia). rewrite E1.
  cbv zeta. destruct (skipn (Z.to_nat off) all) as [|x rest] eqn:Er; [reflexivity|].
  assert (E2 : zlen (x :: rest) =? 0 = false) by (apply Z.eqb_neq; unfold zlen; cbn [length]; lia). rewrite E2.
  destruct (zlen (x :: rest) <? c) eqn:E3.
  - apply Z.ltb_lt in E3. rewrite Z.min_r by lia. do 2 f_equal.
    unfold zlen. rewrite Nat2Z.id. rewrite firstn_all. symmetry. apply firstn_all2. unfold zlen in E3. lia.
  - apply Z.ltb_ge in E3. now rewrite Z.min_l by lia.
Qed.

Lemma skipn_skipn' {A} (l : list A) a b : skipn a (skipn b l) = skipn (b + a) l.
Proof.
  revert l. induction b as [|b IH]; intros l; [reflexivity|]. destruct l; cbn [skipn Nat.add]; [now rewrite skipn_nil | apply IH].
Qed.

Lemma skipn_min {A} (l : list A) c : 0 < c -> skipn (Z.to_nat (Z.min c (zlen l))) l = skipn (Z.to_nat c) l.
Proof.
  intros Hc. destruct (Z.min_spec c (zlen l)) as [[Hlt ->]|[Hge ->]]; [reflexivity|].
  unfold zlen. rewrite Nat2Z.id, skipn_all. symmetry. apply skipn_all2. unfold zlen in Hge. lia.
Qed.

(* any sequence of positive page sizes on a filled handle: consecutive chunks of the unread
   part, no inner call, the listing itself is kept *)
Lemma uf_pages_filled i cs : Forall (fun c => 0 < c) cs -> forall sb sl ob ol off all, 0 < off ->
  exists off', uf_run sb sl (mkUF ob ol off all) (map (HReaddir i) cs) =
    (sb, sl, mkUF ob ol off' all, pages cs (skipn (Z.to_nat off) all)) /\ off <= off'.
Proof.
  induction 1 as [|c cs Hc Hcs IH]; intros sb sl ob ol off all Ho; cbn [map uf_run pages].
  - exists off. split; [reflexivity | lia].
  - rewrite (uf_readdir_filled sb sl ob ol off all i c Ho Hc). cbv zeta.
    destruct (skipn (Z.to_nat off) all) as [|x rest] eqn:Er.
    + destruct (IH sb sl ob ol off all Ho) as [off' [Hr Hle]]. rewrite Hr, Er. exists off'. now split.
    + set (k := Z.min c (zlen (x :: rest))).
      assert (Hk : 0 < k) by (unfold k, zlen; cbn [length]; lia).
      destruct (IH sb sl ob ol (off + k) all ltac:(lia)) as [off' [Hr Hle]]. rewrite Hr. exists off'.
      split; [|lia]. do 2 f_equal.
      rewrite Z2Nat.inj_add by lia. rewrite <- skipn_skipn', Er. unfold k. now rewrite skipn_min.
Qed.

(* the first Readdir on a fresh union directory handle: both inner directories are read in
   full once, merged, and the first page is returned *)
Lemma uf_readdir_first sb sl bh lh i c sb1 sl1 lfi bfi :
  lstep sl (HReaddir lh (-1)) = (sl1, RInfos lfi None) ->
  bstep sb (HReaddir bh (-1)) = (sb1, RInfos bfi None) ->
  0 < c ->
  uf_op bstep lstep sb sl (mkUF (Some bh) (Some lh) 0 []) (HReaddir i c) =
  match merge_dirs lfi bfi with
  | [] => (sb1, sl1, mkUF (Some bh) (Some lh) 0 [], RInfos [] (Some (E KEOF)))
  | M => (sb1, sl1, mkUF (Some bh) (Some lh) (Z.min c (zlen M)) M, RInfos (firstn (Z.to_nat c) M) None)
  end.
Proof.
  intros El Eb Hc. cbn [uf_op uoff ufiles ubase ulayer]. rewrite El, Eb. cbn [Z.eqb app skipn Z.to_nat].
  assert (E1 : c <=? 0 = false) by (apply Z.leb_gt; lia). rewrite E1.
  destruct (merge_dirs lfi bfi) as [|x M] eqn:Em; [reflexivity|].
  assert (E2 : zlen (x :: M) =? 0 = false) by (apply Z.eqb_neq; unfold zlen; cbn [length]; lia). rewrite E2.
  cbn [Z.add]. destruct (zlen (x :: M) <? c) eqn:E3.
  - apply Z.ltb_lt in E3. rewrite Z.min_r by lia. do 2 f_equal.
    unfold zlen. rewrite Nat2Z.id, firstn_all. symmetry. apply firstn_all2. unfold zlen in E3. lia.
  - apply Z.ltb_ge in E3. now rewrite Z.min_l by lia.
Qed.

(* C06, pages partition the listing: on a fresh union handle over a (merged) non-empty listing M,
   ANY list of positive page sizes returns exactly `pages` of M (consecutive chunks, then EOF);
   the inner directories are read once *)
Theorem uf_pages_partition sb sl bh lh i sb1 sl1 lfi bfi c cs :
  lstep sl (HReaddir lh (-1)) = (sl1, RInfos lfi None) ->
  bstep sb (HReaddir bh (-1)) = (sb1, RInfos bfi None) ->
  merge_dirs lfi bfi <> [] ->
  Forall (fun c => 0 < c) (c :: cs) ->
  exists off, uf_run sb sl (mkUF (Some bh) (Some lh) 0 []) (map (HReaddir i) (c :: cs)) =
    (sb1, sl1, mkUF (Some bh) (Some lh) off (merge_dirs lfi bfi), pages (c :: cs) (merge_dirs lfi bfi)).
Proof.
  intros El Eb Hm Hc. inversion Hc as [|? ? Hc1 Hc2]; subst. cbn [map uf_run].
  rewrite (uf_readdir_first sb sl bh lh i c sb1 sl1 lfi bfi El Eb Hc1).
  destruct (merge_dirs lfi bfi) as [|x M] eqn:Em; [contradiction|]. cbv zeta.
  set (k := Z.min c (zlen (x :: M))).
  assert (Hk : 0 < k) by (unfold k, zlen; cbn [length]; lia).
  destruct (uf_pages_filled i cs Hc2 sb1 sl1 (Some bh) (Some lh) k (x :: M) Hk) as [off' [Hr _]].
  rewrite Hr. exists off'. do 2 f_equal. rewrite pages_head by (lia || discriminate). f_equal.
  cbn [skipn]. unfold k. now rewrite skipn_min.
Qed.

(* an empty merged listing: the first positive-size Readdir reports EOF *)
Theorem uf_pages_empty sb sl bh lh i sb1 sl1 lfi bfi c :
  lstep sl (HReaddir lh (-1)) = (sl1, RInfos lfi None) ->
  bstep sb (HReaddir bh (-1)) = (sb1, RInfos bfi None) ->
  merge_dirs lfi bfi = [] -> 0 < c ->
  uf_op bstep lstep sb sl (mkUF (Some bh) (Some lh) 0 []) (HReaddir i c) =
    (sb1, sl1, mkUF (Some bh) (Some lh) 0 [], RInfos [] (Some (E KEOF))).
Proof.
  intros El Eb Hm Hc. rewrite (uf_readdir_first sb sl bh lh i c sb1 sl1 lfi bfi El Eb Hc). now rewrite Hm.
Qed.

(* Readdir(c <= 0): everything that is left, and the offset moves to the end of the listing *)
Lemma uf_readdir_first_all sb sl bh lh i c sb1 sl1 lfi bfi :
  lstep sl (HReaddir lh (-1)) = (sl1, RInfos lfi None) ->
  bstep sb (HReaddir bh (-1)) = (sb1, RInfos bfi None) ->
  c <= 0 ->
  uf_op bstep lstep sb sl (mkUF (Some bh) (Some lh) 0 []) (HReaddir i c) =
    (sb1, sl1, mkUF (Some bh) (Some lh) (zlen (merge_dirs lfi bfi)) (merge_dirs lfi bfi), RInfos (merge_dirs lfi bfi) None).
Proof.
  intros El Eb Hc. cbn [uf_op uoff ufiles ubase ulayer]. rewrite El, Eb. cbn [Z.eqb app skipn Z.to_nat].
  assert (E1 : c <=? 0 = true) by (apply Z.leb_le; lia). rewrite E1.
  rewrite union_all_advances_fact. reflexivity.
Qed.

Lemma uf_readdir_filled_all sb sl ob ol off all i c : 0 < off -> c <= 0 ->
  uf_op bstep lstep sb sl (mkUF ob ol off all) (HReaddir i c) =
    (sb, sl, mkUF ob ol (zlen all) all, RInfos (skipn (Z.to_nat off) all) None).
Proof.
  intros Ho Hc. cbn [uf_op uoff ufiles ubase ulayer].
  assert (E0 : off =? 0 = false) by (apply Z.eqb_neq; lia). rewrite E0.
  assert (E1 : c <=? 0 = true) by (apply Z.leb_le; lia). rewrite E1.
  rewrite union_all_advances_fact. reflexivity.
Qed.

(* Readdir(c <= 0) on a fresh handle returns the whole merged listing and leaves nothing:
   the next Readdir returns no entry (count <= 0: empty, no error; count > 0: EOF) *)
Theorem uf_readdir_all_then_nothing sb sl bh lh i sb1 sl1 lfi bfi c c' :
  lstep sl (HReaddir lh (-1)) = (sl1, RInfos lfi None) ->
  bstep sb (HReaddir bh (-1)) = (sb1, RInfos bfi None) ->
  merge_dirs lfi bfi <> [] -> c <= 0 ->
  uf_run sb sl (mkUF (Some bh) (Some lh) 0 []) [HReaddir i c; HReaddir i c'] =
    (sb1, sl1, mkUF (Some bh) (Some lh) (zlen (merge_dirs lfi bfi)) (merge_dirs lfi bfi),
     [RInfos (merge_dirs lfi bfi) None; if c' <=? 0 then RInfos [] None else RInfos [] (Some (E KEOF))]).
Proof.
  intros El Eb Hm Hc. cbn [uf_run].
  rewrite (uf_readdir_first_all sb sl bh lh i c sb1 sl1 lfi bfi El Eb Hc).
  set (M := merge_dirs lfi bfi) in *.
  assert (HM : 0 < zlen M) by (unfold zlen; destruct M; [contradiction | cbn [length]; lia]).
  assert (Hs : skipn (Z.to_nat (zlen M)) M = []) by (unfold zlen; now rewrite Nat2Z.id, skipn_all).
  destruct (c' <=? 0) eqn:E.
  - apply Z.leb_le in E. rewrite (uf_readdir_filled_all sb1 sl1 _ _ (zlen M) M i c' HM E). now rewrite Hs.
  - apply Z.leb_gt in E. rewrite (uf_readdir_filled sb1 sl1 _ _ (zlen M) M i c' HM E). cbv zeta. now rewrite Hs.
Qed.
End Paging.
