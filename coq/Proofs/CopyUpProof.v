(* Proofs/CopyUpProof.v — C06, copy-up with MemMapFs on both sides: copy_to_layer (copyToLayer +
   copyFile + io.Copy in 32 KiB chunks) of a regular base file of ANY size succeeds and leaves in
   the overlay a regular file with exactly the base's bytes and the base's mtime; the base's
   stored filesystem is untouched.  Hypotheses about the overlay are explicit (parent directory
   present, name absent) and shown satisfiable in Props/C06.v. *)
From AF Require Import Lib.Bytes Lib.Path Lib.Ops Gen.Consts Model.MemFile Model.MemFs Model.ReadOnly
  Model.Union Model.Cow Proofs.MemFsBasics Proofs.MemBelow Proofs.PathProof.
Local Open Scope Z_scope.

(* ---------------- small list facts ---------------- *)
Lemma cu_beqb_refl a : beqb a a = true.
Proof. induction a as [|x a IH]; cbn; [reflexivity|]. now rewrite N.eqb_refl, IH. Qed.
Lemma cu_beqb_eq a b : beqb a b = true -> a = b.
Proof.
  revert b. induction a as [|x a IH]; destruct b as [|y b]; cbn; try discriminate; [reflexivity|].
  intros H. apply andb_true_iff in H as [H1 H2]. apply N.eqb_eq in H1. subst. f_equal. now apply IH.
Qed.
Lemma cu_beqb_neq a b : a <> b -> beqb a b = false.
Proof. intros H. destruct (beqb a b) eqn:E; [|reflexivity]. apply cu_beqb_eq in E. contradiction. Qed.

Lemma alist_get_set_eq {A} k (v : A) l : alist_get k (alist_set k v l) = Some v.
Proof.
  induction l as [|[k' v'] l IH]; cbn [alist_set alist_get].
  - now rewrite cu_beqb_refl.
  - destruct (beqb k k') eqn:E; cbn [alist_get]; [now rewrite cu_beqb_refl | now rewrite E].
Qed.
Lemma alist_get_set_neq {A} k k2 (v : A) l : k <> k2 -> alist_get k2 (alist_set k v l) = alist_get k2 l.
Proof.
  intros Hn. induction l as [|[k' v'] l IH]; cbn [alist_set alist_get].
  - rewrite cu_beqb_neq; [reflexivity | congruence].
  - destruct (beqb k k') eqn:E; cbn [alist_get].
    + apply cu_beqb_eq in E. subst k'. rewrite (cu_beqb_neq k2 k); [reflexivity | congruence].
    + destruct (beqb k2 k'); [reflexivity | exact IH].
Qed.

Lemma nth_error_list_set_eq {A} (l : list A) i v : (i < length l)%nat -> nth_error (list_set i v l) i = Some v.
Proof.
  revert i. induction l as [|x l IH]; intros i Hi; [cbn in Hi; lia|].
  destruct i; cbn [list_set nth_error]; [reflexivity|]. apply IH. cbn in Hi. lia.
Qed.
Lemma nth_error_list_set_neq {A} (l : list A) i j v : i <> j -> nth_error (list_set i v l) j = nth_error l j.
Proof.
  revert i j. induction l as [|x l IH]; intros i j Hn; [destruct i; reflexivity|].
  destruct i, j; cbn [list_set nth_error]; try reflexivity; [contradiction|]. apply IH. congruence.
Qed.
Lemma cu_list_set_length {A} (l : list A) i a : length (list_set i a l) = length l.
Proof. revert i. induction l as [|x l IH]; intros i; [destruct i; reflexivity|]. destruct i; cbn; [reflexivity | now rewrite IH]. Qed.
Lemma nth_error_app_last {A} (l : list A) x : nth_error (l ++ [x]) (length l) = Some x.
Proof. rewrite nth_error_app2 by lia. now rewrite Nat.sub_diag. Qed.
Lemma nth_error_app_old {A} (l : list A) x i y : nth_error l i = Some y -> nth_error (l ++ [x]) i = Some y.
Proof. intros H. rewrite nth_error_app1; [exact H|]. apply nth_error_Some. congruence. Qed.
Lemma nth_error_lt {A} (l : list A) i y : nth_error l i = Some y -> (i < length l)%nat.
Proof. intros H. apply nth_error_Some. congruence. Qed.

Lemma cu_firstn_plus {A} (l : list A) a b : firstn (a + b) l = firstn a l ++ firstn b (skipn a l).
Proof.
  revert l. induction a as [|a IH]; intros l; [reflexivity|].
  destruct l as [|x l]; cbn [Nat.add firstn skipn app]; [now rewrite firstn_nil | now rewrite IH].
Qed.

(* appending at the end of the data: File.Write at offset len(data) *)
Lemma go_write_append data b : 0 < zlen b -> go_write data b (zlen data) = data ++ b.
Proof.
  intros Hb. unfold go_write. rewrite Z.sub_diag. cbn [Z.ltb Z.compare].
  assert (E : zlen b + zlen data <? zlen data = false) by (apply Z.ltb_ge; lia). rewrite E.
  unfold zlen at 1. rewrite Nat2Z.id, firstn_all. now rewrite app_nil_r.
Qed.

(* ---------------- one API call = raw call, then the clock ticks ---------------- *)
Definition tick (s : mst) : mst := mkM (mdata s) (mheap s) (mhandles s) (mclock s + 1).
Lemma m_step_tick s o : m_step s o = (tick (fst (m_step_raw s o)), snd (m_step_raw s o)).
Proof. unfold m_step, tick. destruct (m_step_raw s o); reflexivity. Qed.

Lemma get_node_set_node_eq s r n x : get_node s r = Some x -> get_node (set_node s r n) r = Some n.
Proof. unfold get_node, set_node. cbn [mheap]. intros H. apply nth_error_list_set_eq. now apply nth_error_lt in H. Qed.
Lemma get_node_set_node_neq s r n r2 : r <> r2 -> get_node (set_node s r n) r2 = get_node s r2.
Proof. unfold get_node, set_node. cbn [mheap]. apply nth_error_list_set_neq. Qed.
Lemma upd_node_some s r f x : get_node s r = Some x -> upd_node s r f = set_node s r (f x).
Proof. unfold upd_node. now intros ->. Qed.

(* ---------------- the base side: a fresh read-only handle on a regular file ---------------- *)
Section Base.
Variables (f : nat) (nd : node) (bh : nat).
Let data := ndata nd.

Definition BI (s : mst) (a : Z) : Prop :=
  get_node s f = Some nd /\ nth_error (mhandles s) bh = Some (mkH f a 0 false true).

Lemma base_hstat s a : BI s a ->
  exists s', m_step s (HStat bh) = (s', RInfo (finfo_of nd)) /\ BI s' a /\ fs_view s' = fs_view s.
Proof.
  intros [Hn Hh]. rewrite m_step_tick. cbn [m_step_raw]. unfold m_hop. rewrite Hh. cbn [href]. rewrite Hn.
  cbn [fst snd]. eexists. split; [reflexivity|]. now repeat split.
Qed.

Lemma base_read_more s a : BI s a -> 0 <= a < zlen data ->
  let k := Z.min 32768 (zlen data - a) in
  exists s', m_step s (HRead bh 32768) = (s', RData (slice data a (a + k)) None) /\ BI s' (a + k) /\ fs_view s' = fs_view s.
Proof.
  intros [Hn Hh] Ha k. rewrite m_step_tick. cbn [m_step_raw]. unfold m_hop. rewrite Hh. cbn [href]. rewrite Hn.
  unfold f_read. cbn [hclosed hat]. fold data.
  assert (E1 : (0 <? 32768) && (a =? zlen data) = false) by (apply andb_false_iff; right; apply Z.eqb_neq; lia). rewrite E1.
  assert (E2 : zlen data <? a = false) by (apply Z.ltb_ge; lia). rewrite E2.
  assert (E3 : a <? 0 = false) by (apply Z.ltb_ge; lia). rewrite E3.
  assert (E4 : (if 32768 <=? zlen data - a then 32768 else zlen data - a) = k).
  { unfold k. destruct (32768 <=? zlen data - a) eqn:E; [apply Z.leb_le in E | apply Z.leb_gt in E]; lia. }
  rewrite E4. cbn [fst snd]. eexists. split; [reflexivity|]. split; [|reflexivity].
  split; [exact Hn|]. unfold tick, set_handle. cbn [mhandles set_at href hrdc hclosed hro].
  apply nth_error_list_set_eq. now apply nth_error_lt in Hh.
Qed.

Lemma base_read_eof s : BI s (zlen data) ->
  exists s', m_step s (HRead bh 32768) = (s', RData [] (Some (E KEOF))) /\ BI s' (zlen data) /\ fs_view s' = fs_view s.
Proof.
  intros [Hn Hh]. rewrite m_step_tick. cbn [m_step_raw]. unfold m_hop. rewrite Hh. cbn [href]. rewrite Hn.
  unfold f_read. cbn [hclosed hat]. fold data. rewrite Z.eqb_refl. cbn [Z.ltb Z.compare andb fst snd].
  eexists. split; [reflexivity|]. split; [|reflexivity].
  split; [exact Hn|]. unfold tick, set_handle. cbn [mhandles].
  apply nth_error_list_set_eq. now apply nth_error_lt in Hh.
Qed.

Lemma base_close s a : BI s a -> fs_view (fst (m_step s (HClose bh))) = fs_view s.
Proof.
  intros [Hn Hh]. rewrite m_step_tick. cbn [m_step_raw]. unfold m_hop. rewrite Hh. cbn [href]. rewrite Hn.
  cbn [hclosed hro]. reflexivity.
Qed.
End Base.

Lemma base_open sb name f nd : lookup sb (normalize_path name) = Some f -> get_node sb f = Some nd ->
  exists sb1, m_step sb (Open name) = (sb1, RHandle (length (mhandles sb))) /\
    BI f nd (length (mhandles sb)) sb1 0 /\ fs_view sb1 = fs_view sb.
Proof.
  intros Hl Hn. rewrite m_step_tick. cbn [m_step_raw]. unfold m_open. rewrite Hl. cbn [alloc_handle fst snd].
  eexists. split; [reflexivity|]. split; [|reflexivity]. split; [exact Hn|].
  unfold tick. cbn [mhandles]. apply nth_error_app_last.
Qed.

(* ---------------- the overlay side: the file being written ---------------- *)
Section Layer.
Variables (nn : str) (g : nat) (lh : nat).

(* the path nn names node g, a regular file holding d; handle lh is a writable open handle on g at offset a *)
Definition LF (s : mst) (d : bytes) (mt : option Z) : Prop :=
  lookup s nn = Some g /\
  exists n, get_node s g = Some n /\ ndata n = d /\ ndir n = false /\ match mt with Some t => nmtime n = t | None => True end.
Definition LI (s : mst) (d : bytes) (a : Z) : Prop :=
  LF s d None /\ nth_error (mhandles s) lh = Some (mkH g a 0 false false).

Lemma layer_write s d b : LI s d (zlen d) -> 0 < zlen b ->
  exists s', m_step s (HWrite lh b) = (s', RCount (zlen b) None) /\ LI s' (d ++ b) (zlen d + zlen b).
Proof.
  intros [[Hl [n [Hn [Hd [Hdir _]]]]] Hh] Hb. rewrite m_step_tick. cbn [m_step_raw]. unfold m_hop. rewrite Hh. cbn [href]. rewrite Hn.
  unfold f_write. cbn [hclosed hro hat]. rewrite Hd.
  assert (E1 : zlen b =? 0 = false) by (apply Z.eqb_neq; lia). rewrite E1.
  assert (E2 : zlen d <? 0 = false) by (apply Z.ltb_ge; unfold zlen; lia). rewrite E2.
  cbn [fst snd]. eexists. split; [reflexivity|].
  rewrite (go_write_append d b Hb). unfold put_data.
  assert (Hn' : get_node (set_handle s lh (set_at (mkH g (zlen d) 0 false false) (zlen d + zlen b))) g = Some n) by exact Hn.
  rewrite (upd_node_some _ _ _ _ Hn'). split; [split|].
  - exact Hl.
  - eexists. split; [unfold tick, get_node; cbn [mheap]; apply (get_node_set_node_eq _ _ _ _ Hn')|]. cbn. now repeat split.
  - unfold tick, set_node, set_handle. cbn [mhandles set_at href hrdc hclosed hro].
    apply nth_error_list_set_eq. now apply nth_error_lt in Hh.
Qed.

Lemma layer_close s d a : LI s d a -> exists s', m_step s (HClose lh) = (s', ROk) /\ LF s' d None.
Proof.
  intros [[Hl [n [Hn [Hd [Hdir _]]]]] Hh]. rewrite m_step_tick. cbn [m_step_raw]. unfold m_hop. rewrite Hh. cbn [href]. rewrite Hn.
  cbn [hclosed hro fst snd]. eexists. split; [reflexivity|].
  assert (Hn' : get_node (set_handle s lh (set_closed (mkH g a 0 false false))) g = Some n) by exact Hn.
  rewrite (upd_node_some _ _ _ _ Hn'). split; [exact Hl|].
  eexists. split; [unfold tick, get_node; cbn [mheap]; apply (get_node_set_node_eq _ _ _ _ Hn')|]. cbn. now repeat split.
Qed.

Lemma layer_chtimes s d name t : normalize_path name = nn -> LF s d None ->
  exists s', m_step s (Chtimes name t) = (s', ROk) /\ LF s' d (Some t).
Proof.
  intros Hnn [Hl [n [Hn [Hd [Hdir _]]]]]. rewrite m_step_tick. cbn [m_step_raw]. unfold m_chtimes. rewrite Hnn, Hl.
  cbn [fst snd]. eexists. split; [reflexivity|]. rewrite (upd_node_some _ _ _ _ Hn). split; [exact Hl|].
  eexists. split; [unfold tick, get_node; cbn [mheap]; apply (get_node_set_node_eq _ _ _ _ Hn)|]. cbn. now repeat split.
Qed.
End Layer.

(* Stat of an existing entry: success, nothing changes but the clock *)
Lemma layer_stat_ok s p d dn : lookup s (normalize_path p) = Some d -> get_node s d = Some dn ->
  m_step s (Stat p) = (tick s, RInfo (finfo_of dn)).
Proof. intros Hl Hn. rewrite m_step_tick. cbn [m_step_raw]. unfold m_stat. now rewrite Hl, Hn. Qed.

Lemma stat_missing s p : lookup s (normalize_path p) = None -> m_step s (Stat p) = (tick s, RErr (EW KNotExist)).
Proof. intros Hl. rewrite m_step_tick. cbn [m_step_raw]. unfold m_stat. now rewrite Hl. Qed.

(* the key under which registerWithParent looks for the parent of a node called nn *)
Definition parent_key (nn : str) : str := normalize_path (clean (fst (path_split nn))).

(* Create of a name the overlay lacks, whose parent entry exists and is a directory (below a regular
   file MemMapFs answers ENOTDIR): a new empty regular file node, a fresh writable handle on it at
   offset 0 *)
Lemma layer_create s name pp pn :
  let nn := normalize_path name in
  lookup s nn = None ->
  parent_key nn <> nn -> lookup s (parent_key nn) = Some pp -> get_node s pp = Some pn -> ndir pn = true ->
  exists s', m_step s (Create name) = (s', RHandle (length (mhandles s))) /\
    LI nn (length (mheap s)) (length (mhandles s)) s' [] 0.
Proof.
  intros nn Hno Hpk Hpl Hpn Hpd. rewrite m_step_tick. cbn [m_step_raw]. unfold m_create. fold nn.
  rewrite Hno, (below_file_parent_dir s nn pp pn Hpl Hpn Hpd).
  unfold m_create_node. cbn [alloc_node].
  set (g := length (mheap s)).
  set (s1 := mkM (mdata s) (mheap s ++ [new_file nn (mclock s)]) (mhandles s) (mclock s)).
  set (s2 := set_data s1 (alist_set nn g (mdata s1))).
  assert (Hg2 : get_node s2 g = Some (new_file nn (mclock s))) by (unfold get_node, s2, s1, g; cbn [mheap set_data]; apply nth_error_app_last).
  assert (Hname : node_name s2 g = nn) by (unfold node_name; now rewrite Hg2).
  assert (Hfp : find_parent s2 g = Some pp).
  { unfold find_parent, lockfree_open, lookup. rewrite Hname. fold (parent_key nn). unfold s2, s1. cbn [mdata set_data].
    rewrite alist_get_set_neq by congruence. exact Hpl. }
  assert (Hpp2 : get_node s2 pp = Some pn) by (unfold get_node, s2, s1; cbn [mheap set_data]; now apply nth_error_app_old).
  assert (Hne : pp <> g) by (apply nth_error_lt in Hpn; unfold g; lia).
  unfold reg. cbn [register]. rewrite Hfp. unfold add_kid. rewrite (upd_node_some _ _ _ _ Hpp2).
  cbn [alloc_handle fst snd]. eexists. split; [reflexivity|]. split; [split|].
  - unfold lookup, tick, set_node, s2, s1. cbn [mdata set_data]. apply alist_get_set_eq.
  - exists (new_file nn (mclock s)). split; [|now repeat split].
    unfold tick, get_node. cbn [mheap]. fold (get_node (set_node s2 pp (with_kids (alist_set (node_name s2 g) g (nkids (init_dir pn))) (init_dir pn))) g).
    rewrite get_node_set_node_neq by exact Hne. exact Hg2.
  - unfold tick. cbn [mhandles]. unfold set_node, s2, s1. cbn [mhandles set_data]. apply nth_error_app_last.
Qed.

(* ---------------- io.Copy between the two ---------------- *)
Lemma slice_firstn data a k : 0 <= a -> 0 <= k ->
  firstn (Z.to_nat a) data ++ slice data a (a + k) = firstn (Z.to_nat (a + k)) data.
Proof.
  intros Ha Hk. unfold slice. replace (a + k - a) with k by lia.
  rewrite Z2Nat.inj_add by lia. now rewrite cu_firstn_plus.
Qed.

Lemma zlen_firstn (data : bytes) a : 0 <= a <= zlen data -> zlen (firstn (Z.to_nat a) data) = a.
Proof. intros Ha. unfold zlen in *. rewrite firstn_length. lia. Qed.

Lemma zlen_slice (data : bytes) a k : 0 <= a -> 0 <= k -> a + k <= zlen data -> zlen (slice data a (a + k)) = k.
Proof.
  intros Ha Hk Hl. unfold slice, zlen in *. replace (a + k - a) with k by lia.
  rewrite firstn_length, skipn_length. lia.
Qed.

Section Copy.
Variables (f : nat) (nd : node) (bh : nat) (nn : str) (g : nat) (lh : nat).
Let data := ndata nd.

Lemma io_copy_mem fuel : forall sb sl a w,
  BI f nd bh sb a -> LI nn g lh sl (firstn (Z.to_nat a) data) a -> 0 <= a <= zlen data ->
  zlen data - a < Z.of_nat fuel ->
  exists sb' sl', io_copy m_step m_step fuel sb sl bh lh w = (sb', sl', w + (zlen data - a), None) /\
    BI f nd bh sb' (zlen data) /\ LI nn g lh sl' data (zlen data) /\ fs_view sb' = fs_view sb.
Proof.
  induction fuel as [|fuel IH]; intros sb sl a w Hb Hl Ha Hf; [lia|]. cbn [io_copy].
  destruct (Z.eq_dec a (zlen data)) as [->|Hne].
  - (* at the end: EOF, nothing written *)
    destruct (base_read_eof f nd bh sb Hb) as [sb' [Er [Hb' Hv]]]. fold data in Er. rewrite Er.
    cbn [zlen length Z.of_nat Z.ltb Z.compare errk_eqb ek E]. exists sb', sl. split; [do 2 f_equal; lia|].
    split; [exact Hb'|]. split; [|exact Hv].
    unfold zlen in Hl. rewrite Nat2Z.id, firstn_all in Hl. exact Hl.
  - pose proof (base_read_more f nd bh sb a Hb) as Hr. fold data in Hr. specialize (Hr ltac:(lia)). cbv zeta in Hr.
    set (k := Z.min 32768 (zlen data - a)) in *. assert (Hk : 0 < k) by (unfold k; lia).
    destruct Hr as [sb' [Er [Hb' Hv]]]. rewrite Er.
    assert (Hzs : zlen (slice data a (a + k)) = k) by (apply zlen_slice; unfold k; lia).
    rewrite Hzs. assert (E0 : 0 <? k = true) by (apply Z.ltb_lt; lia). rewrite E0.
    assert (Hl0 : LI nn g lh sl (firstn (Z.to_nat a) data) (zlen (firstn (Z.to_nat a) data))) by (rewrite zlen_firstn by lia; exact Hl).
    destruct (layer_write nn g lh sl _ (slice data a (a + k)) Hl0 ltac:(lia)) as [sl' [Ew Hl']].
    rewrite Ew, Hzs. rewrite slice_firstn in Hl' by lia. rewrite zlen_firstn, Hzs in Hl' by lia.
    assert (E1 : (k <? 0) || (k <? k) = false) by (apply orb_false_iff; split; apply Z.ltb_ge; lia). rewrite E1.
    rewrite Z.eqb_refl. cbn [negb].
    destruct (IH sb' sl' (a + k) (w + k) Hb' Hl' ltac:(unfold k; lia) ltac:(lia)) as [sb2 [sl2 [Ei [Hb2 [Hl2 Hv2]]]]].
    rewrite Ei. exists sb2, sl2. split; [do 2 f_equal; lia|]. split; [exact Hb2|]. split; [exact Hl2|]. congruence.
Qed.
End Copy.

Lemma finfo_of_file nd : ndir nd = false -> fi_size (finfo_of nd) = zlen (ndata nd) /\ fi_mtime (finfo_of nd) = nmtime nd.
Proof. unfold finfo_of. intros ->. now split. Qed.

(* ---------------- copyFile = directory phase, then the tail from Create on ---------------- *)
Section Tail.
Context {B L : Type} (bstep : B -> op -> B * res) (lstep : L -> op -> L * res).
Definition copy_tail (sb : B) (sl1 : L) (name : str) (bh : nat) : B * L * option err :=
  match lstep sl1 (Create name) with
  | (sl2, RHandle lh) =>
    let '(sb1, st) := bstep sb (HStat bh) in
    let fuel := match st with RInfo fi => S (S (Z.to_nat (fi_size fi))) | _ => 2%nat end in
    let '(sb2, sl3, n, cerr) := io_copy bstep lstep fuel sb1 sl2 bh lh 0 in
    match cerr with
    | Some e =>
      let sl4 := fst (lstep sl3 (Remove name)) in
      let sl5 := fst (lstep sl4 (HClose lh)) in (sb2, sl5, Some e)
    | None =>
      let '(sb3, st2) := bstep sb2 (HStat bh) in
      match st2 with
      | RInfo bfi =>
        if negb (fi_size bfi =? n) then
          let sl4 := fst (lstep sl3 (Remove name)) in
          let sl5 := fst (lstep sl4 (HClose lh)) in (sb3, sl5, Some (E KEIO))
        else
          match lstep sl3 (HClose lh) with
          | (sl4, ROk) =>
            match lstep sl4 (Chtimes name (fi_mtime bfi)) with
            | (sl5, ROk) => (sb3, sl5, None)
            | (sl5, r) => (sb3, sl5, match res_err r with Some e => Some e | None => Some (E KOther) end)
            end
          | (sl4, r) =>
            let sl5 := fst (lstep sl4 (Remove name)) in
            let sl6 := fst (lstep sl5 (HClose lh)) in
            (sb3, sl6, match res_err r with Some e => Some e | None => Some (E KOther) end)
          end
      | _ =>
        let sl4 := fst (lstep sl3 (Remove name)) in
        let sl5 := fst (lstep sl4 (HClose lh)) in (sb3, sl5, Some (E KEIO))
      end
    end
  | (sl2, r) => (sb, after_failed_create lstep sl2 name, match res_err r with Some e => Some e | None => Some (E KOther) end)
  end.

Lemma copy_file_tail sb sl name bh : copy_file bstep lstep sb sl name bh =
  let dir := copy_dir name in
  let '(sl0, ex) := l_exists lstep sl dir in
  match ex with
  | inr e => (sb, sl0, Some e)
  | inl exists_ =>
    let '(sl1, mk) := if exists_ then (sl0, None)
                      else match lstep sl0 (MkdirAll dir 511) with
                           | (s, ROk) => (s, None)
                           | (s, r) => (s, match res_err r with Some e => Some e | None => Some (E KOther) end)
                           end in
    match mk with
    | Some e => (sb, sl1, Some e)
    | None => copy_tail sb sl1 name bh
    end
  end.
Proof. reflexivity. Qed.
End Tail.

(* the overlay can take a new regular file called nn: the name is free and the entry
   registerWithParent will look for exists and is a directory *)
Definition create_ready (s : mst) (nn : str) : Prop :=
  lookup s nn = None /\ parent_key nn <> nn /\
  exists pp pn, lookup s (parent_key nn) = Some pp /\ get_node s pp = Some pn /\ ndir pn = true.

Lemma copy_tail_mem sb1 sl1 name f nd bh :
  let nn := normalize_path name in
  BI f nd bh sb1 0 -> ndir nd = false -> create_ready sl1 nn ->
  exists sb' sl', copy_tail m_step m_step sb1 sl1 name bh = (sb', sl', None) /\
    fs_view sb' = fs_view sb1 /\ BI f nd bh sb' (zlen (ndata nd)) /\
    LF nn (length (mheap sl1)) sl' (ndata nd) (Some (nmtime nd)).
Proof.
  intros nn Hb1 Hbd [Hno [Hpk [pp [pn [Hpl [Hpn Hpd]]]]]]. unfold copy_tail.
  destruct (layer_create sl1 name pp pn Hno Hpk Hpl Hpn Hpd) as [sl2 [Ec Hl2]]. fold nn in Hl2. rewrite Ec.
  set (lh := length (mhandles sl1)) in *. set (g := length (mheap sl1)) in *.
  destruct (base_hstat f nd bh sb1 0 Hb1) as [sb2 [Es [Hb2 Hv2]]]. rewrite Es.
  destruct (finfo_of_file nd Hbd) as [Hsz Hmt]. rewrite Hsz.
  assert (Hz : 0 <= zlen (ndata nd)) by (unfold zlen; lia).
  destruct (io_copy_mem f nd bh nn g lh (S (S (Z.to_nat (zlen (ndata nd))))) sb2 sl2 0 0 Hb2 Hl2 ltac:(lia) ltac:(lia))
    as [sb3 [sl3 [Ei [Hb3 [Hl3 Hv3]]]]].
  rewrite Ei.
  destruct (base_hstat f nd bh sb3 _ Hb3) as [sb4 [Es4 [Hb4 Hv4]]]. rewrite Es4, Hsz.
  assert (En : zlen (ndata nd) =? 0 + (zlen (ndata nd) - 0) = true) by (apply Z.eqb_eq; lia). rewrite En. cbn [negb].
  destruct (layer_close nn g lh sl3 _ _ Hl3) as [sl4 [Ecl Hl4]]. rewrite Ecl.
  destruct (layer_chtimes nn g sl4 _ name (fi_mtime (finfo_of nd)) eq_refl Hl4) as [sl5 [Ect Hl5]]. rewrite Ect.
  exists sb4, sl5. split; [reflexivity|]. split; [congruence|]. split; [exact Hb4|].
  rewrite Hmt in Hl5. exact Hl5.
Qed.

(* MkdirAll of a directory the overlay lacks whose own parent entry exists and is a directory: one
   new directory node *)
Lemma layer_mkdirall_new s dir perm pp pn :
  let dk := normalize_path dir in
  lookup s dk = None -> parent_key dk <> dk -> lookup s (parent_key dk) = Some pp -> get_node s pp = Some pn -> ndir pn = true ->
  exists s', m_step s (MkdirAll dir perm) = (s', ROk) /\
    lookup s' dk = Some (length (mheap s)) /\ (exists n, get_node s' (length (mheap s)) = Some n /\ ndir n = true) /\
    (forall k, k <> dk -> lookup s' k = lookup s k) /\
    length (mheap s') = S (length (mheap s)) /\ mhandles s' = mhandles s.
Proof.
  intros dk Hno Hpk Hpl Hpn Hpd. rewrite m_step_tick. cbn [m_step_raw]. unfold m_mkdirall, m_mkdir. fold dk.
  rewrite Hno, (below_file_parent_dir s dk pp pn Hpl Hpn Hpd).
  cbn [alloc_node].
  set (g := length (mheap s)). set (pm := Z.land perm chmod_bits).
  set (n0 := with_mode (Z.lor mode_dir pm) (new_dir dk (mclock s))).
  set (s1 := mkM (mdata s) (mheap s ++ [n0]) (mhandles s) (mclock s)).
  set (s2 := set_data s1 (alist_set dk g (mdata s1))).
  assert (Hg2 : get_node s2 g = Some n0) by (unfold get_node, s2, s1, g; cbn [mheap set_data]; apply nth_error_app_last).
  assert (Hname : node_name s2 g = dk) by (unfold node_name; now rewrite Hg2).
  assert (Hfp : find_parent s2 g = Some pp).
  { unfold find_parent, lockfree_open, lookup. rewrite Hname. fold (parent_key dk). unfold s2, s1. cbn [mdata set_data].
    rewrite alist_get_set_neq by congruence. exact Hpl. }
  assert (Hpp2 : get_node s2 pp = Some pn) by (unfold get_node, s2, s1; cbn [mheap set_data]; now apply nth_error_app_old).
  assert (Hne : pp <> g) by (apply nth_error_lt in Hpn; unfold g; lia).
  unfold reg. cbn [register]. rewrite Hfp. unfold add_kid. rewrite (upd_node_some _ _ _ _ Hpp2).
  set (s3 := set_node s2 pp _).
  assert (Hl3 : lookup s3 dk = Some g) by (unfold lookup, s3, set_node, s2, s1; cbn [mdata set_data]; apply alist_get_set_eq).
  assert (Hg3 : get_node s3 g = Some n0) by (unfold s3; rewrite get_node_set_node_neq by exact Hne; exact Hg2).
  unfold set_file_mode. replace (normalize_path dk) with dk by (unfold dk; now rewrite PathProof.normalize_idempotent).
  rewrite Hl3.
  rewrite (upd_node_some _ _ _ _ Hg3). cbn [fst snd].
  eexists. split; [reflexivity|]. split; [exact Hl3|]. split.
  - eexists. split; [unfold tick, get_node; cbn [mheap]; apply (get_node_set_node_eq _ _ _ _ Hg3) | reflexivity].
  - split; [|split].
    + intros k Hk. unfold lookup, tick, set_node, s3, set_node, s2, s1. cbn [mdata set_data]. apply alist_get_set_neq. congruence.
    + unfold tick, set_node, s3, set_node, s2, s1. cbn [mheap set_data]. rewrite !cu_list_set_length, app_length. cbn. lia.
    + reflexivity.
Qed.

(* ---------------- copyToLayer, MemMapFs on both sides ---------------- *)
(* "the directory part of the name" is copy_dir name — filepath.Dir(name), or filepath.Dir of the cleaned
   name when copyfile_cleans_name = 1 (read from unionFile.go); nothing below depends on which *)
Lemma copy_dir_meaning name :
  copy_dir name = if Z.eqb copyfile_cleans_name 1 then path_dir (clean name) else path_dir name.
Proof. reflexivity. Qed.

(* the two overlay situations covered: (A) the directory part of the name exists in the overlay;
   (B) it does not, but ITS parent directory does (copyFile then creates one directory level, e.g. the
   overlay has only "/" and the file is /d/f).  "exists" for the entry a new node is registered in
   means: is a directory — below a regular file MemMapFs creates nothing (ENOTDIR) *)
Definition overlay_has_dir (s : mst) (name : str) : Prop :=
  (exists d dn, lookup s (normalize_path (copy_dir name)) = Some d /\ get_node s d = Some dn) /\
  create_ready s (normalize_path name).
Definition overlay_lacks_dir (s : mst) (name : str) : Prop :=
  let dk := normalize_path (copy_dir name) in
  let nn := normalize_path name in
  lookup s dk = None /\ parent_key dk <> dk /\
  (exists pp pn, lookup s (parent_key dk) = Some pp /\ get_node s pp = Some pn /\ ndir pn = true) /\
  lookup s nn = None /\ parent_key nn = dk /\ dk <> nn.
Definition copy_up_ready (s : mst) (name : str) : Prop := overlay_has_dir s name \/ overlay_lacks_dir s name.

Lemma copy_up_ready_tick s name : copy_up_ready s name -> copy_up_ready (tick s) name.
Proof. intros H. exact H. Qed.

Theorem copy_up_mem sb sl name f nd :
  let nn := normalize_path name in
  (* the base holds a regular file at name *)
  lookup sb nn = Some f -> get_node sb f = Some nd -> ndir nd = false ->
  copy_up_ready sl name ->
  exists sb' sl' g, copy_to_layer m_step m_step sb sl name = (sb', sl', None) /\
    fs_view sb' = fs_view sb /\
    LF nn g sl' (ndata nd) (Some (nmtime nd)).
Proof.
  intros nn Hbl Hbn Hbd Hready.
  unfold copy_to_layer, copy_to_layer_with.
  destruct (base_open sb name f nd Hbl Hbn) as [sb1 [Eo [Hb1 Hv1]]]. rewrite Eo.
  set (bh := length (mhandles sb)) in *.
  rewrite copy_file_tail. cbv zeta. unfold l_exists.
  destruct Hready as [[[d [dn [Hdl Hdn]]] Hcr] | [Hdno [Hdpk [[pp [pn [Hdpl [Hdpn Hdpd]]]] [Hno [Hpk Hne]]]]]].
  - (* A *)
    rewrite (layer_stat_ok sl (copy_dir name) d dn Hdl Hdn). cbn [is_not_exist].
    destruct (copy_tail_mem sb1 (tick sl) name f nd bh Hb1 Hbd Hcr) as [sb' [sl' [Et [Hv [Hb' Hlf]]]]].
    rewrite Et. exists (fst (m_step sb' (HClose bh))), sl', (length (mheap (tick sl))).
    split; [reflexivity|]. split; [|exact Hlf]. rewrite (base_close f nd bh sb' _ Hb'). congruence.
  - (* B *)
    rewrite (stat_missing sl (copy_dir name) Hdno). cbn [is_not_exist ek EW].
    destruct (layer_mkdirall_new (tick sl) (copy_dir name) 511 pp pn Hdno Hdpk Hdpl Hdpn Hdpd) as [sl1 [Em [Hd1 [[dn1 [Hdn1 Hdd1]] [Hoth [Hlen Hh]]]]]].
    rewrite Em.
    assert (Hcr : create_ready sl1 nn).
    { unfold nn. split; [rewrite Hoth; [exact Hno | intros Hx; apply Hne; symmetry; exact Hx]|].
      split; [rewrite Hpk; exact Hne|].
      exists (length (mheap (tick sl))), dn1. split; [|split; [exact Hdn1 | exact Hdd1]]. rewrite Hpk. exact Hd1. }
    destruct (copy_tail_mem sb1 sl1 name f nd bh Hb1 Hbd Hcr) as [sb' [sl' [Et [Hv [Hb' Hlf]]]]].
    rewrite Et. exists (fst (m_step sb' (HClose bh))), sl', (length (mheap sl1)).
    split; [reflexivity|]. split; [|exact Hlf]. rewrite (base_close f nd bh sb' _ Hb'). congruence.
Qed.

(* what the overlay then answers through its API *)
Lemma LF_stat nn g s dta t name : normalize_path name = nn -> LF nn g s dta (Some t) ->
  exists fi, snd (m_step s (Stat name)) = RInfo fi /\ fi_dir fi = false /\ fi_size fi = zlen dta /\ fi_mtime fi = t.
Proof.
  intros Hnn [Hl [n [Hn [Hd [Hdir Ht]]]]]. rewrite m_step_tick. cbn [m_step_raw snd]. unfold m_stat. rewrite Hnn, Hl, Hn.
  cbn [snd]. eexists. split; [reflexivity|]. unfold finfo_of. rewrite Hdir, Hd. cbn. now repeat split.
Qed.

(* a fresh Open + Read of the whole size on the overlay returns exactly the bytes *)
Lemma LF_read_all nn g s dta mt name : normalize_path name = nn -> LF nn g s dta mt -> 0 < zlen dta ->
  snd (run_steps m_step s [Open name; HRead (length (mhandles s)) (zlen dta)]) =
    [RHandle (length (mhandles s)); RData dta None].
Proof.
  intros Hnn [Hl [n [Hn [Hd [Hdir _]]]]] Hz. cbn [run_steps].
  rewrite (m_step_tick s (Open name)). cbn [m_step_raw]. unfold m_open. rewrite Hnn, Hl. cbn [alloc_handle fst snd].
  rewrite m_step_tick. cbn [m_step_raw]. unfold m_hop. cbn [tick mhandles]. rewrite nth_error_app_last. cbn [href].
  repeat match goal with |- context [get_node ?x g] =>
    lazymatch x with s => fail | _ => change (get_node x g) with (get_node s g) end end.
  rewrite Hn. unfold f_read. cbn [hclosed hat]. rewrite Hd.
  assert (E1 : (0 <? zlen dta) && (0 =? zlen dta) = false) by (apply andb_false_iff; right; apply Z.eqb_neq; lia). rewrite E1.
  assert (E2 : zlen dta <? 0 = false) by (apply Z.ltb_ge; lia). rewrite E2. cbn [Z.ltb Z.compare].
  rewrite Z.sub_0_r, Z.leb_refl. cbn [snd]. do 3 f_equal. unfold slice. cbn [Z.add Z.to_nat skipn].
  rewrite Z.sub_0_r. unfold zlen. rewrite Nat2Z.id. apply firstn_all.
Qed.

(* ---------------- through the CopyOnWriteFs: write to a base-only file, read it back ---------------- *)
From AF Require Import Proofs.CowViewProof.

Lemma lookup_tick s k : lookup (tick s) k = lookup s k. Proof. reflexivity. Qed.
Lemma get_node_tick s r : get_node (tick s) r = get_node s r. Proof. reflexivity. Qed.
Lemma fs_view_tick s : fs_view (tick s) = fs_view s. Proof. reflexivity. Qed.

Lemma LF_tick nn g s d mt : LF nn g s d mt -> LF nn g (tick s) d mt.
Proof. intros H. exact H. Qed.


Section LayerMore.
Variables (nn : str) (g : nat).

Lemma LF_stat_ok s d mt name : normalize_path name = nn -> LF nn g s d mt ->
  exists fi, m_step s (Stat name) = (tick s, RInfo fi) /\ fi_dir fi = false.
Proof.
  intros Hnn [Hl [n [Hn [Hd [Hdir _]]]]]. exists (finfo_of n). rewrite <- Hnn in Hl.
  split; [exact (layer_stat_ok s name g n Hl Hn) | exact Hdir].
Qed.

(* OpenFile(O_RDWR) of the existing regular file: a writable handle at offset 0, nothing else changes *)
Lemma layer_openfile_rdwr s d mt name perm : normalize_path name = nn -> LF nn g s d mt ->
  exists s', m_step s (OpenFile name o_rdwr perm) = (s', RHandle (length (mhandles s))) /\
    LI nn g (length (mhandles s)) s' d 0.
Proof.
  intros Hnn [Hl [n [Hn [Hd [Hdir Hmt]]]]]. rewrite m_step_tick. cbn [m_step_raw]. unfold m_openfile. rewrite Hnn, Hl.
  change (flag_has o_rdwr o_excl) with false. change (flag_has o_rdwr o_trunc) with false.
  change (flag_has o_rdwr o_append) with false. change (Z.land o_rdwr memfs_access_mask =? 0) with false.
  cbn [andb negb alloc_handle fst snd]. eexists. split; [reflexivity|]. split.
  - split; [exact Hl|]. exists n. now repeat split.
  - unfold tick. cbn [mhandles]. apply nth_error_app_last.
Qed.

(* Write at any offset inside the file *)
Lemma layer_write_at lh s d a b : LI nn g lh s d a -> 0 <= a -> 0 < zlen b ->
  exists s', m_step s (HWrite lh b) = (s', RCount (zlen b) None) /\ LI nn g lh s' (go_write d b a) (a + zlen b).
Proof.
  intros [[Hl [n [Hn [Hd [Hdir _]]]]] Hh] Ha Hb. rewrite m_step_tick. cbn [m_step_raw]. unfold m_hop. rewrite Hh. cbn [href]. rewrite Hn.
  unfold f_write. cbn [hclosed hro hat]. rewrite Hd.
  assert (E1 : zlen b =? 0 = false) by (apply Z.eqb_neq; lia). rewrite E1.
  assert (E2 : a <? 0 = false) by (apply Z.ltb_ge; lia). rewrite E2.
  cbn [fst snd]. eexists. split; [reflexivity|]. unfold put_data.
  assert (Hn' : get_node (set_handle s lh (set_at (mkH g a 0 false false) (a + zlen b))) g = Some n) by exact Hn.
  rewrite (upd_node_some _ _ _ _ Hn'). split; [split|].
  - exact Hl.
  - eexists. split; [unfold tick, get_node; cbn [mheap]; apply (get_node_set_node_eq _ _ _ _ Hn')|]. cbn. now repeat split.
  - unfold tick, set_node, set_handle. cbn [mhandles set_at href hrdc hclosed hro].
    apply nth_error_list_set_eq. now apply nth_error_lt in Hh.
Qed.

(* Open (read-only) of the regular file, then Read of its whole size *)
Lemma layer_open_ro s d mt name : normalize_path name = nn -> LF nn g s d mt ->
  exists s', m_step s (Open name) = (s', RHandle (length (mhandles s))) /\ LF nn g s' d mt /\
    nth_error (mhandles s') (length (mhandles s)) = Some (mkH g 0 0 false true).
Proof.
  intros Hnn [Hl [n [Hn Hrest]]]. rewrite m_step_tick. cbn [m_step_raw]. unfold m_open. rewrite Hnn, Hl.
  cbn [alloc_handle fst snd]. eexists. split; [reflexivity|]. split.
  - split; [exact Hl|]. exists n. split; [exact Hn | exact Hrest].
  - unfold tick. cbn [mhandles]. apply nth_error_app_last.
Qed.

Lemma layer_read_all s d mt h : LF nn g s d mt -> nth_error (mhandles s) h = Some (mkH g 0 0 false true) -> 0 < zlen d ->
  snd (m_step s (HRead h (zlen d))) = RData d None.
Proof.
  intros [Hl [n [Hn [Hd _]]]] Hh Hz. rewrite m_step_tick. cbn [m_step_raw snd]. unfold m_hop. rewrite Hh. cbn [href]. rewrite Hn.
  unfold f_read. cbn [hclosed hat]. rewrite Hd.
  assert (E1 : (0 <? zlen d) && (0 =? zlen d) = false) by (apply andb_false_iff; right; apply Z.eqb_neq; lia). rewrite E1.
  assert (E2 : zlen d <? 0 = false) by (apply Z.ltb_ge; lia). rewrite E2. cbn [Z.ltb Z.compare].
  rewrite Z.sub_0_r, Z.leb_refl. cbn [snd]. f_equal. unfold slice. cbn [Z.add Z.to_nat skipn].
  rewrite Z.sub_0_r. unfold zlen. rewrite Nat2Z.id. apply firstn_all.
Qed.
End LayerMore.

(* overwriting a prefix keeps every other byte *)
Lemma go_write_prefix data b : 0 < zlen b <= zlen data -> go_write data b 0 = b ++ skipn (Z.to_nat (zlen b)) data.
Proof.
  intros Hb. unfold go_write. cbn [Z.to_nat firstn app].
  assert (E0 : 0 <? 0 - zlen data = false) by (apply Z.ltb_ge; unfold zlen; lia). rewrite E0. rewrite Z.add_0_r.
  destruct (zlen b <? zlen data) eqn:E; [reflexivity|]. apply Z.ltb_ge in E.
  assert (zlen b = zlen data) by lia. rewrite skipn_all2; [reflexivity|]. unfold zlen in *. lia.
Qed.

Lemma run_steps_cons {St} (step : St -> op -> St * res) s o r :
  run_steps step s (o :: r) = let '(s1, x) := step s o in let '(s2, xs) := run_steps step s1 r in (s2, x :: xs).
Proof. reflexivity. Qed.

Section CowMem.
Notation cowmm := (cow_step m_step m_step).

Lemma copy_up_ready_absent s name : copy_up_ready s name -> lookup s (normalize_path name) = None.
Proof. intros [[_ [H _]] | [_ [_ [_ [H _]]]]]; exact H. Qed.

(* OpenFile(O_RDWR) through the union on a file only the base has: the file is copied up with all
   its bytes and its mtime, the returned handle is a writable overlay handle at offset 0 *)
Theorem cow_mem_open_rdwr_copies_up sb sl tbl name perm f nd :
  let nn := normalize_path name in
  lookup sb nn = Some f -> get_node sb f = Some nd -> ndir nd = false ->
  copy_up_ready sl name ->
  exists sb' sl' lh g, cowmm (sb, sl, tbl) (OpenFile name o_rdwr perm) = ((sb', sl', tbl ++ [HL lh]), RHandle (length tbl)) /\
    fs_view sb' = fs_view sb /\ LI nn g lh sl' (ndata nd) 0.
Proof.
  intros nn Hbl Hbn Hbd Hready. cbn [cow_step]. unfold cow_openfile.
  rewrite (is_base_file_base_only m_step m_step sb sl name (tick sl) (RErr (EW KNotExist)) (tick sb) (finfo_of nd));
    [| apply stat_missing; now apply copy_up_ready_absent | reflexivity | exact (layer_stat_ok sb name f nd Hbl Hbn)].
  change (negb (Z.land o_rdwr cow_mask =? 0)) with true. cbv iota.
  destruct (copy_up_mem (tick sb) (tick sl) name f nd Hbl Hbn Hbd (copy_up_ready_tick _ _ Hready)) as [sb' [sl' [g [Ec [Hv Hlf]]]]].
  rewrite Ec. unfold open_layer.
  destruct (layer_openfile_rdwr nn g sl' _ _ name perm eq_refl Hlf) as [sl2 [Eo Hli]].
  rewrite Eo. cbn [alloc_ch ret]. exists sb', sl2, (length (mhandles sl')), g. split; [reflexivity|]. split; [exact Hv | exact Hli].
Qed.

(* the whole story: write b over the beginning of a base-only file through the union, close,
   reopen through the union and read: the new bytes followed by ALL the old remaining bytes;
   the base still holds what it held *)
Theorem cow_mem_partial_write_read_back sb sl tbl name perm f nd b :
  let nn := normalize_path name in
  lookup sb nn = Some f -> get_node sb f = Some nd -> ndir nd = false ->
  copy_up_ready sl name ->
  0 < zlen b <= zlen (ndata nd) ->
  let i := length tbl in
  let result := b ++ skipn (Z.to_nat (zlen b)) (ndata nd) in
  let '(st, rs) := run_steps cowmm (sb, sl, tbl)
      [OpenFile name o_rdwr perm; HWrite i b; HClose i; Stat name; Open name; HRead (S i) (zlen (ndata nd))] in
  (exists fi, rs = [RHandle i; RCount (zlen b) None; ROk; RInfo fi; RHandle (S i); RData result None] /\
              fi_dir fi = false /\ fi_size fi = zlen (ndata nd)) /\
  fs_view (fst (fst st)) = fs_view sb /\
  exists g, LF nn g (snd (fst st)) result None.
Proof.
  intros nn Hbl Hbn Hbd Hready Hb i result.
  destruct (cow_mem_open_rdwr_copies_up sb sl tbl name perm f nd Hbl Hbn Hbd Hready)
    as [sb1 [sl1 [lh [g [E1 [Hv1 Hl1]]]]]]. fold nn in Hl1.
  set (tbl1 := tbl ++ [HL lh]).
  assert (Hi : nth_error tbl1 i = Some (HL lh)) by apply nth_error_app_last.
  (* Write *)
  destruct (layer_write_at nn g lh sl1 _ 0 b Hl1 ltac:(lia) ltac:(lia)) as [sl2 [E2 Hl2]].
  rewrite (go_write_prefix _ _ Hb) in Hl2. fold result in Hl2.
  pose proof (cow_overlay_handle_transparent m_step m_step sb1 sl1 tbl1 (HWrite i b) i lh eq_refl Hi) as C2.
  cbn [op_set_handle] in C2. rewrite E2 in C2. cbn [fst snd] in C2.
  (* Close *)
  destruct (layer_close nn g lh sl2 _ _ Hl2) as [sl3 [E3 Hl3]].
  pose proof (cow_overlay_handle_transparent m_step m_step sb1 sl2 tbl1 (HClose i) i lh eq_refl Hi) as C3.
  cbn [op_set_handle] in C3. rewrite E3 in C3. cbn [fst snd] in C3.
  (* Stat *)
  destruct (LF_stat_ok nn g sl3 _ _ name eq_refl Hl3) as [fi [E4 Hfd]].
  pose proof (cow_stat_overlay m_step m_step sb1 sl3 tbl1 name _ fi E4) as C4.
  assert (Hfs : fi_size fi = zlen (ndata nd)).
  { destruct Hl3 as [Hl [n [Hn [Hd [Hdir _]]]]]. rewrite (layer_stat_ok sl3 name g n Hl Hn) in E4.
    inversion E4. unfold finfo_of. rewrite Hdir, Hd. cbn [fi_size]. unfold result, zlen. rewrite app_length, skipn_length.
    unfold zlen in Hb. lia. }
  (* Open: the overlay has a regular file *)
  pose proof (LF_tick nn g sl3 _ _ Hl3) as Hl4.
  destruct (LF_stat_ok nn g (tick sl3) _ _ name eq_refl Hl4) as [fi5 [E5 Hfd5]].
  destruct (LF_stat_ok nn g (tick (tick sl3)) _ _ name eq_refl (LF_tick _ _ _ _ _ Hl4)) as [fi6 [E6 Hfd6]].
  pose proof (cow_open_overlay_file m_step m_step sb1 (tick sl3) tbl1 name _ fi5 _ fi6 E5 E6 Hfd6) as C5.
  destruct (layer_open_ro nn g (tick (tick (tick sl3))) _ _ name eq_refl (LF_tick _ _ _ _ _ (LF_tick _ _ _ _ _ Hl4))) as [sl7 [E7 [Hl7 Hh7]]].
  unfold open_layer in C5. rewrite E7 in C5. cbn [alloc_ch ret] in C5.
  set (h7 := length (mhandles (tick (tick (tick sl3))))) in *.
  set (tbl2 := tbl1 ++ [HL h7]) in *.
  assert (Hlen : length tbl1 = S i) by (unfold tbl1, i; rewrite app_length; cbn; lia).
  assert (Hi2 : nth_error tbl2 (S i) = Some (HL h7)) by (rewrite <- Hlen; apply nth_error_app_last).
  (* Read *)
  pose proof (cow_overlay_handle_transparent m_step m_step sb1 sl7 tbl2 (HRead (S i) (zlen (ndata nd))) (S i) h7 eq_refl Hi2) as C6.
  cbn [op_set_handle] in C6.
  assert (Hzr : zlen result = zlen (ndata nd)).
  { unfold result, zlen. rewrite app_length, skipn_length. unfold zlen in Hb. lia. }
  pose proof (layer_read_all nn g sl7 result None h7 Hl7 Hh7 ltac:(lia)) as R6. rewrite Hzr in R6.
  (* assemble *)
  rewrite run_steps_cons, E1. cbv beta iota. fold tbl1. fold i.
  rewrite run_steps_cons, C2. cbv beta iota.
  rewrite run_steps_cons, C3. cbv beta iota.
  rewrite run_steps_cons, C4. cbv beta iota.
  rewrite run_steps_cons, C5. unfold ret. cbv beta iota. rewrite Hlen.
  rewrite run_steps_cons, C6, R6. cbv beta iota. cbn [run_steps fst snd].
  split; [exists fi; now repeat split|]. split; [exact Hv1|].
  (* the last Read only moved the handle *)
  destruct Hl7 as [Hl [n [Hn Hrest]]]. rewrite m_step_tick. cbn [m_step_raw fst]. unfold m_hop. rewrite Hh7. cbn [href]. rewrite Hn.
  destruct (f_read (ndata n) _ _) as [h' r']. cbn [fst]. exists g. split; [exact Hl|]. exists n. split; [exact Hn | exact Hrest].
Qed.
End CowMem.

(* the predicates used in the statements, spelled out *)
Lemma copy_up_ready_meaning s name :
  copy_up_ready s name <->
  let dk := normalize_path (copy_dir name) in
  let nn := normalize_path name in
  ((exists d dn, lookup s dk = Some d /\ get_node s d = Some dn) /\
   lookup s nn = None /\ parent_key nn <> nn /\
   exists pp pn, lookup s (parent_key nn) = Some pp /\ get_node s pp = Some pn /\ ndir pn = true)
  \/
  (lookup s dk = None /\ parent_key dk <> dk /\
   (exists pp pn, lookup s (parent_key dk) = Some pp /\ get_node s pp = Some pn /\ ndir pn = true) /\
   lookup s nn = None /\ parent_key nn = dk /\ dk <> nn).
Proof. reflexivity. Qed.

Lemma LF_meaning nn g s d mt :
  LF nn g s d mt <->
  lookup s nn = Some g /\
  exists n, get_node s g = Some n /\ ndata n = d /\ ndir n = false /\
            match mt with Some t => nmtime n = t | None => True end.
Proof. reflexivity. Qed.
