(* Proofs/CowProof.v — C05: CopyOnWriteFs never changes its base.
   Everything here is over two ARBITRARY inner filesystems (step functions bstep / lstep):
   every call cow_step (and uf_op, copy_file, copy_to_layer, ...) hands to the base step
   function is one a ReadOnlyFs would forward (ro_passes).  Phrased as: any predicate on base
   states that is preserved by all ro_passes calls is preserved by cow_step, for every op,
   every integer flag, every handle table. *)
From AF Require Import Lib.Bytes Lib.Path Lib.Ops Gen.Consts Model.MemFile Model.MemFs Model.ReadOnly
  Model.Union Model.Cow Proofs.MemFsBasics Proofs.ReadOnlyProof.
Local Open Scope Z_scope.

(* ---- the weakest facts about the source constants the C05 proofs need ---- *)
(* the copy-on-write mask contains every bit of the ReadOnlyFs mask: an OpenFile that
   CopyOnWriteFs sends to the base (flag & cow_mask = 0) is one ReadOnlyFs would forward *)
Lemma cow_mask_covers_readonly_mask : Z.land cow_mask readonly_mask = readonly_mask.
Proof. reflexivity. Qed.

Lemma cow_readonly_flag flag : Z.land flag cow_mask = 0 -> Z.land flag readonly_mask = 0.
Proof. apply land_sub. exact cow_mask_covers_readonly_mask. Qed.

Notation cbase st := (fst (fst st)) (only parsing).
Notation clayer st := (snd (fst st)) (only parsing).
Notation ctbl st := (snd st) (only parsing).

Lemma ro_passes_set_handle o h : op_handle_of o <> None -> ro_passes (op_set_handle o h) = true.
Proof. destruct o; cbn; try reflexivity; intros H; now contradiction H. Qed.

Section BaseCalls.
Context {B L : Type} (bstep : B -> op -> B * res) (lstep : L -> op -> L * res).
Variable P : B -> Prop.
Hypothesis HP : forall s o, ro_passes o = true -> P s -> P (fst (bstep s o)).

Lemma HP' s o s1 r : ro_passes o = true -> P s -> bstep s o = (s1, r) -> P s1.
Proof. intros Hr Hs E. pose proof (HP s o Hr Hs) as H. rewrite E in H. exact H. Qed.

(* destruct the next base call in the goal, recording P of the new base state *)
Ltac bcall :=
  match goal with
  | Hs : P ?s |- context [bstep ?s ?o] =>
    let s1 := fresh "sb" in let r := fresh "rb" in let E := fresh "Eb" in let H := fresh "HPb" in
    destruct (bstep s o) as [s1 r] eqn:E;
    assert (H : P s1) by (refine (HP' s o s1 r _ Hs E); first [reflexivity | assumption]);
    cbn [fst snd] in *
  end.
Ltac lcall :=
  match goal with
  | |- context [lstep ?s ?o] =>
    let s1 := fresh "sl" in let r := fresh "rl" in let E := fresh "El" in
    destruct (lstep s o) as [s1 r] eqn:E; cbn [fst snd] in *
  end.
Ltac brk :=
  match goal with
  | |- context [match ?x with _ => _ end] =>
    lazymatch x with
    | context [bstep] => fail
    | context [lstep] => fail
    | context [match _ with _ => _ end] => fail
    | _ => destruct x eqn:?
    end
  end.
Ltac auto_P := repeat (cbn [fst snd ret]; first [assumption | bcall | lcall | brk]).
Ltac done := cbn [fst snd ret]; assumption.

Lemma is_base_file_P sb sl name : P sb -> P (fst (fst (fst (is_base_file bstep lstep sb sl name)))).
Proof.
  intros Hs. unfold is_base_file. lcall. destruct rl; cbn [fst]; try assumption;
    bcall; destruct rb; cbn [fst]; try assumption;
    match goal with |- context [if ?c then _ else _] => destruct c end; cbn [fst]; assumption.
Qed.

Lemma b_is_dir_P sb p : P sb -> P (fst (b_is_dir bstep sb p)).
Proof. intros Hs. unfold b_is_dir. bcall. destruct rb; cbn [fst]; assumption. Qed.

Lemma open_base_P sb (sl : L) tbl o : ro_passes o = true -> P sb -> P (cbase (fst (open_base bstep sb sl tbl o))).
Proof. intros Hr Hs. unfold open_base. bcall. destruct rb; done. Qed.

Lemma open_layer_P sb sl tbl o : P sb -> P (cbase (fst (open_layer lstep sb sl tbl o))).
Proof. intros Hs. unfold open_layer. lcall. destruct rl; done. Qed.

Lemma io_copy_P fuel : forall sb sl bh lh w, P sb ->
  P (fst (fst (fst (io_copy bstep lstep fuel sb sl bh lh w)))).
Proof.
  induction fuel as [|f IH]; intros sb sl bh lh w Hs; cbn [io_copy]; [exact Hs|].
  bcall. destruct rb; cbn [fst]; try assumption.
  match goal with |- P (fst (fst (fst (match ?x with pair _ _ => _ end)))) => destruct x as [[sl1 w1] werr] end.
  destruct werr; cbn [fst]; [assumption|]. destruct e; cbn [fst]; [assumption|]. now apply IH.
Qed.

Lemma copy_file_P sb sl name bh : P sb -> P (fst (fst (copy_file bstep lstep sb sl name bh))).
Proof.
  intros Hs. unfold copy_file, copy_file_gen. cbv zeta.
  destruct (l_exists lstep sl (copy_dir name)) as [sl0 ex]. destruct ex as [ex|e]; [|exact Hs].
  match goal with |- P (fst (fst (match ?x with pair _ _ => _ end))) => destruct x as [sl1 mk] end.
  destruct mk; [exact Hs|].
  lcall. destruct rl; cbn [fst]; try assumption.
  bcall.
  match goal with |- context [io_copy bstep lstep ?f ?s ?l ?b ?h ?w] =>
    pose proof (io_copy_P f s l b h w HPb) as Hio; destruct (io_copy bstep lstep f s l b h w) as [[[sb2 sl3] n] cerr] end.
  cbn [fst] in Hio. destruct cerr; [exact Hio|].
  bcall. destruct rb0; cbn [fst]; try assumption.
  destruct (negb (fi_size fi =? n)); [assumption|].
  lcall. destruct rl; cbn [fst]; try assumption.
  lcall. destruct rl; cbn [fst]; assumption.
Qed.

Lemma copy_to_layer_with_P sb sl name open_op : ro_passes open_op = true -> P sb ->
  P (fst (fst (copy_to_layer_with bstep lstep sb sl name open_op))).
Proof.
  intros Hr Hs. unfold copy_to_layer_with. bcall. destruct rb; cbn [fst]; try assumption.
  pose proof (copy_file_P sb0 sl name h HPb) as Hc.
  destruct (copy_file bstep lstep sb0 sl name h) as [[sb2 sl1] e]. cbn [fst] in *.
  now apply HP.
Qed.

Lemma copy_to_layer_P sb sl name : P sb -> P (fst (fst (copy_to_layer bstep lstep sb sl name))).
Proof. apply copy_to_layer_with_P. reflexivity. Qed.

(* every method of a UnionFile *)
Lemma uf_op_P sb sl u o : P sb -> P (fst (fst (fst (uf_op bstep lstep sb sl u o)))).
Proof.
  intros Hs. destruct o; try exact Hs; cbn [uf_op op_set_handle]; auto_P.
Qed.

Lemma cow_meta_P sb sl tbl name o : P sb -> P (cbase (fst (cow_meta bstep lstep sb sl tbl name o))).
Proof.
  intros Hs. unfold cow_meta.
  pose proof (is_base_file_P sb sl name Hs) as Hi.
  destruct (is_base_file bstep lstep sb sl name) as [[[sb1 sl1] b] e]. cbn [fst] in Hi.
  destruct e; [done|]. destruct b.
  - pose proof (copy_to_layer_P sb1 sl1 name Hi) as Hc.
    destruct (copy_to_layer bstep lstep sb1 sl1 name) as [[sb2 sl2] ce]. cbn [fst] in Hc.
    destruct ce; [done|]. lcall. done.
  - lcall. done.
Qed.

Lemma cow_openfile_P sb sl tbl name flag perm : P sb ->
  P (cbase (fst (cow_openfile bstep lstep sb sl tbl name flag perm))).
Proof.
  intros Hs. unfold cow_openfile.
  pose proof (is_base_file_P sb sl name Hs) as Hi.
  destruct (is_base_file bstep lstep sb sl name) as [[[sb1 sl1] b] e]. cbn [fst] in Hi.
  destruct e; [done|].
  destruct (Z.land flag cow_mask =? 0) eqn:Hm; cbn [negb].
  - (* no write-ish bit: the base is opened with the caller's flags, which ReadOnlyFs would forward *)
    destruct b; [|now apply open_layer_P].
    apply open_base_P; [|exact Hi]. cbn [ro_passes]. apply Z.eqb_eq, cow_readonly_flag, Z.eqb_eq, Hm.
  - destruct b.
    + pose proof (copy_to_layer_P sb1 sl1 name Hi) as Hc.
      destruct (copy_to_layer bstep lstep sb1 sl1 name) as [[sb2 sl2] ce]. cbn [fst] in Hc.
      destruct ce; [done|]. now apply open_layer_P.
    + pose proof (b_is_dir_P sb1 (path_dir name) Hi) as Hd.
      destruct (b_is_dir bstep sb1 (path_dir name)) as [sb2 d]. cbn [fst] in Hd.
      destruct d as [[|]|er].
      * lcall. destruct rl; try done. now apply open_layer_P.
      * destruct (l_is_dir lstep sl1 (path_dir name)) as [sl2 [[|]|er2]]; try done. now apply open_layer_P.
      * destruct (negb (is_not_exist er)); [done|].
        destruct (l_is_dir lstep sl1 (path_dir name)) as [sl2 [[|]|er2]]; try done. now apply open_layer_P.
Qed.

Lemma cow_open_P sb sl tbl name : P sb -> P (cbase (fst (cow_open bstep lstep sb sl tbl name))).
Proof.
  intros Hs. unfold cow_open.
  pose proof (is_base_file_P sb sl name Hs) as Hi.
  destruct (is_base_file bstep lstep sb sl name) as [[[sb1 sl1] b] e]. cbn [fst] in Hi.
  destruct e; [done|]. destruct b; [now apply open_base_P|].
  destruct (l_is_dir lstep sl1 name) as [sl2 [[|]|er]]; try done; [|now apply open_layer_P].
  pose proof (b_is_dir_P sb1 name Hi) as Hd.
  destruct (b_is_dir bstep sb1 name) as [sb2 d]. cbn [fst] in Hd.
  destruct d as [[|]|er]; try now apply open_layer_P.
  bcall. lcall. destruct rb; try done. destruct rl; done.
Qed.

Theorem cow_step_P st o : P (cbase st) -> P (cbase (fst (cow_step bstep lstep st o))).
Proof.
  destruct st as [[sb sl] tbl]. cbn [fst]. intros Hs.
  assert (Hh : forall o', op_handle_of o' <> None ->
    P (cbase (fst (match op_handle_of o' with
      | None => ret sb sl tbl RNoSlot
      | Some i => match nth_error tbl i with
        | None => ret sb sl tbl RNoSlot
        | Some (HB h) => let '(sb1, r) := bstep sb (op_set_handle o' h) in ret sb1 sl tbl r
        | Some (HL h) => let '(sl1, r) := lstep sl (op_set_handle o' h) in ret sb sl1 tbl r
        | Some (HU u) => let '(sb1, sl1, u1, r) := uf_op bstep lstep sb sl u o' in
                         ret sb1 sl1 (list_set i (HU u1) tbl) r
        end end)))).
  { intros o' Ho.
    assert (Hr : forall h, ro_passes (op_set_handle o' h) = true) by (intros h; now apply ro_passes_set_handle).
    destruct (op_handle_of o') as [i|] eqn:Ei; [|done].
    destruct (nth_error tbl i) as [[h|h|u]|]; try done.
    - destruct (bstep sb (op_set_handle o' h)) as [sb1 r] eqn:E.
      cbn [fst ret]. exact (HP' _ _ _ _ (Hr h) Hs E).
    - lcall. done.
    - pose proof (uf_op_P sb sl u o' Hs) as Hu.
      destruct (uf_op bstep lstep sb sl u o') as [[[sb1 sl1] u1] r]. exact Hu. }
  destruct o; cbn [cow_step];
    try (apply Hh; cbn [op_handle_of]; discriminate).
  - (* Create *) now apply cow_openfile_P.
  - (* Mkdir: (cow_mkdir_checks_union = 1) overlay Stat, then base Stat — a call ReadOnlyFs forwards —
       then the overlay's MkdirAll; otherwise the old base IsDir probe.  Both branches are covered. *)
    destruct (cow_mkdir_checks_union =? 1).
    + lcall. destruct rl; try done;
        (destruct (cow_is_not_exist _); [bcall; destruct rb|]; cbn iota; try lcall; done).
    + pose proof (b_is_dir_P sb p Hs) as Hd. destruct (b_is_dir bstep sb p) as [sb1 [[|]|er]]; cbn [fst] in Hd;
        try lcall; done.
  - (* MkdirAll *)
    pose proof (b_is_dir_P sb p Hs) as Hd. destruct (b_is_dir bstep sb p) as [sb1 [[|]|er]]; cbn [fst] in Hd;
      try lcall; done.
  - (* Open *) now apply cow_open_P.
  - (* OpenFile *) now apply cow_openfile_P.
  - (* Remove *)
    lcall. destruct rl; try done. destruct (_ && _); [|done]. bcall. destruct rb; done.
  - (* RemoveAll *)
    lcall. destruct rl; try done. destruct (_ && _); [|done]. bcall. destruct rb; done.
  - (* Rename *)
    pose proof (is_base_file_P sb sl p Hs) as Hi.
    destruct (is_base_file bstep lstep sb sl p) as [[[sb1 sl1] b] e]. cbn [fst] in Hi.
    destruct e; [done|]. destruct b; [done|]. lcall. done.
  - (* Stat *)
    lcall. destruct rl; try done; (destruct (cow_is_not_exist _); [bcall|]; done).
  - (* Chmod *) now apply cow_meta_P.
  - (* Chown *) now apply cow_meta_P.
  - (* Chtimes *) now apply cow_meta_P.
Qed.

Theorem cow_run_P : forall ops st, P (cbase st) -> P (cbase (fst (run_steps (cow_step bstep lstep) st ops))).
Proof.
  induction ops as [|o ops IH]; intros st Hs; cbn [run_steps]; [exact Hs|].
  pose proof (cow_step_P st o Hs) as H1. destruct (cow_step bstep lstep st o) as [st1 x]. cbn [fst] in H1.
  specialize (IH st1 H1). destruct (run_steps (cow_step bstep lstep) st1 ops) as [st2 xs]. exact IH.
Qed.
End BaseCalls.

(* ---- the base only ever sees a sequence of calls a ReadOnlyFs would forward ---- *)
Lemma run_steps_snoc {St} (step : St -> op -> St * res) ops : forall s o,
  fst (run_steps step s (ops ++ [o])) = fst (step (fst (run_steps step s ops)) o).
Proof.
  induction ops as [|a ops IH]; intros s o; cbn [run_steps app].
  - destruct (step s o) as [s1 x] eqn:E. cbn [fst]. now rewrite E.
  - destruct (step s a) as [s1 x]. specialize (IH s1 o).
    destruct (run_steps step s1 (ops ++ [o])) as [s2 xs]. destruct (run_steps step s1 ops) as [s3 ys].
    cbn [fst] in *. exact IH.
Qed.

(* sb' is reached from sb by base calls that all satisfy ro_passes *)
Definition ro_trace {B} (bstep : B -> op -> B * res) (sb sb' : B) : Prop :=
  exists ops, forallb ro_passes ops = true /\ sb' = fst (run_steps bstep sb ops).

Lemma ro_trace_refl {B} (bstep : B -> op -> B * res) sb : ro_trace bstep sb sb.
Proof. exists []. split; reflexivity. Qed.

Lemma ro_trace_step {B} (bstep : B -> op -> B * res) sb s o :
  ro_passes o = true -> ro_trace bstep sb s -> ro_trace bstep sb (fst (bstep s o)).
Proof.
  intros Hr [ops [Hf ->]]. exists (ops ++ [o]). split.
  - rewrite forallb_app, Hf. cbn. now rewrite Hr.
  - now rewrite run_steps_snoc.
Qed.

Theorem cow_step_base_trace {B L} (bstep : B -> op -> B * res) (lstep : L -> op -> L * res) st o :
  ro_trace bstep (cbase st) (cbase (fst (cow_step bstep lstep st o))).
Proof.
  apply (cow_step_P bstep lstep (ro_trace bstep (cbase st))).
  - intros s o' Hr Ht. now apply ro_trace_step.
  - apply ro_trace_refl.
Qed.

(* ---- any base satisfying the ReadOnlyFs contract K stays frozen under a CopyOnWriteFs ---- *)
Section Frozen.
Context {B L V : Type} (bstep : B -> op -> B * res) (lstep : L -> op -> L * res).
Variable view : B -> V.
Variable Inv : B -> Prop.
Hypothesis K : forall s o, ro_passes o = true -> Inv s ->
  view (fst (bstep s o)) = view s /\ Inv (fst (bstep s o)).

Theorem cow_base_frozen : forall ops sb sl tbl, Inv sb ->
  view (cbase (fst (run_steps (cow_step bstep lstep) (sb, sl, tbl) ops))) = view sb /\
  Inv (cbase (fst (run_steps (cow_step bstep lstep) (sb, sl, tbl) ops))).
Proof.
  intros ops sb sl tbl Hi.
  apply (cow_run_P bstep lstep (fun s => view s = view sb /\ Inv s)).
  - intros s o Hr [Hv Hs]. destruct (K s o Hr Hs) as [Hv' Hs']. split; [congruence | exact Hs'].
  - cbn [fst]. now split.
Qed.

(* the same for the pieces used on their own by other wrappers (CacheOnReadFs uses copy_to_layer
   and UnionFile too) *)
Theorem uf_op_base_frozen sb sl u o : Inv sb ->
  view (fst (fst (fst (uf_op bstep lstep sb sl u o)))) = view sb /\ Inv (fst (fst (fst (uf_op bstep lstep sb sl u o)))).
Proof.
  intros Hi. apply (uf_op_P bstep lstep (fun s => view s = view sb /\ Inv s)).
  - intros s o' Hr [Hv Hs]. destruct (K s o' Hr Hs) as [Hv' Hs']. split; [congruence | exact Hs'].
  - now split.
Qed.

Theorem copy_to_layer_base_frozen sb sl name : Inv sb ->
  view (fst (fst (copy_to_layer bstep lstep sb sl name))) = view sb /\ Inv (fst (fst (copy_to_layer bstep lstep sb sl name))).
Proof.
  intros Hi. apply (copy_to_layer_P bstep lstep (fun s => view s = view sb /\ Inv s)).
  - intros s o' Hr [Hv Hs]. destruct (K s o' Hr Hs) as [Hv' Hs']. split; [congruence | exact Hs'].
  - now split.
Qed.
End Frozen.

(* ---- instance: MemMapFs as the (writable) base, ANY filesystem as the overlay ---- *)
Theorem cow_mem_base_frozen {L} (lstep : L -> op -> L * res) : forall ops sb sl tbl, all_inert sb ->
  snapshot (cbase (fst (run_steps (cow_step m_step lstep) (sb, sl, tbl) ops))) = snapshot sb /\
  all_inert (cbase (fst (run_steps (cow_step m_step lstep) (sb, sl, tbl) ops))).
Proof.
  intros ops sb sl tbl Hi.
  destruct (cow_base_frozen m_step lstep fs_view all_inert memfs_contract ops sb sl tbl Hi) as [Hv Ha].
  split; [now apply snapshot_of_view | exact Ha].
Qed.

(* base = ReadOnlyFs(MemMapFs) or any other wrapper that inherits the contract *)
Theorem cow_ro_mem_base_frozen {L} (lstep : L -> op -> L * res) : forall ops sb sl tbl, all_inert sb ->
  snapshot (cbase (fst (run_steps (cow_step (ro_step m_step) lstep) (sb, sl, tbl) ops))) = snapshot sb.
Proof.
  intros ops sb sl tbl Hi. apply snapshot_of_view.
  apply (cow_base_frozen (ro_step m_step) lstep fs_view all_inert (ro_contract m_step fs_view all_inert memfs_contract) ops sb sl tbl Hi).
Qed.
