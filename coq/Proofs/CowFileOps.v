(* Proofs/CowFileOps.v — C06: the methods of a handle on a regular file of a MemMapFs layer are the
   methods of the one-file machine of C02 (mf_step) on that file's bytes, hence — by C02's
   refinement theorem — those of the flat byte array (ByteFile.bf_step).  For every state in which
   the handle refers to a regular-file node, every method, every argument. *)
From AF Require Import Lib.Bytes Lib.Path Lib.Ops Gen.Consts Model.MemFile Model.ByteFile Model.MemFs Model.CowView
  Model.WfOps Proofs.MemFileProof Proofs.MemFsBasics Proofs.MemFsWF Proofs.MemFsStep Proofs.MemFsInv Proofs.MemFsBelow Proofs.CopyUpProof.
Local Open Scope Z_scope.

Lemma f_read_href' d h n : href (fst (f_read d h n)) = href h.
Proof. unfold f_read. repeat match goal with |- context [if ?c then _ else _] => destruct c end; reflexivity. Qed.
Lemma f_readat_href' d h n off : href (fst (f_readat d h n off)) = href h.
Proof.
  unfold f_readat. destruct (off <? 0); [reflexivity|].
  pose proof (f_read_href' d (set_at h off) n) as E. destruct (f_read d (set_at h off) n) as [h1 r]. cbn [fst] in E.
  destruct r as [| | | | | |b e| | | | |]; try exact E. destruct e; [exact E|]. destruct (zlen b <? n); exact E.
Qed.
Lemma f_write_href' d h b : href (snd (fst (f_write d h b))) = href h.
Proof. unfold f_write. repeat match goal with |- context [if ?c then _ else _] => destruct c end; reflexivity. Qed.
Lemma f_writeat_href' d h b off : href (snd (fst (f_writeat d h b off))) = href h.
Proof.
  unfold f_writeat. destruct (off <? 0); [reflexivity|].
  pose proof (f_write_href' d (set_at h off) b) as E. destruct (f_write d (set_at h off) b) as [[d1 h1] r]. exact E.
Qed.
Lemma f_seek_href' d h off wh : href (fst (f_seek d h off wh)) = href h.
Proof. unfold f_seek. repeat match goal with |- context [if ?c then _ else _] => destruct c end; reflexivity. Qed.

(* the state of a layer around one open handle lh on the regular-file node g *)
Record FH (g lh : nat) (s : mst) (d : bytes) (h : hnd) : Prop := mkFH {
  fh_handle : nth_error (mhandles s) lh = Some h;
  fh_ref : href h = g;
  fh_node : exists n, get_node s g = Some n /\ ndata n = d /\ ndir n = false
}.

(* what a handle method may change in the layer: the handle itself and the bytes / mtime of its node *)
Record hop_frame (g lh : nat) (s s' : mst) : Prop := mkHF {
  hf_data : mdata s' = mdata s;
  hf_nodes : forall r, r <> g -> get_node s' r = get_node s r;
  hf_node : forall n, get_node s g = Some n -> exists n', get_node s' g = Some n' /\ ndir n' = ndir n /\ nname n' = nname n /\ nkids n' = nkids n /\ nhasdir n' = nhasdir n;
  hf_handles : forall j, j <> lh -> nth_error (mhandles s') j = nth_error (mhandles s) j
}.

Lemma hop_frame_tick g lh s s' : hop_frame g lh s s' -> hop_frame g lh s (tick s').
Proof. intros [H1 H2 H3 H4]. split; assumption. Qed.

Lemma hop_frame_set_handle g lh s h : hop_frame g lh s (set_handle s lh h).
Proof.
  split; try reflexivity.
  - intros n Hn. exists n. auto.
  - intros j Hj. cbn [set_handle mhandles]. apply nth_list_set_other. congruence.
Qed.

Lemma hop_frame_put_data g lh s h d : hop_frame g lh s (put_data (set_handle s lh h) g d).
Proof.
  destruct d as [d|]; [|apply hop_frame_set_handle]. cbn [put_data].
  set (s1 := set_handle s lh h). set (f := fun n => with_mtime (mclock s1) (with_data d n)).
  split.
  - now rewrite mdata_upd.
  - intros r Hr. rewrite get_upd_other by congruence. reflexivity.
  - intros n Hn. exists (f n). split; [apply get_upd_same; exact Hn | now repeat split].
  - intros j Hj. rewrite mhandles_upd. unfold s1. cbn [set_handle mhandles]. apply nth_list_set_other. congruence.
Qed.

Lemma FH_set_handle g lh s d h h' : FH g lh s d h -> href h' = g -> FH g lh (set_handle s lh h') d h'.
Proof.
  intros [Hh Hr Hn] Hr'. split; [|exact Hr'|exact Hn].
  cbn [set_handle mhandles]. apply nth_list_set_same. apply nth_error_Some. congruence.
Qed.

Lemma FH_put_data g lh s d h h' dd : FH g lh s d h -> href h' = g ->
  FH g lh (put_data (set_handle s lh h') g dd) (match dd with Some x => x | None => d end) h'.
Proof.
  intros F Hr'. pose proof (FH_set_handle g lh s d h h' F Hr') as [Hh Hr Hn]. destruct dd as [x|]; [|split; assumption].
  cbn [put_data]. destruct Hn as (n & Hn & Hd & Hdir). split.
  - now rewrite mhandles_upd.
  - exact Hr.
  - eexists. split; [apply get_upd_same; exact Hn|]. cbn. now split.
Qed.

Lemma FH_tick g lh s d h : FH g lh s d h -> FH g lh (tick s) d h.
Proof. intros [H1 H2 H3]. split; assumption. Qed.

Lemma list_set_one {A} (a b : A) : list_set 0 b [a] = [b].
Proof. reflexivity. Qed.

(* one method: the layer and the one-file machine take the same step *)
Theorem m_step_file_op g lh s d h o :
  FH g lh s d h -> op_handle_of o = Some lh -> file_op o = true ->
  exists s' r d' h' r',
    m_step s o = (s', r) /\
    mf_step (mkFS d [h]) (op_set_handle o 0) = (mkFS d' [h'], r') /\
    proj o r = proj (op_set_handle o 0) r' /\
    FH g lh s' d' h' /\ hop_frame g lh s s'.
Proof.
  intros F Ho Hf. pose proof F as [Hh Hr (n & Hn & Hd & Hdir)]. subst g.
  destruct o; try discriminate Hf; cbn [op_handle_of] in Ho; inversion Ho; subst; clear Ho;
    rewrite m_step_tick; cbn [m_step_raw op_set_handle]; unfold m_hop, mf_step; rewrite Hh, Hn;
    cbn [fhandles fdata nth_error].
  - (* Read *)
    pose proof (f_read_href' (ndata n) h n0) as Er. destruct (f_read (ndata n) h n0) as [h' r]. cbn [fst snd] in *.
    do 5 eexists. split; [reflexivity|]. split; [unfold upd_h; cbn [fdata fhandles list_set]; reflexivity|].
    split; [reflexivity|]. split; [apply FH_tick; now apply (FH_set_handle _ _ _ _ h) | apply hop_frame_tick, hop_frame_set_handle].
  - (* ReadAt *)
    pose proof (f_readat_href' (ndata n) h n0 off) as Er. destruct (f_readat (ndata n) h n0 off) as [h' r]. cbn [fst snd] in *.
    do 5 eexists. split; [reflexivity|]. split; [unfold upd_h; cbn [fdata fhandles list_set]; reflexivity|].
    split; [reflexivity|]. split; [apply FH_tick; now apply (FH_set_handle _ _ _ _ h) | apply hop_frame_tick, hop_frame_set_handle].
  - (* Write *)
    pose proof (f_write_href' (ndata n) h b) as Er. destruct (f_write (ndata n) h b) as [[dd h'] r]. cbn [fst snd] in *.
    do 5 eexists. split; [reflexivity|]. split; [rewrite upd_d_dflt; unfold upd_h; cbn [fdata fhandles list_set]; reflexivity|].
    split; [reflexivity|]. split; [apply FH_tick; unfold dflt; now apply (FH_put_data _ _ _ _ h) | apply hop_frame_tick, hop_frame_put_data].
  - (* WriteAt *)
    pose proof (f_writeat_href' (ndata n) h b off) as Er. destruct (f_writeat (ndata n) h b off) as [[dd h'] r]. cbn [fst snd] in *.
    do 5 eexists. split; [reflexivity|]. split; [rewrite upd_d_dflt; unfold upd_h; cbn [fdata fhandles list_set]; reflexivity|].
    split; [reflexivity|]. split; [apply FH_tick; unfold dflt; now apply (FH_put_data _ _ _ _ h) | apply hop_frame_tick, hop_frame_put_data].
  - (* WriteString *)
    pose proof (f_write_href' (ndata n) h b) as Er. destruct (f_write (ndata n) h b) as [[dd h'] r]. cbn [fst snd] in *.
    do 5 eexists. split; [reflexivity|]. split; [rewrite upd_d_dflt; unfold upd_h; cbn [fdata fhandles list_set]; reflexivity|].
    split; [reflexivity|]. split; [apply FH_tick; unfold dflt; now apply (FH_put_data _ _ _ _ h) | apply hop_frame_tick, hop_frame_put_data].
  - (* Seek *)
    pose proof (f_seek_href' (ndata n) h off whence) as Er. destruct (f_seek (ndata n) h off whence) as [h' r]. cbn [fst snd] in *.
    do 5 eexists. split; [reflexivity|]. split; [unfold upd_h; cbn [fdata fhandles list_set]; reflexivity|].
    split; [reflexivity|]. split; [apply FH_tick; now apply (FH_set_handle _ _ _ _ h) | apply hop_frame_tick, hop_frame_set_handle].
  - (* Truncate *)
    destruct (f_truncate (ndata n) h n0) as [dd r]. cbn [fst snd] in *.
    do 5 eexists. split; [reflexivity|]. split; [rewrite upd_d_dflt; cbn [fdata fhandles]; reflexivity|].
    split; [reflexivity|]. split.
    + apply FH_tick. unfold dflt.
      replace (put_data s (href h) dd) with (put_data (set_handle s lh h) (href h) dd).
      * now apply (FH_put_data _ _ _ _ h).
      * f_equal. unfold set_handle. rewrite (MemFileProof.list_set_same _ _ _ Hh). now destruct s.
    + apply hop_frame_tick.
      replace (put_data s (href h) dd) with (put_data (set_handle s lh h) (href h) dd).
      * apply hop_frame_put_data.
      * f_equal. unfold set_handle. rewrite (MemFileProof.list_set_same _ _ _ Hh). now destruct s.
  - (* Close *)
    destruct (hclosed h) eqn:Hcl; cbn [fst snd].
    + do 5 eexists. split; [reflexivity|]. split; [reflexivity|]. split; [reflexivity|].
      split; [now apply FH_tick|]. apply hop_frame_tick.
      replace s with (set_handle s lh h) at 2; [apply hop_frame_set_handle|].
      unfold set_handle. rewrite (MemFileProof.list_set_same _ _ _ Hh). now destruct s.
    + do 5 eexists. split; [reflexivity|]. split; [unfold upd_h; cbn [fdata fhandles list_set]; reflexivity|].
      split; [reflexivity|].
      pose proof (FH_set_handle _ _ _ _ h (set_closed h) F eq_refl) as F1.
      destruct (hro h).
      * split; [now apply FH_tick | apply hop_frame_tick, hop_frame_set_handle].
      * split.
        -- apply FH_tick. destruct F1 as [G1 G2 (n1 & Hn1 & Hd1 & Hdir1)]. split; [now rewrite mhandles_upd | exact G2|].
           eexists. split; [apply get_upd_same; exact Hn1|]. cbn. now split.
        -- apply hop_frame_tick. set (s1 := set_handle s lh (set_closed h)).
           split.
           ++ now rewrite mdata_upd.
           ++ intros r Hr. rewrite get_upd_other by congruence. reflexivity.
           ++ intros n1 Hn1. exists (with_mtime (mclock s) n1). split; [apply get_upd_same; exact Hn1 | now repeat split].
           ++ intros j Hj. rewrite mhandles_upd. unfold s1. cbn [set_handle mhandles]. apply nth_list_set_other. congruence.
  - (* Stat *)
    do 5 eexists. split; [reflexivity|]. split; [reflexivity|]. cbn [fst snd].
    split; [cbn [proj finfo_of fi_size]; now rewrite Hdir|].
    split; [now apply FH_tick|]. apply hop_frame_tick.
    replace s with (set_handle s lh h) at 2; [apply hop_frame_set_handle|].
    unfold set_handle. rewrite (MemFileProof.list_set_same _ _ _ Hh). now destruct s.
  - (* Sync *)
    do 5 eexists. split; [reflexivity|]. split; [reflexivity|]. cbn [fst snd]. split; [reflexivity|].
    split; [now apply FH_tick|]. apply hop_frame_tick.
    replace s with (set_handle s lh h) at 2; [apply hop_frame_set_handle|].
    unfold set_handle. rewrite (MemFileProof.list_set_same _ _ _ Hh). now destruct s.
Qed.

Lemma hop_frame_refl g lh s : hop_frame g lh s s.
Proof. split; try reflexivity. intros n Hn. exists n. auto. Qed.

Lemma hop_frame_trans g lh s1 s2 s3 : hop_frame g lh s1 s2 -> hop_frame g lh s2 s3 -> hop_frame g lh s1 s3.
Proof.
  intros [A1 A2 A3 A4] [B1 B2 B3 B4]. split.
  - congruence.
  - intros r Hr. rewrite B2, A2; auto.
  - intros n Hn. destruct (A3 n Hn) as (n2 & Hn2 & E1 & E2 & E3 & E4). destruct (B3 n2 Hn2) as (n3 & Hn3 & F1 & F2 & F3 & F4).
    exists n3. split; [exact Hn3|]. repeat split; congruence.
  - intros j Hj. rewrite B4, A4; auto.
Qed.

(* the content view of every other name is untouched *)
Lemma hop_frame_cview g lh s s' nn : WF s -> lookup s nn = Some g -> hop_frame g lh s s' ->
  forall k, k <> nn -> cview s' k = cview s k.
Proof.
  intros W Hl [A1 A2 _ _] k Hk. unfold cview, lookup. rewrite A1. fold (lookup s k).
  destruct (lookup s k) as [r|] eqn:Hr; [|reflexivity].
  rewrite A2; [reflexivity|]. intros ->. apply Hk. apply (GWF_inj _ _ _ s k nn g W); auto.
Qed.

(* ---------------- whole runs ---------------- *)
Lemma file_op_retarget o j : file_op (op_set_handle o j) = file_op o.
Proof. destruct o; reflexivity. Qed.
Lemma op_handle_retarget o i j : op_handle_of o = Some i -> op_handle_of (op_set_handle o j) = Some j.
Proof. destruct o; cbn; intros H; try discriminate H; reflexivity. Qed.
Lemma op_set_handle_twice o i j : op_set_handle (op_set_handle o i) j = op_set_handle o j.
Proof. destruct o; reflexivity. Qed.
Lemma proj_retarget o j r : proj (op_set_handle o j) r = proj o r.
Proof. destruct o; reflexivity. Qed.
Lemma file_op_wf_c02 o : file_op o = true -> MemFileProof.wf_op o = true.
Proof. destruct o; cbn; auto. Qed.
Lemma file_op_wf_c01 s o : file_op o = true -> WfOps.wf_op s o = true.
Proof. intros H. apply wf_op_of_ord. destruct o; cbn in *; auto; discriminate. Qed.

Lemma run_steps_length {St} (step : St -> op -> St * res) : forall ops s, length (snd (run_steps step s ops)) = length ops.
Proof.
  induction ops as [|o ops IH]; intros s; [reflexivity|]. cbn [run_steps]. destruct (step s o) as [s1 x].
  specialize (IH s1). destruct (run_steps step s1 ops) as [s2 xs]. cbn [snd length] in *. now rewrite IH.
Qed.

(* a run of file-handle methods on the layer against the byte-array specification *)
Theorem m_run_file_ops g lh : forall ops s d h t,
  WF s -> FH g lh s d h -> Rel (mkFS d [h]) t ->
  Forall (fun o => op_handle_of o = Some lh /\ file_op o = true) ops ->
  exists s' outs d' h',
    run_steps m_step s ops = (s', outs) /\
    proj_all ops outs = snd (bf_run t (map (fun o => op_set_handle o 0) ops)) /\
    WF s' /\ FH g lh s' d' h' /\ Rel (mkFS d' [h']) (fst (bf_run t (map (fun o => op_set_handle o 0) ops))) /\
    hop_frame g lh s s'.
Proof.
  induction ops as [|o ops IH]; intros s d h t W F R Hall.
  - exists s, [], d, h. cbn. split; [reflexivity|]. split; [reflexivity|]. split; [exact W|]. split; [exact F|]. split; [exact R | apply hop_frame_refl].
  - inversion Hall as [|o' ops' [Ho Hf] Hops]; subst o' ops'.
    destruct (m_step_file_op g lh s d h o F Ho Hf) as (s1 & r & d1 & h1 & r' & E1 & E2 & Ep & F1 & Fr1).
    assert (W1 : WF s1).
    { pose proof (WF_step s o W (file_op_wf_c01 s o Hf)) as Hw. now rewrite E1 in Hw. }
    pose proof (step_sim (mkFS d [h]) t (op_set_handle o 0) R (file_op_wf_c02 _ (eq_trans (file_op_retarget o 0) Hf))) as [R1 [Hp _]].
    rewrite E2 in R1, Hp. cbn [fst snd] in R1, Hp.
    destruct (IH s1 d1 h1 (fst (bf_step t (op_set_handle o 0))) W1 F1 R1 Hops) as (s2 & outs & d2 & h2 & E3 & Ep2 & W2 & F2 & R2 & Fr2).
    exists s2, (r :: outs), d2, h2. cbn [run_steps map bf_run]. rewrite E1, E3.
    destruct (bf_step t (op_set_handle o 0)) as [t1 px] eqn:Eb. cbn [fst snd] in *.
    destruct (bf_run t1 (map (fun o0 => op_set_handle o0 0) ops)) as [t2 pxs] eqn:Er. cbn [fst snd] in *.
    split; [reflexivity|]. split.
    + unfold proj_all in *. cbn [combine map]. rewrite Ep, Hp, Ep2. reflexivity.
    + split; [exact W2|]. split; [exact F2|]. split; [exact R2 | eapply hop_frame_trans; eauto].
Qed.
