(* Proofs/CacheInvOps.v — C11: every call through the caching filesystem preserves the invariant CInv
   (Proofs/CacheInv.v).  Part A: the methods of the handles of the table. *)
From AF Require Import Lib.Bytes Lib.Path Lib.Ops Gen.Consts Model.MemFile Model.MemFs Model.WfOps Model.Union Model.Cow
  Model.Cache Proofs.MemFsBasics Proofs.MemFsPath Proofs.MemFsWF Proofs.MemFsStep Proofs.MemFsInv Proofs.MemFsRename
  Proofs.CacheProof Proofs.CacheReady Proofs.CacheInv Proofs.CacheFrames Proofs.CacheHandles.
Local Open Scope Z_scope.

Lemma union_readat_fixed : union_readat_seeks_base = 0. Proof. reflexivity. Qed.

(* ---------- the tree part when the layer gets no new binding ---------- *)
Lemma TreeInv_step_nofresh phi sb sl sb' sl' rho :
  TreeInv sb sl phi -> WF sb' -> WF sl' -> Frame rho sb sb' -> Frame rho sl sl' ->
  (forall rl rb nl nb, phi rl = Some rb -> get_node sl' rl = Some nl -> get_node sb' rb = Some nb -> ndata nl = ndata nb) ->
  (forall k' rl, lookup sl' k' = Some rl -> fresh_in sl rl -> False) ->
  TreeInv sb' sl' (phi_next phi sl sb' sl') /\
  (forall rl rb, phi rl = Some rb -> phi_next phi sl sb' sl' rl = Some rb).
Proof.
  intros T Wb Wl Fb Fl Hd Hf. apply (TreeInv_step phi sb sl sb' sl' rho); auto.
  intros k' rl Hl Hfr. destruct (Hf k' rl Hl Hfr).
Qed.

(* the bytes of the pairs, when each side keeps the bytes of every node *)
Lemma pairs_data_kept phi sb sl sb' sl' :
  TreeInv sb sl phi -> dkeep nobody sb sb' -> dkeep nobody sl sl' ->
  forall rl rb nl nb, phi rl = Some rb -> get_node sl' rl = Some nl -> get_node sb' rb = Some nb -> ndata nl = ndata nb.
Proof.
  intros T Db Dl rl rb nl' nb' Hp Hnl' Hnb'. destruct (ti_pair _ _ _ T rl rb Hp) as (nl & nb & Hnl & Hnb & _ & Hdat).
  rewrite (Dl rl nl nl' Hnl Hnl' (fun H => H)), (Db rb nb nb' Hnb Hnb' (fun H => H)). exact Hdat.
Qed.

(* ---------- table entries that do not use the handles that changed ---------- *)
Lemma EntOK_other sb sl phi sb' sl' phi' c :
  EntOK sb sl phi c ->
  (forall x, In x (bhs c) -> nth_error (mhandles sb') x = nth_error (mhandles sb) x) ->
  (forall x, In x (lhs c) -> nth_error (mhandles sl') x = nth_error (mhandles sl) x) ->
  kkeep sl sl' ->
  (forall rl rb, phi rl = Some rb -> phi' rl = Some rb) ->
  (forall rl rb, phi rl = Some rb -> exists nl, get_node sl rl = Some nl) ->
  EntOK sb' sl' phi' c.
Proof.
  intros H Kb Kl Kk Hp Hn. destruct c as [h|h|u]; cbn [EntOK bhs lhs] in *.
  - destruct H as (hb & A & B). exists hb. split; [rewrite Kb; [exact A | now left] | exact B].
  - destruct H as (hl & A & B). exists hl. split; [rewrite Kl; [exact A | now left] | exact B].
  - destruct H as (bh & lh & hb & hl & A & B & C & D & E & F & G). rewrite A in Kb. rewrite B in Kl. exists bh, lh, hb, hl.
    split; [exact A|]. split; [exact B|]. split; [rewrite Kb; [exact C | now left]|]. split; [rewrite Kl; [exact D | now left]|].
    split; [exact E|]. split; [now apply Hp|].
    intros nl' Hnl' Hd. destruct (Hn _ _ F) as (nl & Hnl). destruct (Kk _ _ Hnl) as (n2 & Hn2 & Hd2).
    rewrite Hnl' in Hn2. inversion Hn2; subst n2. apply (G nl Hnl). congruence.
Qed.

Lemma phi_has_node phi sb sl : TreeInv sb sl phi -> forall rl rb, phi rl = Some rb -> exists nl, get_node sl rl = Some nl.
Proof. intros T rl rb H. destruct (ti_pair _ _ _ T rl rb H) as (nl & _ & Hnl & _). now exists nl. Qed.

(* ---------- one side of a UnionFile method ---------- *)
Lemma hopeff_refl s i h : nth_error (mhandles s) i = Some h -> HopEff s s i h h.
Proof. intros Hh. split; try reflexivity; auto. intros n Hn. exists n. auto. Qed.

Lemma side_eff o s s' hi h n :
  side_step o s s' hi -> nth_error (mhandles s) hi = Some h -> get_node s (href h) = Some n ->
  WF s -> WfOps.wf_op_ord s o = true ->
  exists h', HopEff s s' hi h h' /\ WF s' /\
    (meta_op o = true -> hat h' = hat h /\ hclosed h' = (hclosed h || close_op o) /\
                         exists n', get_node s' (href h) = Some n' /\ ndata n' = ndata n).
Proof.
  intros [[-> Hc]|(ob & Hob & -> & Hwf & Hm)] Hh Hn W Hw.
  - exists h. split; [now apply hopeff_refl|]. split; [exact W|]. intros _. split; [reflexivity|]. split; [now rewrite Hc, orb_false_r|]. now exists n.
  - destruct (hop_eff s ob hi h n Hob Hh Hn) as (h' & He & Hmeta). exists h'. split; [exact He|].
    split; [apply WF_step_ord; [exact W | now apply Hwf]|].
    intros Hmo. destruct (Hm Hmo) as [Hmb Hcb]. destruct (Hmeta Hmb) as [Ha Hcl]. split; [exact Ha|]. split; [now rewrite Hcl, Hcb|].
    exact (hop_meta_data s ob hi h n Hmb Hob Hh Hn).
Qed.

Lemma handle_op_kind o i : op_handle_of o = Some i -> WfOps.wf_op_ord m_init o = true -> coh_op o = true \/ meta_op o = true.
Proof. destruct o; try discriminate; cbn; auto. Qed.
Lemma wf_op_handle_any o i s s' : op_handle_of o = Some i -> WfOps.wf_op_ord s o = WfOps.wf_op_ord s' o.
Proof. destruct o; try discriminate; reflexivity. Qed.

(* ---------- a method of a UnionFile of the table ---------- *)
Lemma cinv_union_op sb sl tbl phi i u o :
  CInvP sb sl tbl phi -> nth_error tbl i = Some (HU u) -> op_handle_of o = Some i -> WfOps.wf_op_ord sb o = true ->
  exists phi', CInvP (fst (fst (fst (uf_op m_step m_step sb sl u o)))) (snd (fst (fst (uf_op m_step m_step sb sl u o))))
                     (list_set i (HU (snd (fst (uf_op m_step m_step sb sl u o)))) tbl) phi'.
Proof.
  intros [T [Tok Tsb Tsl]] Hi Ho Hwf.
  destruct (Tok i _ Hi) as (bh & lh & hb & hl & Hub & Hul & Hhb & Hhl & Hpe & Hphi & Hdir). cbn [EntOK] in *.
  destruct (ti_pair _ _ _ T _ _ Hphi) as (nl & nb & Hnl & Hnb & Hkind & Hdat).
  destruct (uf_op m_step m_step sb sl u o) as [[[sb' sl'] u1] r] eqn:Euf. cbn [fst snd].
  destruct (uf_op_sides sb sl u o i bh lh sb' sl' u1 r Ho Hub Hul Euf) as (Sb & Sl & Hub1 & Hul1).
  assert (Hwfl : WfOps.wf_op_ord sl o = true) by (rewrite (wf_op_handle_any o i sl sb Ho); exact Hwf).
  destruct (side_eff o sb sb' bh hb nb Sb Hhb Hnb (ti_wfb _ _ _ T) Hwf) as (hb' & Eb & Wb' & Mb).
  destruct (side_eff o sl sl' lh hl nl Sl Hhl Hnl (ti_wfl _ _ _ T) Hwfl) as (hl' & El & Wl' & Ml).
  assert (Hinb : inert hb = inert hl).
  { destruct Hpe as (_ & Hc & Hr). unfold inert. now rewrite Hc, Hr. }
  destruct (hopeff_frame sb sb' bh hb hb' Eb) as [Fb Db].
  { intros n Hn Hd. rewrite Hnb in Hn. inversion Hn; subst n. rewrite Hinb. apply (Hdir nl Hnl). congruence. }
  destruct (hopeff_frame sl sl' lh hl hl' El) as [Fl Dl].
  { intros n Hn Hd. rewrite Hnl in Hn. inversion Hn; subst n. now apply (Hdir nl Hnl). }
  (* the new handles are coherent and the two nodes hold the same bytes *)
  assert (Hpair : hproj_eq hb' hl' /\
                  forall nl' nb', get_node sl' (href hl) = Some nl' -> get_node sb' (href hb) = Some nb' -> ndata nl' = ndata nb').
  { destruct (handle_op_kind o i Ho) as [Hc|Hm].
    - rewrite <- Hwf. destruct o; try discriminate Ho; reflexivity.
    - (* Read, ReadAt, Write, WriteAt, WriteString, Seek, Truncate *)
      destruct u as [ob ol off files]. cbn [ubase ulayer] in Hub, Hul. subst ob ol.
      destruct (uf_op_coherent sb sl bh lh off files o hb hl nb nl Hc (fun _ _ _ _ => union_readat_fixed) Hhb Hhl Hnb Hnl Hpe (eq_sym Hdat))
        as (sb2 & sl2 & r2 & hb2 & hl2 & nb2 & nl2 & E2 & (B1 & _ & B3 & _) & (L1 & _ & L3 & _) & Hp2 & Hd2).
      rewrite Euf in E2. inversion E2; subst sb2 sl2 r2.
      rewrite (he_this _ _ _ _ _ Eb) in B1. rewrite (he_this _ _ _ _ _ El) in L1. inversion B1; inversion L1; subst hb2 hl2.
      split; [exact Hp2|]. intros nl' nb' Hnl' Hnb'. congruence.
    - destruct (Mb Hm) as (Hab & Hcb & nb1 & Hnb1 & Hdb1). destruct (Ml Hm) as (Hal & Hcl & nl1 & Hnl1 & Hdl1).
      destruct Hpe as (Pa & Pc & Pr). split.
      + unfold hproj_eq. rewrite Hab, Hal, Hcb, Hcl, (he_ro _ _ _ _ _ Eb), (he_ro _ _ _ _ _ El), Pa, Pc, Pr. auto.
      + intros nl' nb' Hnl' Hnb'. congruence. }
  destruct Hpair as [Hpe' Hdat'].
  (* the tree part *)
  destruct (TreeInv_step_nofresh phi sb sl sb' sl' Some T Wb' Wl' Fb Fl) as [T' Hext].
  { intros rl rb nl' nb' Hp Hnl' Hnb'. destruct (Nat.eq_dec rl (href hl)) as [->|Hne].
    - assert (rb = href hb) by congruence. subst rb. now apply Hdat'.
    - assert (Hneb : rb <> href hb) by (intros ->; apply Hne; exact (ti_inj _ _ _ T _ _ _ Hp Hphi)).
      rewrite (he_nodes _ _ _ _ _ El rl Hne) in Hnl'. rewrite (he_nodes _ _ _ _ _ Eb rb Hneb) in Hnb'.
      destruct (ti_pair _ _ _ T rl rb Hp) as (x & y & Hx & Hy & _ & Hxy). congruence. }
  { intros k' rl Hl Hf. assert (Hl0 : lookup sl k' = Some rl) by (unfold lookup in *; now rewrite <- (he_data _ _ _ _ _ El)).
    destruct (WF_bound_ok sl (ti_wfl _ _ _ T) k' rl Hl0) as (x & Hx). exact (fresh_not_old sl rl x Hf Hx). }
  exists (phi_next phi sl sb' sl'). split; [exact T'|].
  assert (Hlen : (i < length tbl)%nat) by (now apply nth_error_lt in Hi).
  assert (Hent : forall j c, nth_error (list_set i (HU u1) tbl) j = Some c -> (j = i /\ c = HU u1) \/ (j <> i /\ nth_error tbl j = Some c)).
  { intros j c Hj. destruct (Nat.eq_dec j i) as [->|Hne].
    - rewrite nth_error_list_set_eq in Hj by exact Hlen. inversion Hj. now left.
    - rewrite nth_error_list_set_neq in Hj by congruence. now right. }
  assert (Hbhs : bhs (HU u1) = bhs (HU u) /\ lhs (HU u1) = lhs (HU u)) by (cbn [bhs lhs]; now rewrite Hub, Hul, Hub1, Hul1).
  split.
  - intros j c Hj. destruct (Hent j c Hj) as [[-> ->]|[Hne Hj']].
    + cbn [EntOK]. exists bh, lh, hb', hl'. split; [exact Hub1|]. split; [exact Hul1|].
      split; [exact (he_this _ _ _ _ _ Eb)|]. split; [exact (he_this _ _ _ _ _ El)|]. split; [exact Hpe'|].
      split; [rewrite (he_href _ _ _ _ _ El), (he_href _ _ _ _ _ Eb); now apply Hext|].
      intros nl' Hnl' Hd. rewrite (he_href _ _ _ _ _ El) in Hnl'. destruct (he_node _ _ _ _ _ El nl Hnl) as (n2 & Hn2 & Hd2 & _).
      rewrite Hnl' in Hn2. inversion Hn2; subst n2. apply (he_inert _ _ _ _ _ El). apply (Hdir nl Hnl). congruence.
    + apply (EntOK_other sb sl phi); auto.
      * apply (Tok j c Hj').
      * intros x Hx. apply (he_other _ _ _ _ _ Eb). intros ->. apply (Tsb j i c (HU u) bh Hne Hj' Hi Hx). cbn [bhs]. rewrite Hub. now left.
      * intros x Hx. apply (he_other _ _ _ _ _ El). intros ->. apply (Tsl j i c (HU u) lh Hne Hj' Hi Hx). cbn [lhs]. rewrite Hul. now left.
      * exact (frame_kkeep _ _ _ Fl).
      * exact (phi_has_node phi sb sl T).
  - intros a b ca cb h Hab Ha Hb Hin. destruct Hbhs as [Hbh _].
    destruct (Hent a ca Ha) as [[-> ->]|[Hna Ha']]; destruct (Hent b cb Hb) as [[-> ->]|[Hnb' Hb']]; try congruence.
    + rewrite Hbh in Hin. exact (Tsb i b (HU u) cb h Hab Hi Hb' Hin).
    + rewrite Hbh. exact (Tsb a i ca (HU u) h Hab Ha' Hi Hin).
    + exact (Tsb a b ca cb h Hab Ha' Hb' Hin).
  - intros a b ca cb h Hab Ha Hb Hin. destruct Hbhs as [_ Hlh].
    destruct (Hent a ca Ha) as [[-> ->]|[Hna Ha']]; destruct (Hent b cb Hb) as [[-> ->]|[Hnb' Hb']]; try congruence.
    + rewrite Hlh in Hin. exact (Tsl i b (HU u) cb h Hab Hi Hb' Hin).
    + rewrite Hlh. exact (Tsl a i ca (HU u) h Hab Ha' Hi Hin).
    + exact (Tsl a b ca cb h Hab Ha' Hb' Hin).
Qed.

(* ---------- a method of a base-only / layer-only handle of the table: the handle is inert ---------- *)
Lemma inert_step s o x hx :
  op_handle_of o = Some x -> nth_error (mhandles s) x = Some hx -> inert hx = true -> WF s -> WfOps.wf_op_ord s o = true ->
  let s' := fst (m_step s o) in
  WF s' /\ Frame Some s s' /\ dkeep nobody s s' /\ (forall k, lookup s' k = lookup s k) /\
  (forall j, j <> x -> nth_error (mhandles s') j = nth_error (mhandles s) j) /\
  exists hx', nth_error (mhandles s') x = Some hx' /\ inert hx' = true.
Proof.
  intros Ho Hh Hin W Hwf s'. assert (W' : WF s') by (now apply WF_step_ord).
  destruct (get_node s (href hx)) as [n|] eqn:Hn.
  - destruct (hop_eff s o x hx n Ho Hh Hn) as (hx' & E & _). fold s' in E.
    destruct (hopeff_frame s s' x hx hx' E (fun _ _ _ => Hin)) as [F D].
    split; [exact W'|]. split; [exact F|]. split.
    { intros r m m' Hm Hm' _. destruct (Nat.eq_dec r (href hx)) as [->|Hne].
      - destruct (he_node _ _ _ _ _ E m Hm) as (m2 & Hm2 & _ & Hd). rewrite Hm' in Hm2. inversion Hm2; subst m2. now apply Hd.
      - apply (D r m m' Hm Hm'). exact Hne. }
    split; [intros k; unfold lookup; now rewrite (he_data _ _ _ _ _ E)|].
    split; [exact (he_other _ _ _ _ _ E)|]. exists hx'. split; [exact (he_this _ _ _ _ _ E) | exact (he_inert _ _ _ _ _ E Hin)].
  - assert (Es : s' = bump s) by (apply (hop_nothing s o x Ho); right; now exists hx).
    rewrite Es. split; [now apply WF_bump|]. split; [apply frame_bump|]. split; [now apply dkeep_view|].
    split; [reflexivity|]. split; [reflexivity|]. now exists hx.
Qed.

Lemma op_set_handle_of o i x : op_handle_of o = Some i -> op_handle_of (op_set_handle o x) = Some x.
Proof. destruct o; try discriminate; reflexivity. Qed.
Lemma wf_op_set_handle o i x s : op_handle_of o = Some i -> WfOps.wf_op_ord s (op_set_handle o x) = WfOps.wf_op_ord s o.
Proof. destruct o; try discriminate; reflexivity. Qed.

Lemma cinv_base_handle_op sb sl tbl phi i x o :
  CInvP sb sl tbl phi -> nth_error tbl i = Some (HB x) -> op_handle_of o = Some i -> WfOps.wf_op_ord sb o = true ->
  exists phi', CInvP (fst (m_step sb (op_set_handle o x))) sl tbl phi'.
Proof.
  intros [T [Tok Tsb Tsl]] Hi Ho Hwf. destruct (Tok i _ Hi) as (hx & Hh & Hin). cbn [EntOK] in *.
  destruct (inert_step sb (op_set_handle o x) x hx (op_set_handle_of o i x Ho) Hh Hin (ti_wfb _ _ _ T)) as (W' & F & D & Hl & Hoth & hx' & Hh' & Hin').
  { now rewrite (wf_op_set_handle o i x sb Ho). }
  set (sb' := fst (m_step sb (op_set_handle o x))) in *.
  destruct (TreeInv_step_nofresh phi sb sl sb' sl Some T W' (ti_wfl _ _ _ T) F (frame_refl sl)) as [T' Hext].
  { apply (pairs_data_kept phi sb sl sb' sl T D). now apply dkeep_view. }
  { intros k' rl Hk Hf. destruct (WF_bound_ok sl (ti_wfl _ _ _ T) k' rl Hk) as (y & Hy). exact (fresh_not_old sl rl y Hf Hy). }
  exists (phi_next phi sl sb' sl). split; [exact T'|]. split; [|exact Tsb | exact Tsl].
  intros j c Hj. destruct (Nat.eq_dec j i) as [->|Hne].
  - rewrite Hi in Hj. inversion Hj; subst c. cbn [EntOK]. now exists hx'.
  - apply (EntOK_other sb sl phi sb' sl); [exact (Tok j c Hj) | | reflexivity | | exact Hext | exact (phi_has_node phi sb sl T)].
    + intros y Hy. apply Hoth. intros ->. apply (Tsb j i c (HB x) x Hne Hj Hi Hy). now left.
    + intros r n Hn. now exists n.
Qed.

Lemma cinv_layer_handle_op sb sl tbl phi i x o :
  CInvP sb sl tbl phi -> nth_error tbl i = Some (HL x) -> op_handle_of o = Some i -> WfOps.wf_op_ord sb o = true ->
  exists phi', CInvP sb (fst (m_step sl (op_set_handle o x))) tbl phi'.
Proof.
  intros [T [Tok Tsb Tsl]] Hi Ho Hwf. destruct (Tok i _ Hi) as (hx & Hh & Hin). cbn [EntOK] in *.
  destruct (inert_step sl (op_set_handle o x) x hx (op_set_handle_of o i x Ho) Hh Hin (ti_wfl _ _ _ T)) as (W' & F & D & Hl & Hoth & hx' & Hh' & Hin').
  { rewrite (wf_op_set_handle o i x sl Ho), (wf_op_handle_any o i sl sb Ho). exact Hwf. }
  set (sl' := fst (m_step sl (op_set_handle o x))) in *.
  destruct (TreeInv_step_nofresh phi sb sl sb sl' Some T (ti_wfb _ _ _ T) W' (frame_refl sb) F) as [T' Hext].
  { apply (pairs_data_kept phi sb sl sb sl' T); [now apply dkeep_view | exact D]. }
  { intros k' rl Hk Hf. rewrite Hl in Hk. destruct (WF_bound_ok sl (ti_wfl _ _ _ T) k' rl Hk) as (y & Hy). exact (fresh_not_old sl rl y Hf Hy). }
  exists (phi_next phi sl sb sl'). split; [exact T'|]. split; [|exact Tsb | exact Tsl].
  intros j c Hj. destruct (Nat.eq_dec j i) as [->|Hne].
  - rewrite Hi in Hj. inversion Hj; subst c. cbn [EntOK]. now exists hx'.
  - apply (EntOK_other sb sl phi sb sl'); [exact (Tok j c Hj) | reflexivity | | exact (frame_kkeep _ _ _ F) | exact Hext | exact (phi_has_node phi sb sl T)].
    intros y Hy. apply Hoth. intros ->. apply (Tsl j i c (HL x) x Hne Hj Hi Hy). now left.
Qed.

(* every method on a slot of the table *)
Theorem cinv_handle_op dur now sb sl tbl o i :
  CInv (sb, sl, tbl) -> op_handle_of o = Some i -> WfOps.wf_op_ord sb o = true ->
  CInv (fst (cache_step m_step m_step dur now (sb, sl, tbl) o)).
Proof.
  intros (phi & C) Ho Hwf.
  assert (Hstep : cache_step m_step m_step dur now (sb, sl, tbl) o =
    match nth_error tbl i with
    | None => cret sb sl tbl RNoSlot
    | Some (HB h) => let '(sb1, r) := m_step sb (op_set_handle o h) in cret sb1 sl tbl r
    | Some (HL h) => let '(sl1, r) := m_step sl (op_set_handle o h) in cret sb sl1 tbl r
    | Some (HU u) => let '(sb1, sl1, u1, r) := uf_op m_step m_step sb sl u o in cret sb1 sl1 (list_set i (HU u1) tbl) r
    end).
  { destruct o; try discriminate Ho; cbn [op_handle_of] in Ho; inversion Ho; subst; reflexivity. }
  rewrite Hstep. destruct (nth_error tbl i) as [[x|x|u]|] eqn:Hi.
  - destruct (cinv_base_handle_op sb sl tbl phi i x o C Hi Ho Hwf) as (phi' & C').
    destruct (m_step sb (op_set_handle o x)) as [sb1 r]. cbn [fst cret] in *. now exists phi'.
  - destruct (cinv_layer_handle_op sb sl tbl phi i x o C Hi Ho Hwf) as (phi' & C').
    destruct (m_step sl (op_set_handle o x)) as [sl1 r]. cbn [fst cret] in *. now exists phi'.
  - destruct (cinv_union_op sb sl tbl phi i u o C Hi Ho Hwf) as (phi' & C').
    destruct (uf_op m_step m_step sb sl u o) as [[[sb1 sl1] u1] r]. cbn [fst snd cret] in *. now exists phi'.
  - cbn [fst cret]. now exists phi.
Qed.
