(* Proofs/MemFsSimInv.v — every handle refers to an allocated inode / node in every reachable
   state, so the side condition any_handle_ok of wf_op_sim is implied by the rest. *)
From AF Require Import Proofs.MemFileProof.
From AF Require Import Lib.Bytes Lib.Path Lib.Ops Gen.Consts Model.MemFile Model.ByteFile Model.MemFs Model.WfOps Model.Posix
  Proofs.BytesLemmas Proofs.MemFsPath Proofs.MemFsBasics Proofs.MemFsWF Proofs.MemFsStep Proofs.MemFsRename
  Proofs.MemFsInv Proofs.MemFsList Proofs.MemFsSim.
Local Open Scope Z_scope.

Definition pvalid (t : pfs) : Prop := forall i x, nth_error (phandles t) i = Some x -> (pino x < length (pinodes t))%nat.

Lemma pvalid_same t t' : phandles t' = phandles t -> (length (pinodes t) <= length (pinodes t'))%nat -> pvalid t -> pvalid t'.
Proof. intros Eh Hl Hv i x Hx. rewrite Eh in Hx. specialize (Hv i x Hx). lia. Qed.

Lemma pvalid_open t i ro : pvalid t -> (i < length (pinodes t))%nat -> pvalid (fst (popen t i ro)).
Proof.
  intros Hv Hi j x Hx. unfold popen in Hx. cbn [fst phandles pinodes] in *.
  destruct (Nat.lt_ge_cases j (length (phandles t))) as [Hlt|Hge].
  - rewrite nth_error_app1 in Hx by exact Hlt. now apply (Hv j).
  - rewrite nth_error_app2 in Hx by exact Hge. destruct (j - length (phandles t))%nat as [|m]; cbn in Hx; [|destruct m; discriminate].
    inversion Hx; subst x. exact Hi.
Qed.

Lemma pvalid_seth t i h h' : pvalid t -> nth_error (phandles t) i = Some h -> pino h' = pino h -> pvalid (set_phandle t i h').
Proof.
  intros Hv Hh E j x Hx. unfold set_phandle in Hx. cbn [phandles pinodes] in *.
  apply nth_error_list_set in Hx as [->|Hx]; [rewrite E; now apply (Hv i) | now apply (Hv j)].
Qed.

Lemma pvalid_set_inode t i x : pvalid t -> pvalid (set_inode t i x).
Proof. intros Hv. apply (pvalid_same t); [reflexivity | | exact Hv]. unfold set_inode. cbn. now rewrite list_set_len. Qed.
Lemma pvalid_set_tree t tr : pvalid t -> pvalid (set_tree t tr).
Proof. intros Hv. apply (pvalid_same t); [reflexivity | | exact Hv]. cbn. lia. Qed.
Lemma pvalid_padd t k x : pvalid t -> pvalid (padd t k x).
Proof. intros Hv. apply (pvalid_same t); [reflexivity | | exact Hv]. unfold padd. cbn. rewrite app_length. lia. Qed.
Lemma pvalid_mkchain fuel : forall t k perm, pvalid t -> pvalid (p_mkchain fuel t k perm).
Proof.
  induction fuel as [|fu IH]; intros t k perm Hv; cbn [p_mkchain]; [exact Hv|].
  destruct (plookup t k); [exact Hv|]. apply IH. now apply pvalid_padd.
Qed.

Lemma Rsim_lookup_lt s t k i : Rsim s t -> plookup t k = Some i -> (i < length (pinodes t))%nat.
Proof.
  intros R Hp. rewrite <- (rs_tree _ _ R) in Hp. rewrite <- (proj1 (rs_heap _ _ R)). eapply GWF_lt; [apply (rs_wf _ _ R) | exact Hp].
Qed.

Lemma padd_len t k x : length (pinodes (padd t k x)) = S (length (pinodes t)).
Proof. unfold padd. cbn. rewrite app_length. cbn. lia. Qed.

Lemma pvalid_step s t o : Rsim s t -> pvalid t -> pvalid (fst (p_step t o)).
Proof.
  intros R Hv. pose proof (Rsim_lookup_lt s t) as Hlt.
  assert (Hfile : forall i (neg : bool) (k : phandle -> bytes -> option Z -> pfs * pout),
    (forall h d pm, nth_error (phandles t) i = Some h -> pvalid (fst (k h d pm))) ->
    pvalid (fst (match nth_error (phandles t) i with
                 | Some h => match pinode t (pino h) with
                             | Some (IFile d pm) => k h d pm
                             | _ => if negb neg && pclosed h then (t, PFail CClosed) else (t, PFail COther)
                             end
                 | None => (t, PNoSlot) end))).
  { intros i neg k Hk. destruct (nth_error (phandles t) i) as [h|] eqn:Hh; [|exact Hv].
    destruct (pinode t (pino h)) as [[pm|d pm]|]; try (destruct (negb neg && pclosed h); exact Hv). now apply Hk. }
  destruct o; cbn [p_step].
  - (* Create *) destruct (pthrough_file t (normalize_path p)); [exact Hv|]. destruct (plookup t (normalize_path p)) as [i|] eqn:Hl.
    + destruct (pnode_at t (normalize_path p)) as [[pm|d pm]|]; try exact Hv.
      apply pvalid_open; [now apply pvalid_set_inode|]. unfold set_inode. cbn. rewrite list_set_len. eapply Hlt; eauto.
    + destruct (pnode_at t (normalize_path p)) as [[pm|d pm]|]; destruct (pis_dir t (pparent (normalize_path p))); try exact Hv;
        (apply pvalid_open; [now apply pvalid_padd | rewrite padd_len; lia]).
  - (* Mkdir *) destruct (pthrough_file t (normalize_path p)); [exact Hv|]. destruct (plookup t (normalize_path p)); [exact Hv|].
    destruct (pis_dir t (pparent (normalize_path p))); [now apply pvalid_padd | exact Hv].
  - (* MkdirAll *) destruct (pthrough_file t (normalize_path p)); [exact Hv|]. destruct (pnode_at t (normalize_path p)) as [[pm|d pm]|]; try exact Hv. now apply pvalid_mkchain.
  - (* Open *) destruct (pthrough_file t (normalize_path p)); [exact Hv|]. destruct (plookup t (normalize_path p)) as [i|] eqn:Hl; [|exact Hv]. apply pvalid_open; [exact Hv | eapply Hlt; eauto].
  - (* OpenFile *) destruct (pthrough_file t (normalize_path p)); [exact Hv|]. destruct (plookup t (normalize_path p)) as [i|] eqn:Hl.
    + destruct (pnode_at t (normalize_path p)) as [x|]; [|exact Hv].
      destruct (fl flag o_create && fl flag o_excl); [exact Hv|].
      destruct x as [pm|d pm].
      * destruct ((Z.land flag 3 =? 0) && negb (fl flag o_create)); [|exact Hv]. apply pvalid_open; [exact Hv | eapply Hlt; eauto].
      * destruct (fl flag o_trunc && negb (Z.land flag 3 =? 0)).
        -- apply pvalid_open; [now apply pvalid_set_inode|]. unfold set_inode. cbn. rewrite list_set_len. eapply Hlt; eauto.
        -- apply pvalid_open; [exact Hv | eapply Hlt; eauto].
    + destruct (pnode_at t (normalize_path p)) as [[pm|d pm]|]; destruct (fl flag o_create); try exact Hv;
        destruct (pis_dir t (pparent (normalize_path p))); try exact Hv;
        (apply pvalid_open; [now apply pvalid_padd | rewrite padd_len; lia]).
  - (* Remove *) destruct (pthrough_file t (normalize_path p)); [exact Hv|]. destruct (pnode_at t (normalize_path p)) as [[pm|d pm]|]; try exact Hv.
    destruct (phas_children t (normalize_path p) || beqb (normalize_path p) s_slash); exact Hv.
  - (* RemoveAll *) destruct (pthrough_file t (normalize_path p)); [exact Hv|]. now apply pvalid_set_tree.
  - (* Rename *) destruct (pthrough_file t (normalize_path p)); [exact Hv|]. destruct (negb (pis_dir t (pparent (normalize_path p)))); [exact Hv|]. destruct (pthrough_file t (normalize_path q)); [exact Hv|]. destruct (plookup t (normalize_path p)); [|exact Hv].
    destruct (beqb (normalize_path p) (normalize_path q)); [exact Hv | now apply pvalid_set_tree].
  - (* Stat *) destruct (pthrough_file t (normalize_path p)); [exact Hv|]. destruct (pnode_at t (normalize_path p)) as [[pm|d pm]|]; exact Hv.
  - (* Chmod *) destruct (pthrough_file t (normalize_path p)); [exact Hv|]. destruct (plookup t (normalize_path p)); [|exact Hv].
    destruct (pnode_at t (normalize_path p)) as [[pm|d pm]|]; try exact Hv; now apply pvalid_set_inode.
  - (* Chown *) destruct (pthrough_file t (normalize_path p)); [exact Hv|]. destruct (plookup t (normalize_path p)); exact Hv.
  - (* Chtimes *) destruct (pthrough_file t (normalize_path p)); [exact Hv|]. destruct (plookup t (normalize_path p)); exact Hv.
  - (* HRead *) apply Hfile. intros hd d pm Hh. destruct (pclosed hd); [exact Hv|]. cbn [fst]. eapply pvalid_seth; eauto.
  - (* HReadAt *) apply Hfile. intros hd d pm Hh. destruct (off <? 0); [exact Hv|]. destruct (pclosed hd); exact Hv.
  - (* HWrite *) apply Hfile. intros hd d pm Hh. destruct (pclosed hd); [exact Hv|]. destruct (pro hd); [exact Hv|]. cbn [fst].
    apply pvalid_set_inode. eapply pvalid_seth; eauto.
  - (* HWriteAt *) apply Hfile. intros hd d pm Hh. destruct (off <? 0); [exact Hv|]. destruct (pclosed hd); [exact Hv|]. destruct (pro hd); [exact Hv|].
    cbn [fst]. now apply pvalid_set_inode.
  - (* HWriteString *) apply Hfile. intros hd d pm Hh. destruct (pclosed hd); [exact Hv|]. destruct (pro hd); [exact Hv|]. cbn [fst].
    apply pvalid_set_inode. eapply pvalid_seth; eauto.
  - (* HSeek *) apply Hfile. intros hd d pm Hh. destruct (pclosed hd); [exact Hv|].
    match goal with |- context [if ?c then _ else _] => destruct c end; [exact Hv|]. cbn [fst]. eapply pvalid_seth; eauto.
  - (* HTruncate *) apply Hfile. intros hd d pm Hh. destruct (pclosed hd); [exact Hv|]. destruct (pro hd); [exact Hv|]. destruct (n <? 0); [exact Hv|].
    cbn [fst]. now apply pvalid_set_inode.
  - (* HClose *) destruct (nth_error (phandles t) h) as [hd|] eqn:Hh; [|exact Hv]. destruct (pclosed hd); [exact Hv|]. cbn [fst]. eapply pvalid_seth; eauto.
  - (* HReaddir *) destruct (nth_error (phandles t) h) as [hd|] eqn:Hh; [|exact Hv].
    destruct (pinode t (pino hd)) as [[pm|d pm]|]; try exact Hv. destruct (pname_of t (pino hd)); [|exact Hv]. cbn [fst]. eapply pvalid_seth; eauto.
  - (* HReaddirnames *) destruct (nth_error (phandles t) h) as [hd|] eqn:Hh; [|exact Hv].
    destruct (pinode t (pino hd)) as [[pm|d pm]|]; try exact Hv. destruct (pname_of t (pino hd)); [|exact Hv]. cbn [fst]. eapply pvalid_seth; eauto.
  - (* HStat *) destruct (nth_error (phandles t) h) as [hd|]; [|exact Hv]. destruct (pinode t (pino hd)) as [[pm|d pm]|]; exact Hv.
  - (* HName *) destruct (nth_error (phandles t) h); exact Hv.
  - (* HSync *) destruct (nth_error (phandles t) h); exact Hv.
Qed.

(* the side condition follows *)
Lemma any_handle_ok_valid s t i : Rsim s t -> pvalid t -> any_handle_ok s i = true.
Proof.
  intros R Hv. unfold any_handle_ok. destruct (nth_error (mhandles s) i) as [h|] eqn:Hh; [|reflexivity].
  destruct (F2_nth _ _ _ i h (rs_handles _ _ R) Hh) as (x & Hx & (E & _)).
  specialize (Hv i x Hx). rewrite <- E, <- (proj1 (rs_heap _ _ R)) in Hv.
  destruct (get_node s (href h)) eqn:Hn; [reflexivity|]. unfold get_node in Hn. apply nth_error_None in Hn. lia.
Qed.

Lemma wf_op_sim_sim s t o : Rsim s t -> pvalid t -> wf_op_sim s o = true -> wf_op_simx s o = true.
Proof.
  intros R Hv H. unfold wf_op_sim, wf_op_simx in *. apply andb_true_iff in H as [H1 H2]. rewrite H1. cbn [andb].
  destruct o; try exact H2; now apply (any_handle_ok_valid s t).
Qed.

Theorem sim_run0 : forall ops s t, Rsim s t -> pvalid t -> wf_seq_sim s ops = true ->
  mproj_all ops (snd (run_steps m_step s ops)) = snd (p_run t ops) /\
  Rsim (fst (run_steps m_step s ops)) (fst (p_run t ops)).
Proof.
  induction ops as [|o ops IH]; intros s t R Hv Hseq; [split; [reflexivity | exact R]|].
  cbn [wf_seq_sim] in Hseq. apply andb_true_iff in Hseq as [Ho Hr].
  destruct (sim_step s t o R (wf_op_sim_sim s t o R Hv Ho)) as [R1 Hp]. pose proof (pvalid_step s t o R Hv) as Hv1.
  cbn [run_steps p_run].
  destruct (m_step s o) as [s1 x]. destruct (p_step t o) as [t1 px]. cbn [fst snd] in *.
  destruct (IH s1 t1 R1 Hv1 Hr) as [Hps R']. destruct (run_steps m_step s1 ops) as [s2 xs]. destruct (p_run t1 ops) as [t2 pxs].
  cbn [fst snd] in *. split; [|exact R']. unfold mproj_all in *. cbn [combine map]. now rewrite Hp, Hps.
Qed.

Theorem simulation0 ops : wf_seq_sim m_init ops = true ->
  mproj_all ops (snd (run_steps m_step m_init ops)) = snd (p_run p_init ops) /\
  Observe (fst (run_steps m_step m_init ops)) (fst (p_run p_init ops)).
Proof.
  intros Hseq. assert (Hv : pvalid p_init) by (intros [|i] x Hx; discriminate Hx).
  destruct (sim_run0 ops m_init p_init Rsim_init Hv Hseq) as [Hp R]. split; [exact Hp | now apply Rsim_observe].
Qed.
