(* Proofs/MemFsBelow.v — the second half of the portable class of C01: creating calls whose name
   passes through a regular file (Model/WfOps.v wf_below).  In a state satisfying the invariant WF
   such a name is free, the nearest existing ancestor is that regular file, and the call is refused:
   ENOTDIR, the state is untouched (memmap.go lockfreeBelowFile).  Conversely the ordinary
   preconditions (wf_op_ord) never name such a path. *)
From AF Require Import Lib.Bytes Lib.Path Lib.Ops Gen.Consts Model.MemFile Model.MemFs Model.WfOps
  Proofs.BytesLemmas Proofs.MemFsPath Proofs.MemFsBasics Proofs.MemFsWF Proofs.MemFsStep Proofs.MemBelow Proofs.MemBelowRefused.
Local Open Scope Z_scope.

(* ---------- through_file / no_file_prefix ---------- *)
Lemma no_file_prefix_through s k : no_file_prefix s k = negb (through_file s k).
Proof.
  unfold no_file_prefix, through_file. induction (mdata s) as [|kv l IH]; [reflexivity|].
  cbn [forallb existsb]. rewrite IH. now destruct (below (fst kv) k && is_file_at s (fst kv)).
Qed.

Lemma is_file_at_true s k : is_file_at s k = true -> exists r n, lookup s k = Some r /\ get_node s r = Some n /\ ndir n = false.
Proof. unfold is_file_at. destruct (kind_at s k) as [[|]|] eqn:E; try discriminate. intros _. now apply kind_at_some. Qed.

Lemma through_file_true s k : through_file s k = true <->
  exists a, below a k = true /\ lookup s a <> None /\ is_file_at s a = true.
Proof.
  unfold through_file. rewrite existsb_exists. split.
  - intros ([a r] & Hin & Hf). cbn [fst] in Hf. apply andb_true_iff in Hf as [Hb Hfile]. exists a. split; [exact Hb|]. split; [|exact Hfile].
    apply is_file_at_true in Hfile as (r' & n & Hl & _). congruence.
  - intros (a & Hb & Hl & Hfile). destruct (lookup s a) as [r|] eqn:E; [|congruence].
    exists (a, r). split; [now apply aget_in | cbn [fst]; now rewrite Hb, Hfile].
Qed.

Lemma through_file_false s k : through_file s k = false <->
  forall a, below a k = true -> is_file_at s a = false.
Proof.
  split.
  - intros H a Hb. destruct (is_file_at s a) eqn:Hf; [|reflexivity].
    assert (X : through_file s k = true); [|congruence].
    apply through_file_true. exists a. split; [exact Hb|]. split; [|exact Hf].
    apply is_file_at_true in Hf as (r & n & Hl & _). congruence.
  - intros H. destruct (through_file s k) eqn:E; [|reflexivity].
    apply through_file_true in E as (a & Hb & _ & Hf). rewrite (H a Hb) in Hf. discriminate.
Qed.

(* ---------- in a WF state: every proper ancestor of an existing name is a directory ---------- *)
Lemma WF_ancestors_dirs s : WF s -> forall k r, lookup s k = Some r ->
  forall a, canon a -> below a k = true -> is_dir_at s a = true.
Proof.
  intros W k. remember (length k) as m eqn:Em. revert k Em.
  induction m as [m IH] using lt_wf_ind. intros k Em r Hl a Ha Hb.
  pose proof (g_canon _ _ _ _ W k r Hl) as Hc.
  assert (Hkr : k <> s_slash) by (apply (below_not_root a k Ha Hb)).
  destruct (g_par _ _ _ _ W k r Hl (WF_fresh s k r W Hl) Hkr) as (p & pn & Hp & Hpn & Hpd & _); [intros [] | intros [] |].
  destruct (below_inv a k Ha Hc Hb) as [-> | Hb'].
  - unfold is_dir_at, kind_at. now rewrite Hp, Hpn, Hpd.
  - apply (IH (length (par k))) with (k := par k) (r := p); auto. subst m. now apply par_shorter.
Qed.

Lemma WF_not_through_existing s k r : WF s -> lookup s k = Some r -> through_file s k = false.
Proof.
  intros W Hl. apply through_file_false. intros a Hb.
  destruct (is_file_at s a) eqn:Hf; [|reflexivity].
  apply is_file_at_true in Hf as (ra & na & Hla & Hna & Hda).
  pose proof (WF_ancestors_dirs s W k r Hl a (g_canon _ _ _ _ W a ra Hla) Hb) as Hd.
  unfold is_dir_at, kind_at in Hd. rewrite Hla, Hna, Hda in Hd. discriminate.
Qed.

Lemma WF_not_through_dir_parent s k : WF s -> canon k -> is_dir_at s (par k) = true -> through_file s k = false.
Proof.
  intros W Hc Hd. apply through_file_false. intros a Hb.
  destruct (is_file_at s a) eqn:Hf; [|reflexivity].
  apply is_file_at_true in Hf as (ra & na & Hla & Hna & Hda).
  pose proof (g_canon _ _ _ _ W a ra Hla) as Ha.
  apply is_dir_at_true in Hd as (p & pn & Hp & Hpn & Hpd).
  destruct (below_inv a k Ha Hc Hb) as [-> | Hb']; [congruence|].
  pose proof (WF_ancestors_dirs s W (par k) p Hp a Ha Hb') as Hd.
  unfold is_dir_at, kind_at in Hd. rewrite Hla, Hna, Hda in Hd. discriminate.
Qed.

Lemma not_through_prefixes_dirs s k : prefixes_dirs s k = true -> through_file s k = false.
Proof.
  intros Hp. apply through_file_false. intros a Hb.
  destruct (is_file_at s a) eqn:Hf; [|reflexivity].
  pose proof Hf as Hf'. apply is_file_at_true in Hf' as (ra & na & Hla & Hna & Hda).
  pose proof (forallb_lookup _ s a ra tt Hp Hla) as H. cbn [fst] in H. rewrite Hb, orb_true_r in H. cbn [negb orb] in H.
  unfold is_dir_at, kind_at in H. rewrite Hla, Hna, Hda in H. discriminate.
Qed.

(* ---------- a name that passes through a regular file: free, and the walk of lockfreeBelowFile
              ends at that file ---------- *)
Lemma through_file_nearest s : WF s -> forall k, canon k -> through_file s k = true ->
  lookup s k = None /\ nearest_is_file s (par k).
Proof.
  intros W k Hc Ht. apply through_file_true in Ht as (a & Hb & Hla & Hf).
  apply is_file_at_true in Hf as (ra & na & Hl & Hna & Hda). clear Hla.
  pose proof (g_canon _ _ _ _ W a ra Hl) as Ha.
  remember (length k) as m eqn:Em. revert k Em Hc Hb.
  induction m as [m IH] using lt_wf_ind. intros k Em Hc Hb.
  assert (Hkr : k <> s_slash) by (apply (below_not_root a k Ha Hb)).
  assert (Hnear : nearest_is_file s (par k) /\ (lookup s (par k) = Some ra \/ lookup s (par k) = None)).
  { destruct (below_inv a k Ha Hc Hb) as [E | Hb'].
    - subst a. split; [|now left]. apply (nif_here s (par k) ra na); [now rewrite (canon_norm _ Ha) | exact Hna | exact Hda].
    - destruct (IH (length (par k))) with (k := par k) as [Hn1 Hn2]; auto; [subst m; now apply par_shorter | now apply canon_par|].
      split; [|now right]. apply nif_up; [now rewrite (canon_norm _ (canon_par k Hc)) | exact Hn2]. }
  destruct Hnear as [Hnear Hpar]. split; [|exact Hnear].
  destruct (lookup s k) as [r|] eqn:Hk; [|reflexivity]. exfalso.
  destruct (g_par _ _ _ _ W k r Hk (WF_fresh s k r W Hk) Hkr) as (p & pn & Hp & Hpn & Hpd & _); [intros [] | intros [] |].
  destruct Hpar as [E|E]; congruence.
Qed.

Lemma through_file_refused s k : WF s -> canon k -> through_file s k = true ->
  lookup s k = None /\ below_file s k = true.
Proof.
  intros W Hc Ht. destruct (through_file_nearest s W k Hc Ht) as [Hl Hn]. split; [exact Hl|].
  rewrite <- (canon_norm k Hc). apply below_file_nearest. now rewrite (canon_norm k Hc).
Qed.

(* ---------- the refused calls ---------- *)
Theorem below_raw s o : WF s -> wf_below s o = true -> m_step_raw s o = (s, RErr (EW KENOTDIR)).
Proof.
  intros W Hwf. destruct o; cbn [wf_below] in Hwf; try discriminate Hwf; cbn [m_step_raw].
  - (* Create *) apply andb_true_iff in Hwf as [Hn Ht].
    destruct (through_file_refused s _ W (canon_normalize p Hn) Ht) as [Hl Hb].
    unfold m_create. now rewrite Hl, Hb.
  - (* Mkdir *) apply andb_true_iff in Hwf as [Hn Ht].
    destruct (through_file_refused s _ W (canon_normalize p Hn) Ht) as [Hl Hb].
    unfold m_mkdir. now rewrite Hl, Hb.
  - (* MkdirAll *) apply andb_true_iff in Hwf as [Hn Ht]. apply andb_true_iff in Hn as [Hn _].
    destruct (through_file_refused s _ W (canon_normalize p Hn) Ht) as [Hl Hb].
    unfold m_mkdirall, m_mkdir. now rewrite Hl, Hb.
  - (* OpenFile *) apply andb_true_iff in Hwf as [Hn Ht]. apply andb_true_iff in Hn as [Hn Hcr]. apply andb_true_iff in Hn as [Hn _].
    destruct (through_file_refused s _ W (canon_normalize p Hn) Ht) as [Hl Hb].
    unfold m_openfile. now rewrite Hl, Hcr, Hb.
  - (* Rename *) apply andb_true_iff in Hwf as [Hn Hwf]. apply andb_true_iff in Hn as [Hn _]. apply andb_true_iff in Hn as [_ Hnq].
    destruct (kind_at s (normalize_path p)) as [isd|] eqn:Hk; [|discriminate].
    apply kind_at_some in Hk as (f & fn & Hl & _). apply andb_true_iff in Hwf as [Hne Ht]. apply negb_true_iff in Hne.
    destruct (through_file_refused s _ W (canon_normalize q Hnq) Ht) as [_ Hb].
    unfold m_rename. now rewrite Hl, Hne, Hb.
Qed.

Lemma below_step_ticked s o : WF s -> wf_below s o = true -> m_step s o = (ticked s, RErr (EW KENOTDIR)).
Proof. intros W Hwf. unfold m_step. now rewrite (below_raw s o W Hwf). Qed.

(* only the five creating calls can be refused this way *)
Lemma wf_below_creating s o : wf_below s o = true ->
  match o with Create _ | Mkdir _ _ | MkdirAll _ _ | OpenFile _ _ _ | Rename _ _ => True | _ => False end.
Proof. destruct o; cbn [wf_below]; try discriminate; auto. Qed.

(* ---------- the two halves of the class do not overlap in a WF state, and the ordinary half is
              what it was before MemMapFs refused anything ---------- *)
Lemma wf_ord_not_below s o : WF s -> wf_op_ord s o = true -> wf_below s o = false.
Proof.
  intros W Ho. destruct (wf_below s o) eqn:Hb; [|reflexivity]. exfalso.
  destruct o; cbn [wf_below] in Hb; try discriminate Hb; cbn [wf_op_ord] in Ho.
  - (* Create *) apply andb_true_iff in Hb as [Hn Ht]. apply andb_true_iff in Ho as [_ Ho].
    pose proof (canon_normalize p Hn) as Hc. destruct (through_file_refused s _ W Hc Ht) as [Hl _].
    unfold kind_at in Ho. rewrite Hl in Ho. rewrite (WF_not_through_dir_parent s _ W Hc Ho) in Ht. discriminate.
  - (* Mkdir *) apply andb_true_iff in Hb as [Hn Ht]. apply andb_true_iff in Ho as [_ Ho].
    pose proof (canon_normalize p Hn) as Hc. destruct (through_file_refused s _ W Hc Ht) as [Hl _].
    rewrite Hl in Ho. rewrite (WF_not_through_dir_parent s _ W Hc Ho) in Ht. discriminate.
  - (* MkdirAll *) apply andb_true_iff in Hb as [Hn Ht]. apply andb_true_iff in Ho as [_ Ho].
    rewrite (not_through_prefixes_dirs s _ Ho) in Ht. discriminate.
  - (* OpenFile *) apply andb_true_iff in Hb as [Hn Ht]. apply andb_true_iff in Hn as [Hn Hcr]. apply andb_true_iff in Hn as [Hn _].
    apply andb_true_iff in Ho as [_ Ho].
    pose proof (canon_normalize p Hn) as Hc. destruct (through_file_refused s _ W Hc Ht) as [Hl _].
    unfold kind_at in Ho. rewrite Hl, Hcr in Ho. rewrite (WF_not_through_dir_parent s _ W Hc Ho) in Ht. discriminate.
  - (* Rename *) apply andb_true_iff in Hb as [Hn Hb]. apply andb_true_iff in Hn as [Hn _]. apply andb_true_iff in Hn as [_ Hnq].
    apply andb_true_iff in Ho as [_ Ho].
    destruct (kind_at s (normalize_path p)) as [isd|] eqn:Hk; [|discriminate].
    apply andb_true_iff in Hb as [Hne Ht]. apply negb_true_iff in Hne. rewrite Hne in Ho. cbn [orb] in Ho.
    apply andb_true_iff in Ho as [_ Ho].
    pose proof (canon_normalize q Hnq) as Hc. destruct (through_file_refused s _ W Hc Ht) as [Hl _].
    unfold kind_at in Ho. rewrite Hl in Ho. rewrite (WF_not_through_dir_parent s _ W Hc Ho) in Ht. discriminate.
Qed.

Lemma wf_op_cases s o : wf_op s o = true -> wf_op_ord s o = true \/ wf_below s o = true.
Proof. unfold wf_op. intros H. now apply orb_true_iff in H. Qed.

Lemma wf_op_of_ord s o : wf_op_ord s o = true -> wf_op s o = true.
Proof. unfold wf_op. intros ->. reflexivity. Qed.
Lemma wf_op_of_below s o : wf_below s o = true -> wf_op s o = true.
Proof. unfold wf_op. intros ->. apply orb_true_r. Qed.

(* calls through a handle are in the class iff they satisfy the ordinary precondition *)
Lemma wf_op_handle s o : op_handle_of o <> None -> wf_op s o = wf_op_ord s o.
Proof. unfold wf_op. destruct o; cbn [op_handle_of wf_below]; try congruence; intros _; apply orb_false_r. Qed.

(* ---------- a name that does not pass through a regular file is not refused ---------- *)
Lemma not_through_below_file s k : WF s -> canon k -> through_file s k = false -> below_file s k = false.
Proof.
  intros W Hc Ht. apply below_file_anc_dirs; [exact Hc|]. intros a r n Ha Hcase Hl Hn.
  destruct (str_eq_dec a s_slash) as [->|Hane].
  - destruct (g_root _ _ _ _ W) as (r0 & n0 & Hl0 & Hn0 & _ & Hd0). congruence.
  - assert (Hkr : k <> s_slash).
    { intros ->. rewrite par_root in Hcase. destruct Hcase as [E | [Hb | E]]; try contradiction.
      now apply (below_not_root a s_slash Ha Hb). }
    assert (Hb : below a k = true).
    { apply below_step; auto. destruct Hcase as [ E | [ Hb | E ] ]; [now left | now right | contradiction]. }
    pose proof (proj1 (through_file_false s k) Ht a Hb) as Hf. unfold is_file_at, kind_at in Hf. rewrite Hl, Hn in Hf.
    now destruct (ndir n).
Qed.

(* ---------- Rename of a missing source (memmap.go, the branch read as
              memfs_rename_missing_source_enotdir): nothing changes; ENOTDIR iff the directory of the
              source is a directory and the target passes through a regular file ---------- *)
Lemma dir_is_dir_canon s k : canon k -> dir_is_dir s k = is_dir_at s (par k).
Proof.
  intros Hc. unfold dir_is_dir, is_dir_at, kind_at, lockfree_open. change (path_dir k) with (par k).
  rewrite (canon_norm _ (canon_par k Hc)). destruct (lookup s (par k)) as [d|]; [|reflexivity].
  destruct (get_node s d) as [n|]; [now destruct (ndir n) | reflexivity].
Qed.

Lemma m_rename_missing s p q : WF s -> canon (normalize_path p) -> canon (normalize_path q) ->
  lookup s (normalize_path p) = None ->
  m_rename s p q = (s, RErr (EW (if is_dir_at s (par (normalize_path p)) && through_file s (normalize_path q) then KENOTDIR else KNotExist))).
Proof.
  intros W Ho Hn Hl. unfold m_rename. rewrite Hl, memfs_rename_missing_source_enotdir_fact, (dir_is_dir_canon s _ Ho).
  cbn [Z.eqb Pos.eqb andb]. destruct (is_dir_at s (par (normalize_path p))); [|reflexivity]. cbn [andb].
  destruct (through_file s (normalize_path q)) eqn:Ht.
  - now rewrite (proj2 (through_file_refused s _ W Hn Ht)).
  - now rewrite (not_through_below_file s _ W Hn Ht).
Qed.

(* ---------- the ordinary preconditions never name a path through a regular file ---------- *)
Lemma WF_root_dir s : WF s -> is_dir_at s s_slash = true.
Proof. intros W. destruct (g_root _ _ _ _ W) as (r & n & Hl & Hn & _ & Hd). unfold is_dir_at, kind_at. now rewrite Hl, Hn, Hd. Qed.

Lemma WF_parent_dir s k r : WF s -> lookup s k = Some r -> is_dir_at s (par k) = true.
Proof.
  intros W Hl. destruct (str_eq_dec k s_slash) as [->|Hne]; [rewrite par_root; now apply WF_root_dir|].
  destruct (g_par _ _ _ _ W k r Hl (WF_fresh s k r W Hl) Hne) as (p & pn & Hp & Hpn & Hpd & _); [intros [] | intros [] |].
  unfold is_dir_at, kind_at. now rewrite Hp, Hpn, Hpd.
Qed.

Lemma kind_at_lookup s k b : kind_at s k = Some b -> exists r, lookup s k = Some r.
Proof. intros H. apply kind_at_some in H as (r & n & Hl & _). now exists r. Qed.

Theorem ord_not_through s o : WF s -> wf_op_ord s o = true ->
  match o with
  | Create p | Mkdir p _ | MkdirAll p _ | Open p | OpenFile p _ _ | Remove p | RemoveAll p | Stat p
  | Chmod p _ | Chown p _ _ | Chtimes p _ => through_file s (normalize_path p) = false
  | Rename p q =>
      let old := normalize_path p in let new := normalize_path q in
      through_file s old = false /\
      (lookup s old <> None -> is_dir_at s (par old) = true /\ through_file s new = false)
  | _ => True
  end.
Proof.
  intros W Ho. destruct o; cbn [wf_op_ord] in Ho; try exact I.
  - (* Create *) apply andb_true_iff in Ho as [Hn Ho]. pose proof (canon_normalize p Hn) as Hc.
    destruct (kind_at s (normalize_path p)) as [[|]|] eqn:Hk; [discriminate | |].
    + apply kind_at_lookup in Hk as [r Hl]. now apply (WF_not_through_existing s _ r).
    + now apply WF_not_through_dir_parent.
  - (* Mkdir *) apply andb_true_iff in Ho as [Hn Ho]. pose proof (canon_normalize p Hn) as Hc.
    destruct (lookup s (normalize_path p)) as [r|] eqn:Hl; [now apply (WF_not_through_existing s _ r) | now apply WF_not_through_dir_parent].
  - (* MkdirAll *) apply andb_true_iff in Ho as [_ Ho]. now apply not_through_prefixes_dirs.
  - (* Open *) apply andb_true_iff in Ho as [_ Ho]. rewrite no_file_prefix_through in Ho. now apply negb_true_iff in Ho.
  - (* OpenFile *) apply andb_true_iff in Ho as [Hn Ho]. apply andb_true_iff in Hn as [Hn _]. pose proof (canon_normalize p Hn) as Hc.
    destruct (kind_at s (normalize_path p)) as [b|] eqn:Hk.
    + apply kind_at_lookup in Hk as [r Hl]. now apply (WF_not_through_existing s _ r).
    + destruct (flag_has flag o_create); [now apply WF_not_through_dir_parent|].
      rewrite no_file_prefix_through in Ho. now apply negb_true_iff in Ho.
  - (* Remove *) apply andb_true_iff in Ho as [Hn Ho]. apply andb_true_iff in Hn as [Hn _]. pose proof (canon_normalize p Hn) as Hc.
    destruct (kind_at s (normalize_path p)) as [b|] eqn:Hk.
    + apply kind_at_lookup in Hk as [r Hl]. now apply (WF_not_through_existing s _ r).
    + now apply WF_not_through_dir_parent.
  - (* RemoveAll *) apply andb_true_iff in Ho as [_ Ho]. rewrite no_file_prefix_through in Ho. now apply negb_true_iff in Ho.
  - (* Rename *) apply andb_true_iff in Ho as [Hn Ho]. apply andb_true_iff in Hn as [Hn _]. apply andb_true_iff in Hn as [Hnp Hnq].
    pose proof (canon_normalize p Hnp) as Hco. pose proof (canon_normalize q Hnq) as Hcn. cbv zeta.
    destruct (kind_at s (normalize_path p)) as [isd|] eqn:Hk.
    + apply kind_at_lookup in Hk as [r Hl]. split; [now apply (WF_not_through_existing s _ r)|].
      intros _. split; [now apply (WF_parent_dir s _ r)|].
      apply orb_true_iff in Ho as [E | Ho]; [apply beqb_eq in E; rewrite <- E; now apply (WF_not_through_existing s _ r)|].
      apply andb_true_iff in Ho as [_ Ho].
      destruct (kind_at s (normalize_path q)) as [d2|] eqn:Hk2.
      * apply kind_at_lookup in Hk2 as [r2 Hl2]. now apply (WF_not_through_existing s _ r2).
      * now apply WF_not_through_dir_parent.
    + rewrite no_file_prefix_through in Ho. apply negb_true_iff in Ho.
      split; [exact Ho|]. intros Hl. exfalso. apply Hl. now apply WF_kind_none.
  - (* Stat *) apply andb_true_iff in Ho as [_ Ho]. rewrite no_file_prefix_through in Ho. now apply negb_true_iff in Ho.
  - (* Chmod *) apply andb_true_iff in Ho as [_ Ho]. rewrite no_file_prefix_through in Ho. now apply negb_true_iff in Ho.
  - (* Chown *) apply andb_true_iff in Ho as [_ Ho]. rewrite no_file_prefix_through in Ho. now apply negb_true_iff in Ho.
  - (* Chtimes *) apply andb_true_iff in Ho as [_ Ho]. rewrite no_file_prefix_through in Ho. now apply negb_true_iff in Ho.
Qed.
