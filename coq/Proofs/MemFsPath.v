(* Proofs/MemFsPath.v — path facts needed by the MemMapFs invariant proofs: the keys of the path
   map are canonical absolute paths "/s1/…/sn"; parent, "strictly below", prefix rewriting and
   depth are computed on the list of segments.  (Nothing here is about arbitrary spellings:
   that is Proofs/PathProof.v.) *)
From AF Require Import Lib.Bytes Lib.Path Lib.Ops Model.WfOps Proofs.BytesLemmas.

(* ---------- byte-string equality ---------- *)
Lemma beqb_eq a b : beqb a b = true <-> a = b.
Proof.
  revert b; induction a as [|x a IH]; intros [|y b]; cbn; try (split; [discriminate|discriminate]); try tauto.
  rewrite andb_true_iff, N.eqb_eq, IH. split; [intros [-> ->]; reflexivity | intros H; inversion H; auto].
Qed.
Lemma beqb_refl a : beqb a a = true.
Proof. now apply beqb_eq. Qed.
Lemma beqb_neq a b : beqb a b = false <-> a <> b.
Proof.
  split.
  - intros H E. apply beqb_eq in E. congruence.
  - intros H. destruct (beqb a b) eqn:E; [apply beqb_eq in E; contradiction | reflexivity].
Qed.
Lemma beqb_sym a b : beqb a b = beqb b a.
Proof.
  destruct (beqb a b) eqn:E.
  - apply beqb_eq in E. subst. symmetry. apply beqb_refl.
  - apply beqb_neq in E. symmetry. apply beqb_neq. congruence.
Qed.
Lemma str_eq_dec (a b : str) : {a = b} + {a <> b}.
Proof. destruct (beqb a b) eqn:E; [left; now apply beqb_eq | right; now apply beqb_neq]. Qed.

Lemma prefixb_app p r : prefixb p (p ++ r) = true.
Proof. apply prefixb_spec. now exists r. Qed.

(* ---------- segments ---------- *)
Definition noslash (x : str) : Prop := ~ In SLASH x.
Definition good_seg (x : str) : Prop := x <> [] /\ noslash x /\ x <> s_dot /\ x <> s_dotdot.
Definition pth (segs : list str) : str := SLASH :: join_slash segs.

Lemma noslash_cons c x : noslash (c :: x) <-> c <> SLASH /\ noslash x.
Proof. unfold noslash; cbn. split; [intros H; split; intros E; apply H; auto | intros [H1 H2] [E|E]; auto]. Qed.

Lemma split_aux_noslash x acc : noslash x -> split_aux x acc = [rev acc ++ x].
Proof.
  revert acc; induction x as [|c x IH]; intros acc H; cbn.
  - now rewrite app_nil_r.
  - apply noslash_cons in H as [Hc Hx]. apply N.eqb_neq in Hc. rewrite Hc, IH by exact Hx.
    cbn. now rewrite <- app_assoc.
Qed.

Lemma split_aux_app x r acc : noslash x -> split_aux (x ++ SLASH :: r) acc = (rev acc ++ x) :: split_aux r [].
Proof.
  revert acc; induction x as [|c x IH]; intros acc H; cbn.
  - now rewrite app_nil_r.
  - apply noslash_cons in H as [Hc Hx]. apply N.eqb_neq in Hc. rewrite Hc, IH by exact Hx.
    cbn. now rewrite <- app_assoc.
Qed.

Lemma join_slash_cons x y r : join_slash (x :: y :: r) = x ++ SLASH :: join_slash (y :: r).
Proof. reflexivity. Qed.

Lemma join_slash_app a b : a <> [] -> b <> [] -> join_slash (a ++ b) = join_slash a ++ SLASH :: join_slash b.
Proof.
  intros Ha Hb. induction a as [|x a IH]; [contradiction|].
  destruct a as [|y a].
  - destruct b; [contradiction|]. reflexivity.
  - change ((x :: y :: a) ++ b) with (x :: y :: (a ++ b)). rewrite !join_slash_cons.
    change (y :: a ++ b) with ((y :: a) ++ b). rewrite IH by discriminate. now rewrite <- app_assoc.
Qed.

Lemma split_join_app segs t : segs <> [] -> Forall noslash segs ->
  split_aux (join_slash segs ++ SLASH :: t) [] = segs ++ split_aux t [].
Proof.
  intros Hne Hf. induction segs as [|x segs IH]; [contradiction|].
  inversion Hf as [|? ? Hx Hr]; subst. destruct segs as [|y segs].
  - cbn [join_slash]. rewrite split_aux_app by exact Hx. reflexivity.
  - rewrite join_slash_cons, <- app_assoc. cbn [app]. rewrite split_aux_app by exact Hx.
    cbn [rev app]. f_equal. apply IH; [discriminate | exact Hr].
Qed.

Lemma split_join segs : segs <> [] -> Forall noslash segs -> split_slash (join_slash segs) = segs.
Proof.
  intros Hne Hf. unfold split_slash. induction segs as [|x segs IH]; [contradiction|].
  inversion Hf as [|? ? Hx Hr]; subst. destruct segs as [|y segs].
  - cbn [join_slash]. now rewrite split_aux_noslash.
  - rewrite join_slash_cons, split_aux_app by exact Hx. cbn [rev app]. f_equal. apply IH; [discriminate | exact Hr].
Qed.

Lemma good_noslash segs : Forall good_seg segs -> Forall noslash segs.
Proof. apply Forall_impl. intros x H; apply H. Qed.

Lemma good_flags x : good_seg x -> is_empty x = false /\ is_dot x = false /\ is_dotdot x = false.
Proof.
  intros (H1 & _ & H3 & H4). repeat split.
  - destruct x; [contradiction | reflexivity].
  - now apply beqb_neq.
  - now apply beqb_neq.
Qed.

Lemma norm_aux_good_app gs r st : Forall good_seg gs ->
  norm_aux true (gs ++ r) st = norm_aux true r (rev gs ++ st).
Proof.
  revert st; induction gs as [|g gs IH]; intros st Hf; [reflexivity|].
  inversion Hf as [|? ? Hg Hr]; subst. destruct (good_flags g Hg) as (E1 & E2 & E3).
  cbn [app norm_aux]. rewrite E1, E2, E3. cbn [orb]. rewrite IH by exact Hr. cbn [rev]. now rewrite <- app_assoc.
Qed.

Lemma norm_aux_good gs st : Forall good_seg gs -> norm_aux true gs st = rev st ++ gs.
Proof.
  intros Hf. rewrite <- (app_nil_r gs) at 1. rewrite norm_aux_good_app by exact Hf. cbn [norm_aux].
  now rewrite rev_app_distr, rev_involutive.
Qed.

Lemma norm_aux_skip b r st : norm_aux b ([] :: r) st = norm_aux b r st.
Proof. reflexivity. Qed.

Lemma pth_rooted segs : is_rooted (pth segs) = true.
Proof. reflexivity. Qed.

Lemma clean_pth segs : Forall good_seg segs -> clean (pth segs) = pth segs.
Proof.
  intros Hf. unfold clean, clean_segs. rewrite pth_rooted. unfold render, pth at 2. f_equal.
  unfold split_slash, pth. cbn [split_aux N.eqb]. change (N.eqb SLASH SLASH) with true. cbn [rev].
  destruct segs as [|x segs].
  - reflexivity.
  - fold (split_slash (join_slash (x :: segs))). rewrite split_join; [|discriminate|now apply good_noslash].
    rewrite norm_aux_skip. now rewrite norm_aux_good.
Qed.

Lemma clean_pth_slash segs : segs <> [] -> Forall good_seg segs -> clean (pth segs ++ [SLASH]) = pth segs.
Proof.
  intros Hne Hf. unfold clean, clean_segs.
  assert (Hr : is_rooted (pth segs ++ [SLASH]) = true) by reflexivity. rewrite Hr.
  unfold render, pth at 2. f_equal.
  unfold split_slash, pth. cbn [app split_aux]. change (N.eqb SLASH SLASH) with true. cbn [rev].
  rewrite split_join_app; [|exact Hne|now apply good_noslash]. cbn [split_aux rev].
  rewrite norm_aux_skip. rewrite norm_aux_good_app by exact Hf. rewrite norm_aux_skip. cbn [norm_aux].
  now rewrite app_nil_r, rev_involutive.
Qed.

Lemma normalize_pth segs : Forall good_seg segs -> normalize_path (pth segs) = pth segs.
Proof. intros Hf. unfold normalize_path. rewrite clean_pth by exact Hf. reflexivity. Qed.

(* ---------- Split / Dir on canonical paths ---------- *)
Lemma split_last_noslash x : noslash x -> split_last_aux x = None.
Proof.
  induction x as [|c x IH]; intros H; [reflexivity|]. apply noslash_cons in H as [Hc Hx].
  cbn. rewrite IH by exact Hx. apply N.eqb_neq in Hc. now rewrite Hc.
Qed.

Lemma split_last_app a x : noslash x -> split_last_aux (a ++ SLASH :: x) = Some (a ++ [SLASH], x).
Proof.
  intros Hx. induction a as [|c a IH]; cbn [app split_last_aux].
  - rewrite split_last_noslash by exact Hx. reflexivity.
  - rewrite IH. reflexivity.
Qed.

Lemma pth_snoc segs x : pth (segs ++ [x]) = match segs with [] => SLASH :: x | _ => pth segs ++ SLASH :: x end.
Proof.
  destruct segs as [|y segs]; [reflexivity|]. unfold pth. rewrite join_slash_app by discriminate. reflexivity.
Qed.

Lemma path_split_pth segs x : noslash x ->
  path_split (pth (segs ++ [x])) = (match segs with [] => [SLASH] | _ => pth segs ++ [SLASH] end, x).
Proof.
  intros Hx. unfold path_split. rewrite pth_snoc. destruct segs as [|y segs].
  - change (SLASH :: x) with ([] ++ SLASH :: x). rewrite split_last_app by exact Hx. reflexivity.
  - rewrite split_last_app by exact Hx. reflexivity.
Qed.

Lemma path_dir_pth segs x : Forall good_seg segs -> noslash x -> path_dir (pth (segs ++ [x])) = pth segs.
Proof.
  intros Hf Hx. unfold path_dir. rewrite path_split_pth by exact Hx. cbn [fst]. destruct segs as [|y segs].
  - reflexivity.
  - apply clean_pth_slash; [discriminate | exact Hf].
Qed.

Lemma path_base_split segs x : noslash x -> snd (path_split (pth (segs ++ [x]))) = x.
Proof. intros Hx. now rewrite path_split_pth. Qed.

(* ---------- canonical = fixed point of normalizePath, rooted ---------- *)
Definition canon (k : str) : Prop := normalize_path k = k /\ is_rooted k = true.

Lemma split_aux_noslash_all s acc : noslash acc -> Forall noslash (split_aux s acc).
Proof.
  revert acc; induction s as [|c s IH]; intros acc Ha; cbn.
  - constructor; [|constructor]. unfold noslash in *. now rewrite <- in_rev.
  - destruct (N.eqb c SLASH) eqn:E.
    + constructor; [unfold noslash in *; now rewrite <- in_rev | apply IH; intros []].
    + apply IH. apply noslash_cons. split; [now apply N.eqb_neq | exact Ha].
Qed.

Lemma split_slash_noslash s : Forall noslash (split_slash s).
Proof. apply split_aux_noslash_all. intros []. Qed.

Lemma norm_aux_rooted_good segs st : Forall noslash segs -> Forall good_seg st -> Forall good_seg (norm_aux true segs st).
Proof.
  revert st; induction segs as [|s r IH]; intros st Hs Hst; cbn [norm_aux].
  - apply Forall_rev. exact Hst.
  - inversion Hs as [|? ? Hs1 Hs2]; subst.
    destruct (is_empty s) eqn:E1; cbn [orb]; [now apply IH|].
    destruct (is_dot s) eqn:E2; [now apply IH|].
    destruct (is_dotdot s) eqn:E3.
    + destruct st as [|top st']; [now apply IH|].
      inversion Hst as [|? ? Ht Hst']; subst.
      destruct (is_dotdot top) eqn:E4.
      * exfalso. destruct Ht as (_ & _ & _ & Ht). apply beqb_eq in E4. contradiction.
      * now apply IH.
    + apply IH; [exact Hs2|]. constructor; [|exact Hst].
      repeat split; [destruct s; [discriminate|discriminate] | exact Hs1 | now apply beqb_neq | now apply beqb_neq].
Qed.


Lemma canon_pth segs : Forall good_seg segs -> canon (pth segs).
Proof. intros Hf. split; [now apply normalize_pth | reflexivity]. Qed.

Lemma canon_inv k : canon k -> exists segs, Forall good_seg segs /\ k = pth segs.
Proof.
  intros [Hn Hr]. unfold normalize_path in Hn.
  destruct (is_dot (clean k) || is_dotdot (clean k)).
  - exists []. split; [constructor | now rewrite <- Hn].
  - exists (clean_segs k). split.
    + unfold clean_segs. rewrite Hr. apply norm_aux_rooted_good; [apply split_slash_noslash | constructor].
    + unfold clean in Hn. rewrite Hr in Hn. cbn [render] in Hn. now rewrite <- Hn at 1.
Qed.

Lemma canon_root : canon s_slash.
Proof. exact (canon_pth [] (Forall_nil _)). Qed.

(* relative results of Clean never start with a slash *)
Definition ne_seg (x : str) : Prop := x <> [] /\ noslash x.
Lemma norm_aux_ne b segs st : Forall noslash segs -> Forall ne_seg st -> Forall ne_seg (norm_aux b segs st).
Proof.
  revert st; induction segs as [|s r IH]; intros st Hs Hst; cbn [norm_aux].
  - apply Forall_rev. exact Hst.
  - inversion Hs as [|? ? Hs1 Hs2]; subst.
    assert (Hpush : is_empty s = false -> Forall ne_seg (s :: st)).
    { intros E. constructor; [|exact Hst]. split; [destruct s; [discriminate E|discriminate] | exact Hs1]. }
    destruct (is_empty s) eqn:E1; cbn [orb]; [now apply IH|].
    destruct (is_dot s) eqn:E2; [now apply IH|].
    destruct (is_dotdot s) eqn:E3.
    + destruct st as [|top st'].
      * destruct b; apply IH; auto.
      * destruct (is_dotdot top); [apply IH; auto|]. apply IH; [exact Hs2|]. now inversion Hst.
    + apply IH; auto.
Qed.

Lemma canon_normalize p : is_rooted (normalize_path p) = true -> canon (normalize_path p).
Proof.
  intros Hr. unfold normalize_path in *. destruct (is_dot (clean p) || is_dotdot (clean p)); [apply canon_root|].
  unfold clean in *. destruct (is_rooted p) eqn:Hp.
  - cbn [render] in *. apply canon_pth. unfold clean_segs. rewrite Hp.
    apply norm_aux_rooted_good; [apply split_slash_noslash | constructor].
  - exfalso. unfold render in Hr.
    pose proof (norm_aux_ne false (split_slash p) [] (split_slash_noslash p) (Forall_nil _)) as Hne.
    unfold clean_segs in Hr. rewrite Hp in Hr.
    destruct (norm_aux false (split_slash p) []) as [|x r]; [discriminate Hr|].
    inversion Hne as [|? ? [Hx1 Hx2] _]; subst.
    destruct x as [|c x]; [contradiction|]. apply noslash_cons in Hx2 as [Hc _].
    assert (Hh : is_rooted (join_slash ((c :: x) :: r)) = N.eqb c SLASH) by (destruct r; reflexivity).
    assert (Ht : N.eqb c SLASH = true) by (etransitivity; [symmetry; exact Hh | exact Hr]).
    apply N.eqb_eq in Ht. contradiction.
Qed.

(* ---------- injectivity, parent ---------- *)
Lemma join_slash_nonempty x r : x <> [] -> join_slash (x :: r) <> [].
Proof. intros Hx. destruct r; cbn; [exact Hx|]. destruct x; [contradiction | discriminate]. Qed.

Lemma pth_inj a b : Forall good_seg a -> Forall good_seg b -> pth a = pth b -> a = b.
Proof.
  intros Ha Hb E. unfold pth in E. inversion E as [E'].
  destruct a as [|x a], b as [|y b]; [reflexivity | | |].
  - exfalso. inversion Hb as [|? ? (Hy & _) _]; subst. symmetry in E'. revert E'. now apply join_slash_nonempty.
  - exfalso. inversion Ha as [|? ? (Hx & _) _]; subst. revert E'. now apply join_slash_nonempty.
  - rewrite <- (split_join (x :: a)), <- (split_join (y :: b)); try discriminate; try now apply good_noslash.
    now rewrite E'.
Qed.

Lemma pth_root_iff segs : pth segs = s_slash <-> segs = [] \/ segs = [[]].
Proof.
  unfold pth, s_slash. split.
  - intros E. inversion E as [E']. destruct segs as [|x [|y r]]; [now left | right; cbn in E'; now subst |].
    exfalso. rewrite join_slash_cons in E'. destruct x; discriminate.
  - intros [->| ->]; reflexivity.
Qed.

Lemma good_pth_root segs : Forall good_seg segs -> pth segs = s_slash -> segs = [].
Proof.
  intros Hf E. apply pth_root_iff in E as [->| ->]; [reflexivity|]. exfalso.
  inversion Hf as [|? ? (Hx & _) _]; subst. now apply Hx.
Qed.

(* a non-root canonical path is  pth (init ++ [last]) *)
Lemma canon_inv_snoc k : canon k -> k <> s_slash ->
  exists segs x, Forall good_seg segs /\ good_seg x /\ k = pth (segs ++ [x]).
Proof.
  intros Hc Hne. destruct (canon_inv k Hc) as (segs & Hf & ->).
  destruct (exists_last (l := segs)) as (init & x & ->); [intros ->; now apply Hne|].
  apply Forall_app in Hf as [Hi Hx]. inversion Hx; subst. now exists init, x.
Qed.


Lemma par_pth segs x : Forall good_seg segs -> good_seg x -> par (pth (segs ++ [x])) = pth segs.
Proof. intros Hf Hx. apply path_dir_pth; [exact Hf | apply Hx]. Qed.

Lemma par_root : par s_slash = s_slash.
Proof. reflexivity. Qed.

Lemma canon_par k : canon k -> canon (par k).
Proof.
  intros Hc. destruct (str_eq_dec k s_slash) as [->|Hne]; [exact canon_root|].
  destruct (canon_inv_snoc k Hc Hne) as (segs & x & Hf & Hx & ->). rewrite par_pth by assumption. now apply canon_pth.
Qed.

Lemma pth_length_snoc segs x : length (pth segs) < length (pth (segs ++ [x])) \/ (segs = [] /\ x = []).
Proof.
  rewrite pth_snoc. destruct segs as [|y segs].
  - destruct x; [right; auto | left; cbn; lia].
  - left. rewrite app_length. cbn. lia.
Qed.

Lemma par_shorter k : canon k -> k <> s_slash -> length (par k) < length k.
Proof.
  intros Hc Hne. destruct (canon_inv_snoc k Hc Hne) as (segs & x & Hf & Hx & ->). rewrite par_pth by assumption.
  destruct (pth_length_snoc segs x) as [H|[_ ->]]; [exact H|]. destruct Hx as [Hx _]. now contradiction Hx.
Qed.

Lemma par_neq k : canon k -> k <> s_slash -> par k <> k.
Proof. intros Hc Hne E. pose proof (par_shorter k Hc Hne) as H. rewrite E in H. lia. Qed.

Lemma canon_clean k : canon k -> clean k = k.
Proof. intros Hc. destruct (canon_inv k Hc) as (segs & Hf & ->). now apply clean_pth. Qed.

Lemma canon_norm k : canon k -> normalize_path k = k.
Proof. intros [H _]; exact H. Qed.

(* what findParent and registerWithParent compute for a canonical name *)
Lemma find_parent_path k : canon k -> normalize_path (clean (fst (path_split k))) = par k.
Proof. intros Hc. apply (canon_norm _ (canon_par k Hc)). Qed.

Lemma register_path k : canon k -> normalize_path (path_dir (clean k)) = par k.
Proof. intros Hc. rewrite canon_clean by exact Hc. apply (canon_norm _ (canon_par k Hc)). Qed.

(* ---------- strictly below ---------- *)

Lemma below_spec a k : below a k = true <-> exists r, k = a ++ SLASH :: r.
Proof.
  unfold below. rewrite prefixb_spec. split; intros [r ->]; exists r; now rewrite <- app_assoc.
Qed.

Lemma below_shorter a k : below a k = true -> length a < length k.
Proof. intros H. apply below_spec in H as [r ->]. rewrite app_length. cbn. lia. Qed.

Lemma below_irrefl a : below a a = false.
Proof. destruct (below a a) eqn:E; [|reflexivity]. apply below_shorter in E. lia. Qed.

Lemma below_trans a b c : below a b = true -> below b c = true -> below a c = true.
Proof.
  rewrite !below_spec. intros [r ->] [r' ->]. exists (r ++ SLASH :: r'). now rewrite <- app_assoc.
Qed.

Lemma split_aux_nonempty s acc : split_aux s acc <> [].
Proof. revert acc; induction s as [|c s IH]; intros acc; cbn; [discriminate|]. destruct (N.eqb c SLASH); [discriminate | apply IH]. Qed.

Lemma good_join_noslash_head b t : Forall good_seg b -> join_slash b <> SLASH :: t.
Proof.
  intros Hb E. destruct b as [|x r]; [discriminate|]. inversion Hb as [|? ? (Hx1 & Hx2 & _) _]; subst.
  destruct x as [|c x]; [contradiction|]. apply noslash_cons in Hx2 as [Hc _].
  destruct r; cbn in E; inversion E; contradiction.
Qed.

Lemma below_pth a b : Forall good_seg a -> Forall good_seg b ->
  (below (pth a) (pth b) = true <-> a <> [] /\ exists c, c <> [] /\ b = a ++ c).
Proof.
  intros Ha Hb. rewrite below_spec. split.
  - intros [r E]. destruct a as [|x a].
    + exfalso. cbn in E. inversion E as [E']. revert E'. now apply good_join_noslash_head.
    + split; [discriminate|]. unfold pth in E. cbn [app] in E. inversion E as [E'].
      destruct b as [|y b]; [exfalso; cbn in E'; destruct (join_slash (x :: a)); discriminate|].
      exists (split_aux r []). split; [apply split_aux_nonempty|].
      rewrite <- (split_join (y :: b)); [|discriminate|now apply good_noslash]. unfold split_slash. rewrite E'.
      exact (split_join_app (x :: a) r ltac:(discriminate) (good_noslash _ Ha)).
  - intros [Hne (c & Hc & ->)]. exists (join_slash c). unfold pth. cbn [app]. f_equal. now apply join_slash_app.
Qed.

Lemma below_root_false k : canon k -> below s_slash k = false.
Proof.
  intros Hc. destruct (canon_inv k Hc) as (segs & Hf & ->). destruct (below s_slash (pth segs)) eqn:E; [|reflexivity].
  change s_slash with (pth []) in E. apply below_pth in E as [E _]; [contradiction | constructor | exact Hf].
Qed.

Lemma canon_nonempty a : canon a -> a <> [].
Proof. intros [_ H] ->. discriminate H. Qed.

Lemma below_not_root a k : canon a -> below a k = true -> k <> s_slash.
Proof.
  intros Hc H E. subst k. apply below_spec in H as [r H]. apply canon_nonempty in Hc.
  destruct a; [contradiction|]. cbn in H; inversion H. destruct a; discriminate.
Qed.

Lemma below_par k : canon k -> k <> s_slash -> par k <> s_slash -> below (par k) k = true.
Proof.
  intros Hc Hne Hp. destruct (canon_inv_snoc k Hc Hne) as (segs & x & Hf & Hx & ->).
  rewrite par_pth in * by assumption. apply below_pth; [exact Hf | apply Forall_app; split; [exact Hf | now constructor] |].
  split; [intros ->; now apply Hp|]. exists [x]. split; [discriminate | reflexivity].
Qed.

Lemma below_inv a k : canon a -> canon k -> below a k = true -> a = par k \/ below a (par k) = true.
Proof.
  intros Ha Hk Hb. pose proof (below_not_root a k Ha Hb) as Hne.
  destruct (canon_inv a Ha) as (A & HA & ->). destruct (canon_inv_snoc k Hk Hne) as (K & x & HK & Hx & ->).
  rewrite par_pth by assumption.
  apply below_pth in Hb as [HAne (c & Hc & E)]; [|exact HA | apply Forall_app; split; [exact HK | now constructor]].
  destruct (exists_last Hc) as (c' & y & ->). rewrite app_assoc in E. apply app_inj_tail in E as [-> ->].
  destruct c' as [|z c'].
  - left. now rewrite app_nil_r.
  - right. apply below_pth; [exact HA | exact HK |]. split; [exact HAne|]. exists (z :: c'). split; [discriminate | reflexivity].
Qed.

Lemma below_step a k : canon a -> canon k -> k <> s_slash -> a <> s_slash ->
  (a = par k \/ below a (par k) = true) -> below a k = true.
Proof.
  intros Hca Hk Hne Ha [E|Hb]; [subst a; now apply below_par|].
  eapply below_trans; [exact Hb|]. apply below_par; [exact Hk | exact Hne|].
  now apply (below_not_root a).
Qed.

(* two ancestors-or-self of the same path are comparable *)
Lemma list_prefix_comparable {A} (a b c d : list A) : a ++ c = b ++ d ->
  (exists e, b = a ++ e) \/ (exists e, a = b ++ e).
Proof.
  revert b; induction a as [|x a IH]; intros b E; [left; now exists b|].
  destruct b as [|y b]; [right; now exists (x :: a)|].
  cbn in E. inversion E as [[Exy E']]. subst y. destruct (IH b E') as [[e ->]|[e ->]]; [left | right]; now exists e.
Qed.

Lemma below_comparable a b k : canon a -> canon b -> canon k ->
  (a = k \/ below a k = true) -> (b = k \/ below b k = true) ->
  a = b \/ below a b = true \/ below b a = true.
Proof.
  intros Ha Hb Hk H1 H2.
  destruct (canon_inv a Ha) as (A & HA & ->). destruct (canon_inv b Hb) as (B & HB & ->).
  destruct (canon_inv k Hk) as (K & HK & ->).
  assert (E1 : exists c, K = A ++ c /\ (A = [] -> c = [])).
  { destruct H1 as [E|E]; [apply pth_inj in E; auto; subst; exists []; split; [now rewrite app_nil_r | auto]|].
    apply below_pth in E as [Hne (c & _ & ->)]; auto. exists c; split; [reflexivity | intros; contradiction]. }
  assert (E2 : exists c, K = B ++ c /\ (B = [] -> c = [])).
  { destruct H2 as [E|E]; [apply pth_inj in E; auto; subst; exists []; split; [now rewrite app_nil_r | auto]|].
    apply below_pth in E as [Hne (c & _ & ->)]; auto. exists c; split; [reflexivity | intros; contradiction]. }
  destruct E1 as (c1 & E1 & N1), E2 as (c2 & E2 & N2). rewrite E1 in E2.
  destruct (list_prefix_comparable _ _ _ _ E2) as [[e ->]|[e ->]].
  - destruct e as [|z e]; [left; now rewrite app_nil_r|]. right; left.
    apply below_pth; auto. split; [|exists (z :: e); split; [discriminate | reflexivity]].
    intros ->. specialize (N1 eq_refl). subst c1. cbn in E2. discriminate E2.
  - destruct e as [|z e]; [left; now rewrite app_nil_r|]. right; right.
    apply below_pth; auto. split; [|exists (z :: e); split; [discriminate | reflexivity]].
    intros ->. specialize (N2 eq_refl). subst c2. cbn in E2. discriminate E2.
Qed.

(* ---------- rewriting the prefix (strings.Replace(name, old, new, 1)) ---------- *)
Definition rw (old new k : str) : str := new ++ skipn (length old) k.

Lemma str_replace1_prefix k old new : prefixb old k = true -> str_replace1 k old new = rw old new k.
Proof.
  intros H. unfold str_replace1, rw. destruct (length k); cbn [replace1]; now rewrite H.
Qed.

Lemma below_prefix a k : below a k = true -> prefixb a k = true.
Proof. intros H. apply below_spec in H as [r ->]. apply prefixb_app. Qed.

Lemma rw_app old new r : rw old new (old ++ r) = new ++ r.
Proof. unfold rw. now rewrite skipn_app_exact. Qed.

Lemma rw_pth A A' c : A <> [] -> A' <> [] -> c <> [] -> rw (pth A) (pth A') (pth (A ++ c)) = pth (A' ++ c).
Proof.
  intros H1 H2 H3. unfold pth at 3 4. rewrite !join_slash_app by assumption.
  change (SLASH :: join_slash A ++ SLASH :: join_slash c) with (pth A ++ SLASH :: join_slash c).
  rewrite rw_app. reflexivity.
Qed.

Lemma rw_inj old new k1 k2 : prefixb old k1 = true -> prefixb old k2 = true -> rw old new k1 = rw old new k2 -> k1 = k2.
Proof.
  intros H1 H2 E. apply prefixb_spec in H1 as [r1 ->]. apply prefixb_spec in H2 as [r2 ->].
  rewrite !rw_app in E. apply app_inv_head in E. now subst.
Qed.

Record rw_facts (old new k : str) : Prop := {
  rwf_canon : canon (rw old new k);
  rwf_below : below new (rw old new k) = true;
  rwf_par_top : par k = old -> par (rw old new k) = new;
  rwf_par_deep : below old (par k) = true -> par (rw old new k) = rw old new (par k)
}.

Lemma rw_canon old new k : canon old -> canon new -> new <> s_slash -> canon k -> below old k = true ->
  rw_facts old new k.
Proof.
  intros Ho Hn Hnr Hk Hb. pose proof (below_not_root old k Ho Hb) as Hkr.
  destruct (canon_inv old Ho) as (A & HA & ->). destruct (canon_inv new Hn) as (A' & HA' & ->).
  destruct (canon_inv_snoc k Hk Hkr) as (K & x & HK & Hx & ->).
  assert (HKx : Forall good_seg (K ++ [x])) by (apply Forall_app; split; [exact HK | now constructor]).
  apply below_pth in Hb as [HAne (c & Hc & E)]; [|exact HA | exact HKx].
  assert (HA'ne : A' <> []) by (intros ->; now apply Hnr).
  destruct (exists_last Hc) as (c' & y & ->). rewrite app_assoc in E. apply app_inj_tail in E as [-> ->].
  assert (Erw : rw (pth A) (pth A') (pth ((A ++ c') ++ [y])) = pth ((A' ++ c') ++ [y])).
  { rewrite <- !app_assoc. apply rw_pth; auto. }
  apply Forall_app in HK as [_ Hc'].
  assert (Hg : Forall good_seg (A' ++ c')) by (apply Forall_app; now split).
  assert (Hg2 : Forall good_seg ((A' ++ c') ++ [y])) by (apply Forall_app; split; [exact Hg | now constructor]).
  assert (Hg0 : Forall good_seg (A ++ c')) by (apply Forall_app; now split).
  split; rewrite Erw.
  - now apply canon_pth.
  - apply below_pth; [exact HA' | exact Hg2 |].
    split; [exact HA'ne|]. exists (c' ++ [y]). split; [destruct c'; discriminate | now rewrite app_assoc].
  - rewrite !par_pth by auto. intros E. apply pth_inj in E; [| exact Hg0 | exact HA].
    rewrite <- (app_nil_r A) in E at 2. apply app_inv_head in E. subst c'. now rewrite app_nil_r.
  - rewrite !par_pth by auto. intros Hb.
    apply below_pth in Hb as [_ (d & Hd & E)]; [|exact HA | exact Hg0].
    apply app_inv_head in E. subst c'. now rewrite rw_pth.
Qed.

(* ---------- depth (number of pieces of strings.Split(name, "/")) ---------- *)
Lemma depth_pth segs : segs <> [] -> Forall good_seg segs -> depth (pth segs) = S (length segs).
Proof.
  intros Hne Hf. unfold depth, split_slash, pth. cbn [split_aux]. change (N.eqb SLASH SLASH) with true.
  cbn [length]. f_equal. fold (split_slash (join_slash segs)). rewrite split_join; [reflexivity | exact Hne | now apply good_noslash].
Qed.

Lemma depth_par k : canon k -> k <> s_slash -> par k <> s_slash -> depth k = S (depth (par k)).
Proof.
  intros Hc Hne Hp. destruct (canon_inv_snoc k Hc Hne) as (segs & x & Hf & Hx & ->).
  rewrite par_pth in * by assumption.
  assert (segs <> []) by (intros ->; now apply Hp).
  rewrite !depth_pth; auto; [|destruct segs; discriminate | apply Forall_app; split; [exact Hf | now constructor]].
  rewrite app_length. cbn. lia.
Qed.
