(* Proofs/GcsRemoveAllProof.v — C20, RemoveAll on folders: Fs.RemoveAll (Model/GcsFs.v, fs_remove_all)
   removes exactly the subtree, for every store of the layout class [layout_class] (a boolean
   predicate on the object list), explicit and implicit folders nested arbitrarily deep.
   Induction on the fuel (= recursion depth of Fs.RemoveAll), inner induction over the listing of the
   folder; the fuel requirement is the computable bound [removeall_fuel]. *)
From Coq Require Import Sorting.Permutation.
From AF Require Import Lib.Bytes Lib.Path Lib.Ops Gen.Consts Model.Gcs Model.GcsFs Model.GcsSpec.
From AF Require Import Proofs.BytesLemmas Proofs.GcsProof Proofs.GcsFolderProof.
Local Open Scope Z_scope.

(* ------------------------------------------------------------------ the layout class *)
Definition no_bslash (s : str) : bool := forallb (fun c => negb (N.eqb c BACKSLASH)) s.
Definition s_2slash : str := [SLASH; SLASH].

(* an object name: not empty, no empty path segment (no leading "/", no "//"; ONE trailing "/" is the
   placeholder convention of an explicit folder), no backslash (gcsfs treats "\" as a separator, an
   object with a backslash in its name cannot be addressed through the Fs at all) *)
Definition key_ok (k : str) : bool :=
  negb (is_empty k) && negb (prefixb s_slash k) && negb (infixb s_2slash k) && no_bslash k.

Fixpoint nodupb (l : list str) : bool :=
  match l with [] => true | x :: r => negb (gmemb x r) && nodupb r end.

(* prefix-free: no name k such that k ++ "/" is a prefix of a name.  (For a placeholder k = "d/" this
   asks for no name under "d//", which key_ok already excludes: the names under "d/" are allowed.) *)
Definition prefix_free (ks : list str) : bool :=
  forallb (fun k => forallb (fun k' => negb (prefixb (k ++ s_slash) k')) ks) ks.

Definition layout_class (objs : gstore) : bool :=
  let ks := map fst objs in nodupb ks && forallb key_ok ks && prefix_free ks.

(* the name given to RemoveAll is bucket ++ "/" ++ path *)
Definition bucket_ok (b : str) : bool := negb (is_empty b) && negb (has_slash b) && no_bslash b.
Definition path_ok (p : str) : bool :=
  negb (is_empty p) && negb (prefixb s_slash p) && negb (last_is_slash p) && no_bslash p.
Definition full_name (bkt p : str) : str := bkt ++ SLASH :: p.

(* at or under a path *)
Definition inside (p k : str) : bool := beqb k p || prefixb (p ++ s_slash) k.

(* rawGcsObjects (the cache name -> resource filled by Create): no cached name is the name of a folder,
   i.e. no cached name n such that n ++ "/" is a prefix of the full name of an object *)
Definition raw_ok (bkt : str) (g : gfs) : bool :=
  forallb (fun n => forallb (fun k => negb (prefixb (n ++ s_slash) (full_name bkt k))) (map fst (g_objs g)))
          (map fst (g_raw g)).

(* the fuel (recursion depth) RemoveAll needs: 1 + the maximum over the objects k under path ++ "/" of
   1 + the number of "/" in k after that prefix *)
Fixpoint count_slash (s : str) : nat :=
  match s with [] => O | c :: r => ((if N.eqb c SLASH then 1 else 0) + count_slash r)%nat end.
Definition removeall_fuel (objs : gstore) (p : str) : nat :=
  S (list_max (map (fun k => S (count_slash (rest_of (p ++ s_slash) k)))
                   (filter (prefixb (p ++ s_slash)) (map fst objs)))).

(* a resource as Open leaves it for a folder: nothing read, nothing buffered *)
Definition idle_res (bkt : str) (r : resource) : Prop :=
  r_bk r = bkt /\ r_size r = 0 /\ r_off r = 0 /\ r_reader r = None /\ r_writer r = None.

(* ------------------------------------------------------------------ names *)
Lemma split_first_at b r : has_slash b = false -> split_first (b ++ SLASH :: r) = (b, Some r).
Proof.
  induction b as [|x b IH]; simpl; intros H; [reflexivity|].
  apply orb_false_iff in H. destruct H as (Hx & Hb). rewrite Hx, (IH Hb). reflexivity.
Qed.

Lemma split_name_full bkt p : has_slash bkt = false -> split_name (full_name bkt p) = (bkt, p).
Proof. intros H. unfold split_name, full_name. now rewrite (split_first_at bkt p H). Qed.

Lemma no_bslash_app a b : no_bslash (a ++ b) = no_bslash a && no_bslash b.
Proof. apply forallb_app. Qed.

Lemma norm_seps_id s : no_bslash s = true -> norm_seps s = s.
Proof.
  induction s as [|c s IH]; simpl; intros H; [reflexivity|].
  apply andb_true_iff in H. destruct H as (Hc & Hs). apply negb_true_iff in Hc.
  unfold norm_seps in *. simpl. now rewrite Hc, (IH Hs).
Qed.

Lemma bucket_ok_facts b : bucket_ok b = true -> b <> [] /\ has_slash b = false /\ no_bslash b = true.
Proof.
  unfold bucket_ok. intros H. apply andb_true_iff in H. destruct H as (H & H3).
  apply andb_true_iff in H. destruct H as (H1 & H2).
  apply negb_true_iff in H1, H2. splits; auto. intros ->. discriminate.
Qed.

Lemma path_ok_facts p : path_ok p = true ->
  p <> [] /\ prefixb s_slash p = false /\ last_is_slash p = false /\ no_bslash p = true.
Proof.
  unfold path_ok. intros H. apply andb_true_iff in H. destruct H as (H & H4).
  apply andb_true_iff in H. destruct H as (H & H3). apply andb_true_iff in H. destruct H as (H1 & H2).
  apply negb_true_iff in H1, H2, H3. splits; auto. intros ->. discriminate.
Qed.

Lemma no_bslash_full bkt p : no_bslash bkt = true -> no_bslash p = true -> no_bslash (full_name bkt p) = true.
Proof. intros Hb Hp. unfold full_name. rewrite no_bslash_app, Hb. simpl. exact Hp. Qed.

Lemma norm_name_full bkt p : bucket_ok bkt = true -> path_ok p = true ->
  norm_name (full_name bkt p) = full_name bkt p.
Proof.
  intros Hb Hp. destruct (bucket_ok_facts _ Hb) as (B1 & B2 & B3).
  destruct (path_ok_facts _ Hp) as (P1 & P2 & _ & P4).
  unfold norm_name.
  assert (E : ensure_no_prefix (full_name bkt p) = full_name bkt p).
  { unfold ensure_no_prefix. destruct (full_name bkt p) as [|c s] eqn:Ef.
    - reflexivity.
    - cbn [is_empty]. destruct (prefixb gs_prefix (c :: s)) eqn:Eg; [|reflexivity]. exfalso.
      apply prefixb_spec in Eg. destruct Eg as (r & Er).
      assert (Hs : split_first (full_name bkt p) = split_first (gs_prefix ++ r)) by (now rewrite Ef, Er).
      unfold full_name in Hs. rewrite (split_first_at bkt p B2) in Hs. cbn in Hs.
      inversion Hs as [[Hbk Hpp]]. subst p. cbn in P2. discriminate. }
  rewrite E, (norm_seps_id _ (no_bslash_full _ _ B3 P4)).
  unfold full_name. destruct bkt as [|c b]; [contradiction|]. cbn in B2 |- *.
  apply orb_false_iff in B2. destruct B2 as (Hc & _). now rewrite Hc.
Qed.

Lemma full_name_nonempty bkt p : full_name bkt p <> [].
Proof. unfold full_name. destruct bkt; discriminate. Qed.

Lemma last_is_slash_app a p : p <> [] -> last_is_slash (a ++ p) = last_is_slash p.
Proof.
  intros Hp. unfold last_is_slash. rewrite rev_app_distr.
  destruct (rev p) as [|x r] eqn:E; [|reflexivity].
  exfalso. apply Hp. rewrite <- (rev_involutive p), E. reflexivity.
Qed.

Lemma ensure_trailing_full bkt p : path_ok p = true ->
  ensure_trailing (full_name bkt p) = full_name bkt (p ++ [SLASH]).
Proof.
  intros Hp. destruct (path_ok_facts _ Hp) as (P1 & _ & P3 & _).
  rewrite ensure_trailing_plain.
  - unfold full_name, s_slash. now rewrite <- app_assoc.
  - apply full_name_nonempty.
  - unfold full_name. change (bkt ++ SLASH :: p) with (bkt ++ [SLASH] ++ p). rewrite app_assoc.
    now rewrite last_is_slash_app.
Qed.

(* a child of a folder: a non-empty component without separator characters *)
Definition child_ok (c : str) : Prop := c <> [] /\ has_slash c = false /\ no_bslash c = true.

Lemma last_is_slash_child q c : c <> [] -> has_slash c = false -> last_is_slash (q ++ SLASH :: c) = false.
Proof.
  intros Hne Hs. change (q ++ SLASH :: c) with (q ++ [SLASH] ++ c). rewrite app_assoc.
  rewrite (last_is_slash_app _ c Hne). unfold last_is_slash.
  destruct (last_nonslash c Hne Hs) as (x & r & Hr & Hx). now rewrite Hr.
Qed.

Lemma path_ok_child p c : path_ok p = true -> child_ok c -> path_ok (p ++ SLASH :: c) = true.
Proof.
  intros Hp (C1 & C2 & C3). destruct (path_ok_facts _ Hp) as (P1 & P2 & P3 & P4).
  unfold path_ok. rewrite (last_is_slash_child p c C1 C2), no_bslash_app, P4. cbn [no_bslash forallb].
  fold (no_bslash c). rewrite C3.
  destruct p as [|x p]; [contradiction|]. cbn in P2 |- *. rewrite P2. reflexivity.
Qed.

Lemma full_name_child bkt p c :
  full_name bkt p ++ s_slash ++ c = full_name bkt (p ++ SLASH :: c).
Proof. unfold full_name, s_slash. rewrite <- app_assoc. reflexivity. Qed.

(* ------------------------------------------------------------------ the class as propositions *)
Lemma nodupb_NoDup l : nodupb l = true <-> NoDup l.
Proof.
  induction l as [|x l IH]; simpl; [split; [constructor | reflexivity]|].
  rewrite andb_true_iff, negb_true_iff, IH. split.
  - intros (Hx & Hl). constructor; [|exact Hl]. intros Hin. apply gmemb_in in Hin. congruence.
  - intros H. inversion H; subst. split; [|assumption].
    destruct (gmemb x l) eqn:E; [|reflexivity]. apply gmemb_in in E. contradiction.
Qed.

Record layout_p (ks : list str) : Prop := {
  lp_nodup : NoDup ks;
  lp_key : forall k, In k ks -> key_ok k = true;
  lp_free : forall k k', In k ks -> In k' ks -> prefixb (k ++ s_slash) k' = false }.

Lemma layout_class_p (objs : gstore) : layout_class objs = true <-> layout_p (map fst objs).
Proof.
  unfold layout_class, prefix_free. cbv zeta. rewrite !andb_true_iff, nodupb_NoDup, !forallb_forall. split.
  - intros ((H1 & H2) & H3). split; auto.
    intros k k' Hk Hk'. specialize (H3 k Hk). rewrite forallb_forall in H3.
    specialize (H3 k' Hk'). now apply negb_true_iff in H3.
  - intros [H1 H2 H3]. splits; auto.
    intros k Hk. apply forallb_forall. intros k' Hk'. apply negb_true_iff. auto.
Qed.

Lemma map_fst_filter_in {A} (f : str * A -> bool) (l : list (str * A)) k :
  In k (map fst (filter f l)) -> In k (map fst l).
Proof.
  rewrite !in_map_iff. intros (x & Hx & Hin). apply filter_In in Hin. exists x. tauto.
Qed.

Lemma NoDup_map_fst_filter {A} (f : str * A -> bool) (l : list (str * A)) :
  NoDup (map fst l) -> NoDup (map fst (filter f l)).
Proof.
  induction l as [|x l IH]; simpl; intros H; [constructor|].
  inversion H; subst. destruct (f x); simpl; [|auto].
  constructor; [|auto]. intros Hin. apply map_fst_filter_in in Hin. contradiction.
Qed.

(* the class is hereditary: deleting objects stays inside *)
Lemma layout_class_filter (objs : gstore) f :
  layout_class objs = true -> layout_class (filter f objs) = true.
Proof.
  rewrite !layout_class_p. intros [H1 H2 H3]. split.
  - now apply NoDup_map_fst_filter.
  - intros k Hk. apply H2. eapply map_fst_filter_in; eauto.
  - intros k k' Hk Hk'. apply H3; eapply map_fst_filter_in; eauto.
Qed.

Lemma alist_del_filter {A} k (l : list (str * A)) :
  alist_del k l = filter (fun kv => negb (beqb k (fst kv))) l.
Proof.
  induction l as [|[k' v] l IH]; simpl; [reflexivity|].
  destruct (beqb k k'); simpl; now rewrite IH.
Qed.

Lemma key_ok_facts k : key_ok k = true ->
  k <> [] /\ prefixb s_slash k = false /\ infixb s_2slash k = false /\ no_bslash k = true.
Proof.
  unfold key_ok. intros H. apply andb_true_iff in H. destruct H as (H & H4).
  apply andb_true_iff in H. destruct H as (H & H3). apply andb_true_iff in H. destruct H as (H1 & H2).
  apply negb_true_iff in H1, H2, H3. splits; auto. intros ->. discriminate.
Qed.

Lemma gcomponent_prefix s : exists t, s = gcomponent s ++ t.
Proof.
  unfold gcomponent. induction s as [|x s IH]; simpl; [exists []; reflexivity|].
  destruct (N.eqb x SLASH); simpl; [exists (x :: s); reflexivity|].
  destruct (split_first s) as [a b]. simpl in *. destruct IH as (t & Ht). exists t. now rewrite Ht at 1.
Qed.

Lemma gcomponent_nil_slash s : s <> [] -> gcomponent s = [] -> exists t, s = SLASH :: t.
Proof.
  unfold gcomponent. destruct s as [|x s]; [contradiction|]. intros _. simpl.
  destruct (N.eqb x SLASH) eqn:E.
  - intros _. apply N.eqb_eq in E. subst. now exists s.
  - destruct (split_first s). simpl. discriminate.
Qed.

(* the class gives the per-folder layout hypothesis of the listing theorems, at every folder *)
Lemma layout_ok_of_class (objs : gstore) path :
  layout_class objs = true -> layout_ok objs (path ++ [SLASH]).
Proof.
  rewrite layout_class_p. intros [H1 H2 H3]. split; [exact H1| |].
  - intros k Hk Hp Hne Hc.
    destruct (key_ok_facts k (H2 k Hk)) as (_ & _ & K3 & _).
    pose proof (under_decomp _ k Hp) as E.
    destruct (gcomponent_nil_slash (rest_of (path ++ [SLASH]) k)) as (t & Ht); [|exact Hc|].
    + intros Hr. apply Hne. now apply rest_nil_iff.
    + assert (Hi : infixb s_2slash k = true).
      { apply infixb_spec. exists path, t. rewrite E, Ht, <- app_assoc. reflexivity. }
      congruence.
  - intros k1 k2 Hk1 Hk2 P1 P2 S1 S2 Heq.
    pose proof (under_decomp _ k1 P1) as E1. pose proof (under_decomp _ k2 P2) as E2.
    assert (Hpre : prefixb (k1 ++ s_slash) k2 = true).
    { apply prefixb_spec.
      pose proof (upto_slash_comp _ S2) as U.
      assert (exists t, rest_of (path ++ [SLASH]) k2 = upto_slash (rest_of (path ++ [SLASH]) k2) ++ t) as (t & Ht).
      { clear. induction (rest_of (path ++ [SLASH]) k2) as [|x s IH]; simpl; [exists []; reflexivity|].
        destruct (N.eqb x SLASH); [exists s; reflexivity|]. destruct IH as (t & Ht). exists t. now rewrite Ht at 1. }
      exists t. rewrite E2 at 1. rewrite Ht, U, <- Heq. rewrite E1 at 2.
      unfold s_slash. now rewrite <- !app_assoc. }
    rewrite (H3 k1 k2 Hk1 Hk2) in Hpre. discriminate.
Qed.

(* ------------------------------------------------------------------ Stat / Open / Readdir / Remove, exactly *)
Lemma list_set_snoc {A} (l : list A) x y : list_set (length l) y (l ++ [x]) = l ++ [y].
Proof. induction l as [|z l IH]; simpl; [reflexivity|]. now rewrite IH. Qed.

Section Level.
Variable bkt : str.
Hypothesis Hbkt : bucket_ok bkt = true.

Lemma nfi_object (objs : gstore) path (d : bytes) : path <> [] -> alist_get path objs = Some d ->
  new_file_info bkt objs (full_name bkt path) = inr (mkGI (full_name bkt path) false (zlen d)).
Proof.
  intros Hp Hg. destruct (bucket_ok_facts _ Hbkt) as (_ & B2 & _).
  unfold new_file_info. rewrite (split_name_full bkt path B2). unfold get_bucket. rewrite beqb_refl.
  unfold o_attrs, o_check. rewrite beqb_refl. cbn [negb].
  destruct path; [contradiction|]. cbn [is_empty]. now rewrite Hg.
Qed.

Lemma nfi_noobj (objs : gstore) path : path_ok path = true -> alist_get path objs = None ->
  new_file_info bkt objs (full_name bkt path) =
  match list_page objs (path ++ [SLASH]) with
  | [] => inl GENOENT
  | _ :: _ => inr (mkGI (full_name bkt (path ++ [SLASH])) true folder_size)
  end.
Proof.
  intros Hp Hg. destruct (bucket_ok_facts _ Hbkt) as (_ & B2 & _).
  destruct (path_ok_facts _ Hp) as (P1 & _ & P3 & _).
  unfold new_file_info. rewrite (split_name_full bkt path B2). unfold get_bucket. rewrite beqb_refl.
  unfold o_attrs, o_check. rewrite beqb_refl. cbn [negb].
  rewrite gcs_fileinfo_prefix_sep_fact. cbn [Z.eqb Pos.eqb].
  rewrite (ensure_trailing_full bkt path Hp), (ensure_trailing_plain path P1 P3).
  destruct path; [contradiction|]. cbn [is_empty]. now rewrite Hg.
Qed.

Lemma gvalidate_full path : gvalidate (full_name bkt path) = None.
Proof.
  unfold gvalidate. pose proof (full_name_nonempty bkt path) as Hne.
  destruct (full_name bkt path); [contradiction | reflexivity].
Qed.

Lemma fs_stat_full g path : path_ok path = true ->
  fs_stat bkt g (full_name bkt path) = new_file_info bkt (g_objs g) (full_name bkt path).
Proof.
  intros Hp. unfold fs_stat. now rewrite (norm_name_full bkt path Hbkt Hp), gvalidate_full.
Qed.

Lemma get_obj_full path : get_obj bkt (full_name bkt path) = None.
Proof.
  destruct (bucket_ok_facts _ Hbkt) as (_ & B2 & _).
  unfold get_obj. rewrite (split_name_full bkt path B2). cbn [fst]. unfold get_bucket. now rewrite beqb_refl.
Qed.

(* Open(name) of a folder without a cached resource: one fresh resource is appended, nothing else changes *)
Lemma fs_open_dir_exact g path info : path_ok path = true ->
  alist_get (full_name bkt path) (g_raw g) = None ->
  new_file_info bkt (g_objs g) (full_name bkt path) = inr info ->
  fs_open bkt g (full_name bkt path) =
  (mkG (g_objs g) (g_res g ++ [mkR (full_name bkt path) bkt path 0 0 None None]) (g_raw g),
   inr (mkGH o_rdonly 0 false (length (g_res g)))).
Proof.
  intros Hp Hraw Hinfo. destruct (bucket_ok_facts _ Hbkt) as (_ & B2 & _).
  unfold fs_open, fs_open_file. rewrite (norm_name_full bkt path Hbkt Hp), gvalidate_full.
  rewrite Hraw, get_obj_full.
  unfold galloc, new_resource. rewrite (split_name_full bkt path B2).
  set (r := mkR (full_name bkt path) bkt path 0 0 None None).
  rewrite Z.eqb_refl.
  unfold h_stat, with_res. cbn [g_res h_res g_objs]. rewrite nth_error_snoc.
  unfold gf_stat. rewrite (close_io_fresh bkt (g_objs g) r eq_refl eq_refl).
  cbn [r r_name]. rewrite Hinfo.
  rewrite !land_0_l_eqb. cbn [negb]. unfold put_or. cbn [g_objs g_res g_raw h_res].
  now rewrite list_set_snoc.
Qed.

(* Readdir(0) on that handle (patched code): the heap and the bucket stay, the listing has the children *)
Lemma h_readdir_dir_exact objs res raw path own :
  path_ok path = true -> layout_class objs = true ->
  new_file_info bkt objs (full_name bkt path) = inr own -> gi_dir own = true ->
  let r := mkR (full_name bkt path) bkt path 0 0 None None in
  let g1 := mkG objs (res ++ [r]) raw in
  exists l, h_readdir cfg_patched bkt g1 (mkGH o_rdonly 0 false (length res)) 0 = (g1, LList l None) /\
            (forall c, In c (map gi_base l) <-> is_child objs (path ++ [SLASH]) c).
Proof.
  intros Hp Hl Hinfo Hdir r g1. destruct (bucket_ok_facts _ Hbkt) as (_ & B2 & _).
  assert (Hs : split_name (ensure_trailing (full_name bkt path)) = (bkt, path ++ [SLASH])).
  { rewrite (ensure_trailing_full bkt path Hp). now apply split_name_full. }
  destruct (listing_once_each bkt objs (full_name bkt path) path own 0 Hinfo Hdir Hs
              (layout_ok_of_class objs path Hl) (Z.le_refl 0)) as (l & Hrd & Hin & _).
  exists l. split; [|exact Hin].
  unfold h_readdir, with_res. cbn [g1 g_res h_res g_objs]. rewrite nth_error_snoc.
  fold r in Hrd. rewrite Hrd. unfold put_or, g1. cbn [g_res g_raw]. now rewrite list_set_snoc.
Qed.

(* Remove(name): the three situations RemoveAll meets *)
Lemma fs_remove_object c g path (d : bytes) : path_ok path = true ->
  alist_get path (g_objs g) = Some d ->
  fs_remove c bkt g (full_name bkt path) =
  (mkG (alist_del path (g_objs g)) (g_res g) (alist_del (full_name bkt path) (g_raw g)), UOk).
Proof.
  intros Hp Hg. destruct (bucket_ok_facts _ Hbkt) as (_ & B2 & _). destruct (path_ok_facts _ Hp) as (P1 & _).
  unfold fs_remove. rewrite (norm_name_full bkt path Hbkt Hp).
  rewrite (fs_stat_full g path Hp), (nfi_object (g_objs g) path d P1 Hg).
  rewrite gvalidate_full, get_obj_full, (split_name_full bkt path B2). cbn [gi_dir g_objs].
  unfold o_delete, o_check. rewrite beqb_refl. cbn [negb].
  destruct path; [contradiction|]. cbn [is_empty]. rewrite Hg. reflexivity.
Qed.

Lemma fs_remove_absent c g path : path_ok path = true ->
  alist_get path (g_objs g) = None ->
  (forall k, In k (map fst (g_objs g)) -> prefixb (path ++ [SLASH]) k = false) ->
  fs_remove c bkt g (full_name bkt path) = (g, UErr GENOENT).
Proof.
  intros Hp Hg Hno.
  unfold fs_remove. rewrite (norm_name_full bkt path Hbkt Hp).
  rewrite (fs_stat_full g path Hp), (nfi_noobj (g_objs g) path Hp Hg).
  rewrite (proj2 (list_page_nil (g_objs g) (path ++ [SLASH])) Hno).
  now rewrite gvalidate_full, get_obj_full.
Qed.

Lemma page_nonempty (objs : gstore) p k : In k (map fst objs) -> prefixb p k = true -> list_page objs p <> [].
Proof. intros Hk Hp E. rewrite list_page_nil in E. rewrite (E k Hk) in Hp. discriminate. Qed.

(* an explicit folder whose placeholder is the only object left under it: the placeholder goes *)
Lemma fs_remove_placeholder g path : path_ok path = true -> layout_class (g_objs g) = true ->
  alist_get path (g_objs g) = None ->
  In (path ++ [SLASH]) (map fst (g_objs g)) ->
  (forall k, In k (map fst (g_objs g)) -> prefixb (path ++ [SLASH]) k = true -> k = path ++ [SLASH]) ->
  fs_remove cfg_patched bkt g (full_name bkt path) =
  (mkG (alist_del (path ++ [SLASH]) (g_objs g))
       (g_res g ++ [mkR (full_name bkt path) bkt path 0 0 None None])
       (alist_del (full_name bkt path) (g_raw g)), UOk).
Proof.
  intros Hp Hl Hg Hin Honly. destruct (bucket_ok_facts _ Hbkt) as (_ & B2 & _).
  assert (Hpre : prefixb (path ++ [SLASH]) (path ++ [SLASH]) = true).
  { apply prefixb_spec. exists []. now rewrite app_nil_r. }
  assert (Hinfo : new_file_info bkt (g_objs g) (full_name bkt path) =
                  inr (mkGI (full_name bkt (path ++ [SLASH])) true folder_size)).
  { rewrite (nfi_noobj (g_objs g) path Hp Hg).
    destruct (list_page (g_objs g) (path ++ [SLASH])) eqn:E; [|reflexivity].
    exfalso. exact (page_nonempty _ _ _ Hin Hpre E). }
  unfold fs_remove. rewrite (norm_name_full bkt path Hbkt Hp).
  rewrite (fs_stat_full g path Hp), Hinfo.
  rewrite gvalidate_full, get_obj_full, (split_name_full bkt path B2). cbn [gi_dir].
  set (g1 := mkG (g_objs g) (g_res g) (alist_del (full_name bkt path) (g_raw g))).
  rewrite (fs_open_dir_exact g1 path _ Hp (alist_get_del_same _ _) Hinfo).
  cbn [g1 g_objs g_res g_raw].
  destruct (h_readdir_dir_exact (g_objs g) (g_res g) (alist_del (full_name bkt path) (g_raw g)) path _
              Hp Hl Hinfo eq_refl) as (l & Hrd & Hch).
  rewrite Hrd.
  assert (El : l = []).
  { destruct l as [|i l]; [reflexivity|]. exfalso.
    destruct (proj1 (Hch (gi_base i)) (or_introl eq_refl)) as (k & K1 & K2 & K3 & _).
    exact (K3 (Honly k K1 K2)). }
  subst l.
  rewrite (ensure_trailing_full bkt path Hp), get_obj_full, (split_name_full bkt (path ++ [SLASH]) B2).
  cbn [g_objs]. unfold o_delete, o_check. rewrite beqb_refl. cbn [negb].
  destruct (path ++ [SLASH]) as [|x q] eqn:Eq; [destruct path; discriminate|]. cbn [is_empty]. rewrite <- Eq in *.
  destruct (alist_get (path ++ [SLASH]) (g_objs g)) eqn:Ea.
  - reflexivity.
  - exfalso. exact (alist_get_none_notin _ _ Ea Hin).
Qed.

End Level.

(* ------------------------------------------------------------------ one level of Fs.RemoveAll *)
(* the loop over the listing, as a function of what one recursive call does *)
Definition ra_each (step : gfs -> ginfo -> gfs * ures) : gfs -> list ginfo -> gfs * ures :=
  fix each (g : gfs) (l : list ginfo) : gfs * ures :=
    match l with
    | [] => (g, UOk)
    | i :: rest =>
      match step g i with
      | (g', UOk) => each g' rest
      | x => x
      end
    end.

Lemma fs_remove_all_S c bkt f g path0 :
  fs_remove_all c bkt (S f) g path0 =
  let path := norm_name path0 in
  match gvalidate path with Some e => (g, UErr e) | None =>
  match fs_stat bkt g path with
  | inl GENOENT => (g, UOk)
  | inl e => (g, UErr e)
  | inr info =>
    if negb (gi_dir info) then fs_remove c bkt g path else
    match fs_open bkt g path with
    | (g1, inl e) => (g1, UErr e)
    | (g1, inr dir) =>
      match h_readdir c bkt g1 dir 0 with
      | (g2, LPanic) => (g2, UPanic)
      | (g2, LList _ (Some e)) => (g2, UErr e)
      | (g2, LList infos None) =>
        match ra_each (fun g i => fs_remove_all c bkt f g (path ++ s_slash ++ norm_seps (gi_base i))) g2 infos with
        | (g3, UOk) =>
          match fs_remove c bkt g3 path with
          | (g4, UErr GENOENT) => (g4, if fix_d20 c then UOk else UErr GENOENT)
          | x => x
          end
        | x => x
        end
      end
    end
  end end.
Proof. reflexivity. Qed.

Lemma ra_each_nil step g : ra_each step g [] = (g, UOk).
Proof. reflexivity. Qed.
Lemma ra_each_cons step g i rest :
  ra_each step g (i :: rest) = match step g i with (g', UOk) => ra_each step g' rest | x => x end.
Proof. reflexivity. Qed.

(* ------------------------------------------------------------------ small list / alist facts *)
Lemma beqb_sym a b : beqb a b = beqb b a.
Proof.
  destruct (beqb a b) eqn:E.
  - apply beqb_eq in E. subst. now rewrite beqb_refl.
  - destruct (beqb b a) eqn:E'; [|reflexivity]. apply beqb_eq in E'. subst. now rewrite beqb_refl in E.
Qed.

Lemma filter_true_id {A} (f : A -> bool) l : (forall x, In x l -> f x = true) -> filter f l = l.
Proof.
  induction l as [|x l IH]; simpl; intros H; [reflexivity|].
  rewrite (H x (or_introl eq_refl)), IH; [reflexivity|]. intros y Hy. apply H. now right.
Qed.

Lemma filter_filter' {A} (f g : A -> bool) l : filter g (filter f l) = filter (fun x => f x && g x) l.
Proof.
  induction l as [|x l IH]; simpl; [reflexivity|].
  destruct (f x); simpl; [destruct (g x); now rewrite IH | exact IH].
Qed.

Lemma in_keys {A} (l : list (str * A)) kv : In kv l -> In (fst kv) (map fst l).
Proof. apply in_map. Qed.

Lemma alist_get_some_in {A} k (l : list (str * A)) v : alist_get k l = Some v -> In k (map fst l).
Proof.
  induction l as [|[k' v'] l IH]; simpl; [discriminate|].
  destruct (beqb k k') eqn:E; [|auto]. apply beqb_eq in E. subst. auto.
Qed.

Lemma alist_get_notin_none {A} k (l : list (str * A)) : ~ In k (map fst l) -> alist_get k l = None.
Proof.
  intros H. destruct (alist_get k l) eqn:E; [|reflexivity]. exfalso. apply H. eapply alist_get_some_in; eauto.
Qed.

Lemma alist_get_del_other {A} k n (l : list (str * A)) :
  beqb n k = false -> alist_get n (alist_del k l) = alist_get n l.
Proof.
  intros Hne. induction l as [|[k' v] l IH]; simpl; [reflexivity|].
  destruct (beqb k k') eqn:E.
  - apply beqb_eq in E. subst k'. now rewrite Hne.
  - simpl. now rewrite IH.
Qed.

Lemma alist_del_keys_incl {A} k (l : list (str * A)) : incl (map fst (alist_del k l)) (map fst l).
Proof. rewrite alist_del_filter. intros x Hx. eapply map_fst_filter_in; eauto. Qed.

Lemma prefixb_refl_app p r : prefixb p (p ++ r) = true.
Proof. apply prefixb_spec. now exists r. Qed.

Lemma prefixb_longer p c : c <> [] -> prefixb (p ++ c) p = false.
Proof.
  intros Hc. destruct (prefixb (p ++ c) p) eqn:E; [|reflexivity]. exfalso.
  apply prefixb_spec in E. destruct E as (r & Hr). apply (f_equal (@length _)) in Hr.
  rewrite !app_length in Hr. destruct c; [contradiction|]. simpl in Hr. lia.
Qed.

Lemma count_slash_app a b : count_slash (a ++ b) = (count_slash a + count_slash b)%nat.
Proof. induction a as [|x a IH]; simpl; [reflexivity|]. rewrite IH. lia. Qed.

(* what follows the first component is empty or starts with the separator *)
Lemma gcomponent_tail s : exists t, s = gcomponent s ++ t /\ (t = [] \/ exists t', t = SLASH :: t').
Proof.
  unfold gcomponent. induction s as [|x s IH]; simpl; [exists []; auto|].
  destruct (N.eqb x SLASH) eqn:E; simpl.
  - apply N.eqb_eq in E. subst. exists (SLASH :: s). split; [reflexivity|]. right. now exists s.
  - destruct (split_first s) as [a b]. simpl in *. destruct IH as (t & Ht & Hc). exists t. split; [|exact Hc].
    now rewrite Ht at 1.
Qed.

(* ------------------------------------------------------------------ the post-condition of a call *)
Section Main.
Variable bkt : str.
Hypothesis Hbkt : bucket_ok bkt = true.

Definition wf (g : gfs) : Prop := layout_class (g_objs g) = true /\ raw_ok bkt g = true.

(* [removed k]: the object k is deleted; [touched n]: the cache entry of the name n may be dropped *)
Record post (removed touched : str -> bool) (g g' : gfs) : Prop := {
  po_objs : g_objs g' = filter (fun kv => negb (removed (fst kv))) (g_objs g);
  po_res : exists rs, g_res g' = g_res g ++ rs /\ Forall (idle_res bkt) rs;
  po_raw_incl : incl (map fst (g_raw g')) (map fst (g_raw g));
  po_raw_same : forall n, touched n = false -> alist_get n (g_raw g') = alist_get n (g_raw g);
  po_raw_gone : forall k, In k (map fst (g_objs g)) -> removed k = true -> last_is_slash k = false ->
                          alist_get (full_name bkt k) (g_raw g') = None }.

Lemma post_keys_incl r t g g' : post r t g g' -> incl (map fst (g_objs g')) (map fst (g_objs g)).
Proof. intros [H _ _ _ _]. rewrite H. intros k Hk. eapply map_fst_filter_in; eauto. Qed.

Lemma raw_ok_sub g g' :
  incl (map fst (g_objs g')) (map fst (g_objs g)) -> incl (map fst (g_raw g')) (map fst (g_raw g)) ->
  raw_ok bkt g = true -> raw_ok bkt g' = true.
Proof.
  unfold raw_ok. rewrite !forallb_forall. intros Ho Hr H n Hn.
  specialize (H n (Hr n Hn)). rewrite forallb_forall in *. intros k Hk. exact (H k (Ho k Hk)).
Qed.

Lemma post_wf r t g g' : wf g -> post r t g g' -> wf g'.
Proof.
  intros (W1 & W2) P. split.
  - rewrite (po_objs _ _ _ _ P). now apply layout_class_filter.
  - eapply raw_ok_sub; [eapply post_keys_incl; eauto | exact (po_raw_incl _ _ _ _ P) | exact W2].
Qed.

Lemma post_trans r1 r2 t g g1 g2 :
  post r1 t g g1 -> post r2 t g1 g2 -> post (fun k => r1 k || r2 k) t g g2.
Proof.
  intros P1 P2. split.
  - rewrite (po_objs _ _ _ _ P2), (po_objs _ _ _ _ P1), filter_filter'.
    apply filter_ext. intros kv. now rewrite negb_orb.
  - destruct (po_res _ _ _ _ P1) as (rs1 & E1 & F1). destruct (po_res _ _ _ _ P2) as (rs2 & E2 & F2).
    exists (rs1 ++ rs2). split; [now rewrite E2, E1, app_assoc | now apply Forall_app].
  - intros n Hn. apply (po_raw_incl _ _ _ _ P1), (po_raw_incl _ _ _ _ P2), Hn.
  - intros n Hn. now rewrite (po_raw_same _ _ _ _ P2 n Hn), (po_raw_same _ _ _ _ P1 n Hn).
  - intros k Hk Hr Hs. destruct (r1 k) eqn:E1.
    + apply alist_get_notin_none. intros Hin. apply (po_raw_incl _ _ _ _ P2) in Hin.
      pose proof (po_raw_gone _ _ _ _ P1 k Hk E1 Hs) as Hg. exact (alist_get_none_notin _ _ Hg Hin).
    + simpl in Hr. apply (po_raw_gone _ _ _ _ P2 k); auto.
      rewrite (po_objs _ _ _ _ P1). apply in_map_iff in Hk. destruct Hk as ([k0 v] & Hf & Hin). simpl in Hf. subst k0.
      apply in_map_iff. exists (k, v). split; [reflexivity|]. apply filter_In. split; [exact Hin|]. simpl. now rewrite E1.
Qed.

Lemma post_ext r r' t t' g g' :
  (forall k, In k (map fst (g_objs g)) -> r k = r' k) -> (forall n, t' n = false -> t n = false) ->
  post r t g g' -> post r' t' g g'.
Proof.
  intros Hr Ht P. split.
  - rewrite (po_objs _ _ _ _ P). apply filter_ext_in. intros kv Hin. now rewrite (Hr _ (in_keys _ _ Hin)).
  - exact (po_res _ _ _ _ P).
  - exact (po_raw_incl _ _ _ _ P).
  - intros n Hn. apply (po_raw_same _ _ _ _ P). auto.
  - intros k Hk Hrk. apply (po_raw_gone _ _ _ _ P); auto. now rewrite (Hr k Hk).
Qed.

Lemma post_refl t g : post (fun _ => false) t g g.
Proof.
  split; auto.
  - symmetry. now apply filter_true_id.
  - exists []. now rewrite app_nil_r.
  - apply incl_refl.
  - discriminate.
Qed.

(* ------------------------------------------------------------------ fuel *)
Definition fuel_ok (f : nat) (objs : gstore) (path : str) : Prop :=
  (1 <= f)%nat /\
  forall k, In k (map fst objs) -> prefixb (path ++ [SLASH]) k = true ->
            (count_slash (rest_of (path ++ [SLASH]) k) + 2 <= f)%nat.

Lemma fuel_ok_of_bound f (objs : gstore) path : (removeall_fuel objs path <= f)%nat -> fuel_ok f objs path.
Proof.
  unfold removeall_fuel. intros H. split; [lia|]. intros k Hk Hp.
  set (w := fun k => S (count_slash (rest_of (path ++ s_slash) k))) in *.
  set (ks := filter (prefixb (path ++ s_slash)) (map fst objs)) in *.
  assert (Hm : (list_max (map w ks) <= f - 1)%nat) by lia.
  apply list_max_le in Hm. rewrite Forall_forall in Hm.
  assert (Hin : In (w k) (map w ks)).
  { apply in_map. apply filter_In. split; [exact Hk | exact Hp]. }
  specialize (Hm _ Hin). unfold w, s_slash in Hm. lia.
Qed.

Lemma fuel_ok_sub f (objs objs' : gstore) path :
  incl (map fst objs') (map fst objs) -> fuel_ok f objs path -> fuel_ok f objs' path.
Proof. intros Hi (H1 & H2). split; [exact H1|]. intros k Hk. apply H2. now apply Hi. Qed.

Lemma child_assoc (path c r : str) :
  ((path ++ SLASH :: c) ++ [SLASH]) ++ r = (path ++ [SLASH]) ++ c ++ SLASH :: r.
Proof. rewrite <- !app_assoc. reflexivity. Qed.

Lemma child_prefix_decomp path c k :
  prefixb ((path ++ SLASH :: c) ++ [SLASH]) k = true ->
  exists r, k = (path ++ [SLASH]) ++ c ++ SLASH :: r /\
            rest_of (path ++ [SLASH]) k = c ++ SLASH :: r /\ rest_of ((path ++ SLASH :: c) ++ [SLASH]) k = r.
Proof.
  intros H. apply prefixb_spec in H. destruct H as (r & ->). exists r. splits.
  - apply child_assoc.
  - rewrite child_assoc. unfold rest_of. apply skipn_app_exact.
  - unfold rest_of. apply skipn_app_exact.
Qed.

Lemma fuel_ok_child f (objs : gstore) path c k0 :
  In k0 (map fst objs) -> prefixb (path ++ [SLASH]) k0 = true ->
  fuel_ok (S f) objs path -> fuel_ok f objs (path ++ SLASH :: c).
Proof.
  intros Hk0 Hp0 (_ & H). split.
  - specialize (H k0 Hk0 Hp0). lia.
  - intros k Hk Hp. destruct (child_prefix_decomp path c k Hp) as (r & Ek & R1 & R2).
    assert (Hp' : prefixb (path ++ [SLASH]) k = true) by (rewrite Ek; apply prefixb_refl_app).
    specialize (H k Hk Hp'). rewrite R1, count_slash_app in H. simpl in H. rewrite R2. lia.
Qed.

(* ------------------------------------------------------------------ children of a folder *)
Lemma is_child_ok (objs : gstore) path c :
  layout_class objs = true -> is_child objs (path ++ [SLASH]) c -> child_ok c.
Proof.
  intros Hl (k & K1 & K2 & K3 & K4).
  pose proof (layout_ok_of_class objs path Hl) as [_ Hwf _].
  apply layout_class_p in Hl. destruct Hl as [_ Hkey _].
  subst c. unfold child_ok. splits.
  - now apply Hwf.
  - apply gcomponent_noslash.
  - destruct (key_ok_facts k (Hkey k K1)) as (_ & _ & _ & Hb).
    rewrite (under_decomp _ k K2), no_bslash_app in Hb. apply andb_true_iff in Hb. destruct Hb as (_ & Hb).
    destruct (gcomponent_prefix (rest_of (path ++ [SLASH]) k)) as (t & Ht).
    rewrite Ht, no_bslash_app in Hb. apply andb_true_iff in Hb. tauto.
Qed.

(* an object under the folder, other than the placeholder, is at or under the child named by its first component *)
Lemma inside_child path k :
  prefixb (path ++ [SLASH]) k = true ->
  inside (path ++ SLASH :: gcomponent (rest_of (path ++ [SLASH]) k)) k = true.
Proof.
  intros Hp. pose proof (under_decomp _ k Hp) as E.
  destruct (gcomponent_tail (rest_of (path ++ [SLASH]) k)) as (t & Ht & [->|(t' & ->)]).
  - rewrite app_nil_r in Ht. unfold inside. rewrite <- Ht.
    replace (path ++ SLASH :: rest_of (path ++ [SLASH]) k) with k; [now rewrite beqb_refl|].
    rewrite E at 1. now rewrite <- app_assoc.
  - unfold inside. apply orb_true_iff. right. apply prefixb_spec. exists t'.
    rewrite E at 1. rewrite Ht at 1. unfold s_slash. now rewrite <- !app_assoc.
Qed.

Lemma inside_child_under path c k : inside (path ++ SLASH :: c) k = true -> prefixb (path ++ [SLASH]) k = true.
Proof.
  unfold inside. intros H. apply orb_true_iff in H. destruct H as [H|H].
  - apply beqb_eq in H. subst k. apply prefixb_spec. exists c. now rewrite <- app_assoc.
  - apply prefixb_spec in H. destruct H as (r & ->). apply prefixb_spec. exists (c ++ s_slash ++ r).
    now rewrite <- !app_assoc.
Qed.

Lemma inside_child_not_placeholder path c : c <> [] -> inside (path ++ SLASH :: c) (path ++ [SLASH]) = false.
Proof.
  intros Hc. unfold inside. apply orb_false_iff. split.
  - apply beqb_neq. intros E. change (path ++ SLASH :: c) with (path ++ [SLASH] ++ c) in E.
    rewrite app_assoc in E. rewrite <- (app_nil_r (path ++ [SLASH])) in E at 1.
    apply app_inv_head in E. now subst c.
  - change ((path ++ SLASH :: c) ++ s_slash) with ((path ++ [SLASH] ++ c) ++ [SLASH]).
    rewrite app_assoc, <- app_assoc. apply prefixb_longer. destruct c; [contradiction | discriminate].
Qed.

(* the name of a child: full name of the folder ++ "/" ++ component *)
Lemma inside_full_child path c n :
  inside (full_name bkt (path ++ SLASH :: c)) n = true -> inside (full_name bkt path) n = true.
Proof.
  unfold full_name, inside. intros H. apply orb_true_iff. right.
  replace (bkt ++ SLASH :: path ++ SLASH :: c) with ((bkt ++ SLASH :: path) ++ SLASH :: c) in H
    by (now rewrite <- app_assoc).
  exact (inside_child_under _ _ _ H).
Qed.

Definition removed_l (path : str) (l : list ginfo) (k : str) : bool :=
  existsb (fun i => inside (path ++ SLASH :: gi_base i) k) l.

(* ------------------------------------------------------------------ the induction *)
Definition ra_spec (f : nat) : Prop :=
  forall g path, wf g -> path_ok path = true -> fuel_ok f (g_objs g) path ->
  exists g', fs_remove_all cfg_patched bkt f g (full_name bkt path) = (g', UOk) /\
             post (inside path) (inside (full_name bkt path)) g g'.

(* the loop over the listing, given the recursive calls *)
Lemma ra_loop f path : ra_spec f -> path_ok path = true ->
  forall l g, wf g -> (forall i, In i l -> child_ok (gi_base i)) ->
    (forall c, child_ok c -> fuel_ok f (g_objs g) (path ++ SLASH :: c)) ->
    exists g', ra_each (fun g i => fs_remove_all cfg_patched bkt f g
                                     (full_name bkt path ++ s_slash ++ norm_seps (gi_base i))) g l = (g', UOk) /\
               post (removed_l path l) (inside (full_name bkt path)) g g'.
Proof.
  intros IH Hp. induction l as [|i rest IHl]; intros g Hwf Hch Hfuel.
  - exists g. split; [reflexivity | apply post_refl].
  - rewrite ra_each_cons.
    assert (Hci : child_ok (gi_base i)) by (apply Hch; now left).
    destruct Hci as (C1 & C2 & C3).
    rewrite (norm_seps_id _ C3), full_name_child.
    destruct (IH g (path ++ SLASH :: gi_base i) Hwf (path_ok_child path _ Hp (conj C1 (conj C2 C3)))
                 (Hfuel _ (conj C1 (conj C2 C3)))) as (g1 & E1 & P1).
    rewrite E1.
    assert (P1' : post (inside (path ++ SLASH :: gi_base i)) (inside (full_name bkt path)) g g1).
    { eapply post_ext; [reflexivity | | exact P1].
      intros n Hn. destruct (inside (full_name bkt (path ++ SLASH :: gi_base i)) n) eqn:E; [|reflexivity].
      rewrite (inside_full_child _ _ _ E) in Hn. discriminate. }
    destruct (IHl g1 (post_wf _ _ _ _ Hwf P1')) as (g2 & E2 & P2).
    + intros j Hj. apply Hch. now right.
    + intros c Hc. eapply fuel_ok_sub; [eapply post_keys_incl; exact P1' | now apply Hfuel].
    + exists g2. split; [exact E2|]. exact (post_trans _ _ _ _ _ _ P1' P2).
Qed.

Lemma removed_l_spec path l k :
  removed_l path l k = true <-> exists c, In c (map gi_base l) /\ inside (path ++ SLASH :: c) k = true.
Proof.
  unfold removed_l. rewrite existsb_exists. split.
  - intros (i & Hi & H). exists (gi_base i). split; [now apply in_map | exact H].
  - intros (c & Hc & H). apply in_map_iff in Hc. destruct Hc as (i & <- & Hi). now exists i.
Qed.

(* after the loop, of the objects of the folder only the placeholder is left *)
Lemma removed_l_total (objs : gstore) path l k :
  (forall c, In c (map gi_base l) <-> is_child objs (path ++ [SLASH]) c) ->
  In k (map fst objs) -> prefixb (path ++ [SLASH]) k = true -> k <> path ++ [SLASH] ->
  removed_l path l k = true.
Proof.
  intros Hch Hk Hp Hne. apply removed_l_spec. exists (gcomponent (rest_of (path ++ [SLASH]) k)). split.
  - apply Hch. exists k. auto.
  - now apply inside_child.
Qed.

Lemma removed_l_placeholder path l :
  (forall i, In i l -> child_ok (gi_base i)) -> removed_l path l (path ++ [SLASH]) = false.
Proof.
  intros Hch. destruct (removed_l path l (path ++ [SLASH])) eqn:E; [|reflexivity]. exfalso.
  apply removed_l_spec in E. destruct E as (c & Hc & Hin).
  apply in_map_iff in Hc. destruct Hc as (i & <- & Hi). destruct (Hch i Hi) as (C1 & _).
  rewrite (inside_child_not_placeholder path _ C1) in Hin. discriminate.
Qed.

Lemma raw_none_of_folder g path k :
  raw_ok bkt g = true -> In k (map fst (g_objs g)) -> prefixb (path ++ [SLASH]) k = true ->
  alist_get (full_name bkt path) (g_raw g) = None.
Proof.
  intros Hr Hk Hp. apply alist_get_notin_none. intros Hin.
  unfold raw_ok in Hr. rewrite forallb_forall in Hr. specialize (Hr _ Hin).
  rewrite forallb_forall in Hr. specialize (Hr k Hk). apply negb_true_iff in Hr.
  apply prefixb_spec in Hp. destruct Hp as (r & ->).
  assert (Ht : prefixb (full_name bkt path ++ s_slash) (full_name bkt ((path ++ [SLASH]) ++ r)) = true).
  { apply prefixb_spec. exists r. unfold full_name, s_slash. now rewrite <- !app_assoc. }
  congruence.
Qed.

Lemma in_dec_str (k : str) (l : list str) : {In k l} + {~ In k l}.
Proof. apply in_dec. apply list_eq_dec. apply N.eq_dec. Qed.

Lemma ra_step f : ra_spec f -> ra_spec (S f).
Proof.
  intros IH g path Hwf Hp Hfuel. destruct Hwf as (Hl & Hraw).
  destruct (path_ok_facts _ Hp) as (P1 & _ & _ & _).
  pose proof (proj1 (layout_class_p _) Hl) as [Lnd Lkey Lfree].
  rewrite fs_remove_all_S. cbv zeta.
  rewrite (norm_name_full bkt path Hbkt Hp), (gvalidate_full bkt), (fs_stat_full bkt Hbkt g path Hp).
  destruct (alist_get path (g_objs g)) as [d|] eqn:Eg.
  - (* the name is an object *)
    rewrite (nfi_object bkt Hbkt (g_objs g) path d P1 Eg). cbn [gi_dir negb].
    rewrite (fs_remove_object bkt Hbkt cfg_patched g path d Hp Eg).
    pose proof (alist_get_some_in _ _ _ Eg) as Hin.
    eexists. split; [reflexivity|]. split; cbn [g_objs g_res g_raw].
    + rewrite alist_del_filter. apply filter_ext_in. intros kv Hkv. f_equal. unfold inside.
      rewrite (Lfree path (fst kv) Hin (in_keys _ _ Hkv)), orb_false_r. apply beqb_sym.
    + exists []. now rewrite app_nil_r.
    + apply alist_del_keys_incl.
    + intros n Hn. apply alist_get_del_other. unfold inside in Hn. apply orb_false_iff in Hn. tauto.
    + intros k Hk Hr _. unfold inside in Hr. rewrite (Lfree path k Hin Hk), orb_false_r in Hr.
      apply beqb_eq in Hr. subst k. apply alist_get_del_same.
  - rewrite (nfi_noobj bkt Hbkt (g_objs g) path Hp Eg).
    destruct (list_page (g_objs g) (path ++ [SLASH])) as [|e0 pg] eqn:Epg.
    + (* nothing there *)
      pose proof (proj1 (list_page_nil _ _) Epg) as Hno.
      exists g. split; [reflexivity|].
      eapply post_ext; [| |apply (post_refl (inside (full_name bkt path)))]; [|auto].
      intros k Hk. symmetry. unfold inside, s_slash. rewrite (Hno k Hk), orb_false_r.
      apply beqb_neq. intros ->. exact (alist_get_none_notin _ _ Eg Hk).
    + (* a folder *)
      assert (Hex : exists k0, In k0 (map fst (g_objs g)) /\ prefixb (path ++ [SLASH]) k0 = true).
      { apply exists_prefixed. intros H. apply list_page_nil in H. rewrite H in Epg. discriminate. }
      destruct Hex as (k0 & Hk0 & Hp0).
      set (own := mkGI (full_name bkt (path ++ [SLASH])) true folder_size).
      assert (Hinfo : new_file_info bkt (g_objs g) (full_name bkt path) = inr own).
      { rewrite (nfi_noobj bkt Hbkt (g_objs g) path Hp Eg), Epg. reflexivity. }
      cbn [gi_dir negb].
      rewrite (fs_open_dir_exact bkt Hbkt g path own Hp (raw_none_of_folder g path k0 Hraw Hk0 Hp0) Hinfo).
      set (r := mkR (full_name bkt path) bkt path 0 0 None None).
      destruct (h_readdir_dir_exact bkt Hbkt (g_objs g) (g_res g) (g_raw g) path own Hp Hl Hinfo eq_refl)
        as (l & Hrd & Hch).
      fold r in Hrd. rewrite Hrd.
      set (g1 := mkG (g_objs g) (g_res g ++ [r]) (g_raw g)) in *.
      assert (Hwf1 : wf g1) by (split; assumption).
      assert (Hcok : forall i, In i l -> child_ok (gi_base i)).
      { intros i Hi. apply (is_child_ok (g_objs g) path _ Hl). apply Hch. now apply in_map. }
      destruct (ra_loop f path IH Hp l g1 Hwf1 Hcok) as (g3 & E3 & P3).
      { intros c _. cbn [g1 g_objs]. exact (fuel_ok_child f (g_objs g) path c k0 Hk0 Hp0 Hfuel). }
      rewrite E3.
      pose proof (post_wf _ _ _ _ Hwf1 P3) as (Hl3 & Hraw3).
      pose proof (post_keys_incl _ _ _ _ P3) as Hinc3. cbn [g1 g_objs] in Hinc3.
      assert (Hg3 : alist_get path (g_objs g3) = None).
      { apply alist_get_notin_none. intros Hin. exact (alist_get_none_notin _ _ Eg (Hinc3 _ Hin)). }
      (* what is left under the folder in g3: at most the placeholder *)
      assert (Honly : forall k, In k (map fst (g_objs g3)) -> prefixb (path ++ [SLASH]) k = true -> k = path ++ [SLASH]).
      { intros k Hk Hpk. destruct (list_eq_dec N.eq_dec k (path ++ [SLASH])) as [|Hne]; [assumption|]. exfalso.
        pose proof (removed_l_total (g_objs g) path l k Hch (Hinc3 _ Hk) Hpk Hne) as Hr.
        rewrite (po_objs _ _ _ _ P3) in Hk. cbn [g1 g_objs] in Hk.
        apply in_map_iff in Hk. destruct Hk as (kv & <- & Hkv). apply filter_In in Hkv.
        destruct Hkv as (_ & Hkv). rewrite Hr in Hkv. discriminate. }
      (* the objects removed altogether *)
      assert (Hrem : forall k, In k (map fst (g_objs g)) ->
                (removed_l path l k || beqb k (path ++ [SLASH])) = inside path k).
      { intros k Hk. apply eq_true_iff_eq. rewrite orb_true_iff. unfold inside. rewrite orb_true_iff. split.
        - intros [H|H].
          + right. apply removed_l_spec in H. destruct H as (c & _ & H). exact (inside_child_under _ _ _ H).
          + right. apply beqb_eq in H. subst k. apply prefixb_spec. exists []. now rewrite app_nil_r.
        - intros [H|H].
          + apply beqb_eq in H. subst k. exfalso. exact (alist_get_none_notin _ _ Eg Hk).
          + destruct (list_eq_dec N.eq_dec k (path ++ [SLASH])) as [->|Hne]; [right; apply beqb_refl|].
            left. exact (removed_l_total (g_objs g) path l k Hch Hk H Hne). }
      assert (Ptouch : forall n, inside (full_name bkt path) n = false -> inside (full_name bkt path) n = false) by auto.
      assert (P13 : post (removed_l path l) (inside (full_name bkt path)) g g3).
      { destruct P3 as [A1 A2 A3 A4 A5]. split; auto.
        destruct A2 as (rs & Ers & Frs). cbn [g1 g_res] in Ers. exists (r :: rs). split.
        - rewrite Ers, <- app_assoc. reflexivity.
        - constructor; [|exact Frs]. unfold idle_res, r. cbn. auto. }
      destruct (in_dec_str (path ++ [SLASH]) (map fst (g_objs g))) as [Hph|Hph].
      * (* explicit folder: the placeholder is removed by the final Remove *)
        assert (Hph3 : In (path ++ [SLASH]) (map fst (g_objs g3))).
        { rewrite (po_objs _ _ _ _ P3). cbn [g1 g_objs].
          apply in_map_iff in Hph. destruct Hph as ([k v] & Hf & Hkv). simpl in Hf. subst k.
          apply in_map_iff. exists (path ++ [SLASH], v). split; [reflexivity|]. apply filter_In. split; [exact Hkv|].
          cbn [fst]. now rewrite (removed_l_placeholder path l Hcok). }
        rewrite (fs_remove_placeholder bkt Hbkt g3 path Hp Hl3 Hg3 Hph3 Honly).
        eexists. split; [reflexivity|].
        eapply post_ext; [exact Hrem | exact Ptouch |].
        eapply post_trans; [exact P13|].
        split; cbn [g_objs g_res g_raw].
        -- rewrite alist_del_filter. apply filter_ext. intros kv. now rewrite beqb_sym.
        -- exists [r]. split; [reflexivity|]. constructor; [|constructor]. unfold idle_res, r. cbn. auto.
        -- apply alist_del_keys_incl.
        -- intros n Hn. apply alist_get_del_other. unfold inside in Hn. apply orb_false_iff in Hn. tauto.
        -- intros k _ Hk Hs. apply beqb_eq in Hk. subst k. exfalso.
           unfold last_is_slash in Hs. rewrite rev_app_distr in Hs. cbn in Hs. discriminate.
      * (* implicit folder: gone with its last object; Remove answers ENOENT, RemoveAll nil *)
        rewrite (fs_remove_absent bkt Hbkt cfg_patched g3 path Hp Hg3).
        -- cbn [fix_d20 cfg_patched]. exists g3. split; [reflexivity|].
           eapply post_ext; [| exact Ptouch | exact P13].
           intros k Hk. rewrite <- (Hrem k Hk).
           rewrite (beqb_neq k (path ++ [SLASH])); [now rewrite orb_false_r|]. intros ->. contradiction.
        -- intros k Hk. destruct (prefixb (path ++ [SLASH]) k) eqn:E; [|reflexivity]. exfalso.
           apply Hph. rewrite <- (Honly k Hk E). now apply Hinc3.
Qed.

Theorem ra_all : forall f, ra_spec f.
Proof.
  induction f as [|f IH]; [|now apply ra_step].
  intros g path _ _ (H & _). lia.
Qed.

End Main.

(* ------------------------------------------------------------------ C20: RemoveAll removes the subtree and nothing else *)
Theorem removeall_exactly_subtree bkt fuel g path :
  bucket_ok bkt = true -> path_ok path = true ->
  layout_class (g_objs g) = true -> raw_ok bkt g = true ->
  (removeall_fuel (g_objs g) path <= fuel)%nat ->
  let name := full_name bkt path in
  exists g' rs,
    fs_remove_all cfg_patched bkt fuel g name = (g', UOk) /\
    g_objs g' = filter (fun kv => negb (beqb (fst kv) path || prefixb (path ++ [SLASH]) (fst kv))) (g_objs g) /\
    g_res g' = g_res g ++ rs /\ Forall (idle_res bkt) rs /\
    incl (map fst (g_raw g')) (map fst (g_raw g)) /\
    (forall n, n <> name -> prefixb (name ++ [SLASH]) n = false -> alist_get n (g_raw g') = alist_get n (g_raw g)) /\
    (forall k, In k (map fst (g_objs g)) -> k = path \/ prefixb (path ++ [SLASH]) k = true ->
               last_is_slash k = false -> alist_get (full_name bkt k) (g_raw g') = None) /\
    layout_class (g_objs g') = true /\ raw_ok bkt g' = true.
Proof.
  intros Hb Hp Hl Hr Hf name.
  destruct (ra_all bkt Hb fuel g path (conj Hl Hr) Hp (fuel_ok_of_bound _ _ _ Hf)) as (g' & E & P).
  pose proof (post_wf bkt _ _ _ _ (conj Hl Hr) P) as (Hl' & Hr').
  destruct P as [A1 (rs & A2 & A2') A3 A4 A5].
  exists g', rs. splits; auto.
  - intros n Hn Hpre. apply A4. unfold inside. apply orb_false_iff. split; [now apply beqb_neq | exact Hpre].
  - intros k Hk Hin Hs. apply A5; auto. unfold inside. apply orb_true_iff.
    destruct Hin as [->|Hin]; [left; apply beqb_refl | right; exact Hin].
Qed.

(* ------------------------------------------------------------------ the listing / Remove theorems with the same class *)
Lemma class_folder_no_object (objs : gstore) path k :
  layout_class objs = true -> In k (map fst objs) -> prefixb (path ++ [SLASH]) k = true ->
  alist_get path objs = None.
Proof.
  intros Hl Hk Hp. apply alist_get_notin_none. intros Hin.
  apply layout_class_p in Hl. destruct Hl as [_ _ Hfree].
  unfold s_slash in Hfree. rewrite (Hfree path k Hin Hk) in Hp. discriminate.
Qed.

Lemma class_folder_info bkt (objs : gstore) path k :
  bucket_ok bkt = true -> path_ok path = true -> layout_class objs = true ->
  In k (map fst objs) -> prefixb (path ++ [SLASH]) k = true ->
  new_file_info bkt objs (full_name bkt path) = inr (mkGI (full_name bkt (path ++ [SLASH])) true folder_size).
Proof.
  intros Hb Hp Hl Hk Hpk.
  rewrite (nfi_noobj bkt Hb objs path Hp (class_folder_no_object objs path k Hl Hk Hpk)).
  destruct (list_page objs (path ++ [SLASH])) eqn:E; [|reflexivity].
  exfalso. exact (page_nonempty _ _ _ Hk Hpk E).
Qed.

Theorem listing_once_each_class bkt (objs : gstore) path k count :
  bucket_ok bkt = true -> path_ok path = true -> layout_class objs = true ->
  In k (map fst objs) -> prefixb (path ++ [SLASH]) k = true -> count <= 0 ->
  let r := mkR (full_name bkt path) bkt path 0 0 None None in
  exists l, gf_readdir cfg_patched bkt objs r count = (objs, r, LList l None) /\
            (forall c, In c (map gi_base l) <-> is_child objs (path ++ [SLASH]) c) /\ NoDup (map gi_base l).
Proof.
  intros Hb Hp Hl Hk Hpk Hc r. destruct (bucket_ok_facts _ Hb) as (_ & B2 & _).
  apply (listing_once_each bkt objs (full_name bkt path) path _ count
           (class_folder_info bkt objs path k Hb Hp Hl Hk Hpk) eq_refl); auto.
  - rewrite (ensure_trailing_full bkt path Hp). now apply split_name_full.
  - now apply layout_ok_of_class.
Qed.

Theorem remove_nonempty_refused_class bkt g path c :
  bucket_ok bkt = true -> path_ok path = true -> layout_class (g_objs g) = true ->
  is_child (g_objs g) (path ++ [SLASH]) c ->
  exists g', fs_remove cfg_patched bkt g (full_name bkt path) = (g', UErr GENOTEMPTY) /\ g_objs g' = g_objs g.
Proof.
  intros Hb Hp Hl Hch. destruct (bucket_ok_facts _ Hb) as (_ & B2 & _).
  destruct Hch as (k & K1 & K2 & K3 & K4).
  apply (remove_refused_when_child bkt g (full_name bkt path) path _ c
           (norm_name_full bkt path Hb Hp) (full_name_nonempty bkt path) (split_name_full bkt path B2)
           (class_folder_info bkt (g_objs g) path k Hb Hp Hl K1 K2) eq_refl).
  - rewrite (ensure_trailing_full bkt path Hp). now apply split_name_full.
  - now apply layout_ok_of_class.
  - exists k. auto.
Qed.
