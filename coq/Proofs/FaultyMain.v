(* Proofs/FaultyMain.v — the C12 statements in their final form (name hypothesis discharged by
   Proofs/FaultyPath.v) and the non-vacuity facts used by Props/C12.v *)
From AF Require Import Lib.Bytes Lib.Path Lib.Ops Gen.Consts Model.MemFile Model.MemFs Model.Union Model.Cow Model.Cache
  Model.Faulty Proofs.PathProof Proofs.FaultyMem Proofs.FaultyPath Proofs.FaultyProof.
Local Open Scope Z_scope.

Lemma acyclic_of_normal name : normalize_path name = name -> name <> s_slash -> name_acyclic name.
Proof. intros Hn Hne. exact (name_acyclic_normal name Hn Hne). Qed.

Lemma c12_layer name pl sb sl dat o n0 :
  normalize_path name = name -> name <> s_slash -> amo_from pl n0 ->
  reg_file sb name dat -> layer_sane sl name -> read_open name o ->
  exists sb' sl' n' r,
    copy_to_layer_with m_step (faulty_step m_step pl) sb (sl, n0) name o = (sb', (sl', n'), r) /\
    three_way sl sl' name dat r /\ layer_sane sl' name /\ cosmetic sb sb' /\
    (r <> None -> exists i, (n0 <= i < n')%nat /\ pl i <> FltPass).
Proof.
  intros Hn Hne Hamo Hb Hs Ho.
  destruct (copy_atomic_layer name pl sb sl dat o n0 Hn (acyclic_of_normal name Hn Hne) Hamo Hb Hs Ho)
    as (sb' & sl' & n' & r & E & C & S' & _ & U & T).
  exists sb', sl', n', r. split; [exact E|]. split; [exact T|]. split; [exact S'|]. split; [exact C | exact U].
Qed.

Lemma c12_copy_atomic name pl sb sl dat :
  normalize_path name = name -> name <> s_slash -> at_most_one_fault pl ->
  reg_file sb name dat -> layer_sane sl name ->
  exists sb' sl' n r,
    copy_to_layer m_step (faulty_step m_step pl) sb (sl, 0%nat) name = (sb', (sl', n), r) /\
    three_way sl sl' name dat r /\ layer_sane sl' name /\ cosmetic sb sb'.
Proof.
  intros Hn Hne Hamo Hb Hs.
  destruct (c12_layer name pl sb sl dat (Open name) 0 Hn Hne (amo_from_all pl 0 Hamo) Hb Hs (or_introl eq_refl))
    as (sb' & sl' & n' & r & E & T & S' & C & _).
  exists sb', sl', n', r. split; [exact E|]. split; [exact T|]. split; [exact S' | exact C].
Qed.

Lemma c12_base name pl sb sl dat o nB :
  normalize_path name = name -> name <> s_slash ->
  reg_file sb name dat -> layer_sane sl name -> read_open name o ->
  exists sb' n' sl' r,
    copy_to_layer_with (faulty_step m_step pl) m_step (sb, nB) sl name o = ((sb', n'), sl', r) /\
    three_way sl sl' name dat r /\ layer_sane sl' name /\ cosmetic sb sb'.
Proof.
  intros Hn Hne Hb Hs Ho.
  destruct (copy_atomic_base name pl sb nB sl dat o Hn (acyclic_of_normal name Hn Hne) Hb Hs Ho)
    as (sb' & n' & sl' & r & E & C & S' & T).
  exists sb', n', sl', r. split; [exact E|]. split; [exact T|]. split; [exact S' | exact C].
Qed.

Lemma c12_next name pl sb sl dat o o2 n0 sb' sl' n' e :
  normalize_path name = name -> name <> s_slash -> amo_from pl n0 ->
  reg_file sb name dat -> layer_sane sl name -> read_open name o -> read_open name o2 ->
  copy_to_layer_with m_step (faulty_step m_step pl) sb (sl, n0) name o = (sb', (sl', n'), Some e) ->
  exists sb'' sl'' n'',
    copy_to_layer_with m_step (faulty_step m_step pl) sb' (sl', n') name o2 = (sb'', (sl'', n''), None) /\
    exists nd, fs_entry sl'' name = Some nd /\ ndir nd = false /\ ndata nd = dat.
Proof. intros Hn Hne. apply next_copy_is_full; [exact Hn | now apply acyclic_of_normal]. Qed.

Lemma c12_fault_free name pl sb sl dat o n0 :
  normalize_path name = name -> name <> s_slash -> (forall i, (n0 <= i)%nat -> pl i = FltPass) ->
  reg_file sb name dat -> layer_sane sl name -> read_open name o ->
  exists sb' sl' n',
    copy_to_layer_with m_step (faulty_step m_step pl) sb (sl, n0) name o = (sb', (sl', n'), None) /\
    cosmetic sb sb' /\ layer_sane sl' name /\
    exists nd, fs_entry sl' name = Some nd /\ ndir nd = false /\ ndata nd = dat.
Proof. intros Hn Hne. apply copy_fault_free; [exact Hn | now apply acyclic_of_normal]. Qed.

(* after ANY run with a faulty base, a copy with the base read directly is complete *)
Lemma c12_next_after_base_fault name pl sb sl dat o o2 nB sb' n' sl' r :
  normalize_path name = name -> name <> s_slash ->
  reg_file sb name dat -> layer_sane sl name -> read_open name o -> read_open name o2 ->
  copy_to_layer_with (faulty_step m_step pl) m_step (sb, nB) sl name o = ((sb', n'), sl', r) ->
  exists sb'' sl'' k,
    copy_to_layer_with m_step (faulty_step m_step fault_none) sb' (sl', 0%nat) name o2 = (sb'', (sl'', k), None) /\
    exists nd, fs_entry sl'' name = Some nd /\ ndir nd = false /\ ndata nd = dat.
Proof.
  intros Hn Hne Hb Hs Ho Ho2 E.
  destruct (c12_base name pl sb sl dat o nB Hn Hne Hb Hs Ho) as (sb1 & n1 & sl1 & r1 & E1 & _ & S1 & C1).
  rewrite E in E1. inversion E1; subst sb1 n1 sl1 r1.
  destruct (c12_fault_free name fault_none sb' sl' dat o2 0 Hn Hne (fun _ _ => eq_refl)
              (cosmetic_reg_file _ _ _ _ C1 Hb) S1 Ho2) as (sb'' & sl'' & k & E2 & _ & _ & H).
  now exists sb'', sl'', k.
Qed.

Lemma c12_cow name pl sb sl tbl flag perm dat :
  normalize_path name = name -> name <> s_slash -> at_most_one_fault pl ->
  reg_file sb name dat -> layer_sane sl name -> lookup sl name = None -> Z.land flag cow_mask <> 0 ->
  exists sb2 sl2 n2 rc,
    three_way sl sl2 name dat rc /\ layer_sane sl2 name /\
    match rc with
    | Some ce => cow_step m_step (faulty_step m_step pl) (sb, (sl, 0%nat), tbl) (OpenFile name flag perm)
                 = ((sb2, (sl2, n2), tbl), RErr ce)
    | None => cow_step m_step (faulty_step m_step pl) (sb, (sl, 0%nat), tbl) (OpenFile name flag perm)
              = open_layer (faulty_step m_step pl) sb2 (sl2, n2) tbl (OpenFile name flag perm)
    end.
Proof. intros Hn Hne. apply cow_openfile_interrupted; [exact Hn | now apply acyclic_of_normal]. Qed.

(* CacheOnReadFs.copyToLayer (cache_copy_to_layer: base Stat, then the copy) *)
Lemma c12_cache_copy name pl sb sl dat n0 :
  normalize_path name = name -> name <> s_slash -> amo_from pl n0 ->
  reg_file sb name dat -> layer_sane sl name ->
  exists sb' sl' n' r,
    cache_copy_to_layer m_step (faulty_step m_step pl) sb (sl, n0) name = (sb', (sl', n'), r) /\
    three_way sl sl' name dat r /\ layer_sane sl' name /\ cosmetic sb sb' /\
    (r <> None -> exists i, (n0 <= i < n')%nat /\ pl i <> FltPass).
Proof.
  intros Hn Hne Hamo Hb Hs.
  destruct (cache_copy_atomic_layer name pl sb sl dat n0 Hn (acyclic_of_normal name Hn Hne) Hamo Hb Hs)
    as (sb' & sl' & n' & r & E & C & S' & _ & U & T).
  exists sb', sl', n', r. split; [exact E|]. split; [exact T|]. split; [exact S'|]. split; [exact C | exact U].
Qed.

Lemma c12_cache_copy_base name pl sb sl dat nB :
  normalize_path name = name -> name <> s_slash ->
  reg_file sb name dat -> layer_sane sl name ->
  exists sb' n' sl' r,
    cache_copy_to_layer (faulty_step m_step pl) m_step (sb, nB) sl name = ((sb', n'), sl', r) /\
    three_way sl sl' name dat r /\ layer_sane sl' name /\ cosmetic sb sb'.
Proof.
  intros Hn Hne Hb Hs.
  destruct (cache_copy_atomic_base name pl sb nB sl dat Hn (acyclic_of_normal name Hn Hne) Hb Hs)
    as (sb' & n' & sl' & r & E & C & S' & T).
  exists sb', n', sl', r. split; [exact E|]. split; [exact T|]. split; [exact S' | exact C].
Qed.

(* plans with one entry have at most one fault *)
Lemma amo_single i f : at_most_one_fault (fault_single i f).
Proof.
  intros a b Ha Hb. unfold fault_single, fault_plan_of in *. cbn [fault_lookup] in *.
  destruct (Nat.eqb i a) eqn:Ea; [|congruence]. destruct (Nat.eqb i b) eqn:Eb; [|congruence].
  apply Nat.eqb_eq in Ea, Eb. congruence.
Qed.

Lemma amo_none : at_most_one_fault fault_none.
Proof. intros a b Ha. now contradiction Ha. Qed.
